//go:build verif

package dissolve

// W6c: the real Dissolver (1..3 workers) with jobs that fail a generated number of
// times before they succeed (some take virtual time), Submit from 1..2 tasks and Close
// at an arbitrary point. Decides C40.

import (
	"context"
	"errors"
	"fmt"
	"io"
	"time"

	simrt "github.com/centrifugal/centrifuge/internal/simrt"
)

type w6cJob struct {
	Fails   int `json:"fails"`
	SleepUs int `json:"us"`
	// PreYield: the job's first action is a scheduling point, i.e. the worker may be
	// preempted between taking the job from the queue and the job's first instruction
	// (the code under test has no synchronisation operation there)
	PreYield bool `json:"pre_yield,omitempty"`
	// ErrKind: which error the failing runs return (rotating from this index): a plain
	// error, context.Canceled (wrapped), context.DeadlineExceeded, io.EOF, a nil-message
	// custom error - "failed runs are retried" holds whatever the error is
	ErrKind int `json:"err_kind,omitempty"`
}

type w6cOp struct {
	K       string `json:"k"` // "submit" | "sleep" | "close"
	Job     int    `json:"job,omitempty"`
	SleepUs int    `json:"us,omitempty"`
}

type w6cScript struct {
	// RunDelayUs > 0: Run() is called that much later, so some jobs are submitted to a
	// dissolver whose workers have not been started yet (Node.Run starts it last)
	RunDelayUs int       `json:"run_delay_us,omitempty"`
	Workers    int       `json:"workers"`
	Jobs    []w6cJob  `json:"jobs"`
	Tasks   [][]w6cOp `json:"tasks"`
}

func w6cGen(c *simrt.Choice, prop, tier string) any {
	sc := &w6cScript{Workers: 1 + c.Pick(4, 3, 3)}
	maxJobs := 8
	if tier == "thorough" {
		maxJobs = 20
	}
	nj := 1 + c.Intn(maxJobs)
	for i := 0; i < nj; i++ {
		sc.Jobs = append(sc.Jobs, w6cJob{Fails: c.Pick(4, 3, 2, 1), SleepUs: []int{0, 0, 20, 300, 4000}[c.Intn(5)], PreYield: c.Intn(2) == 1, ErrKind: c.Pick(3, 1, 1, 1, 1)})
	}
	sc.RunDelayUs = []int{0, 0, 0, 1, 30, 700}[c.Intn(6)]
	nt := 1 + c.Intn(2)
	sc.Tasks = make([][]w6cOp, nt)
	for i := 0; i < nj; i++ {
		t := c.Intn(nt)
		if c.Intn(3) == 0 {
			sc.Tasks[t] = append(sc.Tasks[t], w6cOp{K: "sleep", SleepUs: []int{1, 25, 500, 6000}[c.Intn(4)]})
		}
		sc.Tasks[t] = append(sc.Tasks[t], w6cOp{K: "submit", Job: i})
	}
	if c.Intn(2) == 1 {
		t := c.Intn(nt)
		pos := c.Intn(len(sc.Tasks[t]) + 1)
		ops := append([]w6cOp(nil), sc.Tasks[t][:pos]...)
		if c.Intn(2) == 1 {
			ops = append(ops, w6cOp{K: "sleep", SleepUs: []int{1, 25, 500, 6000}[c.Intn(4)]})
		}
		ops = append(ops, w6cOp{K: "close"})
		ops = append(ops, sc.Tasks[t][pos:]...)
		sc.Tasks[t] = ops
	}
	return sc
}

func w6cShrinks(script any) []any {
	sc := script.(*w6cScript)
	var out []any
	clone := func() *w6cScript {
		c := *sc
		c.Jobs = append([]w6cJob(nil), sc.Jobs...)
		c.Tasks = nil
		for _, t := range sc.Tasks {
			c.Tasks = append(c.Tasks, append([]w6cOp(nil), t...))
		}
		return &c
	}
	for t := range sc.Tasks {
		for i := range sc.Tasks[t] {
			c := clone()
			c.Tasks[t] = append(c.Tasks[t][:i], c.Tasks[t][i+1:]...)
			out = append(out, c)
		}
	}
	if len(sc.Tasks) > 1 {
		// merge the tasks
		c := clone()
		c.Tasks = [][]w6cOp{append(append([]w6cOp(nil), sc.Tasks[0]...), sc.Tasks[1]...)}
		out = append(out, c)
	}
	if sc.Workers > 1 {
		c := clone()
		c.Workers--
		out = append(out, c)
	}
	if sc.RunDelayUs > 0 {
		c := clone()
		c.RunDelayUs = 0
		out = append(out, c)
	}
	for i, j := range sc.Jobs {
		if j.ErrKind != 0 {
			c := clone()
			c.Jobs[i].ErrKind = 0
			out = append(out, c)
		}
	}
	// drop job i together with its submit operation (later jobs are renumbered)
	for i := range sc.Jobs {
		if len(sc.Jobs) < 2 {
			break
		}
		c := clone()
		c.Jobs = append(c.Jobs[:i], c.Jobs[i+1:]...)
		for t := range c.Tasks {
			var ops []w6cOp
			for _, op := range c.Tasks[t] {
				if op.K == "submit" {
					if op.Job == i {
						continue
					}
					if op.Job > i {
						op.Job--
					}
				}
				ops = append(ops, op)
			}
			c.Tasks[t] = ops
		}
		out = append(out, c)
	}
	for i, j := range sc.Jobs {
		if j.Fails > 0 {
			c := clone()
			c.Jobs[i].Fails--
			out = append(out, c)
		}
		if j.SleepUs > 0 {
			c := clone()
			c.Jobs[i].SleepUs = 0
			out = append(out, c)
		}
		if j.PreYield {
			c := clone()
			c.Jobs[i].PreYield = false
			out = append(out, c)
		}
	}
	return out
}

type w6cExec struct {
	start, end int64
	startAt    time.Duration
	failed     bool
}

type w6cJobState struct {
	idx                  int
	submitted            bool
	subInv, subRet       int64
	subRetAt             time.Duration
	accepted             bool
	runs                 []*w6cExec
	running              bool
	succeeded            bool
	succeededAtCloseInv  bool
	unfinishedAtCloseInv bool
}

var errW6c = errors.New("sim job failure")

type w6cEmptyErr struct{}

func (w6cEmptyErr) Error() string { return "" }

func w6cErr(kind int) error {
	switch kind % 5 {
	case 1:
		return fmt.Errorf("sim job interrupted: %w", context.Canceled)
	case 2:
		return context.DeadlineExceeded
	case 3:
		return io.EOF
	case 4:
		return w6cEmptyErr{}
	}
	return errW6c
}

const w6cSlack = time.Millisecond

func w6cRun(s *simrt.Sim, script any, prop string) {
	sc := script.(*w6cScript)
	var ev int64
	next := func() int64 { ev++; return ev }
	jobs := make([]*w6cJobState, len(sc.Jobs))
	for i := range jobs {
		jobs[i] = &w6cJobState{idx: i}
	}
	// total virtual time all executions of all jobs need: the only bound on completion
	// (the package re-queues a failed job immediately, it has no retry delay of its own)
	var totalWork time.Duration
	for _, j := range sc.Jobs {
		totalWork += time.Duration(j.Fails+1) * time.Duration(j.SleepUs) * time.Microsecond
	}
	var closeInv, closeRet int64
	var closeInvAt time.Duration
	allowance := 0 // workers that were not executing a job when Close returned
	startsAfterClose := 0
	nRunning := 0
	maxParallel := 0

	d := New(sc.Workers)
	queueLeftAtClose := -1 // entries the queue still held when Close returned (in-package read)
	var runAt time.Duration
	if sc.RunDelayUs > 0 {
		s.Probe("late_run")
		s.Go(func() {
			s.Sleep(time.Duration(sc.RunDelayUs) * time.Microsecond)
			runAt = s.Now()
			_ = d.Run()
		})
	} else {
		_ = d.Run()
	}

	mkJob := func(js *w6cJobState) Job {
		spec := sc.Jobs[js.idx]
		return func() error {
			if spec.PreYield {
				s.Pause()
			}
			r := &w6cExec{start: next(), startAt: s.Now()}
			if js.succeeded {
				s.Violate("C40", "run-after-success", "job executed again after it succeeded", "job %d run %d started (ev %d) after its success", js.idx, len(js.runs)+1, r.start)
				if len(js.runs) > spec.Fails+3 {
					// the violation is recorded; park this worker for good so that a re-queue
					// loop cannot spin without ever passing virtual time
					select {}
				}
			}
			if js.running {
				s.Violate("C40", "run-after-success", "job executed concurrently with itself", "job %d run %d started (ev %d) while an earlier run is still executing", js.idx, len(js.runs)+1, r.start)
			}
			if !js.accepted && js.subRet != 0 {
				s.Violate("C40", "rejected-job-executed", "job executed although Submit returned an error", "job %d executed (ev %d) although its Submit failed", js.idx, r.start)
			}
			if closeRet != 0 {
				startsAfterClose++
				s.Probe("start_after_close")
				switch {
				case len(js.runs) > 0 && js.runs[len(js.runs)-1].end > closeRet:
					s.Violate("C40", "retry-after-close", "failed job re-run although its failure came after Close returned", "job %d: run %d failed at ev %d, Close returned at ev %d, run %d started at ev %d", js.idx, len(js.runs), js.runs[len(js.runs)-1].end, closeRet, len(js.runs)+1, r.start)
				case queueLeftAtClose > 0:
					// distinguishes "a worker already held the job when Close ran" (the recorded
					// finding below) from "Close left jobs in the queue and a worker took one
					// afterwards": the unchanged Close empties the queue, so this never fires there
					s.Violate("C40", "queued-job-run-after-close", "job execution started after Close returned and Close had left jobs in the queue", "job %d run %d started at ev %d; Close returned at ev %d leaving %d queued entries", js.idx, len(js.runs)+1, r.start, closeRet, queueLeftAtClose)
				case startsAfterClose > allowance:
					s.Violate("C40", "drain-after-close", "more job executions started after Close returned than workers could already hold", "job %d started at ev %d: start number %d after Close returned (ev %d); %d workers, %d of them were executing when Close returned", js.idx, r.start, startsAfterClose, closeRet, sc.Workers, sc.Workers-allowance)
				default:
					s.Violate("C40", "start-after-close", "job execution started after Close returned (job taken from the queue before Close)", "job %d run %d started at ev %d (t=%v); Close returned at ev %d", js.idx, len(js.runs)+1, r.start, r.startAt, closeRet)
				}
			}
			js.runs = append(js.runs, r)
			js.running = true
			nRunning++
			if nRunning > maxParallel {
				maxParallel = nRunning
			}
			s.Event("job %d run %d start", js.idx, len(js.runs))
			if spec.SleepUs > 0 {
				s.Sleep(time.Duration(spec.SleepUs) * time.Microsecond)
			}
			js.running = false
			nRunning--
			r.end = next()
			if len(js.runs) <= spec.Fails {
				r.failed = true
				s.Fault("job_failure")
				return w6cErr(spec.ErrKind + len(js.runs) - 1)
			}
			js.succeeded = true
			return nil
		}
	}

	doClose := func() {
		closeInv = next()
		closeInvAt = s.Now()
		for _, js := range jobs {
			js.succeededAtCloseInv = js.succeeded
			js.unfinishedAtCloseInv = js.accepted && !js.succeeded
		}
		_ = d.Close()
		closeRet = next()
		allowance = sc.Workers - nRunning
		if q, ok := d.queue.(*queueImpl); ok {
			// plain read, no lock: taking the lock would be a scheduling point between the
			// return of Close and this observation (the run token serialises all instrumented
			// code, so the read cannot overlap a write)
			queueLeftAtClose = q.cnt
		}
		s.Event("close running=%d", nRunning)
	}

	done := make(chan struct{}, len(sc.Tasks))
	midClose := false
	for _, ops := range sc.Tasks {
		ops := ops
		s.Go(func() {
			defer func() { done <- struct{}{} }()
			for _, op := range ops {
				switch op.K {
				case "sleep":
					s.Sleep(time.Duration(op.SleepUs) * time.Microsecond)
				case "submit":
					if op.Job >= len(jobs) || jobs[op.Job].submitted {
						continue
					}
					js := jobs[op.Job]
					js.submitted = true
					job := mkJob(js)
					s.Pause()
					js.subInv = next()
					closedBefore := closeRet != 0
					closeBegun := closeInv != 0
					err := d.Submit(job)
					js.subRet = next()
					js.subRetAt = s.Now()
					js.accepted = err == nil
					if closedBefore {
						s.Probe("submit_after_close")
						if err == nil {
							s.Violate("C40", "submit-after-close", "Submit accepted a job after Close returned", "job %d: Submit invoked at ev %d after Close returned (ev %d) and returned nil", js.idx, js.subInv, closeRet)
						}
					} else if !closeBegun && closeInv == 0 && err != nil {
						s.Violate("C40", "submit-rejected", "Submit failed while the dissolver was open", "job %d: Submit (ev %d..%d) returned %v, Close not begun", js.idx, js.subInv, js.subRet, err)
					}
				case "close":
					if closeInv != 0 {
						continue
					}
					midClose = true
					s.Pause()
					s.Fault("close_midrun")
					doClose()
				}
			}
		})
	}
	for range sc.Tasks {
		<-done
	}
	s.Pause()
	// after the last Submit all remaining work fits into totalWork of virtual time
	s.Sleep(totalWork + w6cSlack + time.Duration(sc.RunDelayUs)*time.Microsecond)
	if closeInv == 0 {
		doClose()
	}
	s.Sleep(totalWork + w6cSlack)

	// ---- oracle over the execution log ----
	var lastSubRetAt time.Duration
	allSubmittedBeforeClose := true
	for _, js := range jobs {
		if !js.submitted {
			continue
		}
		if js.subRetAt > lastSubRetAt {
			lastSubRetAt = js.subRetAt
		}
		if js.subRet > closeInv {
			allSubmittedBeforeClose = false
		}
	}
	if runAt > lastSubRetAt {
		lastSubRetAt = runAt // nothing can execute before the workers exist
	}
	livenessOwed := allSubmittedBeforeClose && closeInvAt >= lastSubRetAt+totalWork+w6cSlack
	retries := 0
	for _, js := range jobs {
		spec := sc.Jobs[js.idx]
		if len(js.runs) > 1 {
			retries++
		}
		if len(js.runs) > spec.Fails+1 {
			// (also reported at the start of the surplus run)
			s.Probe("surplus_run")
		}
		if !js.accepted {
			continue
		}
		if livenessOwed && !js.succeededAtCloseInv {
			last := "never executed"
			if n := len(js.runs); n > 0 {
				last = "last run failed"
				if !js.runs[n-1].failed {
					last = "last run in progress"
				}
			}
			s.Violate("C40", "not-run-until-success", "accepted job did not succeed although the dissolver stayed open long enough", "job %d (fails %d times, %dus per run): %d runs, %s; submitted by t=%v, Close began at t=%v, all jobs together need %v", js.idx, spec.Fails, spec.SleepUs, len(js.runs), last, js.subRetAt, closeInvAt, totalWork)
		}
		if js.unfinishedAtCloseInv {
			s.Probe("close_with_unfinished_jobs")
		}
	}
	if retries > 0 {
		s.Probe("retry")
	}
	if maxParallel > 1 {
		s.Probe("parallel_execution")
	}
	if midClose {
		s.Probe("close_midrun")
	}
	if livenessOwed {
		s.Probe("liveness_checked")
	}
	if retries > 0 && len(jobs) > 1 {
		s.Probe("nontrivial:C40")
	}
	s.Event("final retries=%d startsAfterClose=%d", retries, startsAfterClose)
}

func init() {
	simrt.Register(&simrt.World{
		Name:      "w6c",
		Gen:       w6cGen,
		NewScript: func() any { return &w6cScript{} },
		Run:       w6cRun,
		Shrinks:   w6cShrinks,
		Nontrivial: func(prop string, r *simrt.Result) bool {
			return r.Probes["nontrivial:C40"] > 0
		},
	})
	simrt.Claim("C40", "w6c", 10)
}
