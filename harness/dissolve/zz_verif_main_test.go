//go:build verif

package dissolve

import (
	"testing"

	simrt "github.com/centrifugal/centrifuge/internal/simrt"
)

func TestVerif(t *testing.T) { simrt.Main(t) }
