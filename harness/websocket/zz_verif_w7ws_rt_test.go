//go:build verif

package websocket

// W7ws "rt" mode (C30): the real writer (WriteMessage, NextWriter with partial writes /
// WriteString / ReadFrom, abandoned writers, WritePreparedMessage, WriteControl from a
// second task, compression on/off and levels, buffer sizes and pools, server and client
// side) writes into the simulated conn; the wire bytes are validated and decoded by the
// reference decoder and are read by a real reader of the opposite role on the peer side.

import (
	"bytes"
	"fmt"
	"io"
	"time"

	simrt "github.com/centrifugal/centrifuge/internal/simrt"
)

type w7WOp struct {
	K      string `json:"k"` // msg | nw | abandon | prep | ctlmsg | comp | level | sleep
	T      int    `json:"t,omitempty"`
	Len    int    `json:"len,omitempty"`
	Seed   int    `json:"seed,omitempty"`
	Kind   int    `json:"kind,omitempty"`
	Chunks []int  `json:"chunks,omitempty"`
	Via    int    `json:"via,omitempty"` // nw pieces: 0 Write, 1 io.WriteString, 2 ReadFrom
	On     bool   `json:"on,omitempty"`
	Level  int    `json:"level,omitempty"`
	Us     int    `json:"us,omitempty"`
	Twice  bool   `json:"twice,omitempty"`
}

type w7COp struct {
	Op         int `json:"op"`
	Len        int `json:"len"`
	Us         int `json:"us,omitempty"`
	DeadlineMs int `json:"deadline_ms,omitempty"`
}

type w7Sent struct {
	task       byte
	ctl        bool
	typ        int
	data       []byte
	acked      bool
	unknownAck bool // abandoned writer: flushed implicitly, result not visible
	mustAbsent bool
	err        error
	what       string
}

func w7GenRT(c *simrt.Choice, prop, tier string) *w7Script {
	return w7GenRTOpt(c, prop, tier, w7GenOpt{})
}

func w7GenRTOpt(c *simrt.Choice, prop, tier string, opt w7GenOpt) *w7Script {
	sc := &w7Script{Mode: "rt", Trunc: -1}
	sc.WFault.At = -1
	sc.Server = c.Intn(2) == 0
	sc.Comp = c.Intn(2) == 0
	if opt.multi {
		// connections of one run have the deflater/inflater pools in common
		sc.Comp = true
	}
	sc.SeedOff = opt.seedOff
	sc.Level = []int{1, 1, -2, -1, 0, 2, 5, 6, 9}[c.Intn(9)]
	if opt.multi {
		// one pool per level: mostly the same level on all connections
		sc.Level = []int{1, 1, 1, 1, 6, -2}[c.Intn(6)]
	}
	sc.WriteBuf = []int{0, 0, 1, 2, 16, 111, 112, 125, 126, 300, 1024}[c.Intn(11)]
	sc.Pool = c.Intn(3) == 0
	sc.PeerBuf = []int{0, 0, 1, 256}[c.Intn(4)]
	sc.PeerAPI = c.Intn(2)
	sc.PeerSeg = c.Pick(3, 2, 1, 3)
	sc.Chunk = []int{0, 1, 7, 64, 4096}[c.Intn(5)]
	n := 1 + c.Intn(7)
	if tier == "thorough" {
		n = 1 + c.Intn(14)
	}
	seed := opt.seedOff
	size := func() int {
		switch c.Pick(6, 5, 4, 3, 1, 1) {
		case 0:
			return c.Intn(40)
		case 1:
			return []int{0, 1, 124, 125, 126, 127, 128}[c.Intn(7)]
		case 2:
			return 100 + c.Intn(900)
		case 3:
			return 1000 + c.Intn(8000)
		case 4:
			return []int{65535, 65536, 65537}[c.Intn(3)]
		default:
			return 66000 + c.Intn(70000)
		}
	}
	big := 0
	for i := 0; i < n; i++ {
		seed++
		op := w7WOp{T: 1 + c.Intn(2), Seed: seed}
		op.Len = size()
		if op.Len > 60000 {
			big++
			if big > 1 {
				op.Len = c.Intn(2000)
			}
		}
		if op.T == 1 {
			op.Kind = []int{1, 2, 3}[c.Intn(3)]
		} else {
			op.Kind = []int{0, 0, 2}[c.Intn(3)]
		}
		if op.Len > 10000 && c.Intn(2) == 0 {
			op.Kind = 2
		}
		switch c.Pick(12, 10, 2, 6, 1, 2, 2, 2) {
		case 0:
			op.K = "msg"
		case 1:
			op.K = "nw"
		case 2:
			op.K = "abandon"
		case 3:
			op.K = "prep"
			op.Twice = c.Intn(3) == 0
			if op.Len > 20000 {
				op.Len = c.Intn(20000)
			}
		case 4:
			op.K = "ctlmsg"
			op.T = []int{9, 10}[c.Intn(2)]
			op.Len = []int{4, 10, 124, 125, 126, 200}[c.Intn(6)]
			op.Kind = 1
			op.Via = c.Intn(2) // 0 WriteMessage, 1 NextWriter
		case 5:
			op = w7WOp{K: "comp", On: c.Intn(2) == 0 || opt.multi}
		case 6:
			op = w7WOp{K: "level", Level: -2 + c.Intn(12)}
			if opt.multi {
				op.Level = []int{1, 1, 6, -2, 12}[c.Intn(5)]
			}
		case 7:
			op = w7WOp{K: "sleep", Us: []int{1, 100, 5000}[c.Intn(3)]}
		}
		if op.K == "nw" || op.K == "abandon" {
			op.Via = c.Pick(3, 1, 1)
			k := 1 + c.Intn(4)
			for j := 0; j < k; j++ {
				switch c.Intn(3) {
				case 0:
					op.Chunks = append(op.Chunks, c.Intn(20))
				case 1:
					op.Chunks = append(op.Chunks, c.Intn(op.Len+1))
				default:
					op.Chunks = append(op.Chunks, c.Intn(300))
				}
			}
		}
		sc.Ops = append(sc.Ops, op)
		if op.K == "abandon" {
			// the implicit flush happens in the next NextWriter/WriteMessage
			seed++
			sc.Ops = append(sc.Ops, w7WOp{K: "msg", T: 1 + c.Intn(2), Len: c.Intn(200), Seed: seed, Kind: 1})
		}
	}
	// keep runs short: the number of frames and of peer reads is what costs
	unit := sc.WriteBuf
	if unit == 0 {
		unit = 4096
	}
	frames, total := 0, 0
	for i := range sc.Ops {
		op := &sc.Ops[i]
		if frames+op.Len/unit > 250 {
			op.Len = c.Intn(unit*8 + 1)
			for j := range op.Chunks {
				if op.Chunks[j] > op.Len {
					op.Chunks[j] = c.Intn(op.Len + 1)
				}
			}
		}
		frames += op.Len/unit + 1
		total += op.Len
	}
	if total > 4000 {
		if sc.PeerSeg == 1 || sc.PeerSeg == 2 {
			sc.PeerSeg = 3
		}
		if sc.Chunk == 1 || sc.Chunk == 7 {
			sc.Chunk = 512
		}
		if sc.PeerBuf == 1 {
			sc.PeerBuf = 256
		}
	}
	if c.Intn(2) == 0 {
		k := 1 + c.Intn(4)
		for i := 0; i < k; i++ {
			sc.Ctl = append(sc.Ctl, w7COp{Op: []int{9, 10}[c.Intn(2)], Len: []int{4, 4, 30, 125, 126}[c.Intn(5)], Us: []int{0, 0, 0, 1, 50, 3000}[c.Intn(6)], DeadlineMs: []int{0, 1, 1000}[c.Intn(3)]})
		}
	}
	if c.Intn(5) == 0 {
		sc.End = 1 // finish with a close message written through the data API
	}
	if c.Intn(6) == 0 {
		sc.WFault = w7WFault{At: c.Intn(6), Kind: 1 + c.Intn(4), Arg: []int{0, 1, 5, 1500}[c.Intn(4)]}
		sc.DeadlineMs = []int{0, 100, 1000}[c.Intn(3)]
	}
	return sc
}

func w7ShrinksRT(sc *w7Script) []any {
	var out []any
	add := func(f func(c *w7Script)) {
		c := w7Clone(sc)
		f(c)
		out = append(out, c)
	}
	for i := range sc.Ops {
		i := i
		add(func(c *w7Script) { c.Ops = append(c.Ops[:i], c.Ops[i+1:]...) })
	}
	for i := range sc.Ctl {
		i := i
		add(func(c *w7Script) { c.Ctl = append(c.Ctl[:i], c.Ctl[i+1:]...) })
	}
	if sc.WFault.Kind != 0 {
		add(func(c *w7Script) { c.WFault = w7WFault{At: -1} })
	}
	if sc.End != 0 {
		add(func(c *w7Script) { c.End = 0 })
	}
	if sc.Pool {
		add(func(c *w7Script) { c.Pool = false })
	}
	if sc.PeerSeg != 0 {
		add(func(c *w7Script) { c.PeerSeg = 0 })
	}
	if sc.PeerAPI != 0 {
		add(func(c *w7Script) { c.PeerAPI = 0 })
	}
	if sc.PeerBuf != 0 {
		add(func(c *w7Script) { c.PeerBuf = 0 })
	}
	for i := range sc.Ops {
		i := i
		if sc.Ops[i].Len > 8 {
			add(func(c *w7Script) { c.Ops[i].Len /= 2 })
		}
		if len(sc.Ops[i].Chunks) > 1 {
			add(func(c *w7Script) { c.Ops[i].Chunks = c.Ops[i].Chunks[:len(c.Ops[i].Chunks)-1] })
		}
		if sc.Ops[i].K == "nw" || sc.Ops[i].K == "prep" {
			add(func(c *w7Script) { c.Ops[i].K = "msg"; c.Ops[i].Chunks = nil })
		}
	}
	return out
}

// w7SlowReader hands out data in small pieces and hides WriterTo, so that io.Copy uses
// the destination's ReadFrom.
type w7SlowReader struct {
	b    []byte
	step int
}

func (r *w7SlowReader) Read(p []byte) (int, error) {
	if len(r.b) == 0 {
		return 0, io.EOF
	}
	n := r.step
	if n > len(p) {
		n = len(p)
	}
	if n > len(r.b) {
		n = len(r.b)
	}
	copy(p, r.b[:n])
	r.b = r.b[n:]
	return n, nil
}

func w7CtlPayload(task byte, seq, n int) []byte {
	tag := fmt.Sprintf("%c%03d", task, seq)
	if n < len(tag) {
		n = len(tag)
	}
	b := make([]byte, n)
	copy(b, tag)
	for i := len(tag); i < n; i++ {
		b[i] = 'a' + byte((i*7+seq)%26)
	}
	return b
}

// w7RTSession is one connection of mode "rt": a real writer Conn, its data task, its
// WriteControl task, and a real reader Conn of the opposite role on the peer side.
type w7RTSession struct {
	sc           *w7Script
	wconn, pconn *w7Conn
	sent         []*w7Sent
	pres         *w7ReadRes
	wpanic       string
	writerDone   chan struct{}
	ctlDone      chan struct{}
	peerDone     chan struct{}
	hung         bool
}

func w7RunRT(s *simrt.Sim, sc *w7Script, prop string) {
	w := &w7World{s: s}
	ss := w7StartRT(s, w, sc, "", nil, sc.Yield, false)
	ss.wait(s)
	ss.check(s)
}

func (ss *w7RTSession) wait(s *simrt.Sim) {
	<-ss.writerDone
	s.Pause()
	<-ss.ctlDone
	s.Pause()
	_ = ss.wconn.Close()
	// the stream has ended for the peer: it cannot stay blocked (see w7ReadSession.wait)
	if !w7WaitDone(s, ss.peerDone, time.Hour) {
		ss.hung = true
	}
}

func (ss *w7RTSession) check(s *simrt.Sim) {
	if ss.hung {
		s.Violate("C30", "hang", "peer reader did not return", "the peer's read loop had not returned one hour (virtual) after the writer's conn was closed (%d messages delivered)", len(ss.pres.msgs))
		return
	}
	w7CheckRT(s, ss.sc, ss.wconn, ss.pconn, ss.sent, ss.pres, ss.wpanic)
}

func w7StartRT(s *simrt.Sim, w *w7World, sc *w7Script, name string, shared BufferPool, yield, multi bool) *w7RTSession {
	pin := w7NewPipe(w, sc.PeerSeg)
	pin.yield = yield
	pin.chain = multi
	wconn := &w7Conn{w: w, name: name + "writer", in: w7NewPipe(w, 0), out: pin, fault: sc.WFault}
	pconn := &w7Conn{w: w, name: name + "peer", in: pin, fault: w7WFault{At: -1}}
	wc := w7NewRealConnPool(wconn, sc, sc.Server, 0, sc.WriteBuf, shared)
	_ = wc.SetCompressionLevel(sc.Level)
	psc := *sc
	psc.Pool = false
	pc := w7NewRealConn(pconn, &psc, !sc.Server, sc.PeerBuf, 0)

	ss := &w7RTSession{sc: sc, wconn: wconn, pconn: pconn, pres: &w7ReadRes{gateOff: -1},
		writerDone: make(chan struct{}), ctlDone: make(chan struct{}), peerDone: make(chan struct{})}
	rec := func(e *w7Sent) *w7Sent { ss.sent = append(ss.sent, e); return e }
	writerDone, ctlDone, peerDone := ss.writerDone, ss.ctlDone, ss.peerDone
	pres := ss.pres
	s.Go(func() {
		defer close(peerDone)
		w7ReadLoop(w, pc, sc.PeerAPI, sc.Chunk, nil, pres)
	})
	s.Go(func() {
		defer close(writerDone)
		defer func() {
			if r := recover(); r != nil {
				ss.wpanic = fmt.Sprint(r)
			}
		}()
		cseq := 0
		var open io.WriteCloser // abandoned writer
		var openRec *w7Sent
		for _, op := range sc.Ops {
			if sc.DeadlineMs > 0 {
				_ = wc.SetWriteDeadline(time.Now().Add(time.Duration(sc.DeadlineMs) * time.Millisecond))
			}
			if open != nil && op.K != "msg" && op.K != "nw" {
				// only NextWriter/WriteMessage flush an abandoned writer
				err := open.Close()
				openRec.unknownAck = false
				openRec.acked = err == nil
				openRec.err = err
				open, openRec = nil, nil
			}
			switch op.K {
			case "sleep":
				s.Sleep(time.Duration(op.Us) * time.Microsecond)
			case "comp":
				wc.EnableWriteCompression(op.On)
			case "level":
				if err := wc.SetCompressionLevel(op.Level); (err == nil) != (op.Level >= -2 && op.Level <= 9) {
					s.Violate("C30", "api", "SetCompressionLevel accepts or refuses the wrong levels", "level %d: %v", op.Level, err)
				}
			case "msg":
				data := w7GenBytes(op.Len, op.Seed, op.Kind)
				e := rec(&w7Sent{task: 'D', typ: op.T, data: data, what: "WriteMessage"})
				open, openRec = nil, nil
				s.Pause()
				e.err = wc.WriteMessage(op.T, data)
				e.acked = e.err == nil
			case "prep":
				data := w7GenBytes(op.Len, op.Seed, op.Kind)
				pm, err := NewPreparedMessage(op.T, append([]byte{}, data...))
				if err != nil {
					s.Violate("C30", "api", "NewPreparedMessage failed for a data message", "%v", err)
					continue
				}
				k := 1
				if op.Twice {
					k = 2
				}
				for i := 0; i < k; i++ {
					e := rec(&w7Sent{task: 'D', typ: op.T, data: data, what: "WritePreparedMessage"})
					s.Pause()
					e.err = wc.WritePreparedMessage(pm)
					e.acked = e.err == nil
				}
				s.Probe("rt_prepared")
			case "ctlmsg":
				cseq++
				data := w7CtlPayload('D', cseq, op.Len)
				e := rec(&w7Sent{task: 'D', ctl: true, typ: op.T, data: data, mustAbsent: len(data) > 125, what: "control message through the data API"})
				open, openRec = nil, nil
				if op.Via == 0 {
					e.err = wc.WriteMessage(op.T, data)
				} else {
					wr, err := wc.NextWriter(op.T)
					if err == nil {
						_, err = wr.Write(data)
						if err == nil {
							err = wr.Close()
						}
					}
					e.err = err
				}
				e.acked = e.err == nil
			case "nw", "abandon":
				data := w7GenBytes(op.Len, op.Seed, op.Kind)
				e := rec(&w7Sent{task: 'D', typ: op.T, data: data, what: "NextWriter"})
				open, openRec = nil, nil
				wr, err := wc.NextWriter(op.T)
				if err != nil {
					e.err = err
					continue
				}
				rest := data
				pieces := append([]int{}, op.Chunks...)
				if op.K == "nw" {
					pieces = append(pieces, len(data))
				}
				written := 0
				for _, n := range pieces {
					if n > len(rest) {
						n = len(rest)
					}
					piece := rest[:n]
					rest = rest[n:]
					s.Pause()
					switch op.Via {
					case 1:
						_, err = io.WriteString(wr, string(piece))
					case 2:
						_, err = io.Copy(wr, &w7SlowReader{b: piece, step: 1 + (op.Seed*13)%97})
					default:
						_, err = wr.Write(piece)
					}
					if err != nil {
						break
					}
					written += n
				}
				if err != nil {
					e.err = err
					continue
				}
				if op.K == "abandon" {
					e.data = data[:written]
					e.unknownAck = true
					e.what = "abandoned NextWriter"
					open, openRec = wr, e
					s.Probe("rt_abandoned_writer")
					continue
				}
				e.err = wr.Close()
				e.acked = e.err == nil
			}
		}
		if open != nil {
			err := open.Close()
			openRec.unknownAck = false
			openRec.acked = err == nil
			openRec.err = err
		}
		if sc.End == 1 {
			data := w7ClosePayload(1000, []byte("bye"))
			e := rec(&w7Sent{task: 'D', ctl: true, typ: 8, data: data, what: "close through WriteMessage"})
			e.err = wc.WriteMessage(CloseMessage, data)
			e.acked = e.err == nil
		}
	})
	s.Go(func() {
		defer close(ctlDone)
		for i, op := range sc.Ctl {
			s.Sleep(time.Duration(op.Us)*time.Microsecond + time.Nanosecond)
			data := w7CtlPayload('C', i+1, op.Len)
			e := rec(&w7Sent{task: 'C', ctl: true, typ: op.Op, data: data, mustAbsent: len(data) > 125, what: "WriteControl"})
			var dl time.Time
			if op.DeadlineMs > 0 {
				dl = time.Now().Add(time.Duration(op.DeadlineMs) * time.Millisecond)
			}
			e.err = wc.WriteControl(op.Op, data, dl)
			e.acked = e.err == nil
		}
	})
	return ss
}

func w7CheckRT(s *simrt.Sim, sc *w7Script, wconn, pconn *w7Conn, sent []*w7Sent, pres *w7ReadRes, wpanic string) {
	s.Event("rt done wire=%d sent=%d peer msgs=%d err=%v", len(wconn.wire), len(sent), len(pres.msgs), pres.err)
	if wpanic != "" {
		s.Violate("C30", "panic", "writer panicked", "panic in the real writer: %s", wpanic)
		return
	}
	if pres.panicked != "" {
		s.Violate("C30", "panic", "peer reader panicked", "panic in the real reader: %s", pres.panicked)
		return
	}
	faulted := wconn.anyWriteErr
	ref := w7RefDecode(wconn.wire, w7RefCfg{ExpectMasked: !sc.Server, Comp: sc.Comp, StrictLen: true})
	t := ref.Term
	switch t.Kind {
	case "proto", "inflate", "toobig", "utf8":
		s.Violate("C30", "wire", "invalid frame on the wire: "+t.Reason, "the writer's bytes do not parse as RFC 6455 frames of a %s: %s at offset %d (%s)", map[bool]string{true: "server", false: "client"}[sc.Server], t, t.Off, w7Short(wconn.wire[t.Off:]))
		return
	case "more":
		if !t.Clean && !faulted {
			s.Violate("C30", "wire", "wire ends inside a frame or message", "reference decoder needs more bytes at offset %d of %d (in message: %v) although every write succeeded", t.Off, len(wconn.wire), t.InMsg)
			return
		}
	case "close":
		if t.End != len(wconn.wire) {
			s.Violate("C30", "wire", "bytes after the close frame", "close frame ends at %d, wire has %d bytes", t.End, len(wconn.wire))
		}
	}
	// probes
	interleaved := false
	inMsg := false
	for _, f := range ref.Frames {
		switch {
		case f.Op == 1 || f.Op == 2:
			inMsg = !f.Fin
			if f.Rsv&4 != 0 {
				s.Probe("rt_compressed")
			}
		case f.Op == 0:
			s.Probe("rt_fragmented")
			inMsg = !f.Fin
		default:
			if inMsg {
				interleaved = true
			}
		}
		if f.Len > 0xffff {
			s.Probe("rt_len64")
		} else if f.Len > 125 {
			s.Probe("rt_len16")
		}
	}
	if interleaved {
		s.Probe("rt_ctl_interleaved")
	}
	// ---- data messages ----
	var data []*w7Sent
	ctlBy := map[byte][]*w7Sent{}
	for _, e := range sent {
		if e.ctl {
			ctlBy[e.task] = append(ctlBy[e.task], e)
		} else {
			data = append(data, e)
		}
	}
	if len(ref.Msgs) > len(data) {
		s.Violate("C30", "roundtrip", "more data messages on the wire than were written", "%d on the wire, %d written", len(ref.Msgs), len(data))
		return
	}
	for i, m := range ref.Msgs {
		e := data[i]
		if m.Typ != e.typ {
			s.Violate("C30", "roundtrip", "message type changed on the wire", "message %d (%s): written type %d, wire type %d", i, e.what, e.typ, m.Typ)
			return
		}
		if !bytes.Equal(m.Data, e.data) {
			s.Violate("C30", "roundtrip", "message bytes changed on the wire ("+e.what+")", "message %d (%s): written %d bytes %s, wire decodes to %d bytes %s", i, e.what, len(e.data), w7Short(e.data), len(m.Data), w7Short(m.Data))
			return
		}
	}
	for i := len(ref.Msgs); i < len(data); i++ {
		e := data[i]
		if e.acked || (e.unknownAck && !faulted) {
			s.Violate("C30", "roundtrip", "acknowledged message missing on the wire ("+e.what+")", "message %d (%s, %d bytes) returned no error but the wire holds only %d messages", i, e.what, len(e.data), len(ref.Msgs))
			return
		}
		if !faulted && e.err == nil {
			s.Violate("C30", "roundtrip", "message missing on the wire", "message %d (%s)", i, e.what)
			return
		}
	}
	if !faulted {
		for i, e := range data {
			if !e.acked && !e.unknownAck {
				errCloseSent := e.err == ErrCloseSent
				if !errCloseSent {
					s.Violate("C30", "roundtrip", "write failed although the connection never failed ("+e.what+")", "message %d (%s, type %d, %d bytes): %v", i, e.what, e.typ, len(e.data), e.err)
					return
				}
			}
		}
	}
	// ---- control frames ----
	pos := map[byte]int{}
	for _, ct := range ref.Ctl {
		if ct.Op == 8 && sc.End == 1 {
			continue
		}
		if len(ct.Payload) < 4 {
			s.Violate("C30", "control", "control frame on the wire that nobody wrote", "op %d payload %s", ct.Op, w7Short(ct.Payload))
			return
		}
		task := ct.Payload[0]
		list := ctlBy[task]
		i := pos[task]
		for i < len(list) && !bytes.Equal(list[i].data, ct.Payload) {
			if list[i].acked {
				s.Violate("C30", "control", "acknowledged control frame missing or out of order", "%s %q", list[i].what, list[i].data[:4])
				return
			}
			i++
		}
		if i == len(list) {
			s.Violate("C30", "control", "control frame on the wire that nobody wrote (or duplicated)", "op %d payload %s", ct.Op, w7Short(ct.Payload))
			return
		}
		if list[i].typ != ct.Op {
			s.Violate("C30", "control", "control frame type changed", "written %d, wire %d", list[i].typ, ct.Op)
		}
		if list[i].mustAbsent {
			s.Violate("C30", "control", "control frame longer than 125 bytes written", "%s of %d bytes", list[i].what, len(list[i].data))
		}
		pos[task] = i + 1
	}
	for _, task := range []byte{'C', 'D'} {
		list := ctlBy[task]
		for i := pos[task]; i < len(list); i++ {
			if list[i].acked && !(list[i].typ == 8) {
				s.Violate("C30", "control", "acknowledged control frame missing on the wire", "%s %q (%d bytes)", list[i].what, list[i].data[:4], len(list[i].data))
				return
			}
		}
		for _, e := range list {
			if e.mustAbsent && e.err == nil {
				s.Violate("C30", "control", "control message longer than 125 bytes accepted", "%s of %d bytes returned nil", e.what, len(e.data))
			}
			if !e.mustAbsent && !faulted && e.err != nil && e.err != ErrCloseSent && e.task == 'D' {
				s.Violate("C30", "control", "control message within 125 bytes refused ("+e.what+")", "%d bytes, write buffer %d: %v", len(e.data), sc.WriteBuf, e.err)
			}
		}
	}
	closeWritten := false
	for _, e := range ctlBy['D'] {
		if e.typ == 8 && e.acked {
			closeWritten = true
		}
	}
	if sc.End == 1 && !faulted && closeWritten {
		if t.Kind != "close" || t.Code != 1000 || t.Text != "bye" {
			s.Violate("C30", "control", "close message written through WriteMessage not on the wire", "wire terminal %s", t)
		}
	}
	// ---- the real reader on the peer side ----
	if len(pres.msgs) != len(ref.Msgs) {
		s.Violate("C30", "peer-read", "peer reader extracts a different number of messages than the wire holds", "wire %d, peer %d (peer error %v)", len(ref.Msgs), len(pres.msgs), pres.err)
		return
	}
	for i, m := range ref.Msgs {
		g := pres.msgs[i]
		if g.Typ != m.Typ || !bytes.Equal(g.Data, m.Data) {
			s.Violate("C30", "peer-read", "peer reader returns a different message than was written", "message %d: written type %d %d bytes %s, read type %d %d bytes %s", i, m.Typ, len(m.Data), w7Short(m.Data), g.Typ, len(g.Data), w7Short(g.Data))
			return
		}
	}
	cl := w7ErrClasses(pres.err)
	switch t.Kind {
	case "close":
		if ce, ok := pres.err.(*CloseError); !ok || ce.Code != t.Code || ce.Text != t.Text {
			s.Violate("C30", "peer-read", "peer does not report the close message that was written", "written close %d %q, peer error %v", t.Code, t.Text, pres.err)
		}
	default:
		if !cl["io"] {
			s.Violate("C30", "peer-read", "peer reader fails on a valid stream", "peer error %v after %d messages", pres.err, len(pres.msgs))
		}
	}
	// what the peer wrote back (pongs, close reply) must be valid frames of its role
	psc := *sc
	psc.Server = !sc.Server
	w7CheckRealWire(s, "C30", &psc, pconn)
	if len(ref.Msgs) >= 2 || (len(ref.Msgs) >= 1 && len(ref.Frames) >= 3) {
		s.Probe("nontrivial:C30")
	}
}
