//go:build verif

package websocket

// W7ws "multi" mode (C29): two to four connections of mode "read" live in ONE run. Each
// has its own simulated conn, its own generated frame script (permessage-deflate on, most
// data messages compressed, distinct payloads per connection), its own feeder and its own
// application task; the scheduler interleaves them at every read of a simulated conn and
// at every segment of a feeder. What the connections have in common is what a process has
// in common: the package-level pools of inflaters/deflaters (sync.Pool -> simsync.Pool,
// LIFO, duplicates kept, optionally adversarial) and, when the scripts ask for a write
// buffer pool, one BufferPool instance.
//
// Oracle: every connection is judged exactly as in read mode - the reference decoder is
// applied to the bytes THAT connection was handed, so nothing another connection does can
// excuse a difference. Additionally a delivered message that differs from the
// connection's own reference and carries payload of another connection's stream is
// reported under its own clause (cross-connection).

import (
	"bytes"
	"fmt"

	simrt "github.com/centrifugal/centrifuge/internal/simrt"
	simsync "github.com/centrifugal/centrifuge/internal/simrt/simsync"
)

func w7GenMulti(c *simrt.Choice, prop, tier string) *w7Script {
	sc := &w7Script{Mode: "multi", Trunc: -1}
	sc.WFault.At = -1
	n := 2 + c.Pick(5, 2, 1)
	sc.AdvPool = c.Intn(3) == 0
	sc.Yield = c.Intn(4) != 0
	sc.Pool = c.Intn(3) == 0 // one BufferPool shared by the connections that use a pool
	if prop == "C30" {
		// writer side: each connection is a complete rt scenario (real writer -> wire -> real
		// reader of the peer); runs are heavier, so at most three connections
		if n > 3 {
			n = 3
		}
		for i := 0; i < n; i++ {
			sc.Sub = append(sc.Sub, w7GenRTOpt(c, prop, tier, w7GenOpt{multi: true, seedOff: 1000 * (i + 1)}))
		}
		return sc
	}
	for i := 0; i < n; i++ {
		sub := w7GenReadOpt(c, prop, tier, w7GenOpt{multi: true, seedOff: 1000 * (i + 1)})
		// keep runs short: huge frames and one-byte delivery are covered by read mode
		if sub.Feed == 0 && c.Intn(3) != 0 {
			sub.Feed = 1 + 2*c.Intn(2)
		}
		sc.Sub = append(sc.Sub, sub)
	}
	return sc
}

func w7ShrinksMulti(sc *w7Script) []any {
	var out []any
	add := func(f func(c *w7Script)) {
		c := w7Clone(sc)
		f(c)
		out = append(out, c)
	}
	for i := range sc.Sub {
		i := i
		if len(sc.Sub) > 1 {
			add(func(c *w7Script) { c.Sub = append(c.Sub[:i], c.Sub[i+1:]...) })
		}
	}
	if sc.AdvPool {
		add(func(c *w7Script) { c.AdvPool = false })
	}
	if sc.Pool {
		add(func(c *w7Script) { c.Pool = false })
	}
	if sc.Yield {
		add(func(c *w7Script) { c.Yield = false })
	}
	// shrink inside one connection with the read-mode shrinker
	for i := range sc.Sub {
		i := i
		for _, v := range w7Shrinks(sc.Sub[i]) {
			sub := v.(*w7Script)
			add(func(c *w7Script) { c.Sub[i] = sub })
		}
	}
	return out
}

func w7RunMulti(s *simrt.Sim, sc *w7Script, prop string) {
	w := &w7World{s: s}
	if sc.AdvPool {
		old := simsync.Adversarial
		simsync.Adversarial = true
		defer func() { simsync.Adversarial = old }()
	}
	var shared BufferPool
	if sc.Pool {
		shared = &w7BufPool{}
	}
	var sess []*w7ReadSession
	var rts []*w7RTSession
	for i, sub := range sc.Sub {
		switch sub.Mode {
		case "read":
			sess = append(sess, w7StartRead(s, w, sub, fmt.Sprintf("conn%d", i), shared, sc.Yield, true))
		case "rt":
			rts = append(rts, w7StartRT(s, w, sub, fmt.Sprintf("conn%d-", i), shared, sc.Yield, true))
		}
	}
	for _, ss := range sess {
		ss.wait(s)
	}
	for _, ss := range rts {
		ss.wait(s)
	}
	compressing := 0
	for i, ss := range rts {
		n0 := len(s.Violations)
		s.Event("multi: rt connection %d of %d", i, len(rts))
		p0 := s.Probes["rt_compressed"]
		ss.check(s)
		if s.Probes["rt_compressed"] > p0 {
			compressing++
		}
		for k := n0; k < len(s.Violations); k++ {
			s.Violations[k].Detail = fmt.Sprintf("[connection %d of %d in one run] %s", i, len(rts), s.Violations[k].Detail)
		}
	}
	if compressing >= 2 {
		s.Probe("multi_two_compressing_writers")
	}
	if len(rts) > 0 {
		s.Probe("multi_run")
		return
	}
	compressedConns := 0
	for i, ss := range sess {
		n0 := len(s.Violations)
		s.Event("multi: connection %d of %d", i, len(sess))
		ss.ref = w7CheckRead(s, w, ss.sc, ss.nc, ss.c, ss.res, prop)
		for k := n0; k < len(s.Violations); k++ {
			s.Violations[k].Detail = fmt.Sprintf("[connection %d of %d in one run] %s", i, len(sess), s.Violations[k].Detail)
		}
		if ss.ref != nil {
			nc := 0
			for _, f := range ss.ref.Frames {
				if f.Rsv&4 != 0 && (f.Op == 1 || f.Op == 2) {
					nc++
				}
			}
			if nc > 0 {
				compressedConns++
			}
			if nc >= 2 {
				s.Probe("multi_conn_with_two_compressed_messages")
			}
		}
	}
	if compressedConns >= 2 {
		s.Probe("multi_two_compressing_conns")
	}
	w7CheckCross(s, sess)
	s.Probe("multi_run")
}

// w7CheckCross: payloads are distinct per connection (generator seeds are offset per
// connection), so a delivered message that is not the connection's own reference message
// but contains a stretch of a message of another connection's stream is cross-talk.
func w7CheckCross(s *simrt.Sim, sess []*w7ReadSession) {
	const win = 24
	for i, ss := range sess {
		if ss.ref == nil {
			continue
		}
		for k, m := range ss.res.msgs {
			if k < len(ss.ref.Msgs) {
				e := ss.ref.Msgs[k].Data
				if bytes.Equal(m.Data, e) || (m.Partial && bytes.HasPrefix(e, m.Data)) {
					continue
				}
			}
			if len(m.Data) < win {
				continue
			}
			own := false
			for _, e := range ss.ref.Msgs {
				if bytes.Contains(e.Data, m.Data[:win]) || bytes.Contains(e.Data, m.Data[len(m.Data)-win:]) {
					own = true
				}
			}
			if own {
				continue
			}
			for j, other := range sess {
				if j == i {
					continue
				}
				// everything the other connection's script contains, whether or not it got that far
				full := w7RefDecode(w7BuildStream(other.sc), w7RefCfg{ExpectMasked: other.sc.Server, Comp: other.sc.Comp})
				for q, e := range full.Msgs {
					if bytes.Contains(e.Data, m.Data[:win]) || bytes.Contains(e.Data, m.Data[len(m.Data)-win:]) {
						s.Violate("C29", "cross-connection", "message delivered on one connection carries payload of another connection's stream", "connection %d delivered as its message %d %d bytes %s, which is not in its own stream but in message %d of connection %d", i, k, len(m.Data), w7Short(m.Data), q, j)
						return
					}
				}
			}
		}
	}
}
