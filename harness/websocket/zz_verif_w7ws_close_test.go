//go:build verif

package websocket

// W7ws "close" mode (C31, Conn level): what websocketTransport.Close (package centrifuge)
// relies on. An application task sends a close frame with WriteControl(CloseMessage,
// FormatCloseMessage(code, reason), now+1s) at a scripted moment, waits for the close
// handshake (grace channel, 5 s) and closes the conn - exactly the sequence of
// handler_websocket.go; concurrently the handler-shaped read loop processes what the peer
// sends (data, pings, valid and invalid close frames, an echo of our close) and a data
// writer keeps writing. Oracles: close frame carries code and reason whenever it fits in a
// control frame; nothing is written after a close frame; invalid received close frames are
// rejected; the first close frame observed on the connection is the recorded one.

import (
	"bytes"
	"fmt"
	"time"

	simrt "github.com/centrifugal/centrifuge/internal/simrt"
)

type w7CloseScript struct {
	Code        int       `json:"code"`
	ReasonLen   int       `json:"reason_len"`
	ReasonKind  int       `json:"reason_kind"`
	CloseAtUs   int       `json:"close_at_us"` // -1: the application never closes
	DeadlineMs  int       `json:"deadline_ms"`
	Peer        []w7Frame `json:"peer,omitempty"`
	PeerDelayUs []int     `json:"peer_delay_us,omitempty"`
	PeerEcho    bool      `json:"peer_echo,omitempty"` // the peer answers our close frame with a close frame
	EchoDelayMs int       `json:"echo_delay_ms,omitempty"`
	WriterMsgs  int       `json:"writer_msgs,omitempty"`
	WriterGapUs int       `json:"writer_gap_us,omitempty"`
	Second      bool      `json:"second,omitempty"` // a second Close attempt with another code (transport.Close is guarded, Conn is not)
}

func w7GenClose(c *simrt.Choice, prop, tier string) *w7Script {
	sc := &w7Script{Mode: "close", Trunc: -1}
	sc.WFault.At = -1
	sc.Server = c.Intn(5) != 0
	sc.Comp = c.Intn(3) == 0
	sc.WriteBuf = []int{0, 0, 16, 256}[c.Intn(4)]
	sc.Seg = c.Pick(3, 2, 0, 2)
	cs := &w7CloseScript{}
	sc.Close = cs
	switch c.Pick(3, 4, 2, 1) {
	case 0:
		cs.Code = []int{1000, 1001, 1008, 1011, 1012, 1013}[c.Intn(6)]
	case 1:
		cs.Code = []int{3000, 3001, 3003, 3004, 3005, 3008, 3012, 3500, 3501, 3503, 3507, 3509}[c.Intn(12)]
	case 2:
		cs.Code = 4000 + c.Intn(1000)
	case 3:
		cs.Code = 3000 + c.Intn(1000)
	}
	cs.ReasonLen = []int{0, 4, 17, 60, 121, 122, 123, 124, 125, 126, 130}[c.Intn(11)]
	cs.ReasonKind = []int{1, 1, 3}[c.Intn(3)]
	cs.CloseAtUs = []int{-1, 0, 0, 1, 100, 2000, 50000}[c.Intn(7)]
	cs.DeadlineMs = []int{1000, 1000, 1, 0}[c.Intn(4)]
	cs.Second = c.Intn(6) == 0
	g := &w7Gen{c: c, sc: sc}
	n := c.Intn(4)
	for i := 0; i < n; i++ {
		if c.Intn(3) == 0 {
			g.frames = append(g.frames, g.ctlFrame())
		} else {
			f := g.base(1+c.Intn(2), true)
			f.GenLen, f.GenSeed, f.GenKind = c.Intn(200), g.nextSeed(), 1
			g.frames = append(g.frames, f)
		}
	}
	switch c.Pick(4, 3, 1, 1, 1) {
	case 0:
		cs.PeerEcho = true
		cs.EchoDelayMs = []int{0, 1, 100, 4000, 7000}[c.Intn(5)]
	case 1:
		g.closeFrame("")
	case 2:
		g.closeFrame("badclosecode")
	case 3:
		g.closeFrame("badcloseutf8")
	case 4:
	}
	cs.Peer = g.frames
	for range cs.Peer {
		cs.PeerDelayUs = append(cs.PeerDelayUs, []int{0, 0, 1, 100, 2000, 50000}[c.Intn(6)])
	}
	cs.WriterMsgs = c.Intn(4)
	cs.WriterGapUs = []int{0, 1, 100, 2000}[c.Intn(4)]
	if c.Intn(6) == 0 {
		sc.WFault = w7WFault{At: c.Intn(4), Kind: 1 + c.Intn(4), Arg: []int{0, 1, 3, 1500}[c.Intn(4)]}
	}
	sc.End = c.Pick(5, 1)
	return sc
}

func w7ShrinksClose(sc *w7Script) []any {
	var out []any
	add := func(f func(c *w7Script)) {
		c := w7Clone(sc)
		f(c)
		out = append(out, c)
	}
	cs := sc.Close
	if cs == nil {
		return nil
	}
	for i := range cs.Peer {
		i := i
		add(func(c *w7Script) {
			c.Close.Peer = append(c.Close.Peer[:i], c.Close.Peer[i+1:]...)
			c.Close.PeerDelayUs = append(c.Close.PeerDelayUs[:i], c.Close.PeerDelayUs[i+1:]...)
		})
	}
	if cs.WriterMsgs > 0 {
		add(func(c *w7Script) { c.Close.WriterMsgs-- })
		add(func(c *w7Script) { c.Close.WriterMsgs = 0 })
	}
	if cs.PeerEcho {
		add(func(c *w7Script) { c.Close.PeerEcho = false })
	}
	if cs.Second {
		add(func(c *w7Script) { c.Close.Second = false })
	}
	if sc.WFault.Kind != 0 {
		add(func(c *w7Script) { c.WFault = w7WFault{At: -1} })
	}
	if cs.CloseAtUs > 0 {
		add(func(c *w7Script) { c.Close.CloseAtUs = 0 })
	}
	if sc.Seg != 0 {
		add(func(c *w7Script) { c.Seg = 0 })
	}
	if sc.Comp {
		add(func(c *w7Script) { c.Comp = false })
	}
	for i := range cs.PeerDelayUs {
		i := i
		if cs.PeerDelayUs[i] != 0 {
			add(func(c *w7Script) { c.Close.PeerDelayUs[i] = 0 })
		}
	}
	return out
}

type w7CloseAttempt struct {
	code     int
	payload  []byte
	inv, ret int64
	err      error
}

func w7WireHasClose(wire []byte, server bool) bool {
	r := w7RefDecode(wire, w7RefCfg{ExpectMasked: !server, Comp: true})
	for _, ct := range r.Ctl {
		if ct.Op == 8 {
			return true
		}
	}
	return false
}

func w7RunClose(s *simrt.Sim, sc *w7Script, prop string) {
	cs := sc.Close
	w := &w7World{s: s}
	in := w7NewPipe(w, sc.Seg)
	nc := &w7Conn{w: w, name: "real", in: in, fault: sc.WFault}
	c := w7NewRealConn(nc, sc, sc.Server, sc.ReadBuf, sc.WriteBuf)
	c.SetReadLimit(65536)

	res := &w7ReadRes{gateOff: -1}
	graceCh := make(chan struct{})
	rdDone := make(chan struct{})
	feedDone := make(chan struct{})
	closerDone := make(chan struct{})
	writerDone := make(chan struct{})
	var attempts []*w7CloseAttempt
	type wrec struct {
		inv, ret int64
		err      error
		data     []byte
	}
	var wrecs []*wrec
	var panics []string

	// handler-shaped read loop
	s.Go(func() {
		defer close(rdDone)
		w7ReadLoop(w, c, sc.ReadAPI, 0, nil, res)
		if res.panicked != "" {
			close(graceCh)
			return
		}
		// drain loop of handler_websocket.go
		_ = c.SetReadDeadline(time.Now().Add(5 * time.Second))
		for i := 0; i < 100; i++ {
			if _, _, err := c.NextReader(); err != nil {
				break
			}
		}
		close(graceCh)
	})
	// the peer
	var peerStream []byte
	frameEnds := []int{}
	s.Go(func() {
		defer close(feedDone)
		for i := range cs.Peer {
			d := 0
			if i < len(cs.PeerDelayUs) {
				d = cs.PeerDelayUs[i]
			}
			if d > 0 {
				s.Sleep(time.Duration(d) * time.Microsecond)
			} else {
				s.Pause()
			}
			b := w7EncodeFrame(nil, &cs.Peer[i])
			peerStream = append(peerStream, b...)
			frameEnds = append(frameEnds, len(peerStream))
			in.feed(b)
		}
		if cs.PeerEcho {
			for i := 0; i < 80; i++ {
				s.Sleep(100 * time.Millisecond)
				if w7WireHasClose(nc.wire, sc.Server) {
					s.Sleep(time.Duration(cs.EchoDelayMs) * time.Millisecond)
					f := w7Frame{Op: 8, Fin: true, Mask: sc.Server, Key: 0x01020304, Data: w7ClosePayload(1000, nil)}
					b := w7EncodeFrame(nil, &f)
					peerStream = append(peerStream, b...)
					in.feed(b)
					s.Probe("peer_echo_sent")
					break
				}
				if nc.closed {
					break
				}
			}
		}
		// the peer eventually goes away
		s.Sleep(20 * time.Second)
		if sc.End == 1 {
			s.Fault("peer_reset")
			in.fail(&w7NetErr{msg: "sim: connection reset by peer"})
		} else {
			s.Fault("peer_eof")
			in.closeWrite()
		}
	})
	// the application closing the transport (websocketTransport.Close)
	s.Go(func() {
		defer close(closerDone)
		defer func() {
			if r := recover(); r != nil {
				panics = append(panics, fmt.Sprint(r))
			}
		}()
		if cs.CloseAtUs < 0 {
			return
		}
		s.Sleep(time.Duration(cs.CloseAtUs)*time.Microsecond + time.Nanosecond)
		try := func(code int) error {
			reason := string(w7GenBytes(cs.ReasonLen, 7, cs.ReasonKind))
			msg := FormatCloseMessage(code, reason)
			want := w7ClosePayload(code, []byte(reason))
			if !bytes.Equal(msg, want) {
				s.Violate("C31", "format-close", "FormatCloseMessage does not produce code followed by reason", "code %d reason %d bytes: got %s want %s", code, len(reason), w7Short(msg), w7Short(want))
			}
			a := &w7CloseAttempt{code: code, payload: want}
			attempts = append(attempts, a)
			var dl time.Time
			if cs.DeadlineMs > 0 {
				dl = time.Now().Add(time.Duration(cs.DeadlineMs) * time.Millisecond)
			}
			a.inv = w.next()
			a.err = c.WriteControl(CloseMessage, msg, dl)
			a.ret = w.next()
			return a.err
		}
		err := try(cs.Code)
		if cs.Second {
			_ = try(cs.Code%1000 + 3000 + 1)
		}
		if err == nil {
			tm := time.NewTimer(5 * time.Second)
			select {
			case <-graceCh:
			case <-tm.C:
			}
			tm.Stop()
			s.Pause()
		}
		_ = c.Close()
	})
	// a data writer racing with the close
	s.Go(func() {
		defer close(writerDone)
		defer func() {
			if r := recover(); r != nil {
				panics = append(panics, fmt.Sprint(r))
			}
		}()
		for i := 0; i < cs.WriterMsgs; i++ {
			if cs.WriterGapUs > 0 {
				s.Sleep(time.Duration(cs.WriterGapUs) * time.Microsecond)
			} else {
				s.Pause()
			}
			data := []byte(fmt.Sprintf("m%03d-%s", i, w7GenBytes(20+i*50, 100+i, 1)))
			r := &wrec{data: data}
			wrecs = append(wrecs, r)
			r.inv = w.next()
			r.err = c.WriteMessage(TextMessage, data)
			r.ret = w.next()
		}
	})
	<-rdDone
	s.Pause()
	<-closerDone
	s.Pause()
	<-writerDone
	s.Pause()
	<-feedDone
	s.Pause()

	// ---------------- oracle ----------------
	s.Event("close done wire=%d err=%v attempts=%d", len(nc.wire), res.err, len(attempts))
	for _, p := range panics {
		s.Violate("C31", "panic", "panic in a write path", "%s", p)
	}
	if res.panicked != "" {
		s.Violate("C29", "panic", "reader panicked", "%s", res.panicked)
		s.Violate("C31", "panic", "reader panicked", "%s", res.panicked)
		return
	}
	// a stalled write keeps the connection's write lock: control frames that give up after
	// their deadline (close reply after writeWait) are then legitimately missing
	faulted := nc.anyWriteErr || nc.faultHit
	// what the real side wrote
	rw := w7RefDecode(nc.wire, w7RefCfg{ExpectMasked: !sc.Server, Comp: sc.Comp, StrictLen: true})
	switch rw.Term.Kind {
	case "proto", "inflate", "toobig":
		s.Violate("C31", "wire", "invalid frame written: "+rw.Term.Reason, "%s at offset %d", rw.Term, rw.Term.Off)
		return
	case "more":
		if !rw.Term.Clean && !faulted {
			s.Violate("C31", "wire", "incomplete frame written", "offset %d of %d", rw.Term.Off, len(nc.wire))
		}
	case "close":
		if rw.Term.End != len(nc.wire) {
			s.Violate("C31", "after-close", "bytes written after the close frame", "close frame ends at %d, %d bytes written: %s", rw.Term.End, len(nc.wire), w7Short(nc.wire[rw.Term.End:]))
		}
	}
	var sentClose *w7Ctl
	for i := range rw.Ctl {
		if rw.Ctl[i].Op == 8 {
			sentClose = &rw.Ctl[i]
		}
	}
	sentCode := 0
	if sentClose != nil {
		var ok bool
		sentCode, _, ok = w7ClosePayloadValidForSending(sentClose.Payload)
		if !ok {
			s.Violate("C31", "wire", "close frame with a payload that must not be sent", "%s", w7Short(sentClose.Payload))
		}
	}
	// data messages on the wire are the writer's, in order
	for i, m := range rw.Msgs {
		if i >= len(wrecs) || !bytes.Equal(m.Data, wrecs[i].data) {
			s.Violate("C31", "wire", "data message on the wire that the writer did not write", "message %d %s", i, w7Short(m.Data))
			break
		}
	}
	for i, r := range wrecs {
		if r.err == nil && i >= len(rw.Msgs) && !faulted {
			s.Violate("C31", "wire", "acknowledged data message missing on the wire", "message %d", i)
		}
	}
	// (1) the close frame carries code and reason whenever they fit in a control frame
	var first *w7CloseAttempt
	for i, a := range attempts {
		fits := len(a.payload) <= 125
		switch {
		case !fits:
			if a.err == nil {
				s.Violate("C31", "close-frame", "close payload longer than 125 bytes accepted", "code %d, payload %d bytes", a.code, len(a.payload))
			} else {
				s.Probe("close_reason_too_long_refused")
			}
		case a.err == nil:
			if first == nil {
				first = a
			}
			if sentClose == nil || !bytes.Equal(sentClose.Payload, a.payload) {
				got := "none"
				if sentClose != nil {
					got = w7Short(sentClose.Payload)
				}
				s.Violate("C31", "close-frame", "WriteControl reported success but the close frame on the wire differs", "attempt %d code %d reason %d bytes: wire close payload %s", i, a.code, len(a.payload)-2, got)
			} else {
				s.Probe("close_frame_checked")
				if len(a.payload) >= 123 {
					s.Probe("close_frame_at_limit")
				}
			}
		default:
			// refusing is legitimate only if a close frame is already out, the connection
			// failed, or the deadline expired while another writer held the connection
			closeOutBefore := sentClose != nil && nc.writtenAt(sentClose.End) != 0 && nc.writtenAt(sentClose.End) < a.ret
			if !closeOutBefore && !faulted && !nc.closed && cs.DeadlineMs != 1 {
				s.Violate("C31", "close-frame", "close frame that fits in a control frame refused", "code %d, payload %d bytes: %v", a.code, len(a.payload), a.err)
			}
		}
	}
	// (2) no data message is accepted once our close frame is out
	if first != nil {
		for i, r := range wrecs {
			if r.err == nil && r.inv > first.ret {
				s.Violate("C31", "after-close", "data message accepted after the close frame had been sent", "message %d began (ev %d) after WriteControl(close) returned (ev %d)", i, r.inv, first.ret)
			}
		}
	}
	// (3) the reader's verdict on what the peer sent
	ref := w7RefDecode(in.got, w7RefCfg{ExpectMasked: sc.Server, Comp: sc.Comp, ReadLimit: 65536})
	localClose := nc.closed && (res.err != nil && in.gotErr != nil && in.gotErr.Error() == "sim: use of closed connection")
	v := w7MatchRead(sc, ref, nc, res)
	if !v.ok && !localClose {
		s.Violate("C29", v.clause, v.sig, "%s", v.detail)
		s.Violate("C31", v.clause, v.sig, "%s", v.detail)
		return
	}
	if v.ok && v.clause == "close" {
		if sentClose == nil && !faulted && !nc.closed {
			s.Violate("C31", "close-reply", "received close frame not answered with a close frame", "received close %d", ref.Term.Code)
		}
	}
	if v.ok && v.clause == "proto" && w7CloseReason(ref.Term.Reason) {
		s.Probe("bad_close_rejected")
		if sentClose != nil && sentCode != 1002 && sentCode != 1007 && first == nil {
			s.Violate("C31", "close-frame-proto", "invalid close frame answered with a code other than protocol error", "sent %d", sentCode)
		}
	}
	// (4) the first close frame observed determines the recorded code. Candidates: every
	// close frame the application tried to send (a failed write still counts as an attempt:
	// whether an unsent frame was "observed" is left open), the close the read path sends on
	// its own (protocol error, too big, reply), and a valid close frame received. The
	// recorded one must not be strictly preceded by another candidate.
	code, incoming := c.CloseCode()
	type obs struct {
		code     int
		incoming bool
		from, to int64
	}
	var cands []obs
	for _, a := range attempts {
		if len(a.payload) <= 125 {
			cands = append(cands, obs{a.code, false, a.inv, a.ret})
		}
	}
	if v.ok && (v.clause == "close" || v.clause == "proto" || v.clause == "toobig") {
		from := in.deliveredAt(ref.Term.Off + 2)
		to := res.errEv
		switch v.clause {
		case "close":
			cands = append(cands, obs{ref.Term.Code, true, from, to}, obs{ref.Term.Code, false, from, to})
		case "proto":
			cands = append(cands, obs{1002, false, from, to})
			if ref.Term.Reason == "invalid UTF-8 in close reason" {
				cands = append(cands, obs{1007, false, from, to})
			}
			if w7CloseReason(ref.Term.Reason) {
				cands = append(cands, obs{ref.Term.Code, true, from, to}) // lenient: the rejected frame was the first one seen
			}
			if ref.Term.Alts["toobig"] {
				cands = append(cands, obs{1009, false, from, to})
			}
		case "toobig":
			cands = append(cands, obs{1009, false, from, to})
		}
	}
	okRec := len(cands) == 0 && code == 0
	for _, x := range cands {
		if x.code != code || x.incoming != incoming {
			continue
		}
		preceded := false
		for _, y := range cands {
			if y.to != 0 && y.to < x.from {
				preceded = true
			}
		}
		if !preceded {
			okRec = true
		}
	}
	if len(cands) >= 2 {
		s.Probe("close_both_directions")
	}
	if !okRec {
		desc := ""
		for _, cd := range cands {
			desc += fmt.Sprintf(" [code %d incoming=%v ev %d..%d]", cd.code, cd.incoming, cd.from, cd.to)
		}
		s.Violate("C31", "recorded-close-code", "recorded close code is not that of the first close frame observed", "CloseCode() = (%d, incoming=%v); candidates:%s", code, incoming, desc)
	} else if len(cands) > 0 {
		s.Probe("nontrivial:C31")
		s.Probe("recorded_code_checked")
	}
}
