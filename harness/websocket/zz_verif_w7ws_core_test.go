//go:build verif

package websocket

// W7 (websocket part), shared machinery: a simulated net.Conn (in-memory, fake clock,
// scheduler-controlled segmentation and faults), a frame ENCODER used to serialise
// generated frame scripts, and an independent REFERENCE DECODER written from RFC 6455
// and RFC 7692 (compress/flate is the only library it uses). Neither the encoder nor the
// reference decoder calls any parsing/formatting code of the package under test.

import (
	"bytes"
	"compress/flate"
	"encoding/binary"
	"errors"
	"fmt"
	"io"
	"net"
	"sort"
	"strings"
	"time"
	"unicode/utf8"

	simrt "github.com/centrifugal/centrifuge/internal/simrt"
)

// ---------------------------------------------------------------------------------
// simulated connection
// ---------------------------------------------------------------------------------

type w7Addr struct{}

func (w7Addr) Network() string { return "sim" }
func (w7Addr) String() string  { return "sim" }

// w7NetErr is what the simulated conn returns; timeouts look like net timeouts.
type w7NetErr struct {
	msg     string
	timeout bool
}

func (e *w7NetErr) Error() string   { return e.msg }
func (e *w7NetErr) Timeout() bool   { return e.timeout }
func (e *w7NetErr) Temporary() bool { return e.timeout }

type w7Mark struct {
	n  int   // cumulative number of bytes after this call
	ev int64 // harness event number
}

// w7World is the per-run shared state (event counter).
type w7World struct {
	s  *simrt.Sim
	ev int64
}

func (w *w7World) next() int64 { w.ev++; return w.ev }

// w7Pipe is one direction of a connection: a byte queue with a durable blocking read.
type w7Pipe struct {
	w        *w7World
	buf      []byte
	eof      bool  // writer side closed: EOF once buf is drained
	rerr     error // immediate error for the reader (reset / local close)
	wake     chan struct{}
	deadline time.Time
	seg      int // reader-side short reads: 0 full, 1 random, 2 one byte, 3 mostly full
	got      []byte
	marks    []w7Mark // cumulative delivered bytes per Read return
	gotErr   error    // first error handed to the reader
	gotErrEv int64
	reads    int
	// yield: every Read is a scheduling point (a read is a system call); used when
	// several connections live in one run so that their readers interleave at the
	// granularity of single reads and not only where the feeders cut the streams
	yield bool
	// chain: a wake-up is handed on to a possible second goroutine parked in this pipe (see Read)
	chain bool
}

func w7NewPipe(w *w7World, seg int) *w7Pipe {
	return &w7Pipe{w: w, wake: make(chan struct{}, 1), seg: seg}
}

// signal2 is signal for the hand-on of a wake-up: only in runs with several connections,
// so that single-connection runs keep the exact schedules of recorded replay files.
func (p *w7Pipe) signal2() {
	if p.chain {
		p.signal()
	}
}

func (p *w7Pipe) signal() {
	select {
	case p.wake <- struct{}{}:
	default:
	}
}

func (p *w7Pipe) feed(b []byte) {
	if len(b) == 0 {
		return
	}
	p.buf = append(p.buf, b...)
	p.signal()
}

func (p *w7Pipe) closeWrite() { p.eof = true; p.signal() }

func (p *w7Pipe) fail(err error) {
	if p.rerr == nil {
		p.rerr = err
	}
	p.signal()
}

func (p *w7Pipe) retErr(err error) (int, error) {
	if p.gotErr == nil {
		p.gotErr = err
		p.gotErrEv = p.w.next()
	}
	return 0, err
}

// deliveredAt returns the event number at which byte offset n (exclusive end) had been
// handed to the reader, or 0 if it never was.
func (p *w7Pipe) deliveredAt(n int) int64 {
	for _, m := range p.marks {
		if m.n >= n {
			return m.ev
		}
	}
	return 0
}

func w7Tok(s *simrt.Sim) {
	if !s.IsTokenHolder() {
		s.Pause()
	}
}

func (p *w7Pipe) Read(b []byte) (int, error) {
	s := p.w.s
	if p.yield {
		s.Pause()
	} else {
		w7Tok(s)
	}
	if len(b) == 0 {
		return 0, nil
	}
	p.reads++
	for {
		if p.rerr != nil {
			p.signal2()
			return p.retErr(p.rerr)
		}
		if !p.deadline.IsZero() && !time.Now().Before(p.deadline) {
			s.Probe("read_deadline_fired")
			return p.retErr(&w7NetErr{msg: "sim: i/o timeout", timeout: true})
		}
		if len(p.buf) > 0 {
			m := len(p.buf)
			if len(b) < m {
				m = len(b)
			}
			n := m
			switch p.seg {
			case 1:
				n = m - s.Intn(m)
			case 2:
				n = 1
			case 3:
				if s.Intn(4) == 3 {
					n = 1 + s.Intn(m)
				}
			}
			if n < m {
				s.Probe("short_read")
			}
			copy(b, p.buf[:n])
			p.got = append(p.got, p.buf[:n]...)
			p.buf = p.buf[n:]
			p.marks = append(p.marks, w7Mark{len(p.got), p.w.next()})
			if len(p.buf) > 0 {
				// hand the wake-up on: a correct reader has one goroutine per connection, but a
				// broken one (two connections sharing an inflater) may have two goroutines parked
				// in the same pipe, and the run must still end with a verdict instead of a hang
				p.signal2()
			}
			return n, nil
		}
		if p.eof {
			p.signal2()
			return p.retErr(io.EOF)
		}
		// block durably (channel and timer were created inside the bubble)
		var tc <-chan time.Time
		var tm *time.Timer
		if !p.deadline.IsZero() {
			tm = time.NewTimer(time.Until(p.deadline))
			tc = tm.C
		}
		select {
		case <-p.wake:
		case <-tc:
		}
		if tm != nil {
			tm.Stop()
		}
		s.Pause()
	}
}

func (p *w7Pipe) setDeadline(t time.Time) {
	p.deadline = t
	p.signal()
}

type w7WFault struct {
	At   int `json:"at"`   // index of the Write call that is hit (-1: never)
	Kind int `json:"kind"` // 1 error, 2 partial write + error, 3 stall, 4 reset (persistent)
	Arg  int `json:"arg"`  // partial: bytes written; stall: milliseconds
}

// w7Conn is the net.Conn handed to the code under test.
type w7Conn struct {
	w           *w7World
	name        string
	in          *w7Pipe
	out         *w7Pipe // optional: peer that receives what is written
	wire        []byte  // everything the code under test wrote
	wmarks      []w7Mark
	wbegin      []w7Mark // (offset before call, event) per Write call
	wdeadline   time.Time
	closed      bool
	dead        bool
	writes      int
	fault       w7WFault
	faultHit    bool
	faultErr    bool // the fault made a Write return an error
	anyWriteErr bool // some Write returned an error (fault, expired deadline, closed)
	faultEv     int64
	closeEv     int64
}

var _ net.Conn = (*w7Conn)(nil)

func (c *w7Conn) Read(b []byte) (int, error) { return c.in.Read(b) }

func (c *w7Conn) emit(b []byte) {
	c.wire = append(c.wire, b...)
	c.wmarks = append(c.wmarks, w7Mark{len(c.wire), c.w.next()})
	if c.out != nil {
		c.out.feed(b)
	}
}

func (c *w7Conn) Write(b []byte) (n int, err error) {
	defer func() {
		if err != nil {
			c.anyWriteErr = true
		}
	}()
	s := c.w.s
	// a write is a system call: a scheduling point in reality, so it is one here
	s.Pause()
	idx := c.writes
	c.writes++
	c.wbegin = append(c.wbegin, w7Mark{len(c.wire), c.w.next()})
	if c.closed {
		return 0, &w7NetErr{msg: "sim: use of closed connection"}
	}
	if c.dead {
		return 0, &w7NetErr{msg: "sim: connection reset by peer"}
	}
	if !c.wdeadline.IsZero() && !time.Now().Before(c.wdeadline) {
		return 0, &w7NetErr{msg: "sim: write timeout", timeout: true}
	}
	if c.fault.Kind != 0 && idx == c.fault.At {
		c.faultHit = true
		c.faultEv = c.w.next()
		switch c.fault.Kind {
		case 1:
			s.Fault("write_error")
			c.faultErr = true
			return 0, &w7NetErr{msg: "sim: write error"}
		case 2:
			s.Fault("write_partial")
			c.faultErr = true
			n := c.fault.Arg
			if n >= len(b) {
				n = len(b) - 1
			}
			if n < 0 {
				n = 0
			}
			c.emit(b[:n])
			return n, &w7NetErr{msg: "sim: short write"}
		case 3:
			s.Fault("write_stall")
			d := time.Duration(c.fault.Arg) * time.Millisecond
			if !c.wdeadline.IsZero() && time.Until(c.wdeadline) <= d {
				s.Sleep(time.Until(c.wdeadline) + time.Microsecond)
				s.Probe("write_deadline_fired")
				c.faultErr = true
				return 0, &w7NetErr{msg: "sim: write timeout", timeout: true}
			}
			s.Sleep(d)
			if c.closed {
				return 0, &w7NetErr{msg: "sim: use of closed connection"}
			}
		case 4:
			s.Fault("write_reset")
			c.faultErr = true
			c.dead = true
			return 0, &w7NetErr{msg: "sim: connection reset by peer"}
		}
	}
	c.emit(b)
	return len(b), nil
}

func (c *w7Conn) Close() error {
	w7Tok(c.w.s)
	if c.closed {
		return &w7NetErr{msg: "sim: use of closed connection"}
	}
	c.closed = true
	c.closeEv = c.w.next()
	c.in.fail(&w7NetErr{msg: "sim: use of closed connection"})
	if c.out != nil {
		c.out.closeWrite()
	}
	return nil
}

func (c *w7Conn) LocalAddr() net.Addr  { return w7Addr{} }
func (c *w7Conn) RemoteAddr() net.Addr { return w7Addr{} }
func (c *w7Conn) SetDeadline(t time.Time) error {
	w7Tok(c.w.s)
	c.wdeadline = t
	c.in.setDeadline(t)
	return nil
}
func (c *w7Conn) SetReadDeadline(t time.Time) error {
	w7Tok(c.w.s)
	c.in.setDeadline(t)
	return nil
}
func (c *w7Conn) SetWriteDeadline(t time.Time) error {
	w7Tok(c.w.s)
	c.wdeadline = t
	return nil
}

// writeBeginEv returns the event at which the Write call that produced wire offset off began.
func (c *w7Conn) writeBeginEv(off int) int64 {
	var ev int64
	for _, m := range c.wbegin {
		if m.n <= off {
			ev = m.ev
		}
	}
	return ev
}

func (c *w7Conn) writtenAt(n int) int64 {
	for _, m := range c.wmarks {
		if m.n >= n {
			return m.ev
		}
	}
	return 0
}

// w7BufPool is a trivial deterministic BufferPool.
type w7BufPool struct{ items []interface{} }

func (p *w7BufPool) Get() interface{} {
	if n := len(p.items); n > 0 {
		x := p.items[n-1]
		p.items = p.items[:n-1]
		return x
	}
	return nil
}
func (p *w7BufPool) Put(x interface{}) { p.items = append(p.items, x) }

// ---------------------------------------------------------------------------------
// frame scripts and the encoder
// ---------------------------------------------------------------------------------

type w7Frame struct {
	Op      int    `json:"op"`
	Fin     bool   `json:"fin"`
	Rsv     int    `json:"rsv,omitempty"` // 4 = RSV1, 2 = RSV2, 1 = RSV3
	Mask    bool   `json:"mask,omitempty"`
	Key     uint32 `json:"key,omitempty"`
	LenMode int    `json:"lm,omitempty"` // 0 minimal, 1 at least 16-bit, 2 64-bit
	DeclSet bool   `json:"decl_set,omitempty"`
	Decl    uint64 `json:"decl,omitempty"` // declared length when DeclSet (payload bytes present = len(data))
	Data    []byte `json:"d,omitempty"`
	GenLen  int    `json:"gl,omitempty"`
	GenSeed int    `json:"gs,omitempty"`
	GenKind int    `json:"gk,omitempty"` // 0 random bytes, 1 ascii, 2 repetitive ascii, 3 multi-byte utf-8
	Note    string `json:"note,omitempty"`
}

func w7GenBytes(n, seed, kind int) []byte {
	out := make([]byte, n)
	x := uint64(seed)*0x9e3779b97f4a7c15 + 0x1234567
	if seed >= 1000 {
		// connections that share a run draw their seeds from disjoint ranges starting at
		// multiples of 1000 and rely on payloads of different seeds having no long stretch in
		// common. The plain stream of seed s+1 is the stream of seed s shifted by one step,
		// so the start state is scrambled first (small seeds keep the historical streams:
		// recorded replay files stay valid).
		z := uint64(seed) + 0x632be59bd9b4e019
		z = (z ^ (z >> 30)) * 0xbf58476d1ce4e5b9
		z = (z ^ (z >> 27)) * 0x94d049bb133111eb
		x = z ^ (z >> 31)
	}
	nx := func() uint64 {
		x += 0x9e3779b97f4a7c15
		z := x
		z = (z ^ (z >> 30)) * 0xbf58476d1ce4e5b9
		z = (z ^ (z >> 27)) * 0x94d049bb133111eb
		return z ^ (z >> 31)
	}
	switch kind {
	case 0:
		for i := 0; i < n; i += 8 {
			v := nx()
			for j := 0; j < 8 && i+j < n; j++ {
				out[i+j] = byte(v >> (8 * j))
			}
		}
	case 1:
		for i := range out {
			if i%8 == 0 {
				x = nx()
			}
			out[i] = 'a' + byte((x>>(uint(i%8)*8))%26)
		}
	case 2:
		// seeds >= 1000 (connections that share a run): the whole seed is part of the pattern
		v := seed % 13
		if seed >= 1000 {
			v = seed
		}
		pat := []byte(fmt.Sprintf("{\"k%d\":\"value-%d\"},", seed%7, v))
		for i := range out {
			out[i] = pat[i%len(pat)]
		}
	case 3:
		// valid multi-byte UTF-8, cut at a rune boundary and padded with ASCII
		pat := []byte("héllo-世界-\U0001F600;")
		i := 0
		for i < n {
			r, sz := utf8.DecodeRune(pat[(i*7+seed)%len(pat):])
			if r == utf8.RuneError || i+sz > n {
				out[i] = 'x'
				i++
				continue
			}
			utf8.EncodeRune(out[i:], r)
			i += sz
		}
	}
	return out
}

func (f *w7Frame) payload() []byte {
	if f.Data != nil || f.GenLen == 0 {
		return f.Data
	}
	return w7GenBytes(f.GenLen, f.GenSeed, f.GenKind)
}

func w7EncodeFrame(dst []byte, f *w7Frame) []byte {
	p := f.payload()
	b0 := byte(f.Op&0xf) | byte(f.Rsv&7)<<4
	if f.Fin {
		b0 |= 0x80
	}
	l := uint64(len(p))
	if f.DeclSet {
		l = f.Decl
	}
	var b1 byte
	if f.Mask {
		b1 = 0x80
	}
	switch {
	case f.LenMode >= 2 || l > 0xffff:
		dst = append(dst, b0, b1|127)
		dst = binary.BigEndian.AppendUint64(dst, l)
	case f.LenMode == 1 || l > 125:
		dst = append(dst, b0, b1|126)
		dst = binary.BigEndian.AppendUint16(dst, uint16(l))
	default:
		dst = append(dst, b0, b1|byte(l))
	}
	if f.Mask {
		var k [4]byte
		binary.BigEndian.PutUint32(k[:], f.Key)
		dst = append(dst, k[:]...)
		st := len(dst)
		dst = append(dst, p...)
		for i := st; i < len(dst); i++ {
			dst[i] ^= k[(i-st)&3]
		}
	} else {
		dst = append(dst, p...)
	}
	return dst
}

func w7Encode(frames []w7Frame) []byte {
	var out []byte
	for i := range frames {
		out = w7EncodeFrame(out, &frames[i])
	}
	return out
}

// w7Deflate compresses data the way RFC 7692 section 7.2.1 prescribes (sync flush, last
// four octets removed). With final set the stream ends with a BFINAL block followed by a
// zero octet (section 7.2.3.4 example).
var w7FlateWriters = map[int]*flate.Writer{}

func w7Deflate(data []byte, level int, final bool) []byte {
	var buf bytes.Buffer
	fw := w7FlateWriters[level]
	if fw == nil {
		fw, _ = flate.NewWriter(&buf, level)
		w7FlateWriters[level] = fw
	} else {
		fw.Reset(&buf)
	}
	_, _ = fw.Write(data)
	if final {
		_ = fw.Close()
		return append(buf.Bytes(), 0)
	}
	_ = fw.Flush()
	b := buf.Bytes()
	return b[:len(b)-4]
}

// ---------------------------------------------------------------------------------
// reference decoder (RFC 6455 section 5, RFC 7692 sections 6-7)
// ---------------------------------------------------------------------------------

type w7RefCfg struct {
	ExpectMasked bool  // frames must be masked (we decode what a client sent)
	Comp         bool  // permessage-deflate negotiated (no context takeover both ways)
	ReadLimit    int64 // limit on the (wire) payload bytes of one message, 0 = none
	DecompLimit  int64 // limit on the inflated size of one message, 0 = none
	StrictLen    bool  // reject non-minimal length encodings
	CheckText    bool  // reject text messages that are not valid UTF-8
}

type w7Msg struct {
	Typ  int
	Data []byte
}

type w7Ctl struct {
	Op        int
	Payload   []byte
	AfterMsgs int
	Off, End  int
}

type w7FrameInfo struct {
	Op       int
	Fin      bool
	Rsv      int
	Masked   bool
	Len      uint64
	Minimal  bool
	Off, End int
}

type w7Term struct {
	Kind   string // "more" | "proto" | "toobig" | "close" | "inflate" | "utf8"
	Reason string
	Code   int
	Text   string
	Alts   map[string]bool
	Off    int  // start of the frame in which the terminal condition arose
	End    int  // end of that frame when it is completely present, else -1
	Clean  bool // for "more": the stream ended on a frame boundary outside any message
	// InMsg: the condition arose while a data message was incomplete (an application that
	// streams the message may already hold a reader for it); MsgOff is where that message began.
	InMsg  bool
	MsgOff int
	// Content: the condition concerns the content of a whole (compressed) message; a
	// streaming decoder may detect it anywhere between MsgOff and End.
	Content bool
	// EarlyEnd: the compressed message in progress already contains a complete deflate
	// stream (a BFINAL block) although its final fragment has not arrived.
	EarlyEnd bool
	// Present: for a read-limit verdict, the number of payload bytes of the offending
	// message that are physically present in the stream (earlier fragments plus what
	// there is of the offending frame).
	Present uint64
	// Unbounded: no read limit is configured, but the fragments announced so far add up
	// to 2^63 bytes or more. The stream cannot contain such a message, so the verdict is
	// "more"; giving up with "too big" is accepted as an alternative and nothing is
	// demanded about a close frame.
	Unbounded bool
}

func (t *w7Term) alt(k string) {
	if t.Alts == nil {
		t.Alts = map[string]bool{}
	}
	t.Alts[k] = true
}

func (t w7Term) String() string {
	s := t.Kind
	if t.Reason != "" {
		s += "[" + t.Reason + "]"
	}
	if t.Kind == "close" {
		s += fmt.Sprintf("(%d)", t.Code)
	}
	return s
}

type w7Ref struct {
	Msgs       []w7Msg
	Ctl        []w7Ctl
	Frames     []w7FrameInfo
	Term       w7Term
	NonMinimal bool // a non-minimal length encoding was seen before the terminal
	BadText    int  // number of text messages with invalid UTF-8 that were passed on
}

// close codes an endpoint may RECEIVE in a close frame: RFC 6455 7.4.1 (1000-1003,
// 1007-1011), IANA registry additions 1012-1014, 3000-4999 registered/private. 1004,
// 1005, 1006, 1015 are reserved and must not appear on the wire; 0-999 unused;
// 1016-2999 reserved for the protocol; >= 5000 undefined.
func w7CloseCodeOK(code int) bool {
	switch {
	case code >= 1000 && code <= 1003:
		return true
	case code >= 1007 && code <= 1014:
		return true
	case code >= 3000 && code <= 4999:
		return true
	}
	return false
}

// w7Inflate inflates one message payload as RFC 7692 7.2.2 says: append 00 00 ff ff and
// run DEFLATE. A final empty stored block is appended so that the decoder stops cleanly
// at the block boundary after the appended octets. Returns the output produced so far
// even on error.
func w7Inflate(p []byte, max int64) (out []byte, err error, over bool) {
	in := make([]byte, 0, len(p)+9)
	in = append(in, p...)
	in = append(in, 0, 0, 0xff, 0xff, 1, 0, 0, 0xff, 0xff)
	fr := flate.NewReader(bytes.NewReader(in))
	buf := make([]byte, 4096)
	for {
		n, e := fr.Read(buf)
		out = append(out, buf[:n]...)
		if max > 0 && int64(len(out)) > max {
			return out, nil, true
		}
		if e == io.EOF {
			return out, nil, false
		}
		if e != nil {
			return out, e, false
		}
	}
}

// w7InflatePartial inflates a prefix of a compressed message (no tail appended) and
// reports how many bytes it yields and whether the data is corrupt (as opposed to
// merely incomplete).
func w7InflatePartial(p []byte, max int64) (n int64, corrupt, ended bool) {
	fr := flate.NewReader(bytes.NewReader(p))
	buf := make([]byte, 4096)
	for {
		k, e := fr.Read(buf)
		n += int64(k)
		if max > 0 && n > max {
			return n, false, false
		}
		if e != nil {
			var ce flate.CorruptInputError
			if errors.As(e, &ce) {
				return n, true, false
			}
			return n, false, e == io.EOF
		}
	}
}

func w7RefDecode(stream []byte, cfg w7RefCfg) *w7Ref {
	r := &w7Ref{}
	pos := 0
	inMsg := false
	msgOp := 0
	msgComp := false
	var msgData []byte
	var msgLen uint64 // declared payload bytes of the current message so far
	msgOff := -1

	// partial: alternatives a streaming decoder may legitimately report when the
	// terminal condition arises while a compressed message is still incomplete.
	partialAlts := func(t *w7Term, extra []byte) {
		if !inMsg || !msgComp {
			return
		}
		p := append(append([]byte(nil), msgData...), extra...)
		n, corrupt, ended := w7InflatePartial(p, cfg.DecompLimit)
		t.EarlyEnd = ended
		if cfg.DecompLimit > 0 && n > cfg.DecompLimit {
			t.alt("toobig")
		}
		if corrupt {
			t.alt("inflate")
		}
	}
	finish := func(t w7Term) *w7Ref {
		if inMsg {
			t.InMsg = true
			t.MsgOff = msgOff
		} else if !t.InMsg {
			t.MsgOff = -1
		}
		r.Term = t
		return r
	}
	for {
		start := pos
		avail := len(stream) - pos
		if avail < 2 {
			t := w7Term{Kind: "more", Off: start, End: -1, Clean: avail == 0 && !inMsg}
			partialAlts(&t, nil)
			return finish(t)
		}
		b0, b1 := stream[pos], stream[pos+1]
		fin := b0&0x80 != 0
		rsv := int(b0>>4) & 7
		op := int(b0 & 0xf)
		masked := b1&0x80 != 0
		l7 := uint64(b1 & 0x7f)
		isCtl := op >= 8
		isData := op <= 2

		// how much of this frame is present (only meaningful once the length is known)
		var reasons []string
		if rsv&3 != 0 {
			reasons = append(reasons, "RSV2/RSV3 set")
		}
		switch {
		case op == 1 || op == 2:
			if inMsg {
				reasons = append(reasons, "new data frame inside a fragmented message")
			}
		case op == 0:
			if !inMsg {
				reasons = append(reasons, "continuation frame without a message")
			}
		case op == 8 || op == 9 || op == 10:
			if !fin {
				reasons = append(reasons, "fragmented control frame")
			}
			if l7 > 125 {
				reasons = append(reasons, "control frame longer than 125")
			}
		default:
			reasons = append(reasons, "reserved opcode")
		}
		if rsv&4 != 0 {
			switch {
			case !cfg.Comp:
				reasons = append(reasons, "RSV1 without negotiated extension")
			case isCtl:
				reasons = append(reasons, "RSV1 on control frame")
			case op == 0:
				reasons = append(reasons, "RSV1 on continuation frame")
			}
		}
		if masked != cfg.ExpectMasked {
			if cfg.ExpectMasked {
				reasons = append(reasons, "unmasked frame from client")
			} else {
				reasons = append(reasons, "masked frame from server")
			}
		}

		// extended length (as far as present)
		hdr := 2
		length := l7
		lenKnown := true
		minimal := true
		msb := false
		switch l7 {
		case 126:
			if avail < 4 {
				lenKnown = false
			} else {
				length = uint64(binary.BigEndian.Uint16(stream[pos+2:]))
				minimal = length > 125
				hdr = 4
			}
		case 127:
			if avail < 10 {
				lenKnown = false
			} else {
				length = binary.BigEndian.Uint64(stream[pos+2:])
				minimal = length > 0xffff
				msb = length>>63 != 0
				hdr = 10
			}
		}
		full := hdr
		if masked {
			full += 4
		}
		complete := lenKnown && !msb && uint64(avail-min(avail, full)) >= length && avail >= full
		frameEnd := -1
		if complete {
			frameEnd = pos + full + int(length)
		}
		overLimit := func() bool {
			if !isData || cfg.ReadLimit <= 0 || !lenKnown {
				return false
			}
			cum := msgLen + length // msgLen is 0 outside a message
			return msb || cum < length || cum > uint64(cfg.ReadLimit)
		}
		// payload bytes of the current message that are present in the stream, this frame included
		present := func() uint64 {
			n := msgLen
			if avail > full {
				have := uint64(avail - full)
				if have > length {
					have = length
				}
				n += have
			}
			return n
		}
		// the limit verdict: a decoder that looks at the announced length reports it at the
		// header; one that counts payload bytes as they arrive reports it at the latest when
		// more than the limit has arrived. An i/o error instead of the verdict is therefore
		// conforming only while the frame is incomplete AND no more than the limit is present.
		limitTerm := func() w7Term {
			t := w7Term{Kind: "toobig", Reason: "message payload exceeds the read limit", Off: start, End: frameEnd, Present: present()}
			if !msb && msgLen+length >= 1<<63 {
				// every frame length is legal (below 2^63) but their sum is not representable
				// in 63 bits: a distinct reason, because an implementation that adds the
				// announced lengths in a signed 64-bit counter is at risk exactly here
				t.Reason = "fragment lengths of the message add up to 2^63 or more"
			}
			if !complete && t.Present <= uint64(cfg.ReadLimit) {
				t.alt("io")
			}
			return t
		}

		if len(reasons) > 0 {
			t := w7Term{Kind: "proto", Reason: strings.Join(reasons, " + "), Off: start, End: frameEnd}
			if overLimit() {
				t.alt("toobig")
			}
			if !complete {
				t.alt("io")
			}
			partialAlts(&t, nil)
			return finish(t)
		}
		if !lenKnown {
			t := w7Term{Kind: "more", Off: start, End: -1}
			partialAlts(&t, nil)
			return finish(t)
		}
		if msb {
			t := w7Term{Kind: "proto", Reason: "64-bit length with most significant bit set", Off: start, End: -1}
			// no implementation can hold 2^63 bytes: reporting it as "too big" is as good
			t.alt("toobig")
			partialAlts(&t, nil)
			return finish(t)
		}
		if !minimal {
			if cfg.StrictLen {
				t := w7Term{Kind: "proto", Reason: "non-minimal length encoding", Off: start, End: frameEnd}
				if overLimit() {
					t.alt("toobig")
				}
				if !complete {
					t.alt("io")
				}
				partialAlts(&t, nil)
				return finish(t)
			}
			r.NonMinimal = true
		}
		if overLimit() {
			t := limitTerm()
			partialAlts(&t, nil)
			return finish(t)
		}
		if !complete {
			t := w7Term{Kind: "more", Off: start, End: -1}
			if isData && cfg.ReadLimit <= 0 && msgLen+length >= 1<<63 {
				t.Unbounded = true
				t.alt("toobig")
			}
			if isData && avail >= full && !inMsg {
				t.InMsg, t.MsgOff = true, start
			}
			if isData && avail > full {
				// the part of the payload that is present counts for a streaming inflater
				part := append([]byte(nil), stream[pos+full:]...)
				if masked {
					k := stream[pos+hdr : pos+hdr+4]
					for i := range part {
						part[i] ^= k[i&3]
					}
				}
				if op != 0 {
					// first frame of a message: temporarily enter it for partialAlts
					inMsg, msgComp, msgData, msgOff = true, rsv&4 != 0, nil, start
				}
				partialAlts(&t, part)
			} else {
				partialAlts(&t, nil)
			}
			return finish(t)
		}
		payload := append([]byte(nil), stream[pos+full:frameEnd]...)
		if masked {
			k := stream[pos+hdr : pos+hdr+4]
			for i := range payload {
				payload[i] ^= k[i&3]
			}
		}
		r.Frames = append(r.Frames, w7FrameInfo{Op: op, Fin: fin, Rsv: rsv, Masked: masked, Len: length, Minimal: minimal, Off: start, End: frameEnd})
		pos = frameEnd

		switch op {
		case 9, 10:
			r.Ctl = append(r.Ctl, w7Ctl{Op: op, Payload: payload, AfterMsgs: len(r.Msgs), Off: start, End: frameEnd})
		case 8:
			t := w7Term{Kind: "close", Code: 1005, Off: start, End: frameEnd}
			switch {
			case len(payload) == 1:
				t = w7Term{Kind: "proto", Reason: "close payload of 1 byte", Off: start, End: frameEnd}
			case len(payload) >= 2:
				code := int(binary.BigEndian.Uint16(payload))
				switch {
				case !w7CloseCodeOK(code):
					t = w7Term{Kind: "proto", Reason: "forbidden close code", Code: code, Off: start, End: frameEnd}
				case !utf8.Valid(payload[2:]):
					t = w7Term{Kind: "proto", Reason: "invalid UTF-8 in close reason", Code: code, Off: start, End: frameEnd}
				default:
					t.Code = code
					t.Text = string(payload[2:])
					if code >= 1012 && code <= 1014 {
						// registered with IANA after RFC 6455; the RFC itself reserves the range
						// 1000-2999 for the protocol, so refusing them is defensible as well
						t.alt("proto")
					}
				}
			}
			partialAlts(&t, nil)
			r.Ctl = append(r.Ctl, w7Ctl{Op: op, Payload: payload, AfterMsgs: len(r.Msgs), Off: start, End: frameEnd})
			return finish(t)
		default: // 0, 1, 2
			if op != 0 {
				inMsg, msgOp, msgComp, msgData, msgLen, msgOff = true, op, rsv&4 != 0, nil, 0, start
			}
			msgData = append(msgData, payload...)
			msgLen += length
			if !fin {
				continue
			}
			data := msgData
			if msgComp {
				out, err, over := w7Inflate(msgData, cfg.DecompLimit)
				switch {
				case over:
					return finish(w7Term{Kind: "toobig", Reason: "inflated message exceeds the decompressed read limit", Off: start, End: frameEnd, Content: true})
				case err != nil:
					return finish(w7Term{Kind: "inflate", Reason: "corrupt deflate stream", Off: start, End: frameEnd, Content: true})
				}
				data = out
			}
			if data == nil {
				data = []byte{}
			}
			if msgOp == 1 && !utf8.Valid(data) {
				if cfg.CheckText {
					return finish(w7Term{Kind: "utf8", Reason: "text message is not valid UTF-8", Off: start, End: frameEnd, Content: true})
				}
				r.BadText++
			}
			r.Msgs = append(r.Msgs, w7Msg{Typ: msgOp, Data: data})
			inMsg, msgData, msgLen, msgComp = false, nil, 0, false
		}
	}
}

// ---------------------------------------------------------------------------------
// classification of errors returned by the code under test
// ---------------------------------------------------------------------------------

// w7ErrClasses maps an error returned by the real reader to the set of terminal kinds
// it may stand for.
func w7ErrClasses(err error) map[string]bool {
	out := map[string]bool{}
	if err == nil {
		out["none"] = true
		return out
	}
	var ce *CloseError
	var ne *w7NetErr
	var nte net.Error
	var fce flate.CorruptInputError
	switch {
	case errors.Is(err, ErrReadLimit):
		out["toobig"] = true
	case errors.As(err, &ce):
		if ce.Code == CloseAbnormalClosure {
			out["io"] = true
			out["inflate"] = true // a truncated deflate stream may surface as unexpected EOF
		} else {
			out["close"] = true
		}
	case errors.As(err, &ne), errors.Is(err, io.EOF):
		out["io"] = true
	case errors.Is(err, io.ErrUnexpectedEOF):
		out["io"] = true
		out["inflate"] = true
	case errors.As(err, &fce):
		out["inflate"] = true
	case errors.As(err, &nte):
		out["io"] = true
	default:
		if strings.HasPrefix(err.Error(), "flate:") {
			out["inflate"] = true
		} else {
			out["proto"] = true
		}
	}
	return out
}

func w7ClassNames(m map[string]bool) string {
	var ks []string
	for k := range m {
		ks = append(ks, k)
	}
	sort.Strings(ks)
	return strings.Join(ks, "|")
}

func w7Short(b []byte) string {
	if len(b) <= 24 {
		return fmt.Sprintf("%x", b)
	}
	return fmt.Sprintf("%x..(%d bytes)", b[:24], len(b))
}

// w7ClosePayloadValidForSending: RFC 6455 5.5.1 / 7.4: empty, or a code that may be sent
// followed by valid UTF-8.
func w7ClosePayloadValidForSending(p []byte) (int, string, bool) {
	if len(p) == 0 {
		return 1005, "", true
	}
	if len(p) == 1 {
		return 0, "", false
	}
	code := int(binary.BigEndian.Uint16(p))
	if !w7CloseCodeOK(code) || !utf8.Valid(p[2:]) {
		return code, "", false
	}
	return code, string(p[2:]), true
}
