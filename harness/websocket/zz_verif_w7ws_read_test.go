//go:build verif

package websocket

// W7ws "read" mode (C29, close clauses of C31): a generated frame script is serialised by
// the harness encoder, optionally corrupted / truncated, fed in scheduler-chosen segments
// through the simulated conn to the real reader; the outcome (messages, first error, frames
// written back, recorded close code) is compared with the reference decoder's verdict on
// exactly the bytes the real code was handed.

import (
	"bytes"
	"encoding/binary"
	"fmt"
	"io"
	"time"
	"unicode/utf8"

	simrt "github.com/centrifugal/centrifuge/internal/simrt"
)

type w7Flip struct {
	Off int `json:"off"`
	Xor int `json:"xor"`
}

type w7Script struct {
	Mode        string `json:"mode"`           // "read" | "rt" | "close" | "hs"
	Anom        string `json:"anom,omitempty"` // which anomaly the generator planted (informative)
	Server      bool   `json:"server"`
	Comp        bool   `json:"comp,omitempty"`
	ReadLimit   int64  `json:"read_limit,omitempty"`
	DecompLimit int64  `json:"decomp_limit,omitempty"`
	ReadBuf     int    `json:"read_buf,omitempty"`
	WriteBuf    int    `json:"write_buf,omitempty"`
	Pool        bool   `json:"pool,omitempty"`

	// read mode
	Frames     []w7Frame `json:"frames,omitempty"`
	Flips      []w7Flip  `json:"flips,omitempty"`
	Trunc      int       `json:"trunc"` // -1: none
	End        int       `json:"end,omitempty"`
	Feed       int       `json:"feed,omitempty"`
	Seg        int       `json:"seg,omitempty"`
	ReadAPI    int       `json:"read_api,omitempty"` // 0 ReadMessage, 1 NextReader + chunked reads, 2 partial consumption
	Chunk      int       `json:"chunk,omitempty"`
	Consume    []int     `json:"consume,omitempty"`
	DeadlineMs int       `json:"deadline_ms,omitempty"`
	PongExtend bool      `json:"pong_extend,omitempty"`
	WFault     w7WFault  `json:"wfault"`

	// multi mode: several connections of mode "read" live in one run (one bubble, one
	// scheduler, shared process-wide pools of the package under test)
	Sub     []*w7Script `json:"sub,omitempty"`
	AdvPool bool        `json:"adv_pool,omitempty"` // sync.Pool.Get may return any pooled object
	Yield   bool        `json:"yield,omitempty"`    // every Read of the simulated conn is a scheduling point
	SeedOff int         `json:"seed_off,omitempty"` // payload seeds start here (distinct payloads per connection)

	// rt mode
	Level   int     `json:"level,omitempty"`
	Ops     []w7WOp `json:"ops,omitempty"`
	Ctl     []w7COp `json:"ctl,omitempty"`
	PeerBuf int     `json:"peer_buf,omitempty"`
	PeerAPI int     `json:"peer_api,omitempty"`
	PeerSeg int     `json:"peer_seg,omitempty"`

	// close mode
	Close *w7CloseScript `json:"close,omitempty"`

	// handshake sweep
	HS *w7HSScript `json:"hs,omitempty"`
}

// ---------------------------------------------------------------------------------
// generator for read mode
// ---------------------------------------------------------------------------------

type w7Gen struct {
	c      *simrt.Choice
	sc     *w7Script
	seed   int
	frames []w7Frame
	// compMost: three of four data messages are compressed when the extension is on
	// (multi mode: the shared inflater/deflater pools are what the connections have in common)
	compMost bool
}

// w7GenOpt tunes w7GenReadOpt for connections that share a run with others.
type w7GenOpt struct {
	multi   bool
	seedOff int
}

func (g *w7Gen) nextSeed() int { g.seed++; return g.seed }

func (g *w7Gen) key() uint32 { return uint32(g.c.Intn(1<<30))*4 + uint32(g.c.Intn(4)) }

// base returns a frame with the masking the real side expects.
func (g *w7Gen) base(op int, fin bool) w7Frame {
	f := w7Frame{Op: op, Fin: fin, Mask: g.sc.Server}
	if f.Mask {
		f.Key = g.key()
	}
	return f
}

func (g *w7Gen) payloadLen() int {
	c := g.c
	switch c.Pick(8, 5, 4, 3, 2, 1) {
	case 0:
		return c.Intn(40)
	case 1:
		return []int{0, 1, 124, 125, 126, 127, 128}[c.Intn(7)]
	case 2:
		return 100 + c.Intn(900)
	case 3:
		return 1000 + c.Intn(5000)
	case 4:
		return []int{65535, 65536, 65537}[c.Intn(3)]
	default:
		return 66000 + c.Intn(6000)
	}
}

func (g *w7Gen) ctlFrame() w7Frame {
	c := g.c
	op := []int{9, 9, 10}[c.Intn(3)]
	f := g.base(op, true)
	n := []int{0, 4, 4, 17, 125}[c.Intn(5)]
	if n > 0 {
		f.GenLen, f.GenSeed, f.GenKind = n, g.nextSeed(), 1
	}
	return f
}

// dataMessage appends the frames of one data message.
func (g *w7Gen) dataMessage(anom string) {
	c, sc := g.c, g.sc
	op := 1 + c.Intn(2)
	n := g.payloadLen()
	kind := 0
	if op == 1 {
		kind = []int{1, 1, 2, 3}[c.Intn(4)]
	} else if c.Intn(3) == 0 {
		kind = 2
	}
	if g.compMost && kind == 3 {
		// multi mode: only payload kinds that are unique per seed (the cross-connection
		// check attributes a stretch of payload to the connection it was generated for)
		kind = 1
	}
	if anom == "badtext" {
		op, kind = 1, 0
		if n < 4 {
			n = 4 + c.Intn(30)
		}
	}
	compressed := sc.Comp && c.Intn(2) == 0
	if g.compMost && sc.Comp && !compressed {
		compressed = c.Intn(2) == 0
	}
	if anom == "atlimit" {
		// a valid message of exactly the permitted size
		if compressed && sc.DecompLimit > 0 {
			n = int(sc.DecompLimit)
		} else if sc.ReadLimit > 0 {
			compressed = false
			n = int(sc.ReadLimit)
		}
	}
	if anom == "bomb" || anom == "corruptdeflate" || anom == "rsv1cont" {
		compressed = true
	}
	if anom == "rsv1nocomp" {
		compressed = false
	}
	seed := g.nextSeed()
	var wire []byte // payload bytes as they go on the wire
	explicit := false
	if compressed {
		if anom == "bomb" {
			n = int(sc.DecompLimit) + 1 + c.Intn(3000)
			kind = 2
		} else if n > 20000 {
			kind = 2
		} else if kind == 0 && n > 3000 {
			n = 100 + c.Intn(2900)
		}
		raw := w7GenBytes(n, seed, kind)
		level := []int{1, 1, -2, 6, 9, 0}[c.Intn(6)]
		wire = w7Deflate(raw, level, c.Intn(8) == 0)
		if anom == "corruptdeflate" && len(wire) > 0 {
			switch c.Intn(3) {
			case 0:
				wire[c.Intn(len(wire))] ^= byte(1 + c.Intn(255))
			case 1:
				wire = wire[:len(wire)/2]
			default:
				wire = append([]byte{0x07}, wire...) // reserved block type 3
			}
		}
		explicit = true
	}
	total := n
	if explicit {
		total = len(wire)
	}
	// fragmentation
	nfrag := 1
	if c.Intn(5) >= 2 {
		nfrag = 2 + c.Intn(3)
	}
	if anom == "rsv1cont" || anom == "datainmsg" || anom == "fragctlmid" {
		if nfrag < 2 {
			nfrag = 2
		}
	}
	cuts := []int{0}
	for i := 1; i < nfrag; i++ {
		cuts = append(cuts, c.Intn(total+1))
	}
	cuts = append(cuts, total)
	for i := 1; i < len(cuts); i++ { // insertion sort
		for j := i; j > 0 && cuts[j] < cuts[j-1]; j-- {
			cuts[j], cuts[j-1] = cuts[j-1], cuts[j]
		}
	}
	var whole []byte
	if !explicit && nfrag > 1 {
		whole = w7GenBytes(n, seed, kind)
	}
	for i := 0; i < nfrag; i++ {
		fop := op
		if i > 0 {
			fop = 0
		}
		f := g.base(fop, i == nfrag-1)
		lo, hi := cuts[i], cuts[i+1]
		switch {
		case explicit:
			f.Data = append([]byte{}, wire[lo:hi]...)
		case nfrag == 1:
			f.GenLen, f.GenSeed, f.GenKind = n, seed, kind
		default:
			if hi-lo > 512 {
				// keep scripts small: a fresh generated block (the message is then the
				// concatenation of blocks; validity of UTF-8 across cuts is kept by using ASCII)
				k := kind
				if k == 3 {
					k = 1
				}
				f.GenLen, f.GenSeed, f.GenKind = hi-lo, g.nextSeed(), k
			} else {
				f.Data = append([]byte{}, whole[lo:hi]...)
			}
		}
		if i == 0 && compressed {
			f.Rsv |= 4
		}
		if i == 0 && anom == "rsv1nocomp" {
			f.Rsv |= 4
		}
		if i == 1 && anom == "rsv1cont" {
			f.Rsv |= 4
		}
		if c.Intn(12) == 0 {
			f.LenMode = 1 + c.Intn(2)
			f.Note = "maybe-nonminimal"
		}
		g.frames = append(g.frames, f)
		if i < nfrag-1 {
			// interleaved control frames
			for c.Intn(3) == 0 {
				g.frames = append(g.frames, g.ctlFrame())
			}
			if i == 0 && anom == "datainmsg" {
				f2 := g.base(1+c.Intn(2), c.Intn(2) == 0)
				f2.GenLen, f2.GenSeed, f2.GenKind = c.Intn(20), g.nextSeed(), 1
				g.frames = append(g.frames, f2)
			}
			if i == 0 && anom == "fragctlmid" {
				f2 := g.base(9, false)
				f2.GenLen, f2.GenSeed, f2.GenKind = c.Intn(20), g.nextSeed(), 1
				g.frames = append(g.frames, f2)
			}
		}
	}
}

func w7ClosePayload(code int, reason []byte) []byte {
	b := make([]byte, 2+len(reason))
	binary.BigEndian.PutUint16(b, uint16(code))
	copy(b[2:], reason)
	return b
}

func (g *w7Gen) closeFrame(anom string) {
	c := g.c
	f := g.base(8, true)
	goodCodes := []int{1000, 1001, 1002, 1003, 1007, 1008, 1009, 1010, 1011, 1012, 1013, 1014, 3000, 3501, 4000, 4999}
	badCodes := []int{0, 1, 999, 1004, 1005, 1006, 1015, 1016, 1100, 2000, 2999, 5000, 5001, 65535}
	reasonLen := []int{0, 0, 5, 30, 122, 123}[c.Intn(6)]
	kind := []int{1, 1, 3}[c.Intn(3)]
	reason := w7GenBytes(reasonLen, g.nextSeed(), kind)
	switch anom {
	case "badclosecode":
		f.Data = w7ClosePayload(badCodes[c.Intn(len(badCodes))], reason)
	case "badcloseutf8":
		bad := [][]byte{{0xff}, {0xc3, 0x28}, {0xe2, 0x82}, {0xed, 0xa0, 0x80}, {0xf8, 0x88, 0x80, 0x80, 0x80}, {'o', 'k', 0x80}}[c.Intn(6)]
		if len(reason)+len(bad) > 123 {
			reason = reason[:123-len(bad)]
			if kind == 3 {
				reason = w7GenBytes(len(reason), g.nextSeed(), 1)
			}
		}
		f.Data = w7ClosePayload(goodCodes[c.Intn(len(goodCodes))], append(reason, bad...))
	case "close1":
		f.Data = []byte{byte(3 + c.Intn(2)*0xe5)}
	case "closelong":
		f.Data = w7ClosePayload(1000, w7GenBytes(124+c.Intn(10), g.nextSeed(), 1))
	default:
		if c.Intn(5) == 0 {
			f.Data = nil // empty close
		} else {
			f.Data = w7ClosePayload(goodCodes[c.Intn(len(goodCodes))], reason)
		}
	}
	g.frames = append(g.frames, f)
}

func (g *w7Gen) anomaly(anom string) {
	c := g.c
	switch anom {
	case "badtext", "bomb", "corruptdeflate", "rsv1cont", "rsv1nocomp", "datainmsg", "fragctlmid", "atlimit":
		g.dataMessage(anom)
	case "badclosecode", "badcloseutf8", "close1", "closelong":
		g.closeFrame(anom)
	case "resop":
		f := g.base([]int{3, 4, 5, 6, 7, 11, 12, 13, 14, 15}[c.Intn(10)], c.Intn(4) != 0)
		f.GenLen, f.GenSeed, f.GenKind = c.Intn(30), g.nextSeed(), 1
		g.frames = append(g.frames, f)
	case "rsv23":
		f := g.base(1+c.Intn(2), true)
		if c.Intn(3) == 0 {
			f = g.ctlFrame()
		}
		f.Rsv |= 1 + c.Intn(3)
		if f.GenLen == 0 {
			f.GenLen, f.GenSeed, f.GenKind = c.Intn(30), g.nextSeed(), 1
		}
		g.frames = append(g.frames, f)
	case "rsv1ctl":
		f := g.ctlFrame()
		f.Rsv |= 4
		g.frames = append(g.frames, f)
	case "badmask":
		var f w7Frame
		if c.Intn(3) == 0 {
			f = g.ctlFrame()
		} else {
			f = g.base(1+c.Intn(2), true)
			f.GenLen, f.GenSeed, f.GenKind = c.Intn(200), g.nextSeed(), 1
		}
		f.Mask = !f.Mask
		if f.Mask {
			f.Key = g.key()
		}
		g.frames = append(g.frames, f)
	case "ctllong":
		f := g.base(9+c.Intn(2), true)
		f.GenLen, f.GenSeed, f.GenKind = 126+c.Intn(300), g.nextSeed(), 1
		g.frames = append(g.frames, f)
	case "fragctl":
		f := g.ctlFrame()
		f.Fin = false
		g.frames = append(g.frames, f)
	case "contnomsg":
		f := g.base(0, c.Intn(2) == 0)
		f.GenLen, f.GenSeed, f.GenKind = c.Intn(50), g.nextSeed(), 1
		g.frames = append(g.frames, f)
	case "nonminimal":
		f := g.base(1+c.Intn(2), true)
		f.GenLen, f.GenSeed, f.GenKind = c.Intn(126), g.nextSeed(), 1
		f.LenMode = 1 + c.Intn(2)
		g.frames = append(g.frames, f)
	case "nonminimalctl":
		// a control frame can only use the 7-bit form: 126/127 means "longer than 125"
		f := g.ctlFrame()
		f.LenMode = 1 + c.Intn(2)
		g.frames = append(g.frames, f)
	case "lenmsb":
		f := g.base(1+c.Intn(2), true)
		f.GenLen, f.GenSeed, f.GenKind = c.Intn(30), g.nextSeed(), 1
		f.LenMode = 2
		f.DeclSet = true
		f.Decl = 1<<63 | uint64(c.Intn(1000))
		if c.Intn(3) == 0 {
			f.Decl = ^uint64(0)
		}
		g.frames = append(g.frames, f)
	case "lenhuge":
		f := g.base(1+c.Intn(2), true)
		f.GenLen, f.GenSeed, f.GenKind = c.Intn(30), g.nextSeed(), 1
		f.LenMode = 2
		f.DeclSet = true
		f.Decl = []uint64{1<<63 - 1, 1 << 62, 1 << 32, 1 << 31, 1<<31 - 1}[c.Intn(5)]
		g.frames = append(g.frames, f)
	case "hugecont":
		// a fragmented message whose continuation frame announces a length close to 2^63
		// (legal as a frame length: most significant bit clear). Only the header and some
		// payload are in the stream. With a read limit the announced total exceeds it at
		// that header; the sum of the fragment lengths may or may not fit in 63 bits; the
		// payload that is present may or may not itself exceed the limit (if it does, not
		// even a reader that counts arriving bytes instead of announced ones may let it pass).
		lim := int(g.sc.ReadLimit)
		a := 1 + c.Intn(30)
		if lim > 0 && a > lim {
			a = lim
		}
		f1 := g.base(1+c.Intn(2), false)
		f1.GenLen, f1.GenSeed, f1.GenKind = a, g.nextSeed(), 1
		g.frames = append(g.frames, f1)
		for c.Intn(3) == 0 {
			g.frames = append(g.frames, g.ctlFrame())
		}
		if c.Intn(4) == 0 {
			// a small middle fragment: the counter is carried over more than one frame
			fm := g.base(0, false)
			fm.GenLen, fm.GenSeed, fm.GenKind = c.Intn(10), g.nextSeed(), 1
			g.frames = append(g.frames, fm)
			a += fm.GenLen
		}
		f2 := g.base(0, c.Intn(2) == 0)
		f2.LenMode, f2.DeclSet = 2, true
		switch c.Pick(3, 2, 2, 1, 1) {
		case 0:
			f2.Decl = 1<<63 - 1 // sum >= 2^63
		case 1:
			f2.Decl = 1<<63 - uint64(a) // sum == 2^63 exactly
		case 2:
			f2.Decl = 1<<63 - uint64(a) - 1 // sum == 2^63-1: the largest that still fits
		case 3:
			f2.Decl = 1<<63 - 1 - uint64(c.Intn(1<<20))
		default:
			f2.Decl = []uint64{1 << 62, 1 << 40, 1 << 32}[c.Intn(3)]
		}
		n := c.Intn(40)
		if lim > 0 && lim <= 1000 && c.Intn(2) == 0 {
			n = lim + 1 + c.Intn(64) // more than the limit is physically present
		}
		f2.GenLen, f2.GenSeed, f2.GenKind = n, g.nextSeed(), 1
		g.frames = append(g.frames, f2)
	case "overdeclared":
		// declares more than present: the following frames become payload
		f := g.base(1+c.Intn(2), true)
		f.GenLen, f.GenSeed, f.GenKind = c.Intn(30), g.nextSeed(), 1
		f.DeclSet = true
		f.Decl = uint64(f.GenLen + 1 + c.Intn(40))
		g.frames = append(g.frames, f)
	case "overlimit":
		f := g.base(1+c.Intn(2), true)
		f.GenLen, f.GenSeed, f.GenKind = int(g.sc.ReadLimit)+1+c.Intn(3), g.nextSeed(), 1
		g.frames = append(g.frames, f)
	case "overlimitfrag":
		lim := int(g.sc.ReadLimit)
		a := c.Intn(lim + 1)
		f1 := g.base(1+c.Intn(2), false)
		f1.GenLen, f1.GenSeed, f1.GenKind = a, g.nextSeed(), 1
		f2 := g.base(0, true)
		f2.GenLen, f2.GenSeed, f2.GenKind = lim-a+1+c.Intn(3), g.nextSeed(), 1
		g.frames = append(g.frames, f1)
		if c.Intn(3) == 0 {
			g.frames = append(g.frames, g.ctlFrame())
		}
		g.frames = append(g.frames, f2)
	}
}

var w7Anomalies = []string{"resop", "rsv23", "rsv1ctl", "badmask", "ctllong", "fragctl", "contnomsg", "nonminimal", "nonminimalctl",
	"lenmsb", "lenhuge", "overdeclared", "badtext", "corruptdeflate", "rsv1cont", "rsv1nocomp", "datainmsg", "fragctlmid",
	"badclosecode", "badcloseutf8", "close1", "closelong"}

func w7GenRead(c *simrt.Choice, prop, tier string) *w7Script {
	return w7GenReadOpt(c, prop, tier, w7GenOpt{})
}

func w7GenReadOpt(c *simrt.Choice, prop, tier string, opt w7GenOpt) *w7Script {
	sc := &w7Script{Mode: "read", Trunc: -1}
	sc.WFault.At = -1
	sc.Server = c.Intn(4) != 0
	sc.Comp = c.Intn(2) == 0
	sc.ReadLimit = []int64{0, 0, 64, 125, 1000, 65536}[c.Intn(6)]
	if opt.multi {
		// connections that share a run have the process-wide flate pools in common:
		// compression is on, limits are mostly off or generous so that the streams get far
		sc.Comp = true
		sc.ReadLimit = []int64{0, 0, 0, 1000, 65536}[c.Intn(5)]
	}
	if sc.Comp {
		sc.DecompLimit = []int64{0, 0, 100, 1000, 4096}[c.Intn(5)]
		if opt.multi {
			sc.DecompLimit = []int64{0, 0, 0, 1000, 4096}[c.Intn(5)]
		}
	}
	sc.ReadBuf = []int{0, 0, 1, 125, 126, 200, 1024}[c.Intn(7)]
	sc.WriteBuf = []int{0, 16, 256}[c.Intn(3)]
	sc.Pool = c.Intn(4) == 0
	sc.SeedOff = opt.seedOff
	g := &w7Gen{c: c, sc: sc, seed: opt.seedOff, compMost: opt.multi}
	nItems := 1 + c.Intn(5)
	if tier == "thorough" {
		nItems = 1 + c.Intn(10)
	}
	if opt.multi {
		nItems = 2 + c.Intn(5)
	}
	closeFocus := prop == "C31"
	anomAt := -1
	if c.Intn(5) < 3 {
		anomAt = c.Intn(nItems)
	}
	if opt.multi && c.Intn(3) != 0 {
		// mostly streams without a planted anomaly: they run to their end
		anomAt = -1
	}
	closed := false
	for i := 0; i < nItems; i++ {
		if i == anomAt {
			var pool []string
			pool = append(pool, w7Anomalies...)
			if sc.ReadLimit > 0 && sc.ReadLimit < 60000 {
				pool = append(pool, "overlimit", "overlimitfrag", "overlimit", "overlimitfrag", "atlimit", "atlimit")
			}
			pool = append(pool, "hugecont")
			if sc.ReadLimit > 0 {
				pool = append(pool, "hugecont", "hugecont")
			}
			if sc.DecompLimit > 0 {
				pool = append(pool, "bomb", "bomb", "bomb", "atlimit", "atlimit")
			}
			if closeFocus {
				pool = []string{"badclosecode", "badcloseutf8", "close1", "closelong", "badclosecode", "badcloseutf8", "resop"}
			}
			a := pool[c.Intn(len(pool))]
			if (a == "corruptdeflate" || a == "rsv1cont" || a == "rsv1ctl") && !sc.Comp {
				sc.Comp = true
			}
			if a == "rsv1nocomp" {
				sc.Comp = false
				sc.DecompLimit = 0
			}
			sc.Anom = a
			g.anomaly(a)
			continue
		}
		switch c.Pick(6, 2, 1) {
		case 0:
			g.dataMessage("")
		case 1:
			g.frames = append(g.frames, g.ctlFrame())
		case 2:
			if i == nItems-1 || closeFocus {
				g.closeFrame("")
				closed = true
			} else {
				g.dataMessage("")
			}
		}
		if closed {
			break
		}
	}
	if !closed && (c.Intn(3) == 0 || closeFocus) {
		g.closeFrame("")
		if c.Intn(4) == 0 {
			g.dataMessage("") // frames after close: must never be delivered
		}
	}
	sc.Frames = g.frames
	streamLen := len(w7Encode(sc.Frames))
	if c.Intn(10) == 0 && streamLen > 0 {
		for k := 1 + c.Intn(3); k > 0; k-- {
			// bias towards headers: early bytes of the stream and small offsets
			off := c.Intn(streamLen)
			if c.Intn(2) == 0 {
				off = c.Intn(min(streamLen, 16))
			}
			sc.Flips = append(sc.Flips, w7Flip{Off: off, Xor: 1 << c.Intn(8)})
		}
	}
	if c.Intn(4) == 0 && streamLen > 0 {
		sc.Trunc = c.Intn(streamLen)
	}
	sc.End = c.Pick(6, 2, 2)
	sc.Feed = c.Pick(2, 5, 1, 2)
	if sc.Feed == 2 && streamLen > 400 {
		sc.Feed = 1
	}
	sc.Seg = c.Pick(3, 3, 1, 3)
	if sc.Seg == 2 && streamLen > 2000 {
		sc.Seg = 3
	}
	sc.ReadAPI = c.Pick(5, 4, 1)
	sc.Chunk = []int{0, 1, 7, 64, 512, 4096}[c.Intn(6)]
	if sc.Chunk == 1 && streamLen > 3000 {
		sc.Chunk = 64
	}
	if sc.ReadAPI == 2 {
		// partial consumption: restricted to scripts whose skipped parts cannot hide
		// content-level conditions (see NOTES): no decompression limit, no corruption
		sc.DecompLimit = 0
		sc.Flips = nil
		if sc.Anom == "corruptdeflate" {
			sc.ReadAPI = 1
		}
		// a message above the limit that the application abandons is not accounted for by
		// anybody: keep such scripts for the fully consuming modes
		pre := w7RefDecode(w7Encode(sc.Frames), w7RefCfg{ExpectMasked: sc.Server, Comp: sc.Comp, ReadLimit: sc.ReadLimit})
		if pre.Term.Kind == "toobig" {
			sc.ReadAPI = 1
		}
		for i := 0; i < 8; i++ {
			if c.Intn(2) == 0 {
				sc.Consume = append(sc.Consume, -1)
			} else {
				sc.Consume = append(sc.Consume, c.Intn(20))
			}
		}
	}
	if sc.End == 2 || c.Intn(4) == 0 {
		sc.DeadlineMs = []int{50, 1000, 35000}[c.Intn(3)]
		sc.PongExtend = c.Intn(2) == 0
	}
	if c.Intn(6) == 0 {
		sc.WFault = w7WFault{At: c.Intn(3), Kind: 1 + c.Intn(4), Arg: []int{0, 1, 3, 1500}[c.Intn(4)]}
	}
	return sc
}

// ---------------------------------------------------------------------------------
// run
// ---------------------------------------------------------------------------------

type w7GotMsg struct {
	Typ     int
	Data    []byte
	Partial bool // the harness stopped reading before the end (ReadAPI 2)
}

type w7ReadRes struct {
	msgs        []w7GotMsg
	err         error
	errFromNext bool // the error was returned by NextReader/ReadMessage's NextReader, not by the body
	errEv       int64
	extraMsgs   int // messages returned by NextReader after it had returned an error
	extraNil    int // NextReader returned nil error and nil reader etc.
	panicked    string
	done        bool
	// gate: the feeder delivered the stream up to the end of the frame on which the
	// reference decoder stops, let the whole bubble go idle, and only then fed the rest
	gateOff int
	gateEv  int64
}

func w7NewRealConn(nc *w7Conn, sc *w7Script, server bool, readBuf, writeBuf int) *Conn {
	return w7NewRealConnPool(nc, sc, server, readBuf, writeBuf, nil)
}

func w7NewRealConnPool(nc *w7Conn, sc *w7Script, server bool, readBuf, writeBuf int, shared BufferPool) *Conn {
	var pool BufferPool
	if sc.Pool {
		pool = &w7BufPool{}
		if shared != nil {
			pool = shared
		}
	}
	c := newConn(nc, server, readBuf, writeBuf, pool, nil, nil)
	if sc.Comp {
		// exactly what Upgrader.Upgrade / Dialer do after negotiating permessage-deflate
		c.newCompressionWriter = compressNoContextTakeover
		c.newDecompressionReader = decompressNoContextTakeover
	}
	return c
}

// w7ReadLoop is the application side of the real reader, shaped like the read loop of
// handler_websocket.go: read messages until the first error; then (drain loop) keep
// calling NextReader until it fails.
func w7ReadLoop(w *w7World, c *Conn, api, chunk int, consume []int, res *w7ReadRes) {
	s := w.s
	defer func() {
		if r := recover(); r != nil {
			res.panicked = fmt.Sprint(r)
			res.errEv = w.next()
		}
		res.done = true
	}()
	for {
		if api == 0 {
			typ, p, err := c.ReadMessage()
			if err != nil {
				res.err = err
				res.errFromNext = typ == noFrame && p == nil
				res.errEv = w.next()
				break
			}
			res.msgs = append(res.msgs, w7GotMsg{Typ: typ, Data: append([]byte{}, p...)})
			continue
		}
		typ, r, err := c.NextReader()
		if err != nil {
			res.err = err
			res.errFromNext = true
			res.errEv = w.next()
			break
		}
		limit := -1
		if api == 2 && len(res.msgs) < len(consume) {
			limit = consume[len(res.msgs)]
		}
		var data []byte
		var rerr error
		buf := make([]byte, 4096)
		for {
			if limit >= 0 && len(data) >= limit {
				break
			}
			k := chunk
			if k <= 0 {
				k = 1 + s.Intn(len(buf))
			}
			if limit >= 0 && k > limit-len(data) {
				k = limit - len(data)
			}
			n, e := r.Read(buf[:k])
			data = append(data, buf[:n]...)
			if e != nil {
				rerr = e
				break
			}
		}
		if rerr != nil && rerr != io.EOF {
			res.err = rerr
			res.errEv = w.next()
			break
		}
		if data == nil {
			data = []byte{}
		}
		res.msgs = append(res.msgs, w7GotMsg{Typ: typ, Data: data, Partial: rerr == nil})
	}
	if res.errFromNext {
		for i := 0; i < 2; i++ {
			_, r, err := c.NextReader()
			if err == nil {
				res.extraMsgs++
				_ = r
			}
		}
	}
}

func w7BuildStream(sc *w7Script) []byte {
	stream := w7Encode(sc.Frames)
	for _, f := range sc.Flips {
		if f.Off >= 0 && f.Off < len(stream) {
			stream[f.Off] ^= byte(f.Xor)
		}
	}
	if sc.Trunc >= 0 && sc.Trunc < len(stream) {
		stream = stream[:sc.Trunc]
	}
	return stream
}

// w7Feed writes stream into the pipe in scheduler-chosen segments.
func w7Feed(s *simrt.Sim, p *w7Pipe, stream []byte, mode int) {
	for len(stream) > 0 {
		rem := len(stream)
		n := rem
		switch mode {
		case 1, 3:
			switch s.Intn(3) {
			case 0:
				n = rem - s.Intn(rem)
			case 1:
				n = 1 + s.Intn(min(rem, 16))
			case 2:
				n = 1
			}
		case 2:
			n = 1
		}
		if n < rem {
			s.Probe("segmented_feed")
		}
		p.feed(stream[:n])
		stream = stream[n:]
		if mode == 3 {
			s.Sleep(time.Duration(1+s.Intn(40)) * time.Millisecond)
		} else {
			s.Pause()
		}
	}
}

// w7ReadSession is one connection of mode "read": the real reader on a simulated conn,
// its application task and the task that feeds the peer's bytes.
type w7ReadSession struct {
	sc     *w7Script
	nc     *w7Conn
	c      *Conn
	res    *w7ReadRes
	rdDone chan struct{}
	fdDone chan struct{}
	hung   bool
	ref    *w7Ref // the reference verdict the outcome was compared with (set by check)
}

// w7WaitDone waits for ch, at most d of virtual time (a reader that never returns must
// end in a verdict, not in a run that is silently cut off at the idle horizon).
func w7WaitDone(s *simrt.Sim, ch chan struct{}, d time.Duration) bool {
	tm := time.NewTimer(d)
	ok := false
	select {
	case <-ch:
		ok = true
	case <-tm.C:
	}
	tm.Stop()
	s.Pause()
	return ok
}

// w7StartRead sets one connection up and starts its two tasks. shared: BufferPool shared
// by the connections of a run (nil: a private one when the script asks for a pool).
func w7StartRead(s *simrt.Sim, w *w7World, sc *w7Script, name string, shared BufferPool, yield, multi bool) *w7ReadSession {
	stream := w7BuildStream(sc)
	in := w7NewPipe(w, sc.Seg)
	in.yield = yield
	in.chain = multi
	nc := &w7Conn{w: w, name: name, in: in, fault: sc.WFault}
	c := w7NewRealConnPool(nc, sc, sc.Server, sc.ReadBuf, sc.WriteBuf, shared)
	c.SetReadLimit(sc.ReadLimit)
	c.SetDecompressedReadLimit(sc.DecompLimit)
	if sc.DeadlineMs > 0 {
		d := time.Duration(sc.DeadlineMs) * time.Millisecond
		_ = c.SetReadDeadline(time.Now().Add(d))
		if sc.PongExtend {
			c.SetPongHandler(func([]byte) error {
				_ = c.SetReadDeadline(time.Now().Add(d))
				return nil
			})
		}
	}
	res := &w7ReadRes{gateOff: -1}
	if pre := w7RefDecode(stream, w7RefCfg{ExpectMasked: sc.Server, Comp: sc.Comp, ReadLimit: sc.ReadLimit, DecompLimit: sc.DecompLimit}); pre.Term.Kind != "more" && pre.Term.End >= 0 {
		res.gateOff = pre.Term.End
	}
	ss := &w7ReadSession{sc: sc, nc: nc, c: c, res: res, rdDone: make(chan struct{}), fdDone: make(chan struct{})}
	s.Go(func() {
		defer close(ss.rdDone)
		w7ReadLoop(w, c, sc.ReadAPI, sc.Chunk, sc.Consume, res)
	})
	s.Go(func() {
		defer close(ss.fdDone)
		if res.gateOff >= 0 {
			w7Feed(s, in, stream[:res.gateOff], sc.Feed)
			// everything runnable runs before virtual time advances: a reader that can
			// decide on the bytes it has been handed has decided when this sleep returns
			s.Sleep(time.Millisecond)
			res.gateEv = w.next()
			s.Probe("gate")
			w7Feed(s, in, stream[res.gateOff:], sc.Feed)
		} else {
			w7Feed(s, in, stream, sc.Feed)
		}
		switch sc.End {
		case 0:
			s.Fault("peer_eof")
			in.closeWrite()
		case 1:
			s.Fault("peer_reset")
			in.fail(&w7NetErr{msg: "sim: connection reset by peer"})
		case 2:
			s.Fault("peer_stall")
			s.Sleep(10 * time.Minute)
			in.closeWrite()
		}
	})
	return ss
}

// wait blocks until the reader has returned and the feeder has ended the stream. A feeder
// needs at most a quarter of an hour of virtual time (segment pauses, the gate, a stall of
// ten minutes); once the stream has ended every Read returns EOF or the reset, and nothing
// else can keep a reader waiting except a write stall of a few seconds. A reader that has
// not returned after one hour is hung - reported as such, instead of a run that is
// silently cut off at the simulator's idle horizon.
func (ss *w7ReadSession) wait(s *simrt.Sim) {
	if !w7WaitDone(s, ss.rdDone, time.Hour) {
		ss.hung = true
	}
	<-ss.fdDone
	s.Pause()
	if ss.sc.Trunc >= 0 {
		s.Fault("truncation")
	}
	if len(ss.sc.Flips) > 0 {
		s.Fault("byte_corruption")
	}
}

func w7RunRead(s *simrt.Sim, sc *w7Script, prop string) {
	w := &w7World{s: s}
	ss := w7StartRead(s, w, sc, "real", nil, sc.Yield, false)
	ss.wait(s)
	ss.ref = w7CheckRead(s, w, sc, ss.nc, ss.c, ss.res, prop)
}

// ---------------------------------------------------------------------------------
// oracle
// ---------------------------------------------------------------------------------

type w7Verdict struct {
	ok     bool
	prop   string
	clause string
	sig    string
	detail string
}

func w7Bad(prop, clause, sig, format string, args ...any) w7Verdict {
	return w7Verdict{prop: prop, clause: clause, sig: sig, detail: fmt.Sprintf(format, args...)}
}

// w7PropFor: close-payload conditions belong to C31 as well as to C29.
func w7CloseReason(reason string) bool {
	return reason == "forbidden close code" || reason == "invalid UTF-8 in close reason"
}

// w7MatchRead compares the real outcome with one reference verdict.
func w7MatchRead(sc *w7Script, ref *w7Ref, nc *w7Conn, res *w7ReadRes) w7Verdict {
	faulted := nc.anyWriteErr
	classes := w7ErrClasses(res.err)
	// a message the harness abandoned after a few bytes (ReadAPI 2) may be the very message
	// in which the terminal condition arises: it was never delivered as a whole
	if k := len(res.msgs); k == len(ref.Msgs)+1 && res.msgs[k-1].Partial && ref.Term.InMsg {
		cp := *res
		cp.msgs = res.msgs[:k-1]
		res = &cp
	}
	// 1. messages
	n := len(res.msgs)
	if len(ref.Msgs) < n {
		n = len(ref.Msgs)
	}
	for i := 0; i < n; i++ {
		g, e := res.msgs[i], ref.Msgs[i]
		if g.Typ != e.Typ {
			return w7Bad("C29", "messages", "message type differs", "message %d: type %d, reference decoder says %d", i, g.Typ, e.Typ)
		}
		if g.Partial {
			if !bytes.HasPrefix(e.Data, g.Data) {
				return w7Bad("C29", "messages", "partially read message is not a prefix of the reference message", "message %d: read %s, reference %s", i, w7Short(g.Data), w7Short(e.Data))
			}
			continue
		}
		if !bytes.Equal(g.Data, e.Data) {
			return w7Bad("C29", "messages", "message bytes differ", "message %d: %d bytes %s, reference decoder says %d bytes %s", i, len(g.Data), w7Short(g.Data), len(e.Data), w7Short(e.Data))
		}
	}
	t := ref.Term
	if len(res.msgs) > len(ref.Msgs) {
		// the real reader went on beyond the point where the reference stops
		if sc.ReadAPI == 2 && t.Kind == "toobig" && t.InMsg && res.msgs[len(ref.Msgs)].Partial {
			// the application abandoned the message that would have exceeded the limit:
			// nothing obliges the reader to account for bytes nobody asked for
			return w7Verdict{ok: true}
		}
		if t.EarlyEnd && t.InMsg {
			return w7Bad("C29", "early-delivery", "compressed message delivered before its final fragment arrived (deflate stream ends inside a non-final fragment)", "reference: message starting at offset %d is incomplete (%s at offset %d); the reader had already delivered it as message %d", t.MsgOff, t, t.Off, len(ref.Msgs))
		}
		switch t.Kind {
		case "proto", "toobig", "inflate":
			v := w7Bad("C29", "reject-"+t.Kind, t.Kind+"["+t.Reason+"] not rejected: more messages delivered", "reference decoder stops with %s at stream offset %d after %d messages; the reader delivered %d messages", t, t.Off, len(ref.Msgs), len(res.msgs))
			return v
		case "close":
			return w7Bad("C29", "messages", "message delivered after a close frame", "reference: close frame at offset %d after %d messages; the reader delivered %d messages", t.Off, len(ref.Msgs), len(res.msgs))
		default:
			return w7Bad("C29", "messages", "message delivered that the stream does not contain", "reference decoder extracts %d messages from the %d bytes handed over, the reader delivered %d", len(ref.Msgs), len(nc.in.got), len(res.msgs))
		}
	}
	spuriousLimit := func() w7Verdict {
		return w7Bad("C29", "spurious-limit", "read limit hit by a message within the limit after the application abandoned a fragmented message", "no message in the %d bytes handed over exceeds the limit %d (reference: %s at offset %d after %d messages); the reader returned %v after %d messages", len(nc.in.got), sc.ReadLimit, t, t.Off, len(ref.Msgs), res.err, len(res.msgs))
	}
	if len(res.msgs) < len(ref.Msgs) {
		if sc.ReadAPI == 2 && classes["toobig"] {
			return spuriousLimit()
		}
		if faulted && (classes["io"] || classes["proto"]) {
			return w7Verdict{ok: true}
		}
		return w7Bad("C29", "messages", "message lost: reader failed before a complete valid message", "reference decoder extracts %d messages, the reader delivered %d and failed with %v", len(ref.Msgs), len(res.msgs), res.err)
	}
	// 2. terminal condition
	if res.panicked != "" {
		return w7Verdict{ok: true} // reported separately
	}
	if res.gateEv != 0 && t.Kind != "more" && t.End == res.gateOff && (!nc.faultHit || nc.faultEv > res.gateEv) && (res.errEv == 0 || res.errEv > res.gateEv) {
		clause := "reject-" + t.Kind
		if t.Kind == "close" {
			clause = "close-result"
		}
		return w7Bad("C29", clause, t.Kind+"["+t.Reason+"]: reader did not stop at the offending frame (it went on reading later bytes)", "reference decoder: %s, frame ends at stream offset %d; all bytes up to there had been handed over and the bubble was idle, but the reader returned %v only after later bytes arrived", t, t.End, res.err)
	}
	want := map[string]bool{}
	if t.Kind == "more" {
		want["io"] = true
	} else {
		want[t.Kind] = true
	}
	for k := range t.Alts {
		want[k] = true
	}
	hit := ""
	for _, k := range []string{t.Kind, "io", "toobig", "inflate", "proto", "close"} {
		kk := k
		if kk == "more" {
			kk = "io"
		}
		if want[kk] && classes[kk] {
			hit = kk
			break
		}
	}
	if hit == "" {
		// only a stream that is a valid prefix justifies "no message exceeds the limit";
		// when the reference stopped at a violation the reader walked past (e.g. the known
		// RSV1-on-control-frame acceptance) a later over-limit message is legitimately
		// refused and the mismatch is attributed to that violation below
		if sc.ReadAPI == 2 && classes["toobig"] && t.Kind == "more" {
			return spuriousLimit()
		}
		if faulted && classes["io"] {
			return w7Verdict{ok: true}
		}
		// a write fault turns into the reader's error (ping handler failure)
		if faulted && classes["proto"] && t.Kind == "more" {
			return w7Verdict{ok: true}
		}
		switch t.Kind {
		case "proto", "toobig", "inflate":
			extra := ""
			if t.Kind == "toobig" && t.Present > 0 {
				extra = fmt.Sprintf(" (%d payload bytes of that message had been handed over, read limit %d)", t.Present, sc.ReadLimit)
			}
			return w7Bad("C29", "reject-"+t.Kind, t.Kind+"["+t.Reason+"]: reader returned "+w7ClassNames(classes), "reference decoder: %s at stream offset %d%s; the reader returned %v", t, t.Off, extra, res.err)
		case "close":
			return w7Bad("C29", "close-result", "valid close frame not reported as close error: got "+w7ClassNames(classes), "reference: close frame code %d text %q; the reader returned %v", t.Code, t.Text, res.err)
		default:
			return w7Bad("C29", "spurious-error", "error "+w7ClassNames(classes)+" on a stream prefix without any violation", "the %d bytes handed over are a valid prefix (reference needs more bytes at offset %d); the reader returned %v", len(nc.in.got), t.Off, res.err)
		}
	}
	if hit == "close" {
		ce, _ := res.err.(*CloseError)
		if ce == nil || ce.Code != t.Code || ce.Text != t.Text {
			return w7Bad("C29", "close-result", "close error does not carry the received code and reason", "received close code %d text %q; the reader returned %v", t.Code, t.Text, res.err)
		}
	}
	if hit == "io" && nc.in.gotErr == nil && !faulted {
		return w7Bad("C29", "spurious-error", "i/o class error although the connection never failed", "the reader returned %v but the simulated conn returned no read error", res.err)
	}
	if res.extraMsgs > 0 {
		return w7Bad("C29", "messages", "NextReader returned a message after it had returned an error", "NextReader returned %v, then %d more successful results", res.err, res.extraMsgs)
	}
	return w7Verdict{ok: true, clause: hit}
}

// w7CheckRealWire validates what the real side wrote in read mode and returns the decoded frames.
func w7CheckRealWire(s *simrt.Sim, prop string, sc *w7Script, nc *w7Conn) *w7Ref {
	rw := w7RefDecode(nc.wire, w7RefCfg{ExpectMasked: !sc.Server, StrictLen: true, CheckText: false})
	switch rw.Term.Kind {
	case "proto", "inflate", "utf8", "toobig":
		s.Violate(prop, "wire", "invalid frame written: "+rw.Term.Reason, "the bytes written by the real side do not parse: %s at offset %d of %s", rw.Term, rw.Term.Off, w7Short(nc.wire))
	case "more":
		if !rw.Term.Clean && !(nc.faultErr && nc.fault.Kind == 2) {
			s.Violate(prop, "wire", "incomplete frame written", "the bytes written by the real side end inside a frame at offset %d (%d bytes)", rw.Term.Off, len(nc.wire))
		}
	case "close":
		if rw.Term.End != len(nc.wire) {
			s.Violate(prop, "wire", "bytes written after the close frame", "close frame ends at %d, %d bytes were written", rw.Term.End, len(nc.wire))
		}
	}
	for _, ct := range rw.Ctl {
		if ct.Op == 8 {
			if _, _, ok := w7ClosePayloadValidForSending(ct.Payload); !ok {
				s.Violate(prop, "wire", "close frame with a payload that must not be sent", "close payload %s", w7Short(ct.Payload))
			}
		}
	}
	return rw
}

func w7CheckRead(s *simrt.Sim, w *w7World, sc *w7Script, nc *w7Conn, c *Conn, res *w7ReadRes, prop string) *w7Ref {
	ref := w7CheckRead1(s, w, sc, nc, c, res, prop)
	return ref
}

func w7CheckRead1(s *simrt.Sim, w *w7World, sc *w7Script, nc *w7Conn, c *Conn, res *w7ReadRes, prop string) (ref *w7Ref) {
	s.Event("read done msgs=%d err=%v panic=%q wire=%d got=%d", len(res.msgs), res.err, res.panicked, len(nc.wire), len(nc.in.got))
	if !res.done {
		s.Violate("C29", "hang", "reader did not return", "the read loop had not returned after one hour of virtual time, long after the peer's stream had ended (%d messages delivered, %d bytes handed over)", len(res.msgs), len(nc.in.got))
		return nil
	}
	if res.panicked != "" {
		s.Violate("C29", "panic", "reader panicked", "panic in the real reader: %s", res.panicked)
	}
	got := nc.in.got
	cfg := w7RefCfg{ExpectMasked: sc.Server, Comp: sc.Comp, ReadLimit: sc.ReadLimit, DecompLimit: sc.DecompLimit}
	ref = w7RefDecode(got, cfg)
	v := w7MatchRead(sc, ref, nc, res)
	if !v.ok && ref.NonMinimal {
		// RFC 6455 5.2 obliges the sender to use the minimal encoding but does not say
		// what a receiver does with a longer one: rejecting it is conforming as well.
		cfg2 := cfg
		cfg2.StrictLen = true
		ref2 := w7RefDecode(got, cfg2)
		if v2 := w7MatchRead(sc, ref2, nc, res); v2.ok {
			ref, v = ref2, v2
		}
	}
	if ref.NonMinimal {
		s.Probe("nonminimal_length_seen")
	}
	if !v.ok {
		s.Violate(v.prop, v.clause, v.sig, "%s", v.detail)
		// C31 is concerned with how the offending close frame is treated, not with what
		// was delivered before it arrived: a message-content mismatch in a stream that
		// happens to end with such a close frame is C29's alone (C31-6-43984: the
		// recorded C29 early-delivery finding followed by a forbidden close code)
		if ref.Term.Kind == "proto" && w7CloseReason(ref.Term.Reason) && v.clause != "messages" && v.clause != "early-delivery" {
			s.Violate("C31", v.clause, v.sig, "%s", v.detail)
		}
	}
	// probes
	s.Probe("term_" + ref.Term.Kind)
	if len(ref.Msgs) > 0 {
		s.Probe("messages_extracted")
	}
	for _, f := range ref.Frames {
		if f.Op == 0 {
			s.Probe("fragment")
		}
		if f.Rsv&4 != 0 {
			s.Probe("compressed_frame")
		}
		if f.Len > 125 && f.Len <= 0xffff {
			s.Probe("len16")
		}
		if f.Len > 0xffff {
			s.Probe("len64")
		}
	}
	for _, ct := range ref.Ctl {
		if ct.Op == 9 {
			s.Probe("ping")
		}
	}
	if len(ref.Frames) >= 2 && (len(ref.Msgs) > 0 || ref.Term.Kind != "more") {
		s.Probe("nontrivial:C29")
	}
	if ref.BadText > 0 {
		// RFC 6455 5.6 / 8.1: a text message that is not valid UTF-8 must fail the connection (1007)
		delivered := 0
		for i, m := range ref.Msgs {
			if i < len(res.msgs) && m.Typ == 1 && !res.msgs[i].Partial && !utf8.Valid(m.Data) {
				delivered++
			}
		}
		if delivered > 0 {
			s.Violate("C29", "reject-utf8", "utf8[text message is not valid UTF-8] not rejected: message delivered", "%d text message(s) with invalid UTF-8 were delivered to the application instead of failing the connection with 1007", delivered)
		}
	}

	// ---- what the real side wrote ----
	rw := w7CheckRealWire(s, "C29", sc, nc)
	if !v.ok || v.clause == "" {
		return
	}
	faulted := nc.anyWriteErr
	// pongs: an ordered subsequence of the pings processed before the terminal, ending with
	// the last ping (RFC 6455 5.5.3 allows skipping all but the most recent one)
	var pings, pongs [][]byte
	for _, ct := range ref.Ctl {
		if ct.Op == 9 {
			pings = append(pings, ct.Payload)
		}
	}
	var closes []w7Ctl
	for _, ct := range rw.Ctl {
		switch ct.Op {
		case 10:
			pongs = append(pongs, ct.Payload)
		case 9:
			s.Violate("C29", "wire", "unsolicited ping written by the reader", "payload %s", w7Short(ct.Payload))
		case 8:
			closes = append(closes, ct)
		}
	}
	if len(rw.Msgs) > 0 {
		s.Violate("C29", "wire", "data message written by the reader", "%d data messages on the wire", len(rw.Msgs))
	}
	j := 0
	for _, pg := range pongs {
		for j < len(pings) && !bytes.Equal(pings[j], pg) {
			j++
		}
		if j == len(pings) {
			// a pong for a ping that the script places AFTER the frame at which the reference
			// stopped with a violation means that the reader walked past that violation (its
			// error class was accepted above as a legitimate in-message alternative, so the
			// mismatch is only visible here): attribute it to the violation, e.g. the known
			// acceptance of RSV1 on a continuation frame (seed 2 run 195465)
			later := false
			if k := ref.Term.Kind; k == "proto" || k == "inflate" || k == "toobig" {
				for i := range sc.Frames {
					if sc.Frames[i].Op == 9 && bytes.Equal(sc.Frames[i].payload(), pg) {
						later = true
					}
				}
			}
			if later {
				s.Violate("C29", "reject-"+ref.Term.Kind, ref.Term.Kind+"["+ref.Term.Reason+"] not rejected: a ping after the offending frame was answered", "reference decoder stops with %s at stream offset %d; pong payload %s answers a ping behind it", ref.Term, ref.Term.Off, w7Short(pg))
			} else {
				s.Violate("C29", "control", "pong that answers no received ping", "pong payload %s; pings so far %d", w7Short(pg), len(pings))
			}
			break
		}
		j++
	}
	if len(pings) > 0 && !faulted && v.clause != "" {
		// a streaming reader that stopped inside an incomplete message for an accepted
		// alternative reason may not have seen the later pings
		early := ref.Term.Kind != v.clause && !(ref.Term.Kind == "more" && v.clause == "io")
		if ref.Term.InMsg && ref.Term.Alts[v.clause] {
			// the same class of condition (e.g. "toobig": the inflated prefix of the message
			// already exceeds the decompressed limit) may legitimately have stopped a
			// streaming reader earlier inside the message than the frame in which the
			// reference places its terminal condition (compressed size limit): pings
			// interleaved in that message are not certain to have been read (false alarm
			// seed 1 run 97048, known_replays/falsealarm-C29-ping-inside-message-ended-by-size-limit.json)
			early = true
		}
		must := pings
		if (early || ref.Term.Content) && ref.Term.InMsg {
			// only pings that precede the message in which the condition arose are certain
			must = nil
			for _, ct := range ref.Ctl {
				if ct.Op == 9 && ct.Off < ref.Term.MsgOff {
					must = append(must, ct.Payload)
				}
			}
			early = false
		}
		if !early && len(must) > 0 {
			last := must[len(must)-1]
			found := false
			for _, pg := range pongs {
				if bytes.Equal(pg, last) {
					found = true
				}
			}
			if !found {
				s.Violate("C29", "control", "ping not answered with a pong", "last ping payload %s, %d pings, %d pongs written", w7Short(last), len(pings), len(pongs))
			} else {
				s.Probe("pong_checked")
			}
		}
	}
	if len(closes) > 1 {
		s.Violate("C31", "close-frame", "more than one close frame written", "%d close frames", len(closes))
		s.Violate("C29", "wire", "more than one close frame written", "%d close frames", len(closes))
	}
	sentCode := 0
	if len(closes) > 0 {
		sentCode, _, _ = w7ClosePayloadValidForSending(closes[0].Payload)
	}
	switch v.clause {
	case "proto":
		okCodes := map[int]bool{1002: true}
		if ref.Term.Reason == "invalid UTF-8 in close reason" {
			okCodes[1007] = true
		}
		if ref.Term.Alts["toobig"] {
			okCodes[1009] = true
		}
		if len(closes) == 0 {
			if !faulted {
				s.Violate("C29", "close-frame-proto", "proto["+ref.Term.Reason+"]: no close frame written", "reader returned %v but wrote no close frame", res.err)
				if w7CloseReason(ref.Term.Reason) {
					s.Violate("C31", "close-frame-proto", "proto["+ref.Term.Reason+"]: no close frame written", "reader returned %v but wrote no close frame", res.err)
				}
			}
		} else if !okCodes[sentCode] {
			s.Violate("C29", "close-frame-proto", "proto["+ref.Term.Reason+"]: close frame with a code other than protocol error", "close frame code %d", sentCode)
		} else {
			s.Probe("close_1002_checked")
		}
	case "toobig":
		if ref.Term.Unbounded {
			// no limit is configured: the reader gave up on a message announced as 2^63 bytes
			// or more, which the property neither forbids nor ties to a close frame
			s.Probe("unbounded_message_refused")
			break
		}
		if len(closes) == 0 {
			if !faulted {
				s.Violate("C29", "close-frame-toobig", "toobig["+ref.Term.Reason+"]: no close frame written", "reader returned %v but wrote no close frame", res.err)
			}
		} else if sentCode != 1009 && !(ref.Term.Kind == "proto" && sentCode == 1002) {
			s.Violate("C29", "close-frame-toobig", "toobig["+ref.Term.Reason+"]: close frame with a code other than message too big", "close frame code %d", sentCode)
		} else {
			s.Probe("close_1009_checked")
		}
	case "close":
		if len(closes) == 0 {
			if !faulted {
				s.Violate("C31", "close-reply", "received close frame not answered with a close frame", "received close %d, nothing written", ref.Term.Code)
			}
		} else {
			s.Probe("close_reply_checked")
		}
	}
	// ---- recorded close code (C31: the first close frame observed wins) ----
	code, incoming := c.CloseCode()
	switch v.clause {
	case "close":
		if code != ref.Term.Code || !incoming {
			s.Violate("C31", "recorded-close-code", "received close frame first but recorded code differs", "received close %d first; CloseCode() = (%d, incoming=%v)", ref.Term.Code, code, incoming)
		} else {
			s.Probe("nontrivial:C31")
		}
	case "proto", "toobig":
		if len(closes) > 0 {
			recvCode := 0
			if ref.Term.Kind == "proto" && w7CloseReason(ref.Term.Reason) {
				recvCode = ref.Term.Code
			}
			if !(code == sentCode && !incoming) && !(recvCode != 0 && code == recvCode && incoming) {
				s.Violate("C31", "recorded-close-code", "sent close frame first but recorded code differs", "sent close %d (no valid close received before); CloseCode() = (%d, incoming=%v)", sentCode, code, incoming)
			} else if w7CloseReason(ref.Term.Reason) {
				s.Probe("nontrivial:C31")
			}
		}
	case "io", "inflate":
		if len(closes) == 0 && code != 0 && !faulted {
			s.Violate("C31", "recorded-close-code", "close code recorded although no close frame was observed", "CloseCode() = (%d, incoming=%v)", code, incoming)
		}
	}
	return ref
}
