//go:build verif

package websocket

// W7ws "hs" mode (C31, handshake clause): Upgrader.Upgrade over generated requests with
// a simulated http.ResponseWriter/Hijacker whose net.Conn is the simulated conn. This is
// an INPUT SWEEP (the handshake is a function of request and Upgrader configuration): the
// scheduler only contributes write faults on the hijacked conn. The oracle is an
// independent reading of RFC 6455 section 4.2 (RFC 8441 for HTTP/2 extended CONNECT),
// RFC 7692 section 5-7 for the extension answer; the accept key is recomputed with
// crypto/sha1 here.

import (
	"bufio"
	"bytes"
	"crypto/sha1"
	"encoding/base64"
	"errors"
	"fmt"
	"io"
	"net"
	"net/http"
	"net/url"
	"strconv"
	"strings"
	"time"

	simrt "github.com/centrifugal/centrifuge/internal/simrt"
)

type w7HSScript struct {
	Method       string      `json:"method"`
	ProtoMajor   int         `json:"proto_major"`
	Host         string      `json:"host"`
	Headers      [][2]string `json:"headers"`
	Subprotocols []string    `json:"subprotocols,omitempty"`
	Compression  bool        `json:"compression,omitempty"`
	CheckOrigin  int         `json:"check_origin,omitempty"` // 0 default, 1 allow all, 2 deny all
	ReadBuf      int         `json:"read_buf,omitempty"`
	WriteBuf     int         `json:"write_buf,omitempty"`
	Pool         bool        `json:"pool,omitempty"`
	HijackBuf    int         `json:"hijack_buf,omitempty"`
	NoHijacker   bool        `json:"no_hijacker,omitempty"`
	HijackErr    bool        `json:"hijack_err,omitempty"`
	TimeoutMs    int         `json:"timeout_ms,omitempty"`
	RespHeaders  [][2]string `json:"resp_headers,omitempty"`
	DisableH1    bool        `json:"disable_h1,omitempty"`
	CustomError  bool        `json:"custom_error,omitempty"`
}

func w7RandKey(c *simrt.Choice) string {
	b := make([]byte, 16)
	for i := range b {
		b[i] = byte(c.Intn(256))
	}
	return base64.StdEncoding.EncodeToString(b)
}

func w7GenHS(c *simrt.Choice, prop, tier string) *w7Script {
	sc := &w7Script{Mode: "hs", Trunc: -1}
	sc.WFault.At = -1
	hs := &w7HSScript{Method: "GET", ProtoMajor: 1, Host: "example.com"}
	sc.HS = hs
	if c.Intn(4) == 0 {
		hs.Host = []string{"example.com:8000", "Example.COM", "127.0.0.1:8000", "[::1]:8000"}[c.Intn(4)]
	}
	add := func(k, v string) { hs.Headers = append(hs.Headers, [2]string{k, v}) }
	pick := func(boringWeight int, boring string, others ...string) (string, bool) {
		if c.Intn(boringWeight+2) < boringWeight {
			return boring, true
		}
		k := c.Intn(len(others) + 1)
		if k == len(others) {
			return "", false // header absent
		}
		return others[k], true
	}
	if c.Intn(8) == 0 {
		hs.ProtoMajor = []int{2, 2, 2, 3, 0}[c.Intn(5)]
	}
	if hs.ProtoMajor == 2 {
		hs.Method = "CONNECT"
		if c.Intn(5) == 0 {
			hs.Method = "GET"
		}
		if v, ok := pick(6, "websocket", "WebSocket", "h2c", ""); ok {
			add(":protocol", v)
		}
	} else {
		if c.Intn(10) == 0 {
			hs.Method = []string{"POST", "HEAD", "PUT", "OPTIONS", "CONNECT"}[c.Intn(5)]
		}
		if v, ok := pick(6, "Upgrade", "upgrade", "UPGRADE", "keep-alive, Upgrade", "Upgrade, keep-alive", "keep-alive", "close", "", "Upgradex", "websocket"); ok {
			add("Connection", v)
			if v == "keep-alive" && c.Intn(2) == 0 {
				add("Connection", "Upgrade") // second header line
			}
		}
		if v, ok := pick(6, "websocket", "WebSocket", "WEBSOCKET", "h2c, websocket", "websocket, h2c", "websockets", "web socket", "", "h2c"); ok {
			add("Upgrade", v)
		}
		key := w7RandKey(c)
		if v, ok := pick(8, key, key[:22], key[:23], key+"=", strings.Replace(key[:24], "=", "A", -1), "!!!!"+key[4:], "", strings.Repeat("A", 24), "dGhlIHNhbXBsZSBub25jZQ==", key[:20]+"===="); ok {
			add("Sec-Websocket-Key", v)
		}
	}
	if v, ok := pick(8, "13", "8", "7", "14", "12", "013", "13.0", "", "1313", "x"); ok {
		add("Sec-Websocket-Version", v)
	}
	// origin
	switch c.Pick(5, 2, 2, 1, 1, 1, 1) {
	case 0:
	case 1:
		add("Origin", "http://"+hs.Host)
	case 2:
		add("Origin", "https://"+strings.ToUpper(hs.Host))
	case 3:
		add("Origin", "http://other.example")
	case 4:
		add("Origin", "null")
	case 5:
		add("Origin", "http://"+hs.Host+".evil.example")
	case 6:
		add("Origin", "http://"+hs.Host+"/path?q=1")
	}
	hs.CheckOrigin = c.Pick(6, 2, 1)
	// subprotocols
	if c.Intn(2) == 0 {
		hs.Subprotocols = [][]string{{"centrifuge-json"}, {"centrifuge-protobuf", "centrifuge-json"}, {"a", "b", "c"}, {}}[c.Intn(4)]
	}
	if v, ok := pick(2, "centrifuge-json", "centrifuge-protobuf", "centrifuge-json, centrifuge-protobuf", "x, centrifuge-protobuf ,y", "b,a", "c", "unknown", "", "a;q=1"); ok {
		add("Sec-Websocket-Protocol", v)
		if c.Intn(6) == 0 {
			add("Sec-Websocket-Protocol", "a")
		}
	}
	// extensions
	hs.Compression = c.Intn(3) != 0
	if v, ok := pick(3, "permessage-deflate", "permessage-deflate; client_max_window_bits", "permessage-deflate; server_no_context_takeover; client_no_context_takeover",
		"permessage-deflate; client_no_context_takeover", "x-webkit-deflate-frame", "foo, permessage-deflate", "permessage-deflate; client_max_window_bits=15, permessage-deflate",
		"permessage-deflate; server_max_window_bits=10", "permessage-deflate; server_max_window_bits=15; client_max_window_bits", "permessage-deflate; unknown_param=1",
		"permessage-deflate; server_max_window_bits=99", "permessage-deflate; server_no_context_takeover; server_no_context_takeover", "permessage-deflatex", "", ";"); ok {
		add("Sec-Websocket-Extensions", v)
	}
	hs.ReadBuf = []int{0, 0, 64, 1024}[c.Intn(4)]
	hs.WriteBuf = []int{0, 0, 64, 1024}[c.Intn(4)]
	hs.Pool = c.Intn(4) == 0
	hs.HijackBuf = []int{4096, 4096, 16, 300}[c.Intn(4)]
	hs.NoHijacker = c.Intn(25) == 0
	hs.HijackErr = c.Intn(25) == 0
	hs.TimeoutMs = []int{0, 0, 1000}[c.Intn(3)]
	hs.DisableH1 = c.Intn(25) == 0
	hs.CustomError = c.Intn(5) == 0
	if c.Intn(4) == 0 {
		hs.RespHeaders = append(hs.RespHeaders, [2]string{"Set-Cookie", "sid=abc; Path=/"})
		if c.Intn(2) == 0 {
			hs.RespHeaders = append(hs.RespHeaders, [2]string{"X-Test", "line1\r\nInjected: yes"})
		}
	}
	if c.Intn(12) == 0 {
		sc.WFault = w7WFault{At: 0, Kind: 1 + c.Intn(4), Arg: []int{0, 5, 1500, 1500}[c.Intn(4)]}
	}
	return sc
}

func w7ShrinksHS(sc *w7Script) []any {
	var out []any
	add := func(f func(c *w7Script)) {
		c := w7Clone(sc)
		f(c)
		out = append(out, c)
	}
	hs := sc.HS
	if hs == nil {
		return nil
	}
	for i, h := range hs.Headers {
		i := i
		switch h[0] {
		case "Origin", "Sec-Websocket-Protocol", "Sec-Websocket-Extensions":
			add(func(c *w7Script) { c.HS.Headers = append(c.HS.Headers[:i], c.HS.Headers[i+1:]...) })
		}
	}
	if len(hs.RespHeaders) > 0 {
		add(func(c *w7Script) { c.HS.RespHeaders = nil })
	}
	if hs.Subprotocols != nil {
		add(func(c *w7Script) { c.HS.Subprotocols = nil })
	}
	if hs.Pool {
		add(func(c *w7Script) { c.HS.Pool = false })
	}
	if hs.ReadBuf != 0 || hs.WriteBuf != 0 {
		add(func(c *w7Script) { c.HS.ReadBuf, c.HS.WriteBuf = 0, 0 })
	}
	if hs.CustomError {
		add(func(c *w7Script) { c.HS.CustomError = false })
	}
	if sc.WFault.Kind != 0 {
		add(func(c *w7Script) { c.WFault = w7WFault{At: -1} })
	}
	return out
}

// ---- simulated ResponseWriter ----

type w7RW struct {
	h       http.Header
	status  int
	body    bytes.Buffer
	nc      *w7Conn
	hs      *w7HSScript
	hijacks int
	flushes int
}

func (r *w7RW) Header() http.Header { return r.h }
func (r *w7RW) WriteHeader(st int) {
	if r.status == 0 {
		r.status = st
	}
}
func (r *w7RW) Write(b []byte) (int, error) {
	if r.status == 0 {
		r.status = 200
	}
	if r.hs.ProtoMajor == 2 && r.nc != nil {
		return r.nc.Write(b) // the HTTP/2 stream
	}
	return r.body.Write(b)
}

type w7RWHijack struct{ *w7RW }

func (r w7RWHijack) Hijack() (net.Conn, *bufio.ReadWriter, error) {
	r.hijacks++
	if r.hs.HijackErr {
		return nil, nil, errors.New("sim: hijack failed")
	}
	return r.nc, bufio.NewReadWriter(bufio.NewReaderSize(r.nc, r.hs.HijackBuf), bufio.NewWriterSize(r.nc, r.hs.HijackBuf)), nil
}

type w7RWH2 struct{ *w7RW }

func (r w7RWH2) FlushError() error                  { r.flushes++; return nil }
func (r w7RWH2) SetReadDeadline(t time.Time) error  { return nil }
func (r w7RWH2) SetWriteDeadline(t time.Time) error { return nil }

type w7Body struct{ p *w7Pipe }

func (b w7Body) Read(p []byte) (int, error) { return b.p.Read(p) }
func (b w7Body) Close() error               { b.p.fail(io.ErrClosedPipe); return nil }

// ---- reference reading of the handshake rules ----

// w7ListHas: does any element of the comma separated lists (all header lines) equal tok,
// ASCII case-insensitively?
func w7ListHas(lines []string, tok string) bool {
	for _, l := range lines {
		for _, e := range strings.Split(l, ",") {
			if strings.EqualFold(strings.Trim(e, " \t"), tok) {
				return true
			}
		}
	}
	return false
}

type w7ExtOffer struct {
	name   string
	params [][2]string
	bad    bool
}

// w7ParseExt parses Sec-WebSocket-Extensions header lines (RFC 6455 9.1) leniently:
// a malformed element is marked bad.
func w7ParseExt(lines []string) []w7ExtOffer {
	var out []w7ExtOffer
	isTok := func(s string) bool {
		if s == "" {
			return false
		}
		for _, ch := range []byte(s) {
			if ch <= 32 || ch >= 127 || strings.IndexByte("()<>@,;:\\\"/[]?={}", ch) >= 0 {
				return false
			}
		}
		return true
	}
	for _, l := range lines {
		for _, e := range strings.Split(l, ",") {
			parts := strings.Split(e, ";")
			o := w7ExtOffer{name: strings.Trim(parts[0], " \t")}
			if !isTok(o.name) {
				o.bad = true
			}
			for _, p := range parts[1:] {
				kv := strings.SplitN(p, "=", 2)
				k := strings.Trim(kv[0], " \t")
				v := ""
				if len(kv) == 2 {
					v = strings.Trim(strings.Trim(kv[1], " \t"), "\"")
				}
				if !isTok(k) {
					o.bad = true
				}
				o.params = append(o.params, [2]string{k, v})
			}
			out = append(out, o)
		}
	}
	return out
}

// w7OfferAcceptableBy: can a server that answers with resp (the parameters of its
// permessage-deflate response) be accepting this offer? RFC 7692 7.1.
func w7OfferAcceptableBy(o w7ExtOffer, resp [][2]string) (bool, string) {
	if o.bad || o.name != "permessage-deflate" {
		return false, "not a permessage-deflate offer"
	}
	seen := map[string]bool{}
	offerSMWB, offerCMWB := 0, false
	for _, p := range o.params {
		if seen[p[0]] {
			return false, "offer repeats a parameter (must be declined)"
		}
		seen[p[0]] = true
		switch p[0] {
		case "server_no_context_takeover", "client_no_context_takeover":
			if p[1] != "" {
				return false, "offer gives a value to a valueless parameter (must be declined)"
			}
		case "server_max_window_bits":
			n, err := strconv.Atoi(p[1])
			if err != nil || n < 8 || n > 15 {
				return false, "offer has an invalid server_max_window_bits (must be declined)"
			}
			offerSMWB = n
		case "client_max_window_bits":
			offerCMWB = true
			if p[1] != "" {
				n, err := strconv.Atoi(p[1])
				if err != nil || n < 8 || n > 15 {
					return false, "offer has an invalid client_max_window_bits (must be declined)"
				}
			}
		default:
			return false, "offer has an unknown parameter (must be declined)"
		}
	}
	respSMWB := 0
	for _, p := range resp {
		switch p[0] {
		case "server_max_window_bits":
			respSMWB, _ = strconv.Atoi(p[1])
		case "client_max_window_bits":
			if !offerCMWB {
				return false, "response has client_max_window_bits that was not offered"
			}
		}
	}
	if offerSMWB != 0 && (respSMWB == 0 || respSMWB > offerSMWB) {
		return false, "offer limits server_max_window_bits and the response does not honour it"
	}
	return true, ""
}

func w7OriginHost(o string) (string, bool) {
	u, err := url.Parse(o)
	if err != nil {
		return "", false
	}
	return u.Host, true
}

func w7RunHS(s *simrt.Sim, sc *w7Script, prop string) {
	hs := sc.HS
	w := &w7World{s: s}
	in := w7NewPipe(w, 0)
	nc := &w7Conn{w: w, name: "hijacked", in: in, fault: sc.WFault}
	hdr := http.Header{}
	for _, h := range hs.Headers {
		if strings.HasPrefix(h[0], ":") {
			hdr[h[0]] = append(hdr[h[0]], h[1])
		} else {
			hdr.Add(h[0], h[1])
		}
	}
	req := &http.Request{Method: hs.Method, URL: &url.URL{Path: "/connection/websocket"}, Proto: fmt.Sprintf("HTTP/%d.%d", hs.ProtoMajor, 1), ProtoMajor: hs.ProtoMajor, ProtoMinor: 1, Header: hdr, Host: hs.Host}
	if hs.ProtoMajor >= 2 {
		req.Proto, req.ProtoMinor = fmt.Sprintf("HTTP/%d.0", hs.ProtoMajor), 0
		req.Body = w7Body{in}
	}
	base := &w7RW{h: http.Header{}, nc: nc, hs: hs}
	var rw http.ResponseWriter
	switch {
	case hs.ProtoMajor == 2:
		rw = w7RWH2{base}
	case hs.NoHijacker:
		rw = base
	default:
		rw = w7RWHijack{base}
	}
	originCalls := 0
	u := &Upgrader{ReadBufferSize: hs.ReadBuf, WriteBufferSize: hs.WriteBuf, EnableCompression: hs.Compression, DisableHTTP1Upgrade: hs.DisableH1,
		HandshakeTimeout: time.Duration(hs.TimeoutMs) * time.Millisecond}
	if hs.Subprotocols != nil {
		u.Subprotocols = hs.Subprotocols
	}
	if hs.Pool {
		u.WriteBufferPool = &w7BufPool{}
	}
	switch hs.CheckOrigin {
	case 1:
		u.CheckOrigin = func(*http.Request) bool { originCalls++; return true }
	case 2:
		u.CheckOrigin = func(*http.Request) bool { originCalls++; return false }
	}
	customErrStatus := 0
	if hs.CustomError {
		u.Error = func(w http.ResponseWriter, r *http.Request, status int, reason error) {
			customErrStatus = status
			w.WriteHeader(status)
		}
	}
	var respHeader http.Header
	if len(hs.RespHeaders) > 0 {
		respHeader = http.Header{}
		for _, h := range hs.RespHeaders {
			respHeader.Add(h[0], h[1])
		}
	}
	var conn *Conn
	var sub string
	var err error
	var panicked string
	func() {
		defer func() {
			if r := recover(); r != nil {
				panicked = fmt.Sprint(r)
			}
		}()
		conn, sub, err = u.Upgrade(rw, req, respHeader)
	}()
	s.Event("hs done err=%v status=%d wire=%d", err, base.status, len(nc.wire))
	if panicked != "" {
		s.Violate("C31", "panic", "Upgrade panicked", "%s", panicked)
		return
	}

	// ---------- reference verdict ----------
	get := func(name string) []string { return hdr[name] }
	one := func(name string) (string, bool) {
		v := get(name)
		if len(v) != 1 {
			return "", false
		}
		return v[0], true
	}
	why := ""
	fail := func(r string) {
		if why == "" {
			why = r
		}
	}
	ver, _ := one("Sec-Websocket-Version")
	if strings.Trim(ver, " \t") != "13" {
		fail("Sec-WebSocket-Version is not 13")
	}
	key := ""
	switch hs.ProtoMajor {
	case 1:
		if hs.DisableH1 {
			fail("HTTP/1.1 upgrade disabled by configuration")
		}
		if hs.Method != "GET" {
			fail("method is not GET")
		}
		if !w7ListHas(get("Connection"), "upgrade") {
			fail("Connection header lacks the upgrade token")
		}
		if !w7ListHas(get("Upgrade"), "websocket") {
			fail("Upgrade header lacks the websocket token")
		}
		k, ok := one("Sec-Websocket-Key")
		raw, derr := base64.StdEncoding.DecodeString(k)
		if !ok || derr != nil || len(raw) != 16 {
			fail("Sec-WebSocket-Key is not the base64 encoding of 16 bytes")
		}
		key = k
	case 2:
		if hs.Method != "CONNECT" {
			fail("HTTP/2 request is not an extended CONNECT")
		}
		if p, ok := one(":protocol"); !ok || p != "websocket" {
			fail(":protocol is not websocket")
		}
	default:
		fail("unsupported HTTP version")
	}
	originOK := true
	switch hs.CheckOrigin {
	case 1:
	case 2:
		originOK = false
	default:
		if o := get("Origin"); len(o) > 0 {
			h, ok := w7OriginHost(o[0])
			originOK = ok && strings.EqualFold(h, hs.Host)
		}
	}
	if !originOK {
		fail("origin not allowed")
	}
	if hs.ProtoMajor == 1 && why == "" {
		if hs.NoHijacker {
			fail("response writer cannot be hijacked")
		}
		if hs.HijackErr {
			fail("hijack failed")
		}
	}
	valid := why == ""
	transportFault := nc.anyWriteErr

	if !valid {
		if err == nil || conn != nil {
			s.Violate("C31", "handshake-accept", "invalid upgrade request accepted: "+why, "request %s %v headers %v: Upgrade returned conn=%v err=%v", hs.Method, req.Proto, hs.Headers, conn != nil, err)
			return
		}
		if bytes.Contains(nc.wire, []byte(" 101 ")) || base.status == 101 || (hs.ProtoMajor == 2 && base.status == 200) {
			s.Violate("C31", "handshake-accept", "success status sent for a refused upgrade", "status %d wire %q", base.status, nc.wire)
		}
		st := base.status
		if hs.CustomError {
			st = customErrStatus
		}
		if st < 400 && !hs.NoHijacker && !hs.HijackErr {
			s.Violate("C31", "handshake-accept", "refused upgrade without an HTTP error status", "status %d (%s)", st, why)
		}
		s.Probe("hs_refused")
		s.Probe("nontrivial:C31")
		return
	}
	if err != nil || conn == nil {
		if transportFault {
			s.Probe("hs_write_fault")
			return
		}
		s.Violate("C31", "handshake-accept", "valid upgrade request refused", "request %s %v headers %v origin-check %d: %v (status %d)", hs.Method, req.Proto, hs.Headers, hs.CheckOrigin, err, base.status)
		return
	}
	s.Probe("hs_accepted")
	s.Probe("nontrivial:C31")
	// ---------- the response ----------
	var rh http.Header
	wireStart := 0
	if hs.ProtoMajor == 1 {
		br := bufio.NewReader(bytes.NewReader(nc.wire))
		resp, perr := http.ReadResponse(br, nil)
		if perr != nil {
			s.Violate("C31", "handshake-response", "handshake response does not parse as HTTP", "%v: %q", perr, nc.wire)
			return
		}
		if resp.StatusCode != 101 {
			s.Violate("C31", "handshake-response", "accepted upgrade not answered with 101", "status %d", resp.StatusCode)
		}
		rh = resp.Header
		idx := bytes.Index(nc.wire, []byte("\r\n\r\n"))
		wireStart = idx + 4
		if !w7ListHas(rh["Upgrade"], "websocket") || !w7ListHas(rh["Connection"], "upgrade") {
			s.Violate("C31", "handshake-response", "response lacks Upgrade: websocket / Connection: Upgrade", "%v", rh)
		}
		sum := sha1.Sum([]byte(key + "258EAFA5-E914-47DA-95CA-C5AB0DC85B11"))
		want := base64.StdEncoding.EncodeToString(sum[:])
		if got := rh["Sec-Websocket-Accept"]; len(got) != 1 || got[0] != want {
			s.Violate("C31", "handshake-response", "Sec-WebSocket-Accept is not the RFC 6455 accept key", "key %q: got %v want %q", key, got, want)
		} else {
			s.Probe("hs_accept_key_checked")
		}
		for _, h := range hs.RespHeaders {
			if strings.ContainsAny(h[1], "\r\n") {
				if len(rh["Injected"]) > 0 {
					s.Violate("C31", "handshake-response", "response splitting through an application header", "%v", rh)
				}
				continue
			}
			if !w7ListHas(rh[http.CanonicalHeaderKey(h[0])], h[1]) && strings.Join(rh[http.CanonicalHeaderKey(h[0])], "|") != h[1] {
				s.Violate("C31", "handshake-response", "application response header missing", "%s: %q in %v", h[0], h[1], rh)
			}
		}
	} else {
		rh = base.h
		if base.status != 200 {
			s.Violate("C31", "handshake-response", "extended CONNECT not answered with 200", "status %d", base.status)
		}
		if base.flushes == 0 {
			s.Violate("C31", "handshake-response", "extended CONNECT response not flushed", "no flush")
		}
	}
	// subprotocol: one that the client offered (and the server supports)
	offered := []string{}
	for _, l := range get("Sec-Websocket-Protocol") {
		for _, e := range strings.Split(l, ",") {
			offered = append(offered, strings.Trim(e, " \t"))
		}
	}
	has := func(list []string, v string) bool {
		for _, x := range list {
			if x == v {
				return true
			}
		}
		return false
	}
	rp := rh["Sec-Websocket-Protocol"]
	switch {
	case len(rp) > 1:
		s.Violate("C31", "handshake-subprotocol", "more than one Sec-WebSocket-Protocol header in the response", "%v", rp)
	case len(rp) == 1:
		if !has(offered, rp[0]) {
			s.Violate("C31", "handshake-subprotocol", "subprotocol in the response was not offered by the client", "response %q, offered %v", rp[0], offered)
		} else if hs.Subprotocols != nil && !has(hs.Subprotocols, rp[0]) {
			s.Violate("C31", "handshake-subprotocol", "subprotocol in the response is not supported by the server", "response %q, server %v", rp[0], hs.Subprotocols)
		} else {
			s.Probe("hs_subprotocol_checked")
		}
		if sub != rp[0] {
			s.Violate("C31", "handshake-subprotocol", "Upgrade returns a different subprotocol than it sent", "returned %q sent %q", sub, rp[0])
		}
	default:
		if sub != "" {
			s.Violate("C31", "handshake-subprotocol", "Upgrade returns a subprotocol it did not send", "returned %q", sub)
		}
	}
	// extension: only permessage-deflate, only if offered and enabled, compatible with an offer
	re := rh["Sec-Websocket-Extensions"]
	respExt := w7ParseExt(re)
	negotiated := false
	offers := w7ParseExt(get("Sec-Websocket-Extensions"))
	switch {
	case len(respExt) > 1:
		s.Violate("C31", "handshake-extension", "more than one extension in the response", "%v", re)
	case len(respExt) == 1:
		negotiated = true
		e := respExt[0]
		if e.name != "permessage-deflate" || e.bad {
			s.Violate("C31", "handshake-extension", "response carries an extension other than permessage-deflate", "%v", re)
			break
		}
		if !hs.Compression {
			s.Violate("C31", "handshake-extension", "compression negotiated although disabled", "%v", re)
		}
		anyNamed, anyOK, reason := false, false, ""
		for _, o := range offers {
			if o.name == "permessage-deflate" && !o.bad {
				anyNamed = true
			}
			if ok, r := w7OfferAcceptableBy(o, e.params); ok {
				anyOK = true
			} else if o.name == "permessage-deflate" && reason == "" {
				reason = r
			}
		}
		switch {
		case !anyNamed:
			s.Violate("C31", "handshake-extension", "permessage-deflate in the response was not offered by the client", "offered %v", get("Sec-Websocket-Extensions"))
		case !anyOK:
			s.Violate("C31", "handshake-extension-params", "permessage-deflate accepted although no offer is acceptable as answered: "+reason, "offered %v, response %v", get("Sec-Websocket-Extensions"), re)
		default:
			s.Probe("hs_extension_checked")
		}
	}
	if conn.IsCompressionNegotiated() != negotiated {
		s.Violate("C31", "handshake-extension", "connection compression state differs from the handshake response", "conn %v, response %v", conn.IsCompressionNegotiated(), re)
	}
	// the connection that comes out speaks what was negotiated
	msg := w7GenBytes(300, 5, 2)
	werr := conn.WriteMessage(TextMessage, msg)
	if werr != nil {
		if !nc.anyWriteErr {
			s.Violate("C31", "handshake-conn", "first write on the upgraded connection fails", "%v", werr)
		}
		return
	}
	fr := w7RefDecode(nc.wire[wireStart:], w7RefCfg{ExpectMasked: false, Comp: negotiated, StrictLen: true})
	if len(fr.Msgs) != 1 || !bytes.Equal(fr.Msgs[0].Data, msg) || fr.Msgs[0].Typ != 1 {
		s.Violate("C31", "handshake-conn", "frames after the handshake do not match what was negotiated", "reference decoder (compression negotiated=%v): %s, %d messages", negotiated, fr.Term, len(fr.Msgs))
	} else {
		s.Probe("hs_conn_roundtrip")
	}
	if originCalls > 1 {
		s.Violate("C31", "handshake-accept", "CheckOrigin consulted more than once", "%d calls", originCalls)
	}
}
