//go:build verif

package websocket

// W7ws: byte-stream world of internal/websocket. Five script modes share one world:
//   read  - frame script -> real reader vs reference decoder           (C29, close clauses of C31)
//   multi - several read-mode (C29) or rt-mode (C30) connections in one run (shared pools)
//   rt    - real writer -> wire validator + real reader on the peer    (C30)
//   close - Conn-level close handshake under concurrency and faults    (C31)
//   hs    - Upgrader.Upgrade over generated requests (input sweep)     (C31)

import (
	"encoding/json"

	simrt "github.com/centrifugal/centrifuge/internal/simrt"
)

func w7GenScript(c *simrt.Choice, prop, tier string) any {
	switch prop {
	case "C30":
		// one run in five: several writer connections in one run (shared deflater pools)
		if c.Pick(4, 1) == 1 {
			return w7GenMulti(c, prop, tier)
		}
		return w7GenRT(c, prop, tier)
	case "C31":
		switch c.Pick(4, 3, 3) {
		case 0:
			return w7GenClose(c, prop, tier)
		case 1:
			return w7GenHS(c, prop, tier)
		default:
			return w7GenRead(c, prop, tier)
		}
	}
	// C29: three quarters single-connection streams, one quarter several connections in one run
	if c.Pick(3, 1) == 1 {
		return w7GenMulti(c, prop, tier)
	}
	return w7GenRead(c, prop, tier)
}

func w7Run(s *simrt.Sim, script any, prop string) {
	sc := script.(*w7Script)
	switch sc.Mode {
	case "read":
		w7RunRead(s, sc, prop)
	case "multi":
		w7RunMulti(s, sc, prop)
	case "rt":
		w7RunRT(s, sc, prop)
	case "close":
		w7RunClose(s, sc, prop)
	case "hs":
		w7RunHS(s, sc, prop)
	}
}

func w7Clone(sc *w7Script) *w7Script {
	b, _ := json.Marshal(sc)
	out := &w7Script{}
	_ = json.Unmarshal(b, out)
	return out
}

func w7Shrinks(script any) []any {
	sc := script.(*w7Script)
	var out []any
	add := func(f func(c *w7Script)) {
		c := w7Clone(sc)
		f(c)
		out = append(out, c)
	}
	switch sc.Mode {
	case "read":
		for i := range sc.Frames {
			i := i
			add(func(c *w7Script) { c.Frames = append(c.Frames[:i], c.Frames[i+1:]...); c.Trunc = -1; c.Flips = nil })
		}
		if len(sc.Frames) > 2 {
			add(func(c *w7Script) { c.Frames = c.Frames[:len(c.Frames)/2]; c.Trunc = -1; c.Flips = nil })
			add(func(c *w7Script) { c.Frames = c.Frames[len(c.Frames)/2:]; c.Trunc = -1; c.Flips = nil })
		}
		for i := range sc.Flips {
			i := i
			add(func(c *w7Script) { c.Flips = append(c.Flips[:i], c.Flips[i+1:]...) })
		}
		if sc.Trunc >= 0 {
			add(func(c *w7Script) { c.Trunc = -1 })
		}
		if sc.WFault.Kind != 0 {
			add(func(c *w7Script) { c.WFault = w7WFault{At: -1} })
		}
		if sc.Feed != 0 {
			add(func(c *w7Script) { c.Feed = 0 })
		}
		if sc.Seg != 0 {
			add(func(c *w7Script) { c.Seg = 0 })
		}
		if sc.ReadAPI == 1 {
			add(func(c *w7Script) { c.ReadAPI = 0 })
		}
		if sc.DeadlineMs != 0 && sc.End != 2 {
			add(func(c *w7Script) { c.DeadlineMs = 0; c.PongExtend = false })
		}
		if sc.End != 0 {
			add(func(c *w7Script) { c.End = 0 })
		}
		if sc.Pool {
			add(func(c *w7Script) { c.Pool = false })
		}
		if sc.ReadBuf != 0 {
			add(func(c *w7Script) { c.ReadBuf = 0 })
		}
		if sc.ReadLimit != 0 {
			add(func(c *w7Script) { c.ReadLimit = 0 })
		}
		if sc.DecompLimit != 0 {
			add(func(c *w7Script) { c.DecompLimit = 0 })
		}
		for i := range sc.Frames {
			i := i
			if sc.Frames[i].GenLen > 8 && !sc.Frames[i].DeclSet {
				add(func(c *w7Script) { c.Frames[i].GenLen /= 2; c.Trunc = -1; c.Flips = nil })
			}
			if sc.Frames[i].LenMode != 0 && !sc.Frames[i].DeclSet {
				add(func(c *w7Script) { c.Frames[i].LenMode = 0; c.Trunc = -1; c.Flips = nil })
			}
		}
	case "multi":
		out = append(out, w7ShrinksMulti(sc)...)
	case "rt":
		out = append(out, w7ShrinksRT(sc)...)
	case "close":
		out = append(out, w7ShrinksClose(sc)...)
	case "hs":
		out = append(out, w7ShrinksHS(sc)...)
	}
	return out
}

func init() {
	simrt.Register(&simrt.World{
		Name:      "w7ws",
		Gen:       w7GenScript,
		NewScript: func() any { return &w7Script{} },
		Run: func(s *simrt.Sim, script any, prop string) {
			w7Run(s, script, prop)
		},
		Shrinks: w7Shrinks,
		Nontrivial: func(prop string, r *simrt.Result) bool {
			return r.Probes["nontrivial:"+prop] > 0
		},
	})
	simrt.Claim("C29", "w7ws", 10)
	simrt.Claim("C30", "w7ws", 10)
	simrt.Claim("C31", "w7ws", 10)
}
