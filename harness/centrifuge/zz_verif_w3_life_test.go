//go:build verif

package centrifuge

// W3 lifecycle scenarios: C05 ("no trace of a closed connection") and C26 ("broker
// subscription follows local interest") for MAP subscriptions.
//
// The world is the W3 map world (real Node, real MemoryMapBroker, simulated protocol
// clients). This file adds
//   - a recording + failing MapBroker seam (Subscribe / Unsubscribe can fail or be slow,
//     presence round trips can be slow) on top of w3Broker,
//   - a delaying PresenceManager seam around the node's real MemoryPresenceManager,
//   - "kills": the connection or its subscription is ended by one of several causes at
//     an arbitrary point of the map subscription's life (during a request of the state /
//     stream / live phase, while live, while a presence round trip of the periodic tick
//     or of the subscribe itself is in flight),
//   - subscribe options EmitPresence / MapClientPresenceChannel / MapUserPresenceChannel,
//   - the C05 and C26 oracles. Those that need no fault also run at the end of every
//     other W3 run (C22 / C16 / C14) after all connections were dropped.

import (
	"context"
	"errors"
	"fmt"
	"runtime"
	"sort"
	"strconv"
	"strings"
	"time"

	simrt "github.com/centrifugal/centrifuge/internal/simrt"
	"github.com/prometheus/client_golang/prometheus"
	dto "github.com/prometheus/client_model/go"
)

const (
	w3PresClients = "pc:m" // MapClientPresenceChannel of the data channel
	w3PresUsers   = "pu:m" // MapUserPresenceChannel of the data channel
	// Client keyed presence must be removed when the subscription ends; its TTL is only
	// the safety net. It is chosen much longer than every bounded wait of the oracles, so
	// that an entry that was left behind cannot disappear by expiry before it is looked at.
	w3PresClientsTTL = 300 * time.Second
	// User keyed presence is by design not removed but expires (debounce).
	w3PresUsersTTL = 4 * time.Second
	// longest injected broker round trip; with the 5 s unsubscribe wait gate, the 1 s
	// deferred broker unsubscribe and its 0.5 s retries it bounds how long "in-flight
	// operations settle" can take once faults stopped
	w3SlowSubscribe = 6500 * time.Millisecond
	w3SettleBound   = 16 // whole seconds: 6.5 s + 5 s + 1 s + retries, rounded up generously
)

func w3PresenceChanOpts(ch string) MapChannelOptions {
	ttl := w3PresClientsTTL
	if ch == w3PresUsers {
		ttl = w3PresUsersTTL
	}
	return MapChannelOptions{
		Mode:            MapModeRecoverable,
		KeyTTL:          ttl,
		StreamSize:      100,
		StreamTTL:       ttl,
		MinPageSize:     1,
		MaxPageSize:     100,
		DefaultPageSize: 100,
	}
}

// ---------------------------------------------------------------- registry

type w3Gauges struct{ conns, subs float64 }

type w3Conn struct {
	cl      *w3Cl
	n       int // ordinal of the connection in the run
	client  *Client
	closeFn ClientCloseFunc
	tr      *w3Transport
	user    string

	trClosed  bool   // Transport.Close was called
	closeCode uint32 // with this disconnect code
	closedAt  int64  // virtual UnixNano of Transport.Close
	endWanted bool   // something that must end the connection was issued (kill with a closing cause, end of run)
	armed     *w3COp // kill that fires when the next presence round trip of this connection starts
	hit       bool   // a kill hit the connection while it held a map subscription or a reservation
	// presence adds that landed when the connection no longer held the subscription
	// (kind "presence" / "map-client" -> who issued the add); only used to give the
	// violation a specific signature
	lateAdd map[string]string
}

type w3Life struct {
	reg       *prometheus.Registry
	baseTaken bool
	base      w3Gauges
	conns     []*w3Conn

	// map broker subscription record: Subscribe / Unsubscribe are idempotent set operations
	bsub        map[string]bool
	subCalls    map[string]int
	unsubCalls  map[string]int
	lastUnsubKO map[string]bool // the last Unsubscribe call for the channel failed
	faultsOff   bool
}

func w3GaugeSum(reg *prometheus.Registry, name string) float64 {
	mfs, err := reg.Gather()
	if err != nil {
		return -1
	}
	sum := 0.0
	for _, mf := range mfs {
		if mf.GetName() != name || mf.GetType() != dto.MetricType_GAUGE {
			continue
		}
		for _, m := range mf.Metric {
			sum += m.GetGauge().GetValue()
		}
	}
	return sum
}

func (w *w3World) lifeGauges() w3Gauges {
	return w3Gauges{
		conns: w3GaugeSum(w.life.reg, "centrifuge_client_connections_inflight"),
		subs:  w3GaugeSum(w.life.reg, "centrifuge_client_subscriptions_inflight"),
	}
}

// lifeBaseline samples the gauges before the first connection of the run is created
// (no scheduling point: Gather does not enter the code under test).
func (w *w3World) lifeBaseline() {
	if w.life.baseTaken {
		return
	}
	w.life.baseTaken = true
	w.life.base = w.lifeGauges()
}

func (cl *w3Cl) userName() string {
	if cl.spec.User > 0 {
		return "s" + strconv.Itoa(cl.spec.User)
	}
	return "u" + strconv.Itoa(cl.idx)
}

func (w *w3World) lifeRegister(cl *w3Cl, c *Client, closeFn ClientCloseFunc) {
	conn := &w3Conn{cl: cl, n: len(w.life.conns), client: c, closeFn: closeFn, tr: cl.tr, user: cl.userName()}
	w.life.conns = append(w.life.conns, conn)
	cl.conn = conn
	if w.sc.Cfg.Life {
		w.s.Event("c%d new connection #%d", cl.idx, conn.n)
	}
}

func (w *w3World) lifeTransportClosed(t *w3Transport, d Disconnect) {
	for _, conn := range w.life.conns {
		if conn.tr == t {
			conn.trClosed = true
			conn.closeCode = d.Code
			conn.closedAt = time.Now().UnixNano()
			if w.sc.Cfg.Life {
				w.s.Probe("life_closed_code_" + strconv.Itoa(int(d.Code)))
			}
		}
	}
}

func (w *w3World) connByUID(uid string) *w3Conn {
	for _, conn := range w.life.conns {
		if conn.client.uid == uid {
			return conn
		}
	}
	return nil
}

// hub reads without taking the shard locks: used inside seams that the code under test
// calls (a lock would be an extra scheduling point inside the operation). Safe in the
// simulation: one goroutine runs at a time and goroutines only park at explicit yields,
// never inside a map operation.
func (w *w3World) hubCountNoLock(ch string) int {
	n := 0
	for _, sh := range w.node.hub.subShards {
		n += len(sh.subs[ch])
	}
	return n
}

func (w *w3World) hubHasNoLock(c *Client, ch string) bool {
	for _, sh := range w.node.hub.subShards {
		if si, ok := sh.subs[ch][c.uid]; ok && si.client == c {
			return true
		}
	}
	return false
}

func (w *w3World) registeredNoLock(c *Client) bool {
	for _, sh := range w.node.hub.connShards {
		if _, ok := sh.clients[c.uid]; ok {
			return true
		}
	}
	return false
}

// ---------------------------------------------------------------- MapBroker seam

func (w *w3World) lifeInit() {
	w.life.bsub = map[string]bool{}
	w.life.subCalls = map[string]int{}
	w.life.unsubCalls = map[string]int{}
	w.life.lastUnsubKO = map[string]bool{}
}

func (b *w3Broker) Subscribe(chs ...string) error {
	w := b.w
	s := w.s
	cfg := w.sc.Cfg
	if cfg.Life && !w.life.faultsOff {
		if s.Chance(cfg.SubDelayPm) {
			// a slow broker round trip; the node holds the channel's subscription lock
			s.Fault("map_broker_subscribe_delay")
			s.Sleep([]time.Duration{50 * time.Millisecond, w3SlowSubscribe}[s.Intn(2)])
		}
		if s.Chance(cfg.SubFailPm) {
			s.Fault("map_broker_subscribe_error")
			s.Event("map broker subscribe %v fails", chs)
			return errors.New("sim map broker subscribe error")
		}
	}
	for _, ch := range chs {
		if w.life.bsub[ch] {
			// first subscriber again before the deferred unsubscribe of "last subscriber left" ran
			s.Probe("c26_subscribe_while_subscribed")
		}
		w.life.bsub[ch] = true
		w.life.subCalls[ch]++
		if cfg.Life {
			s.Event("map broker subscribe %s", ch)
		}
	}
	return b.MemoryMapBroker.Subscribe(chs...)
}

func (b *w3Broker) Unsubscribe(chs ...string) error {
	w := b.w
	s := w.s
	cfg := w.sc.Cfg
	if cfg.Life && !w.life.faultsOff && s.Chance(cfg.SubDelayPm) {
		// slow round trip of the deferred unsubscribe (the job holds the channel's subscription lock)
		s.Fault("map_broker_unsubscribe_delay")
		s.Sleep([]time.Duration{50 * time.Millisecond, 1200 * time.Millisecond}[s.Intn(2)])
	}
	if cfg.Life && !w.life.faultsOff && s.Chance(cfg.UnsubFailPm) {
		s.Fault("map_broker_unsubscribe_error")
		for _, ch := range chs {
			w.life.unsubCalls[ch]++
			w.life.lastUnsubKO[ch] = true
		}
		s.Event("map broker unsubscribe %v fails", chs)
		return errors.New("sim map broker unsubscribe error")
	}
	for _, ch := range chs {
		w.life.unsubCalls[ch]++
		if w.life.lastUnsubKO[ch] {
			s.Probe("c26_failed_unsubscribe_retried")
		}
		w.life.lastUnsubKO[ch] = false
		w.life.bsub[ch] = false
		s.Probe("c26_unsubscribe_seen")
		if cfg.Life {
			s.Event("map broker unsubscribe %s", ch)
		}
		// C26: the node must not leave the broker channel while it has local subscribers
		if n := w.hubCountNoLock(ch); n > 0 {
			s.Violate("C26", "unsubscribed-with-subscribers", "map broker unsubscribe while the channel has local map subscribers",
				"MapBroker.Unsubscribe(%s) succeeded while %d local subscribers are registered in the hub", ch, n)
		}
	}
	return b.MemoryMapBroker.Unsubscribe(chs...)
}

// presenceRoundTrip models the network round trip of a presence add / refresh / removal:
// an armed kill of the connection fires when it starts, and it may take a while.
func (w *w3World) presenceRoundTrip(uid string, what string) {
	s := w.s
	if !w.sc.Cfg.Life {
		return
	}
	if conn := w.connByUID(uid); conn != nil && conn.armed != nil && what != "remove" {
		op := *conn.armed
		conn.armed = nil
		s.Probe("life_kill_at_presence_round_trip")
		s.Go(func() { w.kill(conn, op.Cause) })
	}
	if !w.life.faultsOff && s.Chance(w.sc.Cfg.PresDelayPm) {
		s.Fault("presence_round_trip_delay")
		s.Sleep([]time.Duration{20 * time.Millisecond, 300 * time.Millisecond, 1200 * time.Millisecond}[s.Intn(3)])
	}
}

func (b *w3Broker) Publish(ctx context.Context, ch string, key string, opts MapPublishOptions) (MapUpdateResult, error) {
	if ch != w3Channel {
		b.w.presenceRoundTrip(key, "add")
	}
	res, err := b.MemoryMapBroker.Publish(ctx, ch, key, opts)
	if ch == w3PresClients && err == nil {
		b.w.presenceLanded(key, "map-client")
	}
	return res, err
}

// presenceLanded notes (for the signature of a later violation only) that a presence add
// took effect when the connection no longer held the subscription, and which part of the
// server issued it (read from the call stack: the subscribe's own add or the periodic tick).
func (w *w3World) presenceLanded(uid, kind string) {
	conn := w.connByUID(uid)
	if conn == nil || !w.sc.Cfg.Life {
		return
	}
	c := conn.client
	_, subscribed := c.channels[w3Channel]
	if subscribed && c.status != statusClosed {
		return
	}
	who := "other"
	switch {
	case w3StackHas("setupMapPresenceAndJoin"):
		who = "subscribe"
	case w3StackHas("updateChannelPresence"):
		who = "tick"
	}
	if conn.lateAdd == nil {
		conn.lateAdd = map[string]string{}
	}
	conn.lateAdd[kind] = who
	w.s.Probe("life_presence_add_landed_after_end_" + who)
}

func w3StackHas(fn string) bool {
	pcs := make([]uintptr, 48)
	n := runtime.Callers(2, pcs)
	frames := runtime.CallersFrames(pcs[:n])
	for {
		f, more := frames.Next()
		if strings.HasSuffix(f.Function, "."+fn) {
			return true
		}
		if !more {
			return false
		}
	}
}

func (conn *w3Conn) lateSuffix(kind string) string {
	switch conn.lateAdd[kind] {
	case "subscribe":
		return " [added by the map subscribe itself after the subscription had already been ended]"
	case "tick":
		return " [added by the periodic presence tick after the subscription had been ended]"
	case "other":
		return " [added after the subscription had been ended]"
	}
	return ""
}

func (b *w3Broker) Remove(ctx context.Context, ch string, key string, opts MapRemoveOptions) (MapUpdateResult, error) {
	if ch != w3Channel {
		b.w.presenceRoundTrip(key, "remove")
	}
	return b.MemoryMapBroker.Remove(ctx, ch, key, opts)
}

// w3Presence is the node's real MemoryPresenceManager behind a slow round trip.
type w3Presence struct {
	w     *w3World
	inner PresenceManager
}

func (p *w3Presence) Presence(ch string) (map[string]*ClientInfo, error) { return p.inner.Presence(ch) }
func (p *w3Presence) PresenceStats(ch string) (PresenceStats, error) {
	return p.inner.PresenceStats(ch)
}
func (p *w3Presence) AddPresence(ch string, clientID string, info *ClientInfo) error {
	p.w.presenceRoundTrip(clientID, "add")
	err := p.inner.AddPresence(ch, clientID, info)
	if err == nil {
		p.w.presenceLanded(clientID, "presence")
	}
	return err
}
func (p *w3Presence) RemovePresence(ch string, clientID string, userID string) error {
	p.w.presenceRoundTrip(clientID, "remove")
	return p.inner.RemovePresence(ch, clientID, userID)
}

// ---------------------------------------------------------------- kills

func w3ClosingCause(cause string) bool {
	switch cause {
	case "peer", "disc", "ndisc", "werr", "slow":
		return true
	}
	return false
}

// killPoint classifies (for probes only) what the connection was doing when the kill ran.
func (w *w3World) killPoint(conn *w3Conn) string {
	c := conn.client
	st := c.mapSubscribing[w3Channel]
	_, paging := c.mapPaginationLocks[w3Channel]
	_, live := c.channels[w3Channel]
	inHub := w.hubHasNoLock(c, w3Channel)
	switch {
	case st != nil && inHub:
		return "live_transition" // routing entry added, subscription not yet committed
	case st != nil && paging && st.streamStartCaptured:
		return "stream_request"
	case st != nil && paging:
		return "state_request"
	case st != nil:
		return "between_requests"
	case live && conn.cl.inFlow:
		return "live_reply_in_flight" // committed, the client has not seen the reply yet
	case live:
		return "live"
	case paging:
		return "request_without_reservation"
	}
	return "not_subscribed"
}

func (w *w3World) kill(conn *w3Conn, cause string) {
	s := w.s
	s.Pause()
	if cause == "" {
		cause = "peer"
	}
	point := w.killPoint(conn)
	s.Probe("life_kill_" + point)
	if point != "not_subscribed" && !conn.trClosed {
		conn.hit = true
		s.Probe("life_kill_hit_subscription")
	}
	s.Fault("end_" + cause)
	s.Event("kill c%d#%d cause=%s point=%s", conn.cl.idx, conn.n, cause, point)
	if w3ClosingCause(cause) && cause != "ndisc" {
		conn.endWanted = true
	}
	switch cause {
	case "peer":
		// the transport reader sees the peer go away
		_ = conn.closeFn()
	case "disc":
		conn.client.Disconnect(DisconnectForceReconnect)
	case "ndisc":
		// only the user's connections that are registered when Disconnect is called must
		// end (one that is still connecting is legitimately not found)
		for _, o := range w.life.conns {
			if o.user == conn.user && !o.trClosed && w.registeredNoLock(o.client) {
				o.endWanted = true
			}
		}
		_ = w.node.Disconnect(conn.user)
	case "nunsub":
		_ = w.node.Unsubscribe(conn.user, w3Channel)
	case "cunsub":
		conn.client.Unsubscribe(w3Channel)
	case "werr":
		conn.tr.failWrites = true
		_ = conn.client.Send([]byte(`{"poke":1}`))
	case "slow":
		// the peer stops reading: writes take seconds, the queue grows beyond its limit
		conn.tr.stall = 3 * time.Second
		pad := `{"flood":"` + strings.Repeat("x", 1000) + `"}`
		limit := w.sc.Cfg.QueueMax
		if limit <= 0 {
			limit = 1 << 20
		}
		nsent := 0
		var lastErr error
		// the writer may take a batch out of the queue before it blocks in the stalled
		// write: keep sending until the limit is exceeded (Send fails once the close began)
		for sent := 0; sent <= 4*limit && !conn.trClosed; sent += len(pad) {
			nsent++
			if lastErr = conn.client.Send([]byte(pad)); lastErr != nil {
				break
			}
		}
		s.Event("flood c%d#%d: %d sends, last error %v", conn.cl.idx, conn.n, nsent, lastErr)
	}
}

// killAt: the kill becomes runnable when request n of the flow is handed to the server.
func (cl *w3Cl) killAt(op w3COp, n int) {
	if op.KillAt == 0 || op.KillAt-1 != n || cl.conn == nil || !cl.w.sc.Cfg.Life {
		return
	}
	w, conn := cl.w, cl.conn
	w.s.Probe("life_kill_scheduled_in_flow")
	d := time.Duration(op.KillUs) * time.Microsecond
	cause := op.Cause
	w.s.Go(func() {
		if d > 0 {
			w.s.Sleep(d)
		}
		w.kill(conn, cause)
	})
}

func (cl *w3Cl) killOp(op w3COp) {
	conn := cl.conn
	if conn == nil || conn.trClosed || !cl.w.sc.Cfg.Life {
		return
	}
	if op.When == 1 {
		conn.armed = &op
		cl.w.s.Sleep(1300 * time.Millisecond)
		return
	}
	cl.w.kill(conn, op.Cause)
}

// lifeWentLive runs when the client processes a live reply (in frame order).
func (w *w3World) lifeWentLive(cl *w3Cl) {
	s := w.s
	if w.sc.Cfg.Life {
		s.Probe("life_went_live")
	}
	// C26: an established map subscription (reply delivered, routing entry still there)
	// implies that the node is subscribed in the map broker: the subscribe of the first
	// subscriber succeeded before any reply, and a successful unsubscribe is only legal
	// while the hub has no subscriber (checked in Unsubscribe).
	if cl.conn != nil && w.hubHasNoLock(cl.conn.client, w3Channel) {
		s.Probe("c26_interest_checked_at_live")
		if !w.life.bsub[w3Channel] {
			s.Violate("C26", "interest-without-broker-subscription", "established map subscription while the node is not subscribed in the map broker",
				"client %d went live on %s (routing entry present) but the map broker subscription record says unsubscribed (subscribe calls %d, unsubscribe calls %d)",
				cl.idx, w3Channel, w.life.subCalls[w3Channel], w.life.unsubCalls[w3Channel])
		}
	}
}

// ---------------------------------------------------------------- C05 oracle

type w3Trace struct{ clause, sig, detail string }

func (w *w3World) mapKeys(ch string) (map[string]bool, error) {
	res, err := w.node.MapStateRead(context.Background(), ch, MapReadStateOptions{Limit: -1})
	if err != nil {
		return nil, err
	}
	m := map[string]bool{}
	for _, p := range res.Publications {
		m[p.Key] = true
	}
	return m, nil
}

func sortedKeys(m map[string]bool) []string {
	var out []string
	for k, v := range m {
		if v {
			out = append(out, k)
		}
	}
	sort.Strings(out)
	return out
}

// lifeTraces lists what the node still holds for connections whose transport was closed
// (and, with final set, what it holds at all although every connection ended).
func (w *w3World) lifeTraces(when string, final bool) []w3Trace {
	var out []w3Trace
	add := func(clause, sig, f string, a ...any) {
		sig += w.mixTraceSuffix(clause) // classification of mix scenario leftovers (signature only)
		out = append(out, w3Trace{clause, sig, when + ": " + fmt.Sprintf(f, a...)})
	}
	hub := w.node.hub
	presence := map[string]bool{}
	if res, err := w.node.Presence(w3Channel); err == nil {
		for uid := range res.Presence {
			presence[uid] = true
		}
	}
	pclients, _ := w.mapKeys(w3PresClients)
	for _, conn := range w.life.conns {
		c := conn.client
		who := fmt.Sprintf("client %d connection #%d (closed with code %d)", conn.cl.idx, conn.n, conn.closeCode)
		if !conn.trClosed {
			if conn.endWanted {
				add("transport-not-closed", "transport of an ended connection was never closed", "client %d connection #%d: the connection was ended but Transport.Close was not called", conn.cl.idx, conn.n)
			}
			continue
		}
		w.s.Probe("c05_closed_conn_checked")
		if conn.hit {
			w.s.Probe("c05_hit_conn_checked")
			if w.prop == "C05" {
				w.s.Probe("nontrivial:C05")
			}
		}
		// routing entries
		var chs []string
		for _, sh := range hub.subShards {
			sh.mu.RLock()
			for ch, subs := range sh.subs {
				for _, si := range subs {
					if si.client == c {
						chs = append(chs, ch)
					}
				}
			}
			sh.mu.RUnlock()
		}
		if len(chs) > 0 {
			sort.Strings(chs)
			add("routing-entry-survives", "hub routing entry of a closed connection (map subscription)", "%s still has routing entries for %v", who, chs)
		}
		// connection / session registry
		registered := false
		for _, sh := range hub.connShards {
			sh.mu.RLock()
			if _, ok := sh.clients[c.uid]; ok {
				registered = true
			}
			for _, m := range sh.users {
				if _, ok := m[c.uid]; ok {
					registered = true
				}
			}
			sh.mu.RUnlock()
		}
		hub.sessionsMu.RLock()
		for _, sc := range hub.sessions {
			if sc == c {
				registered = true
			}
		}
		hub.sessionsMu.RUnlock()
		if registered {
			add("connection-registered", "closed connection still registered", "%s is still in the connection/session registry", who)
		}
		// map subscribe reservations / pagination locks: nothing of the connection's map
		// subscribes may still be registered as in progress
		c.mu.RLock()
		nres, nlock := len(c.mapSubscribing), len(c.mapPaginationLocks)
		late := nres > 0
		for _, st := range c.mapSubscribing {
			if st.startedAt < conn.closedAt {
				late = false
			}
		}
		c.mu.RUnlock()
		if nres > 0 {
			sig := "map subscribe reservation of a closed connection"
			if late {
				// classification only: the reservation was created after the transport was closed
				sig += " [reserved after the connection was closed, by a request that had passed the closed check before]"
			}
			add("map-subscribe-reservation-survives", sig, "%s still holds %d map subscribe reservation(s) (mapSubscribing)", who, nres)
		}
		if nlock > 0 {
			add("map-subscribe-reservation-survives", "map pagination lock of a closed connection", "%s still holds %d map pagination lock(s)", who, nlock)
		}
		// presence entries added for the connection
		if presence[c.uid] {
			add("presence-survives", "presence entry of a closed connection (map subscription with EmitPresence)"+conn.lateSuffix("presence"), "%s is still in the presence of %s", who, w3Channel)
		}
		if pclients[c.uid] {
			add("map-presence-survives", "map client presence entry of a closed connection"+conn.lateSuffix("map-client"), "%s still has its client key in the map presence channel %s", who, w3PresClients)
		}
	}
	if final {
		if n := hub.NumClients(); n != 0 {
			add("num-clients", "connections registered after all ended", "hub has %d clients", n)
		}
		if n := hub.NumSubscriptions(); n != 0 {
			add("num-subscriptions", "subscriptions registered after all connections ended", "hub counts %d subscriptions, %d subscribers of %s, channels %v", n, hub.NumSubscribers(w3Channel), w3Channel, hub.Channels())
		} else if chs := hub.Channels(); len(chs) != 0 {
			sort.Strings(chs)
			add("num-subscriptions", "channels registered after all connections ended", "hub lists channels %v", chs)
		}
		g := w.lifeGauges()
		if g.conns != w.life.base.conns {
			add("connections-gauge", "connections gauge did not return", "connections_inflight=%v after all connections ended, %v before the first one", g.conns, w.life.base.conns)
		}
		if g.subs != w.life.base.subs {
			add("subscriptions-gauge", "subscriptions gauge did not return", "subscriptions_inflight=%v after all connections ended, %v before the first one", g.subs, w.life.base.subs)
		}
		// entries of connections the registry does not know (per connection entries were reported above)
		for _, conn := range w.life.conns {
			delete(presence, conn.client.uid)
			delete(pclients, conn.client.uid)
		}
		if len(presence) > 0 {
			add("presence-survives", "presence entries of unknown connections after all connections ended", "presence of %s still lists %v", w3Channel, sortedKeys(presence))
		}
		if len(pclients) > 0 {
			add("map-presence-survives", "map client presence entries of unknown connections after all connections ended", "%s still holds keys %v", w3PresClients, sortedKeys(pclients))
		}
	}
	return out
}

// lifeCheckConns: bounded "once in-flight operations settle": look, and while something
// is left wait another whole second, at most w3SettleBound of them.
func (w *w3World) lifeCheckConns(when string, final bool) {
	s := w.s
	var traces []w3Trace
	for i := 0; ; i++ {
		traces = w.lifeTraces(when, final)
		if len(traces) == 0 || i >= w3SettleBound {
			break
		}
		s.Probe("c05_waited_for_settling")
		s.Sleep(time.Second)
	}
	for _, t := range traces {
		s.Violate("C05", t.clause, t.sig, "%s (still there %d s after faults stopped)", t.detail, w3SettleBound)
	}
}

// lifeCheckUserPresence: user keyed map presence is not removed but expires; once every
// connection ended nobody refreshes it, so it must be gone after KeyTTL (+ expiry sweeps).
func (w *w3World) lifeCheckUserPresence() {
	s := w.s
	bound := int(w3PresUsersTTL/time.Second) + 3
	var keys map[string]bool
	for i := 0; ; i++ {
		keys, _ = w.mapKeys(w3PresUsers)
		if len(keys) == 0 || i >= bound {
			break
		}
		s.Probe("c05_waited_for_user_presence_ttl")
		s.Sleep(time.Second)
	}
	if len(keys) > 0 {
		s.Violate("C05", "map-presence-survives", "map user presence entry outlives KeyTTL after all connections of the user ended",
			"%s still holds keys %v, %d s after every connection ended (KeyTTL %v)", w3PresUsers, sortedKeys(keys), bound, w3PresUsersTTL)
	}
}

// ---------------------------------------------------------------- C26 oracle

func (w *w3World) lifeCheckBroker(when string) {
	s := w.s
	hub := w.node.hub
	subscribed := func() []string {
		var out []string
		for ch, on := range w.life.bsub {
			if on {
				out = append(out, ch)
			}
		}
		sort.Strings(out)
		return out
	}
	// "once subscriptions settle and deferred work drains": the deferred unsubscribe runs
	// 1 s after the last subscriber left, a failed one is retried every 0.5 s; faults
	// have stopped, so this is a bounded eventually
	for i := 0; i < w3SettleBound; i++ {
		pending := false
		for _, ch := range subscribed() {
			if hub.NumSubscribers(ch) == 0 {
				pending = true
			}
		}
		if !pending {
			break
		}
		s.Probe("c26_waited_for_deferred_unsubscribe")
		s.Sleep(time.Second)
	}
	chs := map[string]bool{w3Channel: true, w3PresClients: true, w3PresUsers: true}
	for ch := range w.life.bsub {
		chs[ch] = true
	}
	for _, ch := range hub.Channels() {
		chs[ch] = true
	}
	for _, ch := range sortedKeys(chs) {
		local := hub.NumSubscribers(ch)
		on := w.life.bsub[ch]
		s.Probe("c26_compared")
		if local > 0 {
			s.Probe("c26_compared_with_subscribers")
		}
		if w.prop == "C26" && ch == w3Channel && w.life.unsubCalls[ch] > 0 && w.life.subCalls[ch] > 0 {
			s.Probe("nontrivial:C26")
		}
		switch {
		case local > 0 && !on:
			s.Violate("C26", "interest-without-broker-subscription", "local map subscribers but no map broker subscription after settling",
				"%s: %s has %d local subscribers, the node is not subscribed in the map broker (subscribe calls %d, unsubscribe calls %d)", when, ch, local, w.life.subCalls[ch], w.life.unsubCalls[ch])
		case local == 0 && on:
			sig := "map broker subscription without local subscribers after settling"
			switch {
			case w.life.lastUnsubKO[ch]:
				sig += " [the last Unsubscribe failed and was not retried]"
			case w.life.unsubCalls[ch] == 0:
				sig += " [Unsubscribe was never called]"
			}
			s.Violate("C26", "broker-subscription-leak", sig,
				"%s: %s has no local subscribers but the node is still subscribed in the map broker %d s after faults stopped (subscribe calls %d, unsubscribe calls %d)", when, ch, w3SettleBound, w.life.subCalls[ch], w.life.unsubCalls[ch])
		}
	}
}

// ---------------------------------------------------------------- end of run

// lifeCheckEnd runs in every W3 run after all connections were ended.
func (w *w3World) lifeCheckEnd() {
	w.life.faultsOff = true
	for _, conn := range w.life.conns {
		conn.endWanted = true
	}
	w.lifeCheckConns("end", true)
	w.lifeCheckBroker("end")
	if w.sc.Cfg.Life {
		w.lifeCheckUserPresence()
	}
}

// lifeEnd is the end phase of a lifecycle scenario.
func (w *w3World) lifeEnd(settle time.Duration) {
	s := w.s
	// faults stop; in-flight operations and deferred work settle
	w.life.faultsOff = true
	s.Sleep(settle + 137*time.Millisecond)
	w.lifeCheckConns("settled", false)
	w.lifeCheckBroker("settled")
	// every remaining connection ends now, concurrently, each by the cause the script chose
	done := make(chan struct{}, 8)
	n := 0
	for _, cl := range w.clients {
		conn := cl.conn
		if conn == nil || conn.trClosed {
			continue
		}
		cause := cl.spec.End
		if !w3ClosingCause(cause) || cause == "slow" {
			cause = "peer"
		}
		cl.live, cl.inFlow = false, false
		n++
		s.Go(func() {
			defer func() { done <- struct{}{} }()
			w.kill(conn, cause)
		})
	}
	for i := 0; i < n; i++ {
		<-done
	}
	s.Pause()
	w.lifeCheckEnd()
	s.Sleep(500 * time.Millisecond)
	ctx, cancel := context.WithTimeout(context.Background(), 10*time.Second)
	_ = w.node.Shutdown(ctx)
	cancel()
	s.Sleep(2 * time.Second)
}

// ---------------------------------------------------------------- generator

var w3KillCauses = []string{"peer", "peer", "disc", "ndisc", "nunsub", "cunsub", "werr", "slow"}

func w3GenLife(c *simrt.Choice, prop, tier string) *w3Script {
	sc := &w3Script{}
	cfg := &sc.Cfg
	cfg.Life = true
	cfg.Mode = []int{2, 3, 1}[c.Pick(5, 3, 2)]
	cfg.KeyTTLMs = 60000
	cfg.StreamSize = []int{100, 0, 4}[c.Intn(3)] // 0 = library default
	cfg.StreamTTLMs = []int{3600000, 0}[c.Intn(2)]
	cfg.LiveLimit = []int{0, 0, 2}[c.Intn(3)]
	cfg.MaxPage = []int{5, 3}[c.Intn(2)]
	cfg.NKeys = 3 + c.Intn(4)
	cfg.SingleFlight = c.Intn(4) == 0
	cfg.SettleMs = []int{4000, 8000}[c.Intn(2)]
	cfg.QueueMax = 8192
	cfg.TickMs = []int{0, 400}[c.Intn(2)]
	// faults: half of the scripts for C26 concentrate on the broker, for C05 on closes
	cfg.SubFailPm = []int{0, 150, 400}[c.Intn(3)]
	cfg.SubDelayPm = []int{0, 0, 250}[c.Intn(3)]
	cfg.UnsubFailPm = []int{0, 300, 600}[c.Intn(3)]
	cfg.PresDelayPm = []int{0, 400, 800}[c.Intn(3)]
	maxOps := 7
	if tier == "thorough" {
		maxOps = 12
	}
	npre := cfg.NKeys + c.Intn(4)
	for i := 0; i < npre; i++ {
		sc.Pre = append(sc.Pre, w3WOp{K: "pub", Key: i % cfg.NKeys, Score: c.Intn(4)})
	}
	// a busy writer makes the stream run ahead of the state (stream phase, catch-up in the live transition)
	if c.Intn(2) == 0 {
		var ops []w3WOp
		k := 4 + c.Intn(10)
		for j := 0; j < k; j++ {
			if c.Intn(3) == 0 {
				ops = append(ops, w3WOp{K: "sleep", Us: []int{50, 400, 3000, 200000}[c.Intn(4)]})
			}
			ops = append(ops, w3WOp{K: "pub", Key: c.Intn(cfg.NKeys), Score: c.Intn(4)})
		}
		sc.Writers = append(sc.Writers, ops)
	}
	killUs := []int{0, 0, 0, 30, 20000, 200000, 2000000}
	killed := func(op w3COp, maxAt int) w3COp {
		op.KillAt = 1 + c.Intn(maxAt)
		op.Cause = w3KillCauses[c.Intn(len(w3KillCauses))]
		op.KillUs = killUs[c.Intn(len(killUs))]
		return op
	}
	ncl := 2 + c.Intn(2)
	for i := 0; i < ncl; i++ {
		cl := w3Client{Proto: []string{"json", "protobuf"}[c.Intn(2)]}
		if c.Intn(3) == 0 {
			cl.User = 1
		}
		cl.Pres = []int{0, 3, 2, 1, 6, 7, 4, 5}[c.Intn(8)]
		if prop == "C26" && c.Intn(2) == 0 {
			cl.Pres = 0
		}
		cl.End = []string{"peer", "disc", "ndisc", "werr"}[c.Intn(4)]
		flow := func(kind string) w3COp {
			op := w3COp{K: kind, Limit: 1 + c.Intn(3), SLimit: 1 + c.Intn(3)}
			op.Delays = []int{[]int{0, 100, 5000}[c.Intn(3)], []int{0, 400, 300000}[c.Intn(3)]}
			if kind == "recover" {
				op.Via = []string{"live", "stream"}[c.Intn(2)]
				op.Keep = c.Intn(2) == 0
			}
			if c.Intn(2) == 0 {
				op = killed(op, 6)
			}
			return op
		}
		cl.Ops = append(cl.Ops, flow("sync"))
		k := 1 + c.Intn(maxOps-1)
		for j := 0; j < k; j++ {
			switch c.Pick(3, 3, 2, 2, 2) {
			case 0:
				cl.Ops = append(cl.Ops, w3COp{K: "sleep", Us: []int{100, 3000, 200000, 600000, 1100000, 2300000}[c.Intn(6)]})
			case 1:
				op := w3COp{K: "kill", Cause: w3KillCauses[c.Intn(len(w3KillCauses))]}
				if cl.Pres != 0 && c.Intn(2) == 0 {
					op.When = 1
				}
				cl.Ops = append(cl.Ops, op)
			case 2:
				op := w3COp{K: "unsub"}
				if c.Intn(2) == 0 {
					op = killed(op, 1)
				}
				cl.Ops = append(cl.Ops, op)
			case 3:
				cl.Ops = append(cl.Ops, flow("recover"))
			case 4:
				cl.Ops = append(cl.Ops, flow("sync"))
			}
		}
		sc.Clients = append(sc.Clients, cl)
	}
	return sc
}

// w3LifeShrinks: smaller variants of the lifecycle parts of a script.
func w3LifeShrinks(sc *w3Script, clone func() *w3Script) []any {
	var out []any
	if !sc.Cfg.Life {
		return nil
	}
	for i := range sc.Clients {
		for j := range sc.Clients[i].Ops {
			if sc.Clients[i].Ops[j].KillAt != 0 {
				c := clone()
				op := &c.Clients[i].Ops[j]
				op.KillAt, op.KillUs, op.Cause = 0, 0, ""
				out = append(out, c)
			}
			if sc.Clients[i].Ops[j].KillUs != 0 {
				c := clone()
				c.Clients[i].Ops[j].KillUs = 0
				out = append(out, c)
			}
			if sc.Clients[i].Ops[j].When != 0 {
				c := clone()
				c.Clients[i].Ops[j].When = 0
				out = append(out, c)
			}
		}
		if sc.Clients[i].Pres != 0 {
			for _, bit := range []int{1, 2, 4} {
				if sc.Clients[i].Pres&bit != 0 {
					c := clone()
					c.Clients[i].Pres &^= bit
					out = append(out, c)
				}
			}
		}
		if sc.Clients[i].User != 0 {
			c := clone()
			c.Clients[i].User = 0
			out = append(out, c)
		}
		if sc.Clients[i].End != "" && sc.Clients[i].End != "peer" {
			c := clone()
			c.Clients[i].End = ""
			out = append(out, c)
		}
	}
	for _, f := range []func(*w3Script){
		func(c *w3Script) { c.Cfg.SubFailPm = 0 },
		func(c *w3Script) { c.Cfg.SubDelayPm = 0 },
		func(c *w3Script) { c.Cfg.UnsubFailPm = 0 },
		func(c *w3Script) { c.Cfg.PresDelayPm = 0 },
		func(c *w3Script) { c.Cfg.TickMs = 0 },
		func(c *w3Script) { c.Cfg.Mode = 2 },
	} {
		c := clone()
		before := fmt.Sprintf("%+v", c.Cfg)
		f(c)
		if fmt.Sprintf("%+v", c.Cfg) != before {
			out = append(out, c)
		}
	}
	return out
}
