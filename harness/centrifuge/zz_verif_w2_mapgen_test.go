//go:build verif

package centrifuge

// W2m script: types, generator, shrinker.

import (
	"math"

	simrt "github.com/centrifugal/centrifuge/internal/simrt"
)

type w2mChan struct {
	Mode       int  `json:"mode"` // 1 ephemeral, 2 recoverable, 3 persistent
	Ordered    bool `json:"ordered,omitempty"`
	KeyTTLMs   int  `json:"key_ttl_ms,omitempty"`
	StreamSize int  `json:"stream_size,omitempty"`
	StreamTTLs int  `json:"stream_ttl_s,omitempty"`
	MetaTTLs   int  `json:"meta_ttl_s,omitempty"`
}

type w2mOp struct {
	K       string `json:"k"` // pub | rm | clear | state | key | stream | sleep
	Ch      int    `json:"ch,omitempty"`
	Key     int    `json:"key,omitempty"`
	Mode    int    `json:"mode,omitempty"` // 0 replace, 1 if_new, 2 if_exists
	Refresh bool   `json:"refresh,omitempty"`
	CAS     int    `json:"cas,omitempty"` // 0 none, 1 position the task knows, 2 wrong offset, 3 wrong epoch
	Ver     uint64 `json:"ver,omitempty"`
	VE      int    `json:"ve,omitempty"`
	IK      int    `json:"ik,omitempty"`
	ITTLMs  int    `json:"ittl_ms,omitempty"`
	Score   int64  `json:"score,omitempty"`
	HS      int    `json:"hs,omitempty"` // handler sleeps ms inside this operation's delivery
	Asc     bool   `json:"asc,omitempty"`
	Since   int    `json:"since,omitempty"`
	Rel     int    `json:"rel,omitempty"`
	EK      int    `json:"ek,omitempty"`
	Lim     int    `json:"lim,omitempty"`
	Rev     bool   `json:"rev,omitempty"`
	Ms      int    `json:"ms,omitempty"`
}

type w2mScript struct {
	Chans []w2mChan `json:"chans"`
	Tasks [][]w2mOp `json:"tasks"`
	Final []w2mOp   `json:"final"`
	EHS   int       `json:"ehs,omitempty"` // handler sleeps ms inside the delivery of an expiry removal
	Pages bool      `json:"pages"`         // run the pagination sweep (C21) at the end
}

var w2mKeys = []string{"k1", "k2", "K", "k10", "é", "k", "a\x00b", "~"}
var w2mScores = []int64{0, 1, -1, 5, 5, math.MaxInt64, math.MinInt64, 1 << 53, -7}

func w2mGen(c *simrt.Choice, prop, tier string) any {
	sc := &w2mScript{}
	nch := 1 + c.Pick(3, 1)
	ntasks := 1 + c.Pick(2, 4, 2)
	nkeys := 2 + c.Intn(3)
	shortTTL := prop == "C24" || c.Intn(3) == 0
	if prop == "C21" {
		ntasks, nch, nkeys, shortTTL = 1, 1, 3+c.Intn(5), c.Intn(6) == 0
	}
	if prop == "C19" {
		nkeys = 1 + c.Intn(2) // dedup decisions need repeated operations on one key
	}
	for i := 0; i < nch; i++ {
		var ch w2mChan
		switch {
		case prop == "C24":
			ch.Mode = 1 + c.Pick(1, 2) // expiry needs a TTL: ephemeral or recoverable
		case prop == "C19":
			ch.Mode = 2 + c.Pick(1, 1)
		default:
			ch.Mode = 1 + c.Pick(1, 2, 2)
		}
		ch.Ordered = c.Intn(2) == 1
		if ch.Mode != 3 {
			if shortTTL {
				ch.KeyTTLMs = []int{2000, 1000, 1500, 3000}[c.Intn(4)]
				if prop == "C24" && ch.KeyTTLMs == 1500 {
					ch.KeyTTLMs = 1000
				}
			} else {
				ch.KeyTTLMs = 600000
			}
		}
		if ch.Mode != 1 {
			ch.StreamSize = []int{0, 2, 3, 5, 8}[c.Intn(5)]
			ch.StreamTTLs = []int{0, 0, 0, 3, 5}[c.Intn(5)]
			if ch.Mode == 2 && c.Intn(4) == 0 {
				// explicit metadata TTL: >= stream TTL and >= key TTL
				st := ch.StreamTTLs
				if st == 0 {
					st = 60
				}
				k := (ch.KeyTTLMs + 999) / 1000
				if k > st {
					st = k
				}
				ch.MetaTTLs = st + []int{0, 2, 10}[c.Intn(3)]
			}
		}
		sc.Chans = append(sc.Chans, ch)
	}
	var sleeps []int
	if prop == "C24" {
		// whole seconds: operations coincide with the sweep ticks and with TTL deadlines
		sleeps = []int{1000, 1000, 1000, 2000, 2000, 500, 1, 3000}
	} else if shortTTL {
		sleeps = []int{1000, 500, 1, 2000, 1500, 250, 3000}
	} else {
		sleeps = []int{1, 300, 1000, 2500}
	}
	perCh := make([]int, nch)
	maxPerCh := 9
	dedup := 2
	if prop == "C19" {
		dedup = 6
	}
	genOp := func() (w2mOp, bool) {
		ch := c.Intn(nch)
		cfg := sc.Chans[ch]
		kind := 0
		switch prop {
		case "C24":
			kind = c.Pick(7, 2, 0, 1, 2, 1, 7)
		case "C21":
			kind = c.Pick(8, 2, 0, 1, 1, 0, 1)
		default:
			kind = c.Pick(9, 2, 1, 2, 2, 3, 3)
		}
		if kind != 6 {
			if perCh[ch] >= maxPerCh {
				return w2mOp{}, false
			}
			perCh[ch]++
		}
		key := c.Intn(nkeys)
		if prop == "C24" && c.Intn(3) != 0 {
			key = 0 // contention on one key
		}
		switch kind {
		case 0:
			op := w2mOp{K: "pub", Ch: ch, Key: key}
			if cfg.Ordered || c.Intn(4) == 0 {
				op.Score = w2mScores[c.Intn(len(w2mScores))]
			}
			switch {
			case prop == "C24":
				switch c.Pick(3, 4, 1) {
				case 1:
					op.Mode, op.Refresh = 1, true // keep-alive
				case 2:
					op.Mode = 2
				}
			default:
				op.Mode = c.Pick(6, 2, 2)
				op.Refresh = op.Mode == 1 && c.Intn(2) == 0
			}
			if cfg.Mode != 1 {
				if c.Intn(5) == 0 {
					op.CAS = 1 + c.Pick(4, 1, 1)
				}
				if c.Intn(10) < dedup && c.Intn(4) != 0 {
					op.Ver = []uint64{1, 2, 3, 2, 1 << 53, 1<<53 + 1}[c.Intn(6)]
					op.VE = c.Pick(4, 2, 1)
				}
			}
			if c.Intn(10) < dedup && c.Intn(2) == 0 {
				op.IK = 1 + c.Intn(2)
				op.ITTLMs = []int{0, 1000, 2000}[c.Intn(3)]
			}
			if c.Intn(8) == 0 || (prop == "C24" && c.Intn(4) == 0) {
				op.HS = []int{300, 1200}[c.Intn(2)]
			}
			return op, true
		case 1:
			op := w2mOp{K: "rm", Ch: ch, Key: key}
			if cfg.Mode != 1 && c.Intn(5) == 0 {
				op.CAS = 1 + c.Pick(4, 1, 1)
			}
			if c.Intn(10) < dedup && c.Intn(3) == 0 {
				op.IK = 1 + c.Intn(2)
				op.ITTLMs = []int{0, 1000, 2000}[c.Intn(3)]
			}
			if c.Intn(10) == 0 {
				op.HS = 300
			}
			return op, true
		case 2:
			return w2mOp{K: "clear", Ch: ch}, true
		case 3:
			return w2mOp{K: "state", Ch: ch, Asc: c.Intn(2) == 1}, true
		case 4:
			return w2mOp{K: "key", Ch: ch, Key: key}, true
		case 5:
			op := w2mOp{K: "stream", Ch: ch, Lim: []int{-1, -1, 0, 1, 2, 3}[c.Intn(6)], Rev: c.Intn(3) == 0}
			if c.Intn(2) == 0 {
				op.Since = 1
				op.Rel = []int{0, -1, -2, -3, 1, 2}[c.Intn(6)]
				op.EK = c.Pick(6, 2, 1)
			}
			return op, true
		}
		return w2mOp{K: "sleep", Ms: sleeps[c.Intn(len(sleeps))]}, true
	}
	for t := 0; t < ntasks; t++ {
		n := 2 + c.Intn(8)
		if prop == "C21" {
			n = 4 + c.Intn(8)
		}
		var ops []w2mOp
		for i := 0; i < n; i++ {
			if op, ok := genOp(); ok {
				ops = append(ops, op)
			}
		}
		sc.Tasks = append(sc.Tasks, ops)
	}
	if shortTTL && c.Intn(4) == 0 {
		sc.EHS = []int{200, 1100}[c.Intn(2)]
	}
	// final phase by the main task: read everything, optionally let every TTL elapse and
	// read again
	reads := func() {
		for ch := 0; ch < nch; ch++ {
			sc.Final = append(sc.Final, w2mOp{K: "state", Ch: ch, Asc: c.Intn(2) == 1})
			sc.Final = append(sc.Final, w2mOp{K: "stream", Ch: ch, Lim: -1})
		}
	}
	reads()
	if shortTTL && c.Intn(4) != 0 {
		sc.Final = append(sc.Final, w2mOp{K: "sleep", Ms: 9000 + 1000*c.Intn(3)})
		reads()
	}
	sc.Pages = prop == "C21" || c.Intn(3) == 0
	return sc
}

func w2mShrinks(script any) []any {
	sc := script.(*w2mScript)
	var out []any
	clone := func() *w2mScript {
		c := *sc
		c.Chans = append([]w2mChan(nil), sc.Chans...)
		c.Tasks = nil
		for _, t := range sc.Tasks {
			c.Tasks = append(c.Tasks, append([]w2mOp(nil), t...))
		}
		c.Final = append([]w2mOp(nil), sc.Final...)
		return &c
	}
	for t := range sc.Tasks {
		if len(sc.Tasks) > 1 {
			c := clone()
			c.Tasks = append(c.Tasks[:t], c.Tasks[t+1:]...)
			out = append(out, c)
		}
	}
	for t := range sc.Tasks {
		for i := range sc.Tasks[t] {
			c := clone()
			c.Tasks[t] = append(c.Tasks[t][:i], c.Tasks[t][i+1:]...)
			out = append(out, c)
		}
	}
	for i := range sc.Final {
		c := clone()
		c.Final = append(c.Final[:i], c.Final[i+1:]...)
		out = append(out, c)
	}
	if sc.EHS != 0 {
		c := clone()
		c.EHS = 0
		out = append(out, c)
	}
	if sc.Pages {
		c := clone()
		c.Pages = false
		out = append(out, c)
	}
	for t := range sc.Tasks {
		for i, op := range sc.Tasks[t] {
			simpler := op
			simpler.HS, simpler.IK, simpler.ITTLMs, simpler.Ver, simpler.VE, simpler.CAS, simpler.Score = 0, 0, 0, 0, 0, 0, 0
			if simpler != op {
				for _, f := range []func(o *w2mOp){
					func(o *w2mOp) { o.HS = 0 },
					func(o *w2mOp) { o.IK, o.ITTLMs = 0, 0 },
					func(o *w2mOp) { o.Ver, o.VE = 0, 0 },
					func(o *w2mOp) { o.CAS = 0 },
					func(o *w2mOp) { o.Score = 0 },
				} {
					o := op
					f(&o)
					if o != op {
						c := clone()
						c.Tasks[t][i] = o
						out = append(out, c)
					}
				}
			}
			if op.K == "stream" && (op.Since != 0 || op.Rev) {
				c := clone()
				c.Tasks[t][i].Since, c.Tasks[t][i].Rel, c.Tasks[t][i].EK, c.Tasks[t][i].Rev = 0, 0, 0, false
				out = append(out, c)
			}
		}
	}
	for i, ch := range sc.Chans {
		if ch.Ordered {
			c := clone()
			c.Chans[i].Ordered = false
			out = append(out, c)
		}
		if ch.MetaTTLs != 0 {
			c := clone()
			c.Chans[i].MetaTTLs = 0
			out = append(out, c)
		}
	}
	return out
}
