//go:build verif

package centrifuge

import (
	"math/rand/v2"
	"testing"

	"github.com/centrifugal/centrifuge/internal/saferand"
	simrt "github.com/centrifugal/centrifuge/internal/simrt"
	"github.com/google/uuid"
)

type seededReader struct{ r *rand.Rand }

func (s *seededReader) Read(b []byte) (int, error) {
	for i := range b {
		b[i] = byte(s.r.Uint32())
	}
	return len(b), nil
}

func init() {
	// process-global state of the package under test that must be a function of the
	// run seed (DESIGN 2.4)
	simrt.OnReset(func(seed uint64) {
		randSource = saferand.New(int64(seed>>1) + 1)
		uuid.SetRand(&seededReader{r: rand.New(rand.NewPCG(seed, 99))})
	})
}

func TestVerif(t *testing.T) { simrt.Main(t) }
