//go:build verif

package centrifuge

// W7h: the HTTP handler world. One real Node (memory engine) and the REAL
// SSEHandler.ServeHTTP / HTTPStreamHandler.ServeHTTP, each invoked by a harness task
// with a simulated http.ResponseWriter (+ http.Flusher, SetWriteDeadline) and an
// *http.Request whose context the harness cancels when "the client goes away". No
// sockets. The connect command travels in the request (POST body or cf_connect query
// parameter); afterwards driver tasks publish into channels the connection is
// subscribed to server-side, call Client.Send, Client.Disconnect and Node.Shutdown.
// Everything the handler writes is parsed by an independent client-side reference
// parser (zz_verif_w7h_parsers_test.go).
//
// Decides C32 (framing delivers each message intact) and the handler clause of C08
// (after Shutdown nothing stays / becomes connected through the real handlers).

import (
	"bytes"
	"context"
	"encoding/binary"
	"encoding/json"
	"errors"
	"fmt"
	"net/http"
	"net/url"
	"os"
	"strconv"
	"strings"
	"time"

	simrt "github.com/centrifugal/centrifuge/internal/simrt"
	"github.com/centrifugal/protocol"
	"github.com/prometheus/client_golang/prometheus"
)

// ---------------------------------------------------------------- script

type w7hPayload struct {
	ID   int    `json:"id"`
	JSON bool   `json:"json"`
	Data []byte `json:"d"` // the exact bytes handed to Publish / Send / ConnectReply.Data
}

type w7hOp struct {
	K  string      `json:"k"` // pub | send | disc | sleep | shutdown
	Ch string      `json:"ch,omitempty"`
	C  int         `json:"c,omitempty"`
	P  *w7hPayload `json:"p,omitempty"`
	Us int         `json:"us,omitempty"`
}

type w7hConn struct {
	Handler      string      `json:"handler"` // sse | hs
	Proto        string      `json:"proto"`   // json | protobuf (hs only)
	Get          bool        `json:"get,omitempty"`
	ProtoMajor   int         `json:"proto_major"`
	StartRel     int         `json:"start_rel"` // 0 absolute time, 1 when Shutdown begins, 2 after Shutdown returned
	StartUs      int         `json:"start_us"`
	CancelUs     int         `json:"cancel_us"` // <0 never; after ServeHTTP was invoked
	Subs         []string    `json:"subs"`
	ConnData     *w7hPayload `json:"conn_data,omitempty"`
	ConnectingUs int         `json:"connecting_us,omitempty"`
	WriteDelayUs int         `json:"write_delay_us,omitempty"`
	MaxInFrame   int         `json:"max_in_frame,omitempty"`
	StallWrite   int         `json:"stall_write"` // index of the Write call that stalls, <0 never
	StallUs      int         `json:"stall_us,omitempty"`
	FailWrite    int         `json:"fail_write"`          // index of the Write call that fails, <0 never
	FailKeep     int         `json:"fail_keep,omitempty"` // 0 nothing, 1 half, 2 all bytes of the failing write still reach the peer
	Rechunk      int         `json:"rechunk,omitempty"`   // seed for the second parse with arbitrary chunk boundaries
}

type w7hScript struct {
	Conns    []w7hConn `json:"conns"`
	Drivers  [][]w7hOp `json:"drivers"`
	PingMs   int       `json:"ping_ms,omitempty"`
	SettleMs int       `json:"settle_ms"`
}

func (c *w7hConn) isJSON() bool { return c.Handler == "sse" || c.Proto != "protobuf" }

func (c *w7hConn) handlerName() string {
	if c.Handler == "sse" {
		return "SSEHandler"
	}
	if c.Proto == "protobuf" {
		return "HTTPStreamHandler/protobuf"
	}
	return "HTTPStreamHandler/json"
}

// ---------------------------------------------------------------- state

type w7hMsg struct {
	Seq     int64
	Kind    string // connect pub message disconnect ping error push-other other
	Ch      string
	Data    []byte
	Code    uint32
	Reason  string
	ReplyID uint32
	Subs    []string
	Type    string // SSE event type
	Raw     []byte
}

type w7hItem struct {
	P        *w7hPayload
	Driver   int
	Op       int
	Kind     string // pub | send
	Ch       string
	C        int
	Inv, Ret int64
	Err      string
}

type w7hConnState struct {
	w    *w7hWorld
	idx  int
	spec *w7hConn

	started     bool
	invokeSeq   int64
	returned    bool
	returnedSeq int64
	cancel      context.CancelFunc
	cancelled   bool
	cancelSeq   int64
	client      *Client
	cbDiscCode  uint32

	// what reached the peer
	body       []byte
	chunks     []int // lengths of the delivered chunks
	parser     w7hParser
	msgs       []w7hMsg
	undecoded  int
	connectSeq int64
	discSeq    int64
	discCode   uint32

	status          int
	header          http.Header
	writeCalls      int
	deadline        time.Time
	broken          bool
	brokenSeq       int64
	stalling        bool
	sinceFlush      int
	discIssued      int64
	discIssuedCd    uint32
	healthyAtSettle bool
	refused         bool
	sawConnecting   bool
	inSelect        bool // the handler goroutine evaluated ctx.Done() and called no harness hook since
}

type w7hWorld struct {
	s     *simrt.Sim
	sc    *w7hScript
	prop  string
	node  *Node
	sse   *SSEHandler
	hs    *HTTPStreamHandler
	seq   int64
	conns []*w7hConnState
	items []*w7hItem

	shutdownBegan int64
	shutdownRet   int64
}

func (w *w7hWorld) next() int64 { w.seq++; return w.seq }

// ---------------------------------------------------------------- request context

// w7hCtx is the request context. Done() is evaluated by the handler goroutine every
// time it enters one of its select statements (and by HandleCommand's polls), which
// tells the harness when that goroutine is about to wait for the context.
//
// Why: Go's select picks at random (runtime-internal randomness that no seed controls)
// when several cases are ready. "Request context cancelled" + "messages pending" is such
// a situation and made runs irreproducible. The harness therefore delivers the
// cancellation only while the handler is blocked in a select with nothing else ready;
// from the moment the client is gone every Write fails, so a busy handler notices the
// dead peer through the write error first (as it does behind a real net/http server
// when the write fails before the background read notices the closed socket).
type w7hCtx struct {
	context.Context
	c *w7hConnState
}

func (x *w7hCtx) Done() <-chan struct{} {
	x.c.inSelect = true
	return x.Context.Done()
}

// goAway: the client disappears now. Writes fail from here on; the context is
// cancelled as soon as the handler waits for it.
func (c *w7hConnState) goAway(fault bool) {
	w := c.w
	s := w.s
	if c.cancelled || c.returned {
		return
	}
	c.cancelled = true
	c.cancelSeq = w.next()
	if fault {
		s.Fault("client_gone")
		s.Event("c%d client gone", c.idx)
	}
	deliver := func() bool {
		if c.returned || c.cancel == nil {
			return c.returned
		}
		if c.inSelect {
			c.cancel()
			s.Probe("ctx_cancel_delivered")
			return true
		}
		return false
	}
	if deliver() {
		return
	}
	s.Go(func() {
		d := 20 * time.Microsecond
		for total := time.Duration(0); total < 1500*time.Millisecond; total += d {
			s.Sleep(d)
			if deliver() {
				return
			}
			if d < 50*time.Millisecond {
				d *= 2
			}
		}
		// the handler never waited for its context again: cancel anyway (nothing can
		// be racing with it any more) so that a handler that is stuck is stuck for a
		// reason of its own
		s.Probe("ctx_cancel_forced")
		if !c.returned {
			c.cancel()
		}
	})
}

// ---------------------------------------------------------------- simulated ResponseWriter

type w7hRW struct{ c *w7hConnState }

var errW7hGone = errors.New("sim: peer gone")

func (rw *w7hRW) Header() http.Header {
	rw.c.inSelect = false
	if rw.c.header == nil {
		rw.c.header = http.Header{}
	}
	return rw.c.header
}

func (rw *w7hRW) WriteHeader(code int) {
	rw.c.inSelect = false
	if rw.c.status == 0 {
		rw.c.status = code
	}
}

func (rw *w7hRW) SetWriteDeadline(t time.Time) error {
	rw.c.inSelect = false
	rw.c.deadline = t
	return nil
}

func (rw *w7hRW) Flush() {
	c := rw.c
	c.inSelect = false
	if c.sinceFlush > 1 {
		c.w.s.Probe("batch_flush")
	}
	c.sinceFlush = 0
}

func (rw *w7hRW) Write(p []byte) (int, error) {
	c := rw.c
	s := c.w.s
	c.inSelect = false
	s.Pause() // the handler goroutine usually arrives here without the run token
	if c.status == 0 {
		c.status = http.StatusOK
	}
	call := c.writeCalls
	c.writeCalls++
	if c.returned {
		s.Probe("write_after_servehttp_returned")
	}
	if c.cancelled || c.broken {
		c.refused = true // a write was lost because the peer is gone: the stream may end anywhere
		return 0, errW7hGone
	}
	if call == c.spec.StallWrite && c.spec.StallUs > 0 {
		s.Fault("write_stall")
		c.stalling = true
		s.Event("c%d write %d stalls %dus", c.idx, call, c.spec.StallUs)
		s.Sleep(time.Duration(c.spec.StallUs) * time.Microsecond)
		c.stalling = false
		if c.cancelled {
			c.refused = true
			return 0, errW7hGone
		}
	}
	// the bytes leave the process now: copy after the stall, like a kernel would
	data := append([]byte(nil), p...)
	var err error
	if !c.deadline.IsZero() && time.Now().After(c.deadline) {
		s.Fault("write_deadline_exceeded")
		err = os.ErrDeadlineExceeded
	} else if call == c.spec.FailWrite {
		s.Fault("write_error")
		err = errors.New("sim: write error")
	}
	if err != nil {
		switch c.spec.FailKeep {
		case 0:
			data = nil
		case 1:
			data = data[:len(data)/2]
		}
		c.broken = true
		c.brokenSeq = c.w.next()
		s.Event("c%d write %d fails after %d/%d bytes", c.idx, call, len(data), len(p))
		c.deliver(data)
		return len(data), err
	}
	s.Event("c%d write %d len=%d", c.idx, call, len(p))
	c.deliver(data)
	return len(p), nil
}

func (c *w7hConnState) newParser(emit func(w7hRecord)) w7hParser {
	switch {
	case c.spec.Handler == "sse":
		return &w7hSSEParser{emit: emit}
	case c.spec.isJSON():
		return &w7hLineParser{emit: emit}
	default:
		return &w7hVarintParser{emit: emit}
	}
}

func (c *w7hConnState) deliver(data []byte) {
	if len(data) == 0 {
		return
	}
	c.body = append(c.body, data...)
	c.chunks = append(c.chunks, len(data))
	if c.parser == nil {
		c.parser = c.newParser(c.onRecord)
	}
	c.parser.Feed(data)
}

// onRecord: the live client decoded one event / record.
func (c *w7hConnState) onRecord(rec w7hRecord) {
	w := c.w
	s := w.s
	m, err := w7hDecode(c.spec.isJSON(), rec.Data)
	m.Seq = w.next()
	m.Type = rec.Type
	m.Raw = rec.Data
	if err != nil {
		c.undecoded++
		m.Kind = "undecodable"
		c.msgs = append(c.msgs, m)
		s.Event("c%d record undecodable len=%d", c.idx, len(rec.Data))
		cause := w.diagnose(c, rec.Data)
		s.Violate("C32", "framing", fmt.Sprintf("%s: event/record is not one complete message%s", c.spec.handlerName(), cause),
			"conn %d (%s): record %d %q does not decode as a protocol reply: %v", c.idx, c.spec.handlerName(), len(c.msgs), w7hClip(rec.Data), err)
		return
	}
	c.msgs = append(c.msgs, m)
	c.sinceFlush++
	s.Event("c%d record %s id=%d ch=%s len=%d code=%d", c.idx, m.Kind, m.ReplyID, m.Ch, len(m.Data), m.Code)
	switch m.Kind {
	case "connect":
		if c.connectSeq == 0 {
			c.connectSeq = m.Seq
		}
	case "disconnect":
		if c.discSeq == 0 {
			c.discSeq = m.Seq
			c.discCode = m.Code
		}
	case "pub", "message":
		s.Probe("data_msg_received")
	case "ping":
		s.Probe("ping_received")
	}
}

func w7hClip(b []byte) string {
	if len(b) > 160 {
		return string(b[:80]) + "…" + string(b[len(b)-60:])
	}
	return string(b)
}

// diagnose names the probable cause of a broken record from the ground truth: a payload
// addressed to this connection, not yet received, with a raw CR/LF in it, whose part
// before that byte is where the record ends.
func (w *w7hWorld) diagnose(c *w7hConnState, rec []byte) string {
	if !c.spec.isJSON() {
		return ""
	}
	var cands [][]byte
	if c.spec.ConnData != nil && c.connectSeq == 0 {
		cands = append(cands, c.spec.ConnData.Data)
	}
	for _, it := range w.items {
		if w.targets(it, c) {
			cands = append(cands, it.P.Data)
		}
	}
	for _, sep := range []struct {
		b    byte
		name string
	}{{'\r', "CR"}, {'\n', "LF"}} {
		for _, p := range cands {
			q := p
			if sep.b == '\r' {
				q = bytes.ReplaceAll(p, []byte("\n"), nil) // the JSON encoder removes raw LF
			}
			i := bytes.IndexByte(q, sep.b)
			if i < 0 {
				continue
			}
			head := q[:i]
			if i == 0 {
				head = []byte(`"data":`) // the payload starts with the separator
			}
			if bytes.HasSuffix(rec, head) {
				return " (split at a raw " + sep.name + " inside a JSON payload)"
			}
		}
	}
	return ""
}

// targets: is item it addressed to connection c (by subscription or by Send)?
func (w *w7hWorld) targets(it *w7hItem, c *w7hConnState) bool {
	if it.Kind == "send" {
		return it.C == c.idx
	}
	for _, ch := range c.spec.Subs {
		if ch == it.Ch {
			return true
		}
	}
	return false
}

// ---------------------------------------------------------------- node + handlers

func (w *w7hWorld) setup() error {
	node, err := New(Config{
		LogLevel: LogLevelNone,
		Metrics:  MetricsConfig{RegistererGatherer: prometheus.NewRegistry()},
	})
	if err != nil {
		return err
	}
	w.node = node
	node.OnConnecting(func(ctx context.Context, e ConnectEvent) (ConnectReply, error) {
		idx, err := strconv.Atoi(e.Token)
		if err != nil || idx < 0 || idx >= len(w.conns) {
			return ConnectReply{}, DisconnectInvalidToken
		}
		c := w.conns[idx]
		c.inSelect = false
		if c.spec.ConnectingUs > 0 {
			w.s.Sleep(time.Duration(c.spec.ConnectingUs) * time.Microsecond)
		}
		r := ConnectReply{Credentials: &Credentials{UserID: "u" + e.Token}}
		if len(c.spec.Subs) > 0 {
			r.Subscriptions = map[string]SubscribeOptions{}
			for _, ch := range c.spec.Subs {
				r.Subscriptions[ch] = SubscribeOptions{}
			}
		}
		if c.spec.ConnData != nil {
			r.Data = c.spec.ConnData.Data
		}
		r.WriteDelay = time.Duration(c.spec.WriteDelayUs) * time.Microsecond
		r.MaxMessagesInFrame = c.spec.MaxInFrame
		c.sawConnecting = true
		w.s.Event("c%d connecting", idx)
		return r, nil
	})
	node.OnConnect(func(cl *Client) {
		idx, _ := strconv.Atoi(strings.TrimPrefix(cl.UserID(), "u"))
		if idx < 0 || idx >= len(w.conns) {
			return
		}
		c := w.conns[idx]
		c.inSelect = false
		c.client = cl
		w.s.Event("c%d on_connect", idx)
		cl.OnDisconnect(func(e DisconnectEvent) {
			c.cbDiscCode = e.Code
			w.s.Event("c%d on_disconnect code=%d", idx, e.Code)
		})
	})
	pp := PingPongConfig{}
	if w.sc.PingMs > 0 {
		pp = PingPongConfig{PingInterval: time.Duration(w.sc.PingMs) * time.Millisecond, PongTimeout: -1}
	}
	w.sse = NewSSEHandler(node, SSEConfig{PingPongConfig: pp})
	w.hs = NewHTTPStreamHandler(node, HTTPStreamConfig{PingPongConfig: pp})
	return node.Run()
}

// serve is one HTTP request: it runs the real ServeHTTP until it returns.
func (w *w7hWorld) serve(c *w7hConnState) {
	s := w.s
	base, cancel := context.WithCancel(context.Background())
	c.cancel = cancel
	ctx := &w7hCtx{Context: base, c: c}
	cmd := &protocol.Command{Id: 1, Connect: &protocol.ConnectRequest{Token: strconv.Itoa(c.idx), Name: "w7h"}}
	var req *http.Request
	var err error
	switch {
	case c.spec.Handler == "sse" && c.spec.Get:
		b, _ := json.Marshal(cmd)
		req, err = http.NewRequestWithContext(ctx, http.MethodGet, "http://sim/connection/sse?"+connectUrlParam+"="+url.QueryEscape(string(b)), nil)
		s.Probe("sse_get")
	case c.spec.isJSON():
		b, _ := json.Marshal(cmd)
		req, err = http.NewRequestWithContext(ctx, http.MethodPost, "http://sim/connection/"+c.spec.Handler, bytes.NewReader(b))
	default:
		b, _ := protocol.NewProtobufCommandEncoder().Encode(cmd)
		req, err = http.NewRequestWithContext(ctx, http.MethodPost, "http://sim/connection/hs", bytes.NewReader(b))
		req.Header.Set("Content-Type", "application/octet-stream")
	}
	if err != nil {
		s.Violate(w.prop, "harness", "cannot build request", "%v", err)
		return
	}
	if c.spec.ProtoMajor == 2 {
		req.ProtoMajor, req.ProtoMinor, req.Proto = 2, 0, "HTTP/2.0"
	}
	if c.spec.CancelUs >= 0 {
		s.Go(func() {
			s.Sleep(time.Duration(c.spec.CancelUs) * time.Microsecond)
			c.goAway(true)
		})
	}
	s.Pause()
	c.started = true
	c.invokeSeq = w.next()
	s.Event("c%d ServeHTTP %s", c.idx, c.spec.handlerName())
	rw := &w7hRW{c: c}
	if c.spec.Handler == "sse" {
		w.sse.ServeHTTP(rw, req)
	} else {
		w.hs.ServeHTTP(rw, req)
	}
	s.Pause()
	c.returned = true
	c.returnedSeq = w.next()
	s.Event("c%d ServeHTTP returned status=%d", c.idx, c.status)
}

// shutdownSig: signature of a Shutdown that did not complete, qualified by what the
// connections were doing.
func (w *w7hWorld) shutdownSig() string {
	for _, c := range w.conns {
		if c.started && !c.returned && c.sawConnecting && c.client == nil {
			return "Node.Shutdown did not complete within its context deadline (a connection is stuck inside its connect command)"
		}
	}
	return "Node.Shutdown did not complete within its context deadline (no connection is inside a connect command)"
}

func (w *w7hWorld) spawnConns(rel int) {
	for _, c := range w.conns {
		if c.spec.StartRel != rel {
			continue
		}
		c := c
		w.s.Go(func() {
			if c.spec.StartUs > 0 {
				w.s.Sleep(time.Duration(c.spec.StartUs) * time.Microsecond)
			}
			w.serve(c)
		})
	}
}

// ---------------------------------------------------------------- drivers

func (w *w7hWorld) accepts(ch string, p *w7hPayload) bool {
	if p.JSON {
		return true
	}
	// binary payloads only go where no JSON connection listens
	for _, c := range w.conns {
		if !c.spec.isJSON() {
			continue
		}
		for _, s := range c.spec.Subs {
			if s == ch {
				return false
			}
		}
	}
	return true
}

func (w *w7hWorld) runDriver(d int, ops []w7hOp) {
	s := w.s
	for k, op := range ops {
		switch op.K {
		case "sleep":
			s.Sleep(time.Duration(op.Us) * time.Microsecond)
		case "pub":
			if op.P == nil || !w.accepts(op.Ch, op.P) {
				continue
			}
			s.Pause()
			it := &w7hItem{P: op.P, Driver: d, Op: k, Kind: "pub", Ch: op.Ch, Inv: w.next()}
			w.items = append(w.items, it)
			w.payloadProbes(op.P)
			for _, c := range w.conns {
				if c.stalling && w.targets(it, c) {
					s.Probe("publish_while_write_stalled")
				}
			}
			s.Event("d%d pub %s p%d len=%d", d, op.Ch, op.P.ID, len(op.P.Data))
			_, err := w.node.Publish(op.Ch, op.P.Data)
			if err != nil {
				it.Err = err.Error()
			}
			it.Ret = w.next()
		case "send":
			if op.P == nil || op.C < 0 || op.C >= len(w.conns) {
				continue
			}
			c := w.conns[op.C]
			if c.client == nil || (!op.P.JSON && c.spec.isJSON()) {
				continue
			}
			s.Pause()
			it := &w7hItem{P: op.P, Driver: d, Op: k, Kind: "send", C: op.C, Inv: w.next()}
			w.items = append(w.items, it)
			w.payloadProbes(op.P)
			if c.stalling {
				s.Probe("publish_while_write_stalled")
			}
			s.Event("d%d send c%d p%d len=%d", d, op.C, op.P.ID, len(op.P.Data))
			if err := c.client.Send(op.P.Data); err != nil {
				it.Err = err.Error()
			}
			it.Ret = w.next()
		case "disc":
			if op.C < 0 || op.C >= len(w.conns) {
				continue
			}
			c := w.conns[op.C]
			if c.client == nil || c.discIssued != 0 {
				continue
			}
			s.Pause()
			c.discIssued = w.next()
			c.discIssuedCd = uint32(4100 + op.C)
			s.Fault("server_disconnect")
			s.Event("d%d disc c%d", d, op.C)
			c.client.Disconnect(Disconnect{Code: c.discIssuedCd, Reason: "w7h bye"})
		case "ndisc":
			if op.C < 0 || op.C >= len(w.conns) {
				continue
			}
			c := w.conns[op.C]
			if c.discIssued != 0 {
				continue
			}
			s.Pause()
			c.discIssued = w.next()
			c.discIssuedCd = DisconnectForceNoReconnect.Code
			s.Fault("node_disconnect")
			s.Event("d%d ndisc c%d", d, op.C)
			_ = w.node.Disconnect("u" + strconv.Itoa(op.C))
		case "shutdown":
			if w.shutdownBegan != 0 {
				continue
			}
			w.spawnConns(1)
			s.Pause()
			w.shutdownBegan = w.next()
			s.Event("shutdown begins")
			ctx, cancel := context.WithTimeout(context.Background(), 30*time.Second)
			err := w.node.Shutdown(ctx)
			cancel()
			s.Pause()
			w.shutdownRet = w.next()
			s.Event("shutdown returned err=%v", err)
			if err != nil {
				s.Violate("C08", "shutdown-incomplete", w.shutdownSig(),
					"Shutdown(ctx 30s) returned %v at t=%v; hub.NumClients()=%d", err, s.Now(), w.node.hub.NumClients())
			}
			w.spawnConns(2)
		}
	}
}

func (w *w7hWorld) payloadProbes(p *w7hPayload) {
	s := w.s
	if !p.JSON {
		s.Probe("payload_binary")
		return
	}
	if bytes.Contains(p.Data, []byte("\r\n")) {
		s.Probe("payload_raw_crlf")
	}
	if bytes.IndexByte(p.Data, '\r') >= 0 {
		s.Probe("payload_raw_cr")
	}
	if bytes.IndexByte(p.Data, '\n') >= 0 {
		s.Probe("payload_raw_lf")
	}
	if bytes.Contains(p.Data, []byte(`\n`)) || bytes.Contains(p.Data, []byte(`\r`)) {
		s.Probe("payload_escaped_newline")
	}
	if len(p.Data) > 4096 {
		s.Probe("payload_long")
	}
}

// ---------------------------------------------------------------- run

func w7hRun(s *simrt.Sim, script any, prop string) {
	sc := script.(*w7hScript)
	w := &w7hWorld{s: s, sc: sc, prop: prop}
	for i := range sc.Conns {
		w.conns = append(w.conns, &w7hConnState{w: w, idx: i, spec: &sc.Conns[i]})
	}
	if err := w.setup(); err != nil {
		s.Violate(prop, "harness", "node setup failed", "%v", err)
		return
	}
	w.spawnConns(0)
	done := make(chan struct{}, len(sc.Drivers)+1)
	for d, ops := range sc.Drivers {
		d, ops := d, ops
		s.Go(func() { defer func() { done <- struct{}{} }(); w.runDriver(d, ops) })
	}
	for range sc.Drivers {
		<-done
	}
	s.Pause()
	settle := time.Duration(sc.SettleMs) * time.Millisecond
	if settle <= 0 {
		settle = 3 * time.Second
	}
	s.Sleep(settle)
	if w.shutdownRet != 0 {
		w.checkAfterShutdown()
	}
	w.checkDelivered()
	// the clients go away, the node stops
	for _, c := range w.conns {
		if c.started {
			c.goAway(false)
		}
	}
	s.Sleep(2 * time.Second)
	if w.shutdownBegan == 0 {
		ctx, cancel := context.WithTimeout(context.Background(), 30*time.Second)
		w.shutdownBegan = w.next()
		err := w.node.Shutdown(ctx)
		cancel()
		s.Pause()
		w.shutdownRet = w.next()
		if err != nil {
			s.Violate("C08", "shutdown-incomplete", w.shutdownSig(),
				"final Shutdown(ctx 30s) returned %v at t=%v; hub.NumClients()=%d", err, s.Now(), w.node.hub.NumClients())
		}
	}
	s.Sleep(2 * time.Second)
	for _, c := range w.conns {
		if c.started && !c.returned {
			s.Probe("servehttp_never_returned")
			where := "before OnConnecting"
			switch {
			case c.client != nil:
				where = "after OnConnect"
			case c.sawConnecting:
				where = "inside the connect command: OnConnecting returned, OnConnect never ran"
			}
			s.Violate("C08", "handler-stuck", c.spec.handlerName()+": ServeHTTP never returns although the client is gone and the node is shut down ("+where+")",
				"conn %d: ServeHTTP invoked at seq %d still running %v after the client went away (seq %d) and Shutdown was called; writes=%d, connect reply seen=%v, disconnect issued=%v, waiting in select=%v", c.idx, c.invokeSeq, 2*time.Second, c.cancelSeq, c.writeCalls, c.connectSeq != 0, c.discIssued != 0, c.inSelect)
		}
		w.checkStream(c)
	}
}

// ---------------------------------------------------------------- generator

type w7hGenState struct {
	c        *simrt.Choice
	nextID   int
	thorough bool
}

var w7hWS = []string{"", " ", "\n", "\r", "\r\n", "\t", "  ", "\n\n", "\r\r", " \r\n\t"}

func (g *w7hGenState) ws(class int) string {
	c := g.c
	switch class {
	case 0:
		return ""
	case 1: // LF flavour
		return []string{"", "\n", "\n", " ", "\n\n"}[c.Intn(5)]
	case 2: // CR flavour
		return []string{"", "\r", "\r", " ", "\r\r"}[c.Intn(5)]
	case 3: // CRLF flavour
		return []string{"", "\r\n", "\r\n", "\t", " \r\n\t"}[c.Intn(5)]
	case 4:
		return []string{"", " ", "\t", "  "}[c.Intn(4)]
	}
	return w7hWS[c.Intn(len(w7hWS))]
}

var w7hStrings = []string{
	`"plain"`,
	`"line1\nline2"`,
	`"cr\rlf\r\n end\\n"`,
	`"data: x"`,
	`":comment"`,
	`"event: boom\n\ndata: {}"`,
	`"é ü 漢字 😀"`,
	"\"ls ps nel\u0085\"",
	`"\u0000\u001f "`,
	`"quote \" backslash \\ slash \/"`,
	`""`,
}

func (g *w7hGenState) jsonPayload() *w7hPayload {
	c := g.c
	g.nextID++
	id := g.nextID
	ids := strconv.Itoa(id)
	class := c.Pick(3, 2, 3, 2, 1, 2)
	str := w7hStrings[0]
	if c.Intn(2) == 1 {
		str = w7hStrings[c.Intn(len(w7hStrings))]
	}
	var toks []string
	switch c.Pick(6, 1, 1, 1) {
	case 0:
		toks = []string{"{", `"i"`, ":", ids, ",", `"v"`, ":", str, ",", `"a"`, ":", "[", "1", ",", "null", ",", "{", "}", "]", "}"}
	case 1:
		toks = []string{"[", ids, ",", str, "]"}
	case 2:
		toks = []string{`"s` + ids + `"`}
	case 3:
		toks = []string{ids + "000" + ids}
	}
	if c.Intn(6) == 5 && toks[0] == "{" {
		n := []int{300, 5000, 20000, 70000}[c.Intn(4)]
		if !g.thorough && n > 20000 {
			n = 20000
		}
		long := `"` + strings.Repeat("0123456789abcdef", n/16) + `"`
		if c.Intn(2) == 1 {
			// sizes around buffer boundaries, byte by byte: with the envelope of the reply
			// the encoded message lands on and next to 4096 / 8192 / 16384
			base := []int{4096, 4096, 8192, 16384}[c.Intn(4)]
			m := base - 96 + c.Intn(104)
			long = `"` + strings.Repeat("0123456789abcdef", m/16) + "0123456789abcdef"[:m%16] + `"`
		}
		toks = []string{"{", `"i"`, ":", ids, ",", `"long"`, ":", long, "}"}
	}
	var b strings.Builder
	b.WriteString(g.ws(class)) // leading whitespace
	for i, t := range toks {
		b.WriteString(t)
		if i < len(toks)-1 {
			b.WriteString(g.ws(class))
		}
	}
	b.WriteString(g.ws(class)) // trailing whitespace
	return &w7hPayload{ID: id, JSON: true, Data: []byte(b.String())}
}

func (g *w7hGenState) binPayload() *w7hPayload {
	c := g.c
	g.nextID++
	id := g.nextID
	n := []int{0, 1, 6, 100, 117, 118, 119, 120, 121, 122, 123, 124, 125, 126, 127, 128, 129, 130, 300, 16350, 16370, 16384}[c.Intn(22)]
	data := make([]byte, 4+n)
	binary.BigEndian.PutUint32(data, uint32(id))
	fill := c.Intn(6)
	x := uint32(id)*2654435761 + 12345
	for i := 4; i < len(data); i++ {
		switch fill {
		case 0:
			x = x*1664525 + 1013904223
			data[i] = byte(x >> 24)
		case 1:
			data[i] = '\n'
		case 2:
			data[i] = '\r'
		case 3:
			data[i] = 0x80
		case 4:
			data[i] = 0
		case 5:
			data[i] = []byte("data: \r\n\n\xff\x7f")[i%11]
		}
	}
	return &w7hPayload{ID: id, Data: data}
}

func w7hGen(c *simrt.Choice, prop, tier string) any {
	g := &w7hGenState{c: c, thorough: tier == "thorough"}
	sc := &w7hScript{SettleMs: 3000}
	focus08 := prop == "C08"
	if c.Intn(5) == 4 {
		sc.PingMs = []int{300, 1000}[c.Intn(2)]
	}
	nconn := 1 + c.Intn(3)
	jch := []string{"j0", "j1"}
	anyBin := false
	for i := 0; i < nconn; i++ {
		cn := w7hConn{ProtoMajor: 1, CancelUs: -1, StallWrite: -1, FailWrite: -1}
		switch c.Pick(4, 3, 3) {
		case 0:
			cn.Handler, cn.Proto = "sse", "json"
			cn.Get = c.Intn(3) == 2
		case 1:
			cn.Handler, cn.Proto = "hs", "json"
		case 2:
			cn.Handler, cn.Proto = "hs", "protobuf"
		}
		if c.Intn(4) == 3 {
			cn.ProtoMajor = 2
		}
		switch c.Intn(3) {
		case 0:
			cn.Subs = []string{jch[0]}
		case 1:
			cn.Subs = []string{jch[0], jch[1]}
		case 2:
			cn.Subs = []string{jch[1]}
		}
		if cn.Proto == "protobuf" && c.Intn(3) > 0 {
			cn.Subs = append(cn.Subs, "b0")
			anyBin = true
		}
		if c.Intn(3) == 2 {
			if cn.Proto == "protobuf" && c.Intn(2) == 1 {
				cn.ConnData = g.binPayload()
			} else {
				cn.ConnData = g.jsonPayload()
			}
		}
		cn.StartUs = []int{0, 0, 100, 1000, 5000}[c.Intn(5)]
		if c.Intn(6) == 5 {
			cn.CancelUs = []int{0, 50, 1000, 20000, 400000}[c.Intn(5)]
		}
		cn.ConnectingUs = []int{0, 0, 0, 100, 2000}[c.Intn(5)]
		cn.WriteDelayUs = []int{0, 0, 500, 5000}[c.Intn(4)]
		cn.MaxInFrame = []int{0, 0, 1, 2}[c.Intn(4)]
		if c.Intn(2) == 1 {
			cn.StallWrite = c.Intn(6)
			cn.StallUs = []int{200, 5000, 300000, 1500000}[c.Pick(3, 3, 3, 1)]
		}
		if c.Intn(8) == 7 {
			cn.FailWrite = c.Intn(8)
			cn.FailKeep = c.Intn(3)
		}
		if c.Intn(2) == 1 {
			cn.Rechunk = 1 + c.Intn(1000)
		}
		if focus08 {
			cn.StartRel = c.Pick(3, 3, 3)
			if cn.StartRel > 0 {
				cn.StartUs = []int{0, 0, 1, 100, 2000}[c.Intn(5)]
			}
		}
		sc.Conns = append(sc.Conns, cn)
	}
	ndrv := 1 + c.Intn(2)
	maxOps := 8
	if tier == "thorough" {
		maxOps = 20
	}
	if focus08 {
		ndrv, maxOps = 1, 4
	}
	pickCh := func() (string, bool) {
		if anyBin && c.Intn(4) == 3 {
			return "b0", true
		}
		return jch[c.Intn(2)], false
	}
	pub := func() w7hOp {
		ch, bin := pickCh()
		if bin && c.Intn(4) > 0 {
			return w7hOp{K: "pub", Ch: ch, P: g.binPayload()}
		}
		return w7hOp{K: "pub", Ch: ch, P: g.jsonPayload()}
	}
	for d := 0; d < ndrv; d++ {
		var ops []w7hOp
		if c.Intn(4) > 0 {
			ops = append(ops, w7hOp{K: "sleep", Us: []int{2000, 10000, 100}[c.Intn(3)]})
		}
		n := 1 + c.Intn(maxOps)
		for i := 0; i < n; i++ {
			switch c.Pick(6, 3, 2, 3, 1) {
			case 0:
				ops = append(ops, pub())
			case 1: // burst
				k := 2 + c.Intn(4)
				for j := 0; j < k; j++ {
					ops = append(ops, pub())
				}
			case 2:
				ci := c.Intn(nconn)
				if sc.Conns[ci].isJSON() || c.Intn(2) == 0 {
					ops = append(ops, w7hOp{K: "send", C: ci, P: g.jsonPayload()})
				} else {
					ops = append(ops, w7hOp{K: "send", C: ci, P: g.binPayload()})
				}
			case 3:
				ops = append(ops, w7hOp{K: "sleep", Us: []int{1, 100, 2000, 50000, 400000}[c.Intn(5)]})
			case 4:
				ops = append(ops, w7hOp{K: []string{"disc", "ndisc"}[c.Intn(2)], C: c.Intn(nconn)})
			}
		}
		sc.Drivers = append(sc.Drivers, ops)
	}
	if focus08 || c.Intn(8) == 7 {
		at := c.Intn(len(sc.Drivers[0]) + 1)
		ops := append([]w7hOp(nil), sc.Drivers[0][:at]...)
		ops = append(ops, w7hOp{K: "shutdown"})
		if focus08 {
			ops = append(ops, w7hOp{K: "sleep", Us: []int{1, 100, 5000}[c.Intn(3)]})
		}
		ops = append(ops, sc.Drivers[0][at:]...)
		sc.Drivers[0] = ops
	}
	return sc
}

// ---------------------------------------------------------------- shrinking

func w7hClone(sc *w7hScript) *w7hScript {
	b, _ := json.Marshal(sc)
	var c w7hScript
	_ = json.Unmarshal(b, &c)
	return &c
}

func w7hSimplerPayloads(p *w7hPayload) [][]byte {
	var out [][]byte
	add := func(b []byte) {
		if bytes.Equal(b, p.Data) {
			return
		}
		if p.JSON && !json.Valid(b) {
			return
		}
		out = append(out, b)
	}
	if p.JSON {
		add([]byte(`{"i":` + strconv.Itoa(p.ID) + `}`))
		for _, rm := range []string{"\n", "\r", "\t", " "} {
			add(bytes.ReplaceAll(p.Data, []byte(rm), nil))
		}
		if len(p.Data) > 600 {
			// shorten long runs inside strings
			add(bytes.ReplaceAll(p.Data, []byte("0123456789abcdef0123456789abcdef"), []byte("0123456789abcdef")))
		}
		// keep only the first whitespace byte of each kind
		for _, keep := range []byte{'\r', '\n'} {
			first := bytes.IndexByte(p.Data, keep)
			if first >= 0 && bytes.Count(p.Data, []byte{keep}) > 1 {
				b := append([]byte(nil), p.Data[:first+1]...)
				b = append(b, bytes.ReplaceAll(p.Data[first+1:], []byte{keep}, nil)...)
				add(b)
			}
		}
	} else {
		if len(p.Data) > 4 {
			add(append([]byte(nil), p.Data[:4]...))
			add(append([]byte(nil), p.Data[:4+(len(p.Data)-4)/2]...))
		}
	}
	return out
}

func w7hShrinks(script any) []any {
	sc := script.(*w7hScript)
	var out []any
	// drop a connection
	for i := range sc.Conns {
		if len(sc.Conns) < 2 {
			break
		}
		c := w7hClone(sc)
		c.Conns = append(c.Conns[:i], c.Conns[i+1:]...)
		for d := range c.Drivers {
			var ops []w7hOp
			for _, op := range c.Drivers[d] {
				if op.K == "send" || op.K == "disc" || op.K == "ndisc" {
					if op.C == i {
						continue
					}
					if op.C > i {
						op.C--
					}
				}
				ops = append(ops, op)
			}
			c.Drivers[d] = ops
		}
		out = append(out, c)
	}
	// drop a driver
	for d := range sc.Drivers {
		if len(sc.Drivers) < 2 {
			break
		}
		c := w7hClone(sc)
		c.Drivers = append(c.Drivers[:d], c.Drivers[d+1:]...)
		out = append(out, c)
	}
	// drop an op
	for d := range sc.Drivers {
		for k := range sc.Drivers[d] {
			c := w7hClone(sc)
			c.Drivers[d] = append(c.Drivers[d][:k], c.Drivers[d][k+1:]...)
			out = append(out, c)
		}
	}
	// simplify connections
	for i := range sc.Conns {
		cn := sc.Conns[i]
		mut := func(f func(*w7hConn)) {
			c := w7hClone(sc)
			f(&c.Conns[i])
			out = append(out, c)
		}
		if cn.StallWrite >= 0 {
			mut(func(x *w7hConn) { x.StallWrite, x.StallUs = -1, 0 })
		}
		if cn.FailWrite >= 0 {
			mut(func(x *w7hConn) { x.FailWrite = -1 })
		}
		if cn.CancelUs >= 0 {
			mut(func(x *w7hConn) { x.CancelUs = -1 })
		}
		if cn.ConnData != nil {
			mut(func(x *w7hConn) { x.ConnData = nil })
			for _, b := range w7hSimplerPayloads(cn.ConnData) {
				b := b
				mut(func(x *w7hConn) { x.ConnData.Data = b })
			}
		}
		if cn.WriteDelayUs > 0 {
			mut(func(x *w7hConn) { x.WriteDelayUs = 0 })
		}
		if cn.MaxInFrame > 0 {
			mut(func(x *w7hConn) { x.MaxInFrame = 0 })
		}
		if cn.ConnectingUs > 0 {
			mut(func(x *w7hConn) { x.ConnectingUs = 0 })
		}
		if cn.StartUs > 0 {
			mut(func(x *w7hConn) { x.StartUs = 0 })
		}
		if cn.Rechunk > 0 {
			mut(func(x *w7hConn) { x.Rechunk = 0 })
		}
		if cn.Get {
			mut(func(x *w7hConn) { x.Get = false })
		}
		if cn.ProtoMajor == 2 {
			mut(func(x *w7hConn) { x.ProtoMajor = 1 })
		}
		if len(cn.Subs) > 1 {
			for j := range cn.Subs {
				j := j
				mut(func(x *w7hConn) { x.Subs = append(append([]string(nil), x.Subs[:j]...), x.Subs[j+1:]...) })
			}
		}
	}
	// simplify payloads
	for d := range sc.Drivers {
		for k, op := range sc.Drivers[d] {
			if op.P == nil {
				continue
			}
			for _, b := range w7hSimplerPayloads(op.P) {
				c := w7hClone(sc)
				c.Drivers[d][k].P.Data = b
				out = append(out, c)
			}
		}
	}
	if sc.PingMs > 0 {
		c := w7hClone(sc)
		c.PingMs = 0
		out = append(out, c)
	}
	return out
}

func init() {
	simrt.Register(&simrt.World{
		Name:      "w7h",
		Gen:       w7hGen,
		NewScript: func() any { return &w7hScript{} },
		Run:       w7hRun,
		Shrinks:   w7hShrinks,
		Nontrivial: func(prop string, r *simrt.Result) bool {
			return r.Probes["nontrivial:"+prop] > 0
		},
	})
	simrt.Claim("C32", "w7h", 10)
	simrt.Claim("C08", "w7h", 3)
}
