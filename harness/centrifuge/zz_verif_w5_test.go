//go:build verif

package centrifuge

// W5: the cluster world. Two or three real Nodes in one bubble, connected by a
// simulated control-message network (Controller seam: delay, drop, duplicate) and a
// shared stream history (one real MemoryBroker whose PUB/SUB deliveries fan out to
// every node). Decides C27 (node-level operations act the same locally and remotely),
// C28 (Unsubscribe with empty channel) and C41 (Survey).

import (
	"context"
	"encoding/json"
	"fmt"
	"sort"
	"strings"
	"time"

	"github.com/centrifugal/centrifuge/internal/controlproto"
	simrt "github.com/centrifugal/centrifuge/internal/simrt"
)

// ---------------------------------------------------------------- network seams

type w5Net struct {
	w        *w5World
	handlers []ControlEventHandler // by node index
	uids     []string
	dec      *controlproto.ProtobufDecoder
}

type w5Controller struct {
	net *w5Net
	idx int
}

func (c *w5Controller) RegisterControlEventHandler(h ControlEventHandler) error {
	c.net.handlers[c.idx] = h
	return nil
}

func (c *w5Controller) PublishControl(data []byte, nodeID, _ string) error {
	net := c.net
	s := net.w.s
	cfg := net.w.sc
	isSurveyResp, isSurveyReq := false, false
	if cmd, err := net.dec.DecodeCommand(data); err == nil {
		isSurveyResp = cmd.SurveyResponse != nil
		isSurveyReq = cmd.SurveyRequest != nil
	}
	for i := range net.handlers {
		if nodeID != "" && net.uids[i] != nodeID {
			continue
		}
		if i == c.idx {
			continue // a node ignores its own control messages
		}
		h := net.handlers[i]
		if h == nil {
			continue
		}
		copies := 1
		delay := time.Duration(0)
		if isSurveyResp || isSurveyReq {
			if s.Chance(cfg.DropPm) {
				s.Fault("control_drop")
				if isSurveyResp {
					net.w.respDropped++
				} else {
					net.w.reqDropped++
				}
				continue
			}
			if s.Chance(cfg.DupPm) {
				s.Fault("control_dup")
				copies = 2 + s.Intn(3)
			}
			if s.Chance(cfg.DelayPm) {
				s.Fault("control_delay")
				delay = time.Duration(1+s.Intn(400)) * time.Millisecond
			}
		}
		buf := append([]byte(nil), data...)
		for k := 0; k < copies; k++ {
			d := delay
			if k > 0 && cfg.DelayPm > 0 {
				d += time.Duration(s.Intn(50)) * time.Millisecond
			}
			s.Go(func() {
				if d > 0 {
					s.Sleep(d)
				}
				_ = h.HandleControl(buf)
			})
		}
	}
	return nil
}

type w5Shared struct {
	inner *MemoryBroker
	nodes []BrokerEventHandler
}

func (sh *w5Shared) HandlePublication(ch string, pub *Publication, sp StreamPosition, delta bool, prev *Publication) error {
	for _, n := range sh.nodes {
		_ = n.HandlePublication(ch, pub, sp, delta, prev)
	}
	return nil
}
func (sh *w5Shared) HandleJoin(ch string, info *ClientInfo) error {
	for _, n := range sh.nodes {
		_ = n.HandleJoin(ch, info)
	}
	return nil
}
func (sh *w5Shared) HandleLeave(ch string, info *ClientInfo) error {
	for _, n := range sh.nodes {
		_ = n.HandleLeave(ch, info)
	}
	return nil
}

type w5Broker struct{ sh *w5Shared }

func (b *w5Broker) RegisterBrokerEventHandler(h BrokerEventHandler) error {
	b.sh.nodes = append(b.sh.nodes, h)
	if len(b.sh.nodes) == 1 {
		return b.sh.inner.RegisterBrokerEventHandler(b.sh)
	}
	return nil
}
func (b *w5Broker) Subscribe(ch ...string) error   { return nil }
func (b *w5Broker) Unsubscribe(ch ...string) error { return nil }
func (b *w5Broker) Publish(ch string, data []byte, opts PublishOptions) (PublishResult, error) {
	return b.sh.inner.Publish(ch, data, opts)
}
func (b *w5Broker) PublishJoin(ch string, info *ClientInfo) error {
	return b.sh.inner.PublishJoin(ch, info)
}
func (b *w5Broker) PublishLeave(ch string, info *ClientInfo) error {
	return b.sh.inner.PublishLeave(ch, info)
}
func (b *w5Broker) History(ch string, opts HistoryOptions) ([]*Publication, StreamPosition, error) {
	return b.sh.inner.History(ch, opts)
}
func (b *w5Broker) RemoveHistory(ch string) error { return b.sh.inner.RemoveHistory(ch) }

// ---------------------------------------------------------------- script

type w5Survey struct {
	From      int `json:"from"`
	To        int `json:"to"` // -1 = all nodes
	AtUs      int `json:"at_us"`
	TimeoutMs int `json:"timeout_ms"`
}

type w5Script struct {
	Mode   string `json:"mode"` // "op" (C27/C28) or "survey" (C41)
	Nodes  int    `json:"nodes"`
	Proto  string `json:"proto"`
	Op     string `json:"op"`      // subscribe unsubscribe disconnect refresh unsubscribe_all
	Opt    string `json:"opt"`     // focal option
	Target string `json:"target"`  // user client labels allusers
	LF     int    `json:"lf,omitempty"` // label filter shape for target "labels": 0 eq, 1 in, 2 nin, 3 and(neq,ex), 4 or(eq,eq), 5 not(eq)
	PreSub int    `json:"pre_sub"` // channels both connections are subscribed to before the op
	ExpiredSub bool `json:"expired_sub,omitempty"` // C28: one more subscription, already past its ExpireAt at the call
	Hist   int    `json:"history"` // publications in the channel history before the op
	CSR    bool   `json:"client_side_refresh"`
	// survey mode
	Surveys   []w5Survey `json:"surveys,omitempty"`
	HandlerUs []int      `json:"handler_delay_us,omitempty"` // per node: survey handler answers after this delay
	DropPm    int        `json:"drop_pm"`
	DupPm     int        `json:"dup_pm"`
	DelayPm   int        `json:"delay_pm"`
}

var w5SubOpts = []string{"none", "ExpireAt", "ChannelInfo", "EmitPresence", "EmitJoinLeave", "PushJoinLeave", "Positioning", "Recovery", "RecoverSince", "RecoveryModeCache", "AutoCacheRecover", "SubscribeData", "Source", "HistoryMetaTTL"}
var w5UnsubOpts = []string{"none", "CustomUnsubscribe"}
var w5DiscOpts = []string{"none", "CustomDisconnect", "Whitelist"}
var w5RefreshOpts = []string{"none", "Expired", "ExpireAt", "ExpireAtPast", "Info"}

func w5Gen(c *simrt.Choice, prop, tier string) any {
	sc := &w5Script{Nodes: 2 + c.Intn(2), Proto: []string{"json", "protobuf"}[c.Intn(2)]}
	if prop == "C41" {
		sc.Mode = "survey"
		n := 1 + c.Intn(3)
		for i := 0; i < n; i++ {
			sv := w5Survey{From: c.Intn(sc.Nodes), To: -1, AtUs: []int{0, 0, 1000, 300000}[c.Intn(4)], TimeoutMs: []int{1000, 3000, 0}[c.Intn(3)]}
			if c.Intn(4) == 0 {
				sv.To = c.Intn(sc.Nodes)
			}
			sc.Surveys = append(sc.Surveys, sv)
		}
		for i := 0; i < sc.Nodes; i++ {
			sc.HandlerUs = append(sc.HandlerUs, []int{0, 0, 100, 50000, 2000000}[c.Intn(5)])
		}
		switch c.Intn(4) {
		case 1:
			sc.DupPm = 500
		case 2:
			sc.DelayPm, sc.DupPm = 500, 300
		case 3:
			sc.DropPm, sc.DupPm, sc.DelayPm = 200, 200, 300
		}
		return sc
	}
	sc.Mode = "op"
	if prop == "C28" {
		sc.Op = "unsubscribe_all"
		sc.PreSub = c.Intn(4)
		sc.Opt = w5UnsubOpts[c.Intn(len(w5UnsubOpts))]
		sc.ExpiredSub = c.Intn(3) == 0
	} else {
		// the (call, option, targeting) space is small: enumerate it by run index so that
		// even a short batch covers every combination; everything else is sampled
		type combo struct{ op, opt string }
		var combos []combo
		for _, o := range w5SubOpts {
			combos = append(combos, combo{"subscribe", o})
		}
		for _, o := range w5UnsubOpts {
			combos = append(combos, combo{"unsubscribe", o})
		}
		for _, o := range w5DiscOpts {
			combos = append(combos, combo{"disconnect", o})
		}
		for _, o := range w5RefreshOpts {
			combos = append(combos, combo{"refresh", o})
		}
		cb := combos[c.Index%len(combos)]
		sc.Op, sc.Opt = cb.op, cb.opt
		sc.Target = []string{"user", "client", "labels", "allusers"}[(c.Index/len(combos))%4]
		if sc.Target == "labels" {
			sc.LF = (c.Index / (4 * len(combos))) % 6
		}
		switch sc.Op {
		case "subscribe":
			sc.Hist = c.Intn(4)
			if sc.Opt == "RecoverSince" || sc.Opt == "RecoveryModeCache" || sc.Opt == "AutoCacheRecover" {
				sc.Hist = 1 + c.Intn(3)
			}
		case "unsubscribe":
			sc.PreSub = 1 + c.Intn(2)
		case "disconnect":
			sc.PreSub = c.Intn(2)
		case "refresh":
			sc.CSR = c.Intn(2) == 0
		}
		return sc
	}
	sc.Target = []string{"user", "client", "labels", "allusers"}[c.Intn(4)]
	if sc.Target == "labels" {
		sc.LF = c.Intn(6)
	}
	return sc
}

func w5Shrinks(script any) []any {
	sc := script.(*w5Script)
	var out []any
	clone := func() *w5Script {
		b, _ := json.Marshal(sc)
		var c w5Script
		_ = json.Unmarshal(b, &c)
		return &c
	}
	if sc.Nodes > 2 {
		c := clone()
		c.Nodes = 2
		for i := range c.Surveys {
			c.Surveys[i].From %= 2
			if c.Surveys[i].To >= 2 {
				c.Surveys[i].To = 1
			}
		}
		if len(c.HandlerUs) > 2 {
			c.HandlerUs = c.HandlerUs[:2]
		}
		out = append(out, c)
	}
	for i := range sc.Surveys {
		if len(sc.Surveys) > 1 {
			c := clone()
			c.Surveys = append(c.Surveys[:i], c.Surveys[i+1:]...)
			out = append(out, c)
		}
	}
	for i := range sc.HandlerUs {
		if sc.HandlerUs[i] != 0 {
			c := clone()
			c.HandlerUs[i] = 0
			out = append(out, c)
		}
	}
	for _, f := range []func(*w5Script){
		func(c *w5Script) { c.DropPm = 0 }, func(c *w5Script) { c.DelayPm = 0 }, func(c *w5Script) { c.DupPm = 0 },
		func(c *w5Script) { c.Hist = 0 }, func(c *w5Script) { c.PreSub = 0 }, func(c *w5Script) { c.Target = "user" },
	} {
		c := clone()
		b1, _ := json.Marshal(c)
		f(c)
		b2, _ := json.Marshal(c)
		if string(b1) != string(b2) {
			out = append(out, c)
		}
	}
	return out
}

// ---------------------------------------------------------------- world

type w5World struct {
	s     *simrt.Sim
	sc    *w5Script
	prop  string
	seq   int64
	nodes []*w1World
	net   *w5Net

	respDropped, reqDropped int
}

func w5Run(s *simrt.Sim, script any, prop string) {
	sc := script.(*w5Script)
	w := &w5World{s: s, sc: sc, prop: prop}
	w.net = &w5Net{w: w, handlers: make([]ControlEventHandler, sc.Nodes), uids: make([]string, sc.Nodes), dec: controlproto.NewProtobufDecoder()}
	shared := &w5Shared{}
	surveyLog := &w5SurveyLog{}
	for i := 0; i < sc.Nodes; i++ {
		i := i
		nw := &w1World{s: s, prop: prop, byTransport: map[*w1Transport]*w1SimClient{}, seqSrc: &w.seq}
		nw.sc = &w1Script{Cfg: w1Cfg{HistorySize: 100, HistoryTTLSec: 300, PingMs: 25000, PongMs: 8000, StaleMs: 15000, PresenceMs: 25000, PositionCheckMs: 40000},
			Channels: []string{"ejJ_a", "r_b", "c_c", "_d", "e_e", "jJ_f"}}
		nw.csr = sc.CSR
		nw.preRun = func(n *Node) {
			if shared.inner == nil {
				shared.inner = n.broker.(*MemoryBroker)
			}
			n.SetBroker(&w5Broker{sh: shared})
			n.SetController(&w5Controller{net: w.net, idx: i})
			w.net.uids[i] = n.ID()
			delayUs := 0
			if i < len(sc.HandlerUs) {
				delayUs = sc.HandlerUs[i]
			}
			n.OnSurvey(func(e SurveyEvent, cb SurveyCallback) {
				surveyLog.handled(w, i, string(e.Data))
				reply := SurveyReply{Code: uint32(i + 1), Data: []byte(fmt.Sprintf("%s@%d", e.Data, i))}
				if delayUs > 0 {
					s.Go(func() {
						s.Sleep(time.Duration(delayUs) * time.Microsecond)
						cb(reply)
					})
					return
				}
				cb(reply)
			})
		}
		if err := nw.setup(); err != nil {
			s.Violate(prop, "harness", "node setup failed", "%v", err)
			return
		}
		w.nodes = append(w.nodes, nw)
	}
	// let the nodes discover each other (node info pings every few seconds)
	s.Sleep(7 * time.Second)
	for i, nw := range w.nodes {
		if got := nw.node.nodes.size(); got != sc.Nodes {
			s.Violate(prop, "harness", "cluster did not form", "node %d knows %d nodes, expected %d", i, got, sc.Nodes)
			return
		}
	}
	if sc.Mode == "survey" {
		w.runSurveys(surveyLog)
	} else {
		w.runOp()
	}
	for _, nw := range w.nodes {
		for _, cl := range nw.clients {
			if cl.closeFn != nil {
				_ = cl.closeFn()
			}
		}
	}
	s.Sleep(2 * time.Second)
	for _, nw := range w.nodes {
		ctx, cancel := context.WithTimeout(context.Background(), 10*time.Second)
		_ = nw.node.Shutdown(ctx)
		cancel()
	}
	s.Sleep(3 * time.Second)
}

// ---------------------------------------------------------------- C27 / C28

const w5Chan = "r_b"

func (w *w5World) connect(nodeIdx int, idx int, user string, labels map[string]string) *w1SimClient {
	nw := w.nodes[nodeIdx]
	cl := nw.newClient(idx, w1Client{Proto: w.sc.Proto, User: user, Labels: labels, ExpireInSec: 3600})
	cl.runOp(w1Op{K: "connect"})
	return cl
}

type w5Effect map[string]string

func (w *w5World) effect(nw *w1World, cl *w1SimClient, fromSeq int64, ch string) w5Effect {
	e := w5Effect{}
	var frames []string
	for _, f := range cl.frames {
		if f.Seq <= fromSeq {
			continue
		}
		switch f.Kind {
		case "push:sub":
			frames = append(frames, fmt.Sprintf("push:sub ch=%s offset=%d positioned=%v recoverable=%v data=%s", f.Ch, f.Offset, f.Positioned, f.Recoverable, string(f.Raw.Push.Subscribe.Data)))
		case "push:pub":
			frames = append(frames, fmt.Sprintf("push:pub ch=%s offset=%d data=%s", f.Ch, f.Pub.Offset, f.Pub.Data))
		case "push:unsub":
			frames = append(frames, fmt.Sprintf("push:unsub ch=%s code=%d reason=%s", f.Ch, f.Code, f.Raw.Push.Unsubscribe.Reason))
		case "push:refresh":
			frames = append(frames, fmt.Sprintf("push:refresh expires=%v ttl=%d", f.Raw.Push.Refresh.Expires, f.Raw.Push.Refresh.Ttl))
		case "push:join", "push:leave":
			// joins/leaves of the other test connection are cross-talk, not an effect
			if f.Info == cl.client.uid {
				frames = append(frames, fmt.Sprintf("%s ch=%s who=self", f.Kind, f.Ch))
			}
		case "ping":
		default:
			frames = append(frames, f.Kind+" ch="+f.Ch)
		}
	}
	e["frames"] = strings.Join(frames, " | ")
	e["closed"] = fmt.Sprintf("%v code=%d reason=%s", cl.isClosed(), cl.closeCode, cl.closeReason)
	var cbs []string
	for _, cb := range cl.cbs {
		if cb.Seq > fromSeq && cb.Kind != "alive" {
			cbs = append(cbs, fmt.Sprintf("%s ch=%s code=%d", cb.Kind, cb.Ch, cb.Code))
		}
	}
	e["callbacks"] = strings.Join(cbs, " | ")
	chs := cl.client.Channels()
	sort.Strings(chs)
	e["channels"] = strings.Join(chs, ",")
	if ctx, ok := cl.client.ChannelsWithContext()[ch]; ok {
		e["ctx.flags"] = fmt.Sprintf("%b", ctx.flags)
		e["ctx.info"] = string(ctx.info)
		e["ctx.expireAt"] = fmt.Sprint(ctx.expireAt)
		e["ctx.source"] = fmt.Sprint(ctx.Source)
		e["ctx.metaTTL"] = fmt.Sprint(ctx.metaTTLSeconds)
		e["ctx.offset"] = fmt.Sprint(ctx.streamPosition.Offset)
	}
	if res, err := nw.node.Presence(ch); err == nil {
		_, present := res.Presence[cl.client.uid]
		e["present"] = fmt.Sprint(present)
	}
	cl.client.mu.RLock()
	e["client.exp"] = fmt.Sprint(cl.client.exp)
	e["client.info"] = string(cl.client.info)
	cl.client.mu.RUnlock()
	return e
}

func (w *w5World) runOp() {
	s, sc := w.s, w.sc
	a, b := w.nodes[0], w.nodes[1]
	labels := map[string]string{"tier": "gold"}
	user := "u"
	x := w.connect(0, 0, user, labels)
	y := w.connect(1, 1, user, labels)
	// bystanders of the same user with another label, one per node: whatever a call does
	// to them (nothing under client/label targeting) must be the same locally and remotely
	var xb, yb *w1SimClient
	if sc.Target == "labels" {
		xb = w.connect(0, 2, user, map[string]string{"tier": "bronze"})
		yb = w.connect(1, 3, user, map[string]string{"tier": "bronze"})
	}
	s.Sleep(50 * time.Millisecond)
	if !x.connected || !y.connected {
		s.Violate(w.prop, "harness", "connect failed", "x=%v y=%v", x.connected, y.connected)
		return
	}
	pre := []string{"ejJ_a", "_d", "jJ_f"}[:sc.PreSub]
	if sc.ExpiredSub && (w.prop == "C28" || sc.Op == "unsubscribe_all") {
		// plus a subscription that is past its ExpireAt when the call is made but has not
		// been removed yet: it is a subscription like any other
		pre = append(append([]string{}, pre...), "X_g")
	}
	for _, ch := range pre {
		x.runOp(w1Op{K: "sub", Ch: ch})
		y.runOp(w1Op{K: "sub", Ch: ch})
		if xb != nil && xb.connected && yb.connected {
			xb.runOp(w1Op{K: "sub", Ch: ch})
			yb.runOp(w1Op{K: "sub", Ch: ch})
		}
	}
	opCh := w5Chan
	if sc.Opt == "RecoveryModeCache" || sc.Opt == "AutoCacheRecover" {
		opCh = "c_c"
	}
	if sc.Op == "unsubscribe" && len(pre) > 0 {
		opCh = pre[0]
	}
	var lastPos StreamPosition
	var firstPos StreamPosition
	for i := 0; i < sc.Hist; i++ {
		res, _ := a.node.Publish(opCh, []byte(fmt.Sprintf(`{"h":%d}`, i)), WithHistory(100, 5*time.Minute))
		if i == 0 {
			firstPos = res.StreamPosition
		}
		lastPos = res.StreamPosition
	}
	_ = lastPos
	s.Sleep(200 * time.Millisecond)
	if sc.ExpiredSub && (w.prop == "C28" || sc.Op == "unsubscribe_all") {
		s.Sleep(2500 * time.Millisecond)
	}
	from := w.seq
	exp := time.Now().Unix() + 1000

	// one call with the connection local (x on node 0) and remote (y on node 1)
	var subOpts []SubscribeOption
	var unsubOpts []UnsubscribeOption
	var discOpts []DisconnectOption
	var refOpts []RefreshOption
	switch sc.Op {
	case "subscribe":
		switch sc.Opt {
		case "ExpireAt":
			subOpts = append(subOpts, WithExpireAt(exp))
		case "ChannelInfo":
			subOpts = append(subOpts, WithChannelInfo([]byte(`{"ci":1}`)))
		case "EmitPresence":
			subOpts = append(subOpts, WithEmitPresence(true))
		case "EmitJoinLeave":
			subOpts = append(subOpts, WithEmitJoinLeave(true), WithPushJoinLeave(true))
		case "PushJoinLeave":
			subOpts = append(subOpts, WithPushJoinLeave(true))
		case "Positioning":
			subOpts = append(subOpts, WithPositioning(true))
		case "Recovery":
			subOpts = append(subOpts, WithRecovery(true))
		case "RecoverSince":
			subOpts = append(subOpts, WithRecovery(true), WithRecoverSince(&StreamPosition{Offset: firstPos.Offset, Epoch: firstPos.Epoch}))
		case "RecoveryModeCache":
			subOpts = append(subOpts, WithRecovery(true), WithRecoveryMode(RecoveryModeCache), WithRecoverSince(&StreamPosition{Offset: 0, Epoch: firstPos.Epoch}))
		case "AutoCacheRecover":
			subOpts = append(subOpts, WithRecovery(true), WithRecoveryMode(RecoveryModeCache), WithAutoCacheRecover(true))
		case "SubscribeData":
			subOpts = append(subOpts, WithSubscribeData([]byte(`{"sd":1}`)))
		case "Source":
			subOpts = append(subOpts, WithSubscribeSource(7))
		case "HistoryMetaTTL":
			subOpts = append(subOpts, WithPositioning(true), WithSubscribeHistoryMetaTTL(2*time.Hour))
		}
	case "unsubscribe", "unsubscribe_all":
		if sc.Opt == "CustomUnsubscribe" {
			unsubOpts = append(unsubOpts, WithCustomUnsubscribe(Unsubscribe{Code: 2777, Reason: "custom"}))
		}
	case "disconnect":
		switch sc.Opt {
		case "CustomDisconnect":
			discOpts = append(discOpts, WithCustomDisconnect(Disconnect{Code: 4777, Reason: "custom"}))
		}
	case "refresh":
		switch sc.Opt {
		case "Expired":
			refOpts = append(refOpts, WithRefreshExpired(true))
		case "ExpireAt":
			refOpts = append(refOpts, WithRefreshExpireAt(exp))
		case "ExpireAtPast":
			refOpts = append(refOpts, WithRefreshExpireAt(time.Now().Unix()-10))
		case "Info":
			refOpts = append(refOpts, WithRefreshExpireAt(exp), WithRefreshInfo([]byte(`{"ri":1}`)))
		}
	}
	// every shape matches the target connections (tier=gold) and excludes the bystanders
	// (tier=bronze); the remote node must evaluate exactly the same filter
	var lf *FilterNode
	switch sc.LF {
	case 1:
		lf = &FilterNode{Key: "tier", Cmp: "in", Vals: []string{"gold", "silver"}}
	case 2:
		lf = &FilterNode{Key: "tier", Cmp: "nin", Vals: []string{"bronze", "iron"}}
	case 3:
		lf = &FilterNode{Op: "and", Nodes: []*FilterNode{{Key: "tier", Cmp: "neq", Val: "bronze"}, {Key: "tier", Cmp: "ex"}}}
	case 4:
		lf = &FilterNode{Op: "or", Nodes: []*FilterNode{{Key: "tier", Cmp: "eq", Val: "gold"}, {Key: "tier", Cmp: "eq", Val: "platinum"}}}
	case 5:
		lf = &FilterNode{Op: "not", Nodes: []*FilterNode{{Key: "tier", Cmp: "eq", Val: "bronze"}}}
	default:
		lf = &FilterNode{Op: "", Key: "tier", Cmp: "eq", Val: "gold"}
	}
	call := func(target *w1SimClient) error {
		u := user
		so, uo, do, ro := subOpts, unsubOpts, discOpts, refOpts
		switch sc.Target {
		case "client":
			so = append(append([]SubscribeOption{}, so...), WithSubscribeClient(target.client.uid))
			uo = append(append([]UnsubscribeOption{}, uo...), WithUnsubscribeClient(target.client.uid))
			do = append(append([]DisconnectOption{}, do...), WithDisconnectClient(target.client.uid))
			ro = append(append([]RefreshOption{}, ro...), WithRefreshClient(target.client.uid))
		case "labels":
			so = append(append([]SubscribeOption{}, so...), WithSubscribeLabelFilter(lf))
			uo = append(append([]UnsubscribeOption{}, uo...), WithUnsubscribeLabelFilter(lf))
			do = append(append([]DisconnectOption{}, do...), WithDisconnectLabelFilter(lf))
			ro = append(append([]RefreshOption{}, ro...), WithRefreshLabelFilter(lf))
		case "allusers":
			u = ""
			so = append(append([]SubscribeOption{}, so...), WithSubscribeAllUsers(true))
			uo = append(append([]UnsubscribeOption{}, uo...), WithUnsubscribeAllUsers(true))
			do = append(append([]DisconnectOption{}, do...), WithDisconnectAllUsers(true))
			ro = append(append([]RefreshOption{}, ro...), WithRefreshAllUsers(true))
		}
		if sc.Op == "disconnect" && sc.Opt == "Whitelist" {
			// keep a client that is not one of ours: both must still be disconnected
			do = append(do, WithDisconnectClientWhitelist([]string{"someone-else"}))
		}
		switch sc.Op {
		case "subscribe":
			return a.node.Subscribe(u, opCh, so...)
		case "unsubscribe":
			return a.node.Unsubscribe(u, opCh, uo...)
		case "unsubscribe_all":
			return a.node.Unsubscribe(u, "", uo...)
		case "disconnect":
			return a.node.Disconnect(u, do...)
		case "refresh":
			return a.node.Refresh(u, ro...)
		}
		return nil
	}
	s.Probe("nontrivial:" + w.prop)
	if sc.Target == "client" {
		_ = call(x)
		s.Sleep(500 * time.Millisecond)
		_ = call(y)
	} else {
		_ = call(x)
	}
	s.Sleep(1500 * time.Millisecond)
	ex := w.effect(a, x, from, opCh)
	ey := w.effect(b, y, from, opCh)
	s.Event("effect local %v", ex)
	s.Event("effect remote %v", ey)

	if w.prop == "C28" || sc.Op == "unsubscribe_all" {
		for side, cl := range map[string]*w1SimClient{"local": x, "remote": y} {
			for _, ch := range pre {
				// (Channels() alone could hide a subscription it chooses not to list)
				if cl.client.IsSubscribed(ch) {
					s.Violate("C28", "still-subscribed", "unsubscribe with empty channel left a subscription that IsSubscribed still reports ("+side+" connection)", "%s connection still subscribed to %s after Node.Unsubscribe(user, \"\")", side, ch)
				}
			}
			if left := cl.client.Channels(); len(left) > 0 {
				sort.Strings(left)
				s.Violate("C28", "still-subscribed", "unsubscribe with empty channel left subscriptions ("+side+" connection)", "%s connection still subscribed to %v after Node.Unsubscribe(user, \"\")", side, left)
			}
			for _, ch := range pre {
				gotPush, gotCB := false, false
				for _, f := range cl.frames {
					if f.Seq > from && f.Kind == "push:unsub" && f.Ch == ch {
						gotPush = true
					}
				}
				for _, cb := range cl.cbs {
					if cb.Seq > from && cb.Kind == "unsubscribe" && cb.Ch == ch {
						gotCB = true
					}
				}
				if !gotPush || !gotCB {
					s.Violate("C28", "per-channel-effects-missing", "per-channel unsubscribe effects missing ("+side+" connection)", "%s connection, channel %s: unsubscribe push=%v OnUnsubscribe=%v", side, ch, gotPush, gotCB)
				}
			}
		}
	}
	if w.prop != "C27" {
		return
	}
	if xb != nil && xb.connected && yb.connected {
		bx := w.effect(a, xb, from, opCh)
		by := w.effect(b, yb, from, opCh)
		s.Probe("c27_bystanders_compared")
		var bd []string
		for k, v := range bx {
			if by[k] != v {
				bd = append(bd, fmt.Sprintf("%s: local=%q remote=%q", k, v, by[k]))
			}
		}
		for k, v := range by {
			if _, ok := bx[k]; !ok {
				bd = append(bd, fmt.Sprintf("%s: local=\"\" remote=%q", k, v))
			}
		}
		if len(bd) > 0 {
			sort.Strings(bd)
			s.Violate("C27", "local-remote-differ", fmt.Sprintf("%s with label filter shape %d: connections the filter excludes are treated differently on the remote node", sc.Op, sc.LF), "%s option %s: bystander (tier=bronze) local vs remote: %s", sc.Op, sc.Opt, strings.Join(bd, "; "))
		}
	}
	var keys []string
	for k := range ex {
		keys = append(keys, k)
	}
	for k := range ey {
		if _, ok := ex[k]; !ok {
			keys = append(keys, k)
		}
	}
	sort.Strings(keys)
	var diff []string
	for _, k := range keys {
		if ex[k] != ey[k] {
			diff = append(diff, k)
		}
	}
	if len(diff) > 0 {
		var parts []string
		for _, k := range diff {
			parts = append(parts, fmt.Sprintf("%s: local=%q remote=%q", k, ex[k], ey[k]))
		}
		s.Violate("C27", "local-remote-differ", fmt.Sprintf("%s option %s: %s differ", sc.Op, sc.Opt, strings.Join(diff, ",")), "%s with option %s targeting %s: %s", sc.Op, sc.Opt, sc.Target, strings.Join(parts, "; "))
	}
}

// ---------------------------------------------------------------- C41

type w5SurveyLog struct {
	handledBy map[string][]int // survey token -> node indexes whose handler ran
}

func (l *w5SurveyLog) handled(w *w5World, node int, token string) {
	if l.handledBy == nil {
		l.handledBy = map[string][]int{}
	}
	l.handledBy[token] = append(l.handledBy[token], node)
	w.s.Event("survey %s handled by node %d", token, node)
}

func (w *w5World) runSurveys(log *w5SurveyLog) {
	s, sc := w.s, w.sc
	done := make(chan struct{}, len(sc.Surveys))
	type outcome struct {
		sv       w5Survey
		token    string
		started  time.Duration
		returned time.Duration
		res      map[string]SurveyResult
		err      error
	}
	outs := make([]*outcome, len(sc.Surveys))
	for i, sv := range sc.Surveys {
		i, sv := i, sv
		s.Go(func() {
			defer func() { done <- struct{}{} }()
			s.Sleep(time.Duration(sv.AtUs) * time.Microsecond)
			o := &outcome{sv: sv, token: fmt.Sprintf("sv%d", i), started: s.Now()}
			outs[i] = o
			ctx := context.Background()
			var cancel context.CancelFunc = func() {}
			if sv.TimeoutMs > 0 {
				ctx, cancel = context.WithTimeout(ctx, time.Duration(sv.TimeoutMs)*time.Millisecond)
			}
			to := ""
			if sv.To >= 0 {
				to = w.net.uids[sv.To]
			}
			o.res, o.err = w.nodes[sv.From].node.Survey(ctx, "op", []byte(o.token), to)
			cancel()
			o.returned = s.Now()
			s.Pause()
			s.Event("survey %s returned n=%d err=%v", o.token, len(o.res), o.err)
		})
	}
	// wait for the surveys, but not forever: a Survey that is still running well after
	// its deadline is itself a violation (it must return at the deadline at the latest)
	maxWait := time.Duration(0)
	for _, sv := range sc.Surveys {
		to := time.Duration(sv.TimeoutMs) * time.Millisecond
		if to == 0 {
			to = 10 * time.Second
		}
		if w := time.Duration(sv.AtUs)*time.Microsecond + to; w > maxWait {
			maxWait = w
		}
	}
	s.Sleep(maxWait + 3*time.Second)
	for i, o := range outs {
		if o == nil || o.returned == 0 {
			s.Probe("nontrivial:C41")
			s.Violate("C41", "never-returned", "Survey did not return by its deadline", "survey %d (from node %d, timeout %dms) had not returned 3 s after its deadline", i, sc.Surveys[i].From, sc.Surveys[i].TimeoutMs)
			outs[i] = nil
		}
	}
	_ = done
	faulty := sc.DropPm+sc.DupPm+sc.DelayPm > 0
	for _, o := range outs {
		if o == nil {
			continue
		}
		s.Probe("nontrivial:C41")
		expected := sc.Nodes
		if o.sv.To >= 0 {
			expected = 1
		}
		timeout := time.Duration(o.sv.TimeoutMs) * time.Millisecond
		if timeout == 0 {
			timeout = 10 * time.Second // documented default
		}
		// results: only from nodes of the cluster, only answers to THIS survey, one per node
		for uid, r := range o.res {
			idx := -1
			for i, u := range w.net.uids {
				if u == uid {
					idx = i
				}
			}
			if idx < 0 {
				s.Violate("C41", "foreign-result", "result from unknown node", "survey %s: result from unknown node %s", o.token, uid)
				continue
			}
			want := fmt.Sprintf("%s@%d", o.token, idx)
			if string(r.Data) != want || r.Code != uint32(idx+1) {
				s.Violate("C41", "foreign-result", "result does not belong to the survey or node", "survey %s: node %d result data %q code %d, expected %q code %d", o.token, idx, r.Data, r.Code, want, idx+1)
			}
			if o.sv.To >= 0 && idx != o.sv.To {
				s.Violate("C41", "foreign-result", "result from a node that was not asked", "survey %s addressed to node %d has a result from node %d", o.token, o.sv.To, idx)
			}
		}
		if len(o.res) > expected {
			s.Violate("C41", "too-many-results", "more results than nodes asked", "survey %s: %d results for %d expected nodes", o.token, len(o.res), expected)
		}
		took := o.returned - o.started
		if took > timeout+50*time.Millisecond {
			s.Violate("C41", "deadline-exceeded", "survey returned after its deadline", "survey %s took %v with timeout %v", o.token, took, timeout)
		}
		// termination: without message loss every asked node answers after its handler
		// delay (plus injected network delay <= 450ms each way); the survey must return
		// then, not at the deadline
		if sc.DropPm == 0 {
			slowest := time.Duration(0)
			for i := 0; i < sc.Nodes; i++ {
				if o.sv.To >= 0 && i != o.sv.To {
					continue
				}
				d := time.Duration(sc.HandlerUs[i]) * time.Microsecond
				if d > slowest {
					slowest = d
				}
			}
			bound := slowest + 50*time.Millisecond
			if sc.DelayPm > 0 {
				bound += 950 * time.Millisecond
			}
			if bound < timeout {
				sig := "survey waited although every asked node had answered"
				if faulty {
					sig += " (duplicated/delayed responses)"
				}
				if took > bound {
					s.Violate("C41", "late-return", sig, "survey %s: all %d asked nodes answer within %v but Survey returned after %v (err=%v, %d results)", o.token, expected, bound, took, o.err, len(o.res))
				} else if o.err != nil || len(o.res) != expected {
					s.Violate("C41", "incomplete", "survey incomplete although every asked node answered in time", "survey %s: err=%v results=%d expected=%d after %v", o.token, o.err, len(o.res), expected, took)
				}
			}
		}
	}
}

func init() {
	simrt.Register(&simrt.World{
		Name:      "w5",
		Gen:       w5Gen,
		NewScript: func() any { return &w5Script{} },
		Run:       w5Run,
		Shrinks:   w5Shrinks,
		Nontrivial: func(prop string, r *simrt.Result) bool {
			return r.Probes["nontrivial:"+prop] > 0
		},
	})
	simrt.Claim("C27", "w5", 10)
	simrt.Claim("C28", "w5", 10)
	simrt.Claim("C41", "w5", 10)
}
