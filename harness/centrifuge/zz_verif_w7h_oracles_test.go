//go:build verif

package centrifuge

import (
	"bytes"
	"fmt"
	"strings"
)

// ---------------------------------------------------------------- C08 (handler clause)

// arrival classifies when the request reached ServeHTTP relative to Node.Shutdown.
func (w *w7hWorld) arrival(c *w7hConnState) string {
	switch {
	case c.invokeSeq < w.shutdownBegan:
		if c.connectSeq != 0 && c.connectSeq < w.shutdownBegan {
			return "request arrived before Shutdown began, connect reply sent before Shutdown began"
		}
		return "request arrived before Shutdown began, still connecting when Shutdown began"
	case c.invokeSeq < w.shutdownRet:
		return "request arrived during Shutdown"
	}
	return "request arrived after Shutdown returned"
}

func (w *w7hWorld) inHub(c *w7hConnState) bool {
	if c.client == nil {
		return false
	}
	for _, sh := range w.node.hub.connShards {
		sh.mu.RLock()
		_, ok := sh.clients[c.client.uid]
		sh.mu.RUnlock()
		if ok {
			return true
		}
	}
	return false
}

// checkAfterShutdown runs once Shutdown has returned and the settle time has passed.
// "After node shutdown completes, no connection stays connected and no new connection
// becomes connected": a connection is connected when its peer received a connect reply,
// no disconnect push, and its HTTP response is still open (ServeHTTP has not returned).
func (w *w7hWorld) checkAfterShutdown() {
	s := w.s
	any := false
	var left []int
	for _, c := range w.conns {
		if !c.started {
			continue
		}
		any = true
		cls := w.arrival(c)
		switch {
		case strings.Contains(cls, "before Shutdown began, connect"):
			s.Probe("arrive_before_connected")
		case strings.Contains(cls, "still connecting"):
			s.Probe("arrive_before_connecting")
		case strings.Contains(cls, "during"):
			s.Probe("arrive_during")
		default:
			s.Probe("arrive_after")
		}
		open := !c.returned && !c.cancelled && !c.broken
		connected := c.connectSeq != 0 && c.discSeq == 0 && open
		if connected {
			s.Violate("C08", "connected-after-shutdown", c.spec.handlerName()+": connection stays connected after Shutdown returned ("+cls+")",
				"conn %d: connect reply at seq %d, no disconnect push, ServeHTTP still running although Shutdown returned (seq %d..%d) and %dms passed; registered in hub=%v", c.idx, c.connectSeq, w.shutdownBegan, w.shutdownRet, w.sc.SettleMs, w.inHub(c))
		}
		if c.invokeSeq > w.shutdownRet && c.connectSeq != 0 {
			s.Violate("C08", "connect-after-shutdown", c.spec.handlerName()+": request that arrived after Shutdown returned got a connect reply",
				"conn %d: ServeHTTP invoked at seq %d after Shutdown returned at seq %d, connect reply received at seq %d", c.idx, c.invokeSeq, w.shutdownRet, c.connectSeq)
		}
		if w.inHub(c) {
			left = append(left, c.idx)
			s.Violate("C08", "hub-not-empty-after-shutdown", c.spec.handlerName()+": connection still registered in the hub after Shutdown returned ("+cls+")",
				"conn %d: client %s is in the connection hub although Shutdown returned and %dms passed (ServeHTTP returned=%v, client gone=%v)", c.idx, c.client.ID(), w.sc.SettleMs, c.returned, c.cancelled)
		}
	}
	if n := w.node.hub.NumClients(); n != len(left) {
		s.Violate("C08", "hub-not-empty-after-shutdown", "hub.NumClients() counts connections the harness cannot attribute",
			"hub.NumClients()=%d after Shutdown returned and %dms passed, attributed %v", n, w.sc.SettleMs, left)
	}
	if any {
		s.Probe("nontrivial:C08")
	}
}

// ---------------------------------------------------------------- C32

// healthy: nothing the harness did can have ended or damaged this connection.
func (w *w7hWorld) healthy(c *w7hConnState) bool {
	return c.started && !c.cancelled && !c.broken && c.discIssued == 0 && w.shutdownBegan == 0
}

// checkDelivered runs after the settle time, before the clients go away: a connection
// that is healthy must have received its connect reply and every message that was
// handed to the server for it after the connect reply arrived.
func (w *w7hWorld) checkDelivered() {
	s := w.s
	for _, c := range w.conns {
		if !w.healthy(c) {
			continue
		}
		c.healthyAtSettle = true
		name := c.spec.handlerName()
		if c.returned || c.discSeq != 0 {
			s.Violate("C32", "unexpected-end", name+": connection ended by the server although nothing was injected",
				"conn %d: returned=%v status=%d disconnect push code=%d OnDisconnect code=%d, %d messages received", c.idx, c.returned, c.status, c.discCode, c.cbDiscCode, len(c.msgs))
			continue
		}
		if c.connectSeq == 0 {
			if c.undecoded == 0 {
				s.Violate("C32", "loss", name+": connect reply never received", "conn %d: %d bytes received, no connect reply", c.idx, len(c.body))
			}
			continue
		}
		got := map[string]bool{}
		for _, m := range c.msgs {
			if m.Kind == "pub" || m.Kind == "message" {
				got[w7hCanon(c.spec.isJSON(), m.Data)] = true
			}
		}
		for _, it := range w.items {
			if !w.targets(it, c) || it.Err != "" || it.Inv < c.connectSeq {
				continue
			}
			if !got[w7hCanon(c.spec.isJSON(), it.P.Data)] {
				s.Violate("C32", "loss", name+": message handed to a healthy connection was never received as an event/record"+w7hFeatures(c, it.P),
					"conn %d: %s p%d (driver %d op %d, payload %q) issued at seq %d after the connect reply (seq %d) never arrived; %d messages received, %d undecodable", c.idx, it.Kind, it.P.ID, it.Driver, it.Op, w7hClip(it.P.Data), it.Inv, c.connectSeq, len(c.msgs), c.undecoded)
				break
			}
		}
	}
}

func w7hFeatures(c *w7hConnState, p *w7hPayload) string {
	if !p.JSON || !c.spec.isJSON() {
		return ""
	}
	switch {
	case bytes.IndexByte(p.Data, '\r') >= 0:
		return " (payload contains a raw CR)"
	case bytes.IndexByte(p.Data, '\n') >= 0:
		return " (payload contains a raw LF)"
	}
	return ""
}

// w7hRechunk splits body at pseudo-random places derived from seed.
func w7hRechunk(body []byte, seed int) [][]byte {
	var out [][]byte
	x := uint32(seed)*2654435761 + 1
	for len(body) > 0 {
		x = x*1664525 + 1013904223
		n := 1
		switch (x >> 28) & 3 {
		case 0:
			n = 1
		case 1:
			n = 1 + int((x>>8)%7)
		case 2:
			n = 1 + int((x>>8)%64)
		case 3:
			n = 1 + int((x>>8)%5000)
		}
		if n > len(body) {
			n = len(body)
		}
		out = append(out, body[:n])
		body = body[n:]
	}
	return out
}

// checkStream is the end-of-run oracle over everything one peer received.
func (w *w7hWorld) checkStream(c *w7hConnState) {
	s := w.s
	if !c.started {
		return
	}
	name := c.spec.handlerName()
	isJSON := c.spec.isJSON()
	// 1. the reference parser itself must not depend on chunk boundaries
	if c.spec.Rechunk > 0 && len(c.body) > 0 {
		var again [][]byte
		p2 := c.newParser(func(r w7hRecord) { again = append(again, r.Data) })
		for _, ch := range w7hRechunk(c.body, c.spec.Rechunk) {
			p2.Feed(ch)
		}
		same := len(again) == len(c.msgs)
		for i := 0; same && i < len(again); i++ {
			same = bytes.Equal(again[i], c.msgs[i].Raw)
		}
		if !same || p2.Pending() != c.parser.Pending() {
			s.Violate(w.prop, "harness", "reference parser result depends on chunk boundaries", "conn %d: %d records live, %d records after re-chunking", c.idx, len(c.msgs), len(again))
		}
		s.Probe("rechunked_parse")
	}
	if c.parser != nil && c.parser.Err() != "" {
		s.Violate("C32", "framing", name+": "+c.parser.Err(), "conn %d: after %d records", c.idx, len(c.msgs))
	}
	// 2. the stream ends at a message boundary unless a write was cut short
	if c.parser != nil && c.parser.Pending() > 0 && !c.broken && !c.refused {
		s.Violate("C32", "framing", name+": stream ends inside an event/record although no write failed",
			"conn %d: %d trailing bytes do not form a complete event/record (body %d bytes, tail %q)", c.idx, c.parser.Pending(), len(c.body), w7hClip(c.body[max(0, len(c.body)-120):]))
	}
	// 3. content, attribution, duplicates, order
	byCanon := map[string]*w7hItem{}
	for _, it := range w.items {
		byCanon[w7hCanon(isJSON, it.P.Data)] = it
	}
	seen := map[*w7hItem]int{}
	lastOp := map[int]int{}
	connects := 0
	afterDisc := false
	data := 0
	for i, m := range c.msgs {
		if afterDisc {
			// the server core may queue messages behind the disconnect push (a publication
			// racing Client.Disconnect, a connect reply racing Shutdown): that is the order
			// the server wrote them in, not a framing matter
			s.Probe("message_after_disconnect_push")
		}
		if c.spec.Handler == "sse" && m.Type != "message" && m.Kind != "undecodable" {
			s.Violate("C32", "framing", name+": event type changed by the content", "conn %d: record %d has event type %q", c.idx, i, m.Type)
		}
		switch m.Kind {
		case "connect":
			connects++
			if connects > 1 {
				s.Violate("C32", "duplicate", name+": second connect reply", "conn %d: record %d", c.idx, i)
			}
			want := []byte(nil)
			if c.spec.ConnData != nil {
				want = c.spec.ConnData.Data
			}
			if len(want) == 0 && len(m.Data) == 0 {
				break
			}
			if w7hCanon(isJSON, m.Data) != w7hCanon(isJSON, want) {
				s.Violate("C32", "content", name+": connect reply data differs from ConnectReply.Data", "conn %d: got %q want %q", c.idx, w7hClip(m.Data), w7hClip(want))
			} else if c.spec.ConnData != nil {
				s.Probe("connect_data_checked")
			}
		case "pub", "message":
			data++
			it := byCanon[w7hCanon(isJSON, m.Data)]
			if it == nil {
				s.Violate("C32", "content", name+": received "+m.Kind+" payload equals no payload that was sent", "conn %d: record %d channel %q data %q", c.idx, i, m.Ch, w7hClip(m.Data))
				continue
			}
			wantKind := "pub"
			if it.Kind == "send" {
				wantKind = "message"
			}
			if m.Kind != wantKind || !w.targets(it, c) || (it.Kind == "pub" && m.Ch != it.Ch) {
				s.Violate("C32", "content", name+": payload delivered as a different message", "conn %d: record %d is %s on %q, p%d was a %s to %q/conn %d", c.idx, i, m.Kind, m.Ch, it.P.ID, it.Kind, it.Ch, it.C)
				continue
			}
			if prev, dup := seen[it]; dup {
				s.Violate("C32", "duplicate", name+": message received twice", "conn %d: p%d at records %d and %d", c.idx, it.P.ID, prev, i)
				continue
			}
			seen[it] = i
			if last, ok := lastOp[it.Driver]; ok && it.Op < last {
				s.Violate("C32", "order", name+": messages of one sequential producer received out of order", "conn %d: p%d (driver %d op %d) after op %d", c.idx, it.P.ID, it.Driver, it.Op, last)
			}
			lastOp[it.Driver] = it.Op
			if f := w7hFeatures(c, it.P); f != "" {
				s.Probe("nasty_payload_delivered")
			}
		case "disconnect":
			afterDisc = true
			okCode := (c.discIssued != 0 && m.Code == c.discIssuedCd) || (w.shutdownBegan != 0 && m.Code == DisconnectShutdown.Code)
			if !okCode && c.healthyAtSettle {
				s.Violate("C32", "unexpected-end", name+": connection ended by the server although nothing was injected", "conn %d: disconnect push code %d reason %q", c.idx, m.Code, m.Reason)
			}
			if c.discIssued != 0 && m.Code != c.discIssuedCd && !(w.shutdownBegan != 0 && m.Code == DisconnectShutdown.Code) {
				s.Probe("other_disconnect_code")
			}
			if c.discIssued != 0 && m.Code == c.discIssuedCd && m.Code >= 4000 {
				if m.Reason != "w7h bye" {
					s.Violate("C32", "content", name+": disconnect push reason differs", "conn %d: reason %q", c.idx, m.Reason)
				}
				s.Probe("disconnect_push_checked")
			}
		case "error":
			s.Violate("C32", "content", name+": error reply on a stream nobody sent a failing command on", "conn %d: record %d error %d %q", c.idx, i, m.Code, m.Reason)
		case "other", "push-other":
			s.Probe("other_message")
		}
	}
	if data > 0 {
		s.Probe("nontrivial:C32")
	}
	s.Event("c%d final records=%d data=%d body=%d", c.idx, len(c.msgs), data, len(c.body))
	_ = fmt.Sprint
}
