//go:build verif

package centrifuge

// W4, property C05 for keyed-tracking (shared poll) subscriptions: "after a connection
// closes (for any reason, at any point of ... keyed tracking or presence update) and
// in-flight operations settle, the node keeps no trace of it".
//
// Scenario (Cfg.C05): the W4 world (real Node + SharedPollManager + keyed hub, simulated
// protocol clients and OnSharedPoll backend) plus close causes - peer close, transport
// write error, stalled transport (write timeout / slow consumer with a small
// ClientQueueMaxSize), server-side Client.Disconnect, Node.Disconnect, Node.Unsubscribe,
// insufficient-state unsubscribe (epoch flip), revoke, node Shutdown - issued by the
// connection's own task or by "kill" ops of admin tasks that share rendezvous instants with
// subscribe / track / untrack commands, asynchronous OnSubscribe / OnTrack completions,
// backend polls and refresh broadcasts. Optional subscribe options EmitPresence,
// MapClientPresenceChannel, MapUserPresenceChannel.
//
// Oracle (c05Traces): reads the node's registries in-package. It is a bounded eventually:
// after the scripted activity ended and asynchronous handler completions returned, it is
// evaluated after 3 s and then again once per simulated second, at most 10 more times,
// while any trace is left; only what is still there at the end is a violation.

import (
	"context"
	"fmt"
	"sort"
	"strconv"
	"strings"
	"time"

	simrt "github.com/centrifugal/centrifuge/internal/simrt"
	dto "github.com/prometheus/client_model/go"
)

const (
	w4MapClientPresence = "mcp:" + w4Channel
	w4MapUserPresence   = "mup:" + w4Channel
	// KeyTTL of the map user presence channel: user keys are by design not removed on
	// disconnect, they expire; short so that the oracle can wait for it
	w4UserPresenceTTL = 2 * time.Second
)

func (cl *w4Conn) name(k string) *w4Named {
	n := cl.named[k]
	if n == nil {
		n = &w4Named{}
		cl.named[k] = n
	}
	return n
}

// ---------------------------------------------------------------- observation at close time

// c05OnClose runs inside Transport.Close (i.e. inside Client.close, after the status
// became closed and before the per-channel cleanup): it records what was in progress on the
// connection and in the node. Probes only - nothing here feeds a verdict, except atClose /
// named, which only select the signature class.
func (cl *w4Conn) c05OnClose() {
	w, s := cl.w, cl.w.s
	s.Probe("close_code_" + strconv.Itoa(int(cl.closeCode)))
	var ids []int
	for id := range cl.cmds {
		ids = append(ids, int(id))
	}
	sort.Ints(ids)
	for _, id := range ids {
		c := cl.cmds[uint32(id)]
		if !c.ServerDone && c.Kind != "connect" {
			cl.atClose = append(cl.atClose, c.Kind)
			cl.atCloseCmds = append(cl.atCloseCmds, c)
			s.Probe("close_during_" + c.Kind + "_in_flight")
		}
	}
	if !w.traffic {
		return
	}
	ntracked := 0
	for _, k := range w.keyNames {
		if ks := cl.keys[k]; ks != nil && ks.tracked {
			ntracked++
		}
	}
	if ntracked > 0 {
		s.Probe("close_with_tracked_keys")
	}
	if cl.subscribed && ntracked == 0 {
		s.Probe("close_subscribed_without_keys")
	}
	if w.pollsInFlight > 0 {
		s.Probe("close_while_poll_outstanding")
	}
	if w.revokesInCall > 0 {
		s.Probe("close_during_revoke")
	}
	// hub-join reservations pending right now (between trackKeys and addSubscribers of
	// some track): read under the state lock
	m := w.node.sharedPollManager
	m.mu.RLock()
	st := m.channels[w4Channel]
	m.mu.RUnlock()
	if st != nil {
		st.mu.Lock()
		for _, k := range w.keyNames {
			if e := st.itemIndex[k]; e != nil && e.pendingHubJoin > 0 {
				cl.pendingJoinAt = true
			}
		}
		st.mu.Unlock()
	}
	if cl.pendingJoinAt {
		s.Probe("close_while_a_hub_join_is_reserved")
		for _, k := range cl.atClose {
			if k == "track" {
				s.Probe("close_between_own_reservation_and_hub_join")
				break
			}
		}
	}
}

// kill closes (or breaks) a connection from an admin task.
func (w *w4World) kill(op w4Op) {
	s := w.s
	if len(w.conns) == 0 {
		return
	}
	cl := w.conns[op.C%len(w.conns)]
	if cl.client == nil || cl.tr.closed {
		s.Probe("kill_noop")
		return
	}
	if op.Us > 0 {
		s.Sleep(time.Duration(op.Us) * time.Microsecond)
		if cl.tr.closed {
			s.Probe("kill_noop")
			return
		}
	}
	cl.markOwnEnd()
	switch op.Mode {
	case 0:
		s.Event("kill c%d: Client.Disconnect", cl.idx)
		s.Fault("client_disconnect")
		cl.client.Disconnect(DisconnectForceNoReconnect)
	case 1:
		s.Event("kill c%d: transport fails writes", cl.idx)
		s.Fault("transport_write_error")
		cl.tr.failWrites = true
	case 2:
		s.Event("kill c%d: transport stalls", cl.idx)
		s.Fault("transport_stall")
		cl.tr.stalled = true
	case 3:
		// the peer goes away: the transport's read loop ends (after the command it is
		// handling, if any) and calls the close function
		s.Event("kill c%d: peer close", cl.idx)
		s.Fault("peer_close")
		cl.cmdMu.Lock()
		cl.readerDone = true
		cl.cmdMu.Unlock()
		if cl.closeFn != nil {
			_ = cl.closeFn()
		}
	default:
		s.Event("kill c%d: Node.Disconnect(%s)", cl.idx, cl.spec.User)
		s.Fault("server_disconnect")
		_ = w.node.Disconnect(cl.spec.User)
	}
}

// ---------------------------------------------------------------- gauges

type w4Gauges struct{ conns, subs float64 }

func (w *w4World) gaugeSum(name string) float64 {
	mfs, err := w.reg.Gather()
	if err != nil {
		return -1
	}
	sum := 0.0
	for _, mf := range mfs {
		if mf.GetName() != name || mf.GetType() != dto.MetricType_GAUGE {
			continue
		}
		for _, m := range mf.Metric {
			sum += m.GetGauge().GetValue()
		}
	}
	return sum
}

func (w *w4World) snapshotGauges() w4Gauges {
	return w4Gauges{conns: w.gaugeSum("centrifuge_client_connections_inflight"), subs: w.gaugeSum("centrifuge_client_subscriptions_inflight")}
}

// ---------------------------------------------------------------- registry readers

// keyedHubSnapshot: key -> sorted client ids registered in the keyed hub of the channel.
func (w *w4World) keyedHubSnapshot() map[string][]string {
	out := map[string][]string{}
	hub := w.node.keyedManager.getHub(w4Channel)
	if hub == nil {
		return out
	}
	hub.mu.RLock()
	for k, subs := range hub.items {
		var uids []string
		for uid := range subs {
			uids = append(uids, uid)
		}
		sort.Strings(uids)
		out[k] = uids
	}
	hub.mu.RUnlock()
	return out
}

type w4ItemView struct {
	version                          uint64
	pending                          int
	needsBroadcast, freshFromPublish bool
}

type w4StateView struct {
	exists, removed, workerRunning, timerArmed bool
	epoch                                      string
	items                                      map[string]w4ItemView
}

func (w *w4World) stateSnapshot() w4StateView {
	v := w4StateView{items: map[string]w4ItemView{}}
	m := w.node.sharedPollManager
	m.mu.RLock()
	st := m.channels[w4Channel]
	m.mu.RUnlock()
	if st == nil {
		return v
	}
	st.mu.Lock()
	v.exists, v.removed, v.workerRunning, v.timerArmed, v.epoch = true, st.removed, st.workerRunning, st.shutdownTimer != nil, st.epoch
	for k, e := range st.itemIndex {
		v.items[k] = w4ItemView{version: e.version, pending: e.pendingHubJoin, needsBroadcast: e.needsBroadcast, freshFromPublish: e.freshFromPublish}
	}
	st.mu.Unlock()
	return v
}

func (w *w4World) brokerKeySubs() []string {
	m := w.node.sharedPollManager
	var out []string
	m.brokerSubMu.RLock()
	for kc := range m.brokerSubChans {
		out = append(out, kc)
	}
	m.brokerSubMu.RUnlock()
	sort.Strings(out)
	return out
}

func (w *w4World) inConnHub(c *Client) bool {
	h := w.node.hub
	for _, sh := range h.connShards {
		sh.mu.RLock()
		_, ok := sh.clients[c.uid]
		if !ok {
			for _, m := range sh.users {
				if _, in := m[c.uid]; in {
					ok = true
				}
			}
		}
		sh.mu.RUnlock()
		if ok {
			return true
		}
	}
	h.sessionsMu.RLock()
	defer h.sessionsMu.RUnlock()
	for _, sc := range h.sessions {
		if sc == c {
			return true
		}
	}
	return false
}

func (w *w4World) hubChannelsOf(c *Client) []string {
	var out []string
	for _, sh := range w.node.hub.subShards {
		sh.mu.RLock()
		for ch, subs := range sh.subs {
			for _, si := range subs {
				if si.client == c {
					out = append(out, ch)
				}
			}
		}
		sh.mu.RUnlock()
	}
	sort.Strings(out)
	return out
}

// connLeftovers: what the Client object itself still holds for the channel.
func (w *w4World) connLeftovers(c *Client) (tracked []string, deltaState, inChannels bool) {
	c.mu.RLock()
	if c.keyed != nil {
		for k := range c.keyed.trackedKeys[w4Channel] {
			tracked = append(tracked, k)
		}
		_, deltaState = c.keyed.channels[w4Channel]
	}
	_, inChannels = c.channels[w4Channel]
	c.mu.RUnlock()
	sort.Strings(tracked)
	return
}

func hasStr(xs []string, x string) bool {
	for _, v := range xs {
		if v == x {
			return true
		}
	}
	return false
}

// ---------------------------------------------------------------- the oracle

type w4Trace struct{ clause, sig, detail string }

// c05Completed runs when the server finished handling a command (HandleCommand returned,
// or the asynchronous handler completion returned): it notes whether the connection was
// already closed / the channel already unsubscribed at that moment, i.e. whether a teardown
// overtook the command. Classification of signatures only.
func (cl *w4Conn) c05Completed(rec *w4Cmd) {
	if !cl.w.sc.Cfg.C05 || cl.client == nil || rec.Fail || (rec.Kind != "track" && rec.Kind != "subscribe") {
		return
	}
	if rec.Kind == "track" {
		for _, r := range cl.w.revokes {
			if !r.affects(cl.spec.User) || (r.RetSeq != 0 && r.RetSeq < rec.Seq) {
				continue
			}
			for _, k := range rec.Keys {
				for _, rk := range r.Keys {
					if rk == k {
						cl.name(k).revoked = true
						cl.w.s.Probe("revoke_during_track_handling")
					}
				}
			}
		}
	}
	c := cl.client
	c.mu.RLock()
	ctx, ok := c.channels[w4Channel]
	gone := c.status == statusClosed || !ok || !channelHasFlag(ctx.flags, flagSubscribed)
	c.mu.RUnlock()
	if !gone {
		return
	}
	if rec.Kind == "subscribe" {
		cl.subRaced = true
		cl.w.s.Probe("subscribe_handling_completed_after_teardown")
		return
	}
	for _, k := range rec.Keys {
		cl.name(k).raced = true
	}
	cl.w.s.Probe("track_handling_completed_after_teardown")
}

const (
	w4ServerOverlap = " [a command naming the key was sent after the reply to an earlier one but before the server finished handling that one]"
	w4TrackRaced    = " [closed or unsubscribed while a track command naming the key was being handled]"
	w4BackendRemoved = " [the backend removed the key during the run]"
	w4RevokeRaced   = " [a revoke of the key ran while a track command of the connection naming it was being handled]"
	w4SubRaced      = " [closed or unsubscribed while the subscribe command of the connection was being handled]"
)

// c05Class narrows the signature by what the connection itself was doing with the keys
// that left a trace (triage only: a verdict never depends on it). what = "keys" for keyed
// tracking state, "presence" for presence entries.
func (cl *w4Conn) c05Class(what string, keys []string) string {
	if what == "presence" {
		if cl.subRaced {
			return w4SubRaced
		}
		return ""
	}
	for _, k := range keys {
		if n := cl.named[k]; n != nil && n.overlapped {
			return w4Overlap
		}
	}
	for _, k := range keys {
		if n := cl.named[k]; n != nil && n.serverOverlap {
			return w4ServerOverlap
		}
	}
	for _, k := range keys {
		if n := cl.named[k]; n != nil && n.raced {
			return w4TrackRaced
		}
	}
	for _, k := range keys {
		if n := cl.named[k]; n != nil && n.revoked {
			return w4RevokeRaced
		}
	}
	for _, k := range keys {
		if cl.w.bdelKeys[k] {
			return w4BackendRemoved
		}
	}
	return ""
}

func (cl *w4Conn) c05Story() string {
	by := "server or peer during the scenario"
	if cl.closedByEnd {
		by = "the harness (peer close) after the scenario"
	}
	var named []string
	for k, n := range cl.named {
		named = append(named, fmt.Sprintf("%s x%d", k, n.tracks))
	}
	sort.Strings(named)
	return fmt.Sprintf("connection %d (user %s, %s) closed at %v with code %d %q by %s; commands the server was still handling at the close: %v; track commands it sent: %v; subscribes sent: %d",
		cl.idx, cl.spec.User, cl.spec.Proto, cl.closedAt, cl.closeCode, cl.closeReason, by, cl.atClose, named, cl.subsSent)
}

// c05Traces lists everything the node still holds for closed connections. all = every
// connection has been closed: the global registries must be empty as well.
func (w *w4World) c05Traces(all bool) []w4Trace {
	var out []w4Trace
	add := func(clause, sig, format string, args ...any) {
		out = append(out, w4Trace{clause, sig, fmt.Sprintf(format, args...)})
	}
	cfg := w.sc.Cfg
	hubSubs := w.keyedHubSnapshot()
	var hubKeys []string
	for k := range hubSubs {
		hubKeys = append(hubKeys, k)
	}
	sort.Strings(hubKeys)
	st := w.stateSnapshot()
	var closed, live []*w4Conn
	for _, cl := range w.conns {
		if cl.client == nil {
			continue
		}
		if cl.tr.closed {
			closed = append(closed, cl)
		} else {
			live = append(live, cl)
		}
	}
	var presence map[string]*ClientInfo
	if w.shutdownDone {
		// Shutdown closed the presence manager and the map broker (expiry loops stopped)
		cfg.Presence = ""
	}
	if strings.ContainsRune(cfg.Presence, 'e') {
		if res, err := w.node.Presence(w4Channel); err == nil {
			presence = res.Presence
		}
	}
	mapKeys := func(ch string) (map[string]bool, bool) {
		res, err := w.node.MapStateRead(context.Background(), ch, MapReadStateOptions{Limit: -1})
		if err != nil {
			return nil, false
		}
		keys := map[string]bool{}
		for _, p := range res.Publications {
			keys[p.Key] = true
		}
		return keys, true
	}
	var clientKeys, userKeys map[string]bool
	if strings.ContainsRune(cfg.Presence, 'M') {
		clientKeys, _ = mapKeys(w4MapClientPresence)
	}
	if strings.ContainsRune(cfg.Presence, 'U') {
		userKeys, _ = mapKeys(w4MapUserPresence)
	}

	for _, cl := range closed {
		c := cl.client
		var inKeys []string
		for _, k := range hubKeys {
			if hasStr(hubSubs[k], c.uid) {
				inKeys = append(inKeys, k)
			}
		}
		registered := w.inConnHub(c)
		if len(inKeys) > 0 {
			var entries []string
			for _, k := range inKeys {
				if it, ok := st.items[k]; ok {
					entries = append(entries, fmt.Sprintf("%s: item index entry version=%d pendingHubJoin=%d, %d subscriber(s) in the hub", k, it.version, it.pending, len(hubSubs[k])))
				} else {
					entries = append(entries, fmt.Sprintf("%s: no item index entry, %d subscriber(s) in the hub", k, len(hubSubs[k])))
				}
			}
			add("keyed-hub-entry-survives", "closed connection is still a subscriber in the keyed hub"+cl.c05Class("keys", inKeys),
				"%s. It is still registered in the keyed hub of %s for key(s) %v [%s]; channel state exists=%v workerRunning=%v (the backend keeps being polled for these keys and every broadcast is offered to the dead connection)",
				cl.c05Story(), w4Channel, inKeys, strings.Join(entries, "; "), st.exists, st.workerRunning)
		}
		tracked, deltaState, inChannels := w.connLeftovers(c)
		if len(tracked) > 0 || deltaState || inChannels {
			if len(inKeys) > 0 || registered {
				add("keyed-state-survives", "closed connection reachable from a node registry keeps keyed tracking state"+cl.c05Class("keys", tracked),
					"%s. Its Client object is still reachable (keyed hub keys %v, connection registry %v) and holds trackedKeys=%v keyed delta state=%v channel context=%v",
					cl.c05Story(), inKeys, registered, tracked, deltaState, inChannels)
			} else {
				w.s.Probe("c05_unreachable_client_object_keeps_state")
			}
		}
		if registered {
			add("connection-registered", "closed connection still registered", "%s. It is still in the connection/session registry of the hub", cl.c05Story())
		}
		if chs := w.hubChannelsOf(c); len(chs) > 0 {
			add("routing-entry-survives", "hub entry of closed connection", "%s. The hub still routes %v to it", cl.c05Story(), chs)
		}
		if _, ok := presence[c.uid]; ok {
			add("presence-survives", "presence entry of closed connection (shared poll subscription)"+cl.c05Class("presence", nil), "%s. It is still in the presence of %s", cl.c05Story(), w4Channel)
		}
		if clientKeys[c.uid] {
			add("map-presence-survives", "map client presence entry of closed connection (shared poll subscription)"+cl.c05Class("presence", nil), "%s. Its client id is still a key of %s", cl.c05Story(), w4MapClientPresence)
		}
	}

	// map USER presence: keys are left to their TTL by design; a key may stay while a live
	// connection of that user holds the subscription (its presence tick refreshes it)
	if len(userKeys) > 0 {
		// (conservative: any live connection of the user excuses the key - it may hold the
		// subscription on and off, e.g. a client in a resubscribe loop refreshes the TTL)
		holders := map[string]bool{}
		for _, cl := range live {
			holders[cl.spec.User] = true
		}
		var users []string
		for u := range userKeys {
			users = append(users, u)
		}
		sort.Strings(users)
		for _, u := range users {
			if !holders[u] {
				add("map-user-presence-survives", "map user presence key outlives its TTL although the user has no connection",
					"user %s is still a key of %s (KeyTTL %v) although that user has no live connection", u, w4MapUserPresence, w4UserPresenceTTL)
			}
		}
	}

	// item index entries / channel state kept alive by nobody. (While a live connection keeps
	// resubscribing and re-tracking by itself - auto resubscribe after insufficient-state
	// unsubscribes - the channel is not quiet: these two clauses wait for the end phase.)
	busy := false
	for _, cl := range live {
		if cl.spec.AutoResub {
			busy = true
		}
	}
	if st.exists && !w.shutdownDone && !busy {
		var itemKeys []string
		for k := range st.items {
			itemKeys = append(itemKeys, k)
		}
		sort.Strings(itemKeys)
		anyClosedNamed := false
		for _, cl := range closed {
			if len(cl.named) > 0 {
				anyClosedNamed = true
			}
		}
		for _, k := range itemKeys {
			if len(hubSubs[k]) > 0 {
				continue // held by a live connection, or by a closed one (reported above)
			}
			it := st.items[k]
			var who []*w4Conn
			liveNamed := false
			for _, cl := range closed {
				if cl.named[k] != nil {
					who = append(who, cl)
				}
			}
			for _, cl := range live {
				if cl.named[k] != nil {
					liveNamed = true
				}
			}
			if len(who) == 0 {
				// not attributable to a closed connection: outside C05
				w.s.Probe("c05_orphan_item_entry_not_attributable_to_a_closed_connection")
				continue
			}
			class := ""
			for _, cl := range who {
				if c := cl.c05Class("keys", []string{k}); c != "" {
					class = c
					break
				}
			}
			sig := "item index entry without any subscriber after the connections that tracked the key closed"
			if it.pending > 0 {
				sig = "hub-join reservation (pendingHubJoin) never released after the connections that tracked the key closed"
			}
			if liveNamed {
				class += " [a live connection named the key as well]"
			}
			var stories []string
			for _, cl := range who {
				stories = append(stories, cl.c05Story())
			}
			add("item-index-entry-survives", sig+class,
				"key %s: item index entry version=%d pendingHubJoin=%d needsBroadcast=%v, no subscriber in the keyed hub (the refresh worker keeps polling the backend for it). Closed connections that tracked it: %s",
				k, it.version, it.pending, it.needsBroadcast, strings.Join(stories, " | "))
		}
		if len(itemKeys) == 0 && anyClosedNamed {
			sig := "shared-poll channel state without tracked keys is not shut down after its tracking connections closed"
			if w.bdelSeen {
				sig += " [the backend removed a key]"
			}
			if cfg.ShutdownMs < 0 {
				sig += " [immediate channel shutdown]"
			}
			add("channel-state-survives", sig, "channel state of %s: no tracked keys, removed=%v workerRunning=%v shutdown timer armed=%v, shutdown_ms=%d; live connections: %d",
				w4Channel, st.removed, st.workerRunning, st.timerArmed, cfg.ShutdownMs, len(live))
		}
	}

	if !all {
		return out
	}
	for _, cl := range live {
		add("transport-not-closed", "transport not closed after close", "connection %d: the close function returned but Transport.Close was never called", cl.idx)
	}
	if len(hubKeys) > 0 {
		known := map[string]bool{}
		for _, cl := range closed {
			known[cl.client.uid] = true
		}
		for _, k := range hubKeys {
			for _, uid := range hubSubs[k] {
				if !known[uid] {
					add("keyed-hub-entry-survives", "keyed hub holds an unknown subscriber after every connection closed", "key %s: subscriber %s", k, uid)
				}
			}
		}
	}
	if !w.shutdownDone {
		// (a key whose item index entry is still there was reported above: its broker
		// subscription is a consequence)
		var orphan []string
		for _, kc := range w.brokerKeySubs() {
			_, k := parseSharedPollKeyChannel(kc)
			if _, pinned := st.items[k]; !pinned {
				orphan = append(orphan, kc)
			}
		}
		if len(orphan) > 0 {
			sig := "broker subscription of a shared-poll key channel without item index entry after every connection closed"
			if w.bdelSeen {
				sig += " [the backend removed a key]"
			}
			add("broker-key-subscription-survives", sig, "key channels still subscribed at the broker: %v (state exists=%v)", orphan, st.exists)
		}
	}
	g := w.snapshotGauges()
	if g.conns != w.base.conns {
		add("connections-gauge", "connections gauge did not return", "connections_inflight=%v after all connections ended, %v before the first one", g.conns, w.base.conns)
	}
	if g.subs != w.base.subs {
		add("subscriptions-gauge", "subscriptions gauge did not return", "subscriptions_inflight=%v after all connections ended, %v before the first one", g.subs, w.base.subs)
	}
	if n := w.node.hub.NumClients(); n != 0 {
		add("num-clients", "connections registered after all ended", "hub has %d clients", n)
	}
	if n := w.node.hub.NumSubscriptions(); n != 0 {
		add("num-subscriptions", "hub subscriptions after all connections ended", "hub has %d subscriptions, %d subscribers of %s", n, w.node.hub.NumSubscribers(w4Channel), w4Channel)
	}
	{
		known := map[string]bool{}
		for _, cl := range closed {
			known[cl.client.uid] = true
		}
		var uids []string
		for uid := range presence {
			if !known[uid] {
				uids = append(uids, uid)
			}
		}
		sort.Strings(uids)
		if len(uids) > 0 {
			add("presence-survives", "presence of the channel holds unknown clients after all connections ended", "presence entries %v", uids)
		}
	}
	return out
}

// c05Check evaluates the oracle as a bounded eventually and reports what is left.
func (w *w4World) c05Check(when string, all bool) int {
	s := w.s
	var tr []w4Trace
	for i := 0; ; i++ {
		tr = w.c05Traces(all)
		if len(tr) == 0 || i >= 10 {
			break
		}
		s.Probe("c05_waited_for_drain")
		s.Sleep(time.Second)
	}
	for _, t := range tr {
		s.Event("C05 %s: %s / %s", when, t.clause, t.sig)
		s.Violate("C05", t.clause, t.sig, "%s: %s", when, t.detail)
	}
	return len(tr)
}

// c05Finish: quiesce, settle, judge the connections closed during the scenario, close the
// rest, settle, judge everything.
func (w *w4World) c05Finish() {
	s := w.s
	w.traffic = false
	w.quiesceAt = s.Now()
	s.Event("quiesce")
	for i := 0; i < 20 && w.pendingAsync > 0; i++ {
		s.Sleep(time.Second)
	}
	s.Sleep(3 * time.Second)
	for _, cl := range w.conns {
		if cl.client == nil || !cl.tr.closed {
			continue
		}
		s.Probe("c05_closed_in_scenario")
		if len(cl.named) > 0 {
			// measured non-triviality: a connection that had used keyed tracking was
			// closed by the scenario and is judged while other state is still alive
			s.Probe("nontrivial:C05")
		}
	}
	n := w.c05Check("settled", false)
	for _, cl := range w.conns {
		cl.cmdMu.Lock()
		cl.readerDone = true
		cl.cmdMu.Unlock()
		if cl.closeFn != nil && !cl.tr.closed {
			cl.closedByEnd = true
			s.Event("c%d closed by the harness", cl.idx)
			_ = cl.closeFn()
		}
	}
	s.Sleep(2 * time.Second)
	n += w.c05Check("end", true)
	if n == 0 && !w.shutdownDone {
		// observable side of "no keyed-tracking registration": nobody tracks anything, so
		// the backend is not polled any more
		before := w.pollCalls
		s.Sleep(2*time.Duration(w.sc.Cfg.RefreshMs)*time.Millisecond + 100*time.Millisecond)
		if w.pollCalls != before {
			s.Violate("C05", "poll-after-all-closed", "backend still polled after every connection closed", "%d OnSharedPoll calls in the %v after every connection was closed and all registries were found empty", w.pollCalls-before, 2*time.Duration(w.sc.Cfg.RefreshMs)*time.Millisecond)
		}
	}
	ctx, cancel := context.WithTimeout(context.Background(), 30*time.Second)
	_ = w.node.Shutdown(ctx)
	cancel()
	s.Sleep(2 * time.Second)
}

// ---------------------------------------------------------------- generator

// rendezvous instants (ms) of C05 scripts: dense, so that closes coincide with commands,
// handler completions, polls and broadcasts
var w4C05Rendezvous = []int{5, 10, 20, 30, 50, 80, 100, 150, 200, 300}

func w4GenC05(c *simrt.Choice, tier string) any {
	sc := &w4Script{}
	cfg := &sc.Cfg
	cfg.C05 = true
	cfg.Versioned = c.Intn(3) != 0
	cfg.KeepLatest = c.Intn(2) == 0
	cfg.RefreshMs = []int{60, 200, 1000}[c.Intn(3)]
	cfg.BatchSize = []int{0, 1}[c.Intn(2)]
	cfg.ShutdownMs = []int{0, -1, 30}[c.Intn(3)]
	cfg.PublishEnabled = c.Intn(3) == 0
	cfg.SkipUnchanged = cfg.Versioned && c.Intn(2) == 0
	if cfg.Versioned && c.Intn(6) == 0 {
		cfg.Epoch0 = "e1"
	}
	cfg.Presence = []string{"", "", "e", "M", "eM", "U", "MU", "eMU"}[c.Intn(8)]
	cfg.PresenceMs = []int{0, 300, 1000}[c.Intn(3)]
	cfg.QueueMax = []int{0, 0, 600, 1500}[c.Intn(4)]
	cfg.ProcDelayUs = []int{0, 0, 0, 20, 200}[c.Intn(5)]
	sc.NKeys = []int{1, 2, 2, 3}[c.Intn(4)]
	pickKey := func() int { return c.Intn(sc.NKeys) }
	at := func() w4Op { return w4Op{K: "at", DelayMs: w4C05Rendezvous[c.Intn(len(w4C05Rendezvous))]} }
	pause := func() w4Op {
		if c.Intn(2) == 0 {
			return at()
		}
		return w4Op{K: "sleep", DelayMs: []int{1, 2, 5, 30, 150}[c.Intn(5)]}
	}
	maxOps := 6
	if tier == "thorough" {
		maxOps = 12
	}
	ncl := 1 + c.Intn(3)
	var stays []int // connections whose own script does not end them
	for i := 0; i < ncl; i++ {
		cl := w4Client{Proto: []string{"json", "protobuf"}[c.Intn(2)], User: "u" + strconv.Itoa(i%2)}
		cl.Delta = c.Intn(3) != 0
		cl.AutoResub = cfg.Epoch0 != "" && c.Intn(2) == 0
		if c.Intn(3) == 0 {
			cl.Ops = append(cl.Ops, at())
		}
		sub := w4Op{K: "sub"}
		if c.Intn(4) == 0 {
			sub.DelayMs = []int{1, 5, 30}[c.Intn(3)] // asynchronous OnSubscribe
		}
		cl.Ops = append(cl.Ops, sub)
		track := func() w4Op {
			op := w4Op{K: "track", Keys: []int{pickKey()}}
			if c.Intn(3) == 0 {
				op.Keys = append(op.Keys, pickKey())
			}
			if c.Intn(3) == 0 {
				op.DelayMs = []int{1, 10, 80}[c.Intn(3)] // asynchronous OnTrack
			}
			if c.Intn(16) == 0 {
				op.Err = true
			}
			if c.Intn(10) == 0 {
				op.Unt = []int{op.Keys[c.Intn(len(op.Keys))]}
			}
			return op
		}
		if c.Intn(5) != 0 {
			if c.Intn(3) == 0 {
				cl.Ops = append(cl.Ops, pause())
			}
			cl.Ops = append(cl.Ops, track())
		}
		nops := c.Intn(maxOps)
		for j := 0; j < nops; j++ {
			var op w4Op
			switch c.Pick(6, 3, 8, 1, 1) {
			case 0:
				op = track()
			case 1:
				op = w4Op{K: "untrack", Keys: []int{pickKey()}}
			case 2:
				op = pause()
			case 3:
				op = w4Op{K: "unsub"}
			case 4:
				op = w4Op{K: "sub"}
			}
			cl.Ops = append(cl.Ops, op)
		}
		// how the connection ends (0 = it stays until an admin kills it or the run ends)
		end := c.Pick(4, 3, 2, 1, 2, 1)
		if cfg.QueueMax > 0 && c.Intn(2) == 0 {
			end = 4 // a stalled transport under a small queue limit: slow consumer
		}
		if end == 0 {
			stays = append(stays, i)
		}
		switch end {
		case 1:
			cl.Ops = append(cl.Ops, w4Op{K: "close"})
		case 2:
			cl.Ops = append(cl.Ops, w4Op{K: "cdisc", Mode: c.Intn(2)})
		case 3:
			cl.Ops = append(cl.Ops, w4Op{K: "failw"}, pause(), track())
		case 4:
			cl.Ops = append(cl.Ops, w4Op{K: "stall"}, pause(), track())
		case 5:
			cl.Ops = append(cl.Ops, w4Op{K: "resume", DelayMs: []int{1, 50, 1500}[c.Intn(3)]}, pause())
			if c.Intn(2) == 0 {
				cl.Ops = append(cl.Ops, w4Op{K: "close"})
			}
		}
		sc.Clients = append(sc.Clients, cl)
	}
	// backend writers: keep broadcasts and polls in flight
	nb := 1 + c.Intn(2)
	for i := 0; i < nb; i++ {
		var ops []w4Op
		k := 2 + c.Intn(maxOps+4)
		for j := 0; j < k; j++ {
			switch c.Pick(3, 5, 5, 6, 3, 1) {
			case 0:
				ops = append(ops, w4Op{K: "bump", Keys: []int{pickKey()}})
			case 1:
				ops = append(ops, w4Op{K: "bumpn", Keys: []int{pickKey()}})
			case 2:
				if cfg.Versioned {
					ops = append(ops, w4Op{K: "pub", Keys: []int{pickKey()}})
				} else {
					ops = append(ops, w4Op{K: "bumpn", Keys: []int{pickKey()}})
				}
			case 3:
				ops = append(ops, pause())
			case 4:
				ops = append(ops, w4Op{K: "burst", Keys: []int{pickKey()}, N: 2 + c.Intn(2), Mode: c.Intn(3)})
			case 5:
				if cfg.Epoch0 != "" && c.Intn(2) == 0 {
					ops = append(ops, w4Op{K: "flip"})
				} else if c.Intn(3) == 0 {
					ops = append(ops, w4Op{K: "bdel", Keys: []int{pickKey()}})
				}
			}
		}
		sc.Backend = append(sc.Backend, ops)
	}
	// admin tasks: kills at rendezvous instants, revokes, node-level unsubscribe/disconnect
	na := 1 + c.Intn(2)
	for i := 0; i < na; i++ {
		var ops []w4Op
		k := 1 + c.Intn(4)
		for j := 0; j < k; j++ {
			ops = append(ops, pause())
			if c.Intn(3) == 0 {
				ops = append(ops, w4Op{K: "sleep", DelayMs: []int{1, 2, 5}[c.Intn(3)]})
			}
			switch c.Pick(8, 3, 2, 2) {
			case 0:
				ops = append(ops, w4Op{K: "kill", C: c.Intn(ncl), Mode: c.Intn(5)})
			case 1:
				ops = append(ops, w4Op{K: "revoke", Keys: []int{pickKey()}, Mode: c.Intn(3), User: "u" + strconv.Itoa(c.Intn(2))})
			case 2:
				ops = append(ops, w4Op{K: "nunsub", User: "u" + strconv.Itoa(c.Intn(2))})
			case 3:
				ops = append(ops, w4Op{K: "ndisc", User: "u" + strconv.Itoa(c.Intn(2))})
			}
		}
		if i == 0 && c.Intn(25) == 0 {
			ops = append(ops, pause(), w4Op{K: "shutdown"})
		}
		sc.Admins = append(sc.Admins, ops)
	}
	// racing close: a connection sends a command at a rendezvous instant and an admin task
	// closes it at the very instant the command (or its asynchronous completion) is handled
	nr := c.Intn(3)
	for i := 0; i < nr && len(stays) > 0; i++ {
		si := c.Intn(len(stays))
		ci := stays[si]
		stays = append(stays[:si:si], stays[si+1:]...)
		t := w4C05Rendezvous[c.Intn(len(w4C05Rendezvous))] + 400
		var cmd w4Op
		switch c.Pick(6, 2, 2, 1) {
		case 0:
			cmd = w4Op{K: "track", Keys: []int{pickKey()}}
			if c.Intn(2) == 0 {
				cmd.DelayMs = []int{1, 10}[c.Intn(2)]
			}
		case 1:
			cmd = w4Op{K: "untrack", Keys: []int{pickKey()}}
		case 2:
			cmd = w4Op{K: "sub"}
			if c.Intn(2) == 0 {
				cmd.DelayMs = []int{1, 5}[c.Intn(2)]
			}
		case 3:
			cmd = w4Op{K: "unsub"}
		}
		sc.Clients[ci].Ops = append(sc.Clients[ci].Ops, w4Op{K: "at", DelayMs: t}, cmd)
		kops := []w4Op{{K: "at", DelayMs: t}}
		if cmd.DelayMs > 0 {
			kops = append(kops, w4Op{K: "sleep", DelayMs: cmd.DelayMs})
		}
		if cfg.ProcDelayUs > 0 {
			kops = append(kops, w4Op{K: "usleep", Us: cfg.ProcDelayUs / 2})
		}
		if c.Intn(4) == 0 {
			// teardown of the subscription only: the connection itself is closed later
			kops = append(kops, w4Op{K: "nunsub", User: sc.Clients[ci].User})
		} else {
			kops = append(kops, w4Op{K: "kill", C: ci, Mode: []int{0, 0, 4, 3, 1}[c.Intn(5)]})
		}
		sc.Admins = append(sc.Admins, kops)
	}
	np := 1 + c.Intn(4)
	for i := 0; i < np; i++ {
		p := w4Poll{DelayMs: []int{0, 0, 1, 10, 60, 250}[c.Intn(6)]}
		p.SnapEnd = c.Intn(2) == 1
		p.Err = c.Intn(8) == 7
		sc.Polls = append(sc.Polls, p)
	}
	return sc
}
