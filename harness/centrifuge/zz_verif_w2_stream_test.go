//go:build verif

package centrifuge

// W2s: the in-memory stream broker (MemoryBroker: historyHub + memstream.Stream + result
// cache) driven directly by 1..3 harness tasks on 1..2 channels, with its real cleanup
// goroutines (expireStreams, removeStreams, expireResultCache) on the virtual clock.
// Decides C17 and the memory-stream half of C19.
//
// Oracle: an executable reference model of one channel (bounded append-only stream with
// top / epoch / retained entries / entry deadline / metadata deadline / top version /
// idempotency result cache). A history recorded by one task is folded through the model
// operation by operation; a concurrent history is checked for linearizability against
// the same model with porcupine.

import (
	"context"
	"fmt"
	"sort"
	"strings"
	"time"

	"github.com/anishathalye/porcupine"
	simrt "github.com/centrifugal/centrifuge/internal/simrt"
	"github.com/prometheus/client_golang/prometheus"
)

type w2sOp struct {
	K     string `json:"k"` // pub | hist | rm | sleep
	Ch    int    `json:"ch,omitempty"`
	Size  int    `json:"sz,omitempty"`
	TTL   int    `json:"ttl,omitempty"`  // seconds
	Meta  int    `json:"meta,omitempty"` // seconds, 0 = node default
	IK    int    `json:"ik,omitempty"`   // idempotency key number, 0 = none
	ITTL  int    `json:"ittl,omitempty"` // seconds, 0 = broker default
	Ver   uint64 `json:"ver,omitempty"`
	VE    int    `json:"ve,omitempty"`    // version epoch number, 0 = ""
	HS    int    `json:"hs,omitempty"`    // the event handler sleeps this many ms inside this publish
	Since int    `json:"since,omitempty"` // 0 = no since, 1 = offset relative to the top last seen by the task
	Rel   int    `json:"rel,omitempty"`
	EK    int    `json:"ek,omitempty"` // since epoch: 0 last seen, 1 empty, 2 bogus
	Lim   int    `json:"lim,omitempty"`
	Rev   bool   `json:"rev,omitempty"`
	Ms    int    `json:"ms,omitempty"`
}

type w2sScript struct {
	MetaSec int       `json:"meta_sec"` // Config.HistoryMetaTTL in seconds, 0 = library default
	Grid    bool      `json:"grid"`     // all sleeps/TTLs chosen so that no operation is near a TTL boundary
	Vary    bool      `json:"vary"`     // publishes of one channel may use different sizes/TTLs
	NCh     int       `json:"nch"`
	Tasks   [][]w2sOp `json:"tasks"`
	Final   []w2sOp   `json:"final"` // executed by the main task after all tasks finished
}

var w2sVEs = []string{"", "ea", "eb"}

func w2sGen(c *simrt.Choice, prop, tier string) any {
	sc := &w2sScript{}
	sc.Grid = c.Intn(2) == 0
	sc.NCh = 1 + c.Pick(3, 1)
	sc.Vary = c.Intn(6) == 5
	ntasks := 1 + c.Pick(3, 4, 2)
	type chCfg struct{ size, ttl, meta int }
	cfgs := make([]chCfg, sc.NCh)
	var ttls, metas, ittls, sleeps []int
	if sc.Grid {
		// every operation happens at a multiple of 4 s, every deadline is 2 mod 4 s
		ttls, metas, ittls, sleeps = []int{6, 10}, []int{0, 0, 14, 18}, []int{0, 2, 6}, []int{4000, 4000, 8000, 12000}
		sc.MetaSec = []int{0, 0, 22}[c.Intn(3)]
	} else {
		ttls, metas, ittls, sleeps = []int{2, 1, 3, 5}, []int{0, 0, 6, 9}, []int{0, 1, 2}, []int{1, 200, 700, 1000, 1300, 2100, 3500}
		sc.MetaSec = []int{0, 0, 7}[c.Intn(3)]
	}
	for i := range cfgs {
		cfgs[i] = chCfg{size: []int{3, 1, 2, 5}[c.Intn(4)], ttl: ttls[c.Intn(len(ttls))], meta: metas[c.Intn(len(metas))]}
	}
	dedup := 2 // weight of idempotency/version decoration
	if prop == "C19" {
		dedup = 7
	}
	perCh := make([]int, sc.NCh)
	maxPerCh := 10
	genOp := func() (w2sOp, bool) {
		ch := c.Intn(sc.NCh)
		switch c.Pick(5, 4, 1, 3) {
		case 0:
			if perCh[ch] >= maxPerCh {
				return w2sOp{}, false
			}
			perCh[ch]++
			op := w2sOp{K: "pub", Ch: ch, Size: cfgs[ch].size, TTL: cfgs[ch].ttl, Meta: cfgs[ch].meta}
			if c.Intn(8) == 0 {
				op.Size = []int{1, 2, 3, 5}[c.Intn(4)]
			}
			if sc.Vary && c.Intn(4) == 0 {
				op.TTL = ttls[c.Intn(len(ttls))]
			}
			if sc.Vary && c.Intn(5) == 0 {
				op.Meta = metas[c.Intn(len(metas))]
			}
			if c.Intn(10) < dedup {
				switch c.Pick(3, 3, 1) {
				case 0:
					op.IK = 1 + c.Intn(2)
					op.ITTL = ittls[c.Intn(len(ittls))]
				case 1:
					op.Ver = []uint64{1, 2, 3, 5, 1 << 53, 1<<53 + 1}[c.Intn(6)]
					op.VE = c.Pick(4, 2, 1)
				case 2:
					op.IK = 1 + c.Intn(2)
					op.ITTL = ittls[c.Intn(len(ittls))]
					op.Ver = []uint64{1, 2, 3}[c.Intn(3)]
				}
			}
			if !sc.Grid && c.Intn(6) == 0 {
				op.HS = []int{300, 1200, 2500}[c.Intn(3)]
			}
			if c.Intn(40) == 0 {
				op.Size, op.TTL = 0, 0 // publish without history
			}
			return op, true
		case 1:
			if perCh[ch] >= maxPerCh {
				return w2sOp{}, false
			}
			perCh[ch]++
			op := w2sOp{K: "hist", Ch: ch, Lim: []int{-1, -1, 0, 1, 2, 3}[c.Intn(6)], Rev: c.Intn(3) == 0, Meta: cfgs[ch].meta}
			if c.Intn(2) == 0 {
				op.Since = 1
				op.Rel = []int{0, -1, -2, -3, 1, 2}[c.Intn(6)]
				op.EK = c.Pick(6, 1, 1)
			}
			return op, true
		case 2:
			if perCh[ch] >= maxPerCh {
				return w2sOp{}, false
			}
			perCh[ch]++
			return w2sOp{K: "rm", Ch: ch}, true
		}
		return w2sOp{K: "sleep", Ms: sleeps[c.Intn(len(sleeps))]}, true
	}
	for t := 0; t < ntasks; t++ {
		n := 2 + c.Intn(8)
		var ops []w2sOp
		for i := 0; i < n; i++ {
			if op, ok := genOp(); ok {
				ops = append(ops, op)
			}
		}
		sc.Tasks = append(sc.Tasks, ops)
	}
	for ch := 0; ch < sc.NCh; ch++ {
		sc.Final = append(sc.Final, w2sOp{K: "hist", Ch: ch, Lim: -1, Meta: cfgs[ch].meta})
	}
	if c.Intn(3) != 0 {
		sc.Final = append(sc.Final, w2sOp{K: "sleep", Ms: sleeps[c.Intn(len(sleeps))] * (1 + c.Intn(3))})
		for ch := 0; ch < sc.NCh; ch++ {
			sc.Final = append(sc.Final, w2sOp{K: "hist", Ch: ch, Lim: -1, Rev: c.Intn(2) == 1, Meta: cfgs[ch].meta})
		}
	}
	if prop == "C19" && !sc.Grid && c.Intn(10) == 0 {
		// key-reuse-around-expiry scenario (drawn last): one more task publishes the same
		// idempotency key three times: once, again shortly after its result TTL elapsed
		// (a fresh publish, usually before the once-a-second cleanup has dropped the old
		// result) and once more well inside the new result's TTL (must be suppressed)
		ttl := []int{2, 3}[c.Intn(2)]
		pub := func() w2sOp {
			return w2sOp{K: "pub", Ch: 0, Size: cfgs[0].size, TTL: cfgs[0].ttl, Meta: cfgs[0].meta, IK: 1, ITTL: ttl}
		}
		sc.Tasks = append(sc.Tasks, []w2sOp{
			{K: "sleep", Ms: []int{1, 200, 700}[c.Intn(3)]}, pub(),
			{K: "sleep", Ms: ttl*1000 + []int{100, 300, 600}[c.Intn(3)]}, pub(),
			{K: "sleep", Ms: []int{700, 1000, 1300}[c.Intn(3)]}, pub(),
		})
	}
	return sc
}

func w2sShrinks(script any) []any {
	sc := script.(*w2sScript)
	var out []any
	clone := func() *w2sScript {
		c := *sc
		c.Tasks = nil
		for _, t := range sc.Tasks {
			c.Tasks = append(c.Tasks, append([]w2sOp(nil), t...))
		}
		c.Final = append([]w2sOp(nil), sc.Final...)
		return &c
	}
	for t := range sc.Tasks {
		if len(sc.Tasks) > 1 {
			c := clone()
			c.Tasks = append(c.Tasks[:t], c.Tasks[t+1:]...)
			out = append(out, c)
		}
	}
	for t := range sc.Tasks {
		for i := range sc.Tasks[t] {
			c := clone()
			c.Tasks[t] = append(c.Tasks[t][:i], c.Tasks[t][i+1:]...)
			out = append(out, c)
		}
	}
	for i := range sc.Final {
		c := clone()
		c.Final = append(c.Final[:i], c.Final[i+1:]...)
		out = append(out, c)
	}
	for t := range sc.Tasks {
		for i, op := range sc.Tasks[t] {
			if op.HS != 0 {
				c := clone()
				c.Tasks[t][i].HS = 0
				out = append(out, c)
			}
			if op.IK != 0 {
				c := clone()
				c.Tasks[t][i].IK, c.Tasks[t][i].ITTL = 0, 0
				out = append(out, c)
			}
			if op.Ver != 0 && op.K == "pub" {
				c := clone()
				c.Tasks[t][i].Ver, c.Tasks[t][i].VE = 0, 0
				out = append(out, c)
			}
			if op.K == "hist" && (op.Since != 0 || op.Rev) {
				c := clone()
				c.Tasks[t][i].Since, c.Tasks[t][i].Rel, c.Tasks[t][i].EK, c.Tasks[t][i].Rev = 0, 0, 0, false
				out = append(out, c)
			}
		}
	}
	if sc.MetaSec != 0 {
		c := clone()
		c.MetaSec = 0
		out = append(out, c)
	}
	return out
}

// ---------------------------------------------------------------------------------
// reference model of one channel of the stream broker

type w2sEnt struct {
	Off  uint64
	Data string
}

type w2sCacheEnt struct {
	IK     string
	Pos    StreamPosition
	Lo, Hi int64 // the result is forgotten at some time in [Lo, Hi]
}

type w2sState struct {
	Exists    bool // stream metadata (top, epoch) exists
	Epoch     string
	Old       []string // epochs of discarded incarnations
	Top       uint64
	Ents      []w2sEnt
	EntArmed  bool // retained entries expire at some time in [EntLo, EntHi] (+- resolution)
	EntLo     int64
	EntHi     int64
	MetaArmed bool
	MetaLo    int64
	MetaHi    int64
	Ver       uint64
	VEp       string
	Cache     []w2sCacheEnt
	k         string
}

func (st *w2sState) key() string {
	if st.k == "" {
		st.k = fmt.Sprintf("%v|%s|%v|%d|%v|%v,%d,%d|%v,%d,%d|%d,%s|%v", st.Exists, st.Epoch, st.Old, st.Top, st.Ents, st.EntArmed, st.EntLo, st.EntHi, st.MetaArmed, st.MetaLo, st.MetaHi, st.Ver, st.VEp, st.Cache)
	}
	return st.k
}

func (st *w2sState) clone() *w2sState {
	c := *st
	c.k = ""
	c.Old = append([]string(nil), st.Old...)
	c.Ents = append([]w2sEnt(nil), st.Ents...)
	c.Cache = append([]w2sCacheEnt(nil), st.Cache...)
	return &c
}

type w2sIn struct {
	Kind  byte // 'p' publish, 'h' history, 'r' remove history
	Data  string
	Size  int
	TTL   int64
	Meta  int64 // effective metadata TTL (ns)
	IK    string
	ITTL  int64
	Ver   uint64
	VEp   string
	Since *StreamPosition
	Lim   int
	Rev   bool
	A, B  int64 // the effect happened at a virtual time in [A, B]
	id    int
}

type w2sOut struct {
	Err        string
	Pos        StreamPosition
	Suppressed bool
	Reason     string
	Pubs       []w2sEnt
}

func (o *w2sOut) String() string {
	if o.Err != "" {
		return "err:" + o.Err
	}
	s := w2PosStr(o.Pos)
	if o.Suppressed {
		s += " suppressed(" + o.Reason + ")"
	}
	if o.Pubs != nil {
		s += fmt.Sprintf(" pubs=%v", o.Pubs)
	}
	return s
}

// w2sFlags relax the model; used only to name what a failing history is explained by.
type w2sFlags struct {
	UnverReset   bool // an unversioned publish forgets the channel's version
	SupprRefresh bool // a version-suppressed publish refreshes history/meta deadlines
	LateOK       bool // entries/metadata may outlive their deadline
	AnyDedup     bool // any idempotency/version decision is accepted (C17-only view)
}

func (f w2sFlags) String() string {
	var p []string
	if f.UnverReset {
		p = append(p, "unversioned publish resets the version protection")
	}
	if f.SupprRefresh {
		p = append(p, "version-suppressed publish refreshes history/meta TTL")
	}
	if f.LateOK {
		p = append(p, "history/meta outlives the TTL of the last publish")
	}
	return strings.Join(p, " + ")
}

type w2sModel struct {
	f       w2sFlags
	slack   int64        // TTL resolution / sweep period: 1 s around a deadline either state is allowed
	relaxed map[int]bool // operations that met an undecided deadline
}

type w2sCand struct {
	st   *w2sState
	out  w2sOut
	bind bool // out.Pos.Epoch is a fresh epoch: bind it to the observed one
}

// pre: the spontaneous transitions (entry expiry, metadata removal) that may or must
// have happened before an effect at a time in [a, b].
func (m *w2sModel) pre(st *w2sState, in *w2sIn) []*w2sState {
	res := []*w2sState{st}
	if st.EntArmed {
		must := in.A > st.EntHi+m.slack && !m.f.LateOK
		may := in.B >= st.EntLo-m.slack
		if must || may {
			e := st.clone()
			e.Ents, e.EntArmed, e.EntLo, e.EntHi = nil, false, 0, 0
			if must {
				res = []*w2sState{e}
			} else {
				res = append(res, e)
				if in.A <= st.EntHi+m.slack {
					m.relaxed[in.id] = true
				}
			}
		}
	}
	if st.Exists && st.MetaArmed {
		must := in.A > st.MetaHi+m.slack && !m.f.LateOK
		may := in.B >= st.MetaLo-m.slack
		if must || may {
			var nxt []*w2sState
			for _, x := range res {
				e := x.clone()
				e.Old = append(e.Old, e.Epoch)
				e.Exists, e.Epoch, e.Top, e.Ents, e.Ver, e.VEp = false, "", 0, nil, 0, ""
				e.EntArmed, e.EntLo, e.EntHi, e.MetaArmed, e.MetaLo, e.MetaHi = false, 0, 0, false, 0, 0
				if !must {
					nxt = append(nxt, x)
				}
				nxt = append(nxt, e)
			}
			if !must && in.A <= st.MetaHi+m.slack {
				m.relaxed[in.id] = true
			}
			res = nxt
		}
	}
	return res
}

func (m *w2sModel) cands(st *w2sState, in *w2sIn) []w2sCand {
	switch in.Kind {
	case 'r':
		n := st.clone()
		n.Ents, n.EntArmed, n.EntLo, n.EntHi = nil, false, 0, 0
		return []w2sCand{{st: n}}
	case 'h':
		if !st.Exists {
			n := st.clone()
			n.Exists, n.Top = true, 0
			if in.Meta > 0 {
				n.MetaArmed, n.MetaLo, n.MetaHi = true, in.A+in.Meta, in.B+in.Meta
			}
			return []w2sCand{{st: n, out: w2sOut{Pos: StreamPosition{Offset: 0}}, bind: true}}
		}
		n := st.clone()
		if in.Meta > 0 {
			n.MetaArmed, n.MetaLo, n.MetaHi = true, in.A+in.Meta, in.B+in.Meta
		}
		pos := StreamPosition{Offset: st.Top, Epoch: st.Epoch}
		var sel []w2sEnt
		if in.Since == nil {
			if in.Rev {
				for i := len(st.Ents) - 1; i >= 0; i-- {
					sel = append(sel, st.Ents[i])
				}
			} else {
				sel = append(sel, st.Ents...)
			}
		} else if !in.Rev {
			for _, e := range st.Ents {
				if e.Off > in.Since.Offset {
					sel = append(sel, e)
				}
			}
		} else {
			for i := len(st.Ents) - 1; i >= 0; i-- {
				if st.Ents[i].Off < in.Since.Offset {
					sel = append(sel, st.Ents[i])
				}
			}
		}
		if in.Lim >= 0 && len(sel) > in.Lim {
			sel = sel[:in.Lim]
		}
		cs := []w2sCand{{st: n, out: w2sOut{Pos: pos, Pubs: sel}}}
		if in.Since != nil && in.Rev && in.Since.Offset > st.Top+1 && len(sel) > 0 {
			// a since position beyond the top of the stream is not a position of the stream:
			// unspecified, nothing or everything below it are both accepted
			cs = append(cs, w2sCand{st: n, out: w2sOut{Pos: pos}})
		}
		return cs
	}
	// publish
	var cs []w2sCand
	if in.IK != "" {
		for _, c := range st.Cache {
			if c.IK != in.IK {
				continue
			}
			aliveSure := in.B < c.Lo-w2Ms // millisecond resolution of the result cache
			deadSure := in.A > c.Hi
			if !deadSure || m.f.AnyDedup {
				cs = append(cs, w2sCand{st: st, out: w2sOut{Pos: c.Pos, Suppressed: true, Reason: string(SuppressReasonIdempotency)}})
			}
			if aliveSure && !m.f.AnyDedup {
				return cs
			}
			if !aliveSure && !deadSure {
				m.relaxed[in.id] = true
			}
		}
	}
	if in.Size <= 0 || in.TTL <= 0 {
		return append(cs, w2sCand{st: st, out: w2sOut{}})
	}
	appendOK := true
	if in.Ver > 0 && st.Exists && (st.Ver > 0 || m.f.AnyDedup) {
		match, ambiguous := in.VEp == st.VEp, in.VEp == "" && st.VEp != ""
		if (in.Ver <= st.Ver && (match || ambiguous)) || m.f.AnyDedup {
			n := st
			if m.f.SupprRefresh {
				n = st.clone()
				n.EntArmed, n.EntLo, n.EntHi = true, in.A+in.TTL, in.B+in.TTL
				if in.Meta > 0 {
					n.MetaArmed, n.MetaLo, n.MetaHi = true, in.A+in.Meta, in.B+in.Meta
				}
			}
			cs = append(cs, w2sCand{st: n, out: w2sOut{Pos: StreamPosition{Offset: st.Top, Epoch: st.Epoch}, Suppressed: true, Reason: string(SuppressReasonVersion)}})
			if match && !m.f.AnyDedup {
				appendOK = false
			}
		}
	}
	if appendOK {
		n := st.clone()
		bind := false
		if !n.Exists {
			n.Exists, n.Top, bind = true, 0, true
		}
		n.Top++
		n.Ents = append(n.Ents, w2sEnt{Off: n.Top, Data: in.Data})
		if len(n.Ents) > in.Size {
			n.Ents = n.Ents[len(n.Ents)-in.Size:]
		}
		n.EntArmed, n.EntLo, n.EntHi = true, in.A+in.TTL, in.B+in.TTL
		if in.Meta > 0 {
			n.MetaArmed, n.MetaLo, n.MetaHi = true, in.A+in.Meta, in.B+in.Meta
		}
		if in.Ver > 0 {
			n.Ver, n.VEp = in.Ver, in.VEp
		} else if m.f.UnverReset {
			n.Ver, n.VEp = 0, ""
		}
		pos := StreamPosition{Offset: n.Top, Epoch: n.Epoch}
		// the idempotency result is saved in step(), after the epoch is bound
		cs = append(cs, w2sCand{st: n, out: w2sOut{Pos: pos}, bind: bind})
	}
	return cs
}

func w2sEntsEqual(a, b []w2sEnt) bool {
	if len(a) != len(b) {
		return false
	}
	for i := range a {
		if a[i] != b[i] {
			return false
		}
	}
	return true
}

// step returns the model states after the operation, given that it produced out.
func (m *w2sModel) step(st *w2sState, in *w2sIn, out *w2sOut) []*w2sState {
	var res []*w2sState
	for _, p := range m.pre(st, in) {
		for _, c := range m.cands(p, in) {
			if c.out.Err != out.Err || c.out.Suppressed != out.Suppressed || c.out.Reason != out.Reason || c.out.Pos.Offset != out.Pos.Offset || !w2sEntsEqual(c.out.Pubs, out.Pubs) {
				continue
			}
			n := c.st
			if c.bind {
				if out.Pos.Epoch == "" {
					continue
				}
				fresh := true
				for _, o := range n.Old {
					if o == out.Pos.Epoch {
						fresh = false
					}
				}
				if !fresh {
					continue
				}
				n = n.clone()
				n.Epoch = out.Pos.Epoch
			} else if in.Kind != 'r' && c.out.Pos.Epoch != out.Pos.Epoch {
				continue
			}
			if in.Kind == 'p' && !out.Suppressed && in.IK != "" {
				n = n.clone()
				ent := w2sCacheEnt{IK: in.IK, Pos: out.Pos, Lo: in.A + in.ITTL, Hi: in.B + in.ITTL}
				found := false
				for i := range n.Cache {
					if n.Cache[i].IK == in.IK {
						n.Cache[i], found = ent, true
					}
				}
				if !found {
					n.Cache = append(n.Cache, ent)
					sort.Slice(n.Cache, func(i, j int) bool { return n.Cache[i].IK < n.Cache[j].IK })
				}
			}
			res = append(res, n)
		}
	}
	return res
}

// expected describes what the model allows for in from st (diagnostics).
func (m *w2sModel) expected(st *w2sState, in *w2sIn) []string {
	var out []string
	seen := map[string]bool{}
	for _, p := range m.pre(st, in) {
		for _, c := range m.cands(p, in) {
			o := c.out
			if c.bind {
				o.Pos.Epoch = "<fresh>"
			}
			if s := o.String(); !seen[s] {
				seen[s] = true
				out = append(out, s)
			}
		}
	}
	return out
}

func (in *w2sIn) String() string {
	t := fmt.Sprintf("t=[%v,%v]", time.Duration(in.A), time.Duration(in.B))
	switch in.Kind {
	case 'r':
		return "RemoveHistory " + t
	case 'h':
		s := fmt.Sprintf("History(lim=%d rev=%v", in.Lim, in.Rev)
		if in.Since != nil {
			s += " since=" + w2PosStr(*in.Since)
		}
		return s + fmt.Sprintf(" meta=%v) %s", time.Duration(in.Meta), t)
	}
	s := fmt.Sprintf("Publish(%s size=%d ttl=%v meta=%v", in.Data, in.Size, time.Duration(in.TTL), time.Duration(in.Meta))
	if in.IK != "" {
		s += fmt.Sprintf(" idem=%s/%v", in.IK, time.Duration(in.ITTL))
	}
	if in.Ver != 0 {
		s += fmt.Sprintf(" ver=%d/%q", in.Ver, in.VEp)
	}
	return s + ") " + t
}

// ---------------------------------------------------------------------------------

type w2sRec struct {
	task, idx int
	ch        int
	in        *w2sIn
	out       *w2sOut
	call, ret int64
	hev       []*w2HEvent
	op        w2sOp
}

func w2sRun(s *simrt.Sim, script any, prop string) {
	sc := script.(*w2sScript)
	var evc int64
	next := func() int64 { evc++; return evc }
	node, err := New(Config{
		LogLevel:       LogLevelNone,
		HistoryMetaTTL: time.Duration(sc.MetaSec) * time.Second,
		Metrics:        MetricsConfig{RegistererGatherer: prometheus.NewRegistry()},
	})
	if err != nil {
		panic(err)
	}
	b := node.broker.(*MemoryBroker)
	defMeta := int64(node.config.HistoryMetaTTL)
	rec := &w2Recorder{s: s, next: next, tasks: map[int64]int{}}
	byData := map[string]*w2sRec{}
	rec.hook = func(ev *w2HEvent) {
		r := byData[ev.Data]
		if r == nil {
			return
		}
		r.hev = append(r.hev, ev)
		if r.op.HS > 0 && len(r.hev) == 1 {
			s.Probe("handler_sleep")
			s.Sleep(time.Duration(r.op.HS) * time.Millisecond)
		}
	}
	if err := b.RegisterBrokerEventHandler(rec); err != nil {
		panic(err)
	}
	chName := func(i int) string { return fmt.Sprintf("w2s:%d", i) }
	var recs []*w2sRec
	nid := 0

	runOps := func(task int, ops []w2sOp) {
		rec.tasks[w2Goid()] = task
		lastTop := make([]uint64, sc.NCh)
		lastEpoch := make([]string, sc.NCh)
		for i, op := range ops {
			if op.K == "sleep" {
				s.Sleep(time.Duration(op.Ms) * time.Millisecond)
				continue
			}
			if op.Ch >= sc.NCh {
				continue
			}
			ch := chName(op.Ch)
			nid++
			in := &w2sIn{id: nid}
			r := &w2sRec{task: task, idx: i, ch: op.Ch, in: in, op: op}
			out := &w2sOut{}
			r.out = out
			switch op.K {
			case "pub":
				in.Kind = 'p'
				in.Data = fmt.Sprintf("d%d.%d", task, i)
				in.Size, in.TTL = op.Size, int64(op.TTL)*w2Sec
				in.Meta = int64(op.Meta) * w2Sec
				if in.Meta == 0 {
					in.Meta = defMeta
				}
				if op.IK != 0 {
					in.IK = fmt.Sprintf("ik%d", op.IK)
					in.ITTL = int64(op.ITTL) * w2Sec
					if in.ITTL == 0 {
						in.ITTL = int64(defaultIdempotentResultExpireSeconds) * w2Sec
					}
				}
				in.Ver, in.VEp = op.Ver, w2sVEs[op.VE%len(w2sVEs)]
				byData[in.Data] = r
				po := PublishOptions{HistorySize: op.Size, HistoryTTL: time.Duration(op.TTL) * time.Second, HistoryMetaTTL: time.Duration(op.Meta) * time.Second,
					IdempotencyKey: in.IK, IdempotentResultTTL: time.Duration(op.ITTL) * time.Second, Version: in.Ver, VersionEpoch: in.VEp}
				in.A = int64(s.Now())
				r.call = next()
				res, err := b.Publish(ch, []byte(in.Data), po)
				r.ret = next()
				in.B = int64(s.Now())
				if len(r.hev) > 0 {
					in.B = r.hev[0].T
				}
				if err != nil {
					out.Err = err.Error()
				}
				out.Pos, out.Suppressed, out.Reason = res.StreamPosition, res.Suppressed, string(res.SuppressReason)
				if err == nil && (op.Size > 0 && op.TTL > 0) {
					lastTop[op.Ch], lastEpoch[op.Ch] = res.StreamPosition.Offset, res.StreamPosition.Epoch
				}
				s.Event("pub t%d.%d ch%d -> %s", task, i, op.Ch, out)
			case "hist":
				in.Kind = 'h'
				in.Lim, in.Rev = op.Lim, op.Rev
				in.Meta = int64(op.Meta) * w2Sec
				if in.Meta == 0 {
					in.Meta = defMeta
				}
				if op.Since != 0 {
					off := int64(lastTop[op.Ch]) + int64(op.Rel)
					if off < 0 {
						off = 0
					}
					if op.Rev && off == 0 {
						off = 1 // Node.History rejects reverse with since offset 0
					}
					sp := &StreamPosition{Offset: uint64(off)}
					switch op.EK {
					case 0:
						sp.Epoch = lastEpoch[op.Ch]
					case 2:
						sp.Epoch = "bogus"
					}
					in.Since = sp
				}
				in.A = int64(s.Now())
				r.call = next()
				pubs, pos, err := b.History(ch, HistoryOptions{Filter: HistoryFilter{Since: in.Since, Limit: op.Lim, Reverse: op.Rev}, MetaTTL: time.Duration(op.Meta) * time.Second})
				r.ret = next()
				in.B = int64(s.Now())
				if err != nil {
					out.Err = err.Error()
				}
				out.Pos = pos
				for _, p := range pubs {
					out.Pubs = append(out.Pubs, w2sEnt{Off: p.Offset, Data: string(p.Data)})
				}
				if err == nil {
					lastTop[op.Ch], lastEpoch[op.Ch] = pos.Offset, pos.Epoch
				}
				s.Event("hist t%d.%d ch%d -> %s", task, i, op.Ch, out)
			case "rm":
				in.Kind = 'r'
				in.A = int64(s.Now())
				r.call = next()
				err := b.RemoveHistory(ch)
				r.ret = next()
				in.B = int64(s.Now())
				if err != nil {
					out.Err = err.Error()
				}
				s.Event("rm t%d.%d ch%d", task, i, op.Ch)
			default:
				continue
			}
			recs = append(recs, r)
		}
	}

	done := make(chan struct{}, len(sc.Tasks))
	for t, ops := range sc.Tasks {
		t, ops := t, ops
		s.Go(func() {
			defer func() { done <- struct{}{} }()
			runOps(t, ops)
		})
	}
	for range sc.Tasks {
		<-done
	}
	s.Pause()
	runOps(len(sc.Tasks), sc.Final)
	_ = b.Close(context.Background())
	_ = node.mapBroker.(*MemoryMapBroker).Close(context.Background())

	w2sCheck(s, sc, prop, recs, rec, len(sc.Tasks) <= 1)
}

func w2sCheck(s *simrt.Sim, sc *w2sScript, prop string, recs []*w2sRec, rec *w2Recorder, sequential bool) {
	w2LinSteps = 0
	defer func() {
		switch {
		case w2LinSteps > 300000:
			s.Probe("lin_steps_over_300k")
		case w2LinSteps > 30000:
			s.Probe("lin_steps_over_30k")
		}
	}()
	// ---- broadcast side of C19 ----
	nSuppressed := 0
	for _, r := range recs {
		if r.in.Kind != 'p' || r.out.Err != "" {
			continue
		}
		if r.out.Suppressed {
			nSuppressed++
			s.Probe("suppressed:" + r.out.Reason)
			if len(r.hev) != 0 {
				s.Violate("C19", "suppressed-delivered", "suppressed publish reached the event handler ("+r.out.Reason+")", "%s returned %s but HandlePublication was called %d time(s)", r.in, r.out, len(r.hev))
			}
			continue
		}
		if r.in.IK != "" || r.in.Ver != 0 {
			if len(r.hev) != 1 {
				s.Violate("C19", "fresh-publish-delivery", "unsuppressed keyed/versioned publish not delivered exactly once", "%s returned %s, HandlePublication calls: %d", r.in, r.out, len(r.hev))
			} else if h := r.hev[0]; h.SP != r.out.Pos || (r.in.Size > 0 && r.in.TTL > 0 && h.PubOff != r.out.Pos.Offset) || h.Stamp < r.call || h.Stamp > r.ret {
				s.Violate("C19", "fresh-publish-delivery", "delivery of an unsuppressed publish disagrees with its result", "%s returned %s, handler got sp=%s pub.Offset=%d", r.in, r.out, w2PosStr(h.SP), h.PubOff)
			}
		}
	}
	for _, ev := range rec.events {
		if ev.Task < 0 {
			s.Probe("unattributed_handler_call")
		}
	}
	if nSuppressed > 0 {
		s.Probe("nontrivial:C19")
	}

	// ---- state side: reference model per channel ----
	for ch := 0; ch < sc.NCh; ch++ {
		var ops []porcupine.Operation
		var rs []*w2sRec
		stored, reads := 0, 0
		epochs := map[string]bool{}
		for _, r := range recs {
			if r.ch != ch {
				continue
			}
			rs = append(rs, r)
			ops = append(ops, porcupine.Operation{ClientId: r.task, Input: r.in, Output: r.out, Call: r.call, Return: r.ret})
			if r.in.Kind == 'p' && !r.out.Suppressed && r.in.Size > 0 && r.in.TTL > 0 {
				stored++
			}
			if r.in.Kind == 'h' && len(r.out.Pubs) > 0 {
				reads++
			}
			if r.in.Kind == 'h' && r.in.Since == nil && r.in.Lim != 0 && len(r.out.Pubs) == 0 && r.out.Pos.Offset > 0 {
				s.Probe("empty_with_top")
			}
			if r.out.Pos.Epoch != "" {
				epochs[r.out.Pos.Epoch] = true
			}
		}
		if len(epochs) > 1 {
			s.Probe("epoch_change_seen")
		}
		if stored >= 3 && reads >= 1 {
			s.Probe("nontrivial:C17")
		}
		if len(ops) == 0 {
			continue
		}
		run := func(f w2sFlags) (w2LinResult, int, []string, int) {
			m := &w2sModel{f: f, slack: w2Sec, relaxed: map[int]bool{}}
			step := func(st, in, out interface{}) []interface{} {
				var r []interface{}
				for _, n := range m.step(st.(*w2sState), in.(*w2sIn), out.(*w2sOut)) {
					r = append(r, n)
				}
				return r
			}
			key := func(st interface{}) string { return st.(*w2sState).key() }
			if sequential {
				bad, cur := w2Fold(&w2sState{}, step, key, ops)
				if bad < 0 {
					return w2LinOK, -1, nil, len(m.relaxed)
				}
				var exp []string
				seen := map[string]bool{}
				for _, st := range cur {
					for _, e := range m.expected(st.(*w2sState), rs[bad].in) {
						if !seen[e] {
							seen[e] = true
							exp = append(exp, e)
						}
					}
				}
				return w2LinIllegal, bad, exp, len(m.relaxed)
			}
			res := w2CheckLin(func() interface{} { return &w2sState{} }, step, key, ops, 150000)
			return res, -1, nil, len(m.relaxed)
		}
		res, bad, exp, relaxed := run(w2sFlags{})
		for i := 0; i < relaxed; i++ {
			s.Probe("relaxed_read")
		}
		if sequential {
			s.Probe("seq_checked")
		} else {
			s.Probe("lin_checked")
		}
		if res == w2LinUnknown {
			s.Probe("lin_unknown")
			continue
		}
		if res == w2LinOK {
			if relaxed == 0 {
				s.Probe("exact_channel_check")
			}
			continue
		}
		// name the failure: which single relaxation (or combination) explains the history?
		explained := ""
		var ef w2sFlags
		// Order of the candidates: a history in which a TTL was lowered on the live channel
		// meets the known late-expiry behaviour of the memory broker (C17 finding: the heap
		// item keeps the old deadline); if late expiry alone explains it, that is the
		// explanation – blaming the version-suppressed publish that merely happened to sit
		// in the same history would report a defect the code does not have (C19 false
		// alarm, seed 1 run 7232). Without a lowered TTL the order is unchanged.
		masks := []int{1, 2, 3, 4, 5, 6, 7}
		if w2sLowered(rs) {
			masks = []int{4, 1, 2, 3, 5, 6, 7}
		}
		for _, mask := range masks {
			if explained != "" {
				break
			}
			f := w2sFlags{UnverReset: mask&1 != 0, SupprRefresh: mask&2 != 0, LateOK: mask&4 != 0}
			if r2, _, _, _ := run(f); r2 == w2LinOK {
				explained, ef = f.String(), f
			}
		}
		// which property: if any dedup decision is accepted and the history is then fine, the
		// stream semantics (C17) hold and the failure is one of C19
		p := "C17"
		if r3, _, _, _ := run(w2sFlags{AnyDedup: true}); r3 == w2LinOK {
			p = "C19"
		}
		if explained != "" {
			p = "C17"
			if ef.UnverReset || ef.SupprRefresh {
				p = "C19"
			}
		}
		var hist []string
		for i, r := range rs {
			mark := "  "
			if i == bad {
				mark = "=>"
			}
			hist = append(hist, fmt.Sprintf("%s[t%d #%d..%d] %s -> %s", mark, r.task, r.call, r.ret, r.in, r.out))
		}
		detail := "channel " + fmt.Sprint(ch) + ":\n" + strings.Join(hist, "\n")
		switch {
		case explained != "":
			// one violation per ingredient, so that each has its own stable signature
			if ef.UnverReset {
				s.Violate("C19", "model:unversioned-resets-version", "an unversioned publish resets the version protection of the channel", "explained only if: %s\n%s", explained, detail)
			}
			if ef.SupprRefresh {
				s.Violate("C19", "model:suppressed-refreshes-ttl", "a version-suppressed publish refreshes the history/meta TTL", "explained only if: %s\n%s", explained, detail)
			}
			if ef.LateOK {
				sig := "history or metadata outlives the TTL of the last publish/access"
				if w2sLowered(rs) {
					sig += " (after a TTL was lowered on the live channel)"
				}
				s.Violate("C17", "model:expiry-late", sig, "explained only if: %s\n%s", explained, detail)
			}
		case sequential:
			r := rs[bad]
			kind := map[byte]string{'p': "Publish", 'h': "History", 'r': "RemoveHistory"}[r.in.Kind]
			s.Violate(p, "model:"+kind, kind+" result differs from the reference stream", "%s\nmodel allows: %s", detail, w2Join(exp))
		default:
			s.Violate(p, "linearizability", "concurrent history is not linearizable w.r.t. the reference stream", "%s", detail)
		}
	}
}

// w2sLowered: did some operation of the channel history set a history or metadata
// deadline earlier than the one that was in force?
func w2sLowered(rs []*w2sRec) bool {
	var entD, metaD int64
	for _, r := range rs {
		if r.in.Kind == 'p' && r.in.Size > 0 && r.in.TTL > 0 && r.out.Reason != string(SuppressReasonIdempotency) {
			if d := r.in.A + r.in.TTL; d < entD {
				return true
			} else {
				entD = d
			}
		}
		if (r.in.Kind == 'p' && r.in.Size > 0 && r.in.TTL > 0 && r.out.Reason != string(SuppressReasonIdempotency)) || r.in.Kind == 'h' {
			if d := r.in.A + r.in.Meta; d < metaD {
				return true
			} else {
				metaD = d
			}
		}
	}
	return false
}

func init() {
	simrt.Register(&simrt.World{
		Name:      "w2s",
		Gen:       w2sGen,
		NewScript: func() any { return &w2sScript{} },
		Run:       w2sRun,
		Shrinks:   w2sShrinks,
		Nontrivial: func(prop string, r *simrt.Result) bool {
			return r.Probes["nontrivial:"+prop] > 0
		},
	})
	simrt.Claim("C17", "w2s", 10)
	simrt.Claim("C19", "w2s", 10)
}
