//go:build verif

package centrifuge

// The simulated WebSocket client of world w7x. Written from RFC 6455 (framing, opening and
// closing handshake) and the public description of the centrifuge client protocol (JSON:
// one reply per line, Protobuf: varint length-prefixed replies); it shares no code with
// internal/websocket. Reply bodies are decoded with the protocol module's message types
// (encoding/json, UnmarshalVT), which are not part of the code under test.
//
// The client is event driven and never blocks: the server's net.Conn.Write hands it the
// bytes (fromServer), its own frames are appended to the server's read queue.

import (
	"bytes"
	"crypto/sha1"
	"encoding/base64"
	"encoding/binary"
	"encoding/json"
	"fmt"
	"strconv"
	"strings"
	"time"
	"unicode/utf8"

	"github.com/centrifugal/protocol"
)

const w7xHeldDict = "simdict-held"

type w7xReply struct {
	Kind string // connect | rpc | error | ping | push:pub | push:message | push:sub | push:join | push:leave | push:unsub | push:disconnect | push:? | other
	ID   uint32
	Ch   string
	Data []byte
	Code uint32
}

type w7xMsg struct {
	Seq     int64
	Op      byte // 1 text, 2 binary
	Frames  int  // number of fragments
	Encoded bool // payload starts with the encoder marker
	EncConn int
	EncSeq  uint32
	Replies []w7xReply
	Bad     string // undecodable
	Len     int
}

func (m *w7xMsg) kinds() string {
	var ks []string
	for _, r := range m.Replies {
		ks = append(ks, r.Kind)
	}
	return strings.Join(ks, ",")
}

type w7xCloseRec struct {
	Seq     int64
	Code    int
	Reason  string
	HasCode bool
}

type w7xClient struct {
	c   *w7xConnState
	key string

	// receiving
	rbuf      []byte
	hsDone    bool
	hsSeq     int64
	hsStatus  int
	hsHeader  map[string]string
	inFrag    bool
	fragOp    byte
	fragBuf   []byte
	fragN     int
	msgs      []*w7xMsg
	closes    []w7xCloseRec
	afterCls  []string // what arrived after the first close frame
	wireBad   bool     // the byte stream is unreadable from here on
	eofSeq    int64
	pingsSeen int

	// sending
	nextID         uint32
	connectID      uint32
	connectSent    bool
	connectSentSeq int64
	connectSeq     int64 // connect reply received
	connectRes     *protocol.ConnectResult
	sentClose      bool
	sentCloseSeq   int64
	sentCloseCode  int
	dropped        bool
	dropSeq        int64
	frameN         uint32
}

func (cl *w7xClient) ended() bool {
	return cl.dropped || cl.eofSeq != 0 || len(cl.closes) > 0 || cl.sentClose
}

// ---------------------------------------------------------------- opening handshake

func (cl *w7xClient) offered() []string {
	spec := cl.c.spec
	if spec.isJSON() {
		if spec.ProtoVia == 0 {
			return []string{"centrifuge-json"}
		}
		return nil
	}
	if spec.ProtoVia == 0 {
		return []string{"centrifuge-protobuf"}
	}
	return nil
}

func (cl *w7xClient) handshakeRequest() []byte {
	spec := cl.c.spec
	var k [16]byte
	for i := range k {
		k[i] = byte(cl.c.idx*37 + i*11 + 5)
	}
	cl.key = base64.StdEncoding.EncodeToString(k[:])
	path := "/connection/websocket"
	if !spec.isJSON() {
		switch spec.ProtoVia {
		case 1:
			path += "?format=protobuf"
		case 2:
			path += "?cf_protocol=protobuf"
		}
	}
	if spec.FramePing {
		if strings.Contains(path, "?") {
			path += "&cf_ws_frame_ping_pong=true"
		} else {
			path += "?cf_ws_frame_ping_pong=true"
		}
	}
	var b strings.Builder
	b.WriteString("GET " + path + " HTTP/1.1\r\n")
	b.WriteString("Host: sim.example\r\n")
	b.WriteString("Upgrade: websocket\r\n")
	b.WriteString("Connection: Upgrade\r\n")
	b.WriteString("Sec-WebSocket-Key: " + cl.key + "\r\n")
	b.WriteString("Sec-WebSocket-Version: 13\r\n")
	if off := cl.offered(); len(off) > 0 {
		b.WriteString("Sec-WebSocket-Protocol: " + strings.Join(off, ", ") + "\r\n")
	}
	if spec.Origin {
		b.WriteString("Origin: http://sim.example\r\n")
	}
	b.WriteString("\r\n")
	return []byte(b.String())
}

// RFC 6455 section 4.2.2 item 5.4
func w7xAccept(key string) string {
	h := sha1.Sum([]byte(key + "258EAFA5-E914-47DA-95CA-C5AB0DC85B11"))
	return base64.StdEncoding.EncodeToString(h[:])
}

func (cl *w7xClient) parseHandshake(head []byte) {
	c := cl.c
	w := c.w
	s := w.s
	lines := strings.Split(string(head), "\r\n")
	cl.hsHeader = map[string]string{}
	f := strings.SplitN(lines[0], " ", 3)
	if len(f) >= 2 {
		cl.hsStatus, _ = strconv.Atoi(f[1])
	}
	for _, l := range lines[1:] {
		if i := strings.IndexByte(l, ':'); i > 0 {
			k := strings.ToLower(strings.TrimSpace(l[:i]))
			v := strings.TrimSpace(l[i+1:])
			if old, ok := cl.hsHeader[k]; ok {
				v = old + ", " + v
			}
			cl.hsHeader[k] = v
		}
	}
	cl.hsSeq = w.next()
	s.Event("c%d handshake response status=%d proto=%q", c.idx, cl.hsStatus, cl.hsHeader["sec-websocket-protocol"])
	bad := func(what string) {
		s.Violate("C31", "handshake-response", "websocket: "+what, "conn %d: response %q", c.idx, string(head))
	}
	if len(f) < 2 || f[0] != "HTTP/1.1" || cl.hsStatus != 101 {
		bad("valid upgrade request not answered with HTTP/1.1 101")
		cl.wireBad = true
		return
	}
	if !strings.EqualFold(cl.hsHeader["upgrade"], "websocket") {
		bad("101 response without 'Upgrade: websocket'")
	}
	if !strings.Contains(strings.ToLower(cl.hsHeader["connection"]), "upgrade") {
		bad("101 response without 'Connection: Upgrade'")
	}
	if cl.hsHeader["sec-websocket-accept"] != w7xAccept(cl.key) {
		bad("Sec-WebSocket-Accept is not the RFC 6455 digest of the key")
	}
	if p, ok := cl.hsHeader["sec-websocket-protocol"]; ok {
		found := false
		for _, o := range cl.offered() {
			if o == p {
				found = true
			}
		}
		if !found {
			bad("subprotocol selected that the client did not offer")
		}
	} else if !c.spec.isJSON() && c.spec.ProtoVia == 0 {
		bad("offered subprotocol centrifuge-protobuf not selected")
	}
	if _, ok := cl.hsHeader["sec-websocket-extensions"]; ok {
		bad("extension accepted that the client did not offer")
	}
	cl.hsDone = true
	react := func() {
		if !cl.connectSent {
			cl.sendConnect()
		}
	}
	if c.spec.ReactUs > 0 {
		s.Go(func() {
			s.Sleep(time.Duration(c.spec.ReactUs) * time.Microsecond)
			react()
		})
	} else {
		react()
	}
}

// ---------------------------------------------------------------- receiving

// fromServer: bytes the server wrote reach the client.
func (cl *w7xClient) fromServer(b []byte) {
	if cl.dropped || cl.wireBad {
		return
	}
	cl.rbuf = append(cl.rbuf, b...)
	for !cl.wireBad && !cl.dropped {
		if !cl.hsDone {
			i := bytes.Index(cl.rbuf, []byte("\r\n\r\n"))
			if i < 0 {
				return
			}
			head := cl.rbuf[:i]
			cl.rbuf = cl.rbuf[i+4:]
			cl.parseHandshake(head)
			continue
		}
		n := cl.parseFrame()
		if n == 0 {
			return
		}
	}
}

func (cl *w7xClient) wireViolation(what, detail string) {
	c := cl.c
	cl.wireBad = true
	c.w.s.Violate(c.w.prop, "wire-format", "websocket: server frame violates RFC 6455: "+what, "conn %d: %s", c.idx, detail)
}

// parseFrame consumes one frame from rbuf (RFC 6455 section 5.2); 0 = incomplete.
func (cl *w7xClient) parseFrame() int {
	b := cl.rbuf
	if len(b) < 2 {
		return 0
	}
	fin := b[0]&0x80 != 0
	rsv := b[0] & 0x70
	op := b[0] & 0x0f
	masked := b[1]&0x80 != 0
	n := uint64(b[1] & 0x7f)
	off := 2
	switch n {
	case 126:
		if len(b) < 4 {
			return 0
		}
		n = uint64(binary.BigEndian.Uint16(b[2:]))
		off = 4
		if n < 126 {
			cl.wireViolation("payload length not minimally encoded", fmt.Sprintf("16-bit length %d", n))
			return 0
		}
	case 127:
		if len(b) < 10 {
			return 0
		}
		n = binary.BigEndian.Uint64(b[2:])
		off = 10
		if n < 65536 || n>>63 != 0 {
			cl.wireViolation("payload length not minimally encoded", fmt.Sprintf("64-bit length %d", n))
			return 0
		}
	}
	if masked {
		cl.wireViolation("frame from the server is masked", fmt.Sprintf("opcode %d", op))
		return 0
	}
	if rsv != 0 {
		cl.wireViolation("reserved bits set although no extension was negotiated", fmt.Sprintf("opcode %d rsv %#x", op, rsv))
		return 0
	}
	if uint64(len(b)-off) < n {
		return 0
	}
	payload := append([]byte(nil), b[off:off+int(n)]...)
	cl.rbuf = b[off+int(n):]
	total := off + int(n)
	if len(cl.closes) > 0 {
		cl.afterCls = append(cl.afterCls, fmt.Sprintf("opcode %d len %d", op, n))
	}
	switch {
	case op >= 8: // control
		if !fin || n > 125 {
			cl.wireViolation("control frame fragmented or longer than 125 bytes", fmt.Sprintf("opcode %d fin=%v len=%d", op, fin, n))
			return total
		}
		switch op {
		case 8:
			cl.onClose(payload)
		case 9:
			cl.c.w.s.Probe("ws_ping_frame_received")
			if !cl.c.spec.NoPong {
				cl.sendFrame(10, payload)
			}
		case 10:
		default:
			cl.wireViolation("reserved control opcode", fmt.Sprintf("opcode %d", op))
		}
	case op == 0:
		if !cl.inFrag {
			cl.wireViolation("continuation frame without a message in progress", "")
			return total
		}
		cl.fragBuf = append(cl.fragBuf, payload...)
		cl.fragN++
		if fin {
			cl.inFrag = false
			cl.onMessage(cl.fragOp, cl.fragBuf, cl.fragN)
			cl.fragBuf = nil
		}
	case op == 1 || op == 2:
		if cl.inFrag {
			cl.wireViolation("new data frame inside a fragmented message", fmt.Sprintf("opcode %d", op))
			return total
		}
		if fin {
			cl.onMessage(op, payload, 1)
		} else {
			cl.inFrag, cl.fragOp, cl.fragBuf, cl.fragN = true, op, payload, 1
			cl.c.w.s.Probe("fragmented_message")
		}
	default:
		cl.wireViolation("reserved opcode", fmt.Sprintf("opcode %d", op))
	}
	return total
}

func w7xCloseCodeSendable(code int) bool {
	// RFC 6455 section 7.4: 1005, 1006, 1015 must not appear on the wire, 1004 is reserved,
	// 1012-1014 are IANA registered, 3000-4999 are for libraries and applications
	switch {
	case code >= 1000 && code <= 1003, code >= 1007 && code <= 1014:
		return true
	case code >= 3000 && code <= 4999:
		return true
	}
	return false
}

func (cl *w7xClient) onClose(p []byte) {
	c := cl.c
	w := c.w
	s := w.s
	rec := w7xCloseRec{Seq: w.next()}
	if len(p) == 1 {
		cl.wireViolation("close frame with a 1-byte payload", "")
		return
	}
	if len(p) >= 2 {
		rec.HasCode = true
		rec.Code = int(binary.BigEndian.Uint16(p))
		rec.Reason = string(p[2:])
		if !w7xCloseCodeSendable(rec.Code) {
			s.Violate("C31", "close-frame-invalid", "websocket: close frame carries a status code that must not be sent", "conn %d: code %d", c.idx, rec.Code)
		}
		if !utf8.Valid(p[2:]) {
			s.Violate("C31", "close-frame-invalid", "websocket: close frame reason is not valid UTF-8", "conn %d: code %d reason %q", c.idx, rec.Code, rec.Reason)
		}
	}
	first := len(cl.closes) == 0
	cl.closes = append(cl.closes, rec)
	s.Event("c%d close frame code=%d reason_len=%d", c.idx, rec.Code, len(rec.Reason))
	if first && !cl.sentClose && c.spec.EchoClose == 0 {
		// closing handshake: echo the status code
		var pl []byte
		if rec.HasCode {
			pl = binary.BigEndian.AppendUint16(nil, uint16(rec.Code))
		}
		cl.sendFrame(8, pl)
		cl.sentClose, cl.sentCloseSeq, cl.sentCloseCode = true, w.next(), rec.Code
		s.Probe("close_echoed")
	}
}

func w7xKind(rep *protocol.Reply, rawEmpty bool) w7xReply {
	r := w7xReply{ID: rep.Id}
	switch {
	case rep.Error != nil:
		r.Kind, r.Code = "error", rep.Error.Code
	case rep.Push != nil:
		p := rep.Push
		r.Ch = p.Channel
		switch {
		case p.Pub != nil:
			r.Kind, r.Data = "push:pub", p.Pub.Data
		case p.Message != nil:
			r.Kind, r.Data = "push:message", p.Message.Data
		case p.Subscribe != nil:
			r.Kind = "push:sub"
		case p.Join != nil:
			r.Kind = "push:join"
		case p.Leave != nil:
			r.Kind = "push:leave"
		case p.Unsubscribe != nil:
			r.Kind, r.Code = "push:unsub", p.Unsubscribe.Code
		case p.Disconnect != nil:
			r.Kind, r.Code = "push:disconnect", p.Disconnect.Code
		default:
			r.Kind = "push:?"
		}
	case rep.Connect != nil:
		r.Kind = "connect"
	case rep.Rpc != nil:
		r.Kind, r.Data = "rpc", rep.Rpc.Data
	case rep.Id == 0 && rawEmpty:
		r.Kind = "ping"
	default:
		r.Kind = "other"
	}
	return r
}

// w7xDecode splits a message body into replies.
func (cl *w7xClient) decode(body []byte) ([]w7xReply, []*protocol.Reply, error) {
	var out []w7xReply
	var raws []*protocol.Reply
	if cl.c.spec.isJSON() {
		for _, line := range bytes.Split(body, []byte("\n")) {
			if len(bytes.TrimSpace(line)) == 0 {
				continue
			}
			rep := &protocol.Reply{}
			if err := json.Unmarshal(line, rep); err != nil {
				return out, raws, fmt.Errorf("%v in %q", err, w7hClip(line))
			}
			var top map[string]json.RawMessage
			_ = json.Unmarshal(line, &top)
			out = append(out, w7xKind(rep, len(top) == 0))
			raws = append(raws, rep)
		}
		return out, raws, nil
	}
	for len(body) > 0 {
		l, n := binary.Uvarint(body)
		if n <= 0 || uint64(len(body)-n) < l {
			return out, raws, fmt.Errorf("bad length prefix (%d bytes left)", len(body))
		}
		rec := body[n : n+int(l)]
		body = body[n+int(l):]
		rep := &protocol.Reply{}
		if err := rep.UnmarshalVT(rec); err != nil {
			return out, raws, err
		}
		out = append(out, w7xKind(rep, len(rec) == 0))
		raws = append(raws, rep)
	}
	return out, raws, nil
}

func (cl *w7xClient) onMessage(op byte, payload []byte, frames int) {
	c := cl.c
	w := c.w
	s := w.s
	m := &w7xMsg{Seq: w.next(), Op: op, Frames: frames, Len: len(payload)}
	cl.msgs = append(cl.msgs, m)
	if op == 1 && !utf8.Valid(payload) {
		s.Violate(w.prop, "wire-format", "websocket: text message is not valid UTF-8", "conn %d: message %d %q", c.idx, len(cl.msgs), w7hClip(payload))
	}
	body := payload
	if len(payload) >= w7xMarkerLen && bytes.HasPrefix(payload, w7xMagic) {
		m.Encoded = true
		m.EncConn = int(payload[4])
		m.EncSeq = binary.BigEndian.Uint32(payload[5:9])
		body = payload[w7xMarkerLen:]
	}
	reps, raws, err := cl.decode(body)
	m.Replies = reps
	if err != nil {
		m.Bad = err.Error()
		s.Violate(w.prop, "undecodable-frame", "websocket: data frame does not decode as protocol replies", "conn %d: message %d (op %d, encoded=%v, %d bytes): %v", c.idx, len(cl.msgs), op, m.Encoded, len(payload), err)
	}
	s.Event("c%d msg #%d op=%d frames=%d enc=%v kinds=%s", c.idx, len(cl.msgs), op, frames, m.Encoded, m.kinds())
	for i, r := range reps {
		switch r.Kind {
		case "connect":
			if cl.connectSeq == 0 && r.ID == cl.connectID {
				cl.connectSeq = m.Seq
				cl.connectRes = raws[i].Connect
				if w.shutdownRet != 0 && c.dialSeq > w.shutdownRet {
					s.Probe("connect_reply_after_shutdown_returned")
				}
			}
		case "ping":
			cl.pingsSeen++
			s.Probe("protocol_ping_received")
			if cl.connectRes != nil && cl.connectRes.Pong && !c.spec.NoPong {
				cl.sendCommand(&protocol.Command{})
			}
		case "push:pub", "push:message":
			s.Probe("push_received")
		case "rpc":
			s.Probe("rpc_reply_received")
		}
	}
}

func (cl *w7xClient) onServerEOF() {
	if cl.eofSeq == 0 {
		cl.eofSeq = cl.c.w.next()
	}
}

// ---------------------------------------------------------------- sending

// sendFrame writes one unfragmented, masked frame (RFC 6455 section 5.3).
func (cl *w7xClient) sendFrame(op byte, payload []byte) {
	if cl.dropped || cl.c.nc == nil {
		return
	}
	if cl.sentClose {
		return // nothing may follow a close frame
	}
	cl.frameN++
	x := uint32(cl.c.idx+1)*2654435761 + cl.frameN*40503
	key := [4]byte{byte(x >> 24), byte(x >> 16), byte(x >> 8), byte(x)}
	if cl.frameN%5 == 0 {
		key = [4]byte{} // a legal mask
	}
	f := []byte{0x80 | op}
	switch n := len(payload); {
	case n < 126:
		f = append(f, 0x80|byte(n))
	case n < 65536:
		f = append(f, 0x80|126, byte(n>>8), byte(n))
	default:
		f = append(f, 0x80|127)
		f = binary.BigEndian.AppendUint64(f, uint64(n))
	}
	f = append(f, key[:]...)
	for i, b := range payload {
		f = append(f, b^key[i%4])
	}
	cl.c.nc.feed(f)
}

func (cl *w7xClient) sendCommand(cmd *protocol.Command) {
	if cl.c.spec.isJSON() {
		b, err := json.Marshal(cmd)
		if err != nil {
			return
		}
		cl.sendFrame(1, b)
		return
	}
	b, err := cmd.MarshalVT()
	if err != nil {
		return
	}
	cl.sendFrame(2, append(binary.AppendUvarint(nil, uint64(len(b))), b...))
}

func (cl *w7xClient) sendConnect() {
	c := cl.c
	if cl.connectSent {
		return
	}
	cl.connectSent = true
	cl.nextID++
	cl.connectID = cl.nextID
	req := &protocol.ConnectRequest{Token: strconv.Itoa(c.idx), Name: "w7x"}
	if c.spec.Dict != 0 {
		req.Flag = ConnectionFlagDictionaryCompression
		if c.spec.Dict >= 2 {
			req.Dict = w7xHeldDict
		}
	}
	cl.connectSentSeq = c.w.next()
	c.w.s.Event("c%d sends connect", c.idx)
	cl.sendCommand(&protocol.Command{Id: cl.connectID, Connect: req})
}

func (cl *w7xClient) sendRPC(id int) {
	cl.nextID++
	cl.c.w.s.Event("c%d sends rpc %d", cl.c.idx, id)
	cl.sendCommand(&protocol.Command{Id: cl.nextID, Rpc: &protocol.RPCRequest{Method: "m", Data: w7xPayload(id)}})
}

func (cl *w7xClient) sendMessage(id int) {
	cl.c.w.s.Event("c%d sends message %d", cl.c.idx, id)
	cl.sendCommand(&protocol.Command{Send: &protocol.SendRequest{Data: w7xPayload(id)}})
}

// close: the client starts the closing handshake.
func (cl *w7xClient) close(code int) {
	if cl.dropped || cl.sentClose || cl.c.nc == nil {
		return
	}
	if code == 0 {
		code = 1000
	}
	cl.c.w.s.Event("c%d client sends close %d", cl.c.idx, code)
	cl.sendFrame(8, binary.BigEndian.AppendUint16(nil, uint16(code)))
	cl.sentClose, cl.sentCloseSeq, cl.sentCloseCode = true, cl.c.w.next(), code
}

// drop: the client disappears without a word.
func (cl *w7xClient) drop() {
	if cl.dropped || cl.c.nc == nil {
		return
	}
	cl.dropped = true
	cl.dropSeq = cl.c.w.next()
	cl.c.w.s.Event("c%d client drops", cl.c.idx)
	cl.c.nc.eof = true
	cl.c.nc.signal()
}
