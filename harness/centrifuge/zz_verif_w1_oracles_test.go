//go:build verif

package centrifuge

// Oracles of the W1 client world. They read only what a user can observe (decoded
// frames, callbacks, return values of node-level calls) plus, where the property talks
// about node state ("routing entry", "no trace"), the hub tables of the real node.

import (
	"context"
	"encoding/json"
	"errors"
	"fmt"
	"sort"
	"strings"
	"time"

	"github.com/centrifugal/protocol"
	dto "github.com/prometheus/client_model/go"
	fdelta "github.com/shadowspore/fossil-delta"
)

func (w *w1World) gaugeSum(name string) float64 {
	mfs, err := w.reg.Gather()
	if err != nil {
		return -1
	}
	sum := 0.0
	for _, mf := range mfs {
		if mf.GetName() != name || mf.GetType() != dto.MetricType_GAUGE {
			continue
		}
		for _, m := range mf.Metric {
			sum += m.GetGauge().GetValue()
		}
	}
	return sum
}

type w1Gauges struct{ conns, subs float64 }

func (w *w1World) snapshotGauges() w1Gauges {
	return w1Gauges{conns: w.gaugeSum("centrifuge_client_connections_inflight"), subs: w.gaugeSum("centrifuge_client_subscriptions_inflight")}
}

func (cl *w1SimClient) isClosed() bool { return cl.tr.closed }

func (cl *w1SimClient) never() bool { return cl.client == nil }

// hubEntries returns, for a client, the channels for which the hub holds a routing
// entry, with the generation of that entry.
func (w *w1World) hubEntries(cl *w1SimClient) map[string]uint64 {
	out := map[string]uint64{}
	for _, sh := range w.node.hub.subShards {
		sh.mu.RLock()
		for ch, subs := range sh.subs {
			for _, si := range subs {
				if si.client == cl.client {
					if _, dup := out[ch]; dup {
						out[ch+"#dup"] = si.subGen
					}
					out[ch] = si.subGen
				}
			}
		}
		sh.mu.RUnlock()
	}
	return out
}

func (w *w1World) inConnHub(cl *w1SimClient) bool {
	for _, sh := range w.node.hub.connShards {
		sh.mu.RLock()
		_, ok := sh.clients[cl.client.uid]
		if !ok {
			for _, m := range sh.users {
				if _, in := m[cl.client.uid]; in {
					ok = true
				}
			}
		}
		sh.mu.RUnlock()
		if ok {
			return true
		}
	}
	w.node.hub.sessionsMu.RLock()
	defer w.node.hub.sessionsMu.RUnlock()
	for _, c := range w.node.hub.sessions {
		if c == cl.client {
			return true
		}
	}
	return false
}

// checkNoTrace is the C05 oracle for one closed connection.
func (w *w1World) checkNoTrace(cl *w1SimClient, when string) {
	s := w.s
	if he := w.hubEntries(cl); len(he) > 0 {
		var chs []string
		for ch := range he {
			chs = append(chs, ch)
		}
		sort.Strings(chs)
		s.Violate("C05", "routing-entry-survives", "hub entry of closed connection", "%s: closed client %d still has routing entries for %v", when, cl.idx, chs)
	}
	if w.inConnHub(cl) {
		s.Violate("C05", "connection-registered", "closed connection still registered", "%s: closed client %d still in the connection/session registry", when, cl.idx)
	}
	for _, ch := range w.sc.Channels {
		if !chHas(ch, 'e') {
			continue
		}
		res, err := w.node.Presence(ch)
		if err != nil {
			continue
		}
		if _, ok := res.Presence[cl.client.uid]; ok {
			s.Violate("C05", "presence-survives", "presence entry of closed connection", "%s: closed client %d still present in %s", when, cl.idx, ch)
		}
	}
	// client-keyed map presence (user-keyed entries are by design left to their TTL)
	for _, ch := range w.sc.Channels {
		if !chHas(ch, 'M') {
			continue
		}
		res, err := w.node.MapStateRead(context.Background(), w1MapClientPresence(ch), MapReadStateOptions{Limit: -1})
		if err != nil {
			continue
		}
		s.Probe("c05_map_presence_checked")
		for _, pub := range res.Publications {
			if pub.Key == cl.client.uid {
				sig := "map client presence entry of closed connection"
				if w.endedDuringSubscribeCallback(cl, ch) {
					sig += " [the subscription was ended (unsubscribe or close) while its subscribe was still completing]"
				}
				s.Violate("C05", "map-presence-survives", sig, "%s: closed client %d still has key in %s", when, cl.idx, w1MapClientPresence(ch))
			}
		}
	}
}

// checkSettled runs after all scripted activity stopped and the settle time passed.
func (w *w1World) checkSettled() {
	s := w.s
	// C05 for connections that already ended
	for _, cl := range w.clients {
		if cl.isClosed() && !cl.never() {
			s.Probe("nontrivial:C05")
			w.checkNoTrace(cl, "settled")
		}
	}
	// C04: routing matches reported state
	for _, cl := range w.clients {
		if cl.isClosed() || !cl.connected || cl.observer {
			continue
		}
		reported := map[string]bool{}
		for _, ch := range cl.client.Channels() {
			reported[ch] = true
		}
		ctxs := cl.client.ChannelsWithContext()
		he := w.hubEntries(cl)
		for ch := range reported {
			gen, ok := he[ch]
			if !ok {
				s.Violate("C04", "reported-without-routing", "reported subscription has no routing entry", "client %d reports %s subscribed but the node has no routing entry", cl.idx, ch)
			} else if cctx, ok2 := ctxs[ch]; ok2 && cctx.subGen != gen {
				s.Violate("C04", "routing-generation-mismatch", "routing entry of another subscription generation", "client %d channel %s: routing entry gen %d, subscription gen %d", cl.idx, ch, gen, cctx.subGen)
			}
			if _, dup := he[ch+"#dup"]; dup {
				s.Violate("C04", "duplicate-routing", "two routing entries", "client %d channel %s has two routing entries", cl.idx, ch)
			}
		}
		for ch := range he {
			if !reported[ch] && !strings.HasSuffix(ch, "#dup") {
				s.Violate("C04", "routing-without-reported", "routing entry for unreported channel", "client %d has a routing entry for %s but does not report it subscribed", cl.idx, ch)
			}
		}
	}
	faulty := w.sc.Cfg.DropPm+w.sc.Cfg.DupPm+w.sc.Cfg.DelayPm > 0
	if (w.prop == "C04" || w.prop == "C10") && !faulty {
		for _, ch := range w.sc.Channels {
			before := map[int]bool{}
			for _, cl := range w.clients {
				if !cl.isClosed() && cl.connected && !cl.never() {
					before[cl.idx] = cl.client.IsSubscribed(ch)
				}
			}
			mark := len(w.pubs)
			w.markerPhase = true
			w.publish(ch)
			w.markerPhase = false
			rec := w.pubs[mark]
			s.Sleep(300 * time.Millisecond)
			for _, cl := range w.clients {
				sub, ok := before[cl.idx]
				if !ok || cl.isClosed() || cl.client.IsSubscribed(ch) != sub {
					continue
				}
				// nothing else publishes at the settled point: every publication push on
				// the channel after the marker was published is the marker (its payload may
				// be delta-encoded, so it is not matched by content)
				got := 0
				for _, f := range cl.frames {
					if f.Kind == "push:pub" && f.Ch == ch && f.Seq > rec.Seq {
						got++
					}
				}
				s.Probe("nontrivial:C04")
				switch {
				case sub && got == 0:
					s.Violate("C04", "subscribed-not-routed", "publication not delivered to subscribed connection", "client %d reports %s subscribed but did not receive marker %s", cl.idx, ch, rec.Data)
				case !sub && got > 0:
					s.Violate("C04", "routed-not-subscribed", "publication delivered to unsubscribed connection", "client %d does not report %s subscribed but received marker %s", cl.idx, ch, rec.Data)
				case got > 1:
					s.Violate("C04", "delivered-twice", "publication delivered more than once", "client %d received marker %s on %s %d times", cl.idx, rec.Data, ch, got)
				}
			}
		}
	}
	// C37: never more subscriptions than the channel limit
	if lim := w.sc.Cfg.ChannelLimit; lim > 0 {
		for _, cl := range w.clients {
			if cl.never() || cl.isClosed() || cl.observer {
				continue
			}
			if n := len(cl.client.Channels()); n > lim {
				s.Violate("C37", "channel-limit-exceeded", "more subscriptions than ClientChannelLimit", "client %d holds %d subscriptions %v, limit %d", cl.idx, n, cl.client.Channels(), lim)
			}
		}
	}
	// C26: the node is broker-subscribed to exactly the channels with local subscribers
	if w.pubsub != nil {
		// "once subscriptions settle and deferred work drains": a connection the server
		// itself closed late in the settle window (write error, stale timer) has its deferred
		// broker unsubscribe (1 s + retries) still queued. The leak clause is a bounded
		// eventually: wait, in whole simulated seconds and at most 10 of them, while some
		// channel has no local subscriber but is still broker-subscribed.
		for i := 0; i < 10; i++ {
			pending := false
			var bsubbed []string
			for ch, bs := range w.pubsub.subscribed {
				if bs > 0 {
					bsubbed = append(bsubbed, ch)
				}
			}
			sort.Strings(bsubbed)
			for _, ch := range bsubbed {
				if w.node.hub.NumSubscribers(ch) == 0 {
					pending = true
				}
			}
			if !pending {
				break
			}
			s.Probe("c26_waited_for_deferred_unsubscribe")
			s.Sleep(time.Second)
		}
		chs := map[string]bool{}
		for _, ch := range w.sc.Channels {
			chs[ch] = true
		}
		for ch := range w.pubsub.subscribed {
			chs[ch] = true
		}
		var names []string
		for ch := range chs {
			names = append(names, ch)
		}
		sort.Strings(names)
		for _, ch := range names {
			local := w.node.hub.NumSubscribers(ch)
			bs := w.pubsub.subscribed[ch]
			s.Probe("nontrivial:C26")
			switch {
			case local > 0 && bs <= 0:
				s.Violate("C26", "interest-without-broker-subscription", "local subscribers but no broker subscription", "%s: %d local subscribers, broker subscription count %d", ch, local, bs)
			case local == 0 && bs > 0:
				s.Violate("C26", "broker-subscription-leak", "broker subscription without local subscribers after settling", "%s: no local subscribers, broker subscription count %d", ch, bs)
			case bs > 1 || bs < 0:
				s.Violate("C26", "broker-subscription-count", "unbalanced broker subscribe/unsubscribe calls", "%s: broker subscription count %d", ch, bs)
			}
		}
	}
	// C06: presence reflects settled subscriptions
	for _, ch := range w.sc.Channels {
		if !chHas(ch, 'e') {
			continue
		}
		res, err := w.node.Presence(ch)
		if err != nil {
			continue
		}
		users := map[string]bool{}
		for _, info := range res.Presence {
			users[info.UserID] = true
		}
		for _, cl := range w.clients {
			if cl.isClosed() || !cl.connected || cl.never() {
				continue
			}
			info, present := res.Presence[cl.client.uid]
			sub := cl.client.IsSubscribed(ch)
			s.Probe("nontrivial:C06")
			if sub && !present {
				sig := "settled subscription missing from presence"
				if w.unsubOverlapsSubStart(cl, ch) {
					// presence is keyed by (channel, client id), not by subscription: the
					// presence removal of an unsubscribe that was still in progress can hit
					// the entry a subscribe that began meanwhile has just added
					sig += " [an unsubscribe of the previous subscription was in progress when this subscription started]"
				}
				s.Violate("C06", "subscribed-not-present", sig, "client %d holds a settled subscription to %s but is not in its presence", cl.idx, ch)
			}
			if sub && present && (info.UserID != cl.spec.User || info.ClientID != cl.client.uid) {
				s.Violate("C06", "presence-info-wrong", "presence info mismatch", "client %d in %s: presence has user %q client %q", cl.idx, ch, info.UserID, info.ClientID)
			}
			if !sub && present {
				s.Violate("C06", "present-not-subscribed", "presence entry without subscription", "client %d is in presence of %s but holds no subscription", cl.idx, ch)
			}
		}
		st, err := w.node.PresenceStats(ch)
		if err == nil && (st.NumClients != len(res.Presence) || st.NumUsers != len(users)) {
			s.Violate("C06", "stats-mismatch", "presence stats differ from presence set", "%s: stats clients=%d users=%d, presence set has %d clients %d users", ch, st.NumClients, st.NumUsers, len(res.Presence), len(users))
		}
	}
}

func (w *w1World) checkAllClosed(base w1Gauges, obs *w1SimClient) {
	s := w.s
	for _, cl := range w.clients {
		if cl.observer || cl.never() {
			continue
		}
		if !cl.isClosed() {
			s.Violate("C05", "transport-not-closed", "transport not closed after close", "client %d: close func returned but Transport.Close was never called", cl.idx)
			continue
		}
		w.checkNoTrace(cl, "end")
	}
	g := w.snapshotGauges()
	wantConns, wantSubs := base.conns, base.subs
	if obs != nil && obs.connected && !obs.isClosed() {
		wantConns++
		wantSubs += float64(len(obs.client.Channels()))
	}
	if g.conns != wantConns {
		s.Violate("C05", "connections-gauge", "connections gauge did not return", "connections_inflight=%v after all connections ended, expected %v", g.conns, wantConns)
	}
	if g.subs != wantSubs {
		s.Violate("C05", "subscriptions-gauge", "subscriptions gauge did not return", "subscriptions_inflight=%v after all connections ended, expected %v", g.subs, wantSubs)
	}
	n := w.node.hub.NumClients()
	want := 0
	if obs != nil && obs.connected && !obs.isClosed() {
		want = 1
	}
	if n != want {
		s.Violate("C05", "num-clients", "connections registered after all ended", "hub has %d clients, expected %d", n, want)
	}
	for _, ch := range w.sc.Channels {
		if !chHas(ch, 'e') {
			continue
		}
		wantPresent := 0
		if obs != nil && obs.connected && !obs.isClosed() && obs.client.IsSubscribed(ch) {
			wantPresent = 1
		}
		if st, err := w.node.PresenceStats(ch); err == nil && st.NumClients != wantPresent {
			s.Violate("C06", "presence-after-end", "presence not empty after all subscriptions ended", "%s: %d clients present after every other connection ended (expected %d)", ch, st.NumClients, wantPresent)
		}
	}
}

func (w *w1World) checkAfterShutdown() {
	s := w.s
	s.Probe("nontrivial:C08")
	var shutdownBegan int64
	for _, op := range w.nodeOps {
		if op.Kind == "shutdown" {
			shutdownBegan = op.Seq
		}
	}
	for _, cl := range w.clients {
		if cl.never() {
			continue
		}
		var connectRet int64
		for _, f := range cl.frames {
			if f.Kind == "connect" {
				if c := cmdOf(cl, f.ReplyID); c != nil {
					connectRet = c.RetSeq
					if w.shutdownRet != 0 && c.Seq > w.shutdownRet {
						s.Probe("connect_after_shutdown_returned")
					}
				}
			}
		}
		registered := w.inConnHub(cl)
		if (!cl.isClosed() && cl.connected) || registered {
			sig := "connection that raced Shutdown (accepted by the transport handler before Shutdown began) stays connected"
			if connectRet != 0 && connectRet < shutdownBegan {
				sig = "connection connected before Shutdown began survived it"
			}
			s.Violate("C08", "connected-after-shutdown", sig, "client %d: connected=%v transport closed=%v registered=%v although Shutdown returned and everything settled", cl.idx, cl.connected, cl.isClosed(), registered)
		}
	}
}

// ---------------------------------------------------------------- log oracles

type w1Instance struct {
	cl         *w1SimClient
	ch         string
	startSeq   int64
	endSeq     int64 // 0: not ended by an explicit frame
	reqOffset  uint64
	reqEpoch   string
	reply      *w1Frame
	serverSide bool
	pubs       []w1Pub // delivered: recovered then live
	endCode    uint32
	startAt    time.Duration
	endKind    string
	endReplyID uint32 // command id an ending unsubscribe reply answers
	overlap    bool  // started by a push:sub that arrived while a subscription was active
	tf, delta  bool  // client tags filter used / delta negotiated
	originSeq  int64 // when the request that started it was issued (command sent / push observed)
}

// sure reports that the subscription certainly became established on the server: the
// client saw it start, and simulated time passed before its transport was closed (time
// only advances when nothing is runnable, so the commit that follows the reply has run
// before any later close began). A reply seen at the very instant of a close may belong
// to an attempt the close rolled back.
func (in *w1Instance) sure() bool {
	// with the "stalled goroutine" fault simulated time may pass while goroutines are
	// runnable (bounded by ~1.3 s per run): demand more than that
	margin := time.Duration(0)
	if in.cl.w.s.Cfg.StallPm > 0 {
		margin = 1500 * time.Millisecond
		if ms := in.cl.w.s.Cfg.LongStallMs; ms > 0 {
			margin = time.Duration(ms+300) * time.Millisecond
		}
	}
	return !in.cl.isClosed() || in.startAt+margin < in.cl.closedAt
}

func (w *w1World) checkHistory(obs *w1SimClient) {
	for _, cl := range w.clients {
		if !cl.never() {
			w.checkClientLog(cl)
		}
	}
	if obs != nil {
		w.checkJoinLeave(obs)
	}
}

func (w *w1World) checkClientLog(cl *w1SimClient) {
	s := w.s
	// ---- C11: the connect reply is the first server message
	if len(cl.frames) > 0 {
		s.Probe("nontrivial:C11")
		f := cl.frames[0]
		var connect *w1Cmd
		for _, c := range cl.cmds {
			if c.Kind == "connect" {
				connect = c
				break
			}
		}
		if connect == nil || f.ReplyID == 0 || f.ReplyID != connect.ID {
			// what could have produced it: a node-level operation addressed to this
			// connection's user while the connect command was being processed?
			cause := "unexplained"
			for _, op := range w.nodeOps {
				if op.Kind == "shutdown" || connect == nil {
					continue
				}
				produces := map[string][]string{"push:sub": {"nsub", "csub"}, "push:unsub": {"nunsub", "cunsub"}, "push:message": {"csend"},
					"push:join": {"nsub", "csub"}, "push:pub": {"nsub", "csub"}, "push:leave": {"nunsub", "cunsub"}}[f.Kind]
				match := false
				for _, k := range produces {
					if k == op.Kind {
						match = true
					}
				}
				if match && op.Seq < f.Seq && (op.RetSeq == 0 || op.RetSeq > connect.Seq) && (op.User == cl.spec.User || (strings.HasPrefix(op.Kind, "c") && op.C == cl.idx)) {
					cause = "node-level " + op.Kind + " during connect"
				}
			}
			if f.Kind == "push:pub" || f.Kind == "push:join" || f.Kind == "push:leave" {
				for _, ch := range cl.spec.ConnSubs {
					if ch == f.Ch && cause == "unexplained" {
						cause = "broadcast to connect-time subscription"
					}
				}
			}
			s.Violate("C11", "first-frame-not-connect-reply", "first frame "+f.Kind+" ("+cause+")", "client %d: first frame written is %s (id %d, channel %q), not the connect reply; cause: %s", cl.idx, f.Kind, f.ReplyID, f.Ch, cause)
		}
	}
	// ---- C10 / C01: per-channel bracketing and positioned delivery
	active := map[string]*w1Instance{}
	var instances []*w1Instance
	cmdByID := map[uint32]*w1Cmd{}
	for _, c := range cl.cmds {
		if c.ID != 0 {
			cmdByID[c.ID] = c
		}
	}
	start := func(ch string, f *w1Frame, server bool) *w1Instance {
		in := &w1Instance{cl: cl, ch: ch, startSeq: f.Seq, reply: f, serverSide: server, startAt: f.At, originSeq: f.Seq}
		if c := cmdByID[f.ReplyID]; c != nil && f.ReplyID != 0 {
			in.originSeq = c.Seq
			in.tf = c.Tf
			in.delta = c.Delta && f.Raw != nil && f.Raw.Subscribe != nil && f.Raw.Subscribe.Delta
		}
		active[ch] = in
		instances = append(instances, in)
		return in
	}
	end := func(ch string, f *w1Frame) {
		if in := active[ch]; in != nil {
			in.endSeq = f.Seq
			in.endCode = f.Code
			in.endKind = f.Kind
			in.endReplyID = f.ReplyID
			delete(active, ch)
		}
	}
	for i := range cl.frames {
		f := &cl.frames[i]
		switch f.Kind {
		case "connect":
			for ch, r := range f.Subs {
				in := start(ch, f, true)
				for _, p := range r.Publications {
					in.pubs = append(in.pubs, toW1Pub(p))
				}
				in.reply = &w1Frame{Seq: f.Seq, Offset: r.Offset, Epoch: r.Epoch, Recovered: r.Recovered, WasRecovering: r.WasRecovering, Positioned: r.Positioned, Recoverable: r.Recoverable}
			}
		case "subscribe":
			if f.ErrCode == 0 {
				if active[f.Ch] != nil {
					how := "subscribe reply"
					if active[f.Ch].serverSide {
						how = "push:sub or connect reply"
					}
					sig := "subscribe reply while subscribed via " + how
					// had the server ended that subscription already (a server-side
					// unsubscribe ran, its unsubscribe push is still on its way)? Then the
					// new subscribe was legitimately accepted and its reply overtook the push.
					var cmdSeq int64
					if c := cmdByID[f.ReplyID]; c != nil {
						cmdSeq = c.Seq
					}
					for _, op := range w.nodeOps {
						mine := (op.Kind == "nunsub" && op.User == cl.spec.User) || (op.Kind == "cunsub" && op.C == cl.idx)
						// (a node-level unsubscribe walks over the user's connections: it may have been
					// invoked before this connection's first subscription even started and reach
					// the connection after it - what matters is that it was still in progress when
					// the second subscribe command ran; seed 2 run 4521)
					if mine && op.Ch == f.Ch && op.Seq < f.Seq && (op.RetSeq == 0 || op.RetSeq > cmdSeq) {
							// the unsubscribe was in progress when the subscribe command ran
							sig = "subscribe reply overtakes the unsubscribe push of a server-side unsubscribe in progress"
						}
					}
					s.Violate("C10", "double-subscribe-reply", sig+w.rnq(), "client %d got a successful subscribe reply for %s while a subscription (started by %s) was active", cl.idx, f.Ch, how)
				}
				in := start(f.Ch, f, false)
				in.pubs = append(in.pubs, f.Pubs...)
			}
		case "push:sub":
			overlapped := active[f.Ch] != nil
			in := start(f.Ch, f, true)
			in.overlap = overlapped
		case "unsubscribe":
			// An unsubscribe reply ends the active subscription only if the command was
			// sent after the client saw that subscription start; a reply to an older
			// request (it waited behind an in-flight subscribe, or raced a server-side
			// resubscribe) says nothing about the subscription that is active now.
			if f.ErrCode == 0 {
				if in := active[f.Ch]; in != nil {
					if c := cmdByID[f.ReplyID]; c != nil && c.Seq > in.originSeq {
						end(f.Ch, f)
					} else {
						s.Probe("c10_stale_unsubscribe_reply")
					}
				}
			}
		case "push:unsub":
			end(f.Ch, f)
		case "push:pub", "push:join", "push:leave":
			in := active[f.Ch]
			if in == nil {
				s.Probe("nontrivial:C10")
				var prev *w1Instance
				for _, old := range instances {
					if old.ch == f.Ch {
						prev = old
					}
				}
				var sig string
				restartedByPush := false
				for j := i + 1; j < len(cl.frames); j++ {
					g := &cl.frames[j]
					if g.Ch == f.Ch && g.Kind == "push:sub" && g.At == f.At {
						restartedByPush = true
					}
				}
				if prev != nil && restartedByPush {
					sig = f.Kind + " before the subscription started (started later by push:sub)"
				} else if prev == nil {
					// before the (first) subscription started: how does it start later?
					startKind := "never started"
					for j := i + 1; j < len(cl.frames); j++ {
						g := &cl.frames[j]
						if g.Ch == f.Ch && ((g.Kind == "subscribe" && g.ErrCode == 0) || g.Kind == "push:sub") {
							startKind = "started later by " + g.Kind
							break
						}
						if g.Kind == "connect" {
							if _, ok := g.Subs[f.Ch]; ok {
								startKind = "started later by connect reply"
								break
							}
						}
					}
					sig = f.Kind + " before the subscription started (" + startKind + ")"
				} else {
					// after the subscription ended: was the push produced concurrently with
					// the end (it may have passed the subscribed check before the end) or
					// clearly later?
					timing := "concurrent with the end"
					if f.Kind == "push:pub" {
						for _, pr := range w.pubs {
							if pr.Ch == f.Ch && pr.Data == f.Pub.Data && pr.Seq > prev.endSeq {
								timing = "published after the end was observed"
							}
						}
					} else if f.At > cl.frameAt(prev.endSeq) {
						timing = "at a later time than the end"
					}
					sig = f.Kind + " after the subscription ended by " + prev.endKind + " (" + timing + ")"
					// A publication between the end of one subscription and the start of the next:
					// the unsubscribe reply is queued after the server removed the routing entry,
					// so a publication queued behind it found a routing entry again. When the
					// publish call overlapped the NEXT subscribe command of this connection
					// (invoked .. its reply written) that entry is the next subscription's, which
					// exists before its reply is queued: the recorded offset-less publication
					// finding "before the subscription started (started later by subscribe)"
					// (seed 3 run 5880). Without such an overlap the push stays a late delivery.
					early := ""
					if f.Kind == "push:pub" && prev.endKind == "unsubscribe" {
						for j := i + 1; j < len(cl.frames); j++ {
							g := &cl.frames[j]
							if g.Ch == f.Ch && g.Kind == "subscribe" && g.ErrCode == 0 {
								if c := cmdByID[g.ReplyID]; c != nil && c.Seq < f.Seq {
									for _, pr := range w.pubs {
										if pr.Ch == f.Ch && pr.Data == f.Pub.Data && pr.Seq < g.Seq && (pr.RetSeq == 0 || pr.RetSeq > c.Seq) {
											early = f.Kind + " before the subscription started (started later by subscribe)"
										}
									}
								}
								break
							}
							if g.Ch == f.Ch && (g.Kind == "push:sub" || g.Kind == "push:unsub" || g.Kind == "unsubscribe") {
								break
							}
						}
					}
					if early != "" {
						sig = early
					} else if prev.overlap {
						sig += " after overlapping server-side subscribe and unsubscribe"
					} else if prev.endKind == "unsubscribe" && w.serverUnsubInProgress(cl, f.Ch, prev, cmdByID) {
						// the unsubscribe command found a server-side unsubscribe of the channel
						// already tearing the subscription down: it is answered at once, before
						// the other one has removed the routing entry
						sig += " [the unsubscribe command was answered while a server-side unsubscribe of the channel was in progress]"
					} else if prev.endKind == "push:unsub" {
						// did the server end this subscription at all? (Client.Unsubscribe sends
						// an unsubscribe push even when it removed nothing)
						ended := false
						for _, cb := range cl.cbs {
							if cb.Kind == "unsubscribe" && cb.Ch == f.Ch && cb.Seq > prev.originSeq && cb.Seq < prev.endSeq {
								ended = true
							}
						}
						if !ended {
							sig += " after a spurious push:unsub (the server did not end the subscription)"
						} else if w.overlappingSubUnsub(cl, f.Ch) {
							sig += " after overlapping server-side subscribe and unsubscribe"
						}
					}
				}
				// the recorded early-push finding is about publications WITHOUT offset (the
				// offset-less path of writePublication does not look at flagSubscribed); a
				// publication with an offset written before a client-side subscribe / connect
				// reply is a different matter
				if f.Kind == "push:pub" && f.Pub != nil && f.Pub.Offset > 0 && strings.Contains(sig, "before the subscription started") && !strings.Contains(sig, "push:sub") {
					sig += " [publication with offset]"
				}
				// server-side subscribe: the recorded window (commit before the subscribe push
				// is queued) is open for non-positioned subscriptions only; a positioned or
				// recoverable one keeps PUB/SUB buffered until the push has been written
				if f.Kind == "push:pub" && f.Pub != nil && f.Pub.Offset > 0 && strings.Contains(sig, "started later by push:sub") && chPositioned(f.Ch) {
					sig += " [publication with offset on a positioned channel]"
				}
				sig += w.rnq()
				if w.sc.Cfg.Batch && chHas(f.Ch, 'b') {
					// the recorded batching finding is the race between a publication being
					// added to the per-channel writer and the unsubscribe's delWriter; a
					// publication whose publish call had returned before the end of the
					// subscription even began was buffered long before and must be dropped
					racing := true
					// (with reply-without-queue the reply overtakes pushes that had already
					// left the per-channel writer for the connection's queue: not separable)
					if f.Kind == "push:pub" && prev != nil && f.Pub != nil && w.sc.Cfg.DelayPm == 0 && w.rnq() == "" {
						racing = false
						beginEnd := w.endBeginSeq(cl, prev, cmdByID)
						known := false
						for _, pr := range w.pubs {
							if pr.Ch == f.Ch && pr.Data == f.Pub.Data {
								known = true
								if beginEnd == 0 || pr.RetSeq == 0 || pr.RetSeq > beginEnd {
									racing = true
								}
							}
						}
						if !known {
							racing = true
						}
						// the orphaned per-channel writer of the recorded race outlives later
						// subscriptions of the channel: a publish that overlapped ANY earlier
						// unsubscribe of this channel on this connection may sit in it and be
						// flushed by its timer after a later unsubscribe (thorough seed 1 run 15431)
						if !racing {
							for _, pr := range w.pubs {
								if pr.Ch != f.Ch || pr.Data != f.Pub.Data {
									continue
								}
								pend := pr.RetSeq
								if pend == 0 {
									pend = 1 << 62
								}
								for _, c := range cl.cmds {
									if c.Kind == "unsubscribe" && c.Ch == f.Ch && c.Seq < pend && (c.RetSeq == 0 || c.RetSeq > pr.Seq) {
										racing = true
									}
								}
								for _, op := range w.nodeOps {
									mine := (strings.HasPrefix(op.Kind, "n") && op.User == cl.spec.User) || (strings.HasPrefix(op.Kind, "c") && op.C == cl.idx)
									if mine && (op.Kind == "nunsub" || op.Kind == "cunsub") && (op.Ch == f.Ch || op.Ch == "") && op.Seq < pend && (op.RetSeq == 0 || op.RetSeq > pr.Seq) {
										racing = true
									}
								}
							}
						}
					}
					if racing {
						sig += " [per-channel batching]"
					} else {
						sig += " [per-channel batching: buffered before the end began]"
					}
				}
				s.Violate("C10", "push-outside-subscription", sig, "client %d received %s for %s outside a subscription (frame seq %d): %s", cl.idx, f.Kind, f.Ch, f.Seq, sig)
				continue
			}
			if f.Kind == "push:pub" {
				in.pubs = append(in.pubs, *f.Pub)
			}
		}
	}
	if len(instances) > 0 {
		s.Probe("nontrivial:C10")
	}
	// ---- C16 / C14
	for _, in := range instances {
		if chHas(in.ch, 'f') || chHas(in.ch, 'd') {
			w.checkFilterAndDelta(in)
		}
	}
	// ---- C01 / C38
	for _, in := range instances {
		if !chPositioned(in.ch) {
			if chHas(in.ch, 'm') {
				w.checkMediumOrder(in)
			}
			continue
		}
		w.checkPositioned(in)
	}
	cl.instances = instances
	// ---- C37
	if w.prop == "C37" {
		w.checkLimits(cl, instances)
	}
	// ---- C36
	if w.prop == "C36" {
		w.checkLiveness(cl)
	}
	// ---- C11, dictionary encoder discipline
	if d := cl.tr.dict; d != nil {
		s.Probe("c11_encoder_checked")
		if d.closeDuring {
			s.Violate("C11", "encoder-closed-during-use", "dictionary encoder closed while an Encode or a transport write was in progress"+w.rnq(), "client %d: CloseDictionaryCompression ran concurrently with a write (%d Encode calls so far)", cl.idx, d.encodes)
		}
		if d.afterClose > 0 {
			s.Violate("C11", "encoder-used-after-close", "frame written after the dictionary encoder was closed"+w.rnq(), "client %d: %d frames were written after CloseDictionaryCompression", cl.idx, d.afterClose)
		}
		if d.closes > 1 {
			s.Violate("C11", "encoder-closed-twice", "dictionary encoder closed more than once", "client %d: closed %d times", cl.idx, d.closes)
		}
		if cl.isClosed() && d.closes == 0 {
			s.Violate("C11", "encoder-not-closed", "dictionary encoder never closed although the connection ended", "client %d: encoder installed, connection closed, Close never called", cl.idx)
		}
		if d.rawFrames > 1 {
			s.Violate("C11", "raw-frame-after-connect-reply", "more than one frame bypassed the encoder", "client %d: %d raw frames", cl.idx, d.rawFrames)
		}
	}
	// ---- C09
	w.checkCommands(cl)
	// ---- C08
	w.checkCallbacks(cl, instances)
}

func (w *w1World) truth(ch string, offset uint64, epoch string) *w1PubRec {
	for _, p := range w.pubs {
		if p.Ch == ch && p.Offset == offset && p.Epoch == epoch && p.Err == "" {
			return p
		}
	}
	return nil
}

// checkPositioned is the C01 oracle for one subscription instance.
func (w *w1World) checkPositioned(in *w1Instance) {
	s := w.s
	r := in.reply
	if r == nil {
		return
	}
	prop := "C01"
	if chHas(in.ch, 'm') {
		prop = "C38" // channel medium in front of the hub: same delivery guarantees
	}
	s.Probe("nontrivial:" + prop)
	startOff := r.Offset // reply offset; equals the request offset when recovered
	epoch := r.Epoch
	last := startOff
	for i, p := range in.pubs {
		if p.Offset == 0 {
			s.Violate(prop, "unpositioned-pub", "publication without offset on positioned subscription", "client %d %s: publication %d of the instance has offset 0", in.cl.idx, in.ch, i)
			continue
		}
		if p.Offset <= last {
			s.Violate(prop, "offset-not-increasing", "duplicate or reordered offset"+w.rnq(), "client %d %s: received offset %d after %d", in.cl.idx, in.ch, p.Offset, last)
			continue
		}
		filteredGap := true
		for o := last + 1; o < p.Offset; o++ {
			t := w.truth(in.ch, o, epoch)
			if t == nil || !w.filteredFor(in, t) {
				filteredGap = false
			}
		}
		if p.Offset != last+1 && !filteredGap {
			s.Violate(prop, "gap", "gap in delivered offsets"+w.rnq(), "client %d %s: received offset %d after %d (start %d, recovered=%v) without an insufficient-state end", in.cl.idx, in.ch, p.Offset, last, startOff, r.Recovered)
		}
		if t := w.truth(in.ch, p.Offset, epoch); t != nil && !p.Delta && t.Data != p.Data {
			s.Violate(prop, "wrong-data", "payload differs from published", "client %d %s offset %d: got %s, published %s", in.cl.idx, in.ch, p.Offset, p.Data, t.Data)
		}
		last = p.Offset
	}
	if len(in.pubs) > 0 {
		s.Probe("c01_pubs_delivered")
	}
}

// checkMediumOrder: per-channel order for a non-positioned subscription behind the
// channel medium: a publication whose Publish call returned before another one's began
// must not be delivered after it, and nothing is delivered twice.
func (w *w1World) checkMediumOrder(in *w1Instance) {
	s := w.s
	var recs []*w1PubRec
	seen := map[string]bool{}
	for _, p := range in.pubs {
		for _, t := range w.pubs {
			if t.Ch == in.ch && t.Data == p.Data {
				if seen[t.Data] {
					s.Violate("C38", "duplicate", "publication delivered twice through the channel medium", "client %d %s: %s delivered twice", in.cl.idx, in.ch, t.Data)
				}
				seen[t.Data] = true
				recs = append(recs, t)
			}
		}
	}
	if len(recs) > 1 {
		s.Probe("nontrivial:C38")
	}
	for i := 1; i < len(recs); i++ {
		a, b := recs[i-1], recs[i]
		if b.RetSeq != 0 && b.RetSeq < a.Seq {
			sig := "publications reordered by the channel medium"
			if w.pubsub != nil && w.pubsub.resubscribed[in.ch] {
				sig += " (channel emptied and re-subscribed before the deferred broker unsubscribe ran: two medium instances alive)"
			}
			s.Violate("C38", "order", sig, "client %d %s: %s (publish returned at %d) delivered after %s (publish began at %d)", in.cl.idx, in.ch, b.Data, b.RetSeq, a.Data, a.Seq)
		}
	}
}

// serverUnsubInProgress: was a node-level / Client.Unsubscribe of the channel that concerns
// this connection running when the unsubscribe command that ended the instance was handled?
// (classification of signatures only)
func (w *w1World) serverUnsubInProgress(cl *w1SimClient, ch string, in *w1Instance, cmdByID map[uint32]*w1Cmd) bool {
	c := cmdByID[in.endReplyID]
	if c == nil {
		return false
	}
	for _, op := range w.nodeOps {
		mine := (op.Kind == "nunsub" && op.User == cl.spec.User) || (op.Kind == "cunsub" && op.C == cl.idx)
		if mine && op.Ch == ch && op.Seq < in.endSeq && (op.RetSeq == 0 || op.RetSeq > c.Seq) {
			return true
		}
	}
	return false
}

// filteredFor reports whether the subscription's tags filters withhold a publication.
func (w *w1World) filteredFor(in *w1Instance, t *w1PubRec) bool {
	// the server tags filter comes from SubscribeOptions (OnSubscribe reply or
	// ConnectReply.Subscriptions); the node-level Subscribe API has no option for it, so
	// subscriptions started by a subscribe push carry none
	viaPush := in.reply != nil && in.reply.Kind == "push:sub"
	if chHas(in.ch, 'f') && !viaPush && t.Tags["s"] != "1" {
		return true
	}
	if in.tf && t.Tags["c"] != "1" {
		return true
	}
	return false
}

// checkFilterAndDelta: C16 (no delivery of a publication excluded by either filter, for
// subscriptions without delta) and C14 (applying each delivered delta to the payload the
// client holds yields the published payload) for one subscription instance.
func (w *w1World) checkFilterAndDelta(in *w1Instance) {
	s := w.s
	var base []byte
	haveBase := false
	for _, p := range in.pubs {
		data := []byte(p.Data)
		if in.delta && in.cl.proto == ProtocolTypeJSON {
			// with JSON + fossil every payload travels as a JSON string
			var str string
			if err := json.Unmarshal(data, &str); err != nil {
				s.Violate("C14", "delta-framing", "delta subscription payload is not a JSON string"+w.rnq(), "client %d %s offset %d: payload %q", in.cl.idx, in.ch, p.Offset, p.Data)
				continue
			}
			data = []byte(str)
		}
		var truth *w1PubRec
		if p.Offset > 0 && in.reply != nil {
			truth = w.truth(in.ch, p.Offset, in.reply.Epoch)
		}
		if in.delta {
			s.Probe("nontrivial:C14")
			var full []byte
			if p.Delta {
				s.Probe("c14_real_delta")
				if !haveBase {
					sig := "delta delivered although the client holds no base"
					if in.reply != nil && in.reply.Recovered && len(in.reply.Pubs) == 0 {
						sig += " (subscription recovered from a position whose payload the client never received)"
					}
					s.Violate("C14", "delta-without-base", sig+w.rnq(), "client %d %s offset %d: first publication of the subscription is a delta", in.cl.idx, in.ch, p.Offset)
					continue
				}
				out, err := fdelta.Apply(base, data)
				if err != nil {
					s.Violate("C14", "delta-apply-failed", "delta does not apply to the held payload"+w.rnq(), "client %d %s offset %d: %v", in.cl.idx, in.ch, p.Offset, err)
					continue
				}
				full = out
			} else {
				full = data
			}
			if truth != nil && string(full) != truth.Data {
				s.Violate("C14", "delta-wrong-result", "reconstructed payload differs from the published one"+w.rnq(), "client %d %s offset %d: reconstructed %q, published %q (delta=%v)", in.cl.idx, in.ch, p.Offset, full, truth.Data, p.Delta)
			}
			base, haveBase = full, true
			continue
		}
		if p.Delta {
			s.Violate("C14", "delta-not-negotiated", "delta delivered to a subscription that did not negotiate it"+w.rnq(), "client %d %s offset %d", in.cl.idx, in.ch, p.Offset)
		}
		// C16: the publication must pass both filters
		if truth == nil {
			for _, t := range w.pubs {
				if t.Ch == in.ch && t.Data == p.Data {
					truth = t
				}
			}
		}
		if truth != nil && chHas(in.ch, 'f') {
			s.Probe("nontrivial:C16")
			if w.filteredFor(in, truth) {
				path := "live broadcast"
				if in.reply != nil {
					for _, rp := range in.reply.Pubs {
						if rp.Offset == p.Offset && rp.Data == p.Data {
							path = "recovery"
						}
					}
				}
				if path == "live broadcast" && truth.RetSeq != 0 && truth.RetSeq < in.originSeq {
					// published (and broadcast) before this subscription was even requested:
					// it was admitted by the filters of the previous subscription and is
					// attributed to this one only because it was delivered after its reply
					path = "publication broadcast before the subscription was requested" + w.rnq()
				}
				s.Violate("C16", "filtered-delivered", "publication excluded by a tags filter was delivered ("+path+")", "client %d %s offset %d tags %v delivered although filters (server s==1, client filter used=%v) exclude it", in.cl.idx, in.ch, p.Offset, truth.Tags, in.tf)
			}
		}
	}
}

// checkCommands is the C09 oracle.
func (w *w1World) checkCommands(cl *w1SimClient) {
	s := w.s
	replies := map[uint32]int{}
	for _, f := range cl.frames {
		if f.ReplyID != 0 {
			replies[f.ReplyID]++
		}
	}
	for id, n := range replies {
		if n > 1 {
			s.Violate("C09", "duplicate-reply", "two replies for one command id", "client %d: %d replies with id %d", cl.idx, n, id)
		}
	}
	// the connection is authenticated once the server finished handling a connect
	// command that it answers with a connect result (commands may be pipelined behind
	// it without waiting for the reply frame)
	firstConnectOK := int64(0)
	for _, f := range cl.frames {
		if f.Kind == "connect" {
			if c := cmdOf(cl, f.ReplyID); c != nil && c.Returned {
				firstConnectOK = c.RetSeq
			}
			break
		}
	}
	if firstConnectOK == 0 {
		// the reply may never have reached the peer (closed first); the connect
		// callback running inside a connect command is the server-side evidence
		for _, c := range cl.cmds {
			if c.Kind != "connect" || !c.Returned || !c.Proceed {
				continue
			}
			for _, cb := range cl.cbs {
				if cb.Kind == "connect" && cb.Seq > c.Seq && cb.Seq < c.RetSeq {
					firstConnectOK = c.RetSeq
				}
			}
			break
		}
	}
	for i, c := range cl.cmds {
		if c.Kind == "pong" && c.ID == 0 {
			continue
		}
		preAuth := firstConnectOK == 0 || c.Seq < firstConnectOK
		if preAuth && c.Kind != "connect" {
			s.Probe("nontrivial:C09")
			// must close the connection with bad request, no handler may run
			if c.Returned && c.Proceed {
				s.Violate("C09", "preauth-command-accepted", "command before connect accepted: "+c.Kind, "client %d: %s before a successful connect was accepted (HandleCommand returned true)", cl.idx, c.Kind)
			}
			for _, cb := range cl.cbs {
				if cb.Seq > c.Seq && (i+1 >= len(cl.cmds) || cb.Seq < cl.cmds[i+1].Seq) && cb.Kind != "disconnect" && cb.Kind != "unsubscribe" {
					s.Violate("C09", "preauth-handler-invoked", "handler ran for unauthenticated command", "client %d: handler %s ran for a %s sent before connect", cl.idx, cb.Kind, c.Kind)
				}
			}
			// a server-side disconnect of this connection, a failing transport or (emulation
			// delivery) later commands handled before the asynchronous bad-request close runs
			// compete for the close code
			otherCloser := cl.tr.failWrites || cl.spec.Emulation
			for _, op := range w.nodeOps {
				if (op.Kind == "ndisc" && op.User == cl.spec.User) || (op.Kind == "cdisc" && op.C == cl.idx) {
					otherCloser = true
				}
			}
			if cl.isClosed() && !otherCloser && cl.closeCode != DisconnectBadRequest.Code && cl.closeCode != DisconnectConnectionClosed.Code && c.Returned && !c.Proceed && i == 0 {
				s.Violate("C09", "preauth-wrong-code", "wrong disconnect code for unauthenticated command", "client %d: closed with %d after %s before connect, expected bad request", cl.idx, cl.closeCode, c.Kind)
			}
			continue
		}
		if c.ID == 0 || !c.Returned || !c.Proceed {
			continue
		}
		// replies are owed only if the connection stayed open until the settled point
		// (the harness itself closes every remaining connection after it: this oracle
		// runs at the very end, so "closed by now" is true for all of them)
		if cl.isClosed() && (cl.closedSeq == 0 || w.endPhaseSeq == 0 || cl.closedSeq < w.endPhaseSeq) {
			continue
		}
		s.Probe("nontrivial:C09")
		s.Probe("c09_reply_owed_checked")
		if replies[c.ID] == 0 {
			s.Violate("C09", "missing-reply", "no reply for command: "+c.Kind, "client %d: %s (id %d, channel %q) was accepted, the connection stayed open, but no reply arrived", cl.idx, c.Kind, c.ID, c.Ch)
		}
	}
	// unsolicited pong
	pingsSeen := 0
	fi := 0
	// a ping counts from the moment the server queued it; with a write delay (and a
	// stalled writer goroutine) it reaches the transport later. A pong that the observer
	// sent "too early" is solicited if such a ping shows up within that delay.
	queueLag := time.Duration(w.sc.Cfg.WriteDelayUs)*time.Microsecond + time.Millisecond
	if s.Stalls > 0 {
		queueLag += 1300 * time.Millisecond // the writer goroutine itself may have been held back
	}
	consumed := map[int]bool{}
	for _, c := range cl.cmds {
		for fi < len(cl.frames) && cl.frames[fi].Seq < c.Seq {
			if cl.frames[fi].Kind == "ping" && !consumed[fi] {
				pingsSeen++
			}
			fi++
		}
		if c.Kind == "pong" && firstConnectOK != 0 && c.Seq > firstConnectOK {
			if pingsSeen == 0 && c.Returned && c.Proceed {
				for k := fi; k < len(cl.frames) && cl.frames[k].At <= c.At+queueLag; k++ {
					if cl.frames[k].Kind == "ping" && !consumed[k] {
						consumed[k] = true
						pingsSeen++
						s.Probe("c09_pong_for_ping_still_in_write_queue")
						break
					}
				}
			}
			if pingsSeen == 0 && c.Returned && c.Proceed {
				s.Violate("C09", "unsolicited-pong-accepted", "pong without ping accepted", "client %d: a pong without any preceding ping was accepted", cl.idx)
			}
			if pingsSeen > 0 {
				pingsSeen--
			}
		}
	}
}

// checkCallbacks is the C08 oracle over the callback log of one connection.
func (w *w1World) checkCallbacks(cl *w1SimClient, instances []*w1Instance) {
	s := w.s
	var connects, disconnects int
	var connectSeq, disconnectSeq int64
	for _, cb := range cl.cbs {
		switch cb.Kind {
		case "connect":
			connects++
			if connects == 1 {
				connectSeq = cb.Seq
			}
		case "disconnect":
			disconnects++
			if disconnects == 1 {
				disconnectSeq = cb.Seq
			}
		}
	}
	if len(cl.cbs) > 0 {
		s.Probe("nontrivial:C08")
	}
	// OnConnect must not run for a connection that is already closed, and no other
	// callback may run before OnConnect returned
	var connectDone int64
	for _, cb := range cl.cbs {
		if cb.Kind == "connect-done" && connectDone == 0 {
			connectDone = cb.Seq
		}
	}
	if connects > 0 && cl.isClosed() && cl.closedSeq != 0 && connectSeq > cl.closedSeq {
		s.Violate("C08", "connect-after-close", "OnConnect ran after the connection was closed", "client %d: transport closed (code %d) before OnConnect ran", cl.idx, cl.closeCode)
	}
	for _, cb := range cl.cbs {
		// callbacks driven by the connection's own timers and commands (server-initiated
		// unsubscribes/disconnects can reach a hub-registered connection at any time)
		own := map[string]bool{"alive": true, "subscribe": true, "publish": true, "rpc": true, "history": true, "presence": true, "presence_stats": true, "message": true, "sub_refresh": true, "refresh": true}[cb.Kind]
		if own && connects > 0 && connectDone != 0 && cb.Seq > connectSeq && cb.Seq < connectDone {
			s.Violate("C08", "callback-during-connect", "callback ran before OnConnect returned: "+cb.Kind, "client %d: %s callback ran while OnConnect was still running", cl.idx, cb.Kind)
		}
	}
	if connects > 1 {
		s.Violate("C08", "connect-twice", "OnConnect ran twice", "client %d: OnConnect ran %d times", cl.idx, connects)
	}
	if disconnects > 1 {
		s.Violate("C08", "disconnect-twice", "OnDisconnect ran twice", "client %d: OnDisconnect ran %d times", cl.idx, disconnects)
	}
	if disconnects > 0 && connects == 0 {
		s.Violate("C08", "disconnect-without-connect", "OnDisconnect without OnConnect", "client %d: OnDisconnect ran but OnConnect never did", cl.idx)
	}
	for _, cb := range cl.cbs {
		if connects > 0 && cb.Seq < connectSeq {
			s.Violate("C08", "callback-before-connect", "callback before OnConnect: "+cb.Kind, "client %d: %s callback ran before OnConnect", cl.idx, cb.Kind)
		}
		if cb.Kind == "alive" && disconnects > 0 && cb.Seq > disconnectSeq {
			s.Violate("C08", "alive-after-disconnect", "OnAlive after OnDisconnect", "client %d: OnAlive ran after OnDisconnect", cl.idx)
		}
	}
	if connects > 0 && disconnects == 0 && cl.isClosed() && !w.shutdownDone {
		// closed connection that connected: OnDisconnect must have run by now (settled)
		s.Violate("C08", "disconnect-missing", "OnDisconnect missing", "client %d: connection connected and closed, but OnDisconnect never ran", cl.idx)
	}
	// OnUnsubscribe exactly once per established subscription that ended
	perCh := map[string][]*w1Instance{}
	for _, in := range instances {
		perCh[in.ch] = append(perCh[in.ch], in)
	}
	unsubs := map[string]int{}
	attempts := map[string]int{} // subscribe attempts that could have established
	for _, cb := range cl.cbs {
		if cb.Kind == "unsubscribe" {
			unsubs[cb.Ch]++
		}
	}
	for _, c := range cl.cmds {
		if c.Kind == "subscribe" {
			attempts[c.Ch]++
		}
	}
	for _, op := range w.nodeOps {
		if (op.Kind == "nsub" && w.sc.Clients[op.C].User == cl.spec.User) || (op.Kind == "csub" && op.C == cl.idx) {
			attempts[op.Ch]++
		}
	}
	for _, ch := range cl.spec.ConnSubs {
		attempts[ch]++
	}
	if !cl.isClosed() || connects == 0 {
		// the application installs OnUnsubscribe inside OnConnect: without OnConnect
		// there is no handler that could have been called
		return
	}
	chs := map[string]bool{}
	for ch := range perCh {
		chs[ch] = true
	}
	for ch := range unsubs {
		chs[ch] = true
	}
	for ch := range chs {
		established := 0 // instances that certainly became established; all ended (connection closed)
		for _, in := range perCh[ch] {
			if in.sure() {
				established++
			}
		}
		got := unsubs[ch]
		if got < established {
			sig := "OnUnsubscribe missing for ended subscription"
			for _, op := range w.nodeOps {
				if (op.Kind == "nunsub" || op.Kind == "cunsub") && op.Ch == ch && connects > 0 && op.Seq < connectSeq && (op.User == cl.spec.User || op.C == cl.idx) {
					sig = "OnUnsubscribe missing: connect-time subscription ended by a server-side unsubscribe before OnConnect ran (no handler installed yet)"
				}
			}
			s.Violate("C08", "unsubscribe-missing", sig, "client %d %s: %d subscriptions were established and ended but OnUnsubscribe ran %d times", cl.idx, ch, established, got)
		}
		if got > attempts[ch] {
			s.Violate("C08", "unsubscribe-extra", "OnUnsubscribe ran more often than subscribe attempts", "client %d %s: OnUnsubscribe ran %d times for %d subscribe attempts", cl.idx, ch, got, attempts[ch])
		}
	}
}

// checkJoinLeave is the C07 oracle at the observer that was subscribed throughout.
func (w *w1World) checkJoinLeave(obs *w1SimClient) {
	s := w.s
	type key struct{ ch, client string }
	seqs := map[key][]string{}
	for _, f := range obs.frames {
		if f.Kind == "push:join" {
			seqs[key{f.Ch, f.Info}] = append(seqs[key{f.Ch, f.Info}], "J")
		} else if f.Kind == "push:leave" {
			seqs[key{f.Ch, f.Info}] = append(seqs[key{f.Ch, f.Info}], "L")
		}
	}
	for _, cl := range w.clients {
		if cl.observer || cl.never() {
			continue
		}
		for _, ch := range w.sc.Channels {
			if !chHas(ch, 'j') {
				continue
			}
			seq := seqs[key{ch, cl.client.uid}]
			str := strings.Join(seq, "")
			// Join and leave pushes carry no subscription identity, so pairing is by count:
			// every leave needs an earlier unmatched join (join before leave for each
			// subscription); overlapping instances (J J L L) are legal, a leave that
			// precedes its join is not.
			anomaly := ""
			bal := 0
			for i, x := range seq {
				if x == "J" {
					bal++
					continue
				}
				bal--
				if bal < 0 {
					if i+1 < len(seq) && seq[i+1] == "J" {
						anomaly = "leave published before the join of the same subscription"
						// the recorded finding: the join is published by the tail of the
						// subscribe, after the commit; an unsubscribe / close that begins
						// while that subscribe is still completing publishes its leave first.
						// A leave that overtakes the join of a subscribe that had already
						// returned when the end began is a different matter.
						if w.endedDuringSubscribeCallback(cl, ch) {
							anomaly += " [the subscription was ended while its subscribe was still completing]"
						}
					} else {
						anomaly = "leave without any join"
					}
					break
				}
			}
			if anomaly != "" {
				s.Violate("C07", "join-leave-order", anomaly, "observer saw %s for client %d on %s: %s", str, cl.idx, ch, anomaly)
			}
			if len(seq) > 0 {
				s.Probe("nontrivial:C07")
			}
			if cl.isClosed() && bal != 0 && anomaly == "" {
				s.Violate("C07", "leave-missing", "join without leave after the connection ended", "observer saw %s for client %d on %s although the connection ended", str, cl.idx, ch)
			}
			// lower bound: every subscription the subject saw established produced a join;
			// upper bound: attempts answered with an error produce none
			established, attempts, errored := 0, 0, 0
			for _, in := range cl.instances {
				if in.ch == ch && in.sure() {
					established++
				}
			}
			for _, f := range cl.frames {
				if f.Kind == "error" && f.Ch == ch {
					if c := cmdOf(cl, f.ReplyID); c != nil && c.Kind == "subscribe" {
						errored++
					}
				}
			}
			for _, c := range cl.cmds {
				if c.Kind == "subscribe" && c.Ch == ch {
					attempts++
				}
			}
			for _, op := range w.nodeOps {
				if op.Ch != ch {
					continue
				}
				if op.Kind == "nsub" && op.User == cl.spec.User {
					attempts++ // a node-level call reaches every connection of the user; its error is not attributable
				}
				if op.Kind == "csub" && op.C == cl.idx {
					attempts++
					if op.Err != "" {
						errored++
					}
				}
			}
			for _, c := range cl.spec.ConnSubs {
				if c == ch {
					attempts++
				}
			}
			joins := strings.Count(str, "J")
			if joins < established {
				s.Violate("C07", "join-missing", "established subscription without join", "client %d established %d subscriptions to %s but the observer saw %d joins (%s)", cl.idx, established, ch, joins, str)
			}
			if joins > attempts-errored {
				s.Violate("C07", "join-for-failed-attempt", "join for a failed subscribe attempt", "client %d made %d subscribe attempts to %s of which %d failed, but the observer saw %d joins (%s)", cl.idx, attempts, ch, errored, joins, str)
			}
		}
	}
}

// overlappingSubUnsub reports whether a node-level unsubscribe call for (connection,
// channel) overlapped in time with any subscribe of that channel on the connection
// (node-level call, client command or the connect command of a connect-time subscription).
// unsubOverlapsSubStart: was an unsubscribe of ch for this connection (its own command,
// or a node-level / client-level server-side unsubscribe) in progress while a subscribe
// of ch for this connection (command, connect-time subscription, server-side subscribe)
// was in progress? Intervals are invocation..return of the call as the harness saw them;
// a subscribe command with an asynchronous handler completes at an unknown later point.
func (w *w1World) unsubOverlapsSubStart(cl *w1SimClient, ch string) bool {
	type iv struct{ a, b int64 }
	var subs, unsubs []iv
	end := func(x int64) int64 {
		if x == 0 {
			return 1 << 62
		}
		return x
	}
	for _, op := range w.nodeOps {
		if op.Ch != ch {
			continue
		}
		mine := (strings.HasPrefix(op.Kind, "n") && op.User == cl.spec.User) || (strings.HasPrefix(op.Kind, "c") && op.C == cl.idx)
		if !mine {
			continue
		}
		switch op.Kind {
		case "nsub", "csub":
			subs = append(subs, iv{op.Seq, end(op.RetSeq)})
		case "nunsub", "cunsub":
			unsubs = append(unsubs, iv{op.Seq, end(op.RetSeq)})
		}
	}
	for _, c := range cl.cmds {
		switch {
		case c.Kind == "subscribe" && c.Ch == ch:
			// in progress until its reply is on the transport (asynchronous handler)
			b := int64(1 << 62)
			for k := range cl.frames {
				if cl.frames[k].ReplyID == c.ID && c.ID != 0 {
					b = cl.frames[k].Seq
					break
				}
			}
			subs = append(subs, iv{c.Seq, b})
		case c.Kind == "unsubscribe" && c.Ch == ch:
			unsubs = append(unsubs, iv{c.Seq, end(c.RetSeq)})
		case c.Kind == "connect":
			for _, cs := range cl.spec.ConnSubs {
				if cs == ch {
					subs = append(subs, iv{c.Seq, end(c.RetSeq)})
				}
			}
		}
	}
	for _, u := range unsubs {
		for _, sb := range subs {
			if u.a < sb.b && sb.a < u.b {
				return true
			}
		}
	}
	return false
}

// endBeginSeq: when did the end of the subscription instance begin, as far as the harness
// knows (invocation of the client's unsubscribe command that was answered by the ending
// reply, or of the earliest server-side unsubscribe / disconnect call for the connection
// that was in progress when the ending push was written)? 0 = unknown.
func (w *w1World) endBeginSeq(cl *w1SimClient, in *w1Instance, cmdByID map[uint32]*w1Cmd) int64 {
	// the earliest unsubscribe of the channel for this connection - its own command or a
	// server-side call - that began after the instance started and before its end was seen
	var first int64
	take := func(x int64) {
		if x > in.originSeq && x < in.endSeq && (first == 0 || x < first) {
			first = x
		}
	}
	for _, c := range cl.cmds {
		if c.Kind == "unsubscribe" && c.Ch == in.ch {
			take(c.Seq)
		}
	}
	for _, op := range w.nodeOps {
		mine := (strings.HasPrefix(op.Kind, "n") && op.User == cl.spec.User) || (strings.HasPrefix(op.Kind, "c") && op.C == cl.idx)
		if mine && (op.Kind == "nunsub" || op.Kind == "cunsub") && (op.Ch == in.ch || op.Ch == "") {
			take(op.Seq)
		}
	}
	return first
}

// endedDuringSubscribeCallback: did an unsubscribe of ch for this connection (own command,
// node-level or client-level call) or the close of the connection begin while the completion
// callback of one of its subscribe commands for ch was still running? The join publication
// and the map presence entries are added by the tail of that callback, after the
// subscription is committed and the unsubscribe wait gate is released.
func (w *w1World) endedDuringSubscribeCallback(cl *w1SimClient, ch string) bool {
	end := func(x int64) int64 {
		if x == 0 {
			return 1 << 62
		}
		return x
	}
	// intervals during which a subscribe of ch for this connection was completing
	type iv struct{ a, b int64 }
	var subs []iv
	for _, cb := range cl.subCbs {
		if cb.Ch == ch {
			subs = append(subs, iv{cb.A, end(cb.B)})
		}
	}
	for _, c := range cl.cmds {
		if c.Kind != "connect" {
			continue
		}
		for _, cs := range cl.spec.ConnSubs {
			if cs == ch {
				// connect-time subscription: completing until OnConnect has run
				b := int64(1 << 62)
				for _, x := range cl.cbs {
					if x.Kind == "connect-done" && x.Seq > c.Seq {
						b = x.Seq
						break
					}
				}
				subs = append(subs, iv{c.Seq, b})
			}
		}
	}
	for _, op := range w.nodeOps {
		mine := (strings.HasPrefix(op.Kind, "n") && op.User == cl.spec.User) || (strings.HasPrefix(op.Kind, "c") && op.C == cl.idx)
		if mine && (op.Kind == "nsub" || op.Kind == "csub") && op.Ch == ch {
			subs = append(subs, iv{op.Seq, end(op.RetSeq)})
		}
	}
	for _, sb := range subs {
		a, b := sb.a, sb.b
		in := func(x, y int64) bool { return x != 0 && x < b && a < end(y) }
		if in(cl.peerCloseSeq, cl.closedSeq) || (cl.closedSeq > a && cl.closedSeq < b) {
			return true
		}
		for _, op := range w.nodeOps {
			mine := (strings.HasPrefix(op.Kind, "n") && op.User == cl.spec.User) || (strings.HasPrefix(op.Kind, "c") && op.C == cl.idx)
			if !mine {
				continue
			}
			switch op.Kind {
			case "nunsub", "cunsub":
				if (op.Ch == ch || op.Ch == "") && in(op.Seq, op.RetSeq) {
					return true
				}
			case "ndisc", "cdisc":
				if in(op.Seq, op.RetSeq) {
					return true
				}
			}
		}
		for _, c := range cl.cmds {
			if c.Kind == "unsubscribe" && c.Ch == ch && in(c.Seq, c.RetSeq) {
				return true
			}
		}
	}
	return false
}

func (w *w1World) overlappingSubUnsub(cl *w1SimClient, ch string) bool {
	type iv struct{ a, b int64 }
	var subs, unsubs []iv
	end := func(x int64) int64 {
		if x == 0 {
			return 1 << 62
		}
		return x
	}
	for _, op := range w.nodeOps {
		if op.Ch != ch {
			continue
		}
		mine := (strings.HasPrefix(op.Kind, "n") && op.User == cl.spec.User) || (strings.HasPrefix(op.Kind, "c") && op.C == cl.idx)
		if !mine {
			continue
		}
		switch op.Kind {
		case "nsub", "csub":
			subs = append(subs, iv{op.Seq, end(op.RetSeq)})
		case "nunsub", "cunsub":
			unsubs = append(unsubs, iv{op.Seq, end(op.RetSeq)})
		}
	}
	for _, c := range cl.cmds {
		if c.Kind == "subscribe" && c.Ch == ch {
			// an asynchronous subscribe handler completes after the command returned
			subs = append(subs, iv{c.Seq, 1 << 62})
		}
		if c.Kind == "connect" {
			for _, cs := range cl.spec.ConnSubs {
				if cs == ch {
					subs = append(subs, iv{c.Seq, end(c.RetSeq)})
				}
			}
		}
	}
	for _, u := range unsubs {
		for _, sb := range subs {
			if u.a < sb.b && sb.a < u.b {
				return true
			}
		}
	}
	return false
}

// waitReply lets simulated time pass until the reply with the given id arrived.
func (w *w1World) waitReply(cl *w1SimClient, id uint32) *w1Frame {
	for i := 0; i < 50; i++ {
		for k := range cl.frames {
			if cl.frames[k].ReplyID == id {
				return &cl.frames[k]
			}
		}
		if cl.isClosed() {
			return nil
		}
		w.s.Sleep(10 * time.Millisecond)
	}
	return nil
}

// checkHistoryReply is the C43 oracle for one history request, evaluated at quiescence.
func (w *w1World) checkHistoryReply(cl *w1SimClient, id uint32, req *protocol.HistoryRequest) {
	s := w.s
	f := w.waitReply(cl, id)
	if f == nil {
		return
	}
	s.Probe("nontrivial:C43")
	max := w.sc.Cfg.HistoryMax
	if max > 0 && len(f.Pubs) > max {
		s.Violate("C43", "limit-exceeded", "history reply larger than HistoryMaxPublicationLimit", "history %+v returned %d publications, limit %d", req, len(f.Pubs), max)
	}
	if req.Reverse && req.Since != nil && req.Since.Offset == 0 {
		if f.ErrCode != ErrorBadRequest.Code {
			s.Violate("C43", "reverse-since-zero", "reverse history since offset 0 not rejected", "history %+v answered with error code %d and %d publications, expected bad request", req, f.ErrCode, len(f.Pubs))
		}
		return
	}
	// effective filter: the documented clamp of the client limit
	eff := HistoryFilter{Limit: int(req.Limit), Reverse: req.Reverse}
	if req.Since != nil {
		eff.Since = &StreamPosition{Offset: req.Since.Offset, Epoch: req.Since.Epoch}
	}
	if max > 0 && (eff.Limit < 0 || eff.Limit > max) {
		eff.Limit = max
	}
	want, err := w.node.History(req.Channel, WithHistoryFilter(eff))
	if err != nil {
		var ce *Error
		if errors.As(err, &ce) {
			if f.ErrCode != ce.Code {
				s.Violate("C43", "error-mismatch", "history error differs from node-level error", "history %+v: reply error %d, Node.History error %d", req, f.ErrCode, ce.Code)
			}
		}
		return
	}
	if f.ErrCode != 0 {
		s.Violate("C43", "unexpected-error", "history request failed although Node.History succeeds", "history %+v: error %d", req, f.ErrCode)
		return
	}
	if f.Offset != want.Offset || f.Epoch != want.Epoch || len(f.Pubs) != len(want.Publications) {
		s.Violate("C43", "result-mismatch", "history reply differs from node-level result", "history %+v (effective limit %d): reply offset=%d epoch=%s n=%d, Node.History offset=%d epoch=%s n=%d", req, eff.Limit, f.Offset, f.Epoch, len(f.Pubs), want.Offset, want.Epoch, len(want.Publications))
		return
	}
	for i, p := range want.Publications {
		if f.Pubs[i].Offset != p.Offset || f.Pubs[i].Data != string(p.Data) {
			s.Violate("C43", "result-mismatch", "history reply differs from node-level result", "history %+v: publication %d is offset %d %s, Node.History has offset %d %s", req, i, f.Pubs[i].Offset, f.Pubs[i].Data, p.Offset, p.Data)
			return
		}
	}
}

// checkLiveness is the C36 oracle: pong timeout, stale close and connection expiry on
// the virtual clock. All bounds come from the configuration the script itself set.
func (w *w1World) checkLiveness(cl *w1SimClient) {
	s := w.s
	cfg := w.sc.Cfg
	tol := 50 * time.Millisecond
	pongTO := time.Duration(cfg.PongMs) * time.Millisecond
	stale := time.Duration(cfg.StaleMs) * time.Millisecond
	grace := time.Duration(cfg.ExpiredDelayMs) * time.Millisecond
	runEnd := s.Now()
	closedAt := cl.closedAt
	if !cl.isClosed() {
		closedAt = runEnd + time.Hour
	}
	// --- stale: never authenticated
	authenticated := false
	for _, cb := range cl.cbs {
		if cb.Kind == "connect" {
			authenticated = true
		}
	}
	for _, c := range cl.cmds {
		if c.Kind == "connect" {
			authenticated = true // a connect attempt: the stale rule is judged only for silent peers
		}
	}
	if !authenticated && len(cl.cmds) == 0 {
		s.Probe("nontrivial:C36")
		due := cl.acceptedAt + stale
		switch {
		case cl.isClosed() && cl.closeCode == DisconnectStale.Code && (closedAt < due-tol || closedAt > due+tol):
			s.Violate("C36", "stale-timing", "stale close at the wrong time", "client %d accepted at %v, stale delay %v, closed as stale at %v", cl.idx, cl.acceptedAt, stale, closedAt)
		case closedAt > due+tol && runEnd > due+tol:
			s.Violate("C36", "stale-missing", "unauthenticated connection not closed after the stale delay", "client %d accepted at %v never authenticated, stale delay %v, still open at %v (closed at %v code %d)", cl.idx, cl.acceptedAt, stale, due+tol, closedAt, cl.closeCode)
		}
		return
	}
	if cl.isClosed() && cl.closeCode == DisconnectStale.Code && cl.onConnectRan {
		s.Violate("C36", "stale-authenticated", "authenticated connection closed as stale", "client %d connected but was closed as stale at %v", cl.idx, closedAt)
	}
	// --- pong timeout
	var pings []time.Duration
	for _, f := range cl.frames {
		if f.Kind == "ping" {
			pings = append(pings, f.At)
		}
	}
	answered := func(t time.Duration) bool { // a pong handled within the timeout of the ping at t
		for _, c := range cl.cmds {
			if c.Kind == "pong" && c.At >= t && c.At < t+pongTO-tol {
				return true
			}
		}
		return false
	}
	lateOrNone := func(t time.Duration) bool {
		for _, c := range cl.cmds {
			if c.Kind == "pong" && c.At >= t && c.At <= t+pongTO+tol {
				return false
			}
		}
		return true
	}
	for _, t := range pings {
		s.Probe("nontrivial:C36")
		due := t + pongTO
		if lateOrNone(t) && closedAt > due+tol && runEnd > due+tol {
			s.Violate("C36", "no-pong-missing", "connection not closed although no pong arrived within the timeout", "client %d: ping at %v, pong timeout %v, no pong, but open at %v (closed at %v code %d)", cl.idx, t, pongTO, due+tol, closedAt, cl.closeCode)
		}
	}
	if cl.isClosed() && cl.closeCode == DisconnectNoPong.Code {
		ok := false
		for _, t := range pings {
			if closedAt >= t+pongTO-tol && closedAt <= t+pongTO+tol && !answered(t) {
				ok = true
			}
		}
		if !ok {
			s.Violate("C36", "no-pong-wrong", "no-pong disconnect without an unanswered ping", "client %d closed with no-pong at %v; pings at %v, pong timeout %v", cl.idx, closedAt, pings, pongTO)
		}
	}
	// --- subscription expiry with server-side refresh: the OnSubRefresh handler of this
	// world always prolongs, so such a subscription is never ended as expired - also on a
	// connection whose own refresh mode is client-side
	for _, f := range cl.frames {
		if f.Kind == "push:unsub" && chHas(f.Ch, 'Y') {
			s.Probe("c36_server_refreshed_sub_ended")
			if f.Code == 2501 {
				consulted := 0
				for _, cb := range cl.cbs {
					if cb.Kind == "sub_refresh" && cb.Ch == f.Ch && cb.Seq < f.Seq {
						consulted++
					}
				}
				s.Violate("C36", "sub-expired-despite-server-refresh", "subscription with server-side refresh ended as expired although its refresh handler prolongs it", "client %d %s: unsubscribe push code 2501 at %v, OnSubRefresh consulted %d times before (connection client-side refresh=%v)", cl.idx, f.Ch, f.At, consulted, cfg.CSR)
			}
		}
	}
	for _, cb := range cl.cbs {
		if cb.Kind == "sub_refresh" && chHas(cb.Ch, 'Y') {
			s.Probe("c36_server_side_sub_refresh_consulted")
			break
		}
	}
	// --- connection expiry
	if cl.spec.ExpireInSec > 0 && cl.onConnectRan {
		var connectAt time.Duration
		for _, c := range cl.cmds {
			if c.Kind == "connect" {
				connectAt = c.At
				break
			}
		}
		// expiry as absolute simulated time: whole seconds since the run started
		exp := connectAt.Truncate(time.Second) + time.Duration(cl.spec.ExpireInSec)*time.Second
		expMin, expMax := exp, exp
		base := w.startUnix
		// the effective expiry is the one set by the refresh applied last; refreshes
		// issued at the same instant are applied in an order the observer cannot know
		var lastAt time.Duration = -1
		for _, op := range w.nodeOps {
			if op.Kind == "nrefresh" && op.User == cl.spec.User && op.Err == "" && op.At < closedAt && op.At > connectAt && op.N != 0 {
				e := time.Duration(int64(op.N)-base) * time.Second
				if op.At != lastAt {
					expMin, expMax, lastAt = e, e, op.At
				} else {
					if e < expMin {
						expMin = e
					}
					if e > expMax {
						expMax = e
					}
				}
			}
		}
		if cfg.CSR {
			// client-side refresh: the expiry in effect is the one granted last by the
			// OnRefresh handler; the connection gets the grace delay after EVERY expiry,
			// also after a refresh (a refresh arriving inside the grace delay is in time)
			for _, r := range cl.refreshes {
				if r.At < closedAt && r.At > lastAt {
					expMin, expMax, lastAt = r.Expire, r.Expire, r.At
				}
			}
			s.Probe("c36_client_side_refresh_checked")
			if cl.isClosed() && cl.closeCode == DisconnectExpired.Code && closedAt < expMin+grace-tol {
				s.Violate("C36", "expired-before-grace", "connection with client-side refresh closed as expired before expiry + grace delay", "client %d: expiry in effect %v (%d refreshes granted), grace %v, closed as expired at %v", cl.idx, expMin, len(cl.refreshes), grace, closedAt)
			}
		}
		s.Probe("nontrivial:C36")
		if cl.isClosed() && cl.closeCode == DisconnectExpired.Code && closedAt < expMin-tol {
			s.Violate("C36", "expired-early", "connection closed as expired before its expiry", "client %d: expiry at %v (after refreshes), closed as expired at %v", cl.idx, expMin, closedAt)
		}
		due := expMax + grace + time.Second + tol
		if closedAt > due && runEnd > due {
			s.Violate("C36", "expired-missing", "expired connection not closed", "client %d: expiry at %v + grace %v, still open at %v (closed at %v code %d)", cl.idx, expMax, grace, due, closedAt, cl.closeCode)
		}
	}
}

// checkRecoverReply is the C02 (stream) / C03 (cache) oracle for one recovering
// subscribe issued at quiescence. Ground truth is what the broker retains right now.
func (w *w1World) checkRecoverReply(cl *w1SimClient, id uint32, req *protocol.SubscribeRequest) {
	f := w.waitReply(cl, id)
	if f == nil {
		return
	}
	w.checkRecoverResult(req, f)
}

// checkConnectRecover judges the recovery results of connect-time server-side
// subscriptions (positions sent in ConnectRequest.Subs) with the same oracle.
func (w *w1World) checkConnectRecover(cl *w1SimClient, id uint32, reqs map[string]*protocol.SubscribeRequest) {
	f := w.waitReply(cl, id)
	if f == nil || f.Kind != "connect" {
		return
	}
	var chs []string
	for ch := range reqs {
		chs = append(chs, ch)
	}
	sort.Strings(chs)
	for _, ch := range chs {
		r := f.Subs[ch]
		if r == nil {
			continue
		}
		req := *reqs[ch]
		req.Channel = ch
		sub := &w1Frame{Kind: "subscribe", Ch: ch, Seq: f.Seq, Offset: r.Offset, Epoch: r.Epoch, Recovered: r.Recovered, WasRecovering: r.WasRecovering}
		for _, p := range r.Publications {
			sub.Pubs = append(sub.Pubs, toW1Pub(p))
		}
		w.s.Probe("connect_time_recovery_checked")
		w.checkRecoverResult(&req, sub)
	}
}

func (w *w1World) checkRecoverResult(req *protocol.SubscribeRequest, f *w1Frame) {
	s := w.s
	ch := req.Channel
	if w.sc.Cfg.ConcurrentRecovery {
		// publishers are active: only the clauses that need no quiescent ground truth
		if f.Kind != "subscribe" {
			return
		}
		prop := "C02"
		if chHas(ch, 'c') {
			prop = "C03"
		}
		s.Probe("nontrivial:" + prop)
		if !f.Recovered && len(f.Pubs) > 0 && prop == "C02" {
			s.Violate("C02", "pubs-without-recovered", "publications returned with recovered=false", "%s offset=%d epoch=%q: recovered=false but %d publications (publishers active)", ch, req.Offset, req.Epoch, len(f.Pubs))
		}
		if f.Recovered && prop == "C02" {
			next := req.Offset + 1
			for _, p := range f.Pubs {
				// offsets the subscription's filters withhold are legitimately absent
				for (chHas(ch, 'f') || req.Tf != nil) && next < p.Offset {
					t := w.truth(ch, next, f.Epoch)
					if t != nil && (t.Tags["s"] == "1" || !chHas(ch, 'f')) && (t.Tags["c"] == "1" || req.Tf == nil) {
						break // visible and yet missing: judged below
					}
					// filtered out (or its publish call has not returned yet, so its tags
					// are not known to the observer: not judged)
					next++
				}
				if p.Offset != next {
					sig := "recovered=true but the recovered publications are not contiguous from the requested offset"
					if p.Offset == req.Offset && next == req.Offset+1 {
						sig = "recovered publications include the requested offset itself (a broadcast still in flight was buffered during the subscribe)"
					}
					s.Violate("C02", "recovered-with-missing", sig, "%s requested offset %d: got offset %d where %d was expected (publishers active)", ch, req.Offset, p.Offset, next)
					break
				}
				if t := w.truth(ch, p.Offset, f.Epoch); t != nil && t.Data != p.Data {
					s.Violate("C02", "recovered-inexact", "recovered publications differ from history", "%s offset %d: got %s, published %s", ch, p.Offset, p.Data, t.Data)
				}
				next++
			}
			if req.Epoch != "" && f.Epoch != req.Epoch {
				s.Violate("C02", "recovered-epoch-differs", "recovered=true although the epoch differs", "%s requested epoch %q, reply epoch %q", ch, req.Epoch, f.Epoch)
			}
		}
		if prop == "C03" && len(f.Pubs) > 1 {
			s.Violate("C03", "more-than-one", "cache recovery delivered more than one publication", "%s: %d publications", ch, len(f.Pubs))
		}
		return
	}
	hist, err := w.node.History(ch, WithLimit(-1))
	if err != nil {
		return
	}
	top := hist.StreamPosition
	retained := hist.Publications
	cache := chHas(ch, 'c')
	prop := "C02"
	if cache {
		prop = "C03"
	}
	s.Probe("nontrivial:" + prop)
	if f.Kind == "error" {
		if f.ErrCode == ErrorUnrecoverablePosition.Code && req.Flag&subscriptionFlagRejectUnrecovered == 0 {
			s.Violate(prop, "unrequested-112", "unrecoverable-position error although the client did not demand it", "%s offset=%d epoch=%q: error 112 without the reject flag", ch, req.Offset, req.Epoch)
		}
		return
	}
	if f.Kind != "subscribe" {
		return
	}
	if !cache {
		if !f.Recovered {
			if len(f.Pubs) > 0 {
				s.Violate("C02", "pubs-without-recovered", "publications returned with recovered=false", "%s offset=%d epoch=%q: recovered=false but %d publications", ch, req.Offset, req.Epoch, len(f.Pubs))
			}
			return
		}
		s.Probe("c02_recovered_true")
		if req.Epoch != "" && req.Epoch != top.Epoch {
			s.Violate("C02", "recovered-epoch-differs", "recovered=true although the epoch differs", "%s requested epoch %q, stream epoch %q, recovered=true", ch, req.Epoch, top.Epoch)
		}
		var expected []*Publication
		for _, p := range retained {
			if p.Offset > req.Offset {
				expected = append(expected, p)
			}
		}
		// what the subscription's filters let through (the channel's server filter s==1
		// and, when the request carried one, the client filter c==1; a publication
		// without the tag does not match an eq filter)
		visible := func(p *Publication) bool {
			if chHas(ch, 'f') && p.Tags["s"] != "1" {
				return false
			}
			if req.Tf != nil && p.Tags["c"] != "1" {
				return false
			}
			return true
		}
		next := req.Offset + 1
		for _, p := range expected {
			if p.Offset != next {
				s.Violate("C02", "recovered-with-missing", "recovered=true although a publication after the requested offset is missing from history", "%s requested offset %d, top %d: history holds offset %d where %d was expected", ch, req.Offset, top.Offset, p.Offset, next)
				return
			}
			next++
		}
		if next-1 != top.Offset {
			s.Violate("C02", "recovered-with-missing", "recovered=true although history does not reach the top", "%s requested offset %d: retained publications end at %d, top is %d", ch, req.Offset, next-1, top.Offset)
			return
		}
		if lim := w.sc.Cfg.RecoveryMax; lim > 0 && len(expected) > lim {
			s.Violate("C02", "recovered-truncated", "recovered=true although the recovery limit truncated the result", "%s: %d publications to recover, RecoveryMaxPublicationLimit %d, recovered=true with %d publications", ch, len(expected), lim, len(f.Pubs))
			return
		}
		if chHas(ch, 'f') || req.Tf != nil {
			var vis []*Publication
			for _, p := range expected {
				if visible(p) {
					vis = append(vis, p)
				} else {
					s.Probe("c02_filtered_out_of_recovery")
				}
			}
			for _, g := range f.Pubs {
				for _, p := range expected {
					if p.Offset == g.Offset && !visible(p) {
						for _, pr := range []string{"C02", "C16"} {
							s.Violate(pr, "recovered-filtered-publication", "recovered publications include one the subscription's filters withhold", "%s: recovered offset %d tags %v although filters (server s==1, client filter used=%v) exclude it", ch, g.Offset, p.Tags, req.Tf != nil)
						}
						return
					}
				}
			}
			expected = vis
		}
		if len(f.Pubs) != len(expected) {
			s.Violate("C02", "recovered-inexact", "recovered publications differ from history", "%s requested offset %d: %d publications returned, history has %d after it", ch, req.Offset, len(f.Pubs), len(expected))
			return
		}
		for i, p := range expected {
			if f.Pubs[i].Offset != p.Offset || f.Pubs[i].Data != string(p.Data) {
				s.Violate("C02", "recovered-inexact", "recovered publications differ from history", "%s: publication %d is offset %d %s, history has offset %d %s", ch, i, f.Pubs[i].Offset, f.Pubs[i].Data, p.Offset, p.Data)
				return
			}
		}
		return
	}
	// cache mode
	if len(f.Pubs) > 1 {
		s.Violate("C03", "more-than-one", "cache recovery delivered more than one publication", "%s: %d publications", ch, len(f.Pubs))
		return
	}
	var newest *Publication
	if len(retained) > 0 {
		newest = retained[len(retained)-1]
	}
	newestPresent := newest != nil && newest.Offset == top.Offset
	sameState := req.Offset > 0 && req.Offset == top.Offset && req.Epoch == top.Epoch
	// the newest publication that passes the server filter of the channel and the client
	// filter of the request
	newestVisible := newest
	if chHas(ch, 'f') || req.Tf != nil {
		newestVisible = nil
		for i := len(retained) - 1; i >= 0; i-- {
			p := retained[i]
			if chHas(ch, 'f') && p.Tags["s"] != "1" {
				continue
			}
			if req.Tf != nil && p.Tags["c"] != "1" {
				continue
			}
			newestVisible = p
			break
		}
		if newestVisible != newest {
			s.Probe("c03_newest_filtered_out")
		}
	}
	if len(f.Pubs) == 1 {
		if newestVisible == nil || f.Pubs[0].Offset != newestVisible.Offset || f.Pubs[0].Data != string(newestVisible.Data) {
			sig := "cache recovery delivered a publication that is not the newest"
			if newestVisible != newest {
				sig = "cache recovery delivered a publication that is not the newest one visible through the server and client tags filters"
			}
			s.Violate("C03", "not-newest", sig, "%s: delivered offset %d %s, newest visible %v, newest retained %v, top %d", ch, f.Pubs[0].Offset, f.Pubs[0].Data, newestVisible, newest, top.Offset)
		}
	}
	want := newestPresent || sameState
	if f.Recovered != want {
		s.Violate("C03", "recovered-flag", fmt.Sprintf("cache recovered=%v but newest-present=%v same-position=%v", f.Recovered, newestPresent, sameState), "%s requested offset=%d epoch=%q, top offset=%d epoch=%q, retained=%d: recovered=%v", ch, req.Offset, req.Epoch, top.Offset, top.Epoch, len(retained), f.Recovered)
	}
}

// checkLimits is the C37 oracle.
func (w *w1World) checkLimits(cl *w1SimClient, instances []*w1Instance) {
	s := w.s
	cfg := w.sc.Cfg
	// (a) the channel limit is judged on the server's own report at the settled point
	// (checkSettled): the client's view of how many subscriptions are active is not
	// reliable while server-side subscribe/unsubscribe pushes can overtake each other
	// (see the C10 known findings).
	s.Probe("nontrivial:C37")
	// (b) over-long channel names are rejected
	if cfg.ChannelMaxLen > 0 {
		for _, c := range cl.cmds {
			if c.Kind != "subscribe" || len(c.Ch) <= cfg.ChannelMaxLen {
				continue
			}
			for _, f := range cl.frames {
				if f.ReplyID == c.ID && c.ID != 0 && f.Kind == "subscribe" && f.ErrCode == 0 {
					s.Violate("C37", "long-channel-accepted", "subscribe to over-long channel name accepted", "client %d subscribed to %q (%d bytes, ChannelMaxLength %d)", cl.idx, c.Ch, len(c.Ch), cfg.ChannelMaxLen)
				}
			}
		}
	}
	// (c) slow consumer: a stalled peer with clearly more than the queue limit pending
	if cfg.QueueMax > 0 && cl.stalledAtSeq != 0 && cl.onConnectRan {
		pending := 0
		for _, pr := range w.pubs {
			if pr.Seq < cl.stalledAtSeq || pr.Err != "" {
				continue
			}
			// publications to channels the client was certainly subscribed to at that time
			for _, in := range instances {
				if in.ch == pr.Ch && in.startSeq < cl.stalledAtSeq && (in.endSeq == 0) {
					pending += len(pr.Data)
				}
			}
		}
		if pending > 2*cfg.QueueMax {
			s.Probe("c37_slow_expected")
			if !cl.isClosed() || cl.closeCode != DisconnectSlow.Code {
				// closed earlier for any other reason: nothing is owed
				if !cl.isClosed() || cl.closedSeq > w.endPhaseSeq {
					s.Violate("C37", "slow-not-closed", "stalled connection with more than the queue limit pending not closed as slow", "client %d stalled with at least %d bytes of publications pending (limit %d) but closed=%v code=%d", cl.idx, pending, cfg.QueueMax, cl.isClosed(), cl.closeCode)
				}
			}
		}
	}
}

// presenceKey is a canonical rendering of the node-level presence of a channel.
func (w *w1World) presenceKey(ch string) string {
	res, err := w.node.Presence(ch)
	if err != nil {
		return "err"
	}
	var ids []string
	for id, info := range res.Presence {
		ids = append(ids, id+"/"+info.UserID)
	}
	sort.Strings(ids)
	return strings.Join(ids, ",")
}

func (w *w1World) checkPresenceReply(cl *w1SimClient, id uint32, ch string, stats bool, before string) {
	s := w.s
	f := w.waitReply(cl, id)
	if f == nil || f.ErrCode != 0 {
		return
	}
	if w.presenceKey(ch) != before {
		// other connections changed the presence set while the request was in flight:
		// the reply may equal any state in between
		s.Probe("c43_presence_changed_during_request")
		return
	}
	s.Probe("nontrivial:C43")
	if stats {
		want, err := w.node.PresenceStats(ch)
		if err != nil || f.Raw.PresenceStats == nil {
			return
		}
		if w.presenceKey(ch) != before {
			s.Probe("c43_presence_changed_during_request")
			return
		}
		if int(f.Raw.PresenceStats.NumClients) != want.NumClients || int(f.Raw.PresenceStats.NumUsers) != want.NumUsers {
			s.Violate("C43", "presence-stats-mismatch", "presence stats reply differs from node-level result", "%s: reply clients=%d users=%d, node clients=%d users=%d", ch, f.Raw.PresenceStats.NumClients, f.Raw.PresenceStats.NumUsers, want.NumClients, want.NumUsers)
		}
		return
	}
	want, err := w.node.Presence(ch)
	if err != nil || f.Raw.Presence == nil {
		return
	}
	if w.presenceKey(ch) != before {
		s.Probe("c43_presence_changed_during_request")
		return
	}
	got := f.Raw.Presence.Presence
	bad := len(got) != len(want.Presence)
	for id, info := range want.Presence {
		g, ok := got[id]
		if !ok || g.User != info.UserID || g.Client != info.ClientID {
			bad = true
		}
	}
	if bad {
		s.Violate("C43", "presence-mismatch", "presence reply differs from node-level result", "%s: reply has %d entries, node-level presence %d", ch, len(got), len(want.Presence))
	}
}

func (cl *w1SimClient) frameAt(seq int64) time.Duration {
	for i := range cl.frames {
		if cl.frames[i].Seq == seq {
			return cl.frames[i].At
		}
	}
	return 0
}

// rnq marks signatures of order-related violations seen in a configuration where
// replies bypass the write queue (ConnectReply.ReplyWithoutQueue).
func (w *w1World) rnq() string {
	if w.sc.Cfg.ReplyNoQueue {
		return " [reply-without-queue]"
	}
	return ""
}

func cmdOf(cl *w1SimClient, id uint32) *w1Cmd {
	for _, c := range cl.cmds {
		if c.ID == id && id != 0 {
			return c
		}
	}
	return nil
}

var _ = fmt.Sprintf
