//go:build verif

package centrifuge

// W7x: the WebSocket handler world. One real Node (memory engine) and the REAL
// WebsocketHandler.ServeHTTP: upgrade through the real internal/websocket Upgrader on a
// simulated hijackable http.ResponseWriter, real websocket.Conn, real websocketTransport,
// real Client. Hijack() hands the server one end of a simulated net.Conn pair; the other
// end is a small WebSocket client written for this harness (zz_verif_w7x_client_test.go):
// handshake request bytes, masked client frames, an independent RFC 6455 frame parser for
// what the server writes (close frames included) and the centrifuge JSON / Protobuf
// client protocol on top. No sockets, no real time.
//
// Decides, for the real WebSocket transport, what the other worlds decide against a fake
// transport:
//
//	C11  the connect reply is the first data frame and goes out raw; with dictionary
//	     compression negotiated every later frame went through the connection's encoder
//	     (a recording DictionaryConnection that marks its output), the encoder is closed
//	     exactly once, never concurrently with / before an Encode;
//	C08  lifecycle callbacks once and in order; after Node.Shutdown returned nothing stays
//	     connected and a client that dials afterwards is not served;
//	C31  (close-frame half) a connection the server disconnects receives exactly one close
//	     frame carrying that disconnect's code and reason whenever they fit in a control
//	     frame, and nothing after it.

import (
	"bufio"
	"bytes"
	"context"
	"errors"
	"fmt"
	"io"
	"net"
	"net/http"
	"strconv"
	"strings"
	"time"

	simrt "github.com/centrifugal/centrifuge/internal/simrt"
	"github.com/centrifugal/protocol"
	"github.com/prometheus/client_golang/prometheus"
)

// ---------------------------------------------------------------- script

type w7xDisc struct {
	Code   uint32 `json:"code"`
	Reason string `json:"reason"`
}

// w7xOp is one step of a server-side driver task.
type w7xOp struct {
	K  string   `json:"k"` // pub | send | lsend | nsub | disc | ndisc | shutdown | sleep
	Ch string   `json:"ch,omitempty"`
	C  int      `json:"c,omitempty"`
	ID int      `json:"id,omitempty"`
	Us int      `json:"us,omitempty"`
	D  *w7xDisc `json:"d,omitempty"`
}

// w7xCliOp is one step of the simulated client after its connect reply arrived.
type w7xCliOp struct {
	K    string `json:"k"` // rpc | msg | close | drop | sleep | wsping
	ID   int    `json:"id,omitempty"`
	Us   int    `json:"us,omitempty"`
	Code int    `json:"code,omitempty"`
}

type w7xConn struct {
	Proto    string `json:"proto"`               // json | protobuf
	ProtoVia int    `json:"proto_via,omitempty"` // protobuf: 0 subprotocol, 1 ?format=protobuf, 2 ?cf_protocol=protobuf
	Origin   bool   `json:"origin,omitempty"`    // send a (matching) Origin header
	StartRel int    `json:"start_rel"`           // 0 absolute time, 1 when Shutdown begins, 2 after Shutdown returned
	StartUs  int    `json:"start_us"`
	Eager    bool   `json:"eager,omitempty"`    // connect command sent together with the handshake request
	ReactUs  int    `json:"react_us,omitempty"` // latency of the client's reaction to the 101 response
	// dictionary compression: 0 not advertised, 1 dictionary with bytes, 2 id-only naming the
	// dictionary the client advertised, 3 id-only naming a dictionary the client never
	// advertised (the library must decline it)
	Dict         int      `json:"dict,omitempty"`
	Subs         []string `json:"subs,omitempty"`
	ConnectingUs int      `json:"connecting_us,omitempty"`
	WriteDelayUs int      `json:"write_delay_us,omitempty"`
	MaxInFrame   int      `json:"max_in_frame,omitempty"`
	RNQ          bool     `json:"reply_without_queue,omitempty"`
	Reject       *w7xDisc `json:"reject,omitempty"` // OnConnecting returns this Disconnect
	// inside OnConnect
	OcPreYield bool     `json:"oc_pre_yield,omitempty"`
	OcSend     []int    `json:"oc_send,omitempty"` // payload ids sent with Client.Send
	OcPub      int      `json:"oc_pub,omitempty"`  // payload id published to Subs[0] (0: none)
	OcDisc     *w7xDisc `json:"oc_disc,omitempty"`
	OcEndYield bool     `json:"oc_end_yield,omitempty"`
	RpcAsyncUs int      `json:"rpc_async_us,omitempty"` // RPC handler answers from another goroutine after this delay
	MsgEcho    bool     `json:"msg_echo,omitempty"`     // message handler answers with Client.Send
	// transport faults (server side writes; call 0 is the 101 response)
	Seg       int        `json:"seg,omitempty"`        // 1: the server's reads return random prefixes
	FailWrite int        `json:"fail_write"`           // index of the net.Conn Write call that is hit, <0 never
	FailKind  int        `json:"fail_kind,omitempty"`  // 1 error, 2 half written + error, 3 stall
	StallMs   int        `json:"stall_ms,omitempty"`   //
	EchoClose int        `json:"echo_close,omitempty"` // 0 echo a close frame at once, 1 never
	FramePing bool       `json:"frame_ping,omitempty"` // ?cf_ws_frame_ping_pong=true: WebSocket ping frames instead of protocol pings
	NoPong    bool       `json:"no_pong,omitempty"`    // the client answers neither kind of ping
	Ops       []w7xCliOp `json:"ops,omitempty"`
}

type w7xScript struct {
	Conns    []w7xConn `json:"conns"`
	Drivers  [][]w7xOp `json:"drivers"`
	AliveMs  int       `json:"alive_ms,omitempty"` // Config.ClientPresenceUpdateInterval
	StaleMs  int       `json:"stale_ms,omitempty"` // Config.ClientStaleCloseDelay (a connection still connecting then is closed as stale)
	PingMs   int       `json:"ping_ms,omitempty"`  // WebsocketConfig.PingInterval (0: default, longer than a run)
	PongMs   int       `json:"pong_ms,omitempty"`  // WebsocketConfig.PongTimeout
	WBuf     int       `json:"wbuf,omitempty"`     // WebsocketConfig.WriteBufferSize (small: fragmented messages)
	WPool    bool      `json:"wpool,omitempty"`    // WebsocketConfig.UseWriteBufferPool
	OffLoop  bool      `json:"off_loop,omitempty"` // WebsocketConfig.ProcessCommandsOffReadLoop
	SettleMs int       `json:"settle_ms"`
}

func (c *w7xConn) isJSON() bool { return c.Proto != "protobuf" }

// ---------------------------------------------------------------- state

type w7xIssued struct {
	Seq    int64
	Ret    int64
	Source string // OnConnecting | Client.Disconnect | Node.Disconnect | OnConnect Client.Disconnect
	D      w7xDisc
}

type w7xNodeOp struct {
	Kind     string // nsub | csend (names as in world W1)
	C        int
	Ch       string
	Seq, Ret int64
}

type w7xConnState struct {
	w    *w7xWorld
	idx  int
	spec *w7xConn

	// dial
	dialed       bool
	dialSeq      int64
	serveRet     int64
	rw           *w7xRW
	nc           *w7xNetConn
	hijackSeq    int64
	shutAtHijack bool // Node.NotifyShutdown() was already closed when the handler hijacked the connection

	cli w7xClient // client side of the pair

	// server callbacks
	connectingSeq  int64
	onConnect      []int64
	onConnectRet   int64
	onDisconnect   []int64
	cbDisc         w7xDisc
	alive          []int64
	earlyCallbacks []string
	client         *Client
	tr             *websocketTransport // diagnostics only
	issued         []w7xIssued
	enc            *w7xDictConn

	// faults
	faulted            bool // a server write failed or stalled past its deadline
	faultSeq           int64
	stalling           bool
	closedWhileStalled bool // the server closed the socket while a write was blocked in it
	connected          bool // at the C08 checkpoint
}

type w7xWorld struct {
	s     *simrt.Sim
	sc    *w7xScript
	prop  string
	node  *Node
	h     *WebsocketHandler
	seq   int64
	conns []*w7xConnState
	encs  []*w7xDictConn
	ops   []*w7xNodeOp

	shutdownBegan int64
	shutdownRet   int64
}

func (w *w7xWorld) next() int64 { w.seq++; return w.seq }

// tok: callbacks and seams are entered by goroutines of the code under test; one that was
// just woken by a channel operation does not hold the run token yet.
func (w *w7xWorld) tok() {
	if !w.s.IsTokenHolder() {
		w.s.Pause()
	}
}

func (w *w7xWorld) shutdownSignalled() bool {
	select {
	case <-w.node.NotifyShutdown():
		return true
	default:
		return false
	}
}

// ---------------------------------------------------------------- recording dictionary engine

var w7xMagic = []byte{0xff, 'W', '7', 'X'}

const w7xMarkerLen = 9 // magic, connection index, Encode sequence number (uint32 BE)

// w7xDictConn is an identity DictionaryConnection: Encode prepends a marker (so that the
// peer can tell an encoded frame from a raw one, and which encoder produced it) and asks
// for a binary message; there is a scheduling point inside Encode.
type w7xDictConn struct {
	w           *w7xWorld
	c           *w7xConnState
	proto       ProtocolType
	mode        int
	encoding    int
	encodes     int
	closes      int
	closeSeq    int64
	closeDuring bool
	afterClose  int
}

func (d *w7xDictConn) Dictionary() *protocol.Dictionary {
	d.w.tok()
	switch d.mode {
	case 2:
		return &protocol.Dictionary{Id: w7xHeldDict}
	case 3:
		return &protocol.Dictionary{Id: "simdict-never-advertised"}
	}
	if d.proto == ProtocolTypeJSON {
		return &protocol.Dictionary{Id: "simdict-1", DataB64: "c2ltdWxhdGVkIGRpY3Rpb25hcnk="}
	}
	return &protocol.Dictionary{Id: "simdict-1", Data: []byte("simulated dictionary")}
}

func (d *w7xDictConn) Encode(frame []byte) ([]byte, bool) {
	w := d.w
	w.tok()
	if d.closes > 0 {
		d.afterClose++
	}
	d.encoding++
	d.encodes++
	n := d.encodes
	out := make([]byte, 0, w7xMarkerLen+len(frame))
	out = append(out, w7xMagic...)
	out = append(out, byte(d.c.idx), byte(n>>24), byte(n>>16), byte(n>>8), byte(n))
	out = append(out, frame...)
	w.s.Pause() // compressing takes a moment
	d.encoding--
	w.s.Event("c%d encode #%d len=%d", d.c.idx, n, len(frame))
	return out, true
}

func (d *w7xDictConn) Close() {
	d.w.tok()
	d.closes++
	if d.closes == 1 {
		d.closeSeq = d.w.next()
	}
	if d.encoding > 0 {
		d.closeDuring = true
	}
	d.w.s.Event("c%d encoder close #%d", d.c.idx, d.closes)
}

type w7xDictEngine struct{ w *w7xWorld }

func (e w7xDictEngine) NewDictionaryConnection(p DictionaryConnectionParams) DictionaryConnection {
	w := e.w
	w.tok()
	idx, err := strconv.Atoi(strings.TrimPrefix(p.UserID, "u"))
	if err != nil || idx < 0 || idx >= len(w.conns) {
		return nil
	}
	c := w.conns[idx]
	if c.spec.Dict == 0 || p.ClientFlags&ConnectionFlagDictionaryCompression == 0 {
		return nil
	}
	if c.enc != nil {
		w.s.Violate(w.prop, "harness", "second dictionary connection for one connection", "conn %d: NewDictionaryConnection called twice", idx)
	}
	d := &w7xDictConn{w: w, c: c, proto: p.ProtocolType, mode: c.spec.Dict}
	c.enc = d
	w.encs = append(w.encs, d)
	w.s.Probe("dictionary_connection_created")
	return d
}

// ---------------------------------------------------------------- simulated net.Conn (server end)

type w7xAddr struct{}

func (w7xAddr) Network() string { return "sim" }
func (w7xAddr) String() string  { return "sim:1" }

type w7xNetErr struct {
	msg     string
	timeout bool
}

func (e *w7xNetErr) Error() string   { return e.msg }
func (e *w7xNetErr) Timeout() bool   { return e.timeout }
func (e *w7xNetErr) Temporary() bool { return e.timeout }

// w7xNetConn is what Hijack() returns. Reads take what the simulated client fed (blocking
// durably on a channel created inside the bubble); writes are handed to the client's
// parser at once. Every Read and Write is a scheduling point.
type w7xNetConn struct {
	c *w7xConnState
	// client -> server
	buf       []byte
	eof       bool
	rerr      error
	wake      chan struct{}
	rdeadline time.Time
	// server -> client
	wdeadline time.Time
	closed    bool
	closeSeq  int64
	writes    int
	broken    bool
}

var _ net.Conn = (*w7xNetConn)(nil)

func (n *w7xNetConn) signal() {
	select {
	case n.wake <- struct{}{}:
	default:
	}
}

func (n *w7xNetConn) feed(b []byte) {
	if len(b) == 0 || n.closed {
		return
	}
	n.buf = append(n.buf, b...)
	n.signal()
}

func (n *w7xNetConn) Read(b []byte) (int, error) {
	s := n.c.w.s
	s.Pause()
	if len(b) == 0 {
		return 0, nil
	}
	for {
		if n.rerr != nil {
			return 0, n.rerr
		}
		if !n.rdeadline.IsZero() && !time.Now().Before(n.rdeadline) {
			s.Probe("read_deadline_fired")
			return 0, &w7xNetErr{msg: "sim: i/o timeout", timeout: true}
		}
		if len(n.buf) > 0 {
			m := len(n.buf)
			if len(b) < m {
				m = len(b)
			}
			k := m
			if n.c.spec.Seg == 1 && m > 1 {
				k = m - s.Intn(m)
				if k < m {
					s.Probe("short_read")
				}
			}
			copy(b, n.buf[:k])
			n.buf = n.buf[k:]
			return k, nil
		}
		if n.eof {
			return 0, io.EOF
		}
		var tc <-chan time.Time
		var tm *time.Timer
		if !n.rdeadline.IsZero() {
			tm = time.NewTimer(time.Until(n.rdeadline))
			tc = tm.C
		}
		select {
		case <-n.wake:
		case <-tc:
		}
		if tm != nil {
			tm.Stop()
		}
		s.Pause()
	}
}

func (n *w7xNetConn) fail(c *w7xConnState, err error) (int, error) {
	if !c.faulted {
		c.faulted = true
		c.faultSeq = c.w.next()
	}
	return 0, err
}

func (n *w7xNetConn) Write(b []byte) (int, error) {
	c := n.c
	w := c.w
	s := w.s
	s.Pause()
	idx := n.writes
	n.writes++
	if n.closed {
		return 0, &w7xNetErr{msg: "sim: use of closed connection"}
	}
	if c.cli.dropped {
		// the peer is gone: nothing the server does now is its fault
		return 0, &w7xNetErr{msg: "sim: broken pipe"}
	}
	if n.broken {
		return n.fail(c, &w7xNetErr{msg: "sim: connection reset by peer"})
	}
	if !n.wdeadline.IsZero() && !time.Now().Before(n.wdeadline) {
		return n.fail(c, &w7xNetErr{msg: "sim: write timeout", timeout: true})
	}
	if idx == c.spec.FailWrite {
		switch c.spec.FailKind {
		case 1:
			s.Fault("write_error")
			s.Event("c%d write %d fails", c.idx, idx)
			n.broken = true
			return n.fail(c, &w7xNetErr{msg: "sim: write error"})
		case 2:
			s.Fault("write_partial")
			s.Event("c%d write %d half written", c.idx, idx)
			n.broken = true
			k := len(b) / 2
			c.cli.fromServer(append([]byte(nil), b[:k]...))
			_, err := n.fail(c, &w7xNetErr{msg: "sim: short write"})
			return k, err
		case 3:
			s.Fault("write_stall")
			d := time.Duration(c.spec.StallMs) * time.Millisecond
			s.Event("c%d write %d stalls %v", c.idx, idx, d)
			c.stalling = true
			if !n.wdeadline.IsZero() && time.Until(n.wdeadline) <= d {
				s.Sleep(time.Until(n.wdeadline) + time.Microsecond)
				c.stalling = false
				s.Probe("write_deadline_fired")
				n.broken = true
				return n.fail(c, &w7xNetErr{msg: "sim: write timeout", timeout: true})
			}
			s.Sleep(d)
			c.stalling = false
			if n.closed {
				return 0, &w7xNetErr{msg: "sim: use of closed connection"}
			}
			if c.cli.dropped {
				return 0, &w7xNetErr{msg: "sim: broken pipe"}
			}
		}
	}
	// the bytes leave the process now: copy after a possible stall, like a kernel would
	c.cli.fromServer(append([]byte(nil), b...))
	return len(b), nil
}

func (n *w7xNetConn) Close() error {
	c := n.c
	c.w.tok()
	if n.closed {
		return &w7xNetErr{msg: "sim: use of closed connection"}
	}
	n.closed = true
	if c.stalling {
		c.closedWhileStalled = true
	}
	n.closeSeq = c.w.next()
	n.rerr = &w7xNetErr{msg: "sim: use of closed connection"}
	n.signal()
	c.w.s.Event("c%d server closes socket", c.idx)
	c.cli.onServerEOF()
	return nil
}

func (n *w7xNetConn) LocalAddr() net.Addr  { return w7xAddr{} }
func (n *w7xNetConn) RemoteAddr() net.Addr { return w7xAddr{} }
func (n *w7xNetConn) SetDeadline(t time.Time) error {
	n.c.w.tok()
	n.wdeadline, n.rdeadline = t, t
	n.signal()
	return nil
}
func (n *w7xNetConn) SetReadDeadline(t time.Time) error {
	n.c.w.tok()
	n.rdeadline = t
	n.signal()
	return nil
}
func (n *w7xNetConn) SetWriteDeadline(t time.Time) error {
	n.c.w.tok()
	n.wdeadline = t
	return nil
}

// ---------------------------------------------------------------- simulated hijackable ResponseWriter

type w7xRW struct {
	c      *w7xConnState
	hdr    http.Header
	status int
	body   []byte
}

func (rw *w7xRW) Header() http.Header {
	if rw.hdr == nil {
		rw.hdr = http.Header{}
	}
	return rw.hdr
}

func (rw *w7xRW) WriteHeader(code int) {
	if rw.status == 0 {
		rw.status = code
	}
}

func (rw *w7xRW) Write(p []byte) (int, error) {
	if rw.status == 0 {
		rw.status = http.StatusOK
	}
	rw.body = append(rw.body, p...)
	return len(p), nil
}

func (rw *w7xRW) Hijack() (net.Conn, *bufio.ReadWriter, error) {
	c := rw.c
	w := c.w
	w.tok()
	if c.hijackSeq != 0 {
		return nil, nil, errors.New("sim: connection already hijacked")
	}
	c.hijackSeq = w.next()
	c.shutAtHijack = w.shutdownSignalled()
	w.s.Event("c%d hijack shutdown_signalled=%v", c.idx, c.shutAtHijack)
	// the sizes net/http uses for its connection buffers
	return c.nc, bufio.NewReadWriter(bufio.NewReaderSize(c.nc, 4096), bufio.NewWriterSize(c.nc, 4096)), nil
}

// ---------------------------------------------------------------- node + handler

func w7xPayload(id int) []byte { return []byte(`{"p":` + strconv.Itoa(id) + `}`) }

func (w *w7xWorld) setup() error {
	cfg := Config{
		LogLevel: LogLevelNone,
		Metrics:  MetricsConfig{RegistererGatherer: prometheus.NewRegistry()},
	}
	for i := range w.sc.Conns {
		if w.sc.Conns[i].Dict != 0 {
			cfg.DictionaryCompression = w7xDictEngine{w: w}
		}
	}
	if w.sc.AliveMs > 0 {
		cfg.ClientPresenceUpdateInterval = time.Duration(w.sc.AliveMs) * time.Millisecond
	}
	if w.sc.StaleMs > 0 {
		cfg.ClientStaleCloseDelay = time.Duration(w.sc.StaleMs) * time.Millisecond
	}
	node, err := New(cfg)
	if err != nil {
		return err
	}
	w.node = node
	s := w.s
	node.OnConnecting(func(ctx context.Context, e ConnectEvent) (ConnectReply, error) {
		w.tok()
		idx, err := strconv.Atoi(e.Token)
		if err != nil || idx < 0 || idx >= len(w.conns) {
			return ConnectReply{}, DisconnectInvalidToken
		}
		c := w.conns[idx]
		if c.connectingSeq != 0 {
			s.Violate("C08", "connecting-twice", "websocket: OnConnecting ran twice for one connection", "conn %d", idx)
		}
		c.connectingSeq = w.next()
		c.tr, _ = e.Transport.(*websocketTransport)
		s.Event("c%d connecting", idx)
		if c.spec.ConnectingUs > 0 {
			s.Sleep(time.Duration(c.spec.ConnectingUs) * time.Microsecond)
		}
		if c.spec.Reject != nil {
			c.issued = append(c.issued, w7xIssued{Seq: w.next(), Source: "OnConnecting", D: *c.spec.Reject})
			s.Fault("connecting_disconnect")
			return ConnectReply{}, Disconnect{Code: c.spec.Reject.Code, Reason: c.spec.Reject.Reason}
		}
		r := ConnectReply{Credentials: &Credentials{UserID: "u" + e.Token}}
		if len(c.spec.Subs) > 0 {
			r.Subscriptions = map[string]SubscribeOptions{}
			for _, ch := range c.spec.Subs {
				r.Subscriptions[ch] = SubscribeOptions{}
			}
		}
		r.WriteDelay = time.Duration(c.spec.WriteDelayUs) * time.Microsecond
		r.MaxMessagesInFrame = c.spec.MaxInFrame
		r.ReplyWithoutQueue = c.spec.RNQ
		return r, nil
	})
	node.OnConnect(func(cl *Client) {
		w.tok()
		idx, err := strconv.Atoi(strings.TrimPrefix(cl.UserID(), "u"))
		if err != nil || idx < 0 || idx >= len(w.conns) {
			return
		}
		c := w.conns[idx]
		c.onConnect = append(c.onConnect, w.next())
		c.client = cl
		s.Event("c%d on_connect", idx)
		early := func(what string) {
			if c.onConnectRet == 0 {
				c.earlyCallbacks = append(c.earlyCallbacks, what)
			}
		}
		cl.OnDisconnect(func(e DisconnectEvent) {
			w.tok()
			early("OnDisconnect")
			c.onDisconnect = append(c.onDisconnect, w.next())
			c.cbDisc = w7xDisc{Code: e.Code, Reason: e.Reason}
			s.Event("c%d on_disconnect code=%d", idx, e.Code)
		})
		if w.sc.AliveMs > 0 {
			cl.OnAlive(func() {
				w.tok()
				early("OnAlive")
				c.alive = append(c.alive, w.next())
				s.Probe("alive_callback")
				s.Event("c%d on_alive", idx)
			})
		}
		cl.OnRPC(func(e RPCEvent, cb RPCCallback) {
			w.tok()
			early("OnRPC")
			data := append([]byte(nil), e.Data...)
			if c.spec.RpcAsyncUs > 0 {
				s.Go(func() {
					s.Sleep(time.Duration(c.spec.RpcAsyncUs) * time.Microsecond)
					cb(RPCReply{Data: data}, nil)
				})
				return
			}
			cb(RPCReply{Data: data}, nil)
		})
		cl.OnMessage(func(e MessageEvent) {
			w.tok()
			early("OnMessage")
			if c.spec.MsgEcho {
				_ = cl.Send(append([]byte(nil), e.Data...))
			}
		})
		if c.spec.OcPreYield {
			s.Pause()
		}
		for _, id := range c.spec.OcSend {
			_ = cl.Send(w7xPayload(id))
			s.Probe("send_in_on_connect")
		}
		if c.spec.OcPub != 0 && len(c.spec.Subs) > 0 {
			_, _ = w.node.Publish(c.spec.Subs[0], w7xPayload(c.spec.OcPub))
		}
		if c.spec.OcDisc != nil {
			c.issued = append(c.issued, w7xIssued{Seq: w.next(), Source: "OnConnect Client.Disconnect", D: *c.spec.OcDisc})
			s.Fault("server_disconnect")
			cl.Disconnect(Disconnect{Code: c.spec.OcDisc.Code, Reason: c.spec.OcDisc.Reason})
		}
		if c.spec.OcEndYield {
			s.Pause()
		}
		c.onConnectRet = w.next()
	})
	pp := PingPongConfig{}
	if w.sc.PingMs > 0 {
		pp = PingPongConfig{PingInterval: time.Duration(w.sc.PingMs) * time.Millisecond, PongTimeout: time.Duration(w.sc.PongMs) * time.Millisecond}
	}
	w.h = NewWebsocketHandler(node, WebsocketConfig{
		PingPongConfig:             pp,
		WriteBufferSize:            w.sc.WBuf,
		UseWriteBufferPool:         w.sc.WPool,
		ProcessCommandsOffReadLoop: w.sc.OffLoop,
	})
	return node.Run()
}

// dial: the client connects. The handshake request is serialised by the client, parsed by
// net/http's request reader (no I/O) and served by the real handler on a hijackable
// ResponseWriter.
func (w *w7xWorld) dial(c *w7xConnState) {
	s := w.s
	raw := c.cli.handshakeRequest()
	req, err := http.ReadRequest(bufio.NewReader(bytes.NewReader(raw)))
	if err != nil {
		s.Violate(w.prop, "harness", "handshake request not parseable", "%v", err)
		return
	}
	req.RemoteAddr = "sim:1"
	c.nc = &w7xNetConn{c: c, wake: make(chan struct{}, 1)}
	c.rw = &w7xRW{c: c}
	s.Pause()
	c.dialed = true
	c.dialSeq = w.next()
	s.Event("c%d dials", c.idx)
	switch {
	case w.shutdownRet != 0:
		s.Probe("dial_after_shutdown_returned")
	case w.shutdownBegan != 0:
		s.Probe("dial_during_shutdown")
	}
	if c.spec.Eager {
		c.cli.sendConnect()
	}
	w.h.ServeHTTP(c.rw, req)
	s.Pause()
	c.serveRet = w.next()
	s.Event("c%d ServeHTTP returned status=%d hijacked=%v", c.idx, c.rw.status, c.hijackSeq != 0)
	if c.hijackSeq == 0 {
		if w.shutdownBegan != 0 {
			// refusing the upgrade of a node that is shutting down is a legitimate answer
			s.Probe("upgrade_refused_during_shutdown")
			return
		}
		s.Violate("C31", "handshake-response", "websocket: valid upgrade request refused", "conn %d: status %d body %q", c.idx, c.rw.status, string(c.rw.body))
	}
}

func (w *w7xWorld) spawnConns(rel int) {
	for _, c := range w.conns {
		if c.spec.StartRel != rel {
			continue
		}
		c := c
		w.s.Go(func() {
			if c.spec.StartUs > 0 {
				w.s.Sleep(time.Duration(c.spec.StartUs) * time.Microsecond)
			}
			w.dial(c)
			w.runClientOps(c)
		})
	}
}

// runClientOps: what the client does once it is connected.
func (w *w7xWorld) runClientOps(c *w7xConnState) {
	s := w.s
	if len(c.spec.Ops) == 0 {
		return
	}
	for waited := time.Duration(0); c.cli.connectSeq == 0; waited += 200 * time.Microsecond {
		if waited > 2*time.Second || c.cli.ended() {
			return
		}
		s.Sleep(200 * time.Microsecond)
	}
	for _, op := range c.spec.Ops {
		if c.cli.ended() {
			return
		}
		switch op.K {
		case "sleep":
			s.Sleep(time.Duration(op.Us) * time.Microsecond)
		case "rpc":
			s.Pause()
			c.cli.sendRPC(op.ID)
		case "msg":
			s.Pause()
			c.cli.sendMessage(op.ID)
		case "wsping":
			s.Pause()
			c.cli.sendFrame(9, []byte("w7x"))
		case "close":
			s.Pause()
			s.Fault("client_close")
			c.cli.close(op.Code)
		case "drop":
			s.Pause()
			s.Fault("client_drop")
			c.cli.drop()
		}
	}
}

// ---------------------------------------------------------------- drivers

func (w *w7xWorld) doShutdown(final bool) {
	s := w.s
	if !final {
		w.spawnConns(1)
	}
	s.Pause()
	w.shutdownBegan = w.next()
	s.Event("shutdown begins")
	ctx, cancel := context.WithTimeout(context.Background(), 30*time.Second)
	err := w.node.Shutdown(ctx)
	cancel()
	s.Pause()
	w.shutdownRet = w.next()
	s.Event("shutdown returned err=%v", err)
	if err != nil {
		s.Violate("C08", "shutdown-incomplete", "websocket: Node.Shutdown did not complete within its context deadline",
			"Shutdown(ctx 30s) returned %v at t=%v; hub.NumClients()=%d", err, s.Now(), w.node.hub.NumClients())
	}
	if !final {
		w.spawnConns(2)
	}
}

func (w *w7xWorld) runDriver(d int, ops []w7xOp) {
	s := w.s
	conn := func(i int) *w7xConnState {
		if i < 0 || i >= len(w.conns) {
			return nil
		}
		return w.conns[i]
	}
	for _, op := range ops {
		switch op.K {
		case "sleep":
			s.Sleep(time.Duration(op.Us) * time.Microsecond)
		case "pub":
			s.Pause()
			s.Event("d%d pub %s p%d", d, op.Ch, op.ID)
			_, _ = w.node.Publish(op.Ch, w7xPayload(op.ID))
		case "send":
			c := conn(op.C)
			if c == nil || c.client == nil {
				continue
			}
			s.Pause()
			s.Event("d%d send c%d p%d", d, op.C, op.ID)
			_ = c.client.Send(w7xPayload(op.ID))
		case "lsend":
			// Client.Send on a *Client found through the public hub lookup: reaches a
			// connection from the moment it is registered
			c := conn(op.C)
			if c == nil {
				continue
			}
			s.Pause()
			no := &w7xNodeOp{Kind: "csend", C: op.C, Seq: w.next()}
			w.ops = append(w.ops, no)
			for _, cl := range w.node.Hub().UserConnections("u" + strconv.Itoa(op.C)) {
				s.Event("d%d lsend c%d p%d", d, op.C, op.ID)
				_ = cl.Send(w7xPayload(op.ID))
				if c.cli.connectSeq == 0 {
					s.Probe("send_before_connect_reply_seen")
				}
			}
			no.Ret = w.next()
		case "nsub":
			c := conn(op.C)
			if c == nil {
				continue
			}
			s.Pause()
			no := &w7xNodeOp{Kind: "nsub", C: op.C, Ch: op.Ch, Seq: w.next()}
			w.ops = append(w.ops, no)
			s.Event("d%d nsub c%d %s", d, op.C, op.Ch)
			_ = w.node.Subscribe("u"+strconv.Itoa(op.C), op.Ch)
			no.Ret = w.next()
		case "disc":
			c := conn(op.C)
			if c == nil || c.client == nil || op.D == nil {
				continue
			}
			s.Pause()
			c.issued = append(c.issued, w7xIssued{Seq: w.next(), Source: "Client.Disconnect", D: *op.D})
			s.Fault("server_disconnect")
			s.Event("d%d disc c%d code=%d reason_len=%d", d, op.C, op.D.Code, len(op.D.Reason))
			c.client.Disconnect(Disconnect{Code: op.D.Code, Reason: op.D.Reason})
		case "ndisc":
			c := conn(op.C)
			if c == nil || op.D == nil {
				continue
			}
			s.Pause()
			c.issued = append(c.issued, w7xIssued{Seq: w.next(), Source: "Node.Disconnect", D: *op.D})
			k := len(c.issued) - 1
			s.Fault("node_disconnect")
			s.Event("d%d ndisc c%d code=%d reason_len=%d", d, op.C, op.D.Code, len(op.D.Reason))
			_ = w.node.Disconnect("u"+strconv.Itoa(op.C), WithCustomDisconnect(Disconnect{Code: op.D.Code, Reason: op.D.Reason}))
			c.issued[k].Ret = w.next()
		case "shutdown":
			if w.shutdownBegan != 0 {
				continue
			}
			s.Fault("shutdown")
			w.doShutdown(false)
		}
	}
}

// ---------------------------------------------------------------- run

func w7xRun(s *simrt.Sim, script any, prop string) {
	sc := script.(*w7xScript)
	w := &w7xWorld{s: s, sc: sc, prop: prop}
	for i := range sc.Conns {
		c := &w7xConnState{w: w, idx: i, spec: &sc.Conns[i]}
		c.cli.c = c
		w.conns = append(w.conns, c)
	}
	if err := w.setup(); err != nil {
		s.Violate(prop, "harness", "node setup failed", "%v", err)
		return
	}
	w.spawnConns(0)
	done := make(chan struct{}, len(sc.Drivers)+1)
	for d, ops := range sc.Drivers {
		d, ops := d, ops
		s.Go(func() { defer func() { done <- struct{}{} }(); w.runDriver(d, ops) })
	}
	for range sc.Drivers {
		<-done
	}
	s.Pause()
	settle := time.Duration(sc.SettleMs) * time.Millisecond
	if settle <= 0 {
		settle = 3 * time.Second
	}
	s.Sleep(settle)
	if w.shutdownRet != 0 {
		w.checkAfterShutdown()
	}
	// the clients leave: connected ones alternately say goodbye or just disappear
	for _, c := range w.conns {
		if !c.dialed || c.cli.ended() {
			continue
		}
		if c.idx%2 == 0 && c.cli.hsDone && !c.cli.sentClose {
			c.cli.close(1000)
		} else {
			c.cli.drop()
		}
	}
	s.Sleep(time.Second)
	if w.shutdownBegan == 0 {
		w.doShutdown(true)
	}
	// longer than the closing-handshake wait of any transport that is still closing
	s.Sleep(8 * time.Second)
	for _, c := range w.conns {
		if c.dialed && !c.cli.dropped {
			c.cli.drop()
		}
	}
	s.Sleep(7 * time.Second)
	for _, c := range w.conns {
		w.checkConn(c)
	}
	w.checkEncoders()
}

func init() {
	simrt.Register(&simrt.World{
		Name:      "w7x",
		Gen:       w7xGen,
		NewScript: func() any { return &w7xScript{} },
		Run:       w7xRun,
		Shrinks:   w7xShrinks,
		Nontrivial: func(prop string, r *simrt.Result) bool {
			return r.Probes["nontrivial:"+prop] > 0
		},
	})
	simrt.Claim("C11", "w7x", 3)
	simrt.Claim("C08", "w7x", 2)
	simrt.Claim("C31", "w7x", 2)
}

var _ = fmt.Sprintf
