//go:build verif

package centrifuge

// W6b: the per-channel batching writer (perChannelWriter / channelWriter of
// client_experimental.go) driven directly: 1..3 producer tasks call Add for 1..3
// channels with a generated ChannelBatchConfig per channel (MaxSize, MaxDelay,
// FlushLatestPublication, keys), size- and timer-triggered flushes on the virtual
// clock, delWriter(channel, flush) and Close(flush) at arbitrary points, and a
// recording flush function. Decides C13.

import (
	"encoding/binary"
	"fmt"
	"time"

	"github.com/centrifugal/centrifuge/internal/queue"
	simrt "github.com/centrifugal/centrifuge/internal/simrt"
	"github.com/centrifugal/protocol"
)

type w6bChan struct {
	MaxSize    int  `json:"max_size"`
	MaxDelayUs int  `json:"max_delay_us"`
	Latest     bool `json:"latest"`
}

type w6bOp struct {
	K       string `json:"k"`            // "add" | "sleep" | "del" | "close"
	Ch      int    `json:"ch,omitempty"` // channel index
	Frame   int    `json:"f,omitempty"`  // 0 publication, 1 join, 2 leave
	Key     int    `json:"key,omitempty"`
	SleepUs int    `json:"us,omitempty"`
	Flush   bool   `json:"flush,omitempty"`
}

type w6bScript struct {
	Chans      []w6bChan `json:"chans"`
	Tasks      [][]w6bOp `json:"tasks"`
	FlushYield bool      `json:"flush_yield"` // the flush function is a scheduling point (as enqueueMany's lock is)
}

var w6bDelays = []int{0, 40, 1000, 20000}
// the sleeps include the flush delays themselves: a task that adds, sleeps exactly MaxDelay
// and acts again does so at the very instant the flush timer fires, which puts the timer
// goroutine and the task into the same ready set (who goes first is a scheduler decision)
var w6bSleeps = []int{1, 30, 700, 5000, 30000, 40, 1000, 20000, 40, 1000}

func w6bGen(c *simrt.Choice, prop, tier string) any {
	sc := &w6bScript{}
	nch := 1 + c.Pick(5, 3, 2)
	for i := 0; i < nch; i++ {
		ch := w6bChan{}
		ch.MaxSize = []int{0, 1, 2, 3, 5}[c.Intn(5)]
		ch.MaxDelayUs = w6bDelays[c.Intn(len(w6bDelays))]
		if ch.MaxSize == 0 && ch.MaxDelayUs == 0 {
			// the connection only routes through the per-channel writer when at least one
			// of the two is set (client.go writeEncodedPushData)
			if c.Intn(2) == 0 {
				ch.MaxSize = 2
			} else {
				ch.MaxDelayUs = 1000
			}
		}
		ch.Latest = c.Intn(2) == 1
		sc.Chans = append(sc.Chans, ch)
	}
	sc.FlushYield = c.Intn(3) != 2
	nt := 1 + c.Pick(3, 4, 3)
	maxOps := 10
	if tier == "thorough" {
		maxOps = 24
	}
	closes := 0
	for t := 0; t < nt; t++ {
		n := 1 + c.Intn(maxOps)
		var ops []w6bOp
		for i := 0; i < n; i++ {
			switch c.Pick(12, 4, 3, 1) {
			case 0:
				op := w6bOp{K: "add", Ch: c.Intn(nch)}
				op.Frame = c.Pick(6, 1, 1)
				if op.Frame == 0 {
					op.Key = c.Intn(3)
				}
				ops = append(ops, op)
			case 1:
				ops = append(ops, w6bOp{K: "sleep", SleepUs: w6bSleeps[c.Intn(len(w6bSleeps))]})
			case 2:
				// the connection always uses delWriter(ch, false); flush=true is exercised less
				ops = append(ops, w6bOp{K: "del", Ch: c.Intn(nch), Flush: c.Intn(4) == 3})
			case 3:
				if closes == 0 {
					closes++
					ops = append(ops, w6bOp{K: "close", Flush: c.Intn(2) == 1})
				} else {
					ops = append(ops, w6bOp{K: "sleep", SleepUs: 1})
				}
			}
		}
		sc.Tasks = append(sc.Tasks, ops)
	}
	return sc
}

func w6bShrinks(script any) []any {
	sc := script.(*w6bScript)
	var out []any
	clone := func() *w6bScript {
		c := *sc
		c.Chans = append([]w6bChan(nil), sc.Chans...)
		c.Tasks = nil
		for _, t := range sc.Tasks {
			c.Tasks = append(c.Tasks, append([]w6bOp(nil), t...))
		}
		return &c
	}
	for t := range sc.Tasks {
		if len(sc.Tasks) > 1 {
			c := clone()
			c.Tasks = append(c.Tasks[:t], c.Tasks[t+1:]...)
			out = append(out, c)
		}
	}
	for t := range sc.Tasks {
		for i := range sc.Tasks[t] {
			c := clone()
			c.Tasks[t] = append(c.Tasks[t][:i], c.Tasks[t][i+1:]...)
			out = append(out, c)
		}
	}
	// merge all channels into channel 0 / drop the last channel
	if len(sc.Chans) > 1 {
		c := clone()
		last := len(c.Chans) - 1
		c.Chans = c.Chans[:last]
		for t := range c.Tasks {
			for i := range c.Tasks[t] {
				if c.Tasks[t][i].Ch >= last {
					c.Tasks[t][i].Ch = 0
				}
			}
		}
		out = append(out, c)
	}
	if sc.FlushYield {
		c := clone()
		c.FlushYield = false
		out = append(out, c)
	}
	for t := range sc.Tasks {
		for i, op := range sc.Tasks[t] {
			if op.K == "add" && op.Key != 0 {
				c := clone()
				c.Tasks[t][i].Key = 0
				out = append(out, c)
			}
			if op.K == "sleep" && op.SleepUs > 1 {
				c := clone()
				c.Tasks[t][i].SleepUs = 1
				out = append(out, c)
			}
		}
	}
	return out
}

type w6bItem struct {
	id       uint64
	ch       int
	frame    int // 0 pub, 1 join, 2 leave
	key      int
	inv, ret int64 // event numbers of Add invoke / return (ret 0: never returned)
	retTime  time.Duration
	flushes  int
	flush    int // index into flushes list, -1 if never flushed
	pos      int
	// orphan: when Add returned the item was neither flushed nor in the channelWriter
	// registered for its channel (white-box peek, used ONLY to label signatures)
	orphan bool
}

type w6bFlush struct {
	ch    int
	begin int64
	at    time.Duration
	ids   []uint64
}

type w6bDrop struct {
	kind     string // "del" | "close"
	ch       int    // -1 for close
	flush    bool
	inv, ret int64
	final    bool
}

func (d *w6bDrop) covers(ch int) bool { return d.ch < 0 || d.ch == ch }

const w6bSlack = time.Millisecond

func w6bRun(s *simrt.Sim, script any, prop string) {
	sc := script.(*w6bScript)
	var ev int64
	next := func() int64 { ev++; return ev }
	items := map[uint64]*w6bItem{}
	var all []*w6bItem
	var flushes []*w6bFlush
	var drops []*w6bDrop
	chName := func(i int) string { return fmt.Sprintf("ch%d", i) }
	keyName := func(k int) string {
		if k == 0 {
			return "" // non-map publications collapse under the empty key
		}
		return fmt.Sprintf("k%d", k)
	}
	cfgOf := func(i int) ChannelBatchConfig {
		c := sc.Chans[i]
		return ChannelBatchConfig{MaxSize: int64(c.MaxSize), MaxDelay: time.Duration(c.MaxDelayUs) * time.Microsecond, FlushLatestPublication: c.Latest}
	}

	flushFn := func(batch []queue.Item) error {
		if sc.FlushYield {
			// the real flush target (client.writeQueueItems -> writer.enqueueMany) starts
			// with a lock acquisition: a scheduling point before the batch is accepted
			s.Pause()
		}
		f := &w6bFlush{ch: -1, begin: next(), at: s.Now()}
		for _, it := range batch {
			if len(it.Data) != 8 {
				s.Violate("C13", "corrupt", "flushed item with foreign payload", "item with %d data bytes flushed", len(it.Data))
				continue
			}
			id := binary.BigEndian.Uint64(it.Data)
			info := items[id]
			if info == nil {
				s.Violate("C13", "corrupt", "unknown item flushed", "unknown item id %x", id)
				continue
			}
			if it.Channel != chName(info.ch) || it.Key != keyName(info.key) {
				s.Violate("C13", "corrupt", "item fields changed", "item %x flushed with channel %q key %q", id, it.Channel, it.Key)
			}
			if f.ch >= 0 && f.ch != info.ch {
				s.Violate("C13", "corrupt", "one flush mixes channels", "flush %d carries items of ch%d and ch%d", len(flushes), f.ch, info.ch)
			}
			f.ch = info.ch
			info.flushes++
			if info.flushes > 1 {
				s.Violate("C13", "duplicate", "item flushed twice", "item %x of ch%d flushed %d times (flush %d and %d)", id, info.ch, info.flushes, info.flush, len(flushes))
			} else {
				info.flush = len(flushes)
				info.pos = len(f.ids)
			}
			f.ids = append(f.ids, id)
		}
		if len(batch) == 0 {
			s.Probe("empty_flush_call")
		}
		s.Event("flush #%d ch=%d n=%d", len(flushes), f.ch, len(f.ids))
		flushes = append(flushes, f)
		if sc.FlushYield {
			s.Pause()
		}
		return nil
	}

	pcw := newPerChannelWriter(flushFn)
	done := make(chan struct{}, len(sc.Tasks))
	for t, ops := range sc.Tasks {
		t, ops := t, ops
		s.Go(func() {
			defer func() { done <- struct{}{} }()
			seq := 0
			for _, op := range ops {
				switch op.K {
				case "sleep":
					s.Sleep(time.Duration(op.SleepUs) * time.Microsecond)
				case "add":
					if op.Ch >= len(sc.Chans) {
						continue
					}
					seq++
					id := uint64(t+1)<<32 | uint64(seq)
					data := make([]byte, 8)
					binary.BigEndian.PutUint64(data, id)
					ft := protocol.FrameTypePushPublication
					if op.Frame == 1 {
						ft = protocol.FrameTypePushJoin
					} else if op.Frame == 2 {
						ft = protocol.FrameTypePushLeave
					}
					info := &w6bItem{id: id, ch: op.Ch, frame: op.Frame, key: op.Key, flush: -1}
					if op.Frame != 0 {
						info.key = 0
					}
					items[id] = info
					all = append(all, info)
					it := queue.Item{Data: data, Channel: chName(op.Ch), Key: keyName(info.key), FrameType: ft}
					s.Pause()
					info.inv = next()
					pcw.Add(it, chName(op.Ch), cfgOf(op.Ch))
					info.ret = next()
					info.retTime = s.Now()
					if info.flushes == 0 {
						// no scheduling point since Add released the writer's lock: nobody moved
						info.orphan = !w6bRegisteredHolds(pcw, chName(op.Ch), id)
						if info.orphan {
							s.Probe("item_in_unregistered_writer")
						}
					}
				case "del":
					if op.Ch >= len(sc.Chans) {
						continue
					}
					s.Pause()
					d := &w6bDrop{kind: "del", ch: op.Ch, flush: op.Flush, inv: next()}
					drops = append(drops, d)
					if op.Flush {
						s.Fault("delWriter_flush")
					} else {
						s.Fault("delWriter_noflush")
					}
					pcw.delWriter(chName(op.Ch), op.Flush)
					d.ret = next()
					s.Event("del ch=%d flush=%v", op.Ch, op.Flush)
				case "close":
					s.Pause()
					d := &w6bDrop{kind: "close", ch: -1, flush: op.Flush, inv: next()}
					drops = append(drops, d)
					if op.Flush {
						s.Fault("close_flush")
					} else {
						s.Fault("close_noflush")
					}
					pcw.Close(op.Flush)
					d.ret = next()
					s.Event("close flush=%v", op.Flush)
				}
			}
		})
	}
	for range sc.Tasks {
		<-done
	}
	s.Pause()
	// let every armed timer (also those of writers that are no longer reachable) expire
	maxDelay := time.Duration(0)
	for i := range sc.Chans {
		if d := cfgOf(i).MaxDelay; d > maxDelay {
			maxDelay = d
		}
	}
	s.Sleep(2*maxDelay + 2*w6bSlack)
	final := &w6bDrop{kind: "close", ch: -1, flush: true, inv: next(), final: true}
	pcw.Close(true)
	final.ret = next()
	drops = append(drops, final)
	s.Sleep(2*maxDelay + 2*w6bSlack)

	w6bOracle(s, sc, all, items, flushes, drops, cfgOf)
	s.Event("final items=%d flushes=%d", len(all), len(flushes))
}

// w6bRegisteredHolds reports whether the channelWriter currently registered for ch
// buffers the item with the given id. Must be called by the token holder.
func w6bRegisteredHolds(pcw *perChannelWriter, ch string, id uint64) bool {
	w := pcw.writers[ch]
	if w == nil {
		return false
	}
	has := func(its []queue.Item) bool {
		for _, it := range its {
			if len(it.Data) == 8 && binary.BigEndian.Uint64(it.Data) == id {
				return true
			}
		}
		return false
	}
	return has(w.buffer) || has(w.latestPubs)
}

func w6bOracle(s *simrt.Sim, sc *w6bScript, all []*w6bItem, items map[uint64]*w6bItem, flushes []*w6bFlush, drops []*w6bDrop, cfgOf func(int) ChannelBatchConfig) {
	const inf = int64(1) << 62
	// an Add that overlapped a delWriter of its channel (neither entirely before nor
	// entirely after it)
	inflightDel := func(x *w6bItem) *w6bDrop {
		for _, d := range drops {
			if d.kind == "del" && d.covers(x.ch) && x.inv < d.ret && (x.ret == 0 || x.ret > d.inv) {
				return d
			}
		}
		return nil
	}
	inflightClose := func(x *w6bItem) *w6bDrop {
		for _, d := range drops {
			if d.kind == "close" && x.inv < d.ret && (x.ret == 0 || x.ret > d.inv) {
				return d
			}
		}
		return nil
	}
	// begin event of the first flush of x's channel that began after x's Add returned
	nextFlushBegin := func(x *w6bItem) int64 {
		for _, f := range flushes {
			if f.ch != x.ch || f.begin <= x.ret {
				continue
			}
			// a flush made only of items whose Add overlapped a delWriter may come from a
			// channel writer that is no longer (or not yet) the registered one; it says
			// nothing about the writer x sits in
			foreign := len(f.ids) > 0
			for _, id := range f.ids {
				if it := items[id]; it == nil || inflightDel(it) == nil {
					foreign = false
					break
				}
			}
			if !foreign {
				return f.begin
			}
		}
		return inf
	}
	tag := func(xs ...*w6bItem) string {
		for _, x := range xs {
			if inflightDel(x) != nil {
				return " [Add in flight during delWriter]"
			}
		}
		return ""
	}

	timerFlush, sizeFlush := 0, 0
	for fi, f := range flushes {
		if f.ch < 0 {
			continue
		}
		cfg := cfgOf(f.ch)
		// documented batch limit
		if cfg.MaxSize > 0 && int64(len(f.ids)) > cfg.MaxSize {
			s.Violate("C13", "batch-size", "flush larger than MaxSize", "flush %d of ch%d carries %d items, MaxSize %d", fi, f.ch, len(f.ids), cfg.MaxSize)
		}
		if cfg.MaxSize > 0 && int64(len(f.ids)) >= cfg.MaxSize {
			sizeFlush++
		} else if cfg.MaxDelay > 0 {
			for _, id := range f.ids {
				if it := items[id]; it != nil && it.ret != 0 && f.at-it.retTime >= cfg.MaxDelay {
					timerFlush++
					break
				}
			}
		}
		if !cfg.FlushLatestPublication {
			continue
		}
		// latest-publication mode: join/leave first, then one publication per key
		seenPub := false
		keys := map[int]uint64{}
		for _, id := range f.ids {
			it := items[id]
			if it == nil {
				continue
			}
			if it.frame == 0 {
				seenPub = true
				if other, dup := keys[it.key]; dup {
					s.Violate("C13", "latest-coalescing", "two publications of one key in one latest-mode flush", "flush %d of ch%d carries publications %x and %x of key %d", fi, f.ch, other, id, it.key)
				}
				keys[it.key] = id
			} else if seenPub {
				s.Violate("C13", "latest-join-leave-first", "join/leave after a publication in a latest-mode flush", "flush %d of ch%d: item %x (frame %d) follows a publication", fi, f.ch, id, it.frame)
			}
		}
		if len(keys) > 1 {
			s.Probe("latest_flush_multi_key")
		}
		// newest only: no publication of the same key whose Add began after this one's
		// returned and itself returned before the flush began
		for _, id := range f.ids {
			p := items[id]
			if p == nil || p.frame != 0 || p.flush != fi {
				continue
			}
			for _, q := range all {
				if q != p && q.ch == p.ch && q.frame == 0 && q.key == p.key && p.ret != 0 && q.ret != 0 && p.ret < q.inv && q.ret < f.begin {
					s.Violate("C13", "latest-coalescing", "stale publication flushed although a newer one of its key was buffered"+tag(p, q), "flush %d of ch%d (ev %d) carries %x (Add returned ev %d) but %x of key %d was added after it (ev %d..%d)", fi, f.ch, f.begin, p.id, p.ret, q.id, p.key, q.inv, q.ret)
				}
			}
		}
	}

	// order
	for _, a := range all {
		if a.flush < 0 || a.ret == 0 {
			continue
		}
		for _, b := range all {
			if b == a || b.flush < 0 || b.ch != a.ch || !(a.ret < b.inv) {
				continue
			}
			latest := cfgOf(a.ch).FlushLatestPublication
			bad := false
			switch {
			case a.flush > b.flush:
				bad = true
			case a.flush == b.flush && a.pos > b.pos:
				// within one latest-mode flush join/leave pushes precede publications by the
				// property's own wording; order is compared within each class only
				if !(latest && a.frame == 0 && b.frame != 0) {
					bad = true
				}
			}
			if bad {
				s.Violate("C13", "order", "channel order inverted"+tag(a, b), "ch%d: Add of %x returned (ev %d) before Add of %x began (ev %d) but it was flushed later (flush %d pos %d vs flush %d pos %d)", a.ch, a.id, a.ret, b.id, b.inv, a.flush, a.pos, b.flush, b.pos)
			}
		}
	}

	// nothing delivered after the subscription ended / the connection closed
	inflightDelSeen, inflightCloseSeen := 0, 0
	for _, x := range all {
		if d := inflightDel(x); d != nil {
			inflightDelSeen++
			if x.flush >= 0 && flushes[x.flush].begin > d.ret {
				how := " (it went into a channelWriter created after the removal)"
				if x.orphan {
					how = " (it went into the removed, orphaned channelWriter)"
				}
				clause := "flush-after-end"
				if x.orphan {
					clause = "flush-after-end-orphaned-writer"
				}
				s.Violate("C13", clause, "Add in flight during delWriter flushed after delWriter returned"+how, "ch%d: Add of %x (ev %d..%d) overlapped delWriter(flush=%v) (ev %d..%d); the item was flushed afterwards (flush ev %d, t=%v)", x.ch, x.id, x.inv, x.ret, d.flush, d.inv, d.ret, flushes[x.flush].begin, flushes[x.flush].at)
			}
		}
		if d := inflightClose(x); d != nil && !d.final {
			inflightCloseSeen++
			if x.flush >= 0 && flushes[x.flush].begin > d.ret && !d.flush {
				// tolerated: see NOTES-w6b.md (the only caller closes the connection writer right
				// after Close, a later flush cannot reach the transport)
				s.Probe("inflight_add_flushed_after_close_noflush")
			}
		}
		if x.flush < 0 || x.ret == 0 {
			continue
		}
		fb := flushes[x.flush].begin
		for _, d := range drops {
			if !d.covers(x.ch) || !(x.ret < d.inv) || !(fb > d.ret) {
				continue
			}
			what := "delWriter"
			if d.kind == "close" {
				what = "Close"
			}
			s.Violate("C13", "flush-after-end", fmt.Sprintf("item buffered before %s(flush=%v) flushed after it returned", what, d.flush)+tag(x), "ch%d: Add of %x returned ev %d, %s ev %d..%d, flushed at ev %d (t=%v)", x.ch, x.id, x.ret, what, d.inv, d.ret, fb, flushes[x.flush].at)
		}
	}
	if inflightDelSeen > 0 {
		s.Probe("inflight_add_vs_delWriter")
	}
	if inflightCloseSeen > 0 {
		s.Probe("inflight_add_vs_close")
	}

	// loss and delay
	superseded := 0
	for _, x := range all {
		if x.ret == 0 {
			continue
		}
		cfg := cfgOf(x.ch)
		if x.flush >= 0 {
			// (an exact-time clause: only judged in runs without the "time passes while
			// runnable goroutines stay parked" fault, which delays the flush itself)
			if cfg.MaxDelay > 0 && s.Stalls == 0 && flushes[x.flush].at > x.retTime+cfg.MaxDelay+w6bSlack {
				s.Violate("C13", "delay", "item flushed later than MaxDelay after its Add"+tag(x), "ch%d: Add of %x returned at t=%v, flushed at t=%v, MaxDelay %v", x.ch, x.id, x.retTime, flushes[x.flush].at, cfg.MaxDelay)
			}
			continue
		}
		nfb := nextFlushBegin(x)
		excused := false
		if cfg.FlushLatestPublication && x.frame == 0 {
			for _, q := range all {
				if q != x && q.ch == x.ch && q.frame == 0 && q.key == x.key && (q.ret == 0 || q.ret > x.inv) && q.inv < nfb {
					excused = true
					superseded++
					break
				}
			}
		}
		if !excused {
			for _, d := range drops {
				if !d.covers(x.ch) || !(d.ret > x.inv) || !(d.inv < nfb) {
					continue
				}
				inflight := x.ret > d.inv
				if !d.flush || (inflight && d.kind == "del") {
					excused = true
					break
				}
			}
		}
		if !excused {
			s.Violate("C13", "loss", "item neither flushed nor superseded nor dropped by delWriter/Close(false)"+tag(x), "ch%d: item %x (frame %d key %d, Add ev %d..%d at t=%v) never flushed", x.ch, x.id, x.frame, x.key, x.inv, x.ret, x.retTime)
		}
	}
	if superseded > 0 {
		s.Probe("superseded")
	}
	if timerFlush > 0 {
		s.Probe("timer_flush")
	}
	if sizeFlush > 0 {
		s.Probe("size_flush")
	}
	if len(flushes) >= 2 && (timerFlush > 0 || sizeFlush > 0) {
		s.Probe("nontrivial:C13")
	}
}

func init() {
	simrt.Register(&simrt.World{
		Name:      "w6b",
		Gen:       w6bGen,
		NewScript: func() any { return &w6bScript{} },
		Run:       w6bRun,
		Shrinks:   w6bShrinks,
		Stall:     func(prop string) bool { return true },
		Nontrivial: func(prop string, r *simrt.Result) bool {
			return r.Probes["nontrivial:C13"] > 0
		},
	})
	simrt.Claim("C13", "w6b", 10)
}
