//go:build verif

package centrifuge

// W2m oracles: broadcast accounting, reference-model check per channel (fold for
// sequential scripts, porcupine for concurrent ones), pagination sweep (C21).

import (
	"context"
	"fmt"
	"sort"
	"strings"

	"github.com/anishathalye/porcupine"
	simrt "github.com/centrifugal/centrifuge/internal/simrt"
)

// pagination: at a quiescent point enumerate the state of every channel with every page
// size and in both directions, and read every key on its own.
func (w *w2mWorld) pagination() {
	s := w.s
	ctx := context.Background()
	kv := func(pubs []*Publication) []w2mKV {
		var out []w2mKV
		for _, p := range pubs {
			out = append(out, w2mKV{Key: p.Key, Data: string(p.Data), Off: p.Offset, Score: p.Score})
		}
		return out
	}
	for ci := range w.sc.Chans {
		ch := w2mChName(ci)
		ordered := w.cfgs[ci].Ordered
		for _, asc := range []bool{false, true} {
			nev := len(w.rec.events)
			full, err := w.b.ReadState(ctx, ch, MapReadStateOptions{Limit: -1, Asc: asc})
			if err != nil {
				s.Violate("C21", "read-error", "ReadState failed at a quiescent point", "%v", err)
				continue
			}
			ref := kv(full.Publications)
			n := len(ref)
			var viol []string
			add := func(clause, sig, f string, a ...any) {
				viol = append(viol, clause+"\x00"+sig+"\x00"+fmt.Sprintf(f, a...))
			}
			// documented sort order
			for i := 1; i < n; i++ {
				a, b := ref[i-1], ref[i]
				ok := a.Key < b.Key
				if ordered {
					switch {
					case a.Score != b.Score:
						ok = (a.Score > b.Score) != asc
					default:
						ok = (a.Key > b.Key) != asc
					}
				}
				if !ok {
					add("sort-order", "state not in the channel's sort order", "ordered=%v asc=%v: %v before %v in %v", ordered, asc, a, b, ref)
				}
			}
			for p := 1; p <= n+1; p++ {
				var got []w2mKV
				cursor := ""
				for it := 0; ; it++ {
					res, err := w.b.ReadState(ctx, ch, MapReadStateOptions{Limit: p, Cursor: cursor, Asc: asc})
					if err != nil {
						add("read-error", "paginated ReadState failed", "page size %d cursor %q: %v", p, cursor, err)
						break
					}
					if len(res.Publications) > p {
						add("page-size", "page larger than the limit", "page size %d, got %d entries", p, len(res.Publications))
					}
					got = append(got, kv(res.Publications)...)
					if res.Cursor == "" {
						break
					}
					if len(res.Publications) == 0 || res.Cursor == cursor || it > n+2 {
						add("no-progress", "pagination does not make progress", "page size %d ordered=%v asc=%v: cursor %q -> %q with %d entries after %d pages (state %v)", p, ordered, asc, cursor, res.Cursor, len(res.Publications), it+1, ref)
						break
					}
					cursor = res.Cursor
				}
				if !w2mKVEqual(got, ref) {
					add("enumeration", "pages do not enumerate every key exactly once in order", "page size %d ordered=%v asc=%v: pages give %v, state is %v", p, ordered, asc, got, ref)
				}
			}
			for _, e := range ref {
				res, err := w.b.ReadState(ctx, ch, MapReadStateOptions{Key: e.Key})
				if err != nil || len(res.Publications) != 1 || kv(res.Publications)[0] != e {
					add("single-key", "single-key read differs from the stored entry", "key %q: got %v err=%v, stored %v", e.Key, kv(res.Publications), err, e)
				}
			}
			if res, err := w.b.ReadState(ctx, ch, MapReadStateOptions{Key: "absent-key"}); err != nil || len(res.Publications) != 0 {
				add("single-key", "single-key read of an absent key returned something", "got %v err=%v", kv(res.Publications), err)
			}
			again, err := w.b.ReadState(ctx, ch, MapReadStateOptions{Limit: -1, Asc: asc})
			if err != nil || !w2mKVEqual(kv(again.Publications), ref) || again.Position != full.Position || len(w.rec.events) != nev {
				s.Probe("c21_state_changed")
				continue
			}
			s.Probe("c21_sweeps")
			if n >= 2 {
				s.Probe("nontrivial:C21")
			}
			if n >= 2 && ordered {
				ties := false
				for i := 1; i < n; i++ {
					if ref[i].Score == ref[i-1].Score {
						ties = true
					}
				}
				if ties {
					s.Probe("c21_score_ties")
				}
			}
			for _, v := range viol {
				p := strings.SplitN(v, "\x00", 3)
				s.Violate("C21", p[0], p[1], "channel %d: %s", ci, p[2])
			}
		}
	}
}

func (w *w2mWorld) check() {
	s, sc := w.s, w.sc
	w2LinSteps = 0
	defer func() {
		switch {
		case w2LinSteps > 300000:
			s.Probe("lin_steps_over_300k")
		case w2LinSteps > 30000:
			s.Probe("lin_steps_over_30k")
		}
	}()
	sequential := len(sc.Tasks) <= 1
	// ---- broadcast accounting for operations of the tasks ----
	for _, r := range w.recs {
		if r.in.Kind != 'P' && r.in.Kind != 'R' {
			continue
		}
		kind := map[byte]string{'P': "publish", 'R': "remove"}[r.in.Kind]
		if r.out.Err != "" || r.out.Suppressed {
			if r.out.Suppressed {
				s.Probe("suppressed:" + r.out.Reason)
			}
			if len(r.hev) != 0 {
				p := "C20"
				if r.out.Reason == string(SuppressReasonIdempotency) || r.out.Reason == string(SuppressReasonVersion) {
					p = "C19"
				}
				s.Violate(p, "suppressed-delivered", "suppressed "+kind+" reached the event handler ("+r.out.Reason+")", "%s returned %s but HandlePublication was called %d time(s)", r.in, r.out, len(r.hev))
			}
			continue
		}
		if len(r.hev) != 1 {
			s.Violate("C20", "broadcast-count", "unsuppressed "+kind+" not broadcast exactly once", "%s returned %s, HandlePublication calls: %d", r.in, r.out, len(r.hev))
			continue
		}
		h := r.hev[0]
		wantOff := r.out.Pos.Offset
		if h.SP != r.out.Pos || h.PubOff != wantOff || h.Key != r.in.Key || h.Removed != (r.in.Kind == 'R') || h.Data != r.in.Data || h.Stamp < r.call || h.Stamp > r.ret {
			s.Violate("C20", "broadcast-content", "broadcast of an unsuppressed "+kind+" disagrees with its result", "%s returned %s, handler got key=%q removed=%v data=%q sp=%s pub.Offset=%d", r.in, r.out, h.Key, h.Removed, h.Data, w2PosStr(h.SP), h.PubOff)
		}
	}
	// ---- deliveries by broker goroutines: expiry removals become operations ----
	eops := make([][]*w2mRec, len(sc.Chans))
	for _, ev := range w.rec.events {
		if ev.Task >= 0 || ev.Kind != "pub" {
			continue
		}
		ci := -1
		for i := range sc.Chans {
			if w2mChName(i) == ev.Ch {
				ci = i
			}
		}
		if ci < 0 || !ev.Removed || ev.Data != "" {
			s.Violate("C20", "background-broadcast", "a broker goroutine broadcast something that is not a key removal", "%+v", *ev)
			continue
		}
		if ev.PubOff != ev.SP.Offset && w.cfgs[ci].Mode.HasStream() {
			s.Violate("C24", "removal-offset", "expiry removal broadcast with a publication offset different from its stream position", "%+v", *ev)
		}
		w.nid++
		r := &w2mRec{task: -1, ch: ci, in: &w2mIn{Kind: 'E', Key: ev.Key, A: ev.T, B: ev.T, id: w.nid}, out: &w2mOut{Pos: ev.SP}, call: 0, ret: ev.Stamp}
		eops[ci] = append(eops[ci], r)
		s.Probe("expiry_removal")
	}

	for ci := range sc.Chans {
		var rs []*w2mRec
		for _, r := range w.recs {
			if r.ch == ci {
				rs = append(rs, r)
			}
		}
		unsup, reads, dedup := 0, 0, 0
		for _, r := range rs {
			if (r.in.Kind == 'P' || r.in.Kind == 'R') && r.out.Err == "" {
				if !r.out.Suppressed {
					unsup++
				} else if r.out.Reason == string(SuppressReasonIdempotency) || r.out.Reason == string(SuppressReasonVersion) {
					dedup++
				}
			}
			if len(r.out.State) > 0 || len(r.out.Ents) > 0 {
				reads++
			}
			// an operation on a key at the very instant one of its expiry removals is delivered
			for _, e := range eops[ci] {
				if (r.in.Kind == 'P' || r.in.Kind == 'R') && r.in.Key == e.in.Key && r.in.A <= e.in.B && e.in.B <= r.in.B+2 {
					s.Probe("op_at_expiry_instant")
				}
			}
		}
		if unsup >= 3 && reads >= 1 {
			s.Probe("nontrivial:C20")
		}
		if dedup > 0 {
			s.Probe("nontrivial:C19")
		}
		if len(eops[ci]) > 0 {
			s.Probe("nontrivial:C24")
		}
		rs = append(rs, eops[ci]...)
		if len(rs) == 0 {
			continue
		}
		sort.SliceStable(rs, func(i, j int) bool { return rs[i].ret < rs[j].ret })
		var ops []porcupine.Operation
		for _, r := range rs {
			cid := r.task
			if cid < 0 {
				cid = len(sc.Tasks) + 1
			}
			ops = append(ops, porcupine.Operation{ClientId: cid, Input: r.in, Output: r.out, Call: r.call, Return: r.ret})
		}
		overdue := 3*w2Sec + w.sumHS + 4*int64(sc.EHS)*w2Ms
		nrelaxed := 0
		run := func(f w2mFlags) (w2LinResult, int, []string, string) {
			m := &w2mModel{cfg: w.cfgs[ci], f: f, overdue: overdue, relaxed: map[int]bool{}}
			defer func() { nrelaxed = len(m.relaxed) }()
			step := func(st, in, out interface{}) []interface{} {
				var r []interface{}
				for _, n := range m.step(st.(*w2mState), in.(*w2mIn), out.(*w2mOut)) {
					r = append(r, n)
				}
				return r
			}
			key := func(st interface{}) string { return st.(*w2mState).key() }
			bad, exp, stDesc := -1, []string(nil), ""
			if sequential {
				var cur []interface{}
				bad, cur = w2Fold(&w2mState{}, step, key, ops)
				if bad < 0 {
					return w2LinOK, -1, nil, ""
				}
				seen := map[string]bool{}
				for _, st := range cur {
					for _, e := range m.expected(st.(*w2mState), rs[bad].in) {
						if !seen[e] {
							seen[e] = true
							exp = append(exp, e)
						}
					}
				}
				if len(cur) > 0 {
					stDesc = cur[0].(*w2mState).describe()
				}
				// the order of delivery of an expiry removal is not the order of its effect:
				// let porcupine decide
			}
			res := w2CheckLin(func() interface{} { return &w2mState{} }, step, key, ops, 150000)
			if res == w2LinOK && bad >= 0 {
				s.Probe("fold_order_mismatch")
			}
			return res, bad, exp, stDesc
		}
		res, bad, exp, stDesc := run(w2mFlags{})
		for i := 0; i < nrelaxed; i++ {
			s.Probe("relaxed_read")
		}
		if nrelaxed == 0 {
			s.Probe("exact_channel_check")
		}
		w.raceProbes(ci, rs)
		if sequential {
			s.Probe("seq_checked")
		} else {
			s.Probe("lin_checked")
		}
		if res == w2LinUnknown {
			s.Probe("lin_unknown")
			continue
		}
		if res == w2LinOK {
			continue
		}
		var hist []string
		for i, r := range rs {
			mark := "  "
			if i == bad {
				mark = "=>"
			}
			who := fmt.Sprintf("t%d", r.task)
			if r.task < 0 {
				who = "broker"
			}
			hist = append(hist, fmt.Sprintf("%s[%s #%d..%d] %s -> %s", mark, who, r.call, r.ret, r.in, r.out))
		}
		c := sc.Chans[ci]
		detail := fmt.Sprintf("channel %d %+v:\n%s", ci, c, strings.Join(hist, "\n"))
		if bad >= 0 {
			detail += "\nmodel state before =>: " + stDesc + "\nmodel allows: " + w2Join(exp)
		}
		if r2, _, _, _ := run(w2mFlags{MetaDropsKeys: true}); r2 == w2LinOK {
			s.Violate("C24", "model:meta-drops-keys", "channel metadata TTL discarded the channel while unexpired keys were in the state (keys vanish without removal)", "%s", detail)
			continue
		}
		p := "C20"
		if r3, _, _, _ := run(w2mFlags{AnyDedup: true}); r3 == w2LinOK {
			p = "C19"
		} else if r4, _, _, _ := run(w2mFlags{AnyExpiry: true}); r4 == w2LinOK {
			p = "C24"
		}
		if bad >= 0 {
			kind := map[byte]string{'P': "Publish", 'R': "Remove", 'C': "Clear", 'S': "ReadState", 'K': "ReadState(key)", 'T': "ReadStream", 'E': "expiry removal"}[rs[bad].in.Kind]
			sig := kind + " result differs from the reference map"
			if len(exp) == 1 && strings.HasPrefix(exp[0], "<a key of the state is overdue") {
				sig = "expired key still in the state after the allowed sweep delay (no removal delivered)"
			} else if rs[bad].in.Kind == 'E' {
				sig = "expiry removal delivered that the reference map does not allow (key absent, TTL not elapsed, or duplicate)"
			}
			s.Violate(p, "model:"+kind, sig, "%s", detail)
		} else {
			s.Violate(p, "linearizability", "concurrent history is not linearizable w.r.t. the reference map", "%s", detail)
		}
	}
}

// raceProbes measures (from results only) how often the interesting windows of C24 were
// reached: a key revived or removed by an operation after its TTL had elapsed but before
// the sweep removed it.
func (w *w2mWorld) raceProbes(ci int, rs []*w2mRec) {
	ttl := w.cfgs[ci].KeyTTL
	if ttl <= 0 {
		return
	}
	dl := map[string]int64{} // key -> deadline of the live incarnation
	for _, r := range rs {
		in, out := r.in, r.out
		if out.Err != "" {
			continue
		}
		d, live := dl[in.Key]
		switch {
		case in.Kind == 'E':
			delete(dl, in.Key)
		case in.Kind == 'C':
			dl = map[string]int64{}
		case in.Kind == 'P' && !out.Suppressed:
			if live && in.A >= d {
				w.s.Probe("republished_after_deadline")
			}
			dl[in.Key] = in.B + ttl
		case in.Kind == 'P' && out.Reason == string(SuppressReasonKeyExists) && in.Refresh:
			if live && in.A >= d {
				w.s.Probe("kept_alive_after_deadline")
			} else if live && in.A >= d-w2Sec {
				w.s.Probe("kept_alive_in_last_second")
			}
			dl[in.Key] = in.B + ttl
		case in.Kind == 'R' && !out.Suppressed:
			if live && in.A >= d {
				w.s.Probe("removed_after_deadline")
			}
			delete(dl, in.Key)
		}
	}
}

func init() {
	simrt.Register(&simrt.World{
		Name:      "w2m",
		Gen:       w2mGen,
		NewScript: func() any { return &w2mScript{} },
		Run:       w2mRun,
		Shrinks:   w2mShrinks,
		Nontrivial: func(prop string, r *simrt.Result) bool {
			return r.Probes["nontrivial:"+prop] > 0
		},
	})
	simrt.Claim("C19", "w2m", 10)
	simrt.Claim("C20", "w2m", 10)
	simrt.Claim("C21", "w2m", 10)
	simrt.Claim("C24", "w2m", 10)
}
