//go:build verif

package centrifuge

// W3 mixed scenarios ("mix" mode): a MAP subscription that is still loading (state / stream
// pages being paginated, not yet live) meets ordinary STREAM subscribes and server-side
// subscribes / unsubscribes on the SAME connection. Decides (also) C04 and C37.
//
// The world is the W3 map world (real Node, real MemoryMapBroker, the node's default
// MemoryBroker for the plain channels s1, s2, s3, v1, simulated protocol clients). A mix
// client is a sequential list of single round trips:
//   mreq   one request of the map subscribe flow of channel m (first page, next state page,
//          next stream page); starts a new flow when none is in progress
//   mfin   requests until the map subscription is live (or the flow failed)
//   ssub   client-side stream subscribe of Ch, sunsub: client-side unsubscribe of Ch
//   srv    server-side action Act (nsub = Node.Subscribe(user, Ch), csub = Client.Subscribe(Ch),
//          nunsub = Node.Unsubscribe, cunsub = Client.Unsubscribe) in a task of its own that
//          becomes runnable Us microseconds later (racing the following requests), or inline
//   mreq / mfin with RaceAt = N (or -1: the first stream-phase request) and Act/Ch: the
//          server-side action becomes runnable at the instant request N of the op is handed to
//          the server, so the scheduler can place it anywhere inside the handling of that
//          request (e.g. between the reservation of a server-side subscribe and its hub add
//          the map subscription goes live).
// Oracles only read what the connection reports (Client.Channels / IsSubscribed /
// ChannelsWithContext), the node's routing table, and what the simulated client received.

import (
	"context"
	"fmt"
	"sort"
	"strconv"
	"time"

	simrt "github.com/centrifugal/centrifuge/internal/simrt"
	"github.com/centrifugal/protocol"
)

// channels whose subscriptions are judged; s3 exists only to have enough client-side
// channels for limit 3, v1 is only ever subscribed server-side (C37 flavour)
var w3MixChans = []string{w3Channel, "s1", "s2", "s3"}

const w3MixServerOnly = "v1"

type w3MixW struct {
	pending       int  // server-side action tasks not finished yet
	srvDuringLoad bool // a server-side subscribe started while a map subscribe of that channel was loading on the target connection
	atLimitLoad   bool // a client-side subscribe was sent while the connection held limit subscriptions, a loading map subscription among them
	markSeq       int
	// classification only: on some connection a server-side subscribe of m overlapped the first
	// request of a map subscribe of m (which has no reservation until its handler installs one)
	racedFirst bool
}

type w3MixC struct {
	phase   int  // map flow as seen by the client: 0 none, 1 state pages, 2 stream pages, 3 live
	loading bool // the server answered a non-live map request successfully and nothing that could end the flow happened since
	cursor  string
	epoch   string
	offset  uint64
	connN   int // ordinal of the connection the flow state belongs to
	// every unsubscribe of m (client- or server-side) bumps it when issued and when finished
	unsubEpoch int
	// server-side actions that can change the subscriptions of this connection: in flight / ever started+finished
	busy     int
	srvEpoch int
	pubs     map[string][]string // channel -> payloads of received publication pushes, in order
	// classification of findings (signature only): the first request of a map subscribe is in
	// flight / server-side subscribes of m in flight / both overlapped on this connection
	firstInFlight bool
	srvSubM       int
	racedFirst    bool
}

const w3MixRacedFirst = " [a server-side subscribe of the channel ran concurrently with the first request of the map subscribe]"

func (cl *w3Cl) mixSuffix(ch string) string {
	if ch == w3Channel && cl.mx.racedFirst {
		return w3MixRacedFirst
	}
	return ""
}

// mixTraceSuffix classifies the C05 end-of-run traces (routing entry / subscription counters
// left behind) of a run in which that overlap happened. Signature only.
func (w *w3World) mixTraceSuffix(clause string) string {
	if !w.sc.Cfg.Mix || !w.mix.racedFirst {
		return ""
	}
	switch clause {
	case "routing-entry-survives", "num-subscriptions", "subscriptions-gauge":
		return w3MixRacedFirst
	}
	return ""
}

func w3MixClientSide(ch string) bool { return ch != w3MixServerOnly }

// ---------------------------------------------------------------- client side

func (cl *w3Cl) mixEnsure() bool {
	if cl.mx.pubs == nil {
		cl.mx.pubs = map[string][]string{}
	}
	if !cl.connected {
		cl.mx.phase, cl.mx.loading, cl.mx.cursor = 0, false, ""
		if !cl.connect() {
			return false
		}
	}
	if cl.conn != nil && cl.conn.n != cl.mx.connN {
		cl.mx.connN = cl.conn.n
		cl.mx.phase, cl.mx.loading, cl.mx.cursor = 0, false, ""
		cl.mx.racedFirst = false
	}
	return cl.connected
}

func (cl *w3Cl) mixPush(p *protocol.Push) {
	s := cl.w.s
	switch {
	case p.Pub != nil:
		s.Event("c%d push pub ch=%s key=%s off=%d", cl.idx, p.Channel, p.Pub.Key, p.Pub.Offset)
		if cl.mx.pubs == nil {
			cl.mx.pubs = map[string][]string{}
		}
		cl.mx.pubs[p.Channel] = append(cl.mx.pubs[p.Channel], string(p.Pub.Data))
	case p.Unsubscribe != nil:
		s.Event("c%d push unsub ch=%s code=%d", cl.idx, p.Channel, p.Unsubscribe.Code)
		if p.Channel == w3Channel && cl.mx.phase == 3 {
			cl.mx.phase = 0
		}
	case p.Subscribe != nil:
		s.Event("c%d push subscribe ch=%s", cl.idx, p.Channel)
		s.Probe("mix_server_subscribe_push")
	}
}

// mixHeld: client-side subscriptions the connection holds right now: what it reports
// (Client.Channels, restricted to channels that are only ever subscribed client-side in this
// scenario) plus the map subscription of m while it is loading.
func (cl *w3Cl) mixHeld() (n int, withLoading bool) {
	inM := false
	for _, ch := range cl.client.Channels() {
		if w3MixClientSide(ch) {
			n++
		}
		if ch == w3Channel {
			inM = true
		}
	}
	if cl.mx.loading && !inM {
		n++
		withLoading = true
	}
	return n, withLoading
}

// mixSample is the C37 check at an instant the harness looks at the connection.
func (cl *w3Cl) mixSample(when string) {
	w := cl.w
	lim := w.sc.Cfg.ChanLimit
	if lim <= 0 || cl.connClosed || cl.client == nil {
		return
	}
	w.s.Probe("c37_sampled")
	var held []string
	for _, ch := range cl.client.Channels() {
		if w3MixClientSide(ch) {
			held = append(held, ch)
		}
	}
	sort.Strings(held)
	if w.mix.atLimitLoad && w.prop == "C37" {
		w.s.Probe("nontrivial:C37")
	}
	if len(held) > lim {
		w.s.Violate("C37", "channel-limit-exceeded", "more client-side subscriptions than ClientChannelLimit on a connection that also loaded a map subscription",
			"%s: client %d reports %d client-side subscriptions %v, ClientChannelLimit %d", when, cl.idx, len(held), held, lim)
	}
}

// mixQuiet: token that changes whenever a server-side action that can touch this connection
// starts or finishes; acceptance beyond the limit is only judged when it stayed the same and
// nothing was in flight (an in-flight server-side unsubscribe may legitimately free a slot).
func (cl *w3Cl) mixQuiet() (int, bool) { return cl.mx.srvEpoch, cl.mx.busy == 0 }

func (cl *w3Cl) mixAccepted(what string, n0 int, withLoading bool, ep0 int, quiet0 bool) {
	w := cl.w
	lim := w.sc.Cfg.ChanLimit
	if lim <= 0 || n0 < lim {
		return
	}
	ep1, quiet1 := cl.mixQuiet()
	if !quiet0 || !quiet1 || ep0 != ep1 {
		w.s.Probe("c37_accept_not_judged_concurrent_server_action")
		return
	}
	sig := "client-side subscribe accepted although the connection already held ClientChannelLimit subscriptions"
	if withLoading {
		sig += " [a map subscription that is still loading among them]"
	}
	w.s.Violate("C37", "subscribe-accepted-beyond-limit", sig,
		"client %d: %s answered successfully while the connection held %d client-side subscriptions (reported %v, map subscription of %s loading: %v), ClientChannelLimit %d; error 106 limit exceeded expected",
		cl.idx, what, n0, cl.client.Channels(), w3Channel, withLoading, lim)
}

func (cl *w3Cl) mixNoteAttempt(n0 int, withLoading bool) {
	lim := cl.w.sc.Cfg.ChanLimit
	if lim > 0 && n0 >= lim {
		cl.w.s.Probe("c37_attempt_at_limit")
		if withLoading {
			cl.w.s.Probe("c37_attempt_at_limit_with_loading_map")
			cl.w.mix.atLimitLoad = true
		}
	}
}

func (cl *w3Cl) mixFlowReset() {
	cl.mx.phase, cl.mx.loading, cl.mx.cursor = 0, false, ""
}

// mixRace: the server-side action of op becomes runnable when request n (1-based) of the op
// is handed to the server (RaceAt -1: the first stream-phase request).
func (cl *w3Cl) mixRace(op w3COp, n int, streamReq bool, done *bool) {
	if op.Act == "" || *done {
		return
	}
	if op.RaceAt == n || (op.RaceAt == -1 && streamReq) {
		*done = true
		cl.w.s.Probe("mix_raced_server_action")
		cl.mixSrv(w3COp{K: "srv", Act: op.Act, Ch: op.Ch, Us: op.Us})
	}
}

// mixMapReq sends one request of the map subscribe flow. Returns false when the flow cannot
// continue (live, failed, connection closed).
func (cl *w3Cl) mixMapReq(op w3COp, n int, raced *bool) bool {
	w, s := cl.w, cl.w.s
	if !cl.mixEnsure() || cl.mx.phase == 3 {
		return false
	}
	limit := op.Limit
	if limit <= 0 {
		limit = 1
	}
	req := &protocol.SubscribeRequest{Channel: w3Channel, Type: int32(SubscriptionTypeMap), Limit: int32(limit)}
	first := cl.mx.phase == 0
	switch cl.mx.phase {
	case 0:
		req.Phase = MapPhaseState
	case 1:
		req.Phase = MapPhaseState
		req.Cursor, req.Offset, req.Epoch = cl.mx.cursor, cl.mx.offset, cl.mx.epoch
	case 2:
		req.Phase = MapPhaseStream
		req.Offset, req.Epoch = cl.mx.offset, cl.mx.epoch
	}
	n0, wl := cl.mixHeld()
	ep0, quiet0 := cl.mixQuiet()
	ue0 := cl.mx.unsubEpoch
	if first {
		cl.mixNoteAttempt(n0, wl)
	}
	cl.delay(op, n-1)
	cl.mx.firstInFlight = first
	cl.mixRace(op, n, cl.mx.phase == 2, raced)
	if first && cl.mx.srvSubM > 0 {
		cl.mx.racedFirst, w.mix.racedFirst = true, true
		s.Probe("mix_server_subscribe_overlaps_first_map_request")
	}
	rep := cl.roundTrip(&protocol.Command{Id: cl.id(), Subscribe: req})
	cl.mx.firstInFlight = false
	if rep == nil {
		if !cl.connClosed {
			s.Violate(w.prop, "no-reply", "map subscribe request never answered (mix scenario)", "client %d: map request (phase %d) not answered within 20 s, connection open", cl.idx, cl.mx.phase)
		}
		cl.mixFlowReset()
		return false
	}
	if rep.Error != nil || rep.Subscribe == nil {
		s.Probe("mix_map_error_" + strconv.Itoa(int(w3ErrCode(rep))))
		cl.mixFlowReset()
		cl.mixSample("after a failed map subscribe request")
		return false
	}
	r := rep.Subscribe
	if first {
		cl.mixAccepted("first map subscribe request of "+w3Channel, n0, wl, ep0, quiet0)
	}
	s.Probe("mix_map_reply_phase_" + strconv.Itoa(int(r.Phase)))
	cont := true
	switch r.Phase {
	case MapPhaseLive:
		cl.mx.phase, cl.mx.loading, cl.mx.cursor = 3, false, ""
		cont = false
	case MapPhaseState:
		if first {
			cl.mx.offset, cl.mx.epoch = r.Offset, r.Epoch
		}
		cl.mx.cursor = r.Cursor
		cl.mx.phase = 1
		if r.Cursor == "" {
			cl.mx.phase = 2
		}
	case MapPhaseStream:
		cl.mx.offset = r.Offset
		cl.mx.phase = 2
	}
	if cl.mx.phase != 3 {
		// the reservation existed when the server answered; only trust it when no unsubscribe
		// of m was issued or finished since the request was sent
		cl.mx.loading = cl.mx.unsubEpoch == ue0
	}
	cl.mixSample("after a map subscribe reply")
	return cont
}

func (cl *w3Cl) mixStreamSub(ch string) {
	w, s := cl.w, cl.w.s
	if !cl.mixEnsure() {
		return
	}
	n0, wl := cl.mixHeld()
	ep0, quiet0 := cl.mixQuiet()
	already := cl.client.IsSubscribed(ch)
	if !already {
		cl.mixNoteAttempt(n0, wl)
	}
	if cl.mx.loading {
		s.Probe("mix_stream_subscribe_while_map_loading")
	}
	rep := cl.roundTrip(&protocol.Command{Id: cl.id(), Subscribe: &protocol.SubscribeRequest{Channel: ch}})
	if rep == nil {
		if !cl.connClosed {
			s.Violate(w.prop, "no-reply", "stream subscribe request never answered (mix scenario)", "client %d: subscribe %s not answered within 20 s, connection open", cl.idx, ch)
		}
		return
	}
	code := w3ErrCode(rep)
	s.Probe("mix_stream_subscribe_reply_" + strconv.Itoa(int(code)))
	if code == 0 && !already {
		cl.mixAccepted("stream subscribe of "+ch, n0, wl, ep0, quiet0)
	}
	cl.mixSample("after a stream subscribe reply")
}

func (cl *w3Cl) mixUnsub(ch string) {
	if !cl.mixEnsure() {
		return
	}
	if ch == w3Channel {
		cl.mx.unsubEpoch++
		cl.mx.loading = false
	}
	rep := cl.roundTrip(&protocol.Command{Id: cl.id(), Unsubscribe: &protocol.UnsubscribeRequest{Channel: ch}})
	if ch == w3Channel {
		cl.mx.unsubEpoch++
		cl.mx.loading = false
		if rep != nil && rep.Error == nil {
			cl.mixFlowReset()
		}
	}
	cl.w.s.Probe("mix_client_unsubscribe")
	cl.mixSample("after an unsubscribe reply")
}

// ---------------------------------------------------------------- server side

// mixSrv performs a server-side subscribe / unsubscribe that targets this client's
// connection (csub / cunsub) or all connections of its user (nsub / nunsub).
func (cl *w3Cl) mixSrv(op w3COp) {
	w, s := cl.w, cl.w.s
	if !cl.mixEnsure() {
		return
	}
	client, user := cl.client, cl.userName()
	var targets []*w3Cl
	for _, o := range w.clients {
		if o == cl || ((op.Act == "nsub" || op.Act == "nunsub") && o.userName() == user) {
			targets = append(targets, o)
		}
	}
	unsub := op.Act == "nunsub" || op.Act == "cunsub"
	subM := !unsub && op.Ch == w3Channel
	begin := func() {
		for _, o := range targets {
			if subM {
				o.mx.srvSubM++
				if o.mx.firstInFlight {
					o.mx.racedFirst, w.mix.racedFirst = true, true
					s.Probe("mix_server_subscribe_overlaps_first_map_request")
				}
			}
			o.mx.busy++
			o.mx.srvEpoch++
			if unsub && op.Ch == w3Channel {
				o.mx.unsubEpoch++
				o.mx.loading = false
			}
		}
	}
	end := func() {
		for _, o := range targets {
			if subM {
				o.mx.srvSubM--
			}
			o.mx.busy--
			o.mx.srvEpoch++
			if unsub && op.Ch == w3Channel {
				o.mx.unsubEpoch++
				o.mx.loading = false
			}
		}
	}
	do := func() {
		s.Pause()
		if !unsub {
			// where does the subscribe land? (read-only peek, for probes / nontrivial only)
			for _, o := range targets {
				if o.client == nil {
					continue
				}
				if _, ok := o.client.mapSubscribing[op.Ch]; ok {
					s.Probe("mix_server_subscribe_while_map_loading")
					w.mix.srvDuringLoad = true
				} else if o.client.IsSubscribed(op.Ch) {
					s.Probe("mix_server_subscribe_while_subscribed")
				} else {
					s.Probe("mix_server_subscribe_while_unsubscribed")
				}
			}
		}
		s.Fault("server_" + op.Act)
		var err error
		switch op.Act {
		case "nsub":
			err = w.node.Subscribe(user, op.Ch)
		case "csub":
			err = client.Subscribe(op.Ch)
		case "nunsub":
			err = w.node.Unsubscribe(user, op.Ch)
		case "cunsub":
			client.Unsubscribe(op.Ch)
		}
		s.Event("c%d server %s %s -> %v", cl.idx, op.Act, op.Ch, err)
		if err != nil {
			s.Probe("mix_server_action_error")
		}
	}
	begin()
	if op.Inline {
		do()
		end()
		return
	}
	w.mix.pending++
	d := time.Duration(op.Us) * time.Microsecond
	s.Go(func() {
		if d > 0 {
			s.Sleep(d)
		}
		do()
		end()
		w.mix.pending--
	})
}

func (cl *w3Cl) mixOp(op w3COp) {
	switch op.K {
	case "mreq":
		raced := false
		cl.mixMapReq(op, 1, &raced)
	case "mfin":
		raced := false
		for n := 1; n <= 40; n++ {
			if !cl.mixMapReq(op, n, &raced) {
				break
			}
		}
	case "ssub":
		cl.mixStreamSub(op.Ch)
	case "sunsub":
		cl.mixUnsub(op.Ch)
	case "srv":
		cl.mixSrv(op)
	}
}

// ---------------------------------------------------------------- settled point: C04 / C37

func (w *w3World) mixHubEntries(c *Client) map[string][]uint64 {
	out := map[string][]uint64{}
	for _, sh := range w.node.hub.subShards {
		sh.mu.RLock()
		for ch, subs := range sh.subs {
			for _, si := range subs {
				if si.client == c {
					out[ch] = append(out[ch], si.subGen)
				}
			}
		}
		sh.mu.RUnlock()
	}
	return out
}

type w3MixFinding struct{ clause, sig, detail string }

// mixRouting compares the node's routing table with what the connection reports.
func (w *w3World) mixRouting(cl *w3Cl) []w3MixFinding {
	var out []w3MixFinding
	c := cl.client
	ctxs := c.ChannelsWithContext()
	reported := map[string]bool{}
	for _, ch := range c.Channels() {
		reported[ch] = true
	}
	he := w.mixHubEntries(c)
	kind := func(ch string) string {
		if ch == w3Channel {
			return "map channel"
		}
		return "stream channel"
	}
	var chs []string
	for ch := range reported {
		chs = append(chs, ch)
	}
	for ch := range he {
		if !reported[ch] {
			chs = append(chs, ch)
		}
	}
	sort.Strings(chs)
	for _, ch := range chs {
		gens := he[ch]
		sfx := cl.mixSuffix(ch)
		switch {
		case reported[ch] && len(gens) == 0:
			out = append(out, w3MixFinding{"reported-without-routing", "reported subscription has no routing entry (" + kind(ch) + ", mix scenario)"+sfx,
				fmt.Sprintf("client %d reports %s subscribed (generation %d) but the node has no routing entry for it", cl.idx, ch, ctxs[ch].subGen)})
		case !reported[ch] && len(gens) > 0:
			out = append(out, w3MixFinding{"routing-without-reported", "routing entry for a channel the connection does not report (" + kind(ch) + ", mix scenario)"+sfx,
				fmt.Sprintf("client %d does not report %s subscribed but the node holds routing entries (generations %v)", cl.idx, ch, gens)})
		case len(gens) > 1:
			out = append(out, w3MixFinding{"duplicate-routing", "two routing entries (" + kind(ch) + ", mix scenario)"+sfx,
				fmt.Sprintf("client %d channel %s: routing entries with generations %v", cl.idx, ch, gens)})
		case reported[ch] && gens[0] != ctxs[ch].subGen:
			out = append(out, w3MixFinding{"routing-generation-mismatch", "routing entry of another subscription generation (" + kind(ch) + ", mix scenario)"+sfx,
				fmt.Sprintf("client %d channel %s: routing entry generation %d, reported subscription generation %d", cl.idx, ch, gens[0], ctxs[ch].subGen)})
		}
	}
	return out
}

func (w *w3World) mixLive() []*w3Cl {
	var out []*w3Cl
	for _, cl := range w.clients {
		if cl.client != nil && cl.connected && !cl.connClosed && cl.conn != nil && !cl.conn.trClosed {
			out = append(out, cl)
		}
	}
	return out
}

func (w *w3World) mixEnd(settle time.Duration) {
	s := w.s
	// all scripted client tasks finished; wait for the server-side action tasks
	for i := 0; w.mix.pending > 0 && i < 40; i++ {
		s.Sleep(500 * time.Millisecond)
	}
	if w.mix.pending > 0 {
		s.Violate(w.prop, "no-return", "server-side subscribe / unsubscribe never returned (mix scenario)", "%d server-side actions still running 20 s after the script ended", w.mix.pending)
	}
	s.Sleep(settle + 137*time.Millisecond)
	// C04 (routing table == reported subscriptions): bounded "once operations settled": look,
	// and while something differs wait another whole second, at most 8 of them
	var findings []w3MixFinding
	for i := 0; ; i++ {
		findings = nil
		for _, cl := range w.mixLive() {
			findings = append(findings, w.mixRouting(cl)...)
		}
		if len(findings) == 0 || i >= 8 {
			break
		}
		s.Probe("c04_waited_for_settling")
		s.Sleep(time.Second)
	}
	for _, f := range findings {
		s.Violate("C04", f.clause, f.sig, "%s (still so 8 s after the settle time)", f.detail)
	}
	for _, cl := range w.mixLive() {
		s.Probe("c04_routing_compared")
		cl.mixSample("settled")
	}
	// marker publications: delivered exactly to the connections that report the channel
	ctx := context.Background()
	for _, ch := range w3MixChans {
		before := map[int]bool{}
		mark := map[int]int{}
		for _, cl := range w.mixLive() {
			before[cl.idx] = cl.client.IsSubscribed(ch)
			mark[cl.idx] = len(cl.mx.pubs[ch])
		}
		w.mix.markSeq++
		data := fmt.Sprintf(`{"marker":"%s-%d"}`, ch, w.mix.markSeq)
		var err error
		if ch == w3Channel {
			_, err = w.node.MapPublish(ctx, ch, "marker", MapPublishOptions{Data: []byte(data)})
		} else {
			_, err = w.node.Publish(ch, []byte(data))
		}
		s.Event("marker %s err=%v", ch, err)
		if err != nil {
			s.Violate(w.prop, "harness", "marker publish failed", "%s: %v", ch, err)
			continue
		}
		s.Sleep(300 * time.Millisecond)
		for _, cl := range w.mixLive() {
			sub, ok := before[cl.idx]
			if !ok || cl.client.IsSubscribed(ch) != sub {
				continue
			}
			got := 0
			for _, d := range cl.mx.pubs[ch][mark[cl.idx]:] {
				if d == data {
					got++
				}
			}
			s.Probe("c04_marker_judged")
			if sub {
				s.Probe("c04_marker_judged_subscribed")
			}
			if w.mix.srvDuringLoad && w.prop == "C04" {
				s.Probe("nontrivial:C04")
			}
			kind := "stream channel"
			if ch == w3Channel {
				kind = "map channel"
			}
			switch {
			case sub && got == 0:
				s.Violate("C04", "subscribed-not-routed", "publication not delivered to a connection that reports the channel subscribed ("+kind+", mix scenario)"+cl.mixSuffix(ch),
					"client %d reports %s subscribed but did not receive marker %s (routing entries %v)", cl.idx, ch, data, w.mixHubEntries(cl.client)[ch])
			case !sub && got > 0:
				s.Violate("C04", "routed-not-subscribed", "publication delivered to a connection that does not report the channel subscribed ("+kind+", mix scenario)"+cl.mixSuffix(ch),
					"client %d does not report %s subscribed but received marker %s", cl.idx, ch, data)
			case got > 1:
				s.Violate("C04", "delivered-twice", "publication delivered more than once ("+kind+", mix scenario)"+cl.mixSuffix(ch),
					"client %d received marker %s on %s %d times", cl.idx, data, ch, got)
			}
		}
	}
	for _, cl := range w.clients {
		cl.drop()
	}
	w.lifeCheckEnd()
	s.Sleep(500 * time.Millisecond)
	sctx, cancel := context.WithTimeout(context.Background(), 10*time.Second)
	_ = w.node.Shutdown(sctx)
	cancel()
	s.Sleep(2 * time.Second)
}

// ---------------------------------------------------------------- generator

func w3GenMix(c *simrt.Choice, prop, tier string) *w3Script {
	sc := &w3Script{}
	cfg := &sc.Cfg
	cfg.Mix = true
	cfg.Mode = []int{2, 3, 1}[c.Pick(5, 2, 3)]
	cfg.KeyTTLMs = 60000
	cfg.StreamSize = 100
	cfg.StreamTTLMs = 3600000
	cfg.MaxPage = 5
	cfg.NKeys = 1 + c.Intn(3)
	cfg.SingleFlight = c.Intn(6) == 0
	cfg.SettleMs = 3000
	for i := 0; i < cfg.NKeys; i++ {
		sc.Pre = append(sc.Pre, w3WOp{K: "pub", Key: i})
	}
	if c.Intn(4) == 0 {
		var ops []w3WOp
		k := 2 + c.Intn(5)
		for j := 0; j < k; j++ {
			if c.Intn(2) == 0 {
				ops = append(ops, w3WOp{K: "sleep", Us: []int{50, 400, 3000, 200000}[c.Intn(4)]})
			}
			ops = append(ops, w3WOp{K: "pub", Key: c.Intn(cfg.NKeys)})
		}
		sc.Writers = append(sc.Writers, ops)
	}
	limitFlavour := prop == "C37"
	if limitFlavour {
		cfg.ChanLimit = 1 + c.Intn(3)
	}
	maxOps := 6
	if tier == "thorough" {
		maxOps = 10
	}
	delays := func() []int {
		return []int{[]int{0, 0, 100, 5000}[c.Intn(4)], []int{0, 50, 400, 300000}[c.Intn(4)]}
	}
	plain := []string{"s1", "s2", "s3"}
	ncl := 1 + c.Intn(2)
	share := ncl == 2 && c.Intn(3) == 0
	for i := 0; i < ncl; i++ {
		cl := w3Client{Proto: []string{"json", "protobuf"}[c.Intn(2)]}
		if share {
			cl.User = 1
		}
		limit := 1 + c.Intn(2)
		// number of requests a quiet flow needs: state pages (+ the stream request that goes live)
		pages := (cfg.NKeys + limit - 1) / limit
		if cfg.Mode != 1 {
			pages++
		}
		srvOp := func(subscribeOnly bool) w3COp {
			op := w3COp{K: "srv"}
			if subscribeOnly || c.Intn(3) != 0 {
				op.Act = []string{"csub", "nsub"}[c.Intn(2)]
			} else {
				op.Act = []string{"cunsub", "nunsub"}[c.Intn(2)]
			}
			op.Ch = []string{w3Channel, w3Channel, "s1", "s2"}[c.Intn(4)]
			if limitFlavour {
				// server-side subscriptions stay on a channel of their own, so that "client-side
				// subscriptions held" is well defined
				op.Ch = w3MixServerOnly
			}
			op.Us = []int{0, 0, 30, 2000, 400000}[c.Intn(5)]
			op.Inline = c.Intn(4) == 0
			return op
		}
		raceOn := func(op w3COp, n int) w3COp {
			r := srvOp(true)
			if !limitFlavour {
				r.Ch = w3Channel
			}
			op.Act, op.Ch, op.Us = r.Act, r.Ch, []int{0, 0, 0, 30}[c.Intn(4)]
			op.RaceAt = n
			return op
		}
		if limitFlavour {
			// fill some slots first, start the map subscribe, then try more stream subscribes
			// than the limit admits while it is loading, finish, try again
			pre := c.Intn(cfg.ChanLimit + 1)
			for j := 0; j < pre; j++ {
				cl.Ops = append(cl.Ops, w3COp{K: "ssub", Ch: plain[j%3]})
			}
			cl.Ops = append(cl.Ops, w3COp{K: "mreq", Limit: limit, Delays: delays()})
			k := 1 + c.Intn(maxOps)
			for j := 0; j < k; j++ {
				switch c.Pick(6, 2, 2, 1, 1) {
				case 0:
					cl.Ops = append(cl.Ops, w3COp{K: "ssub", Ch: plain[c.Intn(3)]})
				case 1:
					cl.Ops = append(cl.Ops, w3COp{K: "sunsub", Ch: w3MixChans[c.Intn(4)]})
				case 2:
					cl.Ops = append(cl.Ops, w3COp{K: "mreq", Limit: limit, Delays: delays()})
				case 3:
					cl.Ops = append(cl.Ops, srvOp(false))
				case 4:
					cl.Ops = append(cl.Ops, w3COp{K: "sleep", Us: []int{100, 3000, 200000, 1100000}[c.Intn(4)]})
				}
			}
			cl.Ops = append(cl.Ops, w3COp{K: "mfin", Limit: limit, Delays: delays()})
			k = c.Intn(3)
			for j := 0; j < k; j++ {
				cl.Ops = append(cl.Ops, w3COp{K: "ssub", Ch: plain[c.Intn(3)]})
			}
			sc.Clients = append(sc.Clients, cl)
			continue
		}
		// C04 flavour
		k := c.Intn(3)
		for j := 0; j < k; j++ {
			switch c.Intn(3) {
			case 0:
				cl.Ops = append(cl.Ops, w3COp{K: "ssub", Ch: plain[c.Intn(2)]})
			case 1:
				cl.Ops = append(cl.Ops, srvOp(false))
			case 2:
				cl.Ops = append(cl.Ops, w3COp{K: "sleep", Us: []int{100, 3000, 200000}[c.Intn(3)]})
			}
		}
		rounds := 1 + c.Intn(2)
		for r := 0; r < rounds; r++ {
			// the map flow, request by request, with other operations in between
			nreq := c.Intn(pages + 1)
			racePlaced := false
			for j := 0; j < nreq; j++ {
				op := w3COp{K: "mreq", Limit: limit, Delays: delays()}
				if !racePlaced && c.Intn(3) == 0 {
					op = raceOn(op, 1)
					racePlaced = true
				}
				cl.Ops = append(cl.Ops, op)
				switch c.Pick(3, 2, 3, 1, 1) {
				case 1:
					cl.Ops = append(cl.Ops, w3COp{K: "ssub", Ch: []string{"s1", "s2", w3Channel}[c.Pick(3, 3, 1)]})
				case 2:
					cl.Ops = append(cl.Ops, srvOp(false))
				case 3:
					cl.Ops = append(cl.Ops, w3COp{K: "sunsub", Ch: w3MixChans[c.Intn(3)]})
				case 4:
					cl.Ops = append(cl.Ops, w3COp{K: "sleep", Us: []int{100, 3000, 200000}[c.Intn(3)]})
				}
			}
			fin := w3COp{K: "mfin", Limit: limit, Delays: delays()}
			if c.Intn(4) != 0 {
				// a server-side subscribe of m racing the request that (probably) takes the
				// subscription live: the remaining requests of a quiet flow, give or take one
				at := pages - nreq + c.Intn(3) - 1
				if cfg.Mode != 1 && c.Intn(2) == 0 {
					at = -1
				}
				if at == 0 || at < -1 {
					at = 1
				}
				fin = raceOn(fin, at)
			}
			cl.Ops = append(cl.Ops, fin)
			k = c.Intn(maxOps - 2)
			for j := 0; j < k; j++ {
				switch c.Pick(3, 3, 2, 2) {
				case 0:
					cl.Ops = append(cl.Ops, srvOp(false))
				case 1:
					cl.Ops = append(cl.Ops, w3COp{K: "ssub", Ch: plain[c.Intn(2)]})
				case 2:
					cl.Ops = append(cl.Ops, w3COp{K: "sunsub", Ch: w3MixChans[c.Intn(3)]})
				case 3:
					cl.Ops = append(cl.Ops, w3COp{K: "sleep", Us: []int{100, 3000, 200000, 1100000}[c.Intn(4)]})
				}
			}
		}
		sc.Clients = append(sc.Clients, cl)
	}
	return sc
}

// w3MixShrinks: smaller variants of the mix parts of a script (dropping ops, clients,
// writers, delays and the raced action is done by the generic W3 shrinks).
func w3MixShrinks(sc *w3Script, clone func() *w3Script) []any {
	var out []any
	if !sc.Cfg.Mix {
		return nil
	}
	for i := range sc.Clients {
		if len(sc.Clients[i].Ops) > 1 {
			c := clone()
			c.Clients[i].Ops = c.Clients[i].Ops[1:]
			out = append(out, c)
		}
		if sc.Clients[i].User != 0 {
			c := clone()
			c.Clients[i].User = 0
			out = append(out, c)
		}
		for j, op := range sc.Clients[i].Ops {
			if op.K == "srv" && !op.Inline {
				c := clone()
				c.Clients[i].Ops[j].Inline = true
				out = append(out, c)
			}
			if op.Us != 0 && op.K != "sleep" {
				c := clone()
				c.Clients[i].Ops[j].Us = 0
				out = append(out, c)
			}
			if op.RaceAt != 0 {
				c := clone()
				c.Clients[i].Ops[j].RaceAt = 0
				c.Clients[i].Ops[j].Act, c.Clients[i].Ops[j].Ch = "", ""
				out = append(out, c)
			}
		}
	}
	if sc.Cfg.Mode != 2 {
		c := clone()
		c.Cfg.Mode = 2
		out = append(out, c)
	}
	if sc.Cfg.NKeys > 1 && len(sc.Pre) > 0 {
		c := clone()
		c.Cfg.NKeys--
		c.Pre = c.Pre[:len(c.Pre)-1]
		out = append(out, c)
	}
	return out
}
