//go:build verif

package centrifuge

// W4: the shared-poll world. One real Node with Config.SharedPoll set, a simulated
// backend (OnSharedPoll handler with its own key -> (epoch, version, data) store that
// answers polls late, with errors, with a snapshot taken at the start or at the end of
// the call), backend-writer tasks that bump keys and call SharedPollNotify /
// SharedPollPublish, admin tasks that revoke keys / unsubscribe / disconnect, and 1..3
// simulated clients that speak the real client protocol (subscribe type=shared poll,
// sub_refresh track/untrack, unsubscribe, close) through a simulated Transport.
// Decides C25 and the keyed (shared poll) part of C14. Oracles: zz_verif_w4_oracles_test.go.

import (
	"context"
	"encoding/json"
	"errors"
	"fmt"
	"io"
	"runtime"
	"strconv"
	"strings"
	"time"

	simrt "github.com/centrifugal/centrifuge/internal/simrt"
	simsync "github.com/centrifugal/centrifuge/internal/simrt/simsync"
	"github.com/centrifugal/protocol"
	"github.com/prometheus/client_golang/prometheus"
)

const w4Channel = "sp:data"

// ---------------------------------------------------------------- script

type w4Cfg struct {
	Versioned         bool   `json:"versioned"`
	KeepLatest        bool   `json:"keep_latest"`
	RefreshMs         int    `json:"refresh_ms"`
	BatchSize         int    `json:"batch_size"`
	ShutdownMs        int    `json:"shutdown_ms"` // -1 immediate, 0 default (1s)
	NotifBatchSize    int    `json:"notif_batch_size"`
	NotifBatchDelayMs int    `json:"notif_batch_delay_ms"`
	PublishEnabled    bool   `json:"publish_enabled"`
	CallTimeoutMs     int    `json:"call_timeout_ms"`
	PrevData          bool   `json:"prev_data"`      // versioned, !KeepLatest: backend supplies PrevData
	Epoch0            string `json:"epoch0"`         // backend/publisher epoch at start ("" = no epoch logic)
	RespectCtx        bool   `json:"respect_ctx"`    // backend returns ctx.Err() when the call context ended
	SkipUnchanged     bool   `json:"skip_unchanged"` // versioned backend omits items that are not newer than requested
	// C05 mode (zz_verif_w4_c05_test.go): connections are closed at arbitrary points of keyed
	// tracking and the node must keep no trace of them
	C05        bool   `json:"c05,omitempty"`
	Presence   string `json:"presence,omitempty"`    // subscribe options: e EmitPresence, M MapClientPresenceChannel, U MapUserPresenceChannel
	PresenceMs int    `json:"presence_ms,omitempty"` // ClientPresenceUpdateInterval (0 = library default)
	QueueMax   int    `json:"queue_max,omitempty"`   // ClientQueueMaxSize (slow consumer when a stalled transport lets the queue grow)
	// OnCommandProcessed handler (documented tracing hook, called after the reply of a command
	// was queued) takes this much virtual time for subscribe / sub_refresh commands
	ProcDelayUs int `json:"proc_delay_us,omitempty"`
}

type w4Op struct {
	K       string `json:"k"`
	Keys    []int  `json:"keys,omitempty"`
	Unt     []int  `json:"unt,omitempty"`   // inline untrack list of a track command
	DelayMs int    `json:"delay,omitempty"` // sleep / async OnTrack completion delay
	Err     bool   `json:"err,omitempty"`   // OnTrack answers with an error
	User    string `json:"user,omitempty"`
	Mode    int    `json:"mode,omitempty"` // revoke: 0 everybody, 1 users=[User], 2 excludeUsers=[User]
	N       int    `json:"n,omitempty"`    // burst: number of concurrent writers
	C       int    `json:"c,omitempty"`    // kill: index of the connection to close
	Us      int    `json:"us,omitempty"`   // kill: extra microseconds to wait before acting
}

type w4Client struct {
	Proto     string `json:"proto"`
	User      string `json:"user"`
	Delta     bool   `json:"delta"`
	AutoResub bool   `json:"auto_resub"` // resubscribe + retrack after an insufficient-state unsubscribe
	Ops       []w4Op `json:"ops"`
}

type w4Poll struct {
	DelayMs int  `json:"delay"`
	Err     bool `json:"err,omitempty"`
	SnapEnd bool `json:"snap_end,omitempty"` // answer reflects the store when the call completes (else when it began)
}

type w4Script struct {
	Cfg     w4Cfg      `json:"cfg"`
	NKeys   int        `json:"nkeys"`
	Clients []w4Client `json:"clients"`
	Backend [][]w4Op   `json:"backend"`
	Admins  [][]w4Op   `json:"admins"`
	Polls   []w4Poll   `json:"polls"`
}

func w4Key(i int) string { return "k" + strconv.Itoa(i) }

// ---------------------------------------------------------------- ground truth (backend store)

type w4Rec struct {
	key   string
	epoch string
	ver   uint64 // backend version (versioned mode: also the wire version)
	gen   int    // global creation order
	data  []byte
	seq   int64
}

type w4KeyStore struct {
	cur     *w4Rec
	removed bool
	hist    []*w4Rec
}

type w4Store struct {
	epoch string
	keys  map[string]*w4KeyStore
	truth map[string]*w4Rec // data -> record (every payload is unique)
	gen   int
}

const w4Pad = "0123456789abcdefghijklmnopqrstuvwxyzABCDEFGHIJKLMNOPQRSTUVWXYZ-+0123456789abcdefghijklmnopqrstuvwxyz"

func (w *w4World) bump(key string) *w4Rec {
	st := w.store
	ks := st.keys[key]
	st.gen++
	var ver uint64 = 1
	if ks.cur != nil && ks.cur.epoch == st.epoch {
		ver = ks.cur.ver + 1
	}
	data := fmt.Sprintf(`{"k":%q,"e":%q,"v":%d,"g":%d,"pad":%q,"x":"<ä&\u00fc> \\ \" \n","t":"%d%s"}`, key, st.epoch, ver, st.gen, w4Pad, st.gen*7919, w4Pad[st.gen%40:st.gen%40+20])
	rec := &w4Rec{key: key, epoch: st.epoch, ver: ver, gen: st.gen, data: []byte(data), seq: w.next()}
	ks.cur = rec
	ks.hist = append(ks.hist, rec)
	st.truth[data] = rec
	w.s.Event("store %s e=%s v=%d g=%d", key, rec.epoch, rec.ver, rec.gen)
	return rec
}

// ---------------------------------------------------------------- world state

type w4Cmd struct {
	Seq, RetSeq, ReplySeq int64
	DoneSeq               int64 // when the server finished handling the command (0: not yet)
	ID                    uint32
	Kind                  string // connect subscribe unsubscribe track untrack
	Keys                  []string
	Claimed               map[string]uint64
	Unt                   []string
	Session               int
	ErrCode               uint32
	Replied               bool
	Overlaps              map[string]int // per key: ks.overlaps when the command was sent alone (-1 otherwise)
	Async                 bool           // the handler answers from another goroutine (C05 mode bookkeeping)
	ServerDone            bool           // the server finished handling the command (HandleCommand returned / asynchronous completion returned)
	Fail                  bool           // the handler was told to answer with an error
}

type w4KeyState struct {
	tracked         bool
	base            uint64 // version of the last update the connection received for the key
	gen             int    // backend generation of that update
	data            []byte
	dataVer         uint64 // version of the update that supplied data
	staleItem       bool   // a track reply replaced data by an item older than an update pushed before that reply
	has             bool
	pending         int    // track commands in flight that name the key
	winClaim        uint64 // lowest version claimed by the in-flight track commands
	npush           int
	trackSendSeq    int64 // send seq of the latest successfully answered track
	trackCmd        *w4Cmd // that command (its DoneSeq closes the window in which the server handled it)
	trackReplySeq   int64
	trackedAtSeq    int64 // seq since which the key is continuously tracked (client model)
	trackedAt       time.Duration
	endSeq          int64 // seq at which tracking ended last (untrack sent, removal ...)
	untrackSent     bool  // an untrack naming the key was sent and not yet answered
	untrackReplySeq int64
	inflight        int  // commands in flight that name the key (track, inline untrack, untrack)
	overlaps        int  // how often a command naming the key was sent while another one was in flight
	ambig           bool // commands naming the key overlapped: the order of their effects is unknown to the client
	endWhy          string
	broken          bool // a delta could not be applied: the held data is not what the server assumes
	resumed         bool // data and version taken over from the previous connection of this SDK instance
	resumedClaim    bool // ... and reported in the track of this connection
}

type w4Revoke struct {
	Seq, RetSeq int64
	RetAt       time.Duration
	Keys        []string
	Mode        int
	User        string
}

func (r *w4Revoke) affects(user string) bool {
	switch r.Mode {
	case 1:
		return user == r.User
	case 2:
		return user != r.User
	}
	return true
}

type w4Provided struct {
	Seq int64
	Key string
}

type w4Flip struct {
	Seq      int64
	At       time.Duration
	Tracking map[int]bool // connections that tracked at least one key at the flip (client model)
}

type w4Conn struct {
	w       *w4World
	idx     int
	spec    w4Client
	proto   ProtocolType
	tr      *w4Transport
	client  *Client
	closeFn ClientCloseFunc
	cmdMu   simsync.Mutex

	nextID     uint32
	cmds       map[uint32]*w4Cmd
	connected  bool
	readerDone bool
	closedSeq  int64
	closeCode  uint32

	session    int // subscription sessions seen (subscribe replies)
	subscribed bool
	subDelta   bool
	subEpoch   string
	subSeq     int64
	keys       map[string]*w4KeyState
	wantKeys   map[string]bool // keys the user of the SDK wants tracked (for auto resubscribe)

	unsubs        []w4Unsub // unsubscribe pushes seen
	lastExcuseSeq int64     // latest event that ends tracking for a reason other than an epoch change
	resubbing     bool
	resubs        int
	endWhy        string

	// C05 mode
	closedAt      time.Duration
	closeReason   string
	closedByEnd   bool                // closed by the harness after the scripted activity ended
	named         map[string]*w4Named // keys this connection ever named in a track command
	subsSent      int
	atClose       []string // kinds of the commands the server had not finished handling when the transport was closed
	atCloseCmds   []*w4Cmd
	pendingJoinAt bool // some key of the channel had a hub-join reservation pending at the close
	overlapEver   bool
	subRaced      bool // the handling of a subscribe command completed after the connection was closed / the channel unsubscribed
}

// w4Named: what a connection did with one key over its whole life (C05 attribution)
type w4Named struct {
	tracks     int
	overlapped bool // commands naming the key overlapped in flight at some point
	raced      bool // the handling of a track naming the key completed after the connection was closed / the channel unsubscribed
	// a command naming the key was sent while the server had not finished handling an earlier
	// one naming it although that one's reply had already been received (the track reply is
	// written before the hub join)
	serverOverlap bool
	revoked       bool // a revoke of the key that affects the connection ran while a track command naming it was being handled
}

type w4Unsub struct {
	Seq  int64
	Code uint32
	At   time.Duration
}

type w4World struct {
	s     *simrt.Sim
	sc    *w4Script
	prop  string
	node  *Node
	seq   int64
	conns []*w4Conn
	store *w4Store

	traffic   bool
	quiesceAt time.Duration
	stable    time.Duration // how long a key must have been tracked for the convergence check
	pollCalls int
	provided  []w4Provided // poll answers / publishes handed to the node (seq when the call returned)
	revokes   []*w4Revoke
	flips     []w4Flip
	keyNames  []string

	// C05 mode
	reg           *prometheus.Registry
	pendingAsync  int // asynchronous OnSubscribe / OnTrack completions outstanding
	pollsInFlight int
	revokesInCall int
	shutdownDone  bool
	bdelSeen      bool
	bdelKeys      map[string]bool // keys the backend removed at some point of the run
	base          w4Gauges // gauges before the first connection was created
}

func (w *w4World) next() int64 { w.seq++; return w.seq }

// ---------------------------------------------------------------- transport

type w4Transport struct {
	w      *w4World
	cl     *w4Conn
	proto  ProtocolType
	closed bool
	// C05 mode faults
	failWrites bool // every write fails (peer reset)
	stalled    bool // the peer stopped reading: writes block until the 1 s write timeout fails them
}

func (t *w4Transport) Name() string                     { return "sim" }
func (t *w4Transport) AcceptProtocol() string           { return "" }
func (t *w4Transport) Protocol() ProtocolType           { return t.proto }
func (t *w4Transport) ProtocolVersion() ProtocolVersion { return ProtocolVersion2 }
func (t *w4Transport) Unidirectional() bool             { return false }
func (t *w4Transport) Emulation() bool                  { return false }
func (t *w4Transport) DisabledPushFlags() uint64        { return PushFlagDisconnect }
func (t *w4Transport) PingPongConfig() PingPongConfig {
	return PingPongConfig{PingInterval: 10 * time.Minute, PongTimeout: 3 * time.Minute}
}

func (t *w4Transport) Write(data []byte) error { return t.WriteMany(data) }

func (t *w4Transport) WriteMany(datas ...[]byte) error {
	if t.closed || t.failWrites {
		return io.ErrClosedPipe
	}
	if t.stalled {
		for i := 0; t.stalled && !t.closed && i < 10; i++ {
			t.w.s.Sleep(100 * time.Millisecond)
		}
		if t.stalled {
			return errors.New("sim write timeout")
		}
		if t.closed {
			return io.ErrClosedPipe
		}
	}
	for _, data := range datas {
		t.cl.onData(data)
	}
	return nil
}

func (t *w4Transport) Close(d Disconnect) error {
	if t.closed {
		return nil
	}
	t.closed = true
	t.cl.closedSeq = t.w.next()
	t.cl.closeCode = d.Code
	t.cl.closedAt, t.cl.closeReason = t.w.s.Now(), d.Reason
	if t.w.sc.Cfg.C05 {
		t.cl.c05OnClose()
	}
	t.cl.endWhy = "transport close"
	t.cl.endTrackingAll(t.cl.closedSeq, t.cl.endWhy)
	t.cl.subscribed = false
	t.w.s.Event("c%d transport close code=%d", t.cl.idx, d.Code)
	return nil
}

// ---------------------------------------------------------------- frame decoding

func (cl *w4Conn) onData(data []byte) {
	rep := &protocol.Reply{}
	var err error
	if cl.proto == ProtocolTypeJSON {
		err = json.Unmarshal(data, rep)
	} else {
		err = rep.UnmarshalVT(data)
	}
	if err != nil {
		cl.w.s.Violate(cl.w.prop, "undecodable-frame", "frame not decodable", "client %d: cannot decode frame %q: %v", cl.idx, string(data), err)
		return
	}
	cl.onReply(rep)
}

// payload returns the application payload carried by a publication of this
// connection: on a JSON connection with negotiated delta the payload (full data or
// patch) travels as a JSON string.
func (cl *w4Conn) payload(pub *protocol.Publication) ([]byte, error) {
	if cl.subDelta && cl.proto == ProtocolTypeJSON {
		var s string
		if err := json.Unmarshal(pub.Data, &s); err != nil {
			return nil, fmt.Errorf("delta subscription over JSON: data is not a JSON string: %v", err)
		}
		return []byte(s), nil
	}
	return pub.Data, nil
}

func (cl *w4Conn) onReply(rep *protocol.Reply) {
	w := cl.w
	seq := w.next()
	if cl.closedSeq != 0 {
		w.s.Violate(w.prop, "frame-after-close", "frame written after transport close", "client %d: frame after close", cl.idx)
		return
	}
	switch {
	case rep.Push != nil:
		p := rep.Push
		switch {
		case p.Pub != nil:
			w.s.Event("c%d push pub ch=%s key=%s v=%d delta=%v removed=%v n=%d", cl.idx, p.Channel, p.Pub.Key, p.Pub.Version, p.Pub.Delta, p.Pub.Removed, len(p.Pub.Data))
			cl.onPub(seq, p.Channel, p.Pub)
		case p.Unsubscribe != nil:
			w.s.Event("c%d push unsub ch=%s code=%d", cl.idx, p.Channel, p.Unsubscribe.Code)
			cl.onUnsubPush(seq, p.Channel, p.Unsubscribe.Code)
		default:
			w.s.Event("c%d push other", cl.idx)
		}
	case rep.Id == 0 && rep.Error == nil:
		w.s.Event("c%d ping", cl.idx)
	default:
		cmd := cl.cmds[rep.Id]
		if cmd == nil {
			w.s.Violate(w.prop, "harness", "reply to unknown command", "client %d: reply id %d", cl.idx, rep.Id)
			return
		}
		cmd.Replied = true
		cmd.ReplySeq = seq
		if rep.Error != nil {
			cmd.ErrCode = rep.Error.Code
		}
		w.s.Event("c%d reply %s id=%d err=%d", cl.idx, cmd.Kind, rep.Id, cmd.ErrCode)
		cl.onCmdReply(seq, cmd, rep)
	}
}

// ---------------------------------------------------------------- sending commands

func (cl *w4Conn) id() uint32 { cl.nextID++; return cl.nextID }

// send hands one command to the real client like a transport read loop does. prep
// runs under the command lock right before HandleCommand (it fills in versions from
// the SDK-side state at that moment).
func (cl *w4Conn) send(kind string, build func(rec *w4Cmd) *protocol.Command) bool {
	ok, rec := cl.send2(kind, build)
	if ok && rec != nil && (kind == "connect" || kind == "subscribe") {
		// an SDK waits for these replies before it goes on
		for i := 0; i < 400 && !rec.Replied && !cl.tr.closed; i++ {
			cl.w.s.Sleep(50 * time.Microsecond)
		}
	}
	return ok
}

func (cl *w4Conn) send2(kind string, build func(rec *w4Cmd) *protocol.Command) (bool, *w4Cmd) {
	w := cl.w
	cl.cmdMu.Lock()
	defer cl.cmdMu.Unlock()
	if cl.readerDone || cl.tr.closed {
		return false, nil
	}
	if cl.client == nil {
		if w.shutdownDone {
			return false, nil
		}
		c, closeFn, err := NewClient(context.Background(), w.node, cl.tr)
		if err != nil {
			panic(err)
		}
		cl.client, cl.closeFn = c, closeFn
	}
	rec := &w4Cmd{Kind: kind, Session: cl.session}
	cmd := build(rec)
	if cmd == nil {
		return true, nil
	}
	rec.ID = cmd.Id
	rec.Seq = w.next()
	cl.cmds[rec.ID] = rec
	if kind == "track" || kind == "untrack" {
		rec.Overlaps = map[string]int{}
		for _, k := range append(append([]string(nil), rec.Keys...), rec.Unt...) {
			if _, dup := rec.Overlaps[k]; dup {
				continue
			}
			if w.sc.Cfg.C05 {
				for _, other := range cl.cmds {
					if other != rec && !other.ServerDone && (other.Kind == "track" || other.Kind == "untrack") && (w4Has(other.Keys, k) || w4Has(other.Unt, k)) {
						cl.name(k).serverOverlap = true
					}
				}
			}
			ks := cl.keyState(k)
			if ks.inflight > 0 {
				ks.overlaps++
				ks.ambig = true
				rec.Overlaps[k] = -1
				w.s.Probe("commands_overlap_on_key")
				cl.name(k).overlapped = true
				cl.overlapEver = true
			} else {
				rec.Overlaps[k] = ks.overlaps
			}
			ks.inflight++
		}
	}
	w.s.Event("c%d cmd %s id=%d keys=%v unt=%v", cl.idx, kind, cmd.Id, rec.Keys, rec.Unt)
	ok := cl.client.HandleCommand(cmd, 10)
	rec.RetSeq = w.next()
	if !rec.Async {
		rec.ServerDone = true
		rec.DoneSeq = w.next()
		cl.c05Completed(rec)
	}
	if !ok {
		cl.readerDone = true
		w.s.Event("c%d reader stops", cl.idx)
		_ = cl.closeFn()
	}
	return ok, rec
}

func w4Has(xs []string, x string) bool {
	for _, v := range xs {
		if v == x {
			return true
		}
	}
	return false
}

func (cl *w4Conn) keyState(k string) *w4KeyState {
	ks := cl.keys[k]
	if ks == nil {
		ks = &w4KeyState{}
		cl.keys[k] = ks
	}
	return ks
}

func (cl *w4Conn) sendTrack(keys, unt []string, delayMs int, fail bool) bool {
	return cl.send("track", func(rec *w4Cmd) *protocol.Command {
		if !cl.subscribed {
			// an SDK only tracks on a live subscription; commands racing with a
			// server-side unsubscribe are still sent (subscribed is the SDK's view)
			return nil
		}
		rec.Keys, rec.Unt, rec.Claimed = keys, unt, map[string]uint64{}
		var items []*protocol.KeyedItem
		for _, k := range keys {
			ks := cl.keyState(k)
			var claim uint64
			if ks.tracked && !ks.untrackSent {
				claim = ks.base // refresh of a tracked key: the SDK reports what it holds
				cl.w.s.Probe("retrack_tracked_key")
			} else if ks.resumed && ks.pending == 0 && !ks.tracked {
				claim = ks.base // reconnect with unchanged epoch: the SDK reports what it holds
				ks.resumed, ks.resumedClaim = false, true
				cl.w.s.Probe("resume_claim")
			} else if ks.pending == 0 && !ks.tracked {
				// (an SDK forgets a key when untrack is called; while the untrack is
				// unanswered the harness keeps the data only to judge updates in flight)
				ks.has, ks.data, ks.base, ks.gen = false, nil, 0, 0
			}
			if ks.pending == 0 || claim < ks.winClaim {
				ks.winClaim = claim
			}
			ks.pending++
			rec.Claimed[k] = claim
			cl.name(k).tracks++
			items = append(items, &protocol.KeyedItem{Key: k, Version: claim})
			cl.wantKeys[k] = true
		}
		for _, k := range unt {
			delete(cl.wantKeys, k)
		}
		id := cl.id()
		rec.Async, rec.Fail = delayMs > 0, fail
		return &protocol.Command{Id: id, SubRefresh: &protocol.SubRefreshRequest{
			Channel: w4Channel, Type: typeTrack, Untrack: unt,
			Track: []*protocol.TrackBatch{{Items: items, Signature: fmt.Sprintf("%d:%v:%d", delayMs, fail, id)}},
		}}
	})
}

func (cl *w4Conn) sendUntrack(keys []string) bool {
	return cl.send("untrack", func(rec *w4Cmd) *protocol.Command {
		if !cl.subscribed {
			return nil
		}
		rec.Keys = keys
		for _, k := range keys {
			delete(cl.wantKeys, k)
			cl.keyState(k).untrackSent = true
		}
		cl.markOwnEnd()
		return &protocol.Command{Id: cl.id(), SubRefresh: &protocol.SubRefreshRequest{Channel: w4Channel, Type: typeUntrack, Untrack: keys}}
	})
}

func (cl *w4Conn) markOwnEnd() { cl.excuse(cl.w.seq + 1) }

func (cl *w4Conn) sendSubscribe() bool { return cl.sendSubscribeOpt(0, false) }

// sendSubscribeOpt: delayMs > 0 makes the OnSubscribe handler answer asynchronously after
// that virtual delay, fail makes it answer with an error (both travel in the token).
func (cl *w4Conn) sendSubscribeOpt(delayMs int, fail bool) bool {
	return cl.send("subscribe", func(rec *w4Cmd) *protocol.Command {
		req := &protocol.SubscribeRequest{Channel: w4Channel, Type: int32(SubscriptionTypeSharedPoll)}
		id := cl.id()
		rec.Async, rec.Fail = delayMs > 0, fail
		if delayMs > 0 || fail {
			req.Token = fmt.Sprintf("%d:%v:%d", delayMs, fail, id)
		}
		cl.subsSent++
		if cl.spec.Delta {
			req.Delta = string(DeltaTypeFossil)
		}
		return &protocol.Command{Id: id, Subscribe: req}
	})
}

func (cl *w4Conn) keysOf(idx []int) []string {
	var out []string
	for _, i := range idx {
		if i < len(cl.w.keyNames) {
			out = append(out, cl.w.keyNames[i])
		}
	}
	return out
}

// sleepUntil parks the task until the absolute virtual time ms (rendezvous point: tasks
// of different kinds that wait for the same instant become runnable together).
func (w *w4World) sleepUntil(ms int) {
	d := time.Duration(ms)*time.Millisecond - w.s.Now()
	if d > 0 {
		w.s.Sleep(d)
	} else {
		w.s.Pause()
	}
}

func (cl *w4Conn) runOp(op w4Op) bool {
	s := cl.w.s
	switch op.K {
	case "at":
		cl.w.sleepUntil(op.DelayMs)
		return true
	case "sleep":
		s.Sleep(time.Duration(op.DelayMs) * time.Millisecond)
		return true
	case "connect":
		return cl.send("connect", func(rec *w4Cmd) *protocol.Command {
			return &protocol.Command{Id: cl.id(), Connect: &protocol.ConnectRequest{Token: cl.spec.User}}
		})
	case "sub":
		return cl.sendSubscribeOpt(op.DelayMs, op.Err)
	case "stall":
		// the peer stops reading
		cl.tr.stalled = true
		s.Event("c%d transport stalls", cl.idx)
		s.Fault("transport_stall")
		return true
	case "unstall":
		cl.tr.stalled = false
		return true
	case "failw":
		cl.tr.failWrites = true
		s.Event("c%d transport fails writes", cl.idx)
		s.Fault("transport_write_error")
		return true
	case "cdisc":
		if cl.client == nil {
			return true
		}
		s.Event("c%d server-side Client.Disconnect", cl.idx)
		s.Fault("client_disconnect")
		cl.markOwnEnd()
		if op.Mode == 1 {
			cl.client.Disconnect(DisconnectServerError)
		} else {
			cl.client.Disconnect(DisconnectForceNoReconnect)
		}
		return true
	case "track":
		keys := cl.keysOf(op.Keys)
		if len(keys) == 0 {
			return true
		}
		return cl.sendTrack(keys, cl.keysOf(op.Unt), op.DelayMs, op.Err)
	case "untrack":
		keys := cl.keysOf(op.Keys)
		if len(keys) == 0 {
			return true
		}
		return cl.sendUntrack(keys)
	case "unsub":
		return cl.send("unsubscribe", func(rec *w4Cmd) *protocol.Command {
			cl.wantKeys = map[string]bool{}
			cl.markOwnEnd()
			return &protocol.Command{Id: cl.id(), Unsubscribe: &protocol.UnsubscribeRequest{Channel: w4Channel}}
		})
	case "close":
		cl.cmdMu.Lock()
		cl.readerDone = true
		cl.markOwnEnd()
		cl.cmdMu.Unlock()
		s.Event("c%d peer close", cl.idx)
		if cl.closeFn != nil {
			_ = cl.closeFn()
		}
		return false
	}
	return true
}

// resume models an SDK instance that loses its connection and reconnects: the new
// connection subscribes again and, when the subscribe reply carries the epoch the SDK
// remembers, tracks the keys it tracked before with the versions (and data) it holds;
// when the epoch differs it starts from scratch.
func (w *w4World) resume(old *w4Conn, op w4Op) *w4Conn {
	s := w.s
	type held struct {
		ver  uint64
		gen  int
		data []byte
	}
	epoch, had := old.subEpoch, old.subscribed
	snap := map[string]held{}
	var keys []string
	for _, k := range w.keyNames {
		if ks := old.keys[k]; ks != nil && ks.tracked && !ks.untrackSent && ks.pending == 0 {
			keys = append(keys, k)
			if ks.has && !ks.broken {
				snap[k] = held{ks.base, ks.gen, ks.data}
			}
		}
	}
	old.runOp(w4Op{K: "close"})
	s.Fault("reconnect")
	s.Sleep(time.Duration(op.DelayMs) * time.Millisecond)
	nc := &w4Conn{w: w, idx: len(w.conns), spec: old.spec, proto: old.proto, cmds: map[uint32]*w4Cmd{}, keys: map[string]*w4KeyState{}, wantKeys: map[string]bool{}, named: map[string]*w4Named{}}
	nc.tr = &w4Transport{w: w, cl: nc, proto: nc.proto}
	w.conns = append(w.conns, nc)
	if !nc.runOp(w4Op{K: "connect"}) || !had {
		return nc
	}
	if !nc.sendSubscribe() || !nc.subscribed {
		return nc
	}
	if nc.subEpoch == epoch {
		for k, h := range snap {
			ks := nc.keyState(k)
			ks.has, ks.data, ks.base, ks.gen, ks.resumed = true, h.data, h.ver, h.gen, true
		}
		if len(snap) > 0 {
			s.Probe("resume_same_epoch")
		}
	} else {
		s.Probe("resume_new_epoch")
	}
	if len(keys) > 0 {
		nc.sendTrack(keys, nil, 0, false)
	}
	return nc
}

// resubscribe is what an SDK does after an insufficient-state unsubscribe: subscribe
// again and track the wanted keys from scratch.
func (cl *w4Conn) resubscribe() {
	s := cl.w.s
	// reconnect-style backoff: 5ms, 10ms, ... capped at 1s
	d := 5 * time.Millisecond << uint(min(cl.resubs, 8))
	if d > time.Second {
		d = time.Second
	}
	cl.resubs++
	s.Sleep(d)
	cl.resubbing = false
	if cl.subscribed {
		return
	}
	if !cl.sendSubscribe() {
		return
	}
	s.Sleep(2 * time.Millisecond)
	var keys []string
	for _, k := range cl.w.keyNames {
		if cl.wantKeys[k] {
			keys = append(keys, k)
		}
	}
	if len(keys) > 0 && cl.subscribed {
		cl.sendTrack(keys, nil, 0, false)
	}
}

// ---------------------------------------------------------------- node setup

func (w *w4World) options() SharedPollChannelOptions {
	c := w.sc.Cfg
	o := SharedPollChannelOptions{
		RefreshInterval:           time.Duration(c.RefreshMs) * time.Millisecond,
		RefreshBatchSize:          c.BatchSize,
		KeepLatestData:            c.KeepLatest,
		CallTimeout:               time.Duration(c.CallTimeoutMs) * time.Millisecond,
		NotificationBatchMaxSize:  c.NotifBatchSize,
		NotificationBatchMaxDelay: time.Duration(c.NotifBatchDelayMs) * time.Millisecond,
		PublishEnabled:            c.PublishEnabled,
	}
	if c.Versioned {
		o.Mode = SharedPollModeVersioned
	} else {
		o.Mode = SharedPollModeVersionless
	}
	switch {
	case c.ShutdownMs < 0:
		o.ChannelShutdownDelay = -1
	default:
		o.ChannelShutdownDelay = time.Duration(c.ShutdownMs) * time.Millisecond
	}
	return o
}

func (w *w4World) setup() error {
	opts := w.options()
	w.reg = prometheus.NewRegistry()
	c5 := w.sc.Cfg
	node, err := New(Config{
		LogLevel:                     LogLevelNone,
		Metrics:                      MetricsConfig{RegistererGatherer: w.reg},
		ClientQueueMaxSize:           c5.QueueMax,
		ClientPresenceUpdateInterval: time.Duration(c5.PresenceMs) * time.Millisecond,
		Map: MapConfig{GetMapChannelOptions: func(ch string) MapChannelOptions {
			switch {
			case strings.HasPrefix(ch, "mcp:"):
				// longer than any run: a client key that survives its connection stays visible
				return MapChannelOptions{Mode: MapModeEphemeral, KeyTTL: 10 * time.Minute}
			case strings.HasPrefix(ch, "mup:"):
				// user keys are by design left to their TTL
				return MapChannelOptions{Mode: MapModeEphemeral, KeyTTL: w4UserPresenceTTL}
			}
			return MapChannelOptions{}
		}},
		SharedPoll: SharedPollConfig{
			GetSharedPollChannelOptions: func(ch string) (SharedPollChannelOptions, bool) {
				if ch == w4Channel {
					return opts, true
				}
				return SharedPollChannelOptions{}, false
			},
		},
	})
	if err != nil {
		return err
	}
	w.node = node
	if us := c5.ProcDelayUs; us > 0 {
		node.OnCommandProcessed(func(c *Client, e CommandProcessedEvent) {
			if e.Command != nil && (e.Command.SubRefresh != nil || e.Command.Subscribe != nil) {
				w.s.Probe("slow_command_processed_handler")
				w.s.Sleep(time.Duration(us) * time.Microsecond)
			}
		})
	}
	node.OnSharedPoll(w.poll)
	node.OnConnecting(func(ctx context.Context, e ConnectEvent) (ConnectReply, error) {
		return ConnectReply{Credentials: &Credentials{UserID: e.Token}}, nil
	})
	node.OnConnect(func(c *Client) {
		c.OnSubscribe(func(e SubscribeEvent, cb SubscribeCallback) {
			reply := SubscribeReply{Options: SubscribeOptions{AllowedDeltaTypes: []DeltaType{DeltaTypeFossil}}}
			for _, f := range c5.Presence {
				switch f {
				case 'e':
					reply.Options.EmitPresence = true
				case 'M':
					reply.Options.MapClientPresenceChannel = w4MapClientPresence
				case 'U':
					reply.Options.MapUserPresenceChannel = w4MapUserPresence
				}
			}
			delay, fail, id := w4ParseSig(e.Token)
			var rerr error
			if fail {
				rerr = ErrorPermissionDenied
			}
			if delay > 0 {
				w.pendingAsync++
				w.s.Go(func() {
					w.s.Sleep(time.Duration(delay) * time.Millisecond)
					w.s.Probe("async_subscribe_cb")
					cb(reply, rerr)
					w.pendingAsync--
					w4ServerDone(c, id)
				})
				return
			}
			cb(reply, rerr)
		})
		c.OnTrack(func(e TrackEvent, cb TrackCallback) {
			delay, fail, id := 0, false, uint32(0)
			if len(e.Batches) > 0 {
				delay, fail, id = w4ParseSig(e.Batches[0].Signature)
			}
			var rerr error
			if fail {
				rerr = ErrorPermissionDenied
			}
			if delay > 0 {
				w.pendingAsync++
				w.s.Go(func() {
					w.s.Sleep(time.Duration(delay) * time.Millisecond)
					w.s.Probe("async_track_cb")
					cb(TrackReply{}, rerr)
					w.pendingAsync--
					w4ServerDone(c, id)
				})
				return
			}
			cb(TrackReply{}, rerr)
		})
		c.OnUntrack(func(e UntrackEvent) {})
		c.OnUnsubscribe(func(e UnsubscribeEvent) {})
		c.OnDisconnect(func(e DisconnectEvent) {})
	})
	return node.Run()
}

// w4ParseSig decodes "delayMs:fail[:commandID]" (track batch signature / subscribe token).
func w4ParseSig(sig string) (delay int, fail bool, id uint32) {
	parts := strings.Split(sig, ":")
	if len(parts) < 2 {
		return 0, false, 0
	}
	delay, _ = strconv.Atoi(parts[0])
	fail = parts[1] == "true"
	if len(parts) > 2 {
		n, _ := strconv.Atoi(parts[2])
		id = uint32(n)
	}
	return
}

// w4ServerDone marks the command whose asynchronous handler completion just returned.
func w4ServerDone(c *Client, id uint32) {
	if tr, ok := c.Transport().(*w4Transport); ok {
		if rec := tr.cl.cmds[id]; rec != nil {
			rec.ServerDone = true
			rec.DoneSeq = tr.cl.w.next()
			tr.cl.c05Completed(rec)
		}
	}
}

// ---------------------------------------------------------------- backend actor

func (w *w4World) answer(items []SharedPollItem) ([]SharedPollRefreshItem, string) {
	cfg := w.sc.Cfg
	var out []SharedPollRefreshItem
	for _, it := range items {
		ks := w.store.keys[it.Key]
		if ks == nil || ks.cur == nil {
			continue
		}
		if ks.removed {
			out = append(out, SharedPollRefreshItem{Key: it.Key, Removed: true})
			continue
		}
		if !cfg.Versioned {
			out = append(out, SharedPollRefreshItem{Key: it.Key, Data: ks.cur.data})
			continue
		}
		if cfg.SkipUnchanged && ks.cur.ver <= it.Version {
			continue
		}
		ri := SharedPollRefreshItem{Key: it.Key, Data: ks.cur.data, Version: ks.cur.ver}
		if cfg.PrevData && it.Version > 0 && it.Version < ks.cur.ver {
			// previous data = the payload of the version the node said it has
			for _, h := range ks.hist {
				if h.epoch == ks.cur.epoch && h.ver == it.Version {
					ri.PrevData = h.data
				}
			}
		}
		out = append(out, ri)
	}
	return out, w.store.epoch
}

// w4NotifiedPoll reports whether the OnSharedPoll handler was called for a notification
// (runNotifiedRefreshCycle) rather than for the periodic refresh.
func w4NotifiedPoll() bool {
	pcs := make([]uintptr, 24)
	n := runtime.Callers(2, pcs)
	frames := runtime.CallersFrames(pcs[:n])
	for {
		f, more := frames.Next()
		if strings.HasSuffix(f.Function, "runNotifiedRefreshCycle") {
			return true
		}
		if !more {
			return false
		}
	}
}

func (w *w4World) poll(ctx context.Context, ev SharedPollEvent) (SharedPollResult, error) {
	s := w.s
	n := w.pollCalls
	w.pollCalls++
	var plan w4Poll
	if w.traffic && len(w.sc.Polls) > 0 {
		plan = w.sc.Polls[n%len(w.sc.Polls)]
	}
	if w4NotifiedPoll() {
		s.Probe("poll_notified")
	} else {
		s.Probe("poll_timer")
	}
	var keys []string
	for _, it := range ev.Items {
		keys = append(keys, fmt.Sprintf("%s@%d", it.Key, it.Version))
	}
	s.Event("poll %d begin %v", n, keys)
	s.Probe("poll")
	w.pollsInFlight++
	defer func() { w.pollsInFlight-- }()
	var items []SharedPollRefreshItem
	var ep string
	if !plan.SnapEnd {
		items, ep = w.answer(ev.Items)
	}
	if plan.DelayMs > 0 {
		s.Fault("poll_delay")
		s.Sleep(time.Duration(plan.DelayMs) * time.Millisecond)
	}
	if w.sc.Cfg.RespectCtx && ctx.Err() != nil {
		s.Fault("poll_ctx_expired")
		s.Event("poll %d ctx err", n)
		return SharedPollResult{}, ctx.Err()
	}
	if plan.Err {
		s.Fault("poll_error")
		s.Event("poll %d error", n)
		return SharedPollResult{}, errors.New("sim backend error")
	}
	if plan.SnapEnd {
		items, ep = w.answer(ev.Items)
	}
	s.Event("poll %d end n=%d epoch=%s", n, len(items), ep)
	for _, it := range items {
		w.provided = append(w.provided, w4Provided{Seq: w.next(), Key: it.Key})
	}
	return SharedPollResult{Items: items, Epoch: ep}, nil
}

func (w *w4World) bumpPublish(key string) {
	s := w.s
	rec := w.bump(key)
	s.Pause()
	err := w.node.SharedPollPublish(context.Background(), w4Channel, key, rec.ver, rec.epoch, rec.data)
	s.Event("publish %s v=%d err=%v", key, rec.ver, err)
	w.provided = append(w.provided, w4Provided{Seq: w.next(), Key: key})
	if (err != nil) == w.sc.Cfg.Versioned {
		s.Violate(w.prop, "harness", "unexpected SharedPollPublish result", "versioned=%v err=%v", w.sc.Cfg.Versioned, err)
	}
	s.Probe("publish")
}

func (w *w4World) runBackend(ops []w4Op) {
	s := w.s
	for _, op := range ops {
		if op.K == "sleep" {
			s.Sleep(time.Duration(op.DelayMs) * time.Millisecond)
			continue
		}
		if op.K == "at" {
			w.sleepUntil(op.DelayMs)
			continue
		}
		s.Pause()
		key := ""
		if len(op.Keys) > 0 && op.Keys[0] < len(w.keyNames) {
			key = w.keyNames[op.Keys[0]]
		}
		if key == "" && op.K != "flip" {
			continue
		}
		switch op.K {
		case "bump":
			w.bump(key)
		case "bumpn":
			w.bump(key)
			s.Pause()
			w.node.SharedPollNotify([]SharedPollNotificationItem{{Channel: w4Channel, Key: key}})
			s.Event("notify %s", key)
		case "notify":
			w.node.SharedPollNotify([]SharedPollNotificationItem{{Channel: w4Channel, Key: key}})
			s.Event("notify %s", key)
		case "pub":
			w.bumpPublish(key)
		case "burst":
			// several writers update the same key at the same instant: each commits to
			// the store, then publishes (versioned) or notifies (versionless)
			n := op.N
			if n < 2 {
				n = 2
			}
			bdone := make(chan struct{}, n)
			for i := 0; i < n; i++ {
				i := i
				s.Go(func() {
					defer func() { bdone <- struct{}{} }()
					if w.sc.Cfg.Versioned && (i+op.Mode)%3 != 2 {
						w.bumpPublish(key)
					} else {
						w.bump(key)
						s.Pause()
						w.node.SharedPollNotify([]SharedPollNotificationItem{{Channel: w4Channel, Key: key}})
						s.Event("notify %s", key)
					}
				})
			}
			for i := 0; i < n; i++ {
				<-bdone
			}
			s.Pause()
			s.Probe("burst")
		case "spub":
			// a publisher that lost a race republishes an older version
			ks := w.store.keys[key]
			if len(ks.hist) < 2 || !w.sc.Cfg.Versioned {
				continue
			}
			old := ks.hist[len(ks.hist)-2]
			if old.epoch != w.store.epoch {
				continue
			}
			_ = w.node.SharedPollPublish(context.Background(), w4Channel, key, old.ver, old.epoch, old.data)
			s.Event("stale publish %s v=%d", key, old.ver)
			s.Fault("stale_publish")
		case "bdel":
			w.store.keys[key].removed = true
			w.bdelSeen = true
			if w.bdelKeys == nil {
				w.bdelKeys = map[string]bool{}
			}
			w.bdelKeys[key] = true
			s.Event("backend removes %s", key)
			s.Fault("backend_removed_key")
		case "flip":
			if w.store.epoch == "" {
				continue
			}
			w.store.epoch = "e" + strconv.Itoa(len(w.flips)+2)
			fl := w4Flip{Seq: w.next(), At: s.Now(), Tracking: map[int]bool{}}
			for _, cl := range w.conns {
				if !cl.subscribed || cl.closedSeq != 0 {
					continue
				}
				for _, k := range w.keyNames {
					if ks := cl.keys[k]; ks != nil && ks.tracked && ks.pending == 0 && ks.has {
						fl.Tracking[cl.idx] = true
					}
				}
			}
			w.flips = append(w.flips, fl)
			s.Event("publisher epoch -> %s", w.store.epoch)
			s.Fault("epoch_flip")
			for _, k := range w.keyNames {
				w.bump(k)
			}
		}
	}
}

func (w *w4World) runAdmin(ops []w4Op) {
	s := w.s
	for _, op := range ops {
		if op.K == "sleep" {
			s.Sleep(time.Duration(op.DelayMs) * time.Millisecond)
			continue
		}
		if op.K == "at" {
			w.sleepUntil(op.DelayMs)
			continue
		}
		if op.K == "usleep" {
			s.Sleep(time.Duration(op.Us) * time.Microsecond)
			continue
		}
		s.Pause()
		switch op.K {
		case "revoke":
			var keys []string
			for _, i := range op.Keys {
				if i < len(w.keyNames) {
					keys = append(keys, w.keyNames[i])
				}
			}
			if len(keys) == 0 {
				continue
			}
			r := &w4Revoke{Seq: w.next(), Keys: keys, Mode: op.Mode, User: op.User}
			w.revokes = append(w.revokes, r)
			s.Event("revoke %v mode=%d user=%s", keys, op.Mode, op.User)
			s.Fault("revoke")
			var users, excl []string
			if op.Mode == 1 {
				users = []string{op.User}
			} else if op.Mode == 2 {
				excl = []string{op.User}
			}
			w.revokesInCall++
			w.node.sharedPollManager.SharedPollRevokeKeys(w4Channel, keys, users, excl)
			w.revokesInCall--
			r.RetSeq = w.next()
			r.RetAt = s.Now()
			s.Event("revoke returned")
		case "nunsub":
			s.Event("node unsubscribe %s", op.User)
			s.Fault("server_unsubscribe")
			_ = w.node.Unsubscribe(op.User, w4Channel)
		case "ndisc":
			s.Event("node disconnect %s", op.User)
			s.Fault("server_disconnect")
			_ = w.node.Disconnect(op.User)
		case "kill":
			w.kill(op)
		case "shutdown":
			s.Event("node shutdown")
			s.Fault("node_shutdown")
			w.shutdownDone = true
			ctx, cancel := context.WithTimeout(context.Background(), 30*time.Second)
			_ = w.node.Shutdown(ctx)
			cancel()
			s.Pause()
			s.Event("node shutdown returned")
		}
	}
}

// ---------------------------------------------------------------- run

func w4Run(s *simrt.Sim, script any, prop string) {
	sc := script.(*w4Script)
	w := &w4World{s: s, sc: sc, prop: prop, traffic: true}
	w.store = &w4Store{epoch: sc.Cfg.Epoch0, keys: map[string]*w4KeyStore{}, truth: map[string]*w4Rec{}}
	for i := 0; i < sc.NKeys; i++ {
		k := w4Key(i)
		w.keyNames = append(w.keyNames, k)
		w.store.keys[k] = &w4KeyStore{}
		w.bump(k)
	}
	if err := w.setup(); err != nil {
		s.Violate(prop, "harness", "node setup failed", "%v", err)
		return
	}
	if sc.Cfg.C05 {
		w.base = w.snapshotGauges()
	}
	for i, spec := range sc.Clients {
		cl := &w4Conn{w: w, idx: i, spec: spec, cmds: map[uint32]*w4Cmd{}, keys: map[string]*w4KeyState{}, wantKeys: map[string]bool{}, named: map[string]*w4Named{}}
		cl.proto = ProtocolTypeJSON
		if spec.Proto == "protobuf" {
			cl.proto = ProtocolTypeProtobuf
		}
		cl.tr = &w4Transport{w: w, cl: cl, proto: cl.proto}
		w.conns = append(w.conns, cl)
	}
	done := make(chan struct{}, 64)
	n := 0
	for _, cl := range w.conns {
		cl := cl
		n++
		s.Go(func() {
			defer func() { done <- struct{}{} }()
			cur := cl
			if !cur.runOp(w4Op{K: "connect"}) {
				return
			}
			for _, op := range cl.spec.Ops {
				if op.K == "resume" {
					if cur = w.resume(cur, op); cur == nil {
						return
					}
					continue
				}
				if !cur.runOp(op) && op.K != "sleep" && op.K != "at" {
					return
				}
			}
		})
	}
	for _, ops := range sc.Backend {
		ops := ops
		n++
		s.Go(func() { defer func() { done <- struct{}{} }(); w.runBackend(ops) })
	}
	for _, ops := range sc.Admins {
		ops := ops
		n++
		s.Go(func() { defer func() { done <- struct{}{} }(); w.runAdmin(ops) })
	}
	for i := 0; i < n; i++ {
		<-done
	}
	s.Pause()
	if sc.Cfg.C05 {
		w.c05Finish()
		return
	}
	// quiesce: the backend answers at once and without errors from now on
	w.traffic = false
	w.quiesceAt = s.Now()
	s.Event("quiesce")
	refresh := time.Duration(sc.Cfg.RefreshMs) * time.Millisecond
	w.stable = 2*refresh + 1*time.Second
	settle := 2*w.stable + time.Second
	s.Sleep(settle)
	w.checkEnd()
	for _, cl := range w.conns {
		cl.cmdMu.Lock()
		cl.readerDone = true
		cl.cmdMu.Unlock()
		if cl.closeFn != nil {
			_ = cl.closeFn()
		}
	}
	s.Sleep(200 * time.Millisecond)
	ctx, cancel := context.WithTimeout(context.Background(), 30*time.Second)
	_ = w.node.Shutdown(ctx)
	cancel()
	s.Sleep(2 * time.Second)
}

// ---------------------------------------------------------------- generator

// rendezvous instants (ms) shared by all task kinds
var w4Rendezvous = []int{10, 20, 50, 100, 200, 400}

func w4Gen(c *simrt.Choice, prop, tier string) any {
	if prop == "C05" {
		return w4GenC05(c, tier)
	}
	sc := &w4Script{}
	cfg := &sc.Cfg
	cfg.Versioned = c.Intn(3) != 0
	cfg.KeepLatest = c.Intn(2) == 0
	if prop == "C14" {
		cfg.KeepLatest = c.Intn(5) != 0
	}
	cfg.RefreshMs = []int{200, 60, 1000}[c.Intn(3)]
	cfg.BatchSize = []int{0, 1, 2}[c.Intn(3)]
	cfg.ShutdownMs = []int{0, -1, 30}[c.Intn(3)]
	if c.Intn(3) == 0 {
		cfg.NotifBatchSize = []int{0, 2}[c.Intn(2)]
		cfg.NotifBatchDelayMs = []int{20, 5}[c.Intn(2)]
	}
	cfg.PublishEnabled = c.Intn(3) == 0
	cfg.CallTimeoutMs = []int{0, 0, 40}[c.Intn(3)]
	cfg.RespectCtx = c.Intn(2) == 0
	cfg.SkipUnchanged = cfg.Versioned && c.Intn(2) == 0
	if cfg.Versioned && !cfg.KeepLatest && c.Intn(2) == 0 {
		cfg.PrevData = true
	}
	epochs := cfg.Versioned && c.Intn(4) == 0
	if epochs {
		cfg.Epoch0 = "e1"
	}
	sc.NKeys = []int{1, 1, 2, 3}[c.Intn(4)]
	if c.Intn(40) == 39 {
		return w4GenResume(c, sc)
	}
	if c.Intn(20) == 19 {
		return w4GenRevokeRace(c, sc)
	}
	pickKey := func() int { return c.Intn(sc.NKeys) }
	maxOps := 8
	if tier == "thorough" {
		maxOps = 16
	}
	ncl := 1 + c.Intn(3)
	for i := 0; i < ncl; i++ {
		cl := w4Client{Proto: []string{"json", "protobuf"}[c.Intn(2)], User: "u" + strconv.Itoa(i%2)}
		cl.Delta = c.Intn(3) != 0
		if prop == "C14" {
			cl.Delta = true
		}
		cl.AutoResub = epochs && c.Intn(4) != 0
		cl.Ops = append(cl.Ops, w4Op{K: "sub"})
		if c.Intn(4) == 0 {
			cl.Ops = append(cl.Ops, w4Op{K: "sleep", DelayMs: []int{1, 5, 30, 150}[c.Intn(4)]})
		}
		cl.Ops = append(cl.Ops, w4Op{K: "track", Keys: []int{pickKey()}})
		nops := c.Intn(maxOps)
		for j := 0; j < nops; j++ {
			var op w4Op
			switch c.Pick(6, 4, 8, 1, 1, 1) {
			case 0:
				op = w4Op{K: "track", Keys: []int{pickKey()}}
				if c.Intn(3) == 0 {
					op.Keys = append(op.Keys, pickKey())
				}
				if c.Intn(4) == 0 {
					op.DelayMs = []int{1, 10, 80}[c.Intn(3)]
				}
				if c.Intn(12) == 0 {
					op.Err = true
				}
				if c.Intn(8) == 0 {
					// signed batch replayed with keys the SDK has untracked meanwhile
					op.Unt = []int{op.Keys[c.Intn(len(op.Keys))]}
					if c.Intn(2) == 0 {
						op.Unt = []int{pickKey()}
					}
				}
			case 1:
				op = w4Op{K: "untrack", Keys: []int{pickKey()}}
			case 2:
				if c.Intn(2) == 0 {
					op = w4Op{K: "at", DelayMs: w4Rendezvous[c.Intn(len(w4Rendezvous))]}
				} else {
					op = w4Op{K: "sleep", DelayMs: []int{1, 5, 30, 150, 700}[c.Intn(5)]}
				}
			case 3:
				op = w4Op{K: "unsub"}
			case 4:
				op = w4Op{K: "sub"}
			case 5:
				switch c.Intn(3) {
				case 0:
					op = w4Op{K: "close"}
				case 1:
					op = w4Op{K: "resume", DelayMs: []int{1, 50, 1500}[c.Intn(3)]}
				default:
					op = w4Op{K: "sleep", DelayMs: 50}
				}
			}
			cl.Ops = append(cl.Ops, op)
			if op.K == "close" {
				break
			}
		}
		sc.Clients = append(sc.Clients, cl)
	}
	nb := 1 + c.Intn(2)
	for i := 0; i < nb; i++ {
		var ops []w4Op
		k := 2 + c.Intn(maxOps+4)
		for j := 0; j < k; j++ {
			switch c.Pick(4, 5, 5, 6, 1, 1, 3) {
			case 6:
				ops = append(ops, w4Op{K: "burst", Keys: []int{pickKey()}, N: 2 + c.Intn(2), Mode: c.Intn(3)})
			case 0:
				ops = append(ops, w4Op{K: "bump", Keys: []int{pickKey()}})
			case 1:
				ops = append(ops, w4Op{K: "bumpn", Keys: []int{pickKey()}})
			case 2:
				if cfg.Versioned {
					ops = append(ops, w4Op{K: "pub", Keys: []int{pickKey()}})
				} else {
					ops = append(ops, w4Op{K: "bumpn", Keys: []int{pickKey()}})
				}
			case 3:
				if c.Intn(2) == 0 {
					ops = append(ops, w4Op{K: "at", DelayMs: w4Rendezvous[c.Intn(len(w4Rendezvous))]})
				} else {
					ops = append(ops, w4Op{K: "sleep", DelayMs: []int{1, 5, 30, 150}[c.Intn(4)]})
				}
			case 4:
				ops = append(ops, w4Op{K: []string{"notify", "spub"}[c.Intn(2)], Keys: []int{pickKey()}})
			case 5:
				if epochs && c.Intn(2) == 0 {
					ops = append(ops, w4Op{K: "flip"})
				} else if c.Intn(4) == 0 {
					ops = append(ops, w4Op{K: "bdel", Keys: []int{pickKey()}})
				}
			}
		}
		sc.Backend = append(sc.Backend, ops)
	}
	if c.Intn(2) == 0 {
		var ops []w4Op
		k := 1 + c.Intn(4)
		for j := 0; j < k; j++ {
			switch c.Pick(4, 4, 1, 1) {
			case 0:
				if c.Intn(2) == 0 {
					ops = append(ops, w4Op{K: "at", DelayMs: w4Rendezvous[c.Intn(len(w4Rendezvous))]})
				} else {
					ops = append(ops, w4Op{K: "sleep", DelayMs: []int{1, 5, 30, 150}[c.Intn(4)]})
				}
			case 1:
				ops = append(ops, w4Op{K: "revoke", Keys: []int{pickKey()}, Mode: c.Intn(3), User: "u" + strconv.Itoa(c.Intn(2))})
			case 2:
				ops = append(ops, w4Op{K: "nunsub", User: "u" + strconv.Itoa(c.Intn(2))})
			case 3:
				ops = append(ops, w4Op{K: "ndisc", User: "u" + strconv.Itoa(c.Intn(2))})
			}
		}
		sc.Admins = append(sc.Admins, ops)
	}
	np := 1 + c.Intn(4)
	for i := 0; i < np; i++ {
		p := w4Poll{DelayMs: []int{0, 0, 1, 10, 60, 250}[c.Intn(6)]}
		p.SnapEnd = c.Intn(2) == 1
		p.Err = c.Intn(8) == 7
		sc.Polls = append(sc.Polls, p)
	}
	return sc
}

// w4GenResume is a scenario template: one SDK instance that loses its connection for
// longer than the channel shutdown delay and comes back, while the backend keeps changing
// the key (exercises the epoch comparison an SDK makes on reconnect).
func w4GenResume(c *simrt.Choice, sc *w4Script) any {
	cfg := &sc.Cfg
	cfg.PublishEnabled, cfg.CallTimeoutMs, cfg.NotifBatchSize, cfg.NotifBatchDelayMs = false, 0, 0, 0
	cfg.ShutdownMs = []int{30, -1, 0}[c.Intn(3)]
	cfg.RefreshMs = 200
	sc.NKeys = 1
	cl := w4Client{Proto: []string{"json", "protobuf"}[c.Intn(2)], User: "u0", Delta: c.Intn(2) == 0}
	cl.Ops = []w4Op{{K: "sub"}, {K: "track", Keys: []int{0}}, {K: "at", DelayMs: 400},
		{K: "resume", DelayMs: []int{200, 1500, 50}[c.Intn(3)]}, {K: "sleep", DelayMs: 700}}
	sc.Clients = []w4Client{cl}
	if c.Intn(2) == 0 {
		// a second connection keeps the channel state alive on another key: the
		// resuming client sees the same channel-state epoch and may keep its versions
		// although the item entry of its own key is dropped and re-created
		sc.NKeys = 2
		sc.Clients[0].Ops = append([]w4Op{{K: "at", DelayMs: 10}}, sc.Clients[0].Ops...)
		sc.Clients = append(sc.Clients, w4Client{Proto: "json", User: "u1", Ops: []w4Op{{K: "sub"}, {K: "track", Keys: []int{1}}}})
	}
	var ops []w4Op
	for _, at := range []int{20, 50, 100, 200} {
		if c.Intn(4) != 0 {
			ops = append(ops, w4Op{K: "at", DelayMs: at}, w4Op{K: "bumpn", Keys: []int{0}})
		}
	}
	ops = append(ops, w4Op{K: "at", DelayMs: []int{2200, 500, 900}[c.Intn(3)]}, w4Op{K: "bumpn", Keys: []int{0}})
	sc.Backend = [][]w4Op{ops}
	sc.Polls = nil
	return sc
}

// w4GenRevokeRace is a scenario template: SharedPollRevokeKeys for one user races with the
// track of the same key by a connection of ANOTHER user (in the window between the
// trackKeys reservation and the hub join of handleTrack); the revoked connections were the
// key's only subscribers (or there were none), then the backend keeps changing the key
// while the second connection stays tracked: it must converge (the revocation does not
// concern it). With ProcDelayUs > 0 a slow OnCommandProcessed tracing hook keeps the window
// open for that long and the admin task acts in the middle of it.
func w4GenRevokeRace(c *simrt.Choice, sc *w4Script) any {
	cfg := &sc.Cfg
	cfg.CallTimeoutMs, cfg.NotifBatchSize, cfg.NotifBatchDelayMs, cfg.Epoch0 = 0, 0, 0, ""
	cfg.ProcDelayUs = []int{200, 20, 0}[c.Intn(3)]
	sc.NKeys = 1 + c.Intn(2)
	k := c.Intn(sc.NKeys)
	t := []int{100, 50, 200}[c.Intn(3)]
	d := 0
	if c.Intn(3) == 0 {
		d = []int{1, 10}[c.Intn(2)] // asynchronous OnTrack
	}
	b := w4Client{Proto: []string{"json", "protobuf"}[c.Intn(2)], User: "u1", Delta: c.Intn(2) == 0}
	b.Ops = []w4Op{{K: "sub"}, {K: "at", DelayMs: t}, {K: "track", Keys: []int{k}, DelayMs: d}, {K: "sleep", DelayMs: 700}}
	sc.Clients = []w4Client{b}
	if c.Intn(3) != 0 {
		// the revoked user's connection is the key's only subscriber
		a := w4Client{Proto: []string{"json", "protobuf"}[c.Intn(2)], User: "u0", Delta: c.Intn(2) == 0}
		a.Ops = []w4Op{{K: "sub"}, {K: "track", Keys: []int{k}}}
		sc.Clients = append(sc.Clients, a)
	}
	adm := []w4Op{{K: "at", DelayMs: t}}
	if d > 0 {
		adm = append(adm, w4Op{K: "sleep", DelayMs: d})
	}
	if cfg.ProcDelayUs > 0 {
		adm = append(adm, w4Op{K: "usleep", Us: cfg.ProcDelayUs / 2})
	}
	if c.Intn(2) == 0 {
		adm = append(adm, w4Op{K: "revoke", Keys: []int{k}, Mode: 1, User: "u0"})
	} else {
		adm = append(adm, w4Op{K: "revoke", Keys: []int{k}, Mode: 2, User: "u1"})
	}
	sc.Admins = [][]w4Op{adm}
	var ops []w4Op
	if c.Intn(2) == 0 {
		ops = append(ops, w4Op{K: "at", DelayMs: 20}, w4Op{K: "bumpn", Keys: []int{k}})
	}
	for _, at := range []int{t + 30, t + 150, t + 400} {
		if c.Intn(4) != 0 {
			kind := "bumpn"
			if cfg.Versioned && c.Intn(2) == 0 {
				kind = "pub"
			}
			ops = append(ops, w4Op{K: "at", DelayMs: at}, w4Op{K: kind, Keys: []int{k}})
		}
	}
	ops = append(ops, w4Op{K: "at", DelayMs: t + 600}, w4Op{K: "bumpn", Keys: []int{k}})
	sc.Backend = [][]w4Op{ops}
	sc.Polls = nil
	if c.Intn(2) == 0 {
		sc.Polls = []w4Poll{{DelayMs: []int{1, 10}[c.Intn(2)]}}
	}
	return sc
}

func w4Shrinks(script any) []any {
	sc := script.(*w4Script)
	var out []any
	clone := func() *w4Script {
		b, _ := json.Marshal(sc)
		var c w4Script
		_ = json.Unmarshal(b, &c)
		return &c
	}
	for i := range sc.Admins {
		c := clone()
		c.Admins = append(c.Admins[:i], c.Admins[i+1:]...)
		out = append(out, c)
	}
	for i := range sc.Backend {
		c := clone()
		c.Backend = append(c.Backend[:i], c.Backend[i+1:]...)
		out = append(out, c)
	}
	if len(sc.Clients) > 1 {
		for i := range sc.Clients {
			c := clone()
			c.Clients = append(c.Clients[:i], c.Clients[i+1:]...)
			out = append(out, c)
		}
	}
	for i := range sc.Clients {
		for j := range sc.Clients[i].Ops {
			c := clone()
			c.Clients[i].Ops = append(c.Clients[i].Ops[:j], c.Clients[i].Ops[j+1:]...)
			out = append(out, c)
		}
	}
	for i := range sc.Backend {
		for j := range sc.Backend[i] {
			c := clone()
			c.Backend[i] = append(c.Backend[i][:j], c.Backend[i][j+1:]...)
			out = append(out, c)
		}
	}
	for i := range sc.Admins {
		for j := range sc.Admins[i] {
			c := clone()
			c.Admins[i] = append(c.Admins[i][:j], c.Admins[i][j+1:]...)
			out = append(out, c)
		}
	}
	if len(sc.Polls) > 0 {
		c := clone()
		c.Polls = nil
		out = append(out, c)
		for i := range sc.Polls {
			c := clone()
			c.Polls = append(c.Polls[:i], c.Polls[i+1:]...)
			out = append(out, c)
		}
	}
	for _, f := range []func(*w4Cfg){
		func(c *w4Cfg) { c.PublishEnabled = false },
		func(c *w4Cfg) { c.NotifBatchSize, c.NotifBatchDelayMs = 0, 0 },
		func(c *w4Cfg) { c.CallTimeoutMs = 0 },
		func(c *w4Cfg) { c.BatchSize = 0 },
		func(c *w4Cfg) { c.ShutdownMs = 0 },
		func(c *w4Cfg) { c.PrevData = false },
		func(c *w4Cfg) { c.SkipUnchanged = false },
		func(c *w4Cfg) { c.RespectCtx = false },
		func(c *w4Cfg) { c.Presence = "" },
		func(c *w4Cfg) { c.PresenceMs = 0 },
		func(c *w4Cfg) { c.QueueMax = 0 },
		func(c *w4Cfg) { c.ProcDelayUs = 0 },
		func(c *w4Cfg) {
			if c.C05 {
				c.Epoch0 = ""
			}
		},
	} {
		c := clone()
		before, _ := json.Marshal(c.Cfg)
		f(&c.Cfg)
		after, _ := json.Marshal(c.Cfg)
		if string(before) != string(after) {
			out = append(out, c)
		}
	}
	if sc.Cfg.C05 {
		// asynchronous handler completions -> synchronous
		for i := range sc.Clients {
			for j, op := range sc.Clients[i].Ops {
				if (op.K == "track" || op.K == "sub") && op.DelayMs > 0 {
					c := clone()
					c.Clients[i].Ops[j].DelayMs = 0
					out = append(out, c)
				}
			}
		}
	}
	for i := range sc.Clients {
		if sc.Clients[i].Delta {
			c := clone()
			c.Clients[i].Delta = false
			out = append(out, c)
		}
		if sc.Clients[i].Proto != "json" {
			c := clone()
			c.Clients[i].Proto = "json"
			out = append(out, c)
		}
	}
	return out
}

func init() {
	simrt.Register(&simrt.World{
		Name:      "w4",
		Gen:       w4Gen,
		NewScript: func() any { return &w4Script{} },
		Run:       w4Run,
		Shrinks:   w4Shrinks,
		Nontrivial: func(prop string, r *simrt.Result) bool {
			return r.Probes["nontrivial:"+prop] > 0
		},
	})
	simrt.Claim("C25", "w4", 10)
	simrt.Claim("C14", "w4", 5)
	simrt.Claim("C05", "w4", 4)
}
