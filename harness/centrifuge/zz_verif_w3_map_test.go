//go:build verif

package centrifuge

// W3: the map subscription world. One real Node with the real MemoryMapBroker (wrapped
// only to record the change log that the broker hands to the node and, optionally, to
// drop/delay that PUB/SUB hand-over), 1..2 writer tasks that publish / remove / clear
// keys of one map channel, keys that expire on the virtual clock, a stream that is
// trimmed (small StreamSize) or expires (small StreamTTL), and 1..2 simulated clients
// that follow the documented map subscription protocol (state pages with cursor, stream
// pages, live transition, recovery join from a saved position) through a simulated
// Transport. Every client keeps a replica (state pages + stream pages + live pushes,
// applying removals). Decides C22 and the map parts of C16 and C14.

import (
	"context"
	"encoding/json"
	"fmt"
	"io"
	"os"
	"sort"
	"strconv"
	"time"

	simrt "github.com/centrifugal/centrifuge/internal/simrt"
	"github.com/centrifugal/protocol"
	"github.com/prometheus/client_golang/prometheus"
	fdelta "github.com/shadowspore/fossil-delta"
)

const w3Channel = "m"

// ---------------------------------------------------------------- script

type w3Cfg struct {
	Mode         int  `json:"mode"`          // 1 ephemeral, 2 recoverable, 3 persistent
	Ordered      bool `json:"ordered"`       // score-ordered state
	KeyTTLMs     int  `json:"key_ttl_ms"`    // modes with expiry
	StreamSize   int  `json:"stream_size"`   // stream modes
	StreamTTLMs  int  `json:"stream_ttl_ms"` // stream modes
	MetaTTLMs    int  `json:"meta_ttl_ms"`   // 0 = auto
	LiveLimit    int  `json:"live_limit"`    // LiveTransitionMaxPublicationLimit, 0 = MaxPageSize
	MaxPage      int  `json:"max_page"`      // MaxPageSize
	NKeys        int  `json:"nkeys"`
	UseDelta     bool `json:"use_delta"` // writers publish with UseDelta, fossil allowed
	SingleFlight bool `json:"single_flight"`
	DropPm       int  `json:"pubsub_drop_pm"`  // broker->node hand-over lost (stream modes only)
	DelayPm      int  `json:"pubsub_delay_pm"` // broker->node hand-over late (stream modes only)
	SettleMs     int  `json:"settle_ms"`
	Seq          bool `json:"sequential"` // fault-free sequential sanity scenario: writers first, then clients one by one
	// lifecycle scenarios (C05 / C26, see zz_verif_w3_life_test.go)
	Life        bool `json:"life,omitempty"`
	SubFailPm   int  `json:"sub_fail_pm,omitempty"`   // MapBroker.Subscribe fails
	SubDelayPm  int  `json:"sub_delay_pm,omitempty"`  // MapBroker.Subscribe is slow (50 ms / 6.5 s)
	UnsubFailPm int  `json:"unsub_fail_pm,omitempty"` // MapBroker.Unsubscribe fails
	PresDelayPm int  `json:"pres_delay_pm,omitempty"` // presence round trip (PresenceManager / presence map channel) is slow
	TickMs      int  `json:"tick_ms,omitempty"`       // ClientPresenceUpdateInterval (0 = 1 s)
	QueueMax    int  `json:"queue_max,omitempty"`     // ClientQueueMaxSize (0 = default)
	// mixed scenarios (C04 / C37, see zz_verif_w3_mix_test.go): a loading map subscription meets
	// stream subscribes and server-side subscribes on the same connection
	Mix       bool `json:"mix,omitempty"`
	ChanLimit int  `json:"chan_limit,omitempty"` // ClientChannelLimit (0 = library default)
}

type w3WOp struct {
	K     string `json:"k"` // pub | rm | clear | sleep
	Key   int    `json:"key,omitempty"`
	Score int    `json:"score,omitempty"`
	Us    int    `json:"us,omitempty"`
}

type w3COp struct {
	K      string `json:"k"`                // sync | recover | unsub | drop | refresh | sleep
	Limit  int    `json:"limit,omitempty"`  // state page size
	SLimit int    `json:"slimit,omitempty"` // stream page size
	Delays []int  `json:"delays,omitempty"` // microseconds before request i of the flow
	Via    string `json:"via,omitempty"`    // recover: live | stream
	Keep   bool   `json:"keep,omitempty"`   // recover via stream: keep recover=true on continuation requests
	Change bool   `json:"change,omitempty"` // refresh: the server tags filter changes
	Asc    bool   `json:"asc,omitempty"`
	Us     int    `json:"us,omitempty"`
	// a write issued concurrently with request number RaceAt-1 of the flow (0 = none):
	// it becomes runnable at the instant the request is handed to the server, so the
	// scheduler can place it anywhere inside the handling of that single request
	RaceAt  int    `json:"race_at,omitempty"`
	RaceK   string `json:"race_k,omitempty"` // pub | rm | clear
	RaceKey int    `json:"race_key,omitempty"`
	// lifecycle scenarios: the connection (or its subscription) is ended by Cause
	//   op "kill": now (When 0) or when the next presence round trip of this connection starts (When 1)
	//   flow ops / unsub: KillAt = N>0: Cause becomes runnable KillUs after request N of the flow was handed to the server
	Cause  string `json:"cause,omitempty"` // peer | disc | ndisc | nunsub | cunsub | werr | slow
	When   int    `json:"when,omitempty"`
	KillAt int    `json:"kill_at,omitempty"`
	KillUs int    `json:"kill_us,omitempty"`
	// mixed scenarios: ops mreq | mfin | ssub | sunsub | srv (see zz_verif_w3_mix_test.go)
	Ch     string `json:"ch,omitempty"`     // channel of ssub / sunsub / srv
	Act    string `json:"act,omitempty"`    // srv: nsub | csub | nunsub | cunsub
	Inline bool   `json:"inline,omitempty"` // srv: performed by the client's own task (sequential) instead of a racing task
}

type w3Client struct {
	Proto   string  `json:"proto"`
	Delta   bool    `json:"delta,omitempty"`
	CF      int     `json:"cf,omitempty"` // client tags filter: 0 none, 1 g eq a, 2 g neq c
	SF      int     `json:"sf,omitempty"` // server tags filter: 0 none, 1 s eq x, 2 s eq y
	Refresh bool    `json:"refresh,omitempty"`
	Ops     []w3COp `json:"ops"`
	// lifecycle scenarios
	User int    `json:"user,omitempty"` // 0: own user "u<idx>", k>0: shared user "s<k>"
	Pres int    `json:"pres,omitempty"` // 1 EmitPresence | 2 MapClientPresenceChannel | 4 MapUserPresenceChannel
	End  string `json:"end,omitempty"`  // how the connection is ended at the end of the run (default peer)
}

type w3Script struct {
	Cfg     w3Cfg      `json:"cfg"`
	Pre     []w3WOp    `json:"pre"`
	Writers [][]w3WOp  `json:"writers"`
	Clients []w3Client `json:"clients"`
}

// StreamSize / StreamTTL 0 = not set by the application: ResolveAndValidateMapChannelOptions
// derives the defaults (100 entries, 1 minute). The oracles use the effective values.
func (c *w3Cfg) effStreamSize() int {
	if c.StreamSize == 0 {
		return 100
	}
	return c.StreamSize
}

func (c *w3Cfg) effStreamTTLMs() int {
	if c.StreamTTLMs == 0 {
		return 60000
	}
	return c.StreamTTLMs
}

func w3Key(i int) string { return "k" + strconv.Itoa(i) }

// tags are a function of the key, so that "the keys a filter admits" is well defined
func w3Tags(i int) map[string]string {
	return map[string]string{"g": string("abc"[i%3]), "s": string("xy"[(i/3)%2])}
}

func w3KeyIndex(key string) int {
	if len(key) < 2 || key[0] != 'k' {
		return -1
	}
	n, err := strconv.Atoi(key[1:])
	if err != nil {
		return -1
	}
	return n
}

// w3Admits is the harness' own evaluation of the two filters (not filter.Match).
func w3Admits(key string, cf, sf int) bool {
	i := w3KeyIndex(key)
	if i < 0 {
		return false
	}
	t := w3Tags(i)
	switch cf {
	case 1:
		if t["g"] != "a" {
			return false
		}
	case 2:
		if t["g"] == "c" {
			return false
		}
	}
	switch sf {
	case 1:
		if t["s"] != "x" {
			return false
		}
	case 2:
		if t["s"] != "y" {
			return false
		}
	}
	return true
}

func w3ClientFilter(cf int) *protocol.FilterNode {
	switch cf {
	case 1:
		return &protocol.FilterNode{Key: "g", Cmp: "eq", Val: "a"}
	case 2:
		return &protocol.FilterNode{Key: "g", Cmp: "neq", Val: "c"}
	}
	return nil
}

func w3ServerFilter(sf int) *FilterNode {
	switch sf {
	case 1:
		return &FilterNode{Key: "s", Cmp: "eq", Val: "x"}
	case 2:
		return &FilterNode{Key: "s", Cmp: "eq", Val: "y"}
	}
	return nil
}

// ---------------------------------------------------------------- world

type w3Change struct {
	Key     string
	Removed bool
	Data    string
}

type w3Ent struct {
	Data   string
	Offset uint64
}

type w3Recv struct {
	Path    string
	Epoch   string
	Offset  uint64
	Key     string
	Removed bool
	Data    string
	Delta   bool
}

type w3Flow struct {
	Kind      string // sync | recover
	Epoch     string
	From      uint64
	To        uint64
	Recovered bool
	Got       map[uint64]bool
	CF, SF    int
	Done      bool
	Oldest    uint64 // oldest stream offset still retained when the live reply was processed (top+1: nothing retained; 0: unknown)
}

type w3World struct {
	s       *simrt.Sim
	sc      *w3Script
	prop    string
	node    *Node
	broker  *w3Broker
	clients []*w3Cl
	paySeq  int
	log     map[string]map[uint64]*w3Change // epoch -> offset -> change handed to the node
	pubd    map[string]string               // payload -> key (every payload ever published)
	changes int                             // number of changes handed over so far
	rmBusy  int                             // explicit removes in flight (to tell TTL removals apart)
	life    w3Life                          // connection registry, broker subscription record, gauges (C05 / C26)
	mix     w3MixW                          // mixed scenarios (C04 / C37)
}

// w3Broker is the real MemoryMapBroker; only the event handler it calls is wrapped.
type w3Broker struct {
	*MemoryMapBroker
	w    *w3World
	node BrokerEventHandler
}

func (b *w3Broker) RegisterEventHandler(h BrokerEventHandler) error {
	b.node = h
	return b.MemoryMapBroker.RegisterEventHandler(b)
}

func (b *w3Broker) HandlePublication(ch string, pub *Publication, sp StreamPosition, delta bool, prev *Publication) error {
	w := b.w
	if ch != w3Channel {
		// presence map channels of the lifecycle scenarios: not part of the change log
		return b.node.HandlePublication(ch, pub, sp, delta, prev)
	}
	w.changes++
	if pub.Offset > 0 {
		m := w.log[sp.Epoch]
		if m == nil {
			m = map[uint64]*w3Change{}
			w.log[sp.Epoch] = m
		}
		m[pub.Offset] = &w3Change{Key: pub.Key, Removed: pub.Removed, Data: string(pub.Data)}
	}
	w.s.Event("change key=%s rm=%v off=%d", pub.Key, pub.Removed, pub.Offset)
	cfg := w.sc.Cfg
	if pub.Removed && w.rmBusy == 0 {
		w.s.Fault("key_ttl_expiry")
	}
	if cfg.Mode != 1 && pub.Offset > uint64(cfg.effStreamSize()) {
		w.s.Fault("stream_trim")
	}
	if cfg.Mode != 1 && pub.Offset > 0 {
		if w.s.Chance(cfg.DropPm) {
			w.s.Fault("pubsub_drop")
			return nil
		}
		if w.s.Chance(cfg.DelayPm) {
			w.s.Fault("pubsub_delay")
			d := time.Duration(1+w.s.Intn(40)) * time.Millisecond
			w.s.Go(func() {
				w.s.Sleep(d)
				_ = b.node.HandlePublication(ch, pub, sp, delta, prev)
			})
			return nil
		}
	}
	return b.node.HandlePublication(ch, pub, sp, delta, prev)
}
func (b *w3Broker) HandleJoin(ch string, info *ClientInfo) error { return b.node.HandleJoin(ch, info) }
func (b *w3Broker) HandleLeave(ch string, info *ClientInfo) error {
	return b.node.HandleLeave(ch, info)
}

func (w *w3World) chanOpts(ch string) MapChannelOptions {
	cfg := w.sc.Cfg
	if ch != w3Channel {
		return w3PresenceChanOpts(ch)
	}
	o := MapChannelOptions{
		Mode:                              MapMode(cfg.Mode),
		MinPageSize:                       1,
		MaxPageSize:                       cfg.MaxPage,
		DefaultPageSize:                   3,
		LiveTransitionMaxPublicationLimit: cfg.LiveLimit,
		SubscribeCatchUpTimeout:           -1,
		ordered:                           cfg.Ordered,
	}
	if o.Mode.HasExpiry() {
		o.KeyTTL = time.Duration(cfg.KeyTTLMs) * time.Millisecond
	}
	if o.Mode.HasStream() {
		o.StreamSize = cfg.StreamSize
		o.StreamTTL = time.Duration(cfg.StreamTTLMs) * time.Millisecond
		if o.Mode.HasExpiry() {
			o.MetaTTL = time.Duration(cfg.MetaTTLMs) * time.Millisecond
		}
	}
	return o
}

func (w *w3World) setup() error {
	cfg := w.sc.Cfg
	w.life.reg = prometheus.NewRegistry()
	tick := time.Second
	if cfg.TickMs > 0 {
		tick = time.Duration(cfg.TickMs) * time.Millisecond
	}
	node, err := New(Config{
		LogLevel:                        LogLevelNone,
		ClientPresenceUpdateInterval:    tick,
		ClientChannelPositionCheckDelay: time.Second,
		UseSingleFlight:                 cfg.SingleFlight,
		ClientQueueMaxSize:              cfg.QueueMax,
		ClientChannelLimit:              cfg.ChanLimit,
		Metrics:                         MetricsConfig{RegistererGatherer: w.life.reg},
		Map: MapConfig{
			GetMapChannelOptions: func(ch string) MapChannelOptions { return w.chanOpts(ch) },
		},
	})
	if err != nil {
		return err
	}
	if _, err := ResolveAndValidateMapChannelOptions(node.config.Map.GetMapChannelOptions, w3Channel); err != nil {
		return fmt.Errorf("generated channel options invalid: %w", err)
	}
	inner, err := NewMemoryMapBroker(node, MemoryMapBrokerConfig{})
	if err != nil {
		return err
	}
	w.broker = &w3Broker{MemoryMapBroker: inner, w: w}
	node.SetMapBroker(w.broker)
	w.node = node
	if cfg.Life {
		node.SetPresenceManager(&w3Presence{w: w, inner: node.presenceManager})
	}
	node.OnConnecting(func(ctx context.Context, e ConnectEvent) (ConnectReply, error) {
		return ConnectReply{Credentials: &Credentials{UserID: e.Token}, ClientSideRefresh: true}, nil
	})
	node.OnConnect(func(c *Client) {
		cl := c.Transport().(*w3Transport).cl
		c.OnSubscribe(func(e SubscribeEvent, cb SubscribeCallback) {
			if cfg.Mix && e.Type == SubscriptionTypeStream {
				// mixed scenarios: an ordinary stream subscription (default MemoryBroker)
				cb(SubscribeReply{}, nil)
				return
			}
			opts := SubscribeOptions{Type: SubscriptionTypeMap, AllowTagsFilter: true, ServerTagsFilter: w3ServerFilter(cl.curSF)}
			if cfg.UseDelta {
				opts.AllowedDeltaTypes = []DeltaType{DeltaTypeFossil}
			}
			if cl.spec.Refresh {
				opts.ExpireAt = time.Now().Unix() + 3600
			}
			if cl.spec.Pres&1 != 0 {
				opts.EmitPresence = true
			}
			if cl.spec.Pres&2 != 0 {
				opts.MapClientPresenceChannel = w3PresClients
			}
			if cl.spec.Pres&4 != 0 {
				opts.MapUserPresenceChannel = w3PresUsers
			}
			cb(SubscribeReply{Options: opts, ClientSideRefresh: cl.spec.Refresh}, nil)
		})
		c.OnSubRefresh(func(e SubRefreshEvent, cb SubRefreshCallback) {
			if e.Token == "chg" {
				cl.curSF = 3 - cl.curSF
			}
			cb(SubRefreshReply{ExpireAt: time.Now().Unix() + 3600, ServerTagsFilter: w3ServerFilter(cl.curSF)}, nil)
		})
	})
	return node.Run()
}

// ---------------------------------------------------------------- writers

func (w *w3World) payload(key string) string {
	w.paySeq++
	return fmt.Sprintf(`{"key":"%s","seq":%d,"pad":"the quick brown fox jumps over the lazy dog %04d, again and again and again"}`, key, w.paySeq, w.paySeq%7)
}

func (w *w3World) runWriter(ops []w3WOp) {
	ctx := context.Background()
	for _, op := range ops {
		switch op.K {
		case "sleep":
			w.s.Sleep(time.Duration(op.Us) * time.Microsecond)
		case "pub":
			w.s.Pause()
			key := w3Key(op.Key)
			data := w.payload(key)
			w.pubd[data] = key
			opts := MapPublishOptions{Data: []byte(data), Tags: w3Tags(op.Key), UseDelta: w.sc.Cfg.UseDelta}
			if w.sc.Cfg.Ordered {
				opts.score = int64(op.Score)
			}
			for _, cl := range w.clients {
				if (cl.live || cl.inFlow) && !w3Admits(key, cl.spec.CF, cl.curSF) {
					w.s.Probe("excluded_change_while_subscribed")
				}
			}
			res, err := w.node.MapPublish(ctx, w3Channel, key, opts)
			w.s.Event("pub %s -> off=%d sup=%v err=%v", key, res.Position.Offset, res.Suppressed, err)
			if err != nil {
				w.s.Violate(w.prop, "harness", "MapPublish failed", "MapPublish(%s): %v", key, err)
			}
		case "rm":
			w.s.Pause()
			key := w3Key(op.Key)
			w.rmBusy++
			res, err := w.node.MapRemove(ctx, w3Channel, key, MapRemoveOptions{})
			w.rmBusy--
			w.s.Event("rm %s -> off=%d sup=%v err=%v", key, res.Position.Offset, res.Suppressed, err)
		case "clear":
			w.s.Pause()
			err := w.node.MapClear(ctx, w3Channel, MapClearOptions{})
			w.s.Fault("map_clear")
			w.s.Event("clear err=%v", err)
		}
	}
}

// ---------------------------------------------------------------- transport

type w3Transport struct {
	cl         *w3Cl
	proto      ProtocolType
	closed     bool
	failWrites bool          // lifecycle: the next write fails (transport error)
	stall      time.Duration // lifecycle: every write takes this long (slow consumer)
}

func (t *w3Transport) Name() string                     { return "sim" }
func (t *w3Transport) AcceptProtocol() string           { return "" }
func (t *w3Transport) Protocol() ProtocolType           { return t.proto }
func (t *w3Transport) ProtocolVersion() ProtocolVersion { return ProtocolVersion2 }
func (t *w3Transport) Unidirectional() bool             { return false }
func (t *w3Transport) Emulation() bool                  { return false }
func (t *w3Transport) DisabledPushFlags() uint64        { return PushFlagDisconnect }
func (t *w3Transport) PingPongConfig() PingPongConfig {
	return PingPongConfig{PingInterval: -1, PongTimeout: -1}
}
func (t *w3Transport) Write(data []byte) error { return t.WriteMany(data) }
func (t *w3Transport) WriteMany(datas ...[]byte) error {
	if t.closed {
		return io.ErrClosedPipe
	}
	if t.failWrites {
		return io.ErrShortWrite
	}
	if t.stall > 0 {
		t.cl.w.s.Sleep(t.stall)
		if t.closed {
			return io.ErrClosedPipe
		}
	}
	for _, d := range datas {
		if t.cl.tr == t {
			t.cl.onData(d)
		}
	}
	return nil
}
func (t *w3Transport) Close(d Disconnect) error {
	if t.closed {
		return nil
	}
	t.closed = true
	cl := t.cl
	cl.w.lifeTransportClosed(t, d)
	if cl.tr != t {
		return nil
	}
	cl.w.s.Event("c%d transport close code=%d", cl.idx, d.Code)
	cl.connected = false
	cl.connClosed = true
	if cl.live || cl.inFlow {
		cl.live = false
		cl.lastCloseCode = d.Code
		if d.Code == DisconnectInsufficientState.Code {
			cl.told = d.Code
			cl.w.s.Probe("told_disconnect_insufficient")
		}
	}
	select {
	case cl.replyCh <- nil:
	default:
	}
	return nil
}

// ---------------------------------------------------------------- simulated client

type w3Cl struct {
	w       *w3World
	idx     int
	spec    w3Client
	proto   ProtocolType
	tr      *w3Transport
	client  *Client
	closeFn ClientCloseFunc
	nextID  uint32
	replyCh chan *protocol.Reply

	connected  bool
	connClosed bool
	curSF      int // server tags filter the application currently assigns to this client

	inFlow        bool // a subscribe flow is in progress (between first request and live reply / failure)
	live          bool
	liveSingleReq bool // went live in the very first request of the flow
	recoverable   bool
	replica       map[string]*w3Ent
	havePos       bool
	epoch         string
	offset        uint64
	told          uint32 // explicit "unrecoverable / insufficient / invalidated" code seen since the last successful flow
	lastCloseCode uint32
	flowSF        int // filters in force for the current/last flow
	flow          *w3Flow
	flows         []*w3Flow
	recv          []w3Recv
	curPath       string
	unexpected    int
	conn          *w3Conn // lifecycle: registry entry of the current connection
	mx            w3MixC  // mixed scenarios: map flow cursor, received publications, subscription ledger
}

func (w *w3World) newClient(idx int, spec w3Client) *w3Cl {
	cl := &w3Cl{w: w, idx: idx, spec: spec, replica: map[string]*w3Ent{}, replyCh: make(chan *protocol.Reply, 64), curSF: spec.SF}
	cl.proto = ProtocolTypeJSON
	if spec.Proto == "protobuf" {
		cl.proto = ProtocolTypeProtobuf
	}
	w.clients = append(w.clients, cl)
	return cl
}

func (cl *w3Cl) id() uint32 { cl.nextID++; return cl.nextID }

func (cl *w3Cl) connect() bool {
	if cl.connected {
		return true
	}
	s := cl.w.s
	// drain stale sentinels
	for {
		select {
		case <-cl.replyCh:
			continue
		default:
		}
		break
	}
	cl.tr = &w3Transport{cl: cl, proto: cl.proto}
	cl.connClosed = false
	cl.w.lifeBaseline()
	c, closeFn, err := NewClient(context.Background(), cl.w.node, cl.tr)
	if err != nil {
		s.Violate(cl.w.prop, "harness", "NewClient failed", "%v", err)
		return false
	}
	cl.client, cl.closeFn = c, closeFn
	cl.w.lifeRegister(cl, c, closeFn)
	rep := cl.roundTrip(&protocol.Command{Id: cl.id(), Connect: &protocol.ConnectRequest{Token: cl.userName()}})
	if rep == nil || rep.Connect == nil {
		return false
	}
	cl.connected = true
	return true
}

// roundTrip sends a command and waits for the reply with its id (nil: connection closed
// or nothing came within 20 virtual seconds).
func (cl *w3Cl) roundTrip(cmd *protocol.Command) *protocol.Reply {
	s := cl.w.s
	if cl.connClosed || cl.client == nil {
		return nil
	}
	s.Pause()
	ok := cl.client.HandleCommand(cmd, 10)
	if !ok {
		s.Event("c%d reader stops", cl.idx)
		cl.connected = false
		cl.connClosed = true
		cl.live = false
		_ = cl.closeFn()
		return nil
	}
	tm := time.NewTimer(20 * time.Second)
	defer tm.Stop()
	for {
		select {
		case rep := <-cl.replyCh:
			s.Pause()
			if rep == nil {
				if cl.connClosed {
					return nil
				}
				continue
			}
			if rep.Id == cmd.Id {
				return rep
			}
		case <-tm.C:
			s.Pause()
			return nil
		}
	}
}

func (cl *w3Cl) onData(data []byte) {
	rep := &protocol.Reply{}
	var err error
	if cl.proto == ProtocolTypeJSON {
		err = json.Unmarshal(data, rep)
	} else {
		err = rep.UnmarshalVT(data)
	}
	if err != nil {
		cl.w.s.Violate(cl.w.prop, "undecodable-frame", "frame not decodable", "client %d: cannot decode frame %q: %v", cl.idx, string(data), err)
		return
	}
	s := cl.w.s
	switch {
	case rep.Push != nil:
		p := rep.Push
		if cl.w.sc.Cfg.Mix {
			cl.mixPush(p)
			return
		}
		switch {
		case p.Pub != nil:
			s.Event("c%d push pub key=%s rm=%v off=%d delta=%v", cl.idx, p.Pub.Key, p.Pub.Removed, p.Pub.Offset, p.Pub.Delta)
			if !cl.live {
				s.Probe("push_while_not_live")
				return
			}
			cl.applyPub(p.Pub, "live-push")
		case p.Unsubscribe != nil:
			s.Event("c%d push unsub code=%d", cl.idx, p.Unsubscribe.Code)
			if cl.live || cl.inFlow {
				cl.live = false
				switch p.Unsubscribe.Code {
				case UnsubscribeCodeInsufficient:
					cl.told = p.Unsubscribe.Code
					s.Probe("told_unsub_insufficient")
				case UnsubscribeCodeStateInvalidated:
					cl.told = p.Unsubscribe.Code
					cl.havePos = false
					s.Probe("told_unsub_invalidated")
				}
			}
		}
		return
	case rep.Id == 0:
		return
	}
	if rep.Subscribe != nil && rep.Error == nil && cl.inFlow {
		cl.onSubscribeResult(rep.Subscribe)
	}
	s.Event("c%d reply id=%d err=%d", cl.idx, rep.Id, w3ErrCode(rep))
	select {
	case cl.replyCh <- rep:
	default:
		s.Violate(cl.w.prop, "harness", "reply channel full", "client %d", cl.idx)
	}
}

func w3ErrCode(rep *protocol.Reply) uint32 {
	if rep.Error != nil {
		return rep.Error.Code
	}
	return 0
}

// decode returns the payload bytes of a publication: with fossil delta negotiated over
// the JSON protocol the server sends data as a JSON string.
func (cl *w3Cl) decode(data []byte) []byte {
	if cl.spec.Delta && cl.w.sc.Cfg.UseDelta && cl.proto == ProtocolTypeJSON && len(data) > 0 && data[0] == '"' {
		var str string
		if err := json.Unmarshal(data, &str); err == nil {
			return []byte(str)
		}
	}
	return data
}

func (cl *w3Cl) checkFilter(key, path string) {
	if cl.spec.Delta && cl.w.sc.Cfg.UseDelta {
		return // C16 speaks about subscriptions without delta encoding
	}
	if cl.spec.CF == 0 && cl.flowSF == 0 {
		return
	}
	cl.w.s.Probe("filter_checked")
	if cl.curSF != cl.flowSF && w3Admits(key, cl.spec.CF, cl.curSF) {
		// the application has just assigned a new server filter (sub refresh in progress, the
		// invalidating unsubscribe follows): the publication passes the filter now in force
		cl.w.s.Probe("delivered_under_new_server_filter")
		return
	}
	if !w3Admits(key, cl.spec.CF, cl.flowSF) {
		cl.w.s.Violate("C16", "excluded-publication-delivered", "excluded key delivered on "+path,
			"client %d (client filter %d, server filter %d) received key %s with tags %v on path %s", cl.idx, cl.spec.CF, cl.flowSF, key, w3Tags(w3KeyIndex(key)), path)
	}
}

func (cl *w3Cl) applyState(p *protocol.Publication, path string) {
	cl.checkFilter(p.Key, path)
	data := cl.decode(p.Data)
	cl.recv = append(cl.recv, w3Recv{Path: path, Epoch: cl.epoch, Offset: p.Offset, Key: p.Key, Data: string(data)})
	if p.Delta {
		cl.w.s.Violate("C14", "delta-in-state", "state entry flagged as delta", "client %d key %s", cl.idx, p.Key)
	}
	cl.replica[p.Key] = &w3Ent{Data: string(data), Offset: p.Offset}
}

func (cl *w3Cl) applyPub(p *protocol.Publication, path string) {
	s := cl.w.s
	cl.checkFilter(p.Key, path)
	if cl.flow != nil && !cl.flow.Done && p.Offset > 0 {
		cl.flow.Got[p.Offset] = true
	}
	if cl.recoverable && p.Offset > cl.offset && path == "live-push" {
		cl.offset = p.Offset
	}
	if p.Removed {
		cl.recv = append(cl.recv, w3Recv{Path: path, Epoch: cl.epoch, Offset: p.Offset, Key: p.Key, Removed: true})
		delete(cl.replica, p.Key)
		return
	}
	raw := cl.decode(p.Data)
	data := raw
	if p.Delta {
		if !(cl.spec.Delta && cl.w.sc.Cfg.UseDelta) {
			s.Violate("C14", "delta-not-negotiated", "delta publication without negotiated delta on "+path, "client %d key %s off %d", cl.idx, p.Key, p.Offset)
			return
		}
		base := cl.replica[p.Key]
		if base == nil {
			flt := " [no tags filter]"
			if g := cl.silentGap(); g != "" {
				flt = g
			} else if cl.spec.CF != 0 || cl.flowSF != 0 {
				flt = " [subscription with tags filter]"
				if !w3Admits(p.Key, cl.spec.CF, cl.flowSF) {
					flt = " [key excluded by the subscription's tags filter]"
				}
			}
			s.Violate("C14", "delta-without-base", "delta for a key the client holds no payload for on "+path+flt,
				"client %d (cf %d sf %d): delta for key %s offset %d but the client holds nothing for that key", cl.idx, cl.spec.CF, cl.flowSF, p.Key, p.Offset)
			return
		}
		out, err := fdelta.Apply([]byte(base.Data), raw)
		if err != nil {
			sfx := cl.silentGap()
			s.Violate("C14", "delta-apply-error", "delta does not apply to the held payload on "+path+sfx,
				"client %d key %s offset %d: %v (held payload from offset %d)", cl.idx, p.Key, p.Offset, err, base.Offset)
			return
		}
		data = out
		s.Probe("delta_applied")
	}
	cl.recv = append(cl.recv, w3Recv{Path: path, Epoch: cl.epoch, Offset: p.Offset, Key: p.Key, Data: string(data), Delta: p.Delta})
	cl.replica[p.Key] = &w3Ent{Data: string(data), Offset: p.Offset}
}

// oldestRetained peeks (read-only, in-package) at the broker's stream: the oldest offset
// still retained, top+1 when the stream holds nothing, 0 when unknown / another epoch.
// Used only to classify silent gaps (retention loss vs. entries that were available).
func (w *w3World) oldestRetained(epoch string) uint64 {
	h := w.broker.MemoryMapBroker.mapHub
	h.RLock()
	defer h.RUnlock()
	ch := h.channels[w3Channel]
	if ch == nil || ch.stream == nil || ch.stream.Epoch() != epoch {
		return 0
	}
	items, top, _ := ch.stream.Get(0, false, 1, false)
	if len(items) == 0 {
		return top + 1
	}
	return items[0].Offset
}

// onSubscribeResult runs in frame order (before any later push is seen).
func (cl *w3Cl) onSubscribeResult(r *protocol.SubscribeResult) {
	s := cl.w.s
	s.Event("c%d subres phase=%d state=%d pubs=%d off=%d cursor=%q rec=%v", cl.idx, r.Phase, len(r.State), len(r.Publications), r.Offset, r.Cursor, r.Recovered)
	if r.Type != subscribeResultTypeMap {
		s.Violate(cl.w.prop, "harness", "not a map reply", "client %d type %d", cl.idx, r.Type)
	}
	if r.Epoch != "" && cl.flow != nil && cl.flow.Kind == "sync" {
		cl.epoch = r.Epoch
	}
	switch r.Phase {
	case MapPhaseState:
		for _, p := range r.State {
			cl.applyState(p, "state-page")
		}
		if len(r.Publications) > 0 {
			s.Violate("C22", "protocol", "publications on a state page", "client %d", cl.idx)
		}
	case MapPhaseStream:
		for _, p := range r.Publications {
			cl.applyPub(p, "stream-page")
		}
	case MapPhaseLive:
		for _, p := range r.State {
			cl.applyState(p, "live-reply-state")
		}
		path := "live-reply-pubs"
		if !r.Recoverable {
			path = "streamless-buffered"
		}
		for _, p := range r.Publications {
			cl.applyPub(p, path)
		}
		cl.recoverable = r.Recoverable
		if cl.flow != nil {
			if cl.flow.Kind == "recover" && r.Epoch != cl.flow.Epoch && r.Recovered {
				s.Violate("C22", "false-recovered", "recovered=true with another epoch", "client %d saved epoch %s reply epoch %s", cl.idx, cl.flow.Epoch, r.Epoch)
			}
			cl.flow.To = r.Offset
			cl.flow.Recovered = r.Recovered
			cl.flow.Done = true
			if r.Recoverable {
				cl.flow.Oldest = cl.w.oldestRetained(r.Epoch)
			}
		}
		cl.epoch = r.Epoch
		cl.offset = r.Offset
		cl.havePos = r.Recoverable
		cl.live = true
		cl.told = 0
		cl.w.lifeWentLive(cl)
		if r.Delta != (cl.spec.Delta && cl.w.sc.Cfg.UseDelta) {
			s.Violate("C14", "negotiation", "delta flag of the reply differs from the negotiation", "client %d asked %v allowed %v got %v", cl.idx, cl.spec.Delta, cl.w.sc.Cfg.UseDelta, r.Delta)
		}
	}
}

func (cl *w3Cl) delay(op w3COp, i int) {
	if len(op.Delays) == 0 {
		return
	}
	d := op.Delays[i%len(op.Delays)]
	if d > 0 {
		cl.w.s.Sleep(time.Duration(d) * time.Microsecond)
	}
}

func (cl *w3Cl) race(op w3COp, n int) {
	if op.RaceAt == 0 || op.RaceAt-1 != n {
		return
	}
	w := cl.w
	w.s.Probe("raced_write")
	w.s.Go(func() { w.runWriter([]w3WOp{{K: op.RaceK, Key: op.RaceKey, Score: 1}}) })
}

func (cl *w3Cl) baseReq(op w3COp, first bool) *protocol.SubscribeRequest {
	req := &protocol.SubscribeRequest{Channel: w3Channel, Type: int32(SubscriptionTypeMap), Asc: op.Asc}
	if cl.spec.Delta {
		req.Delta = string(DeltaTypeFossil)
	}
	if first {
		req.Tf = w3ClientFilter(cl.spec.CF)
	}
	return req
}

// flowFail classifies a failed subscribe request. Returns true when the client was
// explicitly told that its position is unrecoverable / its state insufficient.
func (cl *w3Cl) flowFail(rep *protocol.Reply, what string) {
	s := cl.w.s
	cl.inFlow = false
	cl.live = false
	if rep == nil {
		// connection closed (a disconnect code was recorded by the transport) or no reply
		if !cl.connClosed {
			s.Violate("C22", "no-reply", "subscribe request never answered", "client %d: %s not answered within 20s and the connection is open", cl.idx, what)
		} else if cl.told == 0 {
			s.Probe("flow_closed_other")
		}
		return
	}
	code := w3ErrCode(rep)
	switch {
	case code == ErrorUnrecoverablePosition.Code:
		cl.told = code
		s.Probe("told_error_unrecoverable")
	case cl.w.sc.Cfg.Life:
		// injected broker failures, a server-side unsubscribe between two requests of the flow
		s.Probe("life_flow_error")
	default:
		cl.unexpected++
		s.Violate("C22", "unexpected-subscribe-error", fmt.Sprintf("subscribe flow ended with error %d", code),
			"client %d: %s answered with error %d %s", cl.idx, what, code, rep.Error.GetMessage())
	}
}

func (cl *w3Cl) startFlow(kind string) {
	cl.inFlow = true
	cl.live = false
	cl.liveSingleReq = false
	cl.flowSF = cl.curSF
	cl.flow = &w3Flow{Kind: kind, Got: map[uint64]bool{}, CF: cl.spec.CF, SF: cl.curSF}
	cl.flows = append(cl.flows, cl.flow)
}

func (cl *w3Cl) endFlowLive(c0 int) {
	cl.inFlow = false
	if cl.w.changes > c0 {
		cl.w.s.Probe("change_during_flow")
	}
	cl.w.s.Probe("went_live")
}

// syncFresh: full subscribe from scratch (state pages, stream pages, live).
func (cl *w3Cl) syncFresh(op w3COp) {
	s := cl.w.s
	if !cl.connect() {
		return
	}
	if cl.live || cl.inFlow {
		cl.unsubscribe()
		if !cl.connected {
			return
		}
	}
	cl.replica = map[string]*w3Ent{}
	cl.havePos = false
	cl.epoch, cl.offset = "", 0
	cl.startFlow("sync")
	c0 := cl.w.changes
	limit := op.Limit
	if limit <= 0 {
		limit = 3
	}
	slimit := op.SLimit
	if slimit <= 0 {
		slimit = limit
	}
	n := 0
	var frozen uint64
	var epoch, cursor string
	// state phase
	for page := 0; ; page++ {
		if page > 40 {
			s.Violate("C22", "no-progress", "state pagination does not terminate", "client %d: more than 40 state pages for %d keys", cl.idx, cl.w.sc.Cfg.NKeys)
			cl.inFlow = false
			return
		}
		cl.delay(op, n)
		req := cl.baseReq(op, n == 0)
		req.Phase = MapPhaseState
		req.Limit = int32(limit)
		if page > 0 {
			req.Cursor, req.Offset, req.Epoch = cursor, frozen, epoch
		}
		cl.race(op, n)
		cl.killAt(op, n)
		n++
		rep := cl.roundTrip(&protocol.Command{Id: cl.id(), Subscribe: req})
		if rep == nil || rep.Error != nil || rep.Subscribe == nil {
			cl.flowFail(rep, fmt.Sprintf("state page %d", page))
			return
		}
		r := rep.Subscribe
		if r.Phase == MapPhaseLive {
			cl.flow.Epoch, cl.flow.From = epoch, frozen
			if page == 0 {
				// single request: the position the state was read at is not reported;
				// the catch-up range is only known through the publications themselves
				from := r.Offset
				for _, p := range r.Publications {
					if p.Offset > 0 && p.Offset-1 < from {
						from = p.Offset - 1
					}
				}
				cl.flow.Epoch, cl.flow.From = r.Epoch, from
				cl.liveSingleReq = true
			}
			cl.endFlowLive(c0)
			return
		}
		if r.Phase != MapPhaseState {
			s.Violate("C22", "protocol", "unexpected phase in reply to a state request", "client %d phase %d", cl.idx, r.Phase)
			cl.inFlow = false
			return
		}
		if page == 0 {
			frozen, epoch = r.Offset, r.Epoch
			cl.flow.Epoch, cl.flow.From = epoch, frozen
		} else if r.Offset != frozen {
			s.Violate("C22", "protocol", "state page offset not frozen", "client %d: first page offset %d, page %d offset %d", cl.idx, frozen, page, r.Offset)
		}
		cursor = r.Cursor
		if cursor == "" {
			break
		}
	}
	if cl.w.sc.Cfg.Mode == 1 {
		s.Violate("C22", "protocol", "streamless last state page did not go live", "client %d", cl.idx)
		cl.inFlow = false
		return
	}
	s.Probe("stream_phase_after_state")
	cl.streamPhase(op, n, frozen, epoch, slimit, false, false, c0)
}

// streamPhase pages through the stream until the server switches the subscription to live.
func (cl *w3Cl) streamPhase(op w3COp, n int, offset uint64, epoch string, slimit int, recoverFirst, keep bool, c0 int) {
	s := cl.w.s
	stuck := 0
	for page := 0; ; page++ {
		if page > 60 {
			s.Violate("C22", "no-progress", "stream pagination does not terminate", "client %d", cl.idx)
			cl.inFlow = false
			return
		}
		cl.delay(op, n)
		req := cl.baseReq(op, n == 0)
		req.Phase = MapPhaseStream
		req.Limit = int32(slimit)
		req.Offset, req.Epoch = offset, epoch
		if (page == 0 && recoverFirst) || (recoverFirst && keep) {
			req.Recover = true
		}
		cl.race(op, n)
		cl.killAt(op, n)
		n++
		rep := cl.roundTrip(&protocol.Command{Id: cl.id(), Subscribe: req})
		if rep == nil || rep.Error != nil || rep.Subscribe == nil {
			cl.flowFail(rep, fmt.Sprintf("stream page %d", page))
			return
		}
		r := rep.Subscribe
		if r.Phase == MapPhaseLive {
			if n == 1 {
				cl.liveSingleReq = true
			}
			cl.endFlowLive(c0)
			return
		}
		if r.Phase != MapPhaseStream {
			s.Violate("C22", "protocol", "unexpected phase in reply to a stream request", "client %d phase %d", cl.idx, r.Phase)
			cl.inFlow = false
			return
		}
		s.Probe("stream_page")
		if r.Offset < offset {
			s.Violate("C22", "protocol", "stream page offset went backwards", "client %d: asked since %d got %d", cl.idx, offset, r.Offset)
		}
		if r.Offset == offset && len(r.Publications) == 0 {
			// the server says "keep paginating" but gives nothing and does not advance
			stuck++
			if stuck >= 3 {
				s.Violate("C22", "no-progress", "stream page makes no progress (empty page, same offset, still phase=stream)",
					"client %d: %d consecutive stream pages since offset %d (epoch %s, limit %d) came back empty with the same offset and phase=stream: the client can neither converge nor is it told that its position is unrecoverable", cl.idx, stuck, offset, epoch, slimit)
				cl.unsubscribe()
				return
			}
		} else {
			stuck = 0
		}
		offset = r.Offset
	}
}

// recoverFlow: join from the saved position, keeping the replica.
func (cl *w3Cl) recoverFlow(op w3COp) {
	s := cl.w.s
	if cl.live {
		return
	}
	if !cl.havePos || cl.w.sc.Cfg.Mode == 1 {
		// nothing to recover from (never live, streamless, invalidated): documented path is a full re-sync
		cl.syncFresh(op)
		return
	}
	if !cl.connect() {
		return
	}
	if cl.inFlow {
		cl.unsubscribe()
		if !cl.connected {
			return
		}
	}
	cl.startFlow("recover")
	cl.flow.Epoch, cl.flow.From = cl.epoch, cl.offset
	c0 := cl.w.changes
	s.Probe("recover_attempt")
	if op.Via == "stream" {
		slimit := op.SLimit
		if slimit <= 0 {
			slimit = 3
		}
		cl.streamPhase(op, 0, cl.offset, cl.epoch, slimit, true, op.Keep, c0)
		return
	}
	cl.delay(op, 0)
	req := cl.baseReq(op, true)
	req.Phase = MapPhaseLive
	req.Recover = true
	req.Offset, req.Epoch = cl.offset, cl.epoch
	cl.race(op, 0)
	cl.killAt(op, 0)
	rep := cl.roundTrip(&protocol.Command{Id: cl.id(), Subscribe: req})
	if rep == nil || rep.Error != nil || rep.Subscribe == nil {
		cl.flowFail(rep, "recovery join")
		return
	}
	if rep.Subscribe.Phase != MapPhaseLive {
		s.Violate("C22", "protocol", "recovery join not answered with live phase", "client %d phase %d", cl.idx, rep.Subscribe.Phase)
		cl.inFlow = false
		return
	}
	cl.liveSingleReq = true
	cl.endFlowLive(c0)
}

func (cl *w3Cl) unsubscribe() { cl.unsubscribeOp(w3COp{}) }

func (cl *w3Cl) unsubscribeOp(op w3COp) {
	// the client decides to leave: from now on pushes are ignored, replica and position stay a consistent pair
	cl.live = false
	cl.inFlow = false
	if !cl.connected {
		return
	}
	cl.killAt(op, 0)
	rep := cl.roundTrip(&protocol.Command{Id: cl.id(), Unsubscribe: &protocol.UnsubscribeRequest{Channel: w3Channel}})
	if rep != nil && rep.Error != nil && cl.w.sc.Cfg.Life {
		cl.w.s.Probe("life_unsubscribe_error")
	} else if rep != nil && rep.Error != nil {
		cl.w.s.Violate("C22", "harness", "unsubscribe failed", "client %d error %d", cl.idx, rep.Error.Code)
	}
}

func (cl *w3Cl) drop() {
	cl.live = false
	cl.inFlow = false
	if cl.closeFn != nil && !cl.connClosed {
		cl.connected = false
		cl.connClosed = true
		cl.w.s.Event("c%d peer close", cl.idx)
		cl.w.s.Fault("connection_drop")
		_ = cl.closeFn()
	}
}

func (cl *w3Cl) refresh(op w3COp) {
	s := cl.w.s
	if !cl.live || !cl.spec.Refresh || !cl.liveSingleReq || !cl.connected {
		return
	}
	token := "same"
	if op.Change {
		token = "chg"
		if cl.curSF == 0 {
			return
		}
	}
	sfBefore := cl.flowSF
	s.Pause()
	s.Probe("sub_refresh")
	if !cl.client.HandleCommand(&protocol.Command{Id: cl.id(), SubRefresh: &protocol.SubRefreshRequest{Channel: w3Channel, Token: token}}, 10) {
		cl.connected, cl.connClosed, cl.live = false, true, false
		_ = cl.closeFn()
		return
	}
	s.Sleep(50 * time.Millisecond)
	if op.Change {
		s.Probe("server_filter_changed")
		if cl.live {
			s.Violate("C16", "filter-change-not-invalidating", "map subscription survives a server tags filter change",
				"client %d: server tags filter changed from %d to %d by sub refresh, subscription still live 50ms later", cl.idx, sfBefore, cl.curSF)
			// keep the harness consistent with the server: the new filter is in force
			cl.flowSF = cl.curSF
		} else if cl.told != UnsubscribeCodeStateInvalidated && cl.told != UnsubscribeCodeInsufficient && !cl.connClosed {
			s.Violate("C16", "filter-change-not-invalidating", "subscription ended without the state-invalidated code",
				"client %d told=%d", cl.idx, cl.told)
		}
	}
}

func (cl *w3Cl) runOp(op w3COp) {
	switch op.K {
	case "sleep":
		cl.w.s.Sleep(time.Duration(op.Us) * time.Microsecond)
	case "sync":
		cl.syncFresh(op)
	case "recover":
		cl.recoverFlow(op)
	case "unsub":
		if cl.live || cl.inFlow || (cl.w.sc.Cfg.Life && cl.connected) {
			cl.unsubscribeOp(op)
		}
	case "kill":
		cl.killOp(op)
	case "drop":
		cl.drop()
	case "refresh":
		cl.refresh(op)
	default:
		if cl.w.sc.Cfg.Mix {
			cl.mixOp(op)
		}
	}
}

// ---------------------------------------------------------------- run + oracles

func w3Run(s *simrt.Sim, script any, prop string) {
	sc := script.(*w3Script)
	w := &w3World{s: s, sc: sc, prop: prop, log: map[string]map[uint64]*w3Change{}, pubd: map[string]string{}}
	w.lifeInit()
	if err := w.setup(); err != nil {
		s.Violate(prop, "harness", "node setup failed", "%v", err)
		return
	}
	for i, spec := range sc.Clients {
		w.newClient(i, spec)
	}
	w.runWriter(sc.Pre)
	if sc.Cfg.Seq {
		for _, ops := range sc.Writers {
			w.runWriter(ops)
		}
		for _, cl := range w.clients {
			for _, op := range cl.spec.Ops {
				cl.runOp(op)
			}
		}
	} else {
		done := make(chan struct{}, 8)
		n := 0
		for _, ops := range sc.Writers {
			ops := ops
			n++
			s.Go(func() { defer func() { done <- struct{}{} }(); w.runWriter(ops) })
		}
		for _, cl := range w.clients {
			cl := cl
			n++
			s.Go(func() {
				defer func() { done <- struct{}{} }()
				for _, op := range cl.spec.Ops {
					cl.runOp(op)
				}
			})
		}
		for i := 0; i < n; i++ {
			<-done
		}
		s.Pause()
	}
	// traffic has stopped: let expirations, position checks and late pushes settle
	settle := time.Duration(sc.Cfg.SettleMs) * time.Millisecond
	if settle <= 0 {
		settle = 8 * time.Second
	}
	if sc.Cfg.Life {
		w.lifeEnd(settle)
		return
	}
	if sc.Cfg.Mix {
		w.mixEnd(settle)
		return
	}
	s.Sleep(settle + 137*time.Millisecond)
	// a client that was told to re-sync (or simply is not subscribed) does so now, at rest
	for _, cl := range w.clients {
		for attempt := 0; attempt < 3 && !cl.live; attempt++ {
			op := w3COp{K: "recover", Limit: 2, SLimit: 2}
			if attempt == 1 {
				op.Via = "stream"
			}
			toldBefore := cl.told
			if attempt == 2 || cl.told == UnsubscribeCodeStateInvalidated || cl.told == ErrorUnrecoverablePosition.Code {
				cl.syncFresh(op)
				if !cl.live && cl.connected {
					s.Violate("C22", "fresh-sync-fails-at-rest", "full re-sync without concurrent traffic does not reach live",
						"client %d (told before %d, told now %d)", cl.idx, toldBefore, cl.told)
				}
			} else {
				cl.recoverFlow(op)
			}
			s.Probe("resync_at_rest")
		}
	}
	s.Sleep(2*time.Second + 137*time.Millisecond)
	w.checkConverged()
	w.checkReceived()
	w.checkFlows()
	for _, cl := range w.clients {
		cl.drop()
	}
	// C05 / C26 as extra oracles of every W3 run: nothing of the ended connections is left
	w.lifeCheckEnd()
	s.Sleep(500 * time.Millisecond)
	ctx, cancel := context.WithTimeout(context.Background(), 10*time.Second)
	_ = w.node.Shutdown(ctx)
	cancel()
	s.Sleep(2 * time.Second)
}

func (w *w3World) brokerState() (map[string]string, string, error) {
	res, err := w.node.MapStateRead(context.Background(), w3Channel, MapReadStateOptions{Limit: -1})
	if err != nil {
		return nil, "", err
	}
	m := map[string]string{}
	for _, p := range res.Publications {
		m[p.Key] = string(p.Data)
	}
	return m, res.Position.Epoch, nil
}

func w3Diff(replica map[string]*w3Ent, state map[string]string, cf, sf int) string {
	var keys []string
	seen := map[string]bool{}
	for k := range replica {
		keys = append(keys, k)
		seen[k] = true
	}
	for k := range state {
		if !seen[k] {
			keys = append(keys, k)
		}
	}
	sort.Strings(keys)
	out := ""
	for _, k := range keys {
		r := replica[k]
		sv, inState := state[k]
		if inState && !w3Admits(k, cf, sf) {
			inState = false
		}
		switch {
		case r != nil && !inState:
			out += fmt.Sprintf(" stale key %s (replica holds offset %d);", k, r.Offset)
		case r == nil && inState:
			out += fmt.Sprintf(" missing key %s;", k)
		case r != nil && r.Data != sv:
			out += fmt.Sprintf(" key %s holds old payload (replica offset %d);", k, r.Offset)
		}
	}
	return out
}

func (w *w3World) checkConverged() {
	s := w.s
	modeName := map[int]string{1: "streamless", 2: "recoverable", 3: "persistent"}[w.sc.Cfg.Mode]
	for _, cl := range w.clients {
		if !cl.live {
			if cl.told != 0 {
				s.Probe("ended_told")
			} else {
				s.Probe("ended_not_live")
			}
			continue
		}
		if cl.spec.Delta && w.sc.Cfg.UseDelta && (cl.spec.CF != 0 || cl.flowSF != 0) {
			// with delta encoding the live path does not filter (C16 excludes it): the
			// replica legitimately holds more than the admitted keys
			s.Probe("compare_skipped_delta_filter")
			continue
		}
		diff := ""
		for try := 0; try < 3; try++ {
			state, _, err := w.brokerState()
			if err != nil {
				s.Violate("C22", "harness", "MapStateRead failed", "%v", err)
				return
			}
			diff = w3Diff(cl.replica, state, cl.spec.CF, cl.flowSF)
			if diff == "" || !cl.live {
				break
			}
			s.Sleep(1370 * time.Millisecond)
		}
		if !cl.live {
			s.Probe("ended_told")
			continue
		}
		s.Probe("compared")
		if len(cl.replica) > 0 {
			s.Probe("compared_nonempty")
		}
		if diff != "" {
			// the replica was built by the flows since the last full sync: classify the first silent gap among them
			last, kind := "sync", "no-gap"
			var missing []uint64
			var gf *w3Flow
			first := 0
			for i, f := range cl.flows {
				if f.Kind == "sync" && f.Done {
					first = i
				}
			}
			for i := first; i < len(cl.flows); i++ {
				f := cl.flows[i]
				if !f.Done {
					continue
				}
				last = f.Kind
				if k, m := w.gap(cl, f); k != "no-gap" {
					kind, missing, gf = k, m, f
					break
				}
			}
			if gf == nil {
				gf = &w3Flow{}
			}
			if w.sc.Cfg.Mode == 1 {
				modeName = "streamless, multi-page sync"
				if cl.liveSingleReq {
					modeName = "streamless, single-request sync"
				}
			}
			clause := "diverged"
			if kind != "no-gap" {
				clause = "diverged-after-silent-gap"
			}
			s.Violate("C22", clause, fmt.Sprintf("live replica differs from broker state [%s; flow %s: %s]", modeName, last, kind),
				"client %d (mode %s, flow %s with gap: from offset %d to %d, skipped offsets %v, cf %d sf %d, epoch %s offset %d):%s", cl.idx, modeName, last, gf.From, gf.To, missing, cl.spec.CF, cl.flowSF, cl.epoch, cl.offset, diff)
		}
	}
}

// checkReceived: every delivered entry carries what was published for that stream
// offset (or, without offsets, some published payload of that key).
func (w *w3World) checkReceived() {
	s := w.s
	for _, cl := range w.clients {
		deltaClient := cl.spec.Delta && w.sc.Cfg.UseDelta
		prop, clause := "C22", "wrong-payload"
		if deltaClient {
			prop, clause = "C14", "reconstructed-payload-differs"
		}
		sfx := ""
		if deltaClient {
			sfx = cl.silentGap()
		}
		for _, r := range cl.recv {
			if r.Removed {
				continue
			}
			if deltaClient {
				s.Probe("delta_client_payload_checked")
			}
			if k, ok := w.pubd[r.Data]; !ok || k != r.Key {
				s.Violate(prop, clause, "delivered payload was never published for that key on "+r.Path+sfx,
					"client %d path %s key %s offset %d delta=%v payload %q", cl.idx, r.Path, r.Key, r.Offset, r.Delta, r.Data)
				continue
			}
			if r.Offset > 0 {
				ch := w.log[r.Epoch][r.Offset]
				if ch != nil && (ch.Key != r.Key || ch.Removed || ch.Data != r.Data) {
					// an entry carries no epoch of its own: the epoch is the one of the reply it
					// arrived with or after. A Clear racing the subscribe puts a change of the
					// NEW epoch among the buffered publications of a reply that still names the
					// old one (the position check ends that subscription later; C14-5-5769):
					// the payload is right if it is what was published at that offset in any epoch
					for _, lg := range w.log {
						if o := lg[r.Offset]; o != nil && o.Key == r.Key && !o.Removed && o.Data == r.Data {
							ch = nil
							s.Probe("entry_of_another_epoch_than_its_reply")
							break
						}
					}
				}
				if ch != nil && (ch.Key != r.Key || ch.Removed || ch.Data != r.Data) {
					s.Violate(prop, clause, "delivered payload differs from the publication with that offset on "+r.Path+sfx,
						"client %d path %s key %s offset %d delta=%v: got %q, published %q (key %s)", cl.idx, r.Path, r.Key, r.Offset, r.Delta, r.Data, ch.Data, ch.Key)
				}
			}
		}
	}
}

// gap classifies what a finished flow skipped of the change log between its start
// position and the position of the live reply (only changes its filters admit).
func (w *w3World) gap(cl *w3Cl, f *w3Flow) (string, []uint64) {
	if !f.Done || f.Epoch == "" {
		return "no-gap", nil
	}
	var missing []uint64
	for off, ch := range w.log[f.Epoch] {
		if off > f.From && off <= f.To && !f.Got[off] {
			if w3Admits(ch.Key, f.CF, f.SF) {
				missing = append(missing, off)
			}
		}
	}
	if len(missing) == 0 {
		return "no-gap", nil
	}
	sort.Slice(missing, func(i, j int) bool { return missing[i] < missing[j] })
	if f.Oldest != 0 && missing[len(missing)-1] >= f.Oldest {
		return "skipped changes still retained in the stream", missing
	}
	// a stream can only have expired when its (effective) StreamTTL is shorter than the time
	// the run has lasted: never with the 1 h TTL, with the library default of 1 minute only in
	// very long runs
	exp := "stream cannot have expired"
	if time.Duration(w.sc.Cfg.effStreamTTLMs())*time.Millisecond <= w.s.Now()+2*time.Second {
		exp = "stream may have expired"
	}
	if f.From == 0 {
		return "skipped changes no longer retained, position offset 0, " + exp, missing
	}
	return "skipped changes no longer retained, " + exp, missing
}

// silentGap: kind of the first gap among the flows since the last full sync ("" = none).
func (cl *w3Cl) silentGap() string {
	first := 0
	for i, f := range cl.flows {
		if f.Kind == "sync" && f.Done {
			first = i
		}
	}
	for i := first; i < len(cl.flows); i++ {
		if k, _ := cl.w.gap(cl, cl.flows[i]); k != "no-gap" {
			return " [after a silent gap: " + k + "]"
		}
	}
	return ""
}

// checkFlows: recovered=true only if every admitted change after the saved position up
// to the position of the reply was delivered in that recovery.
func (w *w3World) checkFlows() {
	s := w.s
	for _, cl := range w.clients {
		for _, f := range cl.flows {
			if !f.Done || f.Epoch == "" {
				continue
			}
			kind, missing := w.gap(cl, f)
			if f.Kind == "recover" && f.Recovered {
				s.Probe("recovered_true")
				if f.To > f.From {
					s.Probe("recovered_true_with_changes")
				}
			}
			if len(missing) == 0 {
				continue
			}
			if f.Kind == "recover" && f.Recovered {
				s.Violate("C22", "false-recovered", "recovered=true although a change after the saved position was not delivered ["+kind+"]",
					"client %d recovered from offset %d to %d (epoch %s): offsets %v (keys admitted by its filters) were never delivered in that recovery", cl.idx, f.From, f.To, f.Epoch, missing)
			} else if f.Kind == "recover" {
				s.Probe("recover_gap_without_recovered_flag")
			} else {
				s.Probe("sync_catchup_gap")
			}
		}
	}
}

// ---------------------------------------------------------------- generator

var w3Delays = []int{0, 0, 100, 5000, 300000, 1200000, 2600000}

func w3GenDelays(c *simrt.Choice, n int) []int {
	if c.Intn(3) == 0 {
		return nil
	}
	var out []int
	for i := 0; i < n; i++ {
		out = append(out, w3Delays[c.Intn(len(w3Delays))])
	}
	return out
}

func w3Gen(c *simrt.Choice, prop, tier string) any {
	if prop == "C05" || prop == "C26" {
		return w3GenLife(c, prop, tier)
	}
	if prop == "C04" || prop == "C37" {
		return w3GenMix(c, prop, tier)
	}
	sc := &w3Script{}
	cfg := &sc.Cfg
	cfg.Mode = []int{2, 3, 1}[c.Pick(5, 3, 2)]
	if prop == "C14" && cfg.Mode == 1 {
		cfg.Mode = 2
	}
	cfg.Ordered = c.Intn(3) == 0
	cfg.KeyTTLMs = []int{60000, 2500, 1500}[c.Pick(3, 2, 1)]
	// 0 = the application leaves the option unset and the library derives the default
	// (StreamSize 100, StreamTTL 1 min; MetaTTL is left to the library unless set below)
	cfg.StreamSize = []int{100, 2, 3, 4, 8, 0}[c.Pick(2, 2, 2, 2, 2, 3)]
	cfg.StreamTTLMs = []int{3600000, 2000, 1000, 0}[c.Pick(3, 2, 1, 2)]
	if cfg.Mode == 2 && c.Intn(4) == 0 {
		// explicit small MetaTTL: must be >= StreamTTL and >= KeyTTL
		m := cfg.effStreamTTLMs()
		if cfg.KeyTTLMs > m {
			m = cfg.KeyTTLMs
		}
		if m <= 3000 {
			cfg.MetaTTLMs = m + 1000
		}
	}
	cfg.LiveLimit = []int{0, 0, 2, 4}[c.Intn(4)]
	cfg.MaxPage = []int{5, 5, 3, 10}[c.Intn(4)]
	cfg.NKeys = 2 + c.Intn(5)
	cfg.SingleFlight = c.Intn(4) == 0
	cfg.SettleMs = []int{8000, 4000, 25000}[c.Pick(3, 1, 1)]
	cfg.Seq = os.Getenv("VERIF_W3_SEQ") != "" || c.Intn(12) == 0
	wantDelta := prop == "C14" || (prop == "C22" && c.Intn(5) == 0)
	wantFilter := prop == "C16" || (prop != "C14" && c.Intn(3) == 0) || (prop == "C14" && c.Intn(6) == 0)
	cfg.UseDelta = wantDelta
	if cfg.Mode != 1 && !cfg.Seq && c.Intn(6) == 0 {
		cfg.DropPm = []int{30, 100}[c.Intn(2)]
		cfg.DelayPm = []int{0, 100}[c.Intn(2)]
	}
	maxOps := 8
	if tier == "thorough" {
		maxOps = 14
	}
	// burst: a busy writer against a slowly paginating client (reaches the stream phase,
	// multi-page recoveries, trimming between pages)
	burst := !cfg.Seq && c.Intn(3) == 0
	wsleeps := []int{100, 3000, 200000, 900000, 1600000}
	if burst {
		wsleeps = []int{50, 100, 400, 3000, 20000}
	}
	wop := func(allowClear bool) w3WOp {
		switch c.Pick(6, 2, 3, 1) {
		case 1:
			return w3WOp{K: "rm", Key: c.Intn(cfg.NKeys)}
		case 2:
			return w3WOp{K: "sleep", Us: wsleeps[c.Intn(5)]}
		case 3:
			if allowClear && cfg.Mode != 1 {
				return w3WOp{K: "clear"}
			}
		}
		return w3WOp{K: "pub", Key: c.Intn(cfg.NKeys), Score: c.Intn(4)}
	}
	npre := c.Intn(cfg.NKeys + 3)
	for i := 0; i < npre; i++ {
		op := wop(false)
		if op.K == "sleep" {
			op = w3WOp{K: "pub", Key: c.Intn(cfg.NKeys), Score: c.Intn(4)}
		}
		sc.Pre = append(sc.Pre, op)
	}
	nw := 1 + c.Intn(2)
	for i := 0; i < nw; i++ {
		var ops []w3WOp
		k := 1 + c.Intn(maxOps)
		if burst {
			k += maxOps
		}
		for j := 0; j < k; j++ {
			ops = append(ops, wop(c.Intn(3) == 0 && !burst))
			if (prop == "C14" && c.Intn(4) == 0) || c.Intn(12) == 0 {
				// churn of one key: publish, remove, publish again (delta bases, removal handling)
				key := c.Intn(cfg.NKeys)
				ops = append(ops, w3WOp{K: "pub", Key: key, Score: 1}, w3WOp{K: "rm", Key: key}, w3WOp{K: "pub", Key: key, Score: 2})
			}
		}
		if i == 0 && cfg.Mode != 1 && !cfg.Seq && c.Intn(6) == 0 {
			// a clear that races the first request of the clients (both start at t=0)
			ops = append([]w3WOp{{K: "clear"}}, ops...)
		}
		sc.Writers = append(sc.Writers, ops)
	}
	ncl := 1 + c.Intn(2)
	for i := 0; i < ncl; i++ {
		cl := w3Client{Proto: []string{"json", "protobuf"}[c.Intn(2)]}
		if wantDelta && (i == 0 || c.Intn(2) == 0) {
			cl.Delta = true
		}
		if wantFilter && (i == 0 || c.Intn(2) == 0) {
			switch c.Intn(3) {
			case 0:
				cl.CF = 1 + c.Intn(2)
			case 1:
				cl.SF = 1 + c.Intn(2)
			default:
				cl.CF, cl.SF = 1+c.Intn(2), 1+c.Intn(2)
			}
		}
		if cl.SF != 0 && c.Intn(2) == 0 {
			cl.Refresh = true
		}
		cop := func(kinds ...string) w3COp {
			k := kinds[c.Intn(len(kinds))]
			op := w3COp{K: k}
			switch k {
			case "sync":
				op.Limit = 1 + c.Intn(5)
				op.SLimit = 1 + c.Intn(5)
				op.Delays = w3GenDelays(c, 4)
				if burst {
					op.Limit = 1 + c.Intn(2)
					op.SLimit = 1 + c.Intn(3)
					op.Delays = []int{[]int{50, 200, 1000}[c.Intn(3)], []int{100, 500, 4000}[c.Intn(3)]}
				}
				op.Asc = cfg.Ordered && c.Intn(2) == 0
				if !cfg.Seq && c.Intn(3) == 0 {
					op.RaceAt = 1 + c.Intn(3)
					op.RaceK = []string{"pub", "pub", "rm", "clear"}[c.Intn(4)]
					if op.RaceK == "clear" && cfg.Mode == 1 {
						op.RaceK = "pub"
					}
					op.RaceKey = c.Intn(cfg.NKeys)
				}
			case "recover":
				if !cfg.Seq && c.Intn(3) == 0 {
					op.RaceAt = 1 + c.Intn(2)
					op.RaceK = []string{"pub", "pub", "rm", "clear"}[c.Intn(4)]
					if op.RaceK == "clear" && cfg.Mode == 1 {
						op.RaceK = "pub"
					}
					op.RaceKey = c.Intn(cfg.NKeys)
				}
				op.Via = []string{"live", "stream"}[c.Intn(2)]
				op.Limit = 1 + c.Intn(5)
				op.SLimit = 1 + c.Intn(5)
				op.Keep = c.Intn(2) == 0
				op.Delays = w3GenDelays(c, 3)
				if burst {
					op.SLimit = 1 + c.Intn(2)
					op.Delays = []int{[]int{50, 200, 1000}[c.Intn(3)], []int{100, 500, 4000}[c.Intn(3)]}
				}
			case "sleep":
				op.Us = []int{100, 3000, 200000, 900000, 1600000, 3100000}[c.Intn(6)]
				if burst {
					op.Us = []int{100, 400, 3000, 20000, 200000, 900000}[c.Intn(6)]
				}
			case "refresh":
				op.Change = c.Intn(2) == 0
			}
			return op
		}
		cl.Ops = append(cl.Ops, cop("sync"))
		k := c.Intn(maxOps - 2)
		for j := 0; j < k; j++ {
			kinds := []string{"sleep", "sleep", "drop", "unsub", "recover", "recover", "sync"}
			if cl.Refresh {
				kinds = append(kinds, "refresh", "refresh")
			}
			op := cop(kinds...)
			cl.Ops = append(cl.Ops, op)
			if op.K == "drop" || op.K == "unsub" {
				cl.Ops = append(cl.Ops, cop("sleep"), cop("recover", "recover", "sync"))
			}
		}
		sc.Clients = append(sc.Clients, cl)
	}
	return sc
}

func w3Shrinks(script any) []any {
	sc := script.(*w3Script)
	var out []any
	clone := func() *w3Script {
		b, _ := json.Marshal(sc)
		var c w3Script
		_ = json.Unmarshal(b, &c)
		return &c
	}
	for i := range sc.Writers {
		c := clone()
		c.Writers = append(c.Writers[:i], c.Writers[i+1:]...)
		out = append(out, c)
	}
	out = append(out, w3LifeShrinks(sc, clone)...)
	out = append(out, w3MixShrinks(sc, clone)...)
	if len(sc.Clients) > 1 {
		for i := range sc.Clients {
			c := clone()
			c.Clients = append(c.Clients[:i], c.Clients[i+1:]...)
			out = append(out, c)
		}
	}
	for i := range sc.Clients {
		for j := range sc.Clients[i].Ops {
			if j == 0 {
				continue
			}
			c := clone()
			c.Clients[i].Ops = append(c.Clients[i].Ops[:j], c.Clients[i].Ops[j+1:]...)
			out = append(out, c)
		}
		for j := range sc.Clients[i].Ops {
			if sc.Clients[i].Ops[j].RaceAt != 0 {
				c := clone()
				c.Clients[i].Ops[j].RaceAt = 0
				c.Clients[i].Ops[j].RaceK = ""
				c.Clients[i].Ops[j].RaceKey = 0
				out = append(out, c)
			}
		}
		for j := range sc.Clients[i].Ops {
			if len(sc.Clients[i].Ops[j].Delays) > 0 {
				c := clone()
				c.Clients[i].Ops[j].Delays = nil
				out = append(out, c)
			}
		}
	}
	for i := range sc.Writers {
		for j := range sc.Writers[i] {
			c := clone()
			c.Writers[i] = append(c.Writers[i][:j], c.Writers[i][j+1:]...)
			out = append(out, c)
		}
	}
	for j := range sc.Pre {
		c := clone()
		c.Pre = append(c.Pre[:j], c.Pre[j+1:]...)
		out = append(out, c)
	}
	for _, f := range []func(*w3Script){
		func(c *w3Script) { c.Cfg.DropPm, c.Cfg.DelayPm = 0, 0 },
		func(c *w3Script) { c.Cfg.SingleFlight = false },
		func(c *w3Script) { c.Cfg.Ordered = false },
		func(c *w3Script) { c.Cfg.LiveLimit = 0 },
		func(c *w3Script) { c.Cfg.MetaTTLMs = 0 },
		func(c *w3Script) { c.Cfg.KeyTTLMs = 60000 },
		func(c *w3Script) { c.Cfg.StreamTTLMs = 3600000 },
		func(c *w3Script) { c.Cfg.StreamSize = 100 },
		func(c *w3Script) { c.Cfg.SettleMs = 4000 },
		func(c *w3Script) {
			for i := range c.Clients {
				c.Clients[i].Refresh = false
			}
		},
		func(c *w3Script) {
			for i := range c.Clients {
				c.Clients[i].Proto = "json"
			}
		},
	} {
		c := clone()
		before, _ := json.Marshal(c)
		f(c)
		after, _ := json.Marshal(c)
		if string(before) != string(after) {
			out = append(out, c)
		}
	}
	return out
}

func init() {
	simrt.Register(&simrt.World{
		Name:      "w3",
		Gen:       w3Gen,
		NewScript: func() any { return &w3Script{} },
		Run:       w3Run,
		Shrinks:   w3Shrinks,
		Nontrivial: func(prop string, r *simrt.Result) bool {
			switch prop {
			case "C16":
				return r.Probes["filter_checked"] > 0 && r.Probes["excluded_change_while_subscribed"] > 0
			case "C14":
				return r.Probes["delta_applied"] > 0
			case "C05":
				// a closed connection was examined that had been ended while it held a map
				// subscription or a reservation of one
				return r.Probes["nontrivial:C05"] > 0
			case "C04", "C37":
				// a settled connection was judged in a run in which a server-side subscribe (C04) /
				// a client-side subscribe at the limit (C37) met a map subscription that was still loading
				return r.Probes["nontrivial:"+prop] > 0
			case "C26":
				// broker subscription compared with local interest after the node both
				// subscribed to and unsubscribed from the channel in the map broker
				return r.Probes["nontrivial:C26"] > 0
			}
			return r.Probes["compared"] > 0 && r.Probes["change_during_flow"] > 0
		},
	})
	simrt.Claim("C22", "w3", 10)
	simrt.Claim("C16", "w3", 10)
	simrt.Claim("C14", "w3", 10)
	simrt.Claim("C05", "w3", 4)
	simrt.Claim("C26", "w3", 4)
	simrt.Claim("C04", "w3", 3)
	simrt.Claim("C37", "w3", 3)
}
