//go:build verif

package centrifuge

// Reference client-side stream parsers for world w7h (property C32). They are written
// from the public specifications, not from the server code:
//
//   - w7hSSEParser: the "event stream interpretation" algorithm of the WHATWG HTML
//     standard (section 9.2.6): lines end with CRLF, LF or CR; a line starting with ':'
//     is a comment; "field: value" with exactly one leading space of the value
//     stripped; `data` values are concatenated with LF; an empty line dispatches the
//     event unless the data buffer is empty; a leading BOM is ignored.
//   - w7hLineParser: newline-delimited JSON as the HTTP-streaming client SDKs read it:
//     records are separated by LF, empty lines are ignored.
//   - w7hVarintParser: Protobuf streaming framing of the Centrifugo client protocol:
//     every message is prefixed by its length as a base-128 varint.
//
// All three are incremental: Feed may be called with arbitrary chunks, the result must
// not depend on the chunking (the oracle feeds the same body twice with different
// chunk boundaries and compares).

import (
	"bytes"
	"encoding/binary"
	"encoding/json"

	"github.com/centrifugal/protocol"
)

type w7hRecord struct {
	Data []byte
	Type string // SSE event type ("message" by default)
}

type w7hParser interface {
	Feed(chunk []byte)
	// Pending is the number of bytes received after the last complete event/record
	// that do not form a complete one (what a client loses at end of stream).
	Pending() int
	// Err is a framing error that makes the rest of the stream unreadable.
	Err() string
}

// ---------------------------------------------------------------- SSE

type w7hSSEParser struct {
	emit              func(w7hRecord)
	head              []byte // first bytes of the stream until the BOM decision is made
	headOK            bool
	line              []byte
	sawCR             bool
	data              []byte
	hasData           bool
	evType            string
	lastID            string
	pending           int
	Comments, Ignored int
}

func (p *w7hSSEParser) Err() string  { return "" }
func (p *w7hSSEParser) Pending() int { return p.pending }

func (p *w7hSSEParser) Feed(chunk []byte) {
	if !p.headOK {
		p.head = append(p.head, chunk...)
		bom := []byte{0xEF, 0xBB, 0xBF}
		if len(p.head) < 3 && bytes.HasPrefix(bom, p.head) {
			return // undecided
		}
		p.headOK = true
		chunk = p.head
		if bytes.HasPrefix(chunk, bom) {
			chunk = chunk[3:]
		}
		p.head = nil
	}
	for _, b := range chunk {
		if p.sawCR {
			p.sawCR = false
			if b == '\n' {
				continue // CRLF is one line end
			}
		}
		switch b {
		case '\r':
			p.sawCR = true
			p.endLine()
		case '\n':
			p.endLine()
		default:
			p.line = append(p.line, b)
			p.pending++
		}
	}
}

func (p *w7hSSEParser) endLine() {
	line := p.line
	p.line = p.line[:0]
	if len(line) == 0 {
		p.dispatch()
		return
	}
	if line[0] == ':' {
		p.Comments++
		return
	}
	var field, value []byte
	if i := bytes.IndexByte(line, ':'); i >= 0 {
		field, value = line[:i], line[i+1:]
		if len(value) > 0 && value[0] == ' ' {
			value = value[1:]
		}
	} else {
		field = line
	}
	switch string(field) {
	case "event":
		p.evType = string(value)
	case "data":
		p.data = append(p.data, value...)
		p.data = append(p.data, '\n')
		p.hasData = true
	case "id":
		if bytes.IndexByte(value, 0) < 0 {
			p.lastID = string(value)
		}
	case "retry":
		// reconnection time: irrelevant here
	default:
		p.Ignored++
	}
}

func (p *w7hSSEParser) dispatch() {
	p.pending = 0
	if !p.hasData || len(p.data) == 0 {
		p.data = p.data[:0]
		p.hasData = false
		p.evType = ""
		return
	}
	d := p.data
	if d[len(d)-1] == '\n' {
		d = d[:len(d)-1]
	}
	typ := p.evType
	if typ == "" {
		typ = "message"
	}
	rec := w7hRecord{Data: append([]byte(nil), d...), Type: typ}
	p.data = p.data[:0]
	p.hasData = false
	p.evType = ""
	p.emit(rec)
}

// ---------------------------------------------------------------- newline-delimited JSON

type w7hLineParser struct {
	emit  func(w7hRecord)
	line  []byte
	Empty int
}

func (p *w7hLineParser) Err() string  { return "" }
func (p *w7hLineParser) Pending() int { return len(p.line) }

func (p *w7hLineParser) Feed(chunk []byte) {
	for _, b := range chunk {
		if b != '\n' {
			p.line = append(p.line, b)
			continue
		}
		if len(p.line) == 0 {
			p.Empty++
			continue
		}
		rec := w7hRecord{Data: append([]byte(nil), p.line...)}
		p.line = p.line[:0]
		p.emit(rec)
	}
}

// ---------------------------------------------------------------- varint length-prefixed

type w7hVarintParser struct {
	emit func(w7hRecord)
	buf  []byte
	err  string
}

func (p *w7hVarintParser) Err() string  { return p.err }
func (p *w7hVarintParser) Pending() int { return len(p.buf) }

func (p *w7hVarintParser) Feed(chunk []byte) {
	if p.err != "" {
		return
	}
	p.buf = append(p.buf, chunk...)
	for len(p.buf) > 0 {
		l, n := binary.Uvarint(p.buf)
		if n == 0 {
			return // length prefix incomplete
		}
		if n < 0 || l > 1<<30 {
			p.err = "length prefix is not a valid varint"
			return
		}
		if uint64(len(p.buf)-n) < l {
			return
		}
		rec := w7hRecord{Data: append([]byte(nil), p.buf[n:n+int(l)]...)}
		p.buf = p.buf[n+int(l):]
		p.emit(rec)
	}
}

// ---------------------------------------------------------------- content decoding

// w7hJSONReply is the subset of the JSON client protocol the oracle needs, decoded with
// encoding/json (strict about the document being exactly one JSON value).
type w7hJSONReply struct {
	ID    uint32 `json:"id"`
	Error *struct {
		Code    uint32 `json:"code"`
		Message string `json:"message"`
	} `json:"error"`
	Push *struct {
		Channel string `json:"channel"`
		Pub     *struct {
			Data   json.RawMessage `json:"data"`
			Offset uint64          `json:"offset"`
		} `json:"pub"`
		Message *struct {
			Data json.RawMessage `json:"data"`
		} `json:"message"`
		Disconnect *struct {
			Code   uint32 `json:"code"`
			Reason string `json:"reason"`
		} `json:"disconnect"`
		Join        json.RawMessage `json:"join"`
		Leave       json.RawMessage `json:"leave"`
		Subscribe   json.RawMessage `json:"subscribe"`
		Unsubscribe json.RawMessage `json:"unsubscribe"`
		Connect     json.RawMessage `json:"connect"`
		Refresh     json.RawMessage `json:"refresh"`
	} `json:"push"`
	Connect *struct {
		Client string                     `json:"client"`
		Data   json.RawMessage            `json:"data"`
		Subs   map[string]json.RawMessage `json:"subs"`
	} `json:"connect"`
}

// w7hDecode turns one event/record into a message. ok=false: not decodable.
func w7hDecode(isJSON bool, rec []byte) (m w7hMsg, err error) {
	if isJSON {
		var r w7hJSONReply
		if err = json.Unmarshal(rec, &r); err != nil {
			return m, err
		}
		var top map[string]json.RawMessage
		_ = json.Unmarshal(rec, &top)
		m.ReplyID = r.ID
		switch {
		case r.Error != nil:
			m.Kind, m.Code, m.Reason = "error", r.Error.Code, r.Error.Message
		case r.Push != nil:
			m.Ch = r.Push.Channel
			switch {
			case r.Push.Pub != nil:
				m.Kind, m.Data = "pub", r.Push.Pub.Data
			case r.Push.Message != nil:
				m.Kind, m.Data = "message", r.Push.Message.Data
			case r.Push.Disconnect != nil:
				m.Kind, m.Code, m.Reason = "disconnect", r.Push.Disconnect.Code, r.Push.Disconnect.Reason
			default:
				m.Kind = "push-other"
			}
		case r.Connect != nil:
			m.Kind, m.Data = "connect", r.Connect.Data
			for ch := range r.Connect.Subs {
				m.Subs = append(m.Subs, ch)
			}
		case len(top) == 0:
			m.Kind = "ping"
		default:
			m.Kind = "other"
		}
		return m, nil
	}
	var r protocol.Reply
	if err = r.UnmarshalVT(rec); err != nil {
		return m, err
	}
	m.ReplyID = r.Id
	switch {
	case r.Error != nil:
		m.Kind, m.Code, m.Reason = "error", r.Error.Code, r.Error.Message
	case r.Push != nil:
		m.Ch = r.Push.Channel
		switch {
		case r.Push.Pub != nil:
			m.Kind, m.Data = "pub", r.Push.Pub.Data
		case r.Push.Message != nil:
			m.Kind, m.Data = "message", r.Push.Message.Data
		case r.Push.Disconnect != nil:
			m.Kind, m.Code, m.Reason = "disconnect", r.Push.Disconnect.Code, r.Push.Disconnect.Reason
		default:
			m.Kind = "push-other"
		}
	case r.Connect != nil:
		m.Kind, m.Data = "connect", r.Connect.Data
		for ch := range r.Connect.Subs {
			m.Subs = append(m.Subs, ch)
		}
	case len(rec) == 0:
		m.Kind = "ping"
	default:
		m.Kind = "other"
	}
	return m, nil
}

// w7hCanon is the comparison form of a payload: JSON documents modulo insignificant
// whitespace, anything else byte for byte.
func w7hCanon(isJSON bool, data []byte) string {
	if !isJSON {
		return "b:" + string(data)
	}
	var b bytes.Buffer
	if err := json.Compact(&b, data); err != nil {
		return "!invalid:" + string(data)
	}
	return "j:" + b.String()
}
