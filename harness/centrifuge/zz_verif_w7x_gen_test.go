//go:build verif

package centrifuge

import (
	"encoding/json"
	"strconv"
	"strings"

	simrt "github.com/centrifugal/centrifuge/internal/simrt"
)

type w7xGenState struct {
	c      *simrt.Choice
	nextID int
	nextCd uint32
	prop   string
}

func (g *w7xGenState) id() int { g.nextID++; return g.nextID }

// disc draws a custom disconnect: a unique application code (4000-4999 may be sent in a
// close frame, RFC 6455 7.4.2) and a reason whose BYTE length is drawn around the largest
// one that fits in a control frame (125 - 2 = 123).
func (g *w7xGenState) disc() *w7xDisc {
	c := g.c
	g.nextCd++
	code := 4000 + g.nextCd
	lens := []int{7, 0, 1, 60, 120, 121, 122, 123, 124, 125, 126, 300}
	var n int
	if g.prop == "C31" {
		n = lens[c.Pick(2, 1, 1, 1, 1, 1, 2, 6, 2, 1, 1, 1)]
	} else {
		n = lens[c.Pick(8, 1, 0, 1, 0, 0, 0, 2, 1, 0, 0, 1)]
	}
	head := "r" + strconv.Itoa(int(code)) + " "
	var b strings.Builder
	multibyte := c.Intn(4) == 3
	for b.Len() < n {
		switch {
		case b.Len() == 0 && n >= len(head):
			b.WriteString(head)
		case multibyte && n-b.Len() >= 2 && b.Len()%7 == 0:
			b.WriteString("é")
		default:
			b.WriteByte("abcdefghijklmnopqrstuvwxyz"[b.Len()%26])
		}
	}
	return &w7xDisc{Code: code, Reason: b.String()}
}

func w7xGen(c *simrt.Choice, prop, tier string) any {
	g := &w7xGenState{c: c, prop: prop}
	sc := &w7xScript{SettleMs: 3000}
	f11, f08, f31 := prop == "C11", prop == "C08", prop == "C31"
	nconn := 1 + c.Pick(5, 3, 1)
	if f08 {
		nconn = 1 + c.Pick(2, 3, 2)
		sc.AliveMs = []int{0, 50, 300, 1000}[c.Intn(4)]
	}
	switch c.Pick(8, 1, 1) {
	case 1:
		sc.WBuf = []int{16, 64, 200}[c.Intn(3)]
	case 2:
		sc.WPool = true
	}
	sc.OffLoop = c.Intn(5) == 4
	if c.Intn(4) == 3 {
		sc.PingMs = []int{500, 2000}[c.Intn(2)]
		sc.PongMs = sc.PingMs / 2
	}
	stale := !f08 && c.Intn(6) == 5
	if stale {
		sc.StaleMs = []int{1, 3, 20}[c.Intn(3)]
	}
	chans := []string{"s0", "s1"}
	for i := 0; i < nconn; i++ {
		cn := w7xConn{Proto: "json", FailWrite: -1}
		if c.Intn(3) == 2 {
			cn.Proto = "protobuf"
		}
		cn.ProtoVia = c.Pick(4, 1, 1)
		if cn.Proto == "json" && cn.ProtoVia == 2 {
			cn.ProtoVia = 1
		}
		cn.Origin = c.Intn(3) == 2
		cn.StartUs = []int{0, 0, 100, 1000, 5000}[c.Intn(5)]
		cn.Eager = c.Intn(3) == 2
		cn.ReactUs = []int{0, 0, 0, 50, 2000}[c.Intn(5)]
		if f11 {
			cn.Dict = c.Pick(1, 8, 2, 1)
		} else {
			cn.Dict = c.Pick(6, 2, 0, 0)
		}
		switch c.Pick(3, 3, 1, 2) {
		case 1:
			cn.Subs = []string{chans[0]}
		case 2:
			cn.Subs = []string{chans[0], chans[1]}
		case 3:
			cn.Subs = []string{chans[1]}
		}
		cn.ConnectingUs = []int{0, 0, 0, 100, 2000}[c.Intn(5)]
		if stale && c.Intn(2) == 1 {
			// the stale timer fires while OnConnecting is still running, or just after
			cn.ConnectingUs = sc.StaleMs*1000 + []int{-1, 0, 1, 500}[c.Intn(4)]
		}
		cn.WriteDelayUs = []int{0, 0, 200, 3000}[c.Intn(4)]
		cn.MaxInFrame = []int{0, 0, 0, 1, 2}[c.Intn(5)]
		cn.RNQ = c.Intn(5) == 4
		rejW := 12
		if f31 {
			rejW = 3
		}
		if c.Intn(rejW) == rejW-1 {
			cn.Reject = g.disc()
		}
		cn.OcPreYield = c.Intn(3) == 2
		cn.OcEndYield = c.Intn(3) == 2
		if !f08 || c.Intn(2) == 1 {
			for k := c.Pick(3, 3, 2, 1); k > 0; k-- {
				cn.OcSend = append(cn.OcSend, g.id())
			}
			if len(cn.Subs) > 0 && c.Intn(4) == 3 {
				cn.OcPub = g.id()
			}
		}
		ocdW := 10
		if f31 {
			ocdW = 5
		}
		if c.Intn(ocdW) == ocdW-1 {
			cn.OcDisc = g.disc()
		}
		if c.Intn(4) == 3 {
			cn.RpcAsyncUs = []int{50, 1000, 100000}[c.Intn(3)]
		}
		cn.MsgEcho = c.Intn(2) == 1
		cn.Seg = c.Pick(3, 1)
		if c.Intn(8) == 7 {
			cn.FailWrite = c.Intn(6)
			cn.FailKind = 1 + c.Intn(3)
			cn.StallMs = []int{1, 300, 1500}[c.Intn(3)]
		}
		cn.EchoClose = c.Pick(4, 1)
		if sc.PingMs > 0 {
			cn.FramePing = c.Intn(4) == 3
			cn.NoPong = c.Intn(5) == 4
		}
		if f08 {
			cn.StartRel = c.Pick(3, 3, 4)
			if cn.StartRel > 0 {
				cn.StartUs = []int{0, 0, 1, 100, 2000}[c.Intn(5)]
			}
		} else if c.Intn(10) == 9 {
			cn.StartRel = 1 + c.Intn(2)
		}
		// what the client does once connected
		nops := c.Pick(3, 3, 2, 1)
		if f08 {
			nops = c.Pick(4, 2, 1)
		}
		for k := 0; k < nops; k++ {
			switch c.Pick(4, 3, 3, 1, 1, 1) {
			case 0:
				cn.Ops = append(cn.Ops, w7xCliOp{K: "rpc", ID: g.id()})
			case 1:
				cn.Ops = append(cn.Ops, w7xCliOp{K: "msg", ID: g.id()})
			case 2:
				cn.Ops = append(cn.Ops, w7xCliOp{K: "sleep", Us: []int{1, 100, 2000, 50000, 400000}[c.Intn(5)]})
			case 3:
				cn.Ops = append(cn.Ops, w7xCliOp{K: "close", Code: []int{1000, 1001, 3000, 4999}[c.Intn(4)]})
			case 4:
				cn.Ops = append(cn.Ops, w7xCliOp{K: "drop"})
			case 5:
				cn.Ops = append(cn.Ops, w7xCliOp{K: "wsping"})
			}
		}
		sc.Conns = append(sc.Conns, cn)
	}
	ndrv := 1 + c.Intn(2)
	maxOps := 6
	if tier == "thorough" {
		maxOps = 14
	}
	if f08 {
		ndrv, maxOps = 1, 3
	}
	for d := 0; d < ndrv; d++ {
		var ops []w7xOp
		if c.Intn(3) > 0 {
			ops = append(ops, w7xOp{K: "sleep", Us: []int{100, 1000, 5000, 1, 20000}[c.Intn(5)]})
		}
		n := 1 + c.Intn(maxOps)
		for i := 0; i < n; i++ {
			ci := c.Intn(nconn)
			var k int
			switch {
			case f31:
				k = c.Pick(3, 2, 0, 0, 3, 4, 4)
			case f08:
				k = c.Pick(3, 2, 0, 0, 3, 1, 1)
			default:
				k = c.Pick(6, 4, 2, 1, 4, 1, 1)
			}
			switch k {
			case 0:
				ops = append(ops, w7xOp{K: "pub", Ch: chans[c.Intn(2)], ID: g.id()})
			case 1:
				ops = append(ops, w7xOp{K: "send", C: ci, ID: g.id()})
			case 2:
				ops = append(ops, w7xOp{K: "lsend", C: ci, ID: g.id()})
			case 3:
				ops = append(ops, w7xOp{K: "nsub", C: ci, Ch: "n" + strconv.Itoa(c.Intn(2))})
			case 4:
				ops = append(ops, w7xOp{K: "sleep", Us: []int{1, 100, 1000, 5000, 50000, 400000}[c.Intn(6)]})
			case 5:
				ops = append(ops, w7xOp{K: "disc", C: ci, D: g.disc()})
			case 6:
				ops = append(ops, w7xOp{K: "ndisc", C: ci, D: g.disc()})
			}
		}
		sc.Drivers = append(sc.Drivers, ops)
	}
	shutW := 8
	if f31 {
		shutW = 4
	}
	if f08 || c.Intn(shutW) == shutW-1 {
		at := c.Intn(len(sc.Drivers[0]) + 1)
		ops := append([]w7xOp(nil), sc.Drivers[0][:at]...)
		ops = append(ops, w7xOp{K: "shutdown"})
		if f08 {
			ops = append(ops, w7xOp{K: "sleep", Us: []int{1, 100, 5000}[c.Intn(3)]})
		}
		ops = append(ops, sc.Drivers[0][at:]...)
		sc.Drivers[0] = ops
	}
	return sc
}

// ---------------------------------------------------------------- shrinking

func w7xClone(sc *w7xScript) *w7xScript {
	b, _ := json.Marshal(sc)
	var c w7xScript
	_ = json.Unmarshal(b, &c)
	return &c
}

func w7xShrinks(script any) []any {
	sc := script.(*w7xScript)
	var out []any
	// drop a connection
	for i := range sc.Conns {
		if len(sc.Conns) < 2 {
			break
		}
		c := w7xClone(sc)
		c.Conns = append(c.Conns[:i], c.Conns[i+1:]...)
		for d := range c.Drivers {
			var ops []w7xOp
			for _, op := range c.Drivers[d] {
				switch op.K {
				case "send", "lsend", "nsub", "disc", "ndisc":
					if op.C == i {
						continue
					}
					if op.C > i {
						op.C--
					}
				}
				ops = append(ops, op)
			}
			c.Drivers[d] = ops
		}
		out = append(out, c)
	}
	for d := range sc.Drivers {
		if len(sc.Drivers) < 2 {
			break
		}
		c := w7xClone(sc)
		c.Drivers = append(c.Drivers[:d], c.Drivers[d+1:]...)
		out = append(out, c)
	}
	for d := range sc.Drivers {
		for k := range sc.Drivers[d] {
			c := w7xClone(sc)
			c.Drivers[d] = append(c.Drivers[d][:k], c.Drivers[d][k+1:]...)
			out = append(out, c)
		}
	}
	shorter := func(d *w7xDisc) *w7xDisc {
		if d == nil || len(d.Reason) <= 4 {
			return nil
		}
		return &w7xDisc{Code: d.Code, Reason: d.Reason[:4]}
	}
	for d := range sc.Drivers {
		for k, op := range sc.Drivers[d] {
			if sd := shorter(op.D); sd != nil {
				c := w7xClone(sc)
				c.Drivers[d][k].D = sd
				out = append(out, c)
			}
			if op.K == "sleep" && op.Us > 1 {
				c := w7xClone(sc)
				c.Drivers[d][k].Us = 1
				out = append(out, c)
			}
		}
	}
	for i := range sc.Conns {
		cn := sc.Conns[i]
		mut := func(f func(*w7xConn)) {
			c := w7xClone(sc)
			f(&c.Conns[i])
			out = append(out, c)
		}
		for k := range cn.Ops {
			k := k
			mut(func(x *w7xConn) { x.Ops = append(append([]w7xCliOp(nil), x.Ops[:k]...), x.Ops[k+1:]...) })
		}
		if cn.FailWrite >= 0 {
			mut(func(x *w7xConn) { x.FailWrite, x.FailKind, x.StallMs = -1, 0, 0 })
		}
		if cn.Reject != nil {
			mut(func(x *w7xConn) { x.Reject = nil })
			if sd := shorter(cn.Reject); sd != nil {
				mut(func(x *w7xConn) { x.Reject = sd })
			}
		}
		if cn.OcDisc != nil {
			mut(func(x *w7xConn) { x.OcDisc = nil })
			if sd := shorter(cn.OcDisc); sd != nil {
				mut(func(x *w7xConn) { x.OcDisc = sd })
			}
		}
		if len(cn.OcSend) > 0 {
			mut(func(x *w7xConn) { x.OcSend = x.OcSend[:len(x.OcSend)-1] })
		}
		if cn.OcPub != 0 {
			mut(func(x *w7xConn) { x.OcPub = 0 })
		}
		if cn.Dict != 0 {
			mut(func(x *w7xConn) { x.Dict = 0 })
			if cn.Dict != 1 {
				mut(func(x *w7xConn) { x.Dict = 1 })
			}
		}
		if cn.RNQ {
			mut(func(x *w7xConn) { x.RNQ = false })
		}
		if cn.WriteDelayUs > 0 {
			mut(func(x *w7xConn) { x.WriteDelayUs = 0 })
		}
		if cn.MaxInFrame > 0 {
			mut(func(x *w7xConn) { x.MaxInFrame = 0 })
		}
		if cn.ConnectingUs > 0 {
			mut(func(x *w7xConn) { x.ConnectingUs = 0 })
		}
		if cn.StartUs > 0 {
			mut(func(x *w7xConn) { x.StartUs = 0 })
		}
		if cn.ReactUs > 0 {
			mut(func(x *w7xConn) { x.ReactUs = 0 })
		}
		if cn.Eager {
			mut(func(x *w7xConn) { x.Eager = false })
		}
		if cn.Seg != 0 {
			mut(func(x *w7xConn) { x.Seg = 0 })
		}
		if cn.OcPreYield {
			mut(func(x *w7xConn) { x.OcPreYield = false })
		}
		if cn.OcEndYield {
			mut(func(x *w7xConn) { x.OcEndYield = false })
		}
		if cn.RpcAsyncUs > 0 {
			mut(func(x *w7xConn) { x.RpcAsyncUs = 0 })
		}
		if cn.MsgEcho {
			mut(func(x *w7xConn) { x.MsgEcho = false })
		}
		if cn.EchoClose != 0 {
			mut(func(x *w7xConn) { x.EchoClose = 0 })
		}
		if cn.FramePing {
			mut(func(x *w7xConn) { x.FramePing = false })
		}
		if cn.NoPong {
			mut(func(x *w7xConn) { x.NoPong = false })
		}
		if cn.Proto == "protobuf" {
			mut(func(x *w7xConn) { x.Proto, x.ProtoVia = "json", 0 })
		}
		if cn.Origin {
			mut(func(x *w7xConn) { x.Origin = false })
		}
		if len(cn.Subs) > 0 {
			mut(func(x *w7xConn) { x.Subs = x.Subs[:len(x.Subs)-1] })
		}
	}
	if sc.AliveMs > 0 {
		c := w7xClone(sc)
		c.AliveMs = 0
		out = append(out, c)
	}
	if sc.StaleMs > 0 {
		c := w7xClone(sc)
		c.StaleMs = 0
		out = append(out, c)
	}
	if sc.PingMs > 0 {
		c := w7xClone(sc)
		c.PingMs, c.PongMs = 0, 0
		for i := range c.Conns {
			c.Conns[i].FramePing, c.Conns[i].NoPong = false, false
		}
		out = append(out, c)
	}
	if sc.WBuf != 0 || sc.WPool || sc.OffLoop {
		c := w7xClone(sc)
		c.WBuf, c.WPool, c.OffLoop = 0, false, false
		out = append(out, c)
	}
	return out
}
