//go:build verif

package centrifuge

import (
	"fmt"
	"strings"
)

// ---------------------------------------------------------------- C08: shutdown

func (w *w7xWorld) inHub(c *w7xConnState) bool {
	if c.client == nil {
		return false
	}
	for _, sh := range w.node.hub.connShards {
		sh.mu.RLock()
		_, ok := sh.clients[c.client.uid]
		sh.mu.RUnlock()
		if ok {
			return true
		}
	}
	return false
}

// checkAfterShutdown runs once Shutdown has returned and the settle time has passed:
// "after node shutdown completes, no connection stays connected". A connection is
// connected when its peer received a connect reply and neither a close frame nor the end
// of the byte stream, and did not leave itself.
func (w *w7xWorld) checkAfterShutdown() {
	s := w.s
	any := false
	attributed := 0
	for _, c := range w.conns {
		if !c.dialed {
			continue
		}
		any = true
		cl := &c.cli
		connected := cl.connectSeq != 0 && len(cl.closes) == 0 && cl.eofSeq == 0 && !cl.dropped && !cl.sentClose
		c.connected = connected
		registered := w.inHub(c)
		if registered {
			attributed++
		}
		if !connected && !registered {
			continue
		}
		var sig string
		switch {
		case cl.connectSeq != 0 && cl.connectSeq < w.shutdownBegan:
			sig = "connection connected before Shutdown began survived it"
		case !c.shutAtHijack:
			// same class and wording as world W1 (the handler's NotifyShutdown check
			// passed before Shutdown was signalled; hub.shutdown took its snapshot before
			// the connection registered)
			s.Probe("raced_shutdown_survivor")
			sig = "connection that raced Shutdown (accepted by the transport handler before Shutdown began) stays connected"
		default:
			sig = "websocket: connection upgraded after Shutdown was signalled stays connected"
		}
		s.Violate("C08", "connected-after-shutdown", sig,
			"conn %d: connect reply at seq %d, peer connected=%v, registered in hub=%v although Shutdown returned (seq %d..%d) and %dms passed; upgraded at seq %d with shutdown signalled=%v",
			c.idx, cl.connectSeq, connected, registered, w.shutdownBegan, w.shutdownRet, w.sc.SettleMs, c.hijackSeq, c.shutAtHijack)
	}
	if n := w.node.hub.NumClients(); n != attributed {
		s.Violate("C08", "hub-not-empty-after-shutdown", "websocket: hub.NumClients() counts connections the harness cannot attribute",
			"hub.NumClients()=%d after Shutdown returned and %dms passed, attributed %d", n, w.sc.SettleMs, attributed)
	}
	if any {
		s.Probe("nontrivial:C08")
	}
}

// ---------------------------------------------------------------- per connection, end of run

func (c *w7xConnState) rnq() string {
	if c.spec.RNQ {
		return " [reply-without-queue]"
	}
	return ""
}

func (w *w7xWorld) checkConn(c *w7xConnState) {
	if !c.dialed {
		return
	}
	w.checkFirstFrame(c)
	w.checkCallbacks(c)
	w.checkCloseFrame(c)
}

// C11, wire part.
func (w *w7xWorld) checkFirstFrame(c *w7xConnState) {
	s := w.s
	cl := &c.cli
	if len(cl.msgs) == 0 {
		return
	}
	s.Probe("nontrivial:C11")
	first := cl.msgs[0]
	isConnect := func(m *w7xMsg) bool {
		return len(m.Replies) > 0 && m.Replies[0].Kind == "connect" && m.Replies[0].ID == cl.connectID && cl.connectID != 0
	}
	firstOK := false
	switch {
	case first.Bad != "":
		// reported where it was parsed
	case first.Encoded:
		s.Violate("C11", "connect-reply-compressed", "websocket: the first data frame went through the dictionary encoder",
			"conn %d: first data frame carries the encoder marker (encoder of conn %d, Encode #%d), content: %s", c.idx, first.EncConn, first.EncSeq, first.kinds())
	case !isConnect(first):
		kind, ch := "nothing", ""
		var id uint32
		if len(first.Replies) > 0 {
			kind, ch, id = first.Replies[0].Kind, first.Replies[0].Ch, first.Replies[0].ID
		}
		// what could have produced it (classes and wording of world W1)
		cause := "unexplained"
		produces := map[string][]string{"push:sub": {"nsub"}, "push:message": {"csend"}, "push:join": {"nsub"}, "push:pub": {"nsub"}}[kind]
		for _, op := range w.ops {
			for _, k := range produces {
				if k == op.Kind && op.C == c.idx && op.Seq < first.Seq && (op.Ret == 0 || op.Ret > cl.connectSentSeq) {
					cause = "node-level " + op.Kind + " during connect"
				}
			}
		}
		if cause == "unexplained" && (kind == "push:pub" || kind == "push:join" || kind == "push:leave") {
			for _, sub := range c.spec.Subs {
				if sub == ch {
					cause = "broadcast to connect-time subscription"
				}
			}
		}
		s.Violate("C11", "first-frame-not-connect-reply", "first frame "+kind+" ("+cause+")",
			"conn %d: the first data frame on the wire starts with %s (id %d, channel %q; whole frame: %s), not with the connect reply; cause: %s", c.idx, kind, id, ch, first.kinds(), cause)
	default:
		firstOK = true
		s.Probe("first_frame_is_connect_reply")
		if len(first.Replies) > 1 {
			s.Probe("connect_reply_shares_frame")
		}
	}
	// negotiation as the peer sees it
	negotiated := cl.connectRes != nil && cl.connectRes.Flag&ConnectionFlagDictionaryCompression != 0
	if cl.connectRes != nil {
		want := c.spec.Dict == 1 || c.spec.Dict == 2
		d := cl.connectRes.Dict
		switch {
		case negotiated != want:
			s.Violate("C11", "negotiation", "websocket: dictionary compression flag in the connect reply differs from what the engine decided",
				"conn %d: dict mode %d, flag echoed=%v", c.idx, c.spec.Dict, negotiated)
		case want && (d == nil || (c.spec.Dict == 1 && len(d.Data) == 0 && d.DataB64 == "") || (c.spec.Dict == 2 && d.Id != w7xHeldDict)):
			s.Violate("C11", "negotiation", "websocket: connect reply does not carry the engine's dictionary",
				"conn %d: dict mode %d, dict=%v", c.idx, c.spec.Dict, d)
		case !want && d != nil:
			s.Violate("C11", "negotiation", "websocket: connect reply carries a dictionary although compression was not negotiated",
				"conn %d: dict mode %d, dict id %q", c.idx, c.spec.Dict, d.Id)
		}
	}
	if cl.connectRes == nil {
		return
	}
	var lastSeq uint32
	for i, m := range cl.msgs {
		if m.Encoded {
			if m.EncConn != c.idx {
				s.Violate("C11", "foreign-encoder", "websocket: frame encoded by another connection's encoder",
					"conn %d: data frame %d carries the marker of conn %d's encoder", c.idx, i+1, m.EncConn)
			} else if m.EncSeq <= lastSeq {
				s.Violate("C11", "encoder-output-reordered", "websocket: encoder outputs reach the wire out of order or twice",
					"conn %d: data frame %d is Encode #%d after Encode #%d", c.idx, i+1, m.EncSeq, lastSeq)
			}
			lastSeq = m.EncSeq
		}
		if i == 0 {
			continue
		}
		switch {
		case negotiated && !m.Encoded:
			how := "single message"
			if len(m.Replies) > 1 {
				how = "batch"
			}
			after := "after a connect reply that went out alone"
			if len(first.Replies) > 1 {
				after = "after a connect reply that shared its frame with other messages"
			}
			if !firstOK {
				after = "after a first frame that was not the connect reply"
			}
			s.Violate("C11", "raw-frame-after-connect-reply", "websocket: frame after the first one bypassed the dictionary encoder"+c.rnq(),
				"conn %d: data frame %d (%s: %s) was written raw %s; %d Encode calls on this connection", c.idx, i+1, how, m.kinds(), after, c.encodes())
			return
		case !negotiated && m.Encoded:
			s.Violate("C11", "encoded-without-negotiation", "websocket: frame went through a dictionary encoder although compression was not negotiated",
				"conn %d: data frame %d (%s)", c.idx, i+1, m.kinds())
			return
		case negotiated:
			s.Probe("later_frame_encoded")
			if len(first.Replies) > 1 && firstOK {
				s.Probe("frame_after_shared_connect_reply")
			}
		}
	}
}

func (c *w7xConnState) encodes() int {
	if c.enc == nil {
		return 0
	}
	return c.enc.encodes
}

// C11, encoder discipline: every encoder the engine created is closed exactly once when
// its connection has gone away (every connection has, at the end of a run), never while an
// Encode is in progress and never before one.
func (w *w7xWorld) checkEncoders() {
	s := w.s
	for _, d := range w.encs {
		c := d.c
		s.Probe("c11_encoder_checked")
		if d.closeDuring {
			s.Violate("C11", "encoder-closed-during-use", "dictionary encoder closed while an Encode was in progress"+c.rnq(),
				"conn %d: Close ran while Encode was executing (%d Encode calls)", c.idx, d.encodes)
		}
		if d.afterClose > 0 {
			s.Violate("C11", "encoder-used-after-close", "frame encoded after the dictionary encoder was closed"+c.rnq(),
				"conn %d: %d Encode calls began after Close", c.idx, d.afterClose)
		}
		if d.closes > 1 {
			s.Violate("C11", "encoder-closed-twice", "dictionary encoder closed more than once", "conn %d: closed %d times", c.idx, d.closes)
		}
		if d.closes == 0 {
			state := "the connection's socket was closed by the server"
			if c.nc == nil || !c.nc.closed {
				state = "the connection's socket is still open"
			}
			if tr := c.tr; tr != nil {
				// where the real transport still holds it (diagnostics, not part of the verdict)
				state += fmt.Sprintf("; websocketTransport.compression set=%v, compressionPending set=%v", tr.compression.Load() != nil, tr.compressionPending.Load() != nil)
			}
			s.Violate("C11", "encoder-not-closed", "dictionary encoder never closed although the connection ended"+c.rnq(),
				"conn %d: encoder created (mode %d, %d Encode calls), Close never called; client gone, node shut down, %s", c.idx, d.mode, d.encodes, state)
		}
		if d.mode == 3 && d.encodes > 0 {
			s.Violate("C11", "encoded-without-negotiation", "websocket: declined encoder was used", "conn %d: %d Encode calls on an encoder whose dictionary the client never advertised", c.idx, d.encodes)
		}
	}
}

// C08, callbacks and "no new connection becomes connected".
func (w *w7xWorld) checkCallbacks(c *w7xConnState) {
	s := w.s
	cl := &c.cli
	if len(c.onConnect) > 1 {
		s.Violate("C08", "connect-twice", "websocket: OnConnect ran more than once for one connection", "conn %d: %d times (seqs %v)", c.idx, len(c.onConnect), c.onConnect)
	}
	if len(c.onDisconnect) > 1 {
		s.Violate("C08", "disconnect-twice", "websocket: OnDisconnect ran more than once for one connection", "conn %d: %d times (seqs %v)", c.idx, len(c.onDisconnect), c.onDisconnect)
	}
	if len(c.onDisconnect) > 0 && len(c.onConnect) == 0 {
		s.Violate("C08", "disconnect-without-connect", "websocket: OnDisconnect ran although OnConnect never did", "conn %d", c.idx)
	}
	for _, name := range c.earlyCallbacks {
		s.Violate("C08", "callback-before-connect-returned", "websocket: "+name+" ran before OnConnect returned", "conn %d: callbacks that ran while OnConnect was still executing: %v", c.idx, c.earlyCallbacks)
		break
	}
	if len(c.onDisconnect) > 0 {
		for _, a := range c.alive {
			if a > c.onDisconnect[0] {
				s.Violate("C08", "alive-after-disconnect", "websocket: OnAlive ran after OnDisconnect", "conn %d: OnAlive at seq %d, OnDisconnect at seq %d", c.idx, a, c.onDisconnect[0])
				break
			}
		}
	}
	served := c.connectingSeq != 0 || len(c.onConnect) > 0 || cl.connectSeq != 0
	if c.hijackSeq != 0 && c.shutAtHijack {
		s.Probe("upgrade_after_shutdown_signalled")
		if w.shutdownRet != 0 && c.dialSeq > w.shutdownRet {
			s.Probe("nontrivial:C08")
		}
		if served {
			when := "upgraded after Shutdown was signalled"
			if w.shutdownRet != 0 && c.dialSeq > w.shutdownRet {
				when = "dialed after Shutdown returned"
			}
			s.Violate("C08", "connect-after-shutdown", "websocket: connection "+when+" was served",
				"conn %d: dialed at seq %d, upgraded at seq %d (Shutdown %d..%d); OnConnecting at seq %d, OnConnect %v, connect reply at seq %d",
				c.idx, c.dialSeq, c.hijackSeq, w.shutdownBegan, w.shutdownRet, c.connectingSeq, c.onConnect, cl.connectSeq)
		}
	}
	if c.hijackSeq != 0 && !c.nc.closed {
		s.Violate("C08", "socket-left-open", "websocket: the server never closed the hijacked connection although the client is gone and the node is shut down",
			"conn %d: upgraded at seq %d, client dropped at seq %d, Shutdown %d..%d; connect reply seen=%v close frames=%d", c.idx, c.hijackSeq, cl.dropSeq, w.shutdownBegan, w.shutdownRet, cl.connectSeq != 0, len(cl.closes))
	}
}

// C31, close-frame half.
func (w *w7xWorld) checkCloseFrame(c *w7xConnState) {
	s := w.s
	cl := &c.cli
	if !cl.hsDone {
		return
	}
	if len(cl.closes) > 1 {
		s.Violate("C31", "multiple-close-frames", "websocket: more than one close frame sent", "conn %d: %d close frames (codes %d, %d)", c.idx, len(cl.closes), cl.closes[0].Code, cl.closes[1].Code)
	}
	if len(cl.afterCls) > 0 {
		s.Violate("C31", "frame-after-close", "websocket: frames sent after the close frame", "conn %d: after the close frame (code %d): %v", c.idx, cl.closes[0].Code, cl.afterCls)
	}
	shutdown := w7xDisc{Code: DisconnectShutdown.Code, Reason: DisconnectShutdown.Reason}
	if len(cl.closes) > 0 {
		cf := cl.closes[0]
		got := w7xDisc{Code: uint32(cf.Code), Reason: cf.Reason}
		type cand struct {
			d   w7xDisc
			src string
		}
		var cands []cand
		for _, is := range c.issued {
			if is.Seq < cf.Seq {
				cands = append(cands, cand{is.D, is.Source})
			}
		}
		if w.shutdownBegan != 0 && w.shutdownBegan < cf.Seq {
			cands = append(cands, cand{shutdown, "shutdown"})
		}
		if w.sc.StaleMs > 0 {
			cands = append(cands, cand{w7xDisc{Code: DisconnectStale.Code, Reason: DisconnectStale.Reason}, "stale"})
		}
		if w.sc.PingMs > 0 {
			cands = append(cands, cand{w7xDisc{Code: DisconnectNoPong.Code, Reason: DisconnectNoPong.Reason}, "no pong"})
		}
		clientFirst := cl.sentClose && cl.sentCloseSeq < cf.Seq
		if clientFirst {
			cands = append(cands, cand{w7xDisc{Code: uint32(cl.sentCloseCode)}, "echo of the client's close frame"})
		}
		exact, codeOnly := "", ""
		for _, k := range cands {
			switch {
			case k.d == got:
				exact = k.src
			case k.d.Code == got.Code && len(k.d.Reason)+2 > 125 && strings.HasPrefix(k.d.Reason, got.Reason):
				// the reason does not fit: nothing is demanded, a shortened one is acceptable
				exact = "shortened"
				s.Probe("close_frame_with_shortened_reason")
			case k.d.Code == got.Code && codeOnly == "":
				codeOnly = k.src
			}
		}
		switch {
		case exact != "":
			s.Probe("close_frame_attributed")
			s.Probe("close_frame_source:" + exact)
			if exact != "echo of the client's close frame" && exact != "shortened" {
				s.Probe("nontrivial:C31")
				if len(got.Reason) == 123 {
					s.Probe("close_frame_reason_at_limit")
				}
			}
		case codeOnly != "":
			s.Violate("C31", "close-reason-mismatch", "websocket: close frame carries the disconnect code with another reason ("+codeOnly+")",
				"conn %d: close frame code %d reason %q (%d bytes); disconnects issued for the connection: %v", c.idx, cf.Code, w7hClip([]byte(cf.Reason)), len(cf.Reason), w.issuedText(c))
		default:
			s.Violate("C31", "close-code-unattributed", "websocket: close frame matches no disconnect of the connection",
				"conn %d: close frame code %d reason %q; disconnects issued before it: %v; shutdown began=%v; client close first=%v; write fault=%v", c.idx, cf.Code, w7hClip([]byte(cf.Reason)), w.issuedText(c), w.shutdownBegan != 0 && w.shutdownBegan < cf.Seq, clientFirst, c.faulted)
		}
		if len(c.onDisconnect) > 0 && !clientFirst && c.cbDisc != got && len(c.cbDisc.Reason)+2 <= 125 {
			s.Violate("C31", "close-frame-differs-from-callback", "websocket: close frame differs from the disconnect reported to OnDisconnect",
				"conn %d: close frame code %d reason %q, OnDisconnect code %d reason %q", c.idx, cf.Code, w7hClip([]byte(cf.Reason)), c.cbDisc.Code, w7hClip([]byte(c.cbDisc.Reason)))
		}
		return
	}
	// no close frame: did the server end the connection, and with which disconnect?
	serverEnded := cl.eofSeq != 0 && (!cl.dropped || cl.eofSeq < cl.dropSeq)
	if !serverEnded {
		return
	}
	if c.faulted && c.faultSeq < cl.eofSeq {
		s.Probe("server_end_after_write_fault")
		return
	}
	if c.closedWhileStalled {
		// a write was blocked in the socket (a peer that does not read) when the server
		// gave up and closed it: the close frame could not be written behind that write
		// (the transport waits a bounded time for the write lock, then closes). Same
		// standing as a write fault. (C31-9-92: first write stalls 1.5 s, shutdown at 0)
		s.Probe("server_end_while_a_write_was_stalled")
		return
	}
	if cl.sentClose && cl.sentCloseSeq < cl.eofSeq {
		return // the client closed first; the echo is not demanded here
	}
	if len(cl.rbuf) > 0 || cl.wireBad {
		return
	}
	var applied *w7xDisc
	src := ""
	switch {
	case len(c.onDisconnect) > 0:
		applied, src = &c.cbDisc, "disconnect reported to OnDisconnect"
		for _, is := range c.issued {
			if is.D == c.cbDisc {
				src = is.Source
			}
		}
		if c.cbDisc == shutdown {
			src = "shutdown"
		}
		if w.sc.StaleMs > 0 && c.cbDisc.Code == DisconnectStale.Code {
			src = "stale"
		}
		if w.sc.PingMs > 0 && c.cbDisc.Code == DisconnectNoPong.Code {
			src = "no pong"
		}
	case c.spec.Reject != nil && c.connectingSeq != 0:
		applied, src = c.spec.Reject, "OnConnecting"
	case c.shutAtHijack:
		applied, src = &shutdown, "upgrade refused because of shutdown"
	default:
		fits := 0
		var cs []w7xDisc
		for _, is := range c.issued {
			if is.Seq < cl.eofSeq {
				cs = append(cs, is.D)
			}
		}
		if w.shutdownBegan != 0 && w.shutdownBegan < cl.eofSeq {
			cs = append(cs, shutdown)
		}
		for i := range cs {
			if len(cs[i].Reason)+2 <= 125 {
				fits++
				if applied == nil {
					applied, src = &cs[i], "one of the disconnects issued"
				}
			}
		}
		if fits != len(cs) {
			applied = nil
		}
	}
	if applied == nil {
		s.Probe("server_end_unexplained")
		return
	}
	if applied.Code == DisconnectConnectionClosed.Code {
		return
	}
	if len(applied.Reason)+2 > 125 {
		s.Probe("disconnect_reason_exceeds_control_frame")
		return
	}
	s.Violate("C31", "no-close-frame", "websocket: connection ended by the server ("+src+") without a close frame although code and reason fit in a control frame",
		"conn %d: disconnect code %d, reason of %d bytes; the server closed the socket at seq %d, the peer received %d data frames and no close frame; client dropped=%v", c.idx, applied.Code, len(applied.Reason), cl.eofSeq, len(cl.msgs), cl.dropped)
}

func (w *w7xWorld) issuedText(c *w7xConnState) string {
	var out []string
	for _, is := range c.issued {
		out = append(out, fmt.Sprintf("%s code %d reason %d bytes @%d", is.Source, is.D.Code, len(is.D.Reason), is.Seq))
	}
	return "[" + strings.Join(out, "; ") + "]"
}
