//go:build verif

package centrifuge

// W2 (broker worlds) – pieces shared by w2s (memory stream broker) and w2m (memory map
// broker): the recording BrokerEventHandler, goroutine attribution, the bounded
// linearizability check on top of porcupine.

import (
	"fmt"
	"runtime"
	"sort"
	"strings"
	"time"

	"github.com/anishathalye/porcupine"
	simrt "github.com/centrifugal/centrifuge/internal/simrt"
)

// w2Goid returns the id of the calling goroutine (handler calls are attributed to the
// harness task or to a broker cleanup goroutine by it).
func w2Goid() int64 {
	var buf [48]byte
	n := runtime.Stack(buf[:], false)
	var id int64
	for _, c := range buf[10:n] {
		if c < '0' || c > '9' {
			break
		}
		id = id*10 + int64(c-'0')
	}
	return id
}

// w2HEvent is one call of the event handler (what a subscriber of the node would get).
type w2HEvent struct {
	Stamp   int64 // global event counter
	T       int64 // virtual time (ns since run start) at entry
	Kind    string
	Ch      string
	Key     string
	Removed bool
	Data    string
	SP      StreamPosition
	PubOff  uint64
	Score   int64
	Task    int // harness task index, -1 = a goroutine of the broker itself
	used    bool
}

// w2Recorder implements BrokerEventHandler.
type w2Recorder struct {
	s      *simrt.Sim
	next   func() int64
	tasks  map[int64]int // goid -> task index
	events []*w2HEvent
	// hook runs inside the handler (still in the broker's call stack, all its locks that
	// are held during delivery are held): used to let virtual time pass during an operation.
	hook func(ev *w2HEvent)
}

func (r *w2Recorder) who() int {
	if t, ok := r.tasks[w2Goid()]; ok {
		return t
	}
	return -1
}

func (r *w2Recorder) HandlePublication(ch string, pub *Publication, sp StreamPosition, useDelta bool, prevPub *Publication) error {
	ev := &w2HEvent{Stamp: r.next(), T: int64(r.s.Now()), Kind: "pub", Ch: ch, SP: sp, Task: r.who()}
	if pub != nil {
		ev.Key, ev.Removed, ev.Data, ev.PubOff, ev.Score = pub.Key, pub.Removed, string(pub.Data), pub.Offset, pub.Score
	}
	r.events = append(r.events, ev)
	if r.hook != nil {
		r.hook(ev)
	}
	return nil
}

func (r *w2Recorder) HandleJoin(ch string, info *ClientInfo) error {
	r.events = append(r.events, &w2HEvent{Stamp: r.next(), T: int64(r.s.Now()), Kind: "join", Ch: ch, Task: r.who()})
	return nil
}

func (r *w2Recorder) HandleLeave(ch string, info *ClientInfo) error {
	r.events = append(r.events, &w2HEvent{Stamp: r.next(), T: int64(r.s.Now()), Kind: "leave", Ch: ch, Task: r.who()})
	return nil
}

const (
	w2Sec = int64(time.Second)
	w2Ms  = int64(time.Millisecond)
)

// w2LinSteps accumulates the model steps spent in porcupine (read and reset per run).
var w2LinSteps int

// w2LinResult of a bounded linearizability check.
type w2LinResult int

const (
	w2LinOK w2LinResult = iota
	w2LinIllegal
	w2LinUnknown
)

// w2CheckLin checks one partition with porcupine. The model's step function is wrapped
// with a work budget: a search that exceeds it is reported as Unknown (counted as an
// inconclusive probe by the callers, never as a violation). The timeout handed to
// porcupine is virtual time inside the bubble and cannot fire while the checker
// goroutine computes; the work budget is what bounds the real time.
func w2CheckLin(init func() interface{}, step func(st, in, out interface{}) []interface{}, key func(st interface{}) string, ops []porcupine.Operation, budget int) w2LinResult {
	if len(ops) == 0 {
		return w2LinOK
	}
	calls := 0
	over := false
	nm := porcupine.NondeterministicModel{
		Init: func() []interface{} { return []interface{}{init()} },
		Step: func(st, in, out interface{}) []interface{} {
			if over {
				return nil
			}
			calls++
			if calls > budget {
				over = true
				return nil
			}
			return step(st, in, out)
		},
		Equal: func(a, b interface{}) bool { return key(a) == key(b) },
	}
	res := porcupine.CheckOperationsTimeout(nm.ToModel(), ops, 5*time.Second)
	w2LinSteps += calls
	if over || res == porcupine.Unknown {
		return w2LinUnknown
	}
	if res == porcupine.Illegal {
		return w2LinIllegal
	}
	return w2LinOK
}

// w2Fold runs a totally ordered history through the nondeterministic model: returns the
// index of the first operation no model state can explain (-1 = all explained) and the
// surviving states before it.
func w2Fold(init interface{}, step func(st, in, out interface{}) []interface{}, key func(st interface{}) string, ops []porcupine.Operation) (int, []interface{}) {
	cur := []interface{}{init}
	for i, op := range ops {
		seen := map[string]bool{}
		var nxt []interface{}
		for _, st := range cur {
			for _, n := range step(st, op.Input, op.Output) {
				k := key(n)
				if !seen[k] {
					seen[k] = true
					nxt = append(nxt, n)
				}
			}
		}
		if len(nxt) == 0 {
			return i, cur
		}
		cur = nxt
	}
	return -1, cur
}

func w2PosStr(p StreamPosition) string { return fmt.Sprintf("%d@%s", p.Offset, p.Epoch) }

func w2Join(xs []string) string {
	if len(xs) > 6 {
		xs = append(append([]string{}, xs[:6]...), "...")
	}
	return strings.Join(xs, " | ")
}

func w2SortedKeys[V any](m map[string]V) []string {
	ks := make([]string, 0, len(m))
	for k := range m {
		ks = append(ks, k)
	}
	sort.Strings(ks)
	return ks
}
