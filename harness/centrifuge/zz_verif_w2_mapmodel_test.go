//go:build verif

package centrifuge

// Reference model of one channel of a map broker (used by world w2m): state = fold of
// the unsuppressed operations; checks in the order idempotency, version, key mode,
// compare-and-swap; one stream entry per unsuppressed operation of a stream-backed
// channel. Key expiry is NOT a spontaneous transition of the model: every removal
// broadcast that a broker goroutine delivers is an explicit operation ('E') of the
// history, so "exactly one removal per expired incarnation" is part of the
// linearizability question.

import (
	"fmt"
	"sort"
	"strings"
	"time"
)

type w2mCfg struct {
	Mode       MapMode
	Ordered    bool
	KeyTTL     int64 // ns, resolved
	StreamSize int   // resolved
	StreamTTL  int64
	MetaTTL    int64
}

type w2mKey struct {
	Key   string
	Data  string
	Off   uint64
	Score int64
	HasD  bool
	DLo   int64 // the TTL of this incarnation ends at a time in [DLo, DHi]
	DHi   int64
	Ver   uint64
	VEp   string
}

type w2mEnt struct {
	Off     uint64
	Key     string
	Removed bool
	Data    string
}

type w2mCacheEnt struct {
	IK     string
	Pos    StreamPosition
	Lo, Hi int64
	Weak   bool // channel was cleared since: the result may or may not be remembered
}

type w2mState struct {
	Exists    bool
	Epoch     string
	Old       []string
	Top       uint64
	Ents      []w2mEnt
	StrArmed  bool // retained stream entries may be dropped at any time >= StrLo
	StrLo     int64
	MetaArmed bool // channel metadata (and with it everything) may be dropped at any time >= MetaLo
	MetaLo    int64
	Keys      []w2mKey // sorted by key
	Cache     []w2mCacheEnt
	k         string
}

func (st *w2mState) key() string {
	if st.k == "" {
		st.k = fmt.Sprintf("%v|%s|%v|%d|%v|%v,%d|%v,%d|%v|%v", st.Exists, st.Epoch, st.Old, st.Top, st.Ents, st.StrArmed, st.StrLo, st.MetaArmed, st.MetaLo, st.Keys, st.Cache)
	}
	return st.k
}

func (st *w2mState) clone() *w2mState {
	c := *st
	c.k = ""
	c.Old = append([]string(nil), st.Old...)
	c.Ents = append([]w2mEnt(nil), st.Ents...)
	c.Keys = append([]w2mKey(nil), st.Keys...)
	c.Cache = append([]w2mCacheEnt(nil), st.Cache...)
	return &c
}

func (st *w2mState) find(key string) int {
	for i := range st.Keys {
		if st.Keys[i].Key == key {
			return i
		}
	}
	return -1
}

func (st *w2mState) setKey(k w2mKey) {
	if i := st.find(k.Key); i >= 0 {
		st.Keys[i] = k
		return
	}
	st.Keys = append(st.Keys, k)
	sort.Slice(st.Keys, func(i, j int) bool { return st.Keys[i].Key < st.Keys[j].Key })
}

func (st *w2mState) delKey(key string) {
	if i := st.find(key); i >= 0 {
		st.Keys = append(st.Keys[:i:i], st.Keys[i+1:]...)
	}
}

type w2mKV struct {
	Key   string
	Data  string
	Off   uint64
	Score int64
}

type w2mIn struct {
	Kind    byte // 'P' publish 'R' remove 'C' clear 'S' read whole state 'K' read one key 'T' read stream 'E' expiry removal delivered
	Key     string
	Data    string
	Mode    KeyMode
	CAS     *StreamPosition
	Ver     uint64
	VEp     string
	IK      string
	ITTL    int64
	Refresh bool
	Score   int64
	Asc     bool
	Since   *StreamPosition
	Lim     int
	Rev     bool
	A, B    int64
	id      int
}

type w2mOut struct {
	Err        string
	Pos        StreamPosition
	Suppressed bool
	Reason     string
	HasCur     bool
	CurOff     uint64
	CurData    string
	State      []w2mKV
	Ents       []w2mEnt
}

func (o *w2mOut) String() string {
	if o.Err != "" {
		return "err:" + o.Err
	}
	s := w2PosStr(o.Pos)
	if o.Suppressed {
		s += " suppressed(" + o.Reason + ")"
	}
	if o.HasCur {
		s += fmt.Sprintf(" cur={%d %s}", o.CurOff, o.CurData)
	}
	if o.State != nil {
		s += fmt.Sprintf(" state=%v", o.State)
	}
	if o.Ents != nil {
		s += fmt.Sprintf(" stream=%v", o.Ents)
	}
	return s
}

func (in *w2mIn) String() string {
	t := fmt.Sprintf("t=[%v,%v]", time.Duration(in.A), time.Duration(in.B))
	switch in.Kind {
	case 'C':
		return "Clear " + t
	case 'S':
		return fmt.Sprintf("ReadState(all asc=%v) %s", in.Asc, t)
	case 'K':
		return fmt.Sprintf("ReadState(key=%s) %s", in.Key, t)
	case 'T':
		s := fmt.Sprintf("ReadStream(lim=%d rev=%v", in.Lim, in.Rev)
		if in.Since != nil {
			s += " since=" + w2PosStr(*in.Since)
		}
		return s + ") " + t
	case 'E':
		return fmt.Sprintf("expiry-removal-delivered(key=%s) %s", in.Key, t)
	}
	s := "Publish(" + in.Key + "=" + in.Data
	if in.Kind == 'R' {
		s = "Remove(" + in.Key
	}
	if in.Mode != "" {
		s += " mode=" + string(in.Mode)
		if in.Refresh {
			s += "+refresh"
		}
	}
	if in.CAS != nil {
		s += " cas=" + w2PosStr(*in.CAS)
	}
	if in.Ver != 0 {
		s += fmt.Sprintf(" ver=%d/%q", in.Ver, in.VEp)
	}
	if in.IK != "" {
		s += fmt.Sprintf(" idem=%s/%v", in.IK, time.Duration(in.ITTL))
	}
	if in.Score != 0 {
		s += fmt.Sprintf(" score=%d", in.Score)
	}
	return s + ") " + t
}

// w2mFlags relax the model; used to name what explains a failing history and to decide
// which property a failure belongs to.
type w2mFlags struct {
	MetaDropsKeys bool // channel metadata may be discarded while keys are still in the state
	AnyDedup      bool // any idempotency / version decision is accepted
	AnyExpiry     bool // expiry removals are accepted whenever the key exists; keys may stay forever
}

type w2mModel struct {
	cfg     w2mCfg
	f       w2mFlags
	overdue int64 // an expired key must be gone this long after its deadline
	relaxed map[int]bool
}

type w2mCand struct {
	st     *w2mState
	out    w2mOut
	bind   bool
	anyPos bool // the position of the result is not specified (channel does not exist)
}

func (m *w2mModel) pre(st *w2mState, in *w2mIn) []*w2mState {
	res := []*w2mState{st}
	if m.f.AnyExpiry {
		// attribution only: keys with a TTL may vanish at any time, with or without a
		// removal entry in the stream
		for _, k := range st.Keys {
			if !k.HasD {
				continue
			}
			var nxt []*w2mState
			for _, x := range res {
				nxt = append(nxt, x)
				e := x.clone()
				e.delKey(k.Key)
				nxt = append(nxt, e)
				if m.cfg.Mode.HasStream() {
					e2 := x.clone()
					e2.delKey(k.Key)
					m.appendEnt(e2, w2mEnt{Key: k.Key, Removed: true})
					nxt = append(nxt, e2)
				}
			}
			res = nxt
		}
		return res
	}
	if st.StrArmed && len(st.Ents) > 0 && in.B >= st.StrLo-w2Ms {
		e := st.clone()
		e.Ents, e.StrArmed, e.StrLo = nil, false, 0
		res = append(res, e)
		m.relaxed[in.id] = true
	}
	if st.Exists && st.MetaArmed && in.B >= st.MetaLo-w2Ms {
		var nxt []*w2mState
		for _, x := range res {
			nxt = append(nxt, x)
			if len(x.Keys) > 0 && !m.f.MetaDropsKeys {
				continue
			}
			e := x.clone()
			e.Old = append(e.Old, e.Epoch)
			e.Exists, e.Epoch, e.Top, e.Ents, e.Keys = false, "", 0, nil, nil
			e.StrArmed, e.StrLo, e.MetaArmed, e.MetaLo = false, 0, false, 0
			nxt = append(nxt, e)
		}
		m.relaxed[in.id] = true
		res = nxt
	}
	// a key that outlived its TTL by more than the allowed sweep delay without a removal
	// having been delivered: no such state is acceptable
	var ok []*w2mState
	for _, x := range res {
		overdue := false
		for _, k := range x.Keys {
			if k.HasD && in.A > k.DHi+m.overdue {
				overdue = true
			}
		}
		if !overdue {
			ok = append(ok, x)
		}
	}
	return ok
}

func (m *w2mModel) sorted(st *w2mState, asc bool) []w2mKV {
	var out []w2mKV
	for _, k := range st.Keys {
		out = append(out, w2mKV{Key: k.Key, Data: k.Data, Off: k.Off, Score: k.Score})
	}
	if m.cfg.Ordered {
		sort.Slice(out, func(i, j int) bool {
			if out[i].Score != out[j].Score {
				if asc {
					return out[i].Score < out[j].Score
				}
				return out[i].Score > out[j].Score
			}
			if asc {
				return out[i].Key < out[j].Key
			}
			return out[i].Key > out[j].Key
		})
	}
	return out
}

// ensure returns a copy of st in which the channel exists (bind = a fresh epoch has to
// be bound to the observed one).
func (m *w2mModel) ensure(st *w2mState) (*w2mState, bool) {
	n := st.clone()
	if n.Exists {
		return n, false
	}
	n.Exists, n.Top = true, 0
	return n, true
}

func (m *w2mModel) touchMeta(n *w2mState, in *w2mIn) {
	if m.cfg.MetaTTL > 0 {
		n.MetaArmed, n.MetaLo = true, in.A+m.cfg.MetaTTL
	}
}

func (m *w2mModel) appendEnt(n *w2mState, e w2mEnt) {
	n.Top++
	e.Off = n.Top
	n.Ents = append(n.Ents, e)
	if len(n.Ents) > m.cfg.StreamSize {
		n.Ents = n.Ents[len(n.Ents)-m.cfg.StreamSize:]
	}
}

func (m *w2mModel) cands(st *w2mState, in *w2mIn) []w2mCand {
	hasStream := m.cfg.Mode.HasStream()
	pos := func(s *w2mState) StreamPosition { return StreamPosition{Offset: s.Top, Epoch: s.Epoch} }
	switch in.Kind {
	case 'C':
		n := st.clone()
		if n.Exists {
			n.Old = append(n.Old, n.Epoch)
		}
		n.Exists, n.Epoch, n.Top, n.Ents, n.Keys = false, "", 0, nil, nil
		n.StrArmed, n.StrLo, n.MetaArmed, n.MetaLo = false, 0, false, 0
		for i := range n.Cache {
			n.Cache[i].Weak = true
		}
		return []w2mCand{{st: n}}
	case 'E':
		i := st.find(in.Key)
		if i < 0 {
			return nil
		}
		k := st.Keys[i]
		if !m.f.AnyExpiry && (!k.HasD || in.B < k.DLo-w2Ms) { // TTLs have millisecond resolution
			return nil // removed although its TTL had not elapsed
		}
		n := st.clone()
		n.delKey(in.Key)
		if hasStream {
			m.appendEnt(n, w2mEnt{Key: in.Key, Removed: true})
		}
		return []w2mCand{{st: n, out: w2mOut{Pos: pos(n)}}}
	case 'S', 'K':
		n, bind := m.ensure(st)
		m.touchMeta(n, in)
		out := w2mOut{Pos: pos(n)}
		if in.Kind == 'S' {
			out.State = m.sorted(n, in.Asc)
		} else if i := n.find(in.Key); i >= 0 {
			k := n.Keys[i]
			out.State = []w2mKV{{Key: k.Key, Data: k.Data, Off: k.Off, Score: k.Score}}
		}
		return []w2mCand{{st: n, out: out, bind: bind}}
	case 'T':
		n, bind := m.ensure(st)
		m.touchMeta(n, in)
		if bind {
			return []w2mCand{{st: n, out: w2mOut{Pos: pos(n)}, bind: true}}
		}
		if in.Since != nil && in.Since.Epoch != "" && in.Since.Epoch != n.Epoch {
			return []w2mCand{{st: n, out: w2mOut{Err: ErrorUnrecoverablePosition.Error()}}}
		}
		var sel []w2mEnt
		if in.Since == nil {
			if in.Rev {
				for i := len(n.Ents) - 1; i >= 0; i-- {
					sel = append(sel, n.Ents[i])
				}
			} else {
				sel = append(sel, n.Ents...)
			}
		} else if !in.Rev {
			for _, e := range n.Ents {
				if e.Off > in.Since.Offset {
					sel = append(sel, e)
				}
			}
		} else {
			for i := len(n.Ents) - 1; i >= 0; i-- {
				if n.Ents[i].Off < in.Since.Offset {
					sel = append(sel, n.Ents[i])
				}
			}
		}
		if in.Lim >= 0 && len(sel) > in.Lim {
			sel = sel[:in.Lim]
		}
		cs := []w2mCand{{st: n, out: w2mOut{Pos: pos(n), Ents: sel}}}
		if in.Since != nil && in.Rev && in.Since.Offset > n.Top+1 && len(sel) > 0 {
			cs = append(cs, w2mCand{st: n, out: w2mOut{Pos: pos(n)}})
		}
		return cs
	}

	// Publish / Remove
	var cs []w2mCand
	if in.IK != "" {
		for _, c := range st.Cache {
			if c.IK != in.IK {
				continue
			}
			aliveSure := in.B < c.Lo-w2Ms && !c.Weak
			deadSure := in.A > c.Hi
			if !deadSure || m.f.AnyDedup {
				cs = append(cs, w2mCand{st: st, out: w2mOut{Pos: c.Pos, Suppressed: true, Reason: string(SuppressReasonIdempotency)}})
			}
			if aliveSure && !m.f.AnyDedup {
				return cs
			}
			if !aliveSure && !deadSure {
				m.relaxed[in.id] = true
			}
		}
	}
	if in.Kind == 'R' {
		if !st.Exists {
			reason := SuppressReasonKeyNotFound
			if in.CAS != nil {
				reason = SuppressReasonPositionMismatch
			}
			return append(cs, w2mCand{st: st, out: w2mOut{Suppressed: true, Reason: string(reason)}, anyPos: true})
		}
		i := st.find(in.Key)
		if in.CAS != nil {
			if i < 0 {
				return append(cs, w2mCand{st: st, out: w2mOut{Pos: pos(st), Suppressed: true, Reason: string(SuppressReasonPositionMismatch)}})
			}
			if k := st.Keys[i]; k.Off != in.CAS.Offset || st.Epoch != in.CAS.Epoch {
				return append(cs, w2mCand{st: st, out: w2mOut{Pos: pos(st), Suppressed: true, Reason: string(SuppressReasonPositionMismatch), HasCur: true, CurOff: k.Off, CurData: k.Data}})
			}
		}
		if i < 0 {
			return append(cs, w2mCand{st: st, out: w2mOut{Pos: pos(st), Suppressed: true, Reason: string(SuppressReasonKeyNotFound)}})
		}
		n := st.clone()
		n.delKey(in.Key)
		if hasStream {
			m.appendEnt(n, w2mEnt{Key: in.Key, Removed: true})
			n.StrArmed, n.StrLo = true, in.A+m.cfg.StreamTTL
			m.touchMeta(n, in)
		}
		return append(cs, w2mCand{st: n, out: w2mOut{Pos: pos(n)}})
	}

	// Publish: from here on the channel exists (it is created even by a suppressed publish)
	base, bind := m.ensure(st)
	i := base.find(in.Key)
	if hasStream && in.Ver > 0 && i >= 0 {
		k := base.Keys[i]
		match, ambiguous := in.VEp == k.VEp, in.VEp == "" && k.VEp != ""
		if (k.Ver > 0 && in.Ver <= k.Ver && (match || ambiguous)) || m.f.AnyDedup {
			cs = append(cs, w2mCand{st: base, out: w2mOut{Pos: pos(base), Suppressed: true, Reason: string(SuppressReasonVersion)}, bind: bind})
			if match && !m.f.AnyDedup {
				return cs
			}
			if !m.f.AnyDedup {
				m.relaxed[in.id] = true
			}
		}
	}
	if in.Mode == KeyModeIfNew && i >= 0 {
		n := base
		if in.Refresh && m.cfg.KeyTTL > 0 {
			n = base.clone()
			k := n.Keys[i]
			k.HasD, k.DLo, k.DHi = true, in.A+m.cfg.KeyTTL, in.B+m.cfg.KeyTTL
			n.Keys[i] = k
			m.touchMeta(n, in)
		}
		return append(cs, w2mCand{st: n, out: w2mOut{Pos: pos(n), Suppressed: true, Reason: string(SuppressReasonKeyExists)}, bind: bind})
	}
	if in.Mode == KeyModeIfExists && i < 0 {
		return append(cs, w2mCand{st: base, out: w2mOut{Pos: pos(base), Suppressed: true, Reason: string(SuppressReasonKeyNotFound)}, bind: bind})
	}
	if in.CAS != nil {
		if i < 0 {
			return append(cs, w2mCand{st: base, out: w2mOut{Pos: pos(base), Suppressed: true, Reason: string(SuppressReasonPositionMismatch)}, bind: bind})
		}
		// a freshly created channel cannot match any expected epoch the caller could know
		if k := base.Keys[i]; k.Off != in.CAS.Offset || base.Epoch != in.CAS.Epoch {
			return append(cs, w2mCand{st: base, out: w2mOut{Pos: pos(base), Suppressed: true, Reason: string(SuppressReasonPositionMismatch), HasCur: true, CurOff: k.Off, CurData: k.Data}, bind: bind})
		}
	}
	n := base.clone()
	if hasStream {
		m.appendEnt(n, w2mEnt{Key: in.Key, Data: in.Data})
		n.StrArmed, n.StrLo = true, in.A+m.cfg.StreamTTL
		m.touchMeta(n, in)
	}
	k := w2mKey{Key: in.Key, Data: in.Data, Off: n.Top, Score: in.Score, Ver: in.Ver, VEp: in.VEp}
	if in.Ver == 0 && i >= 0 {
		k.Ver, k.VEp = n.Keys[i].Ver, n.Keys[i].VEp
	}
	if !hasStream {
		k.Ver, k.VEp = 0, ""
	}
	if m.cfg.KeyTTL > 0 {
		k.HasD, k.DLo, k.DHi = true, in.A+m.cfg.KeyTTL, in.B+m.cfg.KeyTTL
	}
	n.setKey(k)
	return append(cs, w2mCand{st: n, out: w2mOut{Pos: pos(n)}, bind: bind})
}

func w2mKVEqual(a, b []w2mKV) bool {
	if len(a) != len(b) {
		return false
	}
	for i := range a {
		if a[i] != b[i] {
			return false
		}
	}
	return true
}

func w2mEntsEqual(a, b []w2mEnt) bool {
	if len(a) != len(b) {
		return false
	}
	for i := range a {
		if a[i] != b[i] {
			return false
		}
	}
	return true
}

func (m *w2mModel) step(st *w2mState, in *w2mIn, out *w2mOut) []*w2mState {
	var res []*w2mState
	for _, p := range m.pre(st, in) {
		for _, c := range m.cands(p, in) {
			o := c.out
			if o.Err != out.Err || o.Suppressed != out.Suppressed || o.Reason != out.Reason {
				continue
			}
			if out.Err == "" {
				if !c.anyPos && o.Pos.Offset != out.Pos.Offset {
					continue
				}
				if o.HasCur != out.HasCur || o.CurOff != out.CurOff || o.CurData != out.CurData {
					continue
				}
				if !w2mKVEqual(o.State, out.State) || !w2mEntsEqual(o.Ents, out.Ents) {
					continue
				}
			}
			n := c.st
			switch {
			case in.Kind == 'C' || c.anyPos || out.Err != "":
			case c.bind:
				if out.Pos.Epoch == "" {
					continue
				}
				fresh := true
				for _, old := range n.Old {
					if old == out.Pos.Epoch {
						fresh = false
					}
				}
				if !fresh {
					continue
				}
				n = n.clone()
				n.Epoch = out.Pos.Epoch
			case o.Pos.Epoch != out.Pos.Epoch:
				continue
			}
			if (in.Kind == 'P' || in.Kind == 'R') && !out.Suppressed && out.Err == "" && in.IK != "" {
				n = n.clone()
				ent := w2mCacheEnt{IK: in.IK, Pos: out.Pos, Lo: in.A + in.ITTL, Hi: in.B + in.ITTL}
				found := false
				for i := range n.Cache {
					if n.Cache[i].IK == in.IK {
						n.Cache[i], found = ent, true
					}
				}
				if !found {
					n.Cache = append(n.Cache, ent)
					sort.Slice(n.Cache, func(i, j int) bool { return n.Cache[i].IK < n.Cache[j].IK })
				}
			}
			res = append(res, n)
		}
	}
	return res
}

func (m *w2mModel) expected(st *w2mState, in *w2mIn) []string {
	var out []string
	seen := map[string]bool{}
	pre := m.pre(st, in)
	if len(pre) == 0 {
		return []string{"<a key of the state is overdue: its TTL elapsed and no removal was delivered in time>"}
	}
	for _, p := range pre {
		for _, c := range m.cands(p, in) {
			o := c.out
			if c.bind {
				o.Pos.Epoch = "<fresh>"
			}
			if c.anyPos {
				o.Pos = StreamPosition{Epoch: "<any>"}
			}
			if s := o.String(); !seen[s] {
				seen[s] = true
				out = append(out, s)
			}
		}
	}
	if len(out) == 0 {
		out = []string{"<not allowed in any model state>"}
	}
	return out
}

func (st *w2mState) describe() string {
	var ks []string
	for _, k := range st.Keys {
		s := fmt.Sprintf("%s=%s@%d", k.Key, k.Data, k.Off)
		if k.HasD {
			s += fmt.Sprintf(" ttl-ends[%v,%v]", time.Duration(k.DLo), time.Duration(k.DHi))
		}
		if k.Ver != 0 {
			s += fmt.Sprintf(" v%d/%q", k.Ver, k.VEp)
		}
		ks = append(ks, s)
	}
	return fmt.Sprintf("{exists=%v top=%d epoch=%s keys=[%s] stream=%v}", st.Exists, st.Top, st.Epoch, strings.Join(ks, ", "), st.Ents)
}
