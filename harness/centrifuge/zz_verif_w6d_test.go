//go:build verif

package centrifuge

// W6d (item buffer part): getItemBuf/putItemBuf of writer.go under an adversarial
// sync.Pool (any object previously Put into the size class may come back). 1..2 tasks
// get item buffers for generated lengths, use them the way the writer does (fill
// B[:n]) or mutate them (append beyond capacity, reslice, replace) and put them back in
// arbitrary order. Decides C42 together with world w6d of package bpool.

import (
	"fmt"

	"github.com/centrifugal/centrifuge/internal/queue"
	simrt "github.com/centrifugal/centrifuge/internal/simrt"
	simsync "github.com/centrifugal/centrifuge/internal/simrt/simsync"
	"github.com/centrifugal/protocol"
)

type w6dItemsOp struct {
	K   string `json:"k"` // "get" | "put" | "yield"
	Len int    `json:"len,omitempty"`
	Mut int    `json:"mut,omitempty"`
	N   int    `json:"n,omitempty"`
	Idx int    `json:"idx,omitempty"`
}

type w6dItemsScript struct {
	Tasks [][]w6dItemsOp `json:"tasks"`
}

// mutations: 0 writer-like (fill the first n items through a local copy of B),
// 1 fill all of B, 2 append beyond capacity, 3 fill all then keep a tail sub-slice,
// 4 replace B by a foreign dirty slice of odd capacity, 5 fill the whole capacity and
// leave len at capacity, 6 nothing, 7 fill all of B and then reslice B SHORTER (the
// holder shortens the slice it gives back)
const w6dItemsMutations = 8

func w6dItemsGen(c *simrt.Choice, prop, tier string) any {
	sc := &w6dItemsScript{}
	nt := 1 + c.Pick(3, 2)
	maxOps := 14
	if tier == "thorough" {
		maxOps = 40
	}
	focus := []int{}
	for i := 0; i < 1+c.Intn(2); i++ {
		focus = append(focus, min(c.Intn(13), c.Intn(13))) // mostly small classes: runs stay fast
	}
	for t := 0; t < nt; t++ {
		n := 2 + c.Intn(maxOps)
		var ops []w6dItemsOp
		held := 0
		for i := 0; i < n; i++ {
			k := c.Pick(5, 4, 1)
			if k == 1 && held == 0 {
				k = 0
			}
			switch k {
			case 0:
				op := w6dItemsOp{K: "get", Mut: c.Pick(6, 3, 2, 2, 2, 2, 1, 2)}
				switch c.Pick(14, 5, 2, 2, 1) {
				case 0:
					f := focus[c.Intn(len(focus))]
					if c.Intn(2) == 0 {
						op.Len = 1<<f + c.Intn(3) - 1
					} else {
						op.Len = 1<<f - c.Intn(1<<f/2+1)
					}
				case 1:
					op.Len = 1 + c.Intn(40)
				case 2:
					op.Len = -c.Intn(3) // 0, -1, -2: documented fallback to the default frame size
				case 3:
					op.Len = maxItemBufLength + c.Intn(3) - 1
				case 4:
					op.Len = maxItemBufLength + 1 + c.Intn(50)
				}
				op.N = []int{0, 1, 2, 3, 7, 64, 1000}[c.Intn(7)]
				ops = append(ops, op)
				held++
			case 1:
				ops = append(ops, w6dItemsOp{K: "put", Idx: c.Intn(held)})
				held--
			case 2:
				ops = append(ops, w6dItemsOp{K: "yield"})
			}
		}
		sc.Tasks = append(sc.Tasks, ops)
	}
	return sc
}

func w6dItemsShrinks(script any) []any {
	sc := script.(*w6dItemsScript)
	var out []any
	clone := func() *w6dItemsScript {
		c := &w6dItemsScript{}
		for _, t := range sc.Tasks {
			c.Tasks = append(c.Tasks, append([]w6dItemsOp(nil), t...))
		}
		return c
	}
	for t := range sc.Tasks {
		if len(sc.Tasks) > 1 {
			c := clone()
			c.Tasks = append(c.Tasks[:t], c.Tasks[t+1:]...)
			out = append(out, c)
		}
	}
	for t := range sc.Tasks {
		for i := range sc.Tasks[t] {
			c := clone()
			c.Tasks[t] = append(c.Tasks[t][:i], c.Tasks[t][i+1:]...)
			out = append(out, c)
		}
	}
	for t := range sc.Tasks {
		for i, op := range sc.Tasks[t] {
			if op.K == "get" && op.Mut != 6 {
				c := clone()
				c.Tasks[t][i].Mut = 6
				out = append(out, c)
			}
			if op.K == "get" && op.Mut != 0 && op.Mut != 6 {
				c := clone()
				c.Tasks[t][i].Mut = 0
				out = append(out, c)
			}
			if op.K == "get" && op.N > 1 {
				c := clone()
				c.Tasks[t][i].N = 1
				out = append(out, c)
			}
		}
	}
	return out
}

var w6dDirtyItem = queue.Item{Data: []byte{0xA5}, Channel: "stale", Key: "stale", FrameType: protocol.FrameTypePushPublication}

func w6dItemIsZero(it queue.Item) bool {
	return it.Data == nil && it.Channel == "" && it.Key == "" && it.FrameType == 0
}

func w6dItemsRun(s *simrt.Sim, script any, prop string) {
	sc := script.(*w6dItemsScript)
	old := simsync.Adversarial
	simsync.Adversarial = true
	defer func() { simsync.Adversarial = old }()

	inUse := map[*itemBuf]bool{}
	wasPut := map[*itemBuf]bool{}
	// tail[b]: index range [lo,hi) of b's backing array that a holder wrote and then cut
	// off by reslicing B shorter before putting it back, not yet covered by a later put
	// (used only to give that case its own signature)
	type span struct{ lo, hi int }
	tail := map[*itemBuf]span{}
	ext := map[*itemBuf]int{} // extent written by the current holder before it cut B
	reused := 0

	check := func(b *itemBuf, length int) {
		if b == nil {
			s.Violate("C42", "nil", "getItemBuf returned nil", "getItemBuf(%d) returned nil", length)
			return
		}
		if wasPut[b] {
			reused++
			delete(wasPut, b)
		}
		if inUse[b] {
			s.Violate("C42", "aliased", "item buffer handed out while still in use", "getItemBuf(%d) returned a buffer another holder has not put back", length)
		}
		want := length
		if want <= 0 {
			want = len(b.B) // documented fallback to a default size: any length is fine
		}
		if len(b.B) != want {
			s.Violate("C42", "undersized", "item buffer length differs from the requested length", "getItemBuf(%d): len %d cap %d", length, len(b.B), cap(b.B))
		}
		if cap(b.B) < length {
			s.Violate("C42", "undersized", "item buffer capacity below the requested length", "getItemBuf(%d): cap %d", length, cap(b.B))
		}
		for i, it := range b.B {
			if !w6dItemIsZero(it) {
				sig := "item buffer with stale items within its length"
				if t, ok := tail[b]; ok && i >= t.lo && i < t.hi {
					sig = "item buffer with stale items: it was put back with a length shorter than the extent written (putItemBuf clears only len)"
				}
				s.Violate("C42", "dirty", sig, "getItemBuf(%d): item %d of %d is not zero (channel %q, %d data bytes)", length, i, len(b.B), it.Channel, len(it.Data))
				break
			}
		}
	}

	mutate := func(b *itemBuf, mut, n int) {
		fillAll := func() {
			for i := range b.B {
				b.B[i] = w6dDirtyItem
			}
		}
		switch mut {
		case 0:
			buf := b.B // the writer works on a copy of the slice header
			for i := 0; i < n && i < len(buf); i++ {
				buf[i] = w6dDirtyItem
			}
		case 1:
			fillAll()
		case 2:
			fillAll()
			for i, k := 0, cap(b.B)-len(b.B)+1+min(n, 70); i < k; i++ {
				b.B = append(b.B, w6dDirtyItem)
			}
			delete(tail, b) // new backing array
		case 3:
			fillAll()
			k := min(n, len(b.B))
			b.B = b.B[k:]
			if t, ok := tail[b]; ok {
				tail[b] = span{t.lo - k, t.hi - k}
			}
		case 4:
			n = min(n, 100)
			b.B = make([]queue.Item, n, n+n/2+1)
			fillAll()
			delete(tail, b)
		case 5:
			b.B = b.B[:cap(b.B)]
			fillAll()
		case 6:
		case 7:
			fillAll()
			k := min(n, len(b.B))
			if k < len(b.B) {
				ext[b] = len(b.B)
			}
			b.B = b.B[:k]
		}
	}

	done := make(chan struct{}, len(sc.Tasks))
	for _, ops := range sc.Tasks {
		ops := ops
		s.Go(func() {
			defer func() { done <- struct{}{} }()
			var held []*itemBuf
			for _, op := range ops {
				switch op.K {
				case "yield":
					s.Pause()
				case "get":
					if op.Len > maxItemBufLength {
						s.Probe("above_max")
					}
					b := getItemBuf(op.Len)
					check(b, op.Len)
					if b == nil {
						continue
					}
					inUse[b] = true
					mutate(b, op.Mut, op.N)
					if op.Mut != 0 && op.Mut != 6 {
						s.Fault(fmt.Sprintf("mutation_%d", op.Mut))
					}
					held = append(held, b)
				case "put":
					if len(held) == 0 {
						continue
					}
					i := op.Idx % len(held)
					b := held[i]
					held = append(held[:i], held[i+1:]...)
					delete(inUse, b)
					c, l := cap(b.B), len(b.B)
					putItemBuf(b)
					if c > 0 && c <= maxItemBufLength {
						wasPut[b] = true
					}
					// bookkeeping for the signature: what this put left uncleared
					t, has := tail[b]
					if e := ext[b]; e > l {
						if !has {
							t, has = span{l, e}, true
						} else {
							t = span{min(t.lo, l), max(t.hi, e)}
						}
					}
					delete(ext, b)
					if has {
						if l > t.lo {
							t.lo = l
						}
						if t.lo >= t.hi {
							delete(tail, b)
						} else {
							tail[b] = t
						}
					}
				}
			}
		})
	}
	for range sc.Tasks {
		<-done
	}
	s.Pause()
	if reused > 0 {
		s.Probe("reused")
		s.Probe("nontrivial:C42")
	}
	s.Event("final reused=%d", reused)
}

func init() {
	simrt.Register(&simrt.World{
		Name:      "w6d_items",
		Gen:       w6dItemsGen,
		NewScript: func() any { return &w6dItemsScript{} },
		Run:       w6dItemsRun,
		Shrinks:   w6dItemsShrinks,
		Nontrivial: func(prop string, r *simrt.Result) bool {
			return r.Probes["nontrivial:C42"] > 0
		},
	})
	simrt.Claim("C42", "w6d_items", 10)
}
