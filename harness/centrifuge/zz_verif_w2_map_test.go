//go:build verif

package centrifuge

// W2m: the in-memory map broker (MemoryMapBroker: mapHub + memstream + result cache)
// driven directly by 1..3 harness tasks on 1..2 channels and <= 4 keys (<= 7 for the
// pagination runs), with its real cleanup goroutines (expireKeys two-phase sweep,
// expireStreams, removeChannels, expireResultCache) on the virtual clock.
// Decides C20, C21, C24 and the memory-map half of C19.

import (
	"context"
	"fmt"
	"time"

	simrt "github.com/centrifugal/centrifuge/internal/simrt"
	"github.com/prometheus/client_golang/prometheus"
)

type w2mRec struct {
	task, idx int
	ch        int
	in        *w2mIn
	out       *w2mOut
	call, ret int64
	hev       []*w2HEvent
	op        w2mOp
}

type w2mWorld struct {
	s     *simrt.Sim
	sc    *w2mScript
	prop  string
	node  *Node
	b     *MemoryMapBroker
	rec   *w2Recorder
	cfgs  []w2mCfg
	recs  []*w2mRec
	cur   map[int]*w2mRec // task -> operation in flight
	next  func() int64
	nid   int
	sumHS int64
}

func w2mChName(i int) string { return fmt.Sprintf("w2m:%d", i) }

func (w *w2mWorld) chanOpts(ch string) MapChannelOptions {
	for i, c := range w.sc.Chans {
		if w2mChName(i) == ch {
			return MapChannelOptions{Mode: MapMode(c.Mode), ordered: c.Ordered, KeyTTL: time.Duration(c.KeyTTLMs) * time.Millisecond,
				StreamSize: c.StreamSize, StreamTTL: time.Duration(c.StreamTTLs) * time.Second, MetaTTL: time.Duration(c.MetaTTLs) * time.Second}
		}
	}
	return MapChannelOptions{}
}

func w2mRun(s *simrt.Sim, script any, prop string) {
	sc := script.(*w2mScript)
	var evc int64
	w := &w2mWorld{s: s, sc: sc, prop: prop, cur: map[int]*w2mRec{}}
	w.next = func() int64 { evc++; return evc }
	node, err := New(Config{LogLevel: LogLevelNone, Metrics: MetricsConfig{RegistererGatherer: prometheus.NewRegistry()}})
	if err != nil {
		panic(err)
	}
	w.node = node
	node.config.Map.GetMapChannelOptions = w.chanOpts
	w.b = node.mapBroker.(*MemoryMapBroker)
	w.b.mapHub.setChannelOptionsResolver(w.chanOpts)
	for i := range sc.Chans {
		o, err := ResolveAndValidateMapChannelOptions(w.chanOpts, w2mChName(i))
		if err != nil {
			panic(fmt.Sprintf("generated invalid channel options: %v", err))
		}
		w.cfgs = append(w.cfgs, w2mCfg{Mode: o.Mode, Ordered: o.ordered, KeyTTL: int64(o.KeyTTL), StreamSize: o.StreamSize, StreamTTL: int64(o.StreamTTL), MetaTTL: int64(o.MetaTTL)})
	}
	for _, t := range sc.Tasks {
		for _, op := range t {
			w.sumHS += int64(op.HS) * w2Ms
		}
	}
	w.rec = &w2Recorder{s: s, next: w.next, tasks: map[int64]int{}}
	w.rec.hook = func(ev *w2HEvent) {
		if ev.Task < 0 {
			if ev.Removed && sc.EHS > 0 {
				s.Probe("expiry_handler_sleep")
				s.Sleep(time.Duration(sc.EHS) * time.Millisecond)
			}
			return
		}
		r := w.cur[ev.Task]
		if r == nil {
			return
		}
		r.hev = append(r.hev, ev)
		if r.op.HS > 0 && len(r.hev) == 1 {
			s.Probe("handler_sleep")
			s.Sleep(time.Duration(r.op.HS) * time.Millisecond)
		}
	}
	if err := w.b.RegisterEventHandler(w.rec); err != nil {
		panic(err)
	}
	done := make(chan struct{}, len(sc.Tasks))
	for t, ops := range sc.Tasks {
		t, ops := t, ops
		s.Go(func() {
			defer func() { done <- struct{}{} }()
			w.runOps(t, ops)
		})
	}
	for range sc.Tasks {
		<-done
	}
	s.Pause()
	w.runOps(len(sc.Tasks), sc.Final)
	if sc.Pages {
		w.pagination()
	}
	_ = w.b.Close(context.Background())
	_ = node.broker.(*MemoryBroker).Close(context.Background())
	w.check()
}

func (w *w2mWorld) runOps(task int, ops []w2mOp) {
	s, sc := w.s, w.sc
	w.rec.tasks[w2Goid()] = task
	nch := len(sc.Chans)
	lastTop := make([]uint64, nch)
	lastEpoch := make([]string, nch)
	known := make([]map[string]StreamPosition, nch)
	for i := range known {
		known[i] = map[string]StreamPosition{}
	}
	ctx := context.Background()
	for i, op := range ops {
		if op.K == "sleep" {
			s.Sleep(time.Duration(op.Ms) * time.Millisecond)
			continue
		}
		if op.Ch >= nch {
			continue
		}
		ch := w2mChName(op.Ch)
		key := w2mKeys[op.Key%len(w2mKeys)]
		w.nid++
		in := &w2mIn{id: w.nid}
		out := &w2mOut{}
		r := &w2mRec{task: task, idx: i, ch: op.Ch, in: in, out: out, op: op}
		cas := func() *StreamPosition {
			if op.CAS == 0 {
				return nil
			}
			sp := known[op.Ch][key]
			if sp.Epoch == "" {
				sp.Epoch = lastEpoch[op.Ch]
			}
			switch op.CAS {
			case 2:
				sp.Offset++
			case 3:
				sp.Epoch = "bogus"
			}
			return &sp
		}
		idem := func() {
			if op.IK != 0 {
				in.IK = fmt.Sprintf("ik%d", op.IK)
				in.ITTL = int64(op.ITTLMs) * w2Ms
				if in.ITTL == 0 {
					in.ITTL = int64(defaultIdempotentResultExpireSeconds) * w2Sec
				}
			}
		}
		finishUpdate := func(res MapUpdateResult, err error) {
			r.ret = w.next()
			in.B = int64(s.Now())
			if len(r.hev) > 0 {
				in.B = r.hev[0].T
			}
			w.cur[task] = nil
			if err != nil {
				out.Err = err.Error()
				return
			}
			out.Pos, out.Suppressed, out.Reason = res.Position, res.Suppressed, string(res.SuppressReason)
			if res.CurrentEntry != nil {
				out.HasCur, out.CurOff, out.CurData = true, res.CurrentEntry.Offset, string(res.CurrentEntry.Data)
				known[op.Ch][key] = StreamPosition{Offset: res.CurrentEntry.Offset, Epoch: res.Position.Epoch}
			}
			if res.Position.Epoch != "" {
				lastTop[op.Ch], lastEpoch[op.Ch] = res.Position.Offset, res.Position.Epoch
			}
		}
		switch op.K {
		case "pub":
			in.Kind, in.Key, in.Data = 'P', key, fmt.Sprintf("d%d.%d", task, i)
			in.Mode = []KeyMode{KeyModeReplace, KeyModeIfNew, KeyModeIfExists}[op.Mode%3]
			in.Refresh, in.Score = op.Refresh, op.Score
			in.Ver, in.VEp = op.Ver, w2sVEs[op.VE%len(w2sVEs)]
			in.CAS = cas()
			idem()
			po := MapPublishOptions{Data: []byte(in.Data), KeyMode: in.Mode, RefreshTTLOnSuppress: in.Refresh, score: in.Score, Version: in.Ver, VersionEpoch: in.VEp,
				ExpectedPosition: in.CAS, IdempotencyKey: in.IK, IdempotentResultTTL: time.Duration(op.ITTLMs) * time.Millisecond}
			w.cur[task] = r
			in.A = int64(s.Now())
			r.call = w.next()
			res, err := w.b.Publish(ctx, ch, key, po)
			finishUpdate(res, err)
			if err == nil && !res.Suppressed {
				known[op.Ch][key] = res.Position
			}
			s.Event("pub t%d.%d ch%d %s -> %s", task, i, op.Ch, key, out)
		case "rm":
			in.Kind, in.Key = 'R', key
			in.CAS = cas()
			idem()
			ro := MapRemoveOptions{ExpectedPosition: in.CAS, IdempotencyKey: in.IK, IdempotentResultTTL: time.Duration(op.ITTLMs) * time.Millisecond}
			w.cur[task] = r
			in.A = int64(s.Now())
			r.call = w.next()
			res, err := w.b.Remove(ctx, ch, key, ro)
			finishUpdate(res, err)
			s.Event("rm t%d.%d ch%d %s -> %s", task, i, op.Ch, key, out)
		case "clear":
			in.Kind = 'C'
			in.A = int64(s.Now())
			r.call = w.next()
			err := w.b.Clear(ctx, ch, MapClearOptions{})
			r.ret = w.next()
			in.B = int64(s.Now())
			if err != nil {
				out.Err = err.Error()
			}
			known[op.Ch] = map[string]StreamPosition{}
			s.Event("clear t%d.%d ch%d", task, i, op.Ch)
		case "state", "key":
			ro := MapReadStateOptions{Limit: -1, Asc: op.Asc}
			in.Kind, in.Asc = 'S', op.Asc
			if op.K == "key" {
				in.Kind, in.Key, in.Asc = 'K', key, false
				ro = MapReadStateOptions{Key: key}
			}
			in.A = int64(s.Now())
			r.call = w.next()
			res, err := w.b.ReadState(ctx, ch, ro)
			r.ret = w.next()
			in.B = int64(s.Now())
			if err != nil {
				out.Err = err.Error()
			} else {
				out.Pos = res.Position
				lastTop[op.Ch], lastEpoch[op.Ch] = res.Position.Offset, res.Position.Epoch
				for _, p := range res.Publications {
					out.State = append(out.State, w2mKV{Key: p.Key, Data: string(p.Data), Off: p.Offset, Score: p.Score})
					known[op.Ch][p.Key] = StreamPosition{Offset: p.Offset, Epoch: res.Position.Epoch}
				}
				if res.Cursor != "" {
					w.s.Violate("C21", "cursor-on-unlimited-read", "ReadState without limit returned a cursor", "%s -> cursor %q", in, res.Cursor)
				}
			}
			s.Event("read t%d.%d ch%d -> %s", task, i, op.Ch, out)
		case "stream":
			in.Kind, in.Lim, in.Rev = 'T', op.Lim, op.Rev
			if op.Since != 0 {
				off := int64(lastTop[op.Ch]) + int64(op.Rel)
				if off < 0 {
					off = 0
				}
				if op.Rev && off == 0 {
					off = 1
				}
				sp := &StreamPosition{Offset: uint64(off)}
				switch op.EK {
				case 0:
					sp.Epoch = lastEpoch[op.Ch]
				case 2:
					sp.Epoch = "bogus"
				}
				in.Since = sp
			}
			in.A = int64(s.Now())
			r.call = w.next()
			res, err := w.b.ReadStream(ctx, ch, MapReadStreamOptions{Filter: StreamFilter{Since: in.Since, Limit: op.Lim, Reverse: op.Rev}})
			r.ret = w.next()
			in.B = int64(s.Now())
			if err != nil {
				out.Err = err.Error()
			} else {
				out.Pos = res.Position
				lastTop[op.Ch], lastEpoch[op.Ch] = res.Position.Offset, res.Position.Epoch
				for _, p := range res.Publications {
					out.Ents = append(out.Ents, w2mEnt{Off: p.Offset, Key: p.Key, Removed: p.Removed, Data: string(p.Data)})
				}
			}
			s.Event("stream t%d.%d ch%d -> %s", task, i, op.Ch, out)
		default:
			continue
		}
		w.recs = append(w.recs, r)
	}
}
