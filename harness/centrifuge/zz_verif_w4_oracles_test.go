//go:build verif

package centrifuge

// W4 oracles (C25, keyed part of C14). Everything is judged from the frames in the order
// in which they reach the simulated transport, plus the harness' own ground truth: the
// backend store log (every payload is unique, so a payload identifies key, epoch and
// version) and the invocation/return points of node-level calls.

import (
	"fmt"
	"time"

	"github.com/centrifugal/protocol"
	fdelta "github.com/shadowspore/fossil-delta"
)

// violate reports a clause of C25; delta clauses are also clauses of C14.
func (w *w4World) violate(delta bool, clause, sig, format string, args ...any) {
	w.s.Violate("C25", clause, sig, format, args...)
	if delta {
		w.s.Violate("C14", clause, sig, format, args...)
	}
}

func (cl *w4Conn) dropKey(ks *w4KeyState, seq int64, why string) {
	if ks.tracked {
		ks.tracked = false
		ks.endSeq = seq
		ks.endWhy = why
	}
	ks.has, ks.data = false, nil
	ks.staleItem = false
}

func (cl *w4Conn) endTrackingAll(seq int64, why string) {
	for _, k := range cl.w.keyNames {
		if ks := cl.keys[k]; ks != nil {
			cl.dropKey(ks, seq, why)
		}
	}
}

func (cl *w4Conn) excuse(seq int64) {
	if seq > cl.lastExcuseSeq {
		cl.lastExcuseSeq = seq
	}
}

func (cl *w4Conn) onUnsubPush(seq int64, ch string, code uint32) {
	w := cl.w
	cl.unsubs = append(cl.unsubs, w4Unsub{Seq: seq, Code: code, At: w.s.Now()})
	if ch != w4Channel || !cl.subscribed {
		return
	}
	cl.subscribed = false
	cl.endWhy = fmt.Sprintf("unsubscribe push code %d", code)
	for _, c := range cl.cmds {
		if c.Kind == "unsubscribe" && !c.Replied {
			cl.endWhy += " while the connection's own unsubscribe command was in flight"
			break
		}
	}
	if c := cl.client; c != nil {
		// (classification only) does the server still hold the very subscription this push
		// claims to end? Client.Unsubscribe writes its push even when it removed nothing,
		// e.g. when it ran before the subscribe command in flight had reserved the channel
		c.mu.RLock()
		ctx, ok := c.channels[w4Channel]
		still := ok && channelHasFlag(ctx.flags, flagSubscribed) && c.status != statusClosed
		c.mu.RUnlock()
		resub := false
		for _, cm := range cl.cmds {
			if cm.Kind == "subscribe" && cm.Seq > cl.subSeq {
				resub = true
			}
		}
		if still && !resub {
			cl.endWhy += " although the server did not end the subscription"
			w.s.Probe("spurious_unsubscribe_push")
		}
	}
	cl.endTrackingAll(seq, cl.endWhy)
	if code == UnsubscribeCodeInsufficient {
		w.s.Probe("insufficient_unsub")
		if cl.spec.AutoResub && !cl.resubbing {
			cl.resubbing = true
			w.s.Go(cl.resubscribe)
		}
	} else {
		cl.excuse(seq)
	}
}

func (cl *w4Conn) onCmdReply(seq int64, cmd *w4Cmd, rep *protocol.Reply) {
	w := cl.w
	settled := map[string]bool{}
	if cmd.Session == cl.session {
		for k, ov := range cmd.Overlaps {
			ks := cl.keyState(k)
			if ks.inflight > 0 {
				ks.inflight--
			}
			// a command that was alone in flight from send to reply settles the state
			if ks.inflight == 0 && ov == ks.overlaps {
				settled[k] = true
			}
		}
	}
	defer func() {
		for k := range settled {
			cl.keyState(k).ambig = false
		}
	}()
	switch cmd.Kind {
	case "connect":
		cl.connected = cmd.ErrCode == 0
	case "subscribe":
		if cmd.ErrCode != 0 || rep.Subscribe == nil {
			return
		}
		cl.session++
		cl.subscribed = true
		cl.subDelta = rep.Subscribe.Delta
		cl.subEpoch = rep.Subscribe.Epoch
		cl.subSeq = seq
		cl.keys = map[string]*w4KeyState{}
		if cl.spec.Delta != cl.subDelta {
			w.s.Violate(w.prop, "harness", "delta negotiation result unexpected", "client %d asked delta=%v got %v", cl.idx, cl.spec.Delta, cl.subDelta)
		}
		if rep.Subscribe.Type != int32(SubscriptionTypeSharedPoll) {
			w.s.Violate(w.prop, "harness", "subscribe reply type", "type %d", rep.Subscribe.Type)
		}
	case "unsubscribe":
		if cmd.ErrCode != 0 {
			return
		}
		cl.subscribed = false
		cl.endWhy = "unsubscribe reply"
		cl.endTrackingAll(seq, cl.endWhy)
		cl.excuse(seq)
	case "untrack":
		for _, k := range cmd.Keys {
			ks := cl.keyState(k)
			ks.untrackSent = false
			ks.untrackReplySeq = seq
			if cmd.ErrCode == 0 {
				cl.dropKey(ks, seq, "untrack reply")
			}
		}
		cl.excuse(seq)
	case "track":
		sameSession := cmd.Session == cl.session
		for _, k := range cmd.Keys {
			if !sameSession {
				continue
			}
			ks := cl.keyState(k)
			if ks.pending > 0 {
				ks.pending--
			}
		}
		if cmd.ErrCode != 0 || rep.SubRefresh == nil {
			w.s.Probe("track_error")
			return
		}
		if !cl.subscribed {
			return
		}
		inKeys := map[string]bool{}
		for _, k := range cmd.Keys {
			inKeys[k] = true
			ks := cl.keyState(k)
			claimed := cmd.Claimed[k]
			// the server restarts the per-connection version of the key at the claimed
			// version: that is the baseline for everything delivered from now on
			if claimed < ks.base {
				ks.gen = 0 // anything the connection already holds may legitimately be sent again
			}
			ks.base = claimed
			if !ks.tracked {
				ks.tracked = true
				ks.trackedAtSeq = seq
				ks.trackedAt = w.s.Now()
			}
			ks.trackSendSeq = cmd.Seq
			ks.trackCmd = cmd
			ks.trackReplySeq = seq
		}
		for _, pub := range rep.SubRefresh.Items {
			w.s.Probe("cached_item")
			if !inKeys[pub.Key] {
				w.violate(false, "push-untracked-key", "track reply carries an item for a key that was not in the request", "client %d: item key %s in reply to track %v", cl.idx, pub.Key, cmd.Keys)
				continue
			}
			ks := cl.keyState(pub.Key)
			if pub.Version <= cmd.Claimed[pub.Key] {
				w.violate(false, "version-not-increasing", "track reply item not newer than the version the client reported", "client %d key %s: item version %d, client reported %d", cl.idx, pub.Key, pub.Version, cmd.Claimed[pub.Key])
				continue
			}
			if ks.has && pub.Version < ks.dataVer {
				// the reply was built before an update that the connection, already a
				// subscriber of the key through an earlier track, was pushed ahead of it: a
				// client that takes the item as the key's data goes back to an older payload
				ks.staleItem = true
				w.s.Probe("track_reply_item_older_than_pushed_update")
			}
			cl.applyUpdate(ks, pub, "track reply item")
		}
		for _, k := range cmd.Unt {
			cl.dropKey(cl.keyState(k), seq, "inline untrack (track reply)")
			cl.excuse(seq)
		}
	}
}

// applyUpdate decodes the payload of an update (full or delta), checks it against the
// ground truth and makes it the data the connection holds for the key.
func (cl *w4Conn) applyUpdate(ks *w4KeyState, pub *protocol.Publication, what string) {
	w := cl.w
	cfg := w.sc.Cfg
	payload, err := cl.payload(pub)
	if err != nil {
		w.violate(true, "payload-encoding", "payload of a delta subscription is not a JSON string", "client %d key %s v%d (%s): %v", cl.idx, pub.Key, pub.Version, what, err)
		return
	}
	full := payload
	sfx := ""
	if cfg.PrevData {
		sfx = " [backend-supplied PrevData]"
	}
	if ks.staleItem && pub.Delta {
		sfx += " [after a track reply whose item is older than an update pushed before it]"
	}
	if !pub.Delta && what != "track reply item" {
		ks.staleItem = false
	}
	if pub.Delta && ks.broken {
		// a delta already failed for this key: everything until the next full payload
		// is a consequence of that (reported) failure
		w.s.Probe("delta_after_broken_base")
		ks.base = pub.Version
		return
	}
	if pub.Delta {
		if !cl.subDelta {
			w.violate(true, "delta-base", "delta flag on a subscription that did not negotiate delta", "client %d key %s v%d (%s)", cl.idx, pub.Key, pub.Version, what)
			return
		}
		if !ks.has {
			w.violate(true, "delta-base", "delta update although the connection holds no data for the key"+sfx, "client %d key %s v%d (%s)", cl.idx, pub.Key, pub.Version, what)
			ks.broken, ks.base = true, pub.Version
			return
		}
		full, err = fdelta.Apply(ks.data, payload)
		if err != nil {
			w.violate(true, "delta-base", "delta does not apply to the data the connection holds"+sfx, "client %d key %s v%d (%s): held version %d, apply error: %v", cl.idx, pub.Key, pub.Version, what, ks.base, err)
			ks.broken, ks.base = true, pub.Version
			return
		}
		w.s.Probe("delta_applied")
		w.s.Probe("nontrivial:C14")
	} else {
		w.s.Probe("full_update")
	}
	rec := w.store.truth[string(full)]
	if rec == nil {
		sig := "full update carries a payload nobody provided"
		if pub.Delta {
			sig = "delta yields a payload nobody provided"
		}
		if pub.Delta {
			sig += sfx
			ks.broken, ks.base = true, pub.Version
		}
		w.violate(true, "payload-mismatch", sig, "client %d key %s v%d (%s): payload %q (held version %d)", cl.idx, pub.Key, pub.Version, what, string(full), ks.base)
		return
	}
	if rec.key != pub.Key {
		w.violate(true, "payload-mismatch", "payload of another key", "client %d key %s v%d (%s): payload belongs to %s", cl.idx, pub.Key, pub.Version, what, rec.key)
		return
	}
	if cfg.Versioned && rec.ver != pub.Version {
		sig := "payload of another version"
		if pub.Delta {
			sig = "delta yields the payload of another version" + sfx
			ks.broken = true
		}
		w.violate(true, "payload-mismatch", sig, "client %d key %s: update says v%d but the payload is the one of v%d (epoch %s) (%s)", cl.idx, pub.Key, pub.Version, rec.ver, rec.epoch, what)
		return
	}
	if !cfg.Versioned && ks.pending == 0 && ks.has && rec.gen < ks.gen && !ks.resumedClaim {
		// versionless: the wire version is synthetic; the payload itself must not go back.
		// The SAME payload under a higher synthetic version is not a violation of C25
		// (versions still strictly increase, the held data stays the newest): the server
		// legitimately re-sends it when the key's item entry was re-created (last
		// subscriber untracked and tracked again while a broadcast of the previous entry
		// was still in flight). It is counted, not reported.
		w.violate(false, "stale-data", "versionless: an older backend payload delivered after a newer one", "client %d key %s: payload generation %d after %d (wire versions %d after %d) (%s)", cl.idx, pub.Key, rec.gen, ks.gen, pub.Version, ks.base, what)
	}
	if !cfg.Versioned && ks.has && rec.gen == ks.gen {
		w.s.Probe("same_payload_higher_synthetic_version")
	}
	if !pub.Delta {
		ks.broken = false
	}
	ks.base, ks.gen, ks.data, ks.has = pub.Version, rec.gen, full, true
	ks.dataVer = pub.Version
	ks.npush++
	if ks.npush >= 2 {
		w.s.Probe("nontrivial:C25")
	}
}

func (cl *w4Conn) onPub(seq int64, ch string, pub *protocol.Publication) {
	w := cl.w
	if ch != w4Channel {
		w.s.Violate(w.prop, "harness", "publication on an unknown channel", "channel %q", ch)
		return
	}
	if !cl.subscribed {
		why := cl.endWhy
		if why == "" {
			why = "never subscribed"
		}
		w.violate(false, "push-after-subscription-end", "update after the subscription ended ("+stripNumbers(why)+")", "client %d: key %s v%d removed=%v after %s", cl.idx, pub.Key, pub.Version, pub.Removed, why)
		return
	}
	ks := cl.keyState(pub.Key)
	if pub.Removed {
		w.s.Probe("removal_push")
		cl.dropKey(ks, seq, "removal push")
		delete(cl.wantKeys, pub.Key)
		cl.excuse(seq)
		return
	}
	if !ks.tracked {
		ov := ""
		if ks.ambig {
			ov = w4Overlap
		}
		switch {
		case ks.pending > 0 && ks.endSeq == 0:
			w.violate(false, "push-untracked-key", "update before the track reply"+ov, "client %d: key %s v%d while the track command is unanswered", cl.idx, pub.Key, pub.Version)
		case ks.pending > 0:
			w.violate(false, "push-untracked-key", "update between "+ks.endWhy+" and the reply to a new track"+ov, "client %d: key %s v%d", cl.idx, pub.Key, pub.Version)
		case ks.endSeq > 0:
			w.violate(false, "push-untracked-key", "update after "+ks.endWhy+ov, "client %d: key %s v%d after %s", cl.idx, pub.Key, pub.Version, ks.endWhy)
		default:
			w.violate(false, "push-untracked-key", "update for a key the connection never tracked"+ov, "client %d: key %s v%d", cl.idx, pub.Key, pub.Version)
		}
		return
	}
	if ks.untrackSent {
		w.s.Probe("update_while_untrack_in_flight")
	}
	// revoke: took effect = the call returned and virtual time advanced
	if ks.pending == 0 {
		for _, r := range w.revokes {
			if r.RetSeq == 0 || w.s.Now() < r.RetAt+10*time.Millisecond || !r.affects(cl.spec.User) || ks.trackReplySeq > r.Seq {
				continue
			}
			for _, k := range r.Keys {
				if k == pub.Key {
					w.violate(false, "push-after-revoke", "update after SharedPollRevokeKeys returned, track acknowledged before the call", "client %d (user %s): key %s v%d at %v; revoke mode %d returned at %v; track reply seq %d < revoke call seq %d", cl.idx, cl.spec.User, pub.Key, pub.Version, w.s.Now(), r.Mode, r.RetAt, ks.trackReplySeq, r.Seq)
				}
			}
		}
	}
	// strictly increasing versions
	if ks.pending > 0 {
		w.s.Probe("update_while_retrack_in_flight")
		if pub.Version <= ks.winClaim {
			w.violate(false, "version-not-increasing", "update not newer than the version reported by the track in flight", "client %d key %s: v%d, reported %d", cl.idx, pub.Key, pub.Version, ks.winClaim)
			return
		}
	} else if pub.Version <= ks.base {
		sig := "update version not above the previous one"
		if pub.Version == ks.base {
			sig = "same version delivered twice"
		}
		w.violate(false, "version-not-increasing", sig, "client %d key %s: v%d after v%d (delta=%v)", cl.idx, pub.Key, pub.Version, ks.base, pub.Delta)
		return
	}
	cl.applyUpdate(ks, pub, "push")
}

func stripNumbers(s string) string {
	out := make([]byte, 0, len(s))
	for i := 0; i < len(s); i++ {
		if s[i] >= '0' && s[i] <= '9' {
			continue
		}
		out = append(out, s[i])
	}
	return string(out)
}

// serverView describes the server-side state for (connection, key); only used to make
// violation details self-explanatory (never for a verdict).
func (w *w4World) serverView(cl *w4Conn, k string) string {
	out := ""
	m := w.node.sharedPollManager
	m.mu.RLock()
	st := m.channels[w4Channel]
	m.mu.RUnlock()
	if st == nil {
		out += "no channel state; "
	} else {
		st.mu.Lock()
		if e := st.itemIndex[k]; e != nil {
			out += fmt.Sprintf("itemIndex version=%d needsBroadcast=%v fresh=%v pendingHubJoin=%d; ", e.version, e.needsBroadcast, e.freshFromPublish, e.pendingHubJoin)
		} else {
			out += "key not in itemIndex; "
		}
		out += fmt.Sprintf("state epoch=%q removed=%v workerRunning=%v; ", st.epoch, st.removed, st.workerRunning)
		st.mu.Unlock()
	}
	if hub := w.node.keyedManager.getHub(w4Channel); hub == nil {
		out += "no hub; "
	} else if cl.client != nil {
		out += fmt.Sprintf("in hub=%v; ", hub.hasSubscriber(k, cl.client))
	}
	if cl.client != nil {
		cl.client.mu.RLock()
		if cl.client.keyed != nil {
			if ks := cl.client.keyed.trackedKeys[w4Channel][k]; ks != nil {
				out += fmt.Sprintf("connection key state version=%d deltaReady=%v", ks.version, ks.deltaReady)
			} else {
				out += "connection does not track the key"
			}
		}
		cl.client.mu.RUnlock()
	}
	return out
}

// orphanClass classifies a convergence failure by the server-side bookkeeping (used in
// the signature only, so that distinct root causes are triaged separately).
func (w *w4World) orphanClass(cl *w4Conn, k string) string {
	m := w.node.sharedPollManager
	m.mu.RLock()
	st := m.channels[w4Channel]
	m.mu.RUnlock()
	suffix := ""
	if w.sc.Cfg.ShutdownMs < 0 {
		suffix = ", immediate channel shutdown"
	}
	if st == nil {
		return " [server keeps no shared-poll state for the channel" + suffix + "]"
	}
	st.mu.Lock()
	e := st.itemIndex[k]
	st.mu.Unlock()
	if e == nil {
		return " [key missing in the server's item index" + suffix + "]"
	}
	if hub := w.node.keyedManager.getHub(w4Channel); hub == nil || cl.client == nil || !hub.hasSubscriber(k, cl.client) {
		return " [connection missing in the key hub]"
	}
	return ""
}

// commands naming one key (track, inline untrack, untrack) that are in flight together
// (possible with an asynchronous OnTrack handler) take effect in an order the client
// cannot know; violations on such keys are classified separately
const w4Overlap = " [commands naming the key overlapped in flight]"

func (cl *w4Conn) resumeClass(k string, ks *w4KeyState) string {
	if ks.ambig {
		return w4Overlap
	}
	// the window is the server's handling of the track (trackKeys .. hub join), which goes on
	// after the reply was written: it ends when the server is done with the command
	winEnd := ks.trackReplySeq
	if c := ks.trackCmd; c != nil && c.Seq == ks.trackSendSeq && (c.DoneSeq == 0 || c.DoneSeq > winEnd) {
		winEnd = c.DoneSeq
		if winEnd == 0 {
			winEnd = 1 << 62
		}
	}
	for _, p := range cl.w.provided {
		if p.Key == k && p.Seq > ks.trackSendSeq && p.Seq < winEnd {
			return " [a poll answer or publish for the key completed while the track was in flight]"
		}
	}
	if ks.resumedClaim {
		if cl.subEpoch == cl.w.node.sharedPollManager.epoch {
			// (classification only) the epoch both subscribe replies carried is the
			// manager-level one that is reported while no channel state exists
			return " [connection resumed with the versions of its previous connection: same manager-level epoch in the subscribe reply]"
		}
		return " [connection resumed with the versions of its previous connection: same channel-state epoch in the subscribe reply]"
	}
	return ""
}

// checkEnd runs after traffic stopped and several refresh intervals passed.
func (w *w4World) checkEnd() {
	s := w.s
	for _, cl := range w.conns {
		if cl.closedSeq != 0 || !cl.subscribed {
			continue
		}
		for _, k := range w.keyNames {
			ks := cl.keys[k]
			if ks == nil || !ks.tracked {
				continue
			}
			st := w.store.keys[k]
			if st.removed {
				continue
			}
			if ks.pending > 0 {
				s.Probe("conv_skipped_pending")
				continue
			}
			if s.Now()-ks.trackedAt < w.stable {
				// "eventually" needs the key to stay tracked for a while
				s.Probe("conv_skipped_recent")
				continue
			}
			skip := false
			for _, r := range w.revokes {
				if !r.affects(cl.spec.User) {
					continue
				}
				for _, rk := range r.Keys {
					if rk == k && (r.RetSeq == 0 || r.RetSeq > ks.trackSendSeq) {
						skip = true
					}
				}
			}
			if skip {
				// a revoke raced with (or followed) the track without a removal push:
				// whether the key is still served is not determined by the property
				s.Probe("conv_skipped_revoke")
				continue
			}
			if ks.broken {
				s.Probe("conv_skipped_broken_delta")
				continue
			}
			if !ks.has && ks.base > 0 {
				// the key was untracked (data forgotten) while a track that reported a
				// held version was still in flight: the SDK-side state is inconsistent
				// by the client's own doing
				s.Probe("conv_skipped_claim_without_data")
				continue
			}
			s.Probe("conv_checked")
			cur := st.cur
			if !ks.has {
				w.violate(false, "not-converged", "tracked key never received data"+w.orphanClass(cl, k)+cl.resumeClass(k, ks), "client %d key %s: holds nothing %v after traffic stopped; newest is v%d (epoch %q, generation %d) [server: %s]", cl.idx, k, s.Now(), cur.ver, cur.epoch, cur.gen, w.serverView(cl, k))
				continue
			}
			if string(ks.data) != string(cur.data) {
				held := w.store.truth[string(ks.data)]
				w.violate(false, "not-converged", "tracked key holds an old version after traffic stopped"+w.orphanClass(cl, k)+cl.resumeClass(k, ks), "client %d key %s: holds v%d (epoch %q, generation %d, wire version %d), newest is v%d (epoch %q, generation %d) [server: %s]", cl.idx, k, held.ver, held.epoch, held.gen, ks.base, cur.ver, cur.epoch, cur.gen, w.serverView(cl, k))
			}
		}
	}
	// liveness of a resubscribing client: once the publisher epoch is stable (no flips,
	// no late answers any more) insufficient-state unsubscribes must stop
	for _, cl := range w.conns {
		n := 0
		for _, u := range cl.unsubs {
			if u.Code == UnsubscribeCodeInsufficient && u.At > w.quiesceAt+w.stable {
				n++
			}
		}
		if n >= 2 {
			w.violate(false, "not-converged", "resubscribing client is unsubscribed with insufficient state again and again although the publisher epoch is stable", "client %d: %d insufficient-state unsubscribes later than %v after traffic (and epoch changes) stopped; shutdown_ms=%d", cl.idx, n, w.stable, w.sc.Cfg.ShutdownMs)
		}
	}
	// publisher epoch change ends the subscriptions that were tracking at that time
	for fi, f := range w.flips {
		for _, cl := range w.conns {
			if !f.Tracking[cl.idx] {
				continue
			}
			got := false
			for _, u := range cl.unsubs {
				if u.Seq > f.Seq && u.Code == UnsubscribeCodeInsufficient {
					got = true
				}
			}
			if got {
				s.Probe("epoch_unsub_checked")
				continue
			}
			if cl.lastExcuseSeq > f.Seq || cl.closedSeq != 0 {
				continue
			}
			excused := false
			for _, r := range w.revokes {
				if r.affects(cl.spec.User) && (r.RetSeq == 0 || r.RetSeq > f.Seq) {
					excused = true
				}
			}
			if excused {
				continue
			}
			w.violate(false, "epoch-change", "subscription survived a publisher epoch change", "client %d tracked keys at epoch flip %d (t=%v) and did nothing itself, but never received an insufficient-state unsubscribe", cl.idx, fi, f.At)
		}
	}
}
