//go:build verif

package centrifuge

// W1: the client world. One real Node (memory broker / presence manager, optionally a
// faulty PUB/SUB seam in front of the broker), 2..4 simulated clients speaking the real
// client protocol through a simulated Transport, publisher tasks and admin tasks using
// the node-level API. Everything is driven by a generated script; which goroutine runs
// next at every lock/atomic/spawn point of the real code is decided by the simulator.

import (
	"os"
	"context"
	"encoding/json"
	"errors"
	"fmt"
	"io"
	"sort"
	"strconv"
	"strings"
	"time"

	simrt "github.com/centrifugal/centrifuge/internal/simrt"
	simsync "github.com/centrifugal/centrifuge/internal/simrt/simsync"
	"github.com/centrifugal/protocol"
	"github.com/prometheus/client_golang/prometheus"
)

// ---------------------------------------------------------------- script

type w1Op struct {
	K       string `json:"k"`
	Ch      string `json:"ch,omitempty"`
	C       int    `json:"c,omitempty"`      // target client index (admin ops)
	Recover bool   `json:"rec,omitempty"`    // subscribe with recovery from last seen position
	DelayUs int    `json:"delay,omitempty"`  // sleep / async handler completion delay
	Err     bool   `json:"err,omitempty"`    // subscribe handler answers with an error
	N       int    `json:"n,omitempty"`      // generic number (limit, count)
	Rev     bool   `json:"rev,omitempty"`    // history reverse
	Since   int    `json:"since,omitempty"`  // history since offset (-1 none)
	Back    int    `json:"back,omitempty"`   // subrec: requested offset = top - Back (negative: beyond the top)
	Ep      string `json:"ep,omitempty"`     // subrec: cur | foreign | empty
	Reject  bool   `json:"reject,omitempty"` // subrec: demand error 112 when not recoverable
	Tf      bool   `json:"tf,omitempty"`     // subscribe with a client tags filter (tag c == "1")
	Delta   bool   `json:"delta,omitempty"`  // subscribe negotiating fossil delta
}

type w1Client struct {
	Proto            string            `json:"proto"` // json | protobuf
	User             string            `json:"user"`
	ConnSubs         []string          `json:"conn_subs,omitempty"` // connect-time server-side subscriptions
	Emulation        bool              `json:"emulation,omitempty"` // commands arrive through independent requests (HTTP emulation): a rejected command does not stop later ones from being handed to the connection
	ConnSubExpired   bool              `json:"conn_sub_expired,omitempty"` // they carry an ExpireAt in the past: the connect command is answered with an error AFTER the connection was authenticated
	NoPong           bool              `json:"no_pong,omitempty"`
	PongDelayMs      int               `json:"pong_delay_ms,omitempty"`
	ConnectHandlerMs int               `json:"on_connect_ms,omitempty"` // OnConnect takes this long
	Labels           map[string]string `json:"labels,omitempty"`
	ExpireInSec      int               `json:"expire_in_s,omitempty"`
	Ops              []w1Op            `json:"ops"`
}

type w1Cfg struct {
	HistorySize        int  `json:"history_size"`
	HistoryTTLSec      int  `json:"history_ttl_s"`
	ChannelLimit       int  `json:"channel_limit"`
	PingMs             int  `json:"ping_ms"`
	PongMs             int  `json:"pong_ms"`
	StaleMs            int  `json:"stale_ms"`
	PresenceMs         int  `json:"presence_ms"`
	PresenceConc       int  `json:"presence_conc"`
	PositionCheckMs    int  `json:"position_check_ms"`
	QueueMax           int  `json:"queue_max"`
	ReplyNoQueue       bool `json:"reply_no_queue"`
	WriteDelayUs       int  `json:"write_delay_us"`
	WriteTimer         bool `json:"write_timer"`
	Batch              bool `json:"batch"`
	BatchLatest        bool `json:"batch_latest"`
	DropPm             int  `json:"pubsub_drop_pm"`
	DupPm              int  `json:"pubsub_dup_pm"`
	DelayPm            int  `json:"pubsub_delay_pm"`
	ExpiredDelayMs     int  `json:"expired_close_delay_ms"`
	ChannelMaxLen      int  `json:"channel_max_length"`
	MediumShared       bool `json:"medium_shared_position_sync"`
	MediumLatest       bool `json:"medium_keep_latest"`
	MediumQueue        bool `json:"medium_queue"`
	MediumQueueMax     int  `json:"medium_queue_max"`
	MediumDelayMs      int  `json:"medium_broadcast_delay_ms"`
	ConcurrentRecovery bool `json:"concurrent_recovery"` // C02/C03: publishers run concurrently with the recovering subscribes
	MetaTTLSec         int  `json:"history_meta_ttl_s"`
	HistoryMax         int  `json:"history_max_publication_limit"`
	RecoveryMax        int  `json:"recovery_max_publication_limit"`
	HistRacePm         int  `json:"publish_racing_history_read_pm"`
	SubDelayPm         int  `json:"broker_subscribe_delay_pm"`
	SubFailPm          int  `json:"broker_subscribe_fail_pm"`
	UnsubFailPm        int  `json:"broker_unsubscribe_fail_pm"`
	SettleMs           int  `json:"settle_ms"`
	ShutdownAtEnd      bool `json:"shutdown_at_end"`
	// knobs added later (drawn last by the generator so that earlier scripts keep their shape)
	TimerSched      bool `json:"timer_scheduler,omitempty"`       // Config.ClientTimerScheduler: simulated scheduler (one goroutine per callback)
	PosCheckConc    int  `json:"position_check_conc,omitempty"`   // clientPositionCheckConcurrency
	MaxTimeLagMs    int  `json:"position_max_time_lag_ms,omitempty"`
	ExpiredSubMs    int  `json:"expired_sub_close_delay_ms,omitempty"`
	QueueInitialCap int  `json:"queue_initial_cap,omitempty"`
	SingleFlight    bool `json:"use_single_flight,omitempty"` // Config.UseSingleFlight
	Dict            bool `json:"dictionary_compression,omitempty"` // Config.DictionaryCompression with a recording engine; the transport carries it like websocketTransport
	CSR             bool `json:"client_side_refresh,omitempty"` // ConnectReply.ClientSideRefresh + OnRefresh handler (token = seconds to prolong)
	JoinLeaveFailPm int  `json:"broker_join_leave_fail_pm,omitempty"` // Broker.PublishJoin / PublishLeave errors
	PresDelayPm     int  `json:"presence_delay_pm,omitempty"` // per mille of AddPresence/RemovePresence calls that take simulated time (a slow presence backend)
}

// w1TimerScheduler is a Config.ClientTimerScheduler on the simulated clock: every callback
// runs on its own goroutine created by the simulator's AfterFunc (logical timer identity).
type w1TimerScheduler struct{}

type w1TimerCanceler struct{ t *time.Timer }

func (c w1TimerCanceler) Cancel() { c.t.Stop() }

func (w1TimerScheduler) ScheduleTimer(d time.Duration, cb func()) TimerCanceler {
	return w1TimerCanceler{t: simrt.AfterFunc(d, cb)}
}

type w1Script struct {
	Cfg      w1Cfg      `json:"cfg"`
	Channels []string   `json:"channels"`
	Observer bool       `json:"observer"` // a join/leave observer client subscribed to all 'j' channels for the whole run
	Clients  []w1Client `json:"clients"`
	Pubs     [][]w1Op   `json:"publishers"`
	Admins   [][]w1Op   `json:"admins"`
}

// channel flavour letters (part of the channel name, "<flags>_<n>"):
//
//	p positioned, r recoverable (stream), c cache recovery mode, e emit presence,
//	j emit join/leave, J push join/leave, h publishes go to history,
//	M map client presence channel, U map user presence channel
func chHas(ch string, f byte) bool {
	i := strings.IndexByte(ch, '_')
	if i < 0 {
		return false
	}
	return strings.IndexByte(ch[:i], f) >= 0
}

func chPositioned(ch string) bool { return chHas(ch, 'p') || chHas(ch, 'r') || chHas(ch, 'c') }

// ---------------------------------------------------------------- observer log

type w1Pub struct {
	Offset uint64
	Epoch  string
	Data   string
	Delta  bool
	Tags   map[string]string
}

type w1Frame struct {
	Seq                                               int64
	At                                                time.Duration
	ReplyID                                           uint32
	ErrCode                                           uint32
	Kind                                              string // connect subscribe unsubscribe publish presence presence_stats history ping rpc refresh sub_refresh error | push:pub push:join push:leave push:unsub push:sub push:disconnect push:message push:connect push:refresh | ping
	Ch                                                string
	Pub                                               *w1Pub
	Pubs                                              []w1Pub // recovered publications / history
	Info                                              string  // client id of join/leave
	Code                                              uint32
	Offset                                            uint64
	Epoch                                             string
	Recovered, WasRecovering, Positioned, Recoverable bool
	Subs                                              map[string]*protocol.SubscribeResult
	Raw                                               *protocol.Reply
}

type w1Cmd struct {
	Tf, Delta bool
	At        time.Duration
	Seq       int64
	RetSeq    int64
	ID        uint32
	Kind      string
	Ch        string
	Proceed   bool
	Returned  bool
	PreAuth   bool // sent before a connect reply was seen
}

type w1CB struct {
	Seq  int64
	Kind string // connect disconnect alive subscribe unsubscribe publish history presence presence_stats rpc message refresh sub_refresh
	Ch   string
	Code uint32
}

type w1NodeOp struct {
	At          time.Duration
	N           int
	Seq, RetSeq int64
	Kind        string
	Ch, User    string
	C           int
	Err         string
}

type w1PubRec struct {
	Tags        map[string]string
	Seq, RetSeq int64
	Ch          string
	Data        string
	Offset      uint64
	Epoch       string
	Err         string
}

type w1SimClient struct {
	w       *w1World
	idx     int
	spec    w1Client
	proto   ProtocolType
	tr      *w1Transport
	client  *Client
	closeFn ClientCloseFunc
	cmdMu   simsync.Mutex // serialises HandleCommand like a transport read loop

	nextID            uint32
	frames            []w1Frame
	cmds              []*w1Cmd
	cbs               []w1CB
	connected         bool // connect reply seen
	connectSeq        int64
	closedSeq         int64 // transport.Close observed
	closeCode         uint32
	closedAt          time.Duration
	closeReason       string
	refused           bool // the (simulated) transport handler saw the node shut down before NewClient
	readerDone        bool
	lastPos           map[string]StreamPosition // last position seen per channel (for recover)
	observer          bool
	onConnectRan      bool
	acceptedAt        time.Duration
	stalledAtSeq      int64
	nextTf, nextDelta bool
	instances         []*w1Instance
	refreshes         []w1Refresh // client-side refreshes granted by the OnRefresh handler
	subCbs            []w1SubCb // invocation..return of every OnSubscribe completion callback
	peerCloseSeq      int64     // the harness started closing the connection (peer close)
}

// w1Refresh: the OnRefresh handler granted a new expiry (seconds since the run started).
type w1Refresh struct {
	At     time.Duration
	Expire time.Duration
}

// w1SubCb is the interval during which the completion callback of one subscribe command
// ran: subscribeCmd (commit, reply) and its tail (join publication, map presence).
type w1SubCb struct {
	Ch   string
	A, B int64
}

type w1World struct {
	s            *simrt.Sim
	sc           *w1Script
	prop         string
	node         *Node
	reg          *prometheus.Registry
	seq          int64
	clients      []*w1SimClient
	byTransport  map[*w1Transport]*w1SimClient
	pubs         []*w1PubRec
	nodeOps      []*w1NodeOp
	markerSeq    int
	pubsub       *w1PubSub
	shutdownDone bool
	shutdownRet  int64
	pendingAsync int
	startUnix    int64
	markerPhase  bool          // settled-state marker publications pass every filter
	endPhaseSeq  int64         // everything closed after this point was closed by the harness at the end
	csr          bool          // ConnectReply.ClientSideRefresh
	preRun       func(n *Node) // cluster world: install shared broker / controller before Run
	seqSrc       *int64        // cluster world: one event counter for all nodes
	nodeCfg      func(c *Config)
	settling     bool // scripted activity is over: seams stop injecting delays
}

func (w *w1World) next() int64 {
	if w.seqSrc != nil {
		*w.seqSrc++
		return *w.seqSrc
	}
	w.seq++
	return w.seq
}

// ---------------------------------------------------------------- transport

type w1Transport struct {
	w          *w1World
	cl         *w1SimClient
	proto      ProtocolType
	closed     bool
	failWrites bool
	stalled    bool
	ping       PingPongConfig

	// dictionary compression as websocketTransport carries it: after
	// SetDictionaryCompression the next frame written (the connect reply) goes out raw and
	// promotes the pending encoder, every later frame passes through Encode
	dict        *w1DictConn
	dictPending bool
	inWrite     int
}

// w1DictConn is a recording DictionaryConnection (identity encoding).
type w1DictConn struct {
	w           *w1World
	proto       ProtocolType
	t           *w1Transport
	encoding    int // Encode calls in progress
	encodes     int
	rawFrames   int // frames written raw after the encoder was installed
	closes      int
	closedSeq   int64
	lastEncode  int64
	closeDuring bool // Close ran while an Encode (or a transport write) was in progress
	afterClose  int  // Encode calls / writes that began after Close
}

func (d *w1DictConn) Dictionary() *protocol.Dictionary {
	if d.proto == ProtocolTypeJSON {
		return &protocol.Dictionary{Id: "simdict-1", DataB64: "c2ltdWxhdGVkIGRpY3Rpb25hcnk="}
	}
	return &protocol.Dictionary{Id: "simdict-1", Data: []byte("simulated dictionary")}
}
func (d *w1DictConn) Encode(frame []byte) ([]byte, bool) {
	if d.closes > 0 {
		d.afterClose++
	}
	d.encoding++
	d.encodes++
	d.w.s.Pause() // compressing takes a moment: a scheduling point inside Encode
	d.encoding--
	d.lastEncode = d.w.next()
	return frame, false
}
func (d *w1DictConn) Close() {
	d.closes++
	d.closedSeq = d.w.next()
	if d.encoding > 0 || (d.t != nil && d.t.inWrite > 0) {
		d.closeDuring = true
	}
}

func (t *w1Transport) SetDictionaryCompression(cc DictionaryConnection) {
	t.dict, _ = cc.(*w1DictConn)
	if t.dict != nil {
		t.dict.t = t
	}
	t.dictPending = true
	t.w.s.Probe("dictionary_compression_installed")
}
func (t *w1Transport) CloseDictionaryCompression() {
	if t.dict != nil {
		t.dict.Close()
	}
}

type w1DictEngine struct{ w *w1World }

func (e w1DictEngine) NewDictionaryConnection(p DictionaryConnectionParams) DictionaryConnection {
	// bound to its transport when the client installs it (SetDictionaryCompression)
	return &w1DictConn{w: e.w, proto: p.ProtocolType}
}

func (t *w1Transport) Name() string                     { return "sim" }
func (t *w1Transport) AcceptProtocol() string           { return "" }
func (t *w1Transport) Protocol() ProtocolType           { return t.proto }
func (t *w1Transport) ProtocolVersion() ProtocolVersion { return ProtocolVersion2 }
func (t *w1Transport) Unidirectional() bool             { return false }
func (t *w1Transport) Emulation() bool                  { return false }
func (t *w1Transport) DisabledPushFlags() uint64        { return PushFlagDisconnect }
func (t *w1Transport) PingPongConfig() PingPongConfig   { return t.ping }

func (t *w1Transport) Write(data []byte) error { return t.WriteMany(data) }

func (t *w1Transport) WriteMany(datas ...[]byte) error {
	if t.closed || t.failWrites {
		return io.ErrClosedPipe
	}
	if t.stalled && !t.closed {
		// a peer that stopped reading: the write does not complete until the
		// transport's write timeout (1 s here) fails it
		for i := 0; t.stalled && !t.closed && i < 10; i++ {
			t.w.s.Sleep(100 * time.Millisecond)
		}
		if t.stalled {
			return errors.New("sim write timeout")
		}
	}
	if t.closed {
		return io.ErrClosedPipe
	}
	t.inWrite++
	defer func() { t.inWrite-- }()
	for _, data := range datas {
		if d := t.dict; d != nil {
			if t.dictPending {
				// the first frame after the encoder was installed goes out raw
				t.dictPending = false
				d.rawFrames++
				if d.closes > 0 {
					d.afterClose++
				}
			} else {
				data, _ = d.Encode(data)
			}
		}
		t.cl.onData(data)
	}
	return nil
}

func (t *w1Transport) Close(d Disconnect) error {
	if t.closed {
		return nil
	}
	t.closed = true
	t.cl.closedSeq = t.w.next()
	t.cl.closeCode = d.Code
	t.cl.closeReason = d.Reason
	t.cl.closedAt = t.w.s.Now()
	t.w.s.Event("c%d transport close code=%d", t.cl.idx, d.Code)
	return nil
}

// ---------------------------------------------------------------- frame decoding

func (cl *w1SimClient) onData(data []byte) {
	// Transport.Write receives exactly one encoded Reply per byte slice.
	rep := &protocol.Reply{}
	var err error
	if cl.proto == ProtocolTypeJSON {
		err = json.Unmarshal(data, rep)
	} else {
		err = rep.UnmarshalVT(data)
	}
	if err != nil {
		cl.w.s.Violate(cl.w.prop, "undecodable-frame", "frame not decodable", "client %d: cannot decode frame %q: %v", cl.idx, string(data), err)
		return
	}
	cl.onReply(rep)
}

func toW1Pub(p *protocol.Publication) w1Pub {
	return w1Pub{Offset: p.Offset, Data: string(p.Data), Delta: p.Delta, Tags: p.Tags}
}

func (cl *w1SimClient) onReply(rep *protocol.Reply) {
	w := cl.w
	f := w1Frame{Seq: w.next(), At: w.s.Now(), ReplyID: rep.Id, Raw: rep}
	if rep.Error != nil {
		f.ErrCode = rep.Error.Code
	}
	switch {
	case rep.Push != nil:
		p := rep.Push
		f.Ch = p.Channel
		switch {
		case p.Pub != nil:
			f.Kind = "push:pub"
			pp := toW1Pub(p.Pub)
			f.Pub = &pp
		case p.Join != nil:
			f.Kind = "push:join"
			if p.Join.Info != nil {
				f.Info = p.Join.Info.Client
			}
		case p.Leave != nil:
			f.Kind = "push:leave"
			if p.Leave.Info != nil {
				f.Info = p.Leave.Info.Client
			}
		case p.Unsubscribe != nil:
			f.Kind = "push:unsub"
			f.Code = p.Unsubscribe.Code
		case p.Subscribe != nil:
			f.Kind = "push:sub"
			f.Offset, f.Epoch, f.Positioned, f.Recoverable = p.Subscribe.Offset, p.Subscribe.Epoch, p.Subscribe.Positioned, p.Subscribe.Recoverable
		case p.Disconnect != nil:
			f.Kind = "push:disconnect"
			f.Code = p.Disconnect.Code
		case p.Message != nil:
			f.Kind = "push:message"
		case p.Connect != nil:
			f.Kind = "push:connect"
		case p.Refresh != nil:
			f.Kind = "push:refresh"
		default:
			f.Kind = "push:?"
		}
	case rep.Id == 0 && rep.Error == nil:
		f.Kind = "ping"
	case rep.Error != nil:
		f.Kind = "error"
		for _, c := range cl.cmds {
			if c.ID == rep.Id && c.Kind == "connect" {
				w.s.Probe("connect_answered_with_error")
			}
		}
	case rep.Connect != nil:
		f.Kind = "connect"
		f.Subs = rep.Connect.Subs
	case rep.Subscribe != nil:
		f.Kind = "subscribe"
		r := rep.Subscribe
		f.Offset, f.Epoch, f.Recovered, f.WasRecovering, f.Positioned, f.Recoverable = r.Offset, r.Epoch, r.Recovered, r.WasRecovering, r.Positioned, r.Recoverable
		for _, p := range r.Publications {
			f.Pubs = append(f.Pubs, toW1Pub(p))
		}
	case rep.Unsubscribe != nil:
		f.Kind = "unsubscribe"
	case rep.Publish != nil:
		f.Kind = "publish"
	case rep.Presence != nil:
		f.Kind = "presence"
	case rep.PresenceStats != nil:
		f.Kind = "presence_stats"
	case rep.History != nil:
		f.Kind = "history"
		f.Offset, f.Epoch = rep.History.Offset, rep.History.Epoch
		for _, p := range rep.History.Publications {
			f.Pubs = append(f.Pubs, toW1Pub(p))
		}
	case rep.Rpc != nil:
		f.Kind = "rpc"
	case rep.Refresh != nil:
		f.Kind = "refresh"
	case rep.SubRefresh != nil:
		f.Kind = "sub_refresh"
	case rep.Ping != nil:
		f.Kind = "pingreply"
	default:
		f.Kind = "empty"
	}
	// attach the channel of the command a reply answers
	if rep.Id != 0 {
		for _, c := range cl.cmds {
			if c.ID == rep.Id {
				if f.Ch == "" {
					f.Ch = c.Ch
				}
				break
			}
		}
	}
	cl.frames = append(cl.frames, f)
	pd := ""
	if f.Pub != nil {
		pd = f.Pub.Data
		if len(pd) > 28 {
			pd = pd[:28]
		}
	}
	w.s.Event("c%d frame %s id=%d ch=%s err=%d off=%d code=%d %s", cl.idx, f.Kind, f.ReplyID, f.Ch, f.ErrCode, frameOffset(&f), f.Code, pd)
	// SDK-like state
	switch f.Kind {
	case "connect":
		cl.connected = true
		cl.connectSeq = f.Seq
		for ch, r := range f.Subs {
			if r.Positioned || r.Recoverable {
				cl.lastPos[ch] = StreamPosition{Offset: r.Offset, Epoch: r.Epoch}
			}
		}
	case "subscribe":
		if f.Positioned || f.Recoverable {
			pos := StreamPosition{Offset: f.Offset, Epoch: f.Epoch}
			for _, p := range f.Pubs {
				if p.Offset > pos.Offset {
					pos.Offset = p.Offset
				}
			}
			cl.lastPos[f.Ch] = pos
		}
	case "push:sub":
		if f.Positioned || f.Recoverable {
			cl.lastPos[f.Ch] = StreamPosition{Offset: f.Offset, Epoch: f.Epoch}
		}
	case "push:pub":
		if f.Pub.Offset > 0 {
			pos := cl.lastPos[f.Ch]
			if f.Pub.Offset > pos.Offset {
				pos.Offset = f.Pub.Offset
				cl.lastPos[f.Ch] = pos
			}
		}
	case "ping":
		if !cl.spec.NoPong && cl.connected {
			delay := time.Duration(cl.spec.PongDelayMs) * time.Millisecond
			cl.w.s.Go(func() {
				if delay > 0 {
					cl.w.s.Sleep(delay)
				}
				cl.send(&protocol.Command{}, "pong", "")
			})
		}
	}
}

func frameOffset(f *w1Frame) uint64 {
	if f.Pub != nil {
		return f.Pub.Offset
	}
	return f.Offset
}

// ---------------------------------------------------------------- sending commands

func (cl *w1SimClient) send(cmd *protocol.Command, kind, ch string) bool {
	w := cl.w
	cl.cmdMu.Lock()
	defer cl.cmdMu.Unlock()
	if cl.readerDone || !cl.accept() {
		return false
	}
	rec := &w1Cmd{At: w.s.Now(), Seq: w.next(), ID: cmd.Id, Kind: kind, Ch: ch, PreAuth: !cl.connected}
	if cmd.Subscribe != nil {
		rec.Tf, rec.Delta = cmd.Subscribe.Tf != nil, cmd.Subscribe.Delta != ""
	}
	cl.cmds = append(cl.cmds, rec)
	w.s.Event("c%d cmd %s id=%d ch=%s", cl.idx, kind, cmd.Id, ch)
	ok := cl.client.HandleCommand(cmd, 10)
	rec.Proceed = ok
	rec.Returned = true
	rec.RetSeq = w.next()
	if !ok && cl.spec.Emulation {
		w.s.Probe("emulation_command_rejected_next_one_still_sent")
		return true
	}
	if !ok {
		// a transport read loop ends here and runs the close func
		cl.readerDone = true
		w.s.Event("c%d reader stops", cl.idx)
		_ = cl.closeFn()
	}
	return ok
}

func (cl *w1SimClient) id() uint32 { cl.nextID++; return cl.nextID }

func (cl *w1SimClient) runOp(op w1Op) bool {
	s := cl.w.s
	switch op.K {
	case "sleep":
		s.Sleep(time.Duration(op.DelayUs) * time.Microsecond)
		return true
	case "connect":
		req := &protocol.ConnectRequest{Token: cl.spec.User}
		if len(cl.spec.ConnSubs) > 0 && op.Recover {
			req.Subs = map[string]*protocol.SubscribeRequest{}
			for _, ch := range cl.spec.ConnSubs {
				if pos, ok := cl.lastPos[ch]; ok {
					req.Subs[ch] = &protocol.SubscribeRequest{Recover: true, Offset: pos.Offset, Epoch: pos.Epoch}
				}
			}
		}
		if len(cl.spec.ConnSubs) > 0 && op.Ep != "" {
			// recovery of connect-time server-side subscriptions from explicit positions
			// (C02/C03, evaluated at quiescence like "subrec")
			req.Subs = map[string]*protocol.SubscribeRequest{}
			for _, ch := range cl.spec.ConnSubs {
				top, _ := cl.w.node.History(ch)
				off := int64(top.Offset) - int64(op.Back)
				if off < 0 {
					off = 0
				}
				epoch := top.Epoch
				switch op.Ep {
				case "foreign":
					epoch = "zzzz"
				case "empty":
					epoch = ""
				}
				req.Subs[ch] = &protocol.SubscribeRequest{Recover: true, Offset: uint64(off), Epoch: epoch}
			}
			id := cl.id()
			ok := cl.send(&protocol.Command{Id: id, Connect: req}, "connect", "")
			if ok && (cl.w.prop == "C02" || cl.w.prop == "C03") && !cl.w.sc.Cfg.ConcurrentRecovery {
				cl.w.checkConnectRecover(cl, id, req.Subs)
			}
			return ok
		}
		return cl.send(&protocol.Command{Id: cl.id(), Connect: req}, "connect", "")
	case "sub":
		req := &protocol.SubscribeRequest{Channel: op.Ch, Token: fmt.Sprintf("%d:%v", op.DelayUs, op.Err)}
		if op.Recover {
			if pos, ok := cl.lastPos[op.Ch]; ok {
				req.Recover, req.Offset, req.Epoch = true, pos.Offset, pos.Epoch
			}
		}
		if op.Tf {
			req.Tf = &protocol.FilterNode{Key: "c", Cmp: "eq", Val: "1"}
		}
		if op.Delta {
			req.Delta = "fossil"
		}
		cl.nextTf, cl.nextDelta = op.Tf, op.Delta
		return cl.send(&protocol.Command{Id: cl.id(), Subscribe: req}, "subscribe", op.Ch)
	case "subrec":
		// recovery from an explicit position, evaluated at quiescence (C02/C03)
		top, _ := cl.w.node.History(op.Ch)
		off := int64(top.Offset) - int64(op.Back)
		if off < 0 {
			off = 0
		}
		epoch := top.Epoch
		switch op.Ep {
		case "foreign":
			epoch = "zzzz"
		case "empty":
			epoch = ""
		}
		req := &protocol.SubscribeRequest{Channel: op.Ch, Token: "0:false", Recover: true, Offset: uint64(off), Epoch: epoch}
		if op.Reject {
			req.Flag |= subscriptionFlagRejectUnrecovered
		}
		if op.Tf {
			req.Tf = &protocol.FilterNode{Key: "c", Cmp: "eq", Val: "1"}
		}
		if op.Delta {
			req.Delta = "fossil"
		}
		cl.nextTf, cl.nextDelta = op.Tf, op.Delta
		id := cl.id()
		ok := cl.send(&protocol.Command{Id: id, Subscribe: req}, "subscribe", op.Ch)
		if ok && (cl.w.prop == "C02" || cl.w.prop == "C03") {
			// exactness against the retained history is only decidable at quiescence;
			// under concurrent publishing (C01) the offset/gap oracle judges the result
			cl.w.checkRecoverReply(cl, id, req)
		}
		return ok
	case "refresh":
		return cl.send(&protocol.Command{Id: cl.id(), Refresh: &protocol.RefreshRequest{Token: strconv.Itoa(op.N)}}, "refresh", "")
	case "subref":
		return cl.send(&protocol.Command{Id: cl.id(), SubRefresh: &protocol.SubRefreshRequest{Channel: op.Ch, Token: fmt.Sprintf("%d:false", op.DelayUs)}}, "sub_refresh", op.Ch)
	case "unsub":
		return cl.send(&protocol.Command{Id: cl.id(), Unsubscribe: &protocol.UnsubscribeRequest{Channel: op.Ch}}, "unsubscribe", op.Ch)
	case "pub":
		cl.w.markerSeq++
		data := fmt.Sprintf(`{"cp":"%d-%d"}`, cl.idx, cl.w.markerSeq)
		return cl.send(&protocol.Command{Id: cl.id(), Publish: &protocol.PublishRequest{Channel: op.Ch, Data: []byte(data)}}, "publish", op.Ch)
	case "hist":
		req := &protocol.HistoryRequest{Channel: op.Ch, Limit: int32(op.N), Reverse: op.Rev}
		if op.Since >= 0 {
			epoch := cl.lastPos[op.Ch].Epoch
			if cl.w.prop == "C43" {
				if top, err := cl.w.node.History(op.Ch); err == nil {
					epoch = top.Epoch
				}
			}
			req.Since = &protocol.StreamPosition{Offset: uint64(op.Since), Epoch: epoch}
		}
		id := cl.id()
		ok := cl.send(&protocol.Command{Id: id, History: req}, "history", op.Ch)
		if ok && cl.w.prop == "C43" {
			cl.w.checkHistoryReply(cl, id, req)
		}
		return ok
	case "pres":
		before := cl.w.presenceKey(op.Ch)
		id := cl.id()
		ok := cl.send(&protocol.Command{Id: id, Presence: &protocol.PresenceRequest{Channel: op.Ch}}, "presence", op.Ch)
		if ok && cl.w.prop == "C43" {
			cl.w.checkPresenceReply(cl, id, op.Ch, false, before)
		}
		return ok
	case "pstats":
		before := cl.w.presenceKey(op.Ch)
		id := cl.id()
		ok := cl.send(&protocol.Command{Id: id, PresenceStats: &protocol.PresenceStatsRequest{Channel: op.Ch}}, "presence_stats", op.Ch)
		if ok && cl.w.prop == "C43" {
			cl.w.checkPresenceReply(cl, id, op.Ch, true, before)
		}
		return ok
	case "rpc":
		return cl.send(&protocol.Command{Id: cl.id(), Rpc: &protocol.RPCRequest{Method: "m", Data: []byte(`{}`)}}, "rpc", "")
	case "send":
		return cl.send(&protocol.Command{Send: &protocol.SendRequest{Data: []byte(`{}`)}}, "send", "")
	case "ping":
		return cl.send(&protocol.Command{Id: cl.id(), Ping: &protocol.PingRequest{}}, "ping", "")
	case "pong":
		return cl.send(&protocol.Command{}, "pong", "")
	case "noid":
		// a command without id that is not a send: bad request
		return cl.send(&protocol.Command{Subscribe: &protocol.SubscribeRequest{Channel: op.Ch}}, "noid", op.Ch)
	case "empty":
		return cl.send(&protocol.Command{Id: cl.id()}, "emptycmd", "")
	case "accept":
		// the transport handler accepted the connection; the peer sends nothing (yet)
		cl.cmdMu.Lock()
		cl.accept()
		cl.cmdMu.Unlock()
		return true
	case "close":
		// the peer goes away: the transport handler runs the close func
		cl.cmdMu.Lock()
		cl.readerDone = true
		cl.cmdMu.Unlock()
		cl.w.s.Event("c%d peer close", cl.idx)
		if cl.peerCloseSeq == 0 {
			cl.peerCloseSeq = cl.w.next()
		}
		if cl.closeFn != nil {
			_ = cl.closeFn()
		}
		return false
	case "stall":
		cl.tr.stalled = true
		cl.stalledAtSeq = cl.w.next()
		cl.w.s.Fault("transport_stall")
		return true
	case "unstall":
		cl.tr.stalled = false
		return true
	case "sublong":
		name := op.Ch + strings.Repeat("x", op.N)
		if op.Rev {
			// multi-byte characters: the limit is on bytes, not on characters
			name = op.Ch + strings.Repeat("é", op.N)
		}
		return cl.send(&protocol.Command{Id: cl.id(), Subscribe: &protocol.SubscribeRequest{Channel: name, Token: "0:false"}}, "subscribe", name)
	case "failwrites":
		cl.tr.failWrites = true
		cl.w.s.Fault("transport_write_error")
		return true
	}
	return true
}

// ---------------------------------------------------------------- node setup

func (w *w1World) subscribeOptions(ch string) SubscribeOptions {
	o := SubscribeOptions{}
	if chHas(ch, 'p') {
		o.EnablePositioning = true
	}
	if chHas(ch, 'r') {
		o.EnableRecovery = true
	}
	if chHas(ch, 'c') {
		o.EnableRecovery = true
		o.RecoveryMode = RecoveryModeCache
	}
	if chHas(ch, 'e') {
		o.EmitPresence = true
	}
	if chHas(ch, 'j') {
		o.EmitJoinLeave = true
	}
	if chHas(ch, 'J') {
		o.PushJoinLeave = true
	}
	if chHas(ch, 'f') {
		o.AllowTagsFilter = true
		o.ServerTagsFilter = &FilterNode{Key: "s", Cmp: "eq", Val: "1"}
	}
	if chHas(ch, 'd') {
		o.AllowedDeltaTypes = []DeltaType{DeltaTypeFossil}
	}
	if chHas(ch, 'M') {
		o.MapClientPresenceChannel = w1MapClientPresence(ch)
	}
	if chHas(ch, 'U') {
		o.MapUserPresenceChannel = w1MapUserPresence(ch)
	}
	return o
}

// map presence channels of a stream channel (flavour letters M and U): ephemeral map
// channels whose keys (client id / user id) are published on subscribe, refreshed by the
// presence tick and - client keys only - removed on unsubscribe and close. The key TTL is
// longer than any run, so a key that survives its connection stays visible to the oracle.
func w1MapClientPresence(ch string) string { return "mcp:" + ch }
func w1MapUserPresence(ch string) string   { return "mup:" + ch }

func (w *w1World) subscribeOpts(ch string) []SubscribeOption {
	o := w.subscribeOptions(ch)
	return []SubscribeOption{WithPositioning(o.EnablePositioning), WithRecovery(o.EnableRecovery), WithRecoveryMode(o.RecoveryMode),
		WithEmitPresence(o.EmitPresence), WithEmitJoinLeave(o.EmitJoinLeave), WithPushJoinLeave(o.PushJoinLeave)}
}

func (w *w1World) publishOpts(ch string) []PublishOption {
	var opts []PublishOption
	if chPositioned(ch) || chHas(ch, 'h') {
		opts = append(opts, WithHistory(w.sc.Cfg.HistorySize, time.Duration(w.sc.Cfg.HistoryTTLSec)*time.Second))
	}
	if chHas(ch, 'd') {
		opts = append(opts, WithDelta(true))
	}
	return opts
}

func (w *w1World) setup() error {
	cfg := w.sc.Cfg
	w.reg = prometheus.NewRegistry()
	nc := Config{
		LogLevel:                        LogLevelNone,
		ClientChannelLimit:              cfg.ChannelLimit,
		ClientStaleCloseDelay:           time.Duration(cfg.StaleMs) * time.Millisecond,
		ClientPresenceUpdateInterval:    time.Duration(cfg.PresenceMs) * time.Millisecond,
		ClientChannelPositionCheckDelay: time.Duration(cfg.PositionCheckMs) * time.Millisecond,
		ClientQueueMaxSize:              cfg.QueueMax,
		HistoryMaxPublicationLimit:      cfg.HistoryMax,
		HistoryMetaTTL:                  time.Duration(cfg.MetaTTLSec) * time.Second,
		ChannelMaxLength:                cfg.ChannelMaxLen,
		ClientExpiredCloseDelay:         time.Duration(cfg.ExpiredDelayMs) * time.Millisecond,
		RecoveryMaxPublicationLimit:     cfg.RecoveryMax,
		Metrics:                         MetricsConfig{RegistererGatherer: w.reg},
		Map: MapConfig{GetMapChannelOptions: func(ch string) MapChannelOptions {
			if strings.HasPrefix(ch, "mcp:") || strings.HasPrefix(ch, "mup:") {
				return MapChannelOptions{Mode: MapModeEphemeral, KeyTTL: 10 * time.Minute}
			}
			return MapChannelOptions{}
		}},
	}
	if cfg.PresenceConc > 1 {
		nc.clientPresenceUpdateConcurrency = cfg.PresenceConc
	}
	if cfg.PosCheckConc > 1 {
		nc.clientPositionCheckConcurrency = cfg.PosCheckConc
	}
	if cfg.TimerSched {
		nc.ClientTimerScheduler = w1TimerScheduler{}
	}
	if cfg.Dict {
		nc.DictionaryCompression = w1DictEngine{w: w}
	}
	nc.UseSingleFlight = cfg.SingleFlight
	if cfg.MaxTimeLagMs > 0 {
		nc.ClientChannelPositionMaxTimeLag = time.Duration(cfg.MaxTimeLagMs) * time.Millisecond
	}
	if cfg.ExpiredSubMs > 0 {
		nc.ClientExpiredSubCloseDelay = time.Duration(cfg.ExpiredSubMs) * time.Millisecond
	}
	if cfg.Batch {
		nc.GetChannelBatchConfig = func(ch string) ChannelBatchConfig {
			if chHas(ch, 'b') {
				return ChannelBatchConfig{MaxSize: 3, MaxDelay: 2 * time.Millisecond, FlushLatestPublication: cfg.BatchLatest}
			}
			return ChannelBatchConfig{}
		}
	}
	if cfg.MediumShared || cfg.MediumLatest || cfg.MediumQueue {
		nc.GetChannelMediumOptions = func(ch string) ChannelMediumOptions {
			if !chHas(ch, 'm') {
				return ChannelMediumOptions{}
			}
			o := ChannelMediumOptions{SharedPositionSync: cfg.MediumShared, KeepLatestPublication: cfg.MediumLatest, enableQueue: cfg.MediumQueue, queueMaxSize: cfg.MediumQueueMax}
			if cfg.MediumQueue && !chPositioned(ch) {
				o.broadcastDelay = time.Duration(cfg.MediumDelayMs) * time.Millisecond
			}
			return o
		}
	}
	if w.nodeCfg != nil {
		w.nodeCfg(&nc)
	}
	node, err := New(nc)
	if err != nil {
		return err
	}
	w.node = node
	if w.preRun != nil {
		w.preRun(node)
	} else {
		// the seam between broker and node: records broker subscriptions, can fail
		// Subscribe/Unsubscribe and drop/duplicate/delay PUB/SUB deliveries
		w.pubsub = &w1PubSub{w: w, inner: node.broker.(*MemoryBroker), subscribed: map[string]int{}}
		node.SetBroker(w.pubsub)
		if os.Getenv("VERIF_TRACE_MAP") != "" && node.mapBroker != nil {
			node.SetMapBroker(&w1MapTrace{MapBroker: node.mapBroker, w: w})
		}
		if cfg.PresDelayPm > 0 && node.presenceManager != nil {
			node.SetPresenceManager(&w1Presence{w: w, inner: node.presenceManager})
		}
	}
	node.OnConnecting(func(ctx context.Context, e ConnectEvent) (ConnectReply, error) {
		st := e.Transport.(*w1Transport)
		cl := st.cl
		if e.Token == "" {
			return ConnectReply{}, DisconnectInvalidToken
		}
		r := ConnectReply{Credentials: &Credentials{UserID: e.Token}, Labels: cl.spec.Labels, ClientSideRefresh: w.csr || cfg.CSR}
		if cl.spec.ExpireInSec > 0 {
			r.Credentials.ExpireAt = time.Now().Unix() + int64(cl.spec.ExpireInSec)
		}
		if len(cl.spec.ConnSubs) > 0 {
			r.Subscriptions = map[string]SubscribeOptions{}
			for _, ch := range cl.spec.ConnSubs {
				o := w.subscribeOptions(ch)
				if cl.spec.ConnSubExpired {
					o.ExpireAt = time.Now().Unix() - 10
				}
				r.Subscriptions[ch] = o
			}
		}
		r.ReplyWithoutQueue = cfg.ReplyNoQueue
		r.WriteDelay = time.Duration(cfg.WriteDelayUs) * time.Microsecond
		r.WriteWithTimer = cfg.WriteTimer
		if cfg.QueueInitialCap > 0 {
			r.QueueInitialCap = cfg.QueueInitialCap
			r.QueueShrinkDelay = 5 * time.Millisecond
		}
		return r, nil
	})
	node.OnConnect(func(c *Client) {
		cl := c.Transport().(*w1Transport).cl
		cl.onConnectRan = true
		cl.cb("connect", "", 0)
		defer cl.cb("connect-done", "", 0)
		c.OnAlive(func() { cl.cb("alive", "", 0) })
		c.OnDisconnect(func(e DisconnectEvent) { cl.cb("disconnect", "", e.Code) })
		c.OnSubscribe(func(e SubscribeEvent, cb SubscribeCallback) {
			cl.cb("subscribe", e.Channel, 0)
			delay, fail := 0, false
			if i := strings.IndexByte(e.Token, ':'); i >= 0 {
				delay, _ = strconv.Atoi(e.Token[:i])
				fail = e.Token[i+1:] == "true"
			}
			reply := SubscribeReply{Options: w.subscribeOptions(e.Channel)}
			if chHas(e.Channel, 'x') {
				reply.Options.ExpireAt = time.Now().Unix() + 3600
				reply.ClientSideRefresh = true
			}
			if chHas(e.Channel, 'Y') {
				// expires soon, refreshed on the SERVER side (OnSubRefresh prolongs it),
				// whatever the refresh mode of the connection is
				reply.Options.ExpireAt = time.Now().Unix() + 2
				reply.ClientSideRefresh = false
			}
			if chHas(e.Channel, 'X') {
				// expires almost at once; it stays a live subscription until the periodic
				// check (presence tick + ClientExpiredSubCloseDelay) removes it
				reply.Options.ExpireAt = time.Now().Unix() + 1
				reply.ClientSideRefresh = true
			}
			var rerr error
			if fail {
				rerr = ErrorPermissionDenied
			}
			run := func() {
				cl.subCbs = append(cl.subCbs, w1SubCb{Ch: e.Channel, A: w.next()})
				k := len(cl.subCbs) - 1
				cb(reply, rerr)
				cl.subCbs[k].B = w.next()
			}
			if delay > 0 {
				w.pendingAsync++
				w.s.Go(func() {
					w.s.Sleep(time.Duration(delay) * time.Microsecond)
					w.s.Probe("async_subscribe_cb")
					run()
					w.pendingAsync--
				})
				return
			}
			run()
		})
		c.OnUnsubscribe(func(e UnsubscribeEvent) { cl.cb("unsubscribe", e.Channel, e.Code) })
		c.OnPublish(func(e PublishEvent, cb PublishCallback) {
			cl.cb("publish", e.Channel, 0)
			// ground truth also for publications made through the client API (no tags)
			rec := &w1PubRec{Seq: w.next(), Ch: e.Channel, Data: string(e.Data)}
			w.pubs = append(w.pubs, rec)
			res, err := node.Publish(e.Channel, e.Data, w.publishOpts(e.Channel)...)
			rec.RetSeq = w.next()
			rec.Offset, rec.Epoch = res.Offset, res.Epoch
			if err != nil {
				rec.Err = err.Error()
			}
			cb(PublishReply{Result: &res}, err)
		})
		c.OnHistory(func(e HistoryEvent, cb HistoryCallback) {
			cl.cb("history", e.Channel, 0)
			cb(HistoryReply{}, nil)
		})
		c.OnPresence(func(e PresenceEvent, cb PresenceCallback) {
			cl.cb("presence", e.Channel, 0)
			cb(PresenceReply{}, nil)
		})
		c.OnPresenceStats(func(e PresenceStatsEvent, cb PresenceStatsCallback) {
			cl.cb("presence_stats", e.Channel, 0)
			cb(PresenceStatsReply{}, nil)
		})
		c.OnRPC(func(e RPCEvent, cb RPCCallback) {
			cl.cb("rpc", "", 0)
			cb(RPCReply{Data: []byte(`{}`)}, nil)
		})
		c.OnMessage(func(e MessageEvent) { cl.cb("message", "", 0) })
		if cfg.CSR {
			c.OnRefresh(func(e RefreshEvent, cb RefreshCallback) {
				cl.cb("refresh", "", 0)
				n, _ := strconv.Atoi(e.Token)
				if !e.ClientSideRefresh || n <= 0 {
					cb(RefreshReply{Expired: true}, nil)
					return
				}
				exp := time.Now().Unix() + int64(n)
				cl.refreshes = append(cl.refreshes, w1Refresh{At: w.s.Now(), Expire: time.Duration(exp-w.startUnix) * time.Second})
				cb(RefreshReply{ExpireAt: exp}, nil)
			})
		}
		c.OnSubRefresh(func(e SubRefreshEvent, cb SubRefreshCallback) {
			cl.cb("sub_refresh", e.Channel, 0)
			delay := 0
			if i := strings.IndexByte(e.Token, ':'); i >= 0 {
				delay, _ = strconv.Atoi(e.Token[:i])
			}
			reply := SubRefreshReply{ExpireAt: time.Now().Unix() + 3600}
			if delay > 0 {
				w.pendingAsync++
				w.s.Go(func() {
					w.s.Sleep(time.Duration(delay) * time.Microsecond)
					cb(reply, nil)
					w.pendingAsync--
				})
				return
			}
			cb(reply, nil)
		})
		if d := cl.spec.ConnectHandlerMs; d > 0 {
			// a slow OnConnect handler (everything above is registered already)
			w.s.Sleep(time.Duration(d) * time.Millisecond)
		}
	})
	return node.Run()
}

func (cl *w1SimClient) cb(kind, ch string, code uint32) {
	cl.cbs = append(cl.cbs, w1CB{Seq: cl.w.next(), Kind: kind, Ch: ch, Code: code})
	cl.w.s.Event("c%d cb %s ch=%s code=%d", cl.idx, kind, ch, code)
}

func (w *w1World) newClient(idx int, spec w1Client) *w1SimClient {
	cl := &w1SimClient{w: w, idx: idx, spec: spec, lastPos: map[string]StreamPosition{}}
	cl.proto = ProtocolTypeJSON
	if spec.Proto == "protobuf" {
		cl.proto = ProtocolTypeProtobuf
	}
	cl.tr = &w1Transport{w: w, cl: cl, proto: cl.proto, ping: PingPongConfig{PingInterval: time.Duration(w.sc.Cfg.PingMs) * time.Millisecond, PongTimeout: time.Duration(w.sc.Cfg.PongMs) * time.Millisecond}}
	w.clients = append(w.clients, cl)
	return cl
}

// accept is what a transport handler does when the peer arrives: refuse when the node
// is shutting down (the WebSocket handler's NotifyShutdown check), else create the Client.
func (cl *w1SimClient) accept() bool {
	if cl.client != nil {
		return true
	}
	select {
	case <-cl.w.node.NotifyShutdown():
		cl.refused = true
		cl.tr.closed = true
		cl.w.s.Event("c%d refused: node shut down", cl.idx)
		return false
	default:
	}
	c, closeFn, err := NewClient(context.Background(), cl.w.node, cl.tr)
	if err != nil {
		panic(err)
	}
	cl.client, cl.closeFn = c, closeFn
	cl.acceptedAt = cl.w.s.Now()
	return true
}

// ---------------------------------------------------------------- faulty PUB/SUB seam

// w1PubSub sits between the real MemoryBroker and the node: history is the real one,
// the delivery of publications to the node (PUB/SUB) can be dropped, duplicated or
// delayed (which also reorders) for positioned channels.
type w1PubSub struct {
	w            *w1World
	inner        *MemoryBroker
	node         BrokerEventHandler
	subscribed   map[string]int // channel -> number of successful Subscribe minus Unsubscribe calls
	inHistRace   bool
	resubscribed map[string]bool
}

func (b *w1PubSub) RegisterBrokerEventHandler(h BrokerEventHandler) error {
	b.node = h
	return b.inner.RegisterBrokerEventHandler(b)
}
func (b *w1PubSub) Subscribe(ch ...string) error {
	if b.w.s.Chance(b.w.sc.Cfg.SubDelayPm) {
		// a slow broker round trip (the node holds the channel's subscription lock)
		b.w.s.Fault("broker_subscribe_delay")
		b.w.s.Sleep([]time.Duration{50 * time.Millisecond, 6500 * time.Millisecond}[b.w.s.Intn(2)])
	}
	if b.w.s.Chance(b.w.sc.Cfg.SubFailPm) {
		b.w.s.Fault("broker_subscribe_error")
		return errors.New("sim broker subscribe error")
	}
	for _, c := range ch {
		if b.subscribed[c] == 1 {
			// first-subscriber again while the deferred broker unsubscribe of the previous
			// "last subscriber left" has not run yet
			if b.resubscribed == nil {
				b.resubscribed = map[string]bool{}
			}
			b.resubscribed[c] = true
		}
		b.subscribed[c] = 1 // Broker.Subscribe and Unsubscribe are idempotent set operations
		b.w.s.Event("broker subscribe %s", c)
	}
	return b.inner.Subscribe(ch...)
}
func (b *w1PubSub) Unsubscribe(ch ...string) error {
	if b.w.s.Chance(b.w.sc.Cfg.UnsubFailPm) {
		b.w.s.Fault("broker_unsubscribe_error")
		return errors.New("sim broker unsubscribe error")
	}
	for _, c := range ch {
		b.subscribed[c] = 0
		b.w.s.Event("broker unsubscribe %s", c)
		// C26: the node must not leave the broker channel while it has local subscribers
		if n := b.w.node.hub.NumSubscribers(c); n > 0 {
			b.w.s.Violate("C26", "unsubscribed-with-subscribers", "broker unsubscribe while the channel has local subscribers", "Broker.Unsubscribe(%s) succeeded while %d local subscribers exist", c, n)
		}
	}
	return b.inner.Unsubscribe(ch...)
}
func (b *w1PubSub) Publish(ch string, data []byte, opts PublishOptions) (PublishResult, error) {
	return b.inner.Publish(ch, data, opts)
}
func (b *w1PubSub) PublishJoin(ch string, info *ClientInfo) error {
	if pm := b.w.sc.Cfg.JoinLeaveFailPm; pm > 0 && !b.w.settling && b.w.s.Chance(pm) {
		b.w.s.Fault("broker_publish_join_error")
		return errors.New("sim broker: publish join failed")
	}
	return b.inner.PublishJoin(ch, info)
}
func (b *w1PubSub) PublishLeave(ch string, info *ClientInfo) error {
	if pm := b.w.sc.Cfg.JoinLeaveFailPm; pm > 0 && !b.w.settling && b.w.s.Chance(pm) {
		b.w.s.Fault("broker_publish_leave_error")
		return errors.New("sim broker: publish leave failed")
	}
	return b.inner.PublishLeave(ch, info)
}
func (b *w1PubSub) History(ch string, opts HistoryOptions) ([]*Publication, StreamPosition, error) {
	pubs, sp, err := b.inner.History(ch, opts)
	// fault: publishers that hit exactly the window after a recovery read (the
	// publications go through the lossy PUB/SUB seam like any other)
	if opts.Filter.Since != nil && !b.inHistRace && b.w.s.Chance(b.w.sc.Cfg.HistRacePm) {
		b.inHistRace = true
		b.w.s.Fault("publish_racing_history_read")
		for i, n := 0, 1+b.w.s.Intn(3); i < n; i++ {
			b.w.publish(ch)
		}
		b.inHistRace = false
	}
	return pubs, sp, err
}
func (b *w1PubSub) RemoveHistory(ch string) error   { return b.inner.RemoveHistory(ch) }
func (b *w1PubSub) Close(ctx context.Context) error { return b.inner.Close(ctx) }

func (b *w1PubSub) HandlePublication(ch string, pub *Publication, sp StreamPosition, delta bool, prev *Publication) error {
	cfg := b.w.sc.Cfg
	s := b.w.s
	if !chPositioned(ch) || sp.Offset == 0 {
		return b.node.HandlePublication(ch, pub, sp, delta, prev)
	}
	if s.Chance(cfg.DropPm) {
		s.Fault("pubsub_drop")
		return nil
	}
	if s.Chance(cfg.DelayPm) {
		s.Fault("pubsub_delay")
		d := time.Duration(1+s.Intn(50)) * time.Millisecond
		s.Go(func() {
			s.Sleep(d)
			_ = b.node.HandlePublication(ch, pub, sp, delta, prev)
		})
		return nil
	}
	err := b.node.HandlePublication(ch, pub, sp, delta, prev)
	if s.Chance(cfg.DupPm) {
		s.Fault("pubsub_dup")
		_ = b.node.HandlePublication(ch, pub, sp, delta, prev)
	}
	return err
}
func (b *w1PubSub) HandleJoin(ch string, info *ClientInfo) error { return b.node.HandleJoin(ch, info) }
func (b *w1PubSub) HandleLeave(ch string, info *ClientInfo) error {
	return b.node.HandleLeave(ch, info)
}

// w1Presence is the seam between node and presence manager: the real MemoryPresenceManager
// behind a proxy whose Add/Remove calls sometimes take simulated time (one network round
// trip of a remote presence backend), so that a presence tick or a subscribe can be parked
// inside the call while the connection unsubscribes, re-subscribes or closes.
type w1Presence struct {
	w     *w1World
	inner PresenceManager
}

func (p *w1Presence) delay(what string) {
	s := p.w.s
	if pm := p.w.sc.Cfg.PresDelayPm; pm > 0 && !p.w.settling && s.Chance(pm) {
		s.Fault("presence_" + what + "_delay")
		s.Sleep([]time.Duration{50 * time.Microsecond, 3 * time.Millisecond, 40 * time.Millisecond, 700 * time.Millisecond}[s.Intn(4)])
	}
}
func (p *w1Presence) Presence(ch string) (map[string]*ClientInfo, error) { return p.inner.Presence(ch) }
func (p *w1Presence) PresenceStats(ch string) (PresenceStats, error)   { return p.inner.PresenceStats(ch) }
func (p *w1Presence) AddPresence(ch string, clientID string, info *ClientInfo) error {
	p.delay("add")
	return p.inner.AddPresence(ch, clientID, info)
}
func (p *w1Presence) RemovePresence(ch string, clientID string, userID string) error {
	p.delay("remove")
	return p.inner.RemovePresence(ch, clientID, userID)
}

// w1MapTrace logs map broker publishes/removes of presence keys as world events (debugging
// aid, enabled with VERIF_TRACE_MAP=1; it changes the event-log hash).
type w1MapTrace struct {
	MapBroker
	w *w1World
}

func (t *w1MapTrace) Publish(ctx context.Context, ch string, key string, opts MapPublishOptions) (MapUpdateResult, error) {
	r, err := t.MapBroker.Publish(ctx, ch, key, opts)
	t.w.s.Event("map publish %s key=%s suppressed=%v err=%v", ch, key, r.Suppressed, err)
	return r, err
}
func (t *w1MapTrace) Remove(ctx context.Context, ch string, key string, opts MapRemoveOptions) (MapUpdateResult, error) {
	r, err := t.MapBroker.Remove(ctx, ch, key, opts)
	t.w.s.Event("map remove %s key=%s suppressed=%v err=%v", ch, key, r.Suppressed, err)
	return r, err
}

// ---------------------------------------------------------------- actors

func (w *w1World) publish(ch string) {
	w.markerSeq++
	data := fmt.Sprintf(`{"m":"%d"}`, w.markerSeq)
	plainPublish := false
	if chHas(ch, 'd') {
		// similar, longer payloads so that fossil deltas are real deltas; a head block that
		// cycles among a few values (a delta computed against the wrong base then copies
		// the wrong head) ...
		// blocks that repeat with periods 2, 3 and 5: a delta computed against an older
		// base than the one the client holds copies a block that is equal in the new and the
		// stale payload but different in the held one, so applying it gives wrong bytes
		blk := func(period int) string { return strings.Repeat(string(rune('A'+w.markerSeq%period)), 24) }
		data = fmt.Sprintf(`{"m":"%d","p2":"%s","p3":"%s","p5":"%s","pad":"%s","tail":%d}`, w.markerSeq, blk(2), blk(3), blk(5), strings.Repeat("abcdefgh", 8), w.markerSeq%7)
		switch w.s.Intn(6) {
		case 4:
			// ... sometimes a payload that shares nothing with its predecessor: the
			// server falls back to the full payload, which becomes the client's new base
			var sb strings.Builder
			x := uint32(w.markerSeq)*2654435761 + 12345
			for i := 0; i < 40+w.markerSeq%17; i++ {
				x = x*1664525 + 1013904223
				sb.WriteByte(byte('a' + (x>>24)%26))
			}
			data = fmt.Sprintf(`{"m":"%d","blob":"%s"}`, w.markerSeq, sb.String())
			w.s.Probe("incompressible_publication_on_delta_channel")
		case 5:
			// ... and sometimes a publish without WithDelta on the same channel
			plainPublish = true
			w.s.Probe("plain_publish_on_delta_channel")
		}
	}
	opts := w.publishOpts(ch)
	if plainPublish {
		opts = nil
		if chPositioned(ch) || chHas(ch, 'h') {
			opts = append(opts, WithHistory(w.sc.Cfg.HistorySize, time.Duration(w.sc.Cfg.HistoryTTLSec)*time.Second))
		}
	}
	rec := &w1PubRec{Seq: w.next(), Ch: ch, Data: data}
	if chHas(ch, 'f') && !w.markerPhase && w.s.Intn(5) == 4 {
		// a publication without any tags on a filtered channel: an eq filter does not
		// match it, so neither filter lets it through
		rec.Tags = map[string]string{}
		w.s.Probe("untagged_publication_on_filtered_channel")
	} else if chHas(ch, 'f') && !w.markerPhase {
		rec.Tags = map[string]string{"s": []string{"1", "1", "0"}[w.s.Intn(3)], "c": []string{"1", "0"}[w.s.Intn(2)]}
		opts = append(opts, WithTags(rec.Tags))
	} else if chHas(ch, 'f') {
		rec.Tags = map[string]string{"s": "1", "c": "1"}
		opts = append(opts, WithTags(rec.Tags))
	}
	w.pubs = append(w.pubs, rec)
	res, err := w.node.Publish(ch, []byte(data), opts...)
	rec.RetSeq = w.next()
	rec.Offset, rec.Epoch = res.Offset, res.Epoch
	if err != nil {
		rec.Err = err.Error()
	}
	w.s.Event("publish %s %s -> %d err=%v", ch, data, res.Offset, err)
}

func (w *w1World) runPublisher(ops []w1Op) {
	for _, op := range ops {
		switch op.K {
		case "sleep":
			w.s.Sleep(time.Duration(op.DelayUs) * time.Microsecond)
		case "pub":
			w.s.Pause()
			w.publish(op.Ch)
		case "rmhist":
			w.s.Pause()
			_ = w.node.RemoveHistory(op.Ch)
			w.s.Fault("remove_history")
		}
	}
}

func (w *w1World) nodeOp(kind, user, ch string, c int, f func() error) *w1NodeOp {
	rec := &w1NodeOp{At: w.s.Now(), Seq: w.next(), Kind: kind, User: user, Ch: ch, C: c}
	w.nodeOps = append(w.nodeOps, rec)
	w.s.Event("nodeop %s user=%s ch=%s c=%d", kind, user, ch, c)
	if err := f(); err != nil {
		rec.Err = err.Error()
	}
	rec.RetSeq = w.next()
	return rec
}

func (w *w1World) runAdmin(ops []w1Op) {
	for _, op := range ops {
		if op.C >= len(w.sc.Clients) {
			continue
		}
		var cl *w1SimClient
		for _, c := range w.clients {
			if c.idx == op.C {
				cl = c
			}
		}
		user := w.sc.Clients[op.C].User
		switch op.K {
		case "sleep":
			w.s.Sleep(time.Duration(op.DelayUs) * time.Microsecond)
			continue
		}
		w.s.Pause()
		if strings.HasPrefix(op.K, "c") && (cl == nil || !cl.onConnectRan) {
			continue // the application only holds a *Client once OnConnect ran
		}
		switch op.K {
		case "nsub":
			w.nodeOp("nsub", user, op.Ch, op.C, func() error { return w.node.Subscribe(user, op.Ch, w.subscribeOpts(op.Ch)...) })
		case "nunsub":
			w.nodeOp("nunsub", user, op.Ch, op.C, func() error { return w.node.Unsubscribe(user, op.Ch) })
		case "ndisc":
			w.nodeOp("ndisc", user, "", op.C, func() error { return w.node.Disconnect(user) })
		case "csub":
			w.nodeOp("csub", user, op.Ch, op.C, func() error { return cl.client.Subscribe(op.Ch, w.subscribeOpts(op.Ch)...) })
		case "cunsub":
			w.nodeOp("cunsub", user, op.Ch, op.C, func() error { cl.client.Unsubscribe(op.Ch); return nil })
		case "cdisc":
			w.nodeOp("cdisc", user, "", op.C, func() error { cl.client.Disconnect(DisconnectForceNoReconnect); return nil })
		case "nhist":
			// node-level history reads without limit, racing the clients' history requests
			// (with UseSingleFlight concurrent identical reads are coalesced)
			for k := 0; k < op.N; k++ {
				w.s.Pause()
				_, _ = w.node.History(op.Ch, WithLimit(NoLimit))
			}
		case "nrefresh":
			exp := time.Now().Unix() + int64(op.N)
			var rec *w1NodeOp
			rec = w.nodeOp("nrefresh", user, "", op.C, func() error { return w.node.Refresh(user, WithRefreshExpireAt(exp)) })
			rec.N = int(exp)
		case "shutdown":
			w.nodeOp("shutdown", "", "", op.C, func() error {
				ctx, cancel := context.WithTimeout(context.Background(), 30*time.Second)
				defer cancel()
				err := w.node.Shutdown(ctx)
				w.shutdownDone = true
				w.shutdownRet = w.next()
				return err
			})
		case "csend":
			w.nodeOp("csend", user, "", op.C, func() error { return cl.client.Send([]byte(`{"s":1}`)) })
		}
	}
}

// ---------------------------------------------------------------- run

func w1Run(s *simrt.Sim, script any, prop string) {
	sc := script.(*w1Script)
	w := &w1World{s: s, sc: sc, prop: prop, byTransport: map[*w1Transport]*w1SimClient{}, startUnix: time.Now().Unix()}
	if err := w.setup(); err != nil {
		s.Violate(prop, "harness", "node setup failed", "%v", err)
		return
	}
	base := w.snapshotGauges()
	var obs *w1SimClient
	if sc.Observer {
		obs = w.newClient(1000, w1Client{Proto: "json", User: "observer"})
		obs.observer = true
		obs.runOp(w1Op{K: "connect"})
		for _, ch := range sc.Channels {
			if chHas(ch, 'j') {
				obs.runOp(w1Op{K: "sub", Ch: ch})
			}
		}
		s.Sleep(10 * time.Millisecond)
	}
	for i, spec := range sc.Clients {
		w.newClient(i, spec)
	}
	done := make(chan struct{}, 64)
	n := 0
	if prop == "C43" || ((prop == "C02" || prop == "C03") && !sc.Cfg.ConcurrentRecovery) {
		for _, ops := range sc.Pubs {
			w.runPublisher(ops)
		}
		sc2 := *sc
		sc2.Pubs = nil
		sc = &sc2
	}
	for _, cl := range w.clients {
		if cl.observer {
			continue
		}
		cl := cl
		n++
		s.Go(func() {
			defer func() { done <- struct{}{} }()
			for _, op := range cl.spec.Ops {
				if !cl.runOp(op) && op.K != "sleep" {
					return
				}
			}
		})
	}
	for _, ops := range sc.Pubs {
		ops := ops
		if prop == "C43" || ((prop == "C02" || prop == "C03") && !sc.Cfg.ConcurrentRecovery) {
			w.runPublisher(ops) // history first; the requests are compared at quiescence
			continue
		}
		n++
		s.Go(func() { defer func() { done <- struct{}{} }(); w.runPublisher(ops) })
	}
	for _, ops := range sc.Admins {
		ops := ops
		n++
		s.Go(func() { defer func() { done <- struct{}{} }(); w.runAdmin(ops) })
	}
	for i := 0; i < n; i++ {
		<-done
	}
	// faults stop here: the settled-state checks below wait fixed simulated times (e.g.
	// 300 ms for a marker publication to arrive) and must not race with a 1.2 s stall of
	// the goroutine that delivers it (false alarm C04 subscribed-not-routed, seed 1 run
	// 15334: the connection's writer was the stalled goroutine)
	s.StopStalls()
	w.settling = true
	s.Pause()
	settle := time.Duration(sc.Cfg.SettleMs) * time.Millisecond
	if settle == 0 {
		settle = 8 * time.Second
	}
	// settled = no asynchronous handler completion outstanding, then the settle time
	// (unsubscribe wait gate 5 s, deferred broker unsubscribe 1 s + retries, batching)
	if prop == "C43" {
		// presence / presence-stats replies are compared with the node-level result
		// while nothing else changes the presence sets
		s.Sleep(6 * time.Second)
		for _, cl := range w.clients {
			if cl.never() || cl.isClosed() || !cl.connected {
				continue
			}
			cl.readerDone = false
			for _, ch := range sc.Channels {
				if chHas(ch, 'e') {
					cl.runOp(w1Op{K: "pres", Ch: ch})
					cl.runOp(w1Op{K: "pstats", Ch: ch})
				}
			}
		}
	}
	for i := 0; i < 20 && w.pendingAsync > 0; i++ {
		s.Sleep(time.Second)
	}
	s.Sleep(settle)
	w.checkSettled()
	w.endPhaseSeq = w.next()
	// end: close every remaining connection, settle, check that nothing survives
	if w.shutdownDone {
		w.checkAfterShutdown()
		for _, cl := range w.clients {
			if cl.closeFn != nil {
				cl.cmdMu.Lock()
				cl.readerDone = true
				cl.cmdMu.Unlock()
				_ = cl.closeFn()
			}
		}
		s.Sleep(settle)
	} else {
		for _, cl := range w.clients {
			if cl.observer {
				continue
			}
			cl.cmdMu.Lock()
			cl.readerDone = true
			cl.cmdMu.Unlock()
			if cl.closeFn != nil {
				_ = cl.closeFn()
			}
		}
		s.Sleep(settle)
		w.checkAllClosed(base, obs)
		if obs != nil && obs.closeFn != nil {
			_ = obs.closeFn()
			s.Sleep(100 * time.Millisecond)
		}
		ctx, cancel := context.WithTimeout(context.Background(), 30*time.Second)
		_ = w.node.Shutdown(ctx)
		cancel()
	}
	w.checkHistory(obs)
	s.Sleep(3 * time.Second)
}

// ---------------------------------------------------------------- generator

var w1Flavours = map[string][]string{
	"C04": {"_", "p_", "ej_", "r_", "d_", "_"},
	"C05": {"_", "pe_", "ejJ_", "r_", "e_", "d_", "eM_", "MU_", "peM_", "re_"},
	"C10": {"_", "_", "p_", "jJ_", "r_", "b_", "pb_", "jJb_", "h_", "hb_"},
	"C01": {"p_", "r_", "r_", "p_", "rf_", "pf_"},
	"C06": {"e_", "e_", "pe_", "re_"},
	"C07": {"jJ_", "jJ_", "jJe_", "jJb_"},
	"C08": {"_", "p_", "ejJ_"},
	"C09": {"_", "p_", "ejJ_", "r_", "x_", "x_"},
	"C11": {"_", "_", "p_", "jJ_"},
	"C36": {"_", "e_", "Y_"},
	"C26": {"_", "p_", "_", "e_"},
	"C43": {"h_", "ph_", "eh_", "rh_"},
	"C02": {"r_", "r_", "rf_"},
	"C38": {"pm_", "rm_", "m_", "pm_"},
	"C16": {"f_", "pf_", "rf_", "cf_", "fh_"},
	"C14": {"pd_", "rd_", "pfd_", "rd_", "d_", "dm_", "pdm_"},
	"C03": {"c_", "c_", "cf_"},
	"C37": {"_", "p_"},
}

func w1Gen(c *simrt.Choice, prop, tier string) any {
	sc := &w1Script{}
	cfg := &sc.Cfg
	cfg.HistorySize = []int{3, 10, 100}[c.Intn(3)]
	cfg.HistoryTTLSec = []int{60, 300}[c.Intn(2)]
	cfg.PingMs, cfg.PongMs = 25000, 8000
	cfg.StaleMs = 15000
	cfg.PresenceMs = []int{25000, 1000, 300}[c.Intn(3)]
	cfg.PositionCheckMs = []int{40000, 2000}[c.Intn(2)]
	cfg.PresenceConc = []int{0, 0, 4}[c.Intn(3)]
	if c.Intn(4) == 0 {
		cfg.ReplyNoQueue = true
	}
	if c.Intn(3) == 0 {
		cfg.WriteDelayUs = []int{200, 2000}[c.Intn(2)]
		cfg.WriteTimer = c.Intn(2) == 0
	}
	if prop == "C14" && c.Intn(2) == 0 {
		// channel medium with a locally kept latest publication as delta base (flavour m)
		cfg.MediumLatest = true
		cfg.MediumShared = c.Intn(2) == 0
	}
	if prop == "C38" {
		switch c.Intn(4) {
		case 0:
			cfg.MediumShared = true
		case 1:
			cfg.MediumLatest = true
		case 2:
			cfg.MediumQueue = true
			cfg.MediumQueueMax = []int{0, 0, 200}[c.Intn(3)]
			cfg.MediumDelayMs = []int{0, 5}[c.Intn(2)]
		case 3:
			cfg.MediumShared, cfg.MediumLatest, cfg.MediumQueue = true, true, true
		}
	}
	if (prop == "C01" || prop == "C38") && c.Intn(3) > 0 {
		cfg.DropPm = []int{0, 50, 200}[c.Intn(3)]
		cfg.DupPm = []int{0, 50, 200}[c.Intn(3)]
		cfg.DelayPm = []int{0, 100, 300}[c.Intn(3)]
	}
	if prop == "C10" || prop == "C13" || prop == "C07" {
		cfg.Batch = true // only channels with flavour letter b are batched
		cfg.BatchLatest = c.Intn(3) == 0
	}
	if prop == "C09" && c.Intn(3) == 0 {
		// frequent server pings, so that pongs (solicited, duplicated, unsolicited) matter
		cfg.PingMs, cfg.PongMs = 400, 300
	}
	if prop == "C08" && c.Intn(2) == 0 {
		cfg.PresenceMs = 300
	}
	if prop == "C37" {
		cfg.ChannelLimit = 1 + c.Intn(3)
		cfg.ChannelMaxLen = 12
		cfg.QueueMax = []int{0, 200, 600}[c.Intn(3)]
	}
	if prop == "C36" {
		cfg.PingMs = []int{1000, 2000}[c.Intn(2)]
		cfg.PongMs = []int{400, 900}[c.Intn(2)]
		cfg.StaleMs = []int{1500, 3000}[c.Intn(2)]
		cfg.ExpiredDelayMs = []int{500, 1000}[c.Intn(2)]
		cfg.PresenceMs = 25000
		cfg.CSR = c.Intn(2) == 0
	}
	if prop == "C02" || prop == "C03" {
		cfg.HistorySize = []int{2, 4, 10}[c.Intn(3)]
		cfg.HistoryTTLSec = []int{2, 60}[c.Intn(2)]
		cfg.MetaTTLSec = []int{0, 5}[c.Intn(2)]
		cfg.RecoveryMax = []int{0, 0, 2, 3}[c.Intn(4)]
		if c.Intn(3) == 0 {
			cfg.ConcurrentRecovery = true
			cfg.HistRacePm = []int{0, 300, 600}[c.Intn(3)]
		}
	}
	if prop == "C43" {
		cfg.HistoryMax = []int{0, 1, 2, 5}[c.Intn(4)]
		cfg.HistorySize = []int{3, 10}[c.Intn(2)]
	}
	if (prop == "C04" || prop == "C05" || prop == "C26" || prop == "C08") && c.Intn(3) == 0 {
		cfg.SubDelayPm = []int{100, 300}[c.Intn(2)]
	}
	if prop == "C26" {
		cfg.SubFailPm = []int{0, 100, 300}[c.Intn(3)]
		cfg.UnsubFailPm = []int{0, 200, 300}[c.Intn(3)]
	}
	cfg.SettleMs = 8000
	fl := w1Flavours[prop]
	if fl == nil {
		fl = []string{"_", "p_", "ejJ_", "r_"}
	}
	nch := 1 + c.Intn(3)
	if prop == "C37" {
		nch = 3 + c.Intn(3)
	}
	for i := 0; i < nch; i++ {
		sc.Channels = append(sc.Channels, fl[c.Intn(len(fl))]+strconv.Itoa(i))
	}
	pickCh := func() string { return sc.Channels[c.Intn(len(sc.Channels))] }
	for _, ch := range sc.Channels {
		if chHas(ch, 'j') {
			sc.Observer = true
		}
	}
	ncl := 1 + c.Intn(3)
	maxOps := 8
	if tier == "thorough" {
		maxOps = 16
	}
	for i := 0; i < ncl; i++ {
		cl := w1Client{Proto: []string{"json", "protobuf"}[c.Intn(2)], User: "u" + strconv.Itoa(i%2)}
		if c.Intn(4) == 0 {
			k := 1 + c.Intn(2)
			for j := 0; j < k && j < len(sc.Channels); j++ {
				cl.ConnSubs = append(cl.ConnSubs, sc.Channels[j])
			}
		}
		if prop == "C02" || prop == "C03" {
			cl.Ops = []w1Op{{K: "connect"}}
			if c.Intn(4) == 0 {
				// connect-time server-side subscription recovering from a position the
				// client sends in the connect request
				cl.ConnSubs = []string{pickCh()}
				cl.Ops = []w1Op{{K: "connect", Back: c.Intn(7) - 1, Ep: []string{"cur", "cur", "foreign", "empty"}[c.Intn(4)]}}
				sc.Clients = append(sc.Clients, cl)
				continue
			}
			n := 1 + c.Intn(5)
			for j := 0; j < n; j++ {
				ch := pickCh()
				op := w1Op{K: "subrec", Ch: ch, Back: c.Intn(7) - 1, Ep: []string{"cur", "cur", "cur", "foreign", "empty"}[c.Intn(5)], Reject: c.Intn(5) == 0, Tf: chHas(ch, 'f') && c.Intn(2) == 0}
				cl.Ops = append(cl.Ops, op, w1Op{K: "unsub", Ch: ch})
				if c.Intn(3) == 0 {
					cl.Ops = append(cl.Ops, w1Op{K: "sleep", DelayUs: []int{1000000, 3000000, 7000000}[c.Intn(3)]})
				}
			}
			sc.Clients = append(sc.Clients, cl)
			continue
		}
		if prop == "C36" {
			switch c.Intn(5) {
			case 0: // never authenticates
				cl.Ops = []w1Op{{K: "accept"}, {K: "sleep", DelayUs: 5000000}}
				sc.Clients = append(sc.Clients, cl)
				continue
			case 1:
				cl.NoPong = true
				if c.Intn(2) == 0 {
					// never answers a ping but keeps sending other commands
					cl.Ops = []w1Op{{K: "connect"}}
					for k := 0; k < 14+c.Intn(8); k++ {
						cl.Ops = append(cl.Ops, w1Op{K: "rpc"}, w1Op{K: "sleep", DelayUs: []int{150000, 250000}[c.Intn(2)]})
					}
					sc.Clients = append(sc.Clients, cl)
					continue
				}
			case 2:
				cl.PongDelayMs = []int{100, 300, 600, 1200}[c.Intn(4)]
			case 3:
				cl.ExpireInSec = 2 + c.Intn(3)
				if cfg.CSR {
					// client-side refresh: one refresh in time, then a second one that is
					// late but inside the grace delay, or too late, or none
					n1 := 1 + c.Intn(2)
					cl.Ops = []w1Op{{K: "connect"}, {K: "sleep", DelayUs: []int{300000, 1200000}[c.Intn(2)]}, {K: "refresh", N: n1}}
					graceUs := cfg.ExpiredDelayMs * 1000
					switch c.Intn(3) {
					case 0:
						cl.Ops = append(cl.Ops, w1Op{K: "sleep", DelayUs: n1*1000000 + graceUs/2}, w1Op{K: "refresh", N: 2})
					case 1:
						cl.Ops = append(cl.Ops, w1Op{K: "sleep", DelayUs: n1*1000000 + graceUs + 1300000}, w1Op{K: "refresh", N: 2})
					}
					cl.Ops = append(cl.Ops, w1Op{K: "sleep", DelayUs: 4000000})
					sc.Clients = append(sc.Clients, cl)
					continue
				}
			}
			cl.Ops = []w1Op{{K: "connect"}}
			if c.Intn(2) == 0 {
				cl.Ops = append(cl.Ops, w1Op{K: "sub", Ch: pickCh()})
			}
			cl.Ops = append(cl.Ops, w1Op{K: "sleep", DelayUs: []int{3000000, 5000000, 7000000}[c.Intn(3)]})
			sc.Clients = append(sc.Clients, cl)
			continue
		}
		if prop == "C08" && c.Intn(3) == 0 {
			cl.ConnectHandlerMs = []int{1, 200, 400}[c.Intn(3)]
		}
		// most clients connect first; a few misbehave before connecting (C09)
		if prop == "C09" && c.Intn(3) == 0 {
			cl.Ops = append(cl.Ops, w1Op{K: []string{"sub", "rpc", "pong", "hist", "pub", "unsub", "send", "ping"}[c.Intn(8)], Ch: pickCh()})
		}
		cl.Ops = append(cl.Ops, w1Op{K: "connect"})
		if prop == "C09" && c.Intn(8) == 0 {
			// a connect that fails with an error reply after authentication (expired
			// connect-time subscription): the connection must not accept anything else
			cl.ConnSubs = []string{pickCh()}
			cl.ConnSubExpired = true
			cl.Emulation = true
		}
		if prop == "C09" && c.Intn(3) == 0 {
			// an asynchronous sub_refresh handler completing after the subscription it
			// was validated for ended (or was replaced): the command is still owed a reply
			for _, ch := range sc.Channels {
				if chHas(ch, 'x') {
					cl.Ops = append(cl.Ops, w1Op{K: "sub", Ch: ch}, w1Op{K: "subref", Ch: ch, DelayUs: []int{3000, 100, 200000}[c.Intn(3)]}, w1Op{K: "unsub", Ch: ch})
					if c.Intn(2) == 0 {
						cl.Ops = append(cl.Ops, w1Op{K: "sub", Ch: ch})
					}
					break
				}
			}
		}
		nops := 1 + c.Intn(maxOps)
		for j := 0; j < nops; j++ {
			var op w1Op
			weights := []int{8, 5, 3, 1, 1, 1, 1, 1, 1, 1}
			if prop == "C09" {
				weights = []int{8, 5, 4, 1, 1, 1, 1, 1, 5, 1}
			}
			if prop == "C43" {
				weights = []int{4, 1, 1, 0, 10, 0, 0, 0, 0, 0} // presence queries run in a quiescent phase after the scripts
			}
			if prop == "C37" {
				weights = []int{12, 3, 2, 0, 0, 0, 0, 0, 2, 0}
			}
			switch c.Pick(weights...) {
			case 0:
				op = w1Op{K: "sub", Ch: pickCh(), Recover: c.Intn(2) == 0}
				if (prop == "C01" || prop == "C38" || prop == "C14") && c.Intn(3) == 0 {
					// recover from an explicit older position while publishers are active
					op = w1Op{K: "subrec", Ch: pickCh(), Back: c.Intn(7), Ep: "cur"}
				}
				if chHas(op.Ch, 'f') && c.Intn(2) == 0 {
					op.Tf = true
				}
				if chHas(op.Ch, 'd') && c.Intn(4) > 0 {
					op.Delta = true
				}
				if c.Intn(3) == 0 {
					op.DelayUs = []int{1, 100, 3000, 6000000}[c.Intn(4)]
				}
				if c.Intn(8) == 0 {
					op.Err = true
				}
			case 1:
				op = w1Op{K: "unsub", Ch: pickCh()}
			case 2:
				op = w1Op{K: "sleep", DelayUs: []int{1, 100, 2000, 100000, 1500000, 1000000, 1000100}[c.Intn(7)]}
			case 3:
				op = w1Op{K: "pub", Ch: pickCh()}
			case 4:
				op = w1Op{K: "hist", Ch: pickCh(), N: c.Intn(8) - 2, Since: c.Intn(6) - 1, Rev: c.Intn(3) == 0}
			case 5:
				op = w1Op{K: []string{"pres", "pstats"}[c.Intn(2)], Ch: pickCh()}
			case 6:
				op = w1Op{K: []string{"rpc", "send", "ping"}[c.Intn(3)]}
			case 7:
				op = w1Op{K: "close"}
			case 8:
				if prop == "C09" {
					op = w1Op{K: []string{"pong", "noid", "empty", "connect", "subref", "subref", "pong"}[c.Intn(7)], Ch: pickCh()}
					if op.K == "subref" && c.Intn(2) == 0 {
						op.DelayUs = []int{100, 3000}[c.Intn(2)]
					}
				} else if prop == "C37" {
					if c.Intn(2) == 0 {
						op = w1Op{K: "sublong", Ch: "_l", N: []int{10, 11, 30}[c.Intn(3)]}
						if c.Intn(3) == 0 {
							op = w1Op{K: "sublong", Ch: "_l", N: []int{5, 6, 8}[c.Intn(3)], Rev: true}
						}
					} else {
						op = w1Op{K: "stall"}
					}
				} else {
					op = w1Op{K: "sleep", DelayUs: 10}
				}
			case 9:
				op = w1Op{K: "failwrites"}
			}
			cl.Ops = append(cl.Ops, op)
			if op.K == "close" {
				break
			}
		}
		sc.Clients = append(sc.Clients, cl)
	}
	npub := 1 + c.Intn(2)
	if prop == "C37" {
		maxOps = 40
	}
	if prop == "C01" || prop == "C38" {
		maxOps = 20
	}
	for i := 0; i < npub; i++ {
		var ops []w1Op
		k := 1 + c.Intn(maxOps)
		for j := 0; j < k; j++ {
			switch c.Pick(6, 2, 0) {
			case 0:
				ops = append(ops, w1Op{K: "pub", Ch: pickCh()})
			case 1:
				ops = append(ops, w1Op{K: "sleep", DelayUs: []int{1, 100, 2000, 50000}[c.Intn(4)]})
			}
		}
		if prop == "C01" && c.Intn(6) == 0 {
			ops = append(ops, w1Op{K: "rmhist", Ch: pickCh()})
		}
		if (prop == "C02" || prop == "C03") && c.Intn(3) == 0 {
			ops = append(ops, []w1Op{{K: "rmhist", Ch: pickCh()}, {K: "sleep", DelayUs: 3000000}, {K: "sleep", DelayUs: 9000000}}[c.Intn(3)])
			if c.Intn(2) == 0 {
				ops = append(ops, w1Op{K: "pub", Ch: pickCh()})
			}
		}
		sc.Pubs = append(sc.Pubs, ops)
	}
	nadm := c.Intn(3)
	for i := 0; i < nadm; i++ {
		var ops []w1Op
		k := 1 + c.Intn(5)
		for j := 0; j < k; j++ {
			kind := []string{"nsub", "nunsub", "csub", "cunsub", "csend", "sleep", "sleep", "ndisc", "cdisc"}[c.Intn(9)]
			op := w1Op{K: kind, Ch: pickCh(), C: c.Intn(ncl)}
			if kind == "sleep" {
				op.DelayUs = []int{1, 100, 2000, 50000}[c.Intn(4)]
			}
			ops = append(ops, op)
		}
		sc.Admins = append(sc.Admins, ops)
	}
	if (prop == "C01" || prop == "C38") && c.Intn(4) == 0 {
		// recovery-burst scenario: a history with filtered entries exists, then a
		// subscriber recovers from an old position while a publisher keeps publishing
		// through a lossy PUB/SUB seam (publications buffered during the subscribe
		// must be merged with the recovered ones, holes must be detected)
		ch0 := sc.Channels[0]
		cfg.DropPm, cfg.DupPm, cfg.DelayPm = []int{300, 500}[c.Intn(2)], []int{0, 100}[c.Intn(2)], 0
		cfg.HistRacePm = []int{0, 300, 600}[c.Intn(3)]
		var pre []w1Op
		for i := 0; i < 3+c.Intn(5); i++ {
			pre = append(pre, w1Op{K: "pub", Ch: ch0})
		}
		pre = append(pre, w1Op{K: "sleep", DelayUs: 1000})
		for i := 0; i < 3+c.Intn(6); i++ {
			pre = append(pre, w1Op{K: "pub", Ch: ch0})
		}
		sc.Pubs = [][]w1Op{pre}
		sc.Admins = nil
		sc.Clients = nil
		for i := 0; i < 1+c.Intn(2); i++ {
			cl := w1Client{Proto: []string{"json", "protobuf"}[c.Intn(2)], User: "u" + strconv.Itoa(i), Ops: []w1Op{{K: "connect"}, {K: "sleep", DelayUs: 1000}}}
			cl.Ops = append(cl.Ops, w1Op{K: "subrec", Ch: ch0, Back: 2 + c.Intn(8), Ep: "cur", Tf: chHas(ch0, 'f') && c.Intn(2) == 0})
			cl.Ops = append(cl.Ops, w1Op{K: "sleep", DelayUs: 100000})
			sc.Clients = append(sc.Clients, cl)
		}
	}
	if prop == "C37" && cfg.QueueMax > 0 && c.Intn(2) == 0 {
		// slow-consumer scenario: a subscribed peer stops reading while publications flow
		ch0 := sc.Channels[0]
		slow := w1Client{Proto: []string{"json", "protobuf"}[c.Intn(2)], User: "slow", Ops: []w1Op{{K: "connect"}, {K: "sub", Ch: ch0}, {K: "sleep", DelayUs: 1000}, {K: "stall"}, {K: "sleep", DelayUs: 3000000}}}
		sc.Clients = append(sc.Clients, slow)
		var ops []w1Op
		ops = append(ops, w1Op{K: "sleep", DelayUs: 10000})
		for i := 0; i < 30+c.Intn(30); i++ {
			ops = append(ops, w1Op{K: "pub", Ch: ch0})
		}
		sc.Pubs = append(sc.Pubs, ops)
	}
	if prop == "C36" {
		sc.Admins = nil
		for i, cl := range sc.Clients {
			if cl.ExpireInSec > 0 && c.Intn(2) == 0 {
				sc.Admins = append(sc.Admins, []w1Op{{K: "sleep", DelayUs: []int{500000, 1500000, 3500000}[c.Intn(3)]}, {K: "nrefresh", C: i, N: 3 + c.Intn(4)}})
			}
		}
	}
	if prop == "C08" && c.Intn(2) == 0 {
		ops := []w1Op{{K: "sleep", DelayUs: []int{0, 1, 100, 2000, 200000}[c.Intn(5)]}, {K: "shutdown"}}
		sc.Admins = append(sc.Admins, ops)
	}
	// a subscribe that fails with a client error AFTER its presence entry was added
	// (recovery from a foreign epoch with the reject-unrecovered flag on a recoverable
	// presence channel): the connection stays, unsubscribed, and must not stay in presence
	if prop == "C05" || prop == "C06" {
		var chs []string
		for _, ch := range sc.Channels {
			if chHas(ch, 'r') && chHas(ch, 'e') {
				chs = append(chs, ch)
			}
		}
		if len(chs) > 0 && len(sc.Clients) > 0 && c.Intn(2) == 0 {
			i := c.Intn(len(sc.Clients))
			ops := sc.Clients[i].Ops
			pos := len(ops)
			for k, op := range ops {
				if op.K == "connect" {
					pos = k + 1 + c.Intn(len(ops)-k)
					break
				}
			}
			ins := w1Op{K: "subrec", Ch: chs[c.Intn(len(chs))], Back: c.Intn(3), Ep: "foreign", Reject: true}
			ops = append(ops[:pos:pos], append([]w1Op{ins}, ops[pos:]...)...)
			sc.Clients[i].Ops = ops
		}
	}
	// configuration knobs added later: drawn last
	cfg.TimerSched = c.Intn(5) == 0
	cfg.PosCheckConc = []int{0, 0, 4}[c.Intn(3)]
	if prop == "C01" || prop == "C38" {
		cfg.MaxTimeLagMs = []int{0, 0, 0, 1500}[c.Intn(4)]
	}
	if prop == "C36" {
		cfg.ExpiredSubMs = []int{0, 500, 1000}[c.Intn(3)]
		for _, ch := range sc.Channels {
			if chHas(ch, 'Y') {
				// the subscription expiry check runs on the presence tick
				cfg.PresenceMs = 1000
				if cfg.ExpiredSubMs == 0 {
					cfg.ExpiredSubMs = 500
				}
			}
		}
	}
	cfg.QueueInitialCap = []int{0, 0, 1, 2}[c.Intn(4)]
	if prop == "C11" {
		cfg.Dict = c.Intn(3) > 0
	}
	if prop == "C43" && c.Intn(2) == 0 {
		cfg.SingleFlight = true
		for _, ch := range sc.Channels {
			sc.Admins = append(sc.Admins, []w1Op{{K: "nhist", Ch: ch, N: 6 + c.Intn(10)}})
		}
	}
	if prop == "C05" || prop == "C06" || prop == "C07" || prop == "C08" || prop == "C04" {
		cfg.PresDelayPm = []int{0, 0, 100, 300}[c.Intn(4)]
	}
	if prop == "C04" || prop == "C05" || prop == "C08" || prop == "C26" {
		// join/leave publication errors (C07's pairing oracle assumes they are delivered)
		cfg.JoinLeaveFailPm = []int{0, 0, 300}[c.Intn(3)]
	}
	if (prop == "C04" || prop == "C05") && c.Intn(10) == 0 {
		// slow-first-subscribe scenario (drawn last): the channel's first subscriber holds
		// the per-channel subscription lock for a whole slow broker round trip (50 ms or
		// 6.5 s); a server-side subscribe of another connection reserves the channel and
		// queues behind that lock, and a server-side unsubscribe of the same channel for
		// that connection arrives meanwhile: with the long round trip its wait gate (5 s)
		// times out, the connection is closed and the reservation dropped before the
		// subscribe registers in the hub and reaches its commit point
		ch0 := sc.Channels[0]
		cfg.SubDelayPm = 1000
		for len(sc.Clients) < 2 {
			i := len(sc.Clients)
			sc.Clients = append(sc.Clients, w1Client{Proto: []string{"json", "protobuf"}[c.Intn(2)], User: "u" + strconv.Itoa(i%2)})
		}
		sc.Clients[0].Ops = []w1Op{{K: "connect"}, {K: "sub", Ch: ch0}, {K: "sleep", DelayUs: 9000000}}
		sc.Clients[1].Ops = []w1Op{{K: "connect"}, {K: "sleep", DelayUs: 9000000}}
		sc.Clients[1].ConnSubs = nil
		first := []string{"nsub", "csub"}[c.Intn(2)]
		second := []string{"nunsub", "cunsub"}[c.Intn(2)]
		sc.Admins = append(sc.Admins,
			[]w1Op{{K: "sleep", DelayUs: 100000}, {K: first, Ch: ch0, C: 1}},
			[]w1Op{{K: "sleep", DelayUs: []int{300000, 2000000}[c.Intn(2)]}, {K: second, Ch: ch0, C: 1}})
	}
	if prop == "C10" && c.Intn(8) == 0 {
		// server-side-subscribe-in-a-burst scenario (drawn last): a positioned channel is
		// published to every 100 µs while a server-side subscribe of connection 0 to it
		// runs, so that publications are in flight at every step of that subscribe (PUB/SUB
		// buffering, commit, buffer release, subscribe push)
		ch := ""
		for _, x := range sc.Channels {
			if chPositioned(x) {
				ch = x
				break
			}
		}
		if ch != "" && len(sc.Clients) > 0 {
			at := []int{2000, 150000}[c.Intn(2)]
			sc.Admins = append(sc.Admins, []w1Op{{K: "sleep", DelayUs: at}, {K: []string{"csub", "nsub"}[c.Intn(2)], Ch: ch, C: 0}})
			burst := []w1Op{{K: "sleep", DelayUs: at - 300}}
			for i := 0; i < 10; i++ {
				burst = append(burst, w1Op{K: "pub", Ch: ch}, w1Op{K: "sleep", DelayUs: 100})
			}
			sc.Pubs = append(sc.Pubs, burst)
		}
	}
	return sc
}

func w1Shrinks(script any) []any {
	sc := script.(*w1Script)
	var out []any
	clone := func() *w1Script {
		b, _ := json.Marshal(sc)
		var c w1Script
		_ = json.Unmarshal(b, &c)
		return &c
	}
	for i := range sc.Pubs {
		c := clone()
		c.Pubs = append(c.Pubs[:i], c.Pubs[i+1:]...)
		out = append(out, c)
	}
	for i := range sc.Admins {
		c := clone()
		c.Admins = append(c.Admins[:i], c.Admins[i+1:]...)
		out = append(out, c)
	}
	for i := range sc.Clients {
		if len(sc.Clients) > 1 {
			c := clone()
			c.Clients = append(c.Clients[:i], c.Clients[i+1:]...)
			// admin ops reference clients by index: drop ops on removed/shifted clients
			for a := range c.Admins {
				var ops []w1Op
				for _, op := range c.Admins[a] {
					if op.C == i {
						continue
					}
					if op.C > i {
						op.C--
					}
					ops = append(ops, op)
				}
				c.Admins[a] = ops
			}
			out = append(out, c)
		}
	}
	for i := range sc.Clients {
		for j := range sc.Clients[i].Ops {
			if sc.Clients[i].Ops[j].K == "connect" && j == 0 {
				continue
			}
			c := clone()
			c.Clients[i].Ops = append(c.Clients[i].Ops[:j], c.Clients[i].Ops[j+1:]...)
			out = append(out, c)
		}
		if len(sc.Clients[i].ConnSubs) > 0 {
			c := clone()
			c.Clients[i].ConnSubs = nil
			out = append(out, c)
		}
	}
	for i := range sc.Pubs {
		for j := range sc.Pubs[i] {
			c := clone()
			c.Pubs[i] = append(c.Pubs[i][:j], c.Pubs[i][j+1:]...)
			out = append(out, c)
		}
	}
	for i := range sc.Admins {
		for j := range sc.Admins[i] {
			c := clone()
			c.Admins[i] = append(c.Admins[i][:j], c.Admins[i][j+1:]...)
			out = append(out, c)
		}
	}
	if sc.Cfg.DropPm+sc.Cfg.DupPm+sc.Cfg.DelayPm > 0 {
		c := clone()
		c.Cfg.DropPm, c.Cfg.DupPm, c.Cfg.DelayPm = 0, 0, 0
		out = append(out, c)
	}
	for _, f := range []func(*w1Cfg){
		func(c *w1Cfg) { c.ReplyNoQueue = false },
		func(c *w1Cfg) { c.WriteDelayUs = 0; c.WriteTimer = false },
		func(c *w1Cfg) { c.PresenceConc = 0 },
		func(c *w1Cfg) { c.PresenceMs = 25000 },
	} {
		c := clone()
		before, _ := json.Marshal(c.Cfg)
		f(&c.Cfg)
		after, _ := json.Marshal(c.Cfg)
		if string(before) != string(after) {
			out = append(out, c)
		}
	}
	return out
}

func init() {
	simrt.Register(&simrt.World{
		Name:      "w1",
		Gen:       w1Gen,
		NewScript: func() any { return &w1Script{} },
		Run:       w1Run,
		Shrinks:   w1Shrinks,
		// not for the properties whose oracle asserts exact simulated times (C36) or
		// compares replies at a quiescent instant (C43, C02, C03)
		Stall: func(prop string) bool {
			switch prop {
			case "C36", "C43", "C02", "C03":
				return false
			}
			return true
		},
		// C04 / C05 judge settled states only: their one long stall outlasts the 5 s
		// unsubscribe wait gate (a subscribe descheduled between its reservation and its
		// hub registration while the unsubscribe waiting for it times out)
		LongStallMs: func(prop string) int {
			if prop == "C04" || prop == "C05" {
				return 6500
			}
			return 0
		},
		Nontrivial: func(prop string, r *simrt.Result) bool {
			return r.Probes["nontrivial:"+prop] > 0
		},
	})
	for _, p := range []string{"C04", "C05", "C10", "C01", "C06", "C07", "C08", "C09", "C11", "C26", "C43", "C36", "C37", "C02", "C03", "C14", "C16", "C38"} {
		simrt.Claim(p, "w1", 10)
	}
}

var _ = errors.New
var _ = sort.Strings
