//go:build verif

package centrifuge

// W6a: the per-connection write path (writer + queue.Queue) under 1..3 producers, a
// simulated transport that can stall or fail, goroutine and timer mode, close with
// and without flush at any point. Decides C12 and the slow-consumer clause of C37.

import (
	"encoding/binary"
	"errors"
	"fmt"
	"time"

	"github.com/centrifugal/centrifuge/internal/queue"
	simrt "github.com/centrifugal/centrifuge/internal/simrt"
)

type w6aOp struct {
	Kind    string `json:"k"` // "enq" | "many" | "sleep"
	Sizes   []int  `json:"sz,omitempty"`
	SleepUs int    `json:"us,omitempty"`
}

type w6aScript struct {
	TimerMode    bool      `json:"timer_mode"`
	WriteDelayUs int       `json:"write_delay_us"`
	MaxInFrame   int       `json:"max_in_frame"`
	ShrinkMs     int       `json:"shrink_ms"`
	InitCap      int       `json:"init_cap"`
	MaxQueueSize int       `json:"max_queue_size"`
	Producers    [][]w6aOp `json:"producers"`
	CloseAtUs    int       `json:"close_at_us"` // <0: never (closed at the end with flush)
	CloseFlush   bool      `json:"close_flush"`
	FailWrite    int       `json:"fail_write"`  // index of the write call that fails, <0 never
	StallWrite   int       `json:"stall_write"` // index of the write call that stalls
	StallUs      int       `json:"stall_us"`
}

func w6aGen(c *simrt.Choice, prop, tier string) any {
	sc := &w6aScript{}
	sc.TimerMode = c.Intn(2) == 1
	sc.WriteDelayUs = []int{0, 0, 100, 1000, 5000}[c.Intn(5)]
	if sc.TimerMode && sc.WriteDelayUs == 0 {
		sc.WriteDelayUs = 500
	}
	sc.MaxInFrame = []int{0, -1, 1, 2, 3, 5, 16}[c.Intn(7)]
	sc.ShrinkMs = []int{0, -1, 1, 50, 1000}[c.Intn(5)]
	sc.InitCap = []int{0, 1, 2, 4, 8}[c.Intn(5)]
	if c.Intn(3) == 0 || prop == "C37" {
		sc.MaxQueueSize = 8 + c.Intn(120)
	}
	np := 1 + c.Intn(3)
	maxOps := 12
	if tier == "thorough" {
		maxOps = 30
	}
	for p := 0; p < np; p++ {
		n := 1 + c.Intn(maxOps)
		var ops []w6aOp
		for i := 0; i < n; i++ {
			switch c.Pick(5, 2, 2) {
			case 0:
				ops = append(ops, w6aOp{Kind: "enq", Sizes: []int{8 + c.Intn(24)}})
			case 1:
				k := 1 + c.Intn(5)
				var sz []int
				for j := 0; j < k; j++ {
					sz = append(sz, 8+c.Intn(24))
				}
				ops = append(ops, w6aOp{Kind: "many", Sizes: sz})
			case 2:
				ops = append(ops, w6aOp{Kind: "sleep", SleepUs: []int{1, 50, 400, 2000, 1500000}[c.Intn(5)]})
			}
		}
		sc.Producers = append(sc.Producers, ops)
	}
	sc.CloseAtUs = -1
	if c.Intn(2) == 0 {
		sc.CloseAtUs = []int{0, 10, 200, 1500, 6000}[c.Intn(5)]
		sc.CloseFlush = c.Intn(2) == 0
	}
	sc.FailWrite, sc.StallWrite = -1, -1
	if c.Intn(4) == 0 {
		sc.FailWrite = c.Intn(6)
	}
	if c.Intn(3) == 0 || sc.MaxQueueSize > 0 {
		sc.StallWrite = c.Intn(4)
		sc.StallUs = []int{100, 3000, 100000}[c.Intn(3)]
	}
	return sc
}

func w6aShrinks(script any) []any {
	sc := script.(*w6aScript)
	var out []any
	clone := func() *w6aScript {
		c := *sc
		c.Producers = nil
		for _, p := range sc.Producers {
			c.Producers = append(c.Producers, append([]w6aOp(nil), p...))
		}
		return &c
	}
	for p := range sc.Producers {
		if len(sc.Producers) > 1 {
			c := clone()
			c.Producers = append(c.Producers[:p], c.Producers[p+1:]...)
			out = append(out, c)
		}
		for i := range sc.Producers[p] {
			c := clone()
			c.Producers[p] = append(c.Producers[p][:i], c.Producers[p][i+1:]...)
			out = append(out, c)
		}
	}
	if sc.StallWrite >= 0 {
		c := clone()
		c.StallWrite = -1
		out = append(out, c)
	}
	if sc.FailWrite >= 0 {
		c := clone()
		c.FailWrite = -1
		out = append(out, c)
	}
	if sc.CloseAtUs >= 0 {
		c := clone()
		c.CloseAtUs = -1
		out = append(out, c)
	}
	return out
}

type w6aItemInfo struct {
	id        uint64
	size      int
	invoke    int64 // event sequence numbers
	ret       int64
	accepted  bool // enqueue returned nil or DisconnectSlow (item is in the queue)
	slow      bool
	written   bool
	writeSeq  int64 // event number when its write began
	writeCall int
	invokeAt  time.Duration // simulated time of the enqueue invocation
}

func w6aRun(s *simrt.Sim, script any, prop string) {
	sc := script.(*w6aScript)
	var ev int64 // event sequence; only touched between yields by the token holder
	next := func() int64 { ev++; return ev }
	items := map[uint64]*w6aItemInfo{}
	var order []uint64 // ids in the order they reached the transport
	writeCalls := 0
	inWrite := 0
	var callBegin []int64
	type enqRec struct {
		infos    []*w6aItemInfo
		inv, ret int64
		slow     bool
	}
	var enqs []enqRec
	failed := false
	var closeInvoke, closeReturn int64
	var wr *writer

	doWrite := func(its ...queue.Item) error {
		call := writeCalls
		writeCalls++
		begin := next()
		// the transport is written by one call at a time (Client serialises its
		// WriteFn/WriteManyFn the same way); overlapping calls interleave bytes
		if inWrite > 0 {
			s.Violate("C12", "concurrent-write", "two transport writes in progress at once", "write call %d began while another write call was still in progress", call)
		}
		inWrite++
		defer func() { inWrite-- }()
		callBegin = append(callBegin, begin)
		if closeReturn != 0 {
			s.Violate("C12", "write-after-close", "write after close returned", "write call %d began after close() returned", call)
		}
		for _, it := range its {
			if len(it.Data) < 8 {
				s.Violate("C12", "corrupt", "short item", "item of %d bytes written", len(it.Data))
				continue
			}
			id := binary.BigEndian.Uint64(it.Data)
			info := items[id]
			if info == nil {
				s.Violate("C12", "corrupt", "unknown item", "unknown item id %x written", id)
				continue
			}
			if len(it.Data) != info.size {
				s.Violate("C12", "corrupt", "size changed", "item %x size %d, enqueued %d", id, len(it.Data), info.size)
			}
			if info.written {
				s.Violate("C12", "duplicate", "item written twice", "item %x written twice (calls %d and %d)", id, info.writeCall, call)
			}
			info.written = true
			info.writeSeq = begin
			info.writeCall = call
			order = append(order, id)
		}
		s.Event("write call=%d n=%d", call, len(its))
		if call == sc.StallWrite {
			s.Fault("transport_stall")
			d := time.Duration(sc.StallUs) * time.Microsecond
			st0 := s.Stalls
			s.Sleep(d / 2)
			// Slow-consumer clause while the transport is stalled. Simulated time only
			// advances when every goroutine is durably blocked (and no scheduler stall was
			// injected meanwhile: s.Stalls unchanged), so every enqueue invoked at an EARLIER
			// instant has completed its queue insertion and either returned or is blocked.
			// The queue then holds exactly the invoked-but-not-handed-over items (this write
			// is the only consumer and it is parked here). If that exceeds the limit, the
			// enqueue that inserted last read a size at least as large (nothing was removed
			// since) and must already have reported DisconnectSlow.
			if sc.MaxQueueSize > 0 && s.Stalls == st0 && closeInvoke != 0 {
				s.Probe("stalled_write_closed_meanwhile")
			}
			if sc.MaxQueueSize > 0 && s.Stalls == st0 && closeInvoke == 0 && !failed {
				s.Probe("stalled_write_limit_checked")
				now := s.Now()
				pending, anySlow := 0, false
				for _, in := range items {
					if in.invoke != 0 && in.invokeAt < now && !in.written {
						pending += in.size
					}
					if in.slow {
						anySlow = true
					}
				}
				if pending > sc.MaxQueueSize {
					if !anySlow {
						for _, pr := range []string{"C12", "C37"} {
							s.Violate(pr, "slow-missed-while-stalled", "queue over the limit during a stalled write without DisconnectSlow", "%d bytes pending (limit %d) half way through a %v transport stall (timer mode %v), no enqueue has reported DisconnectSlow", pending, sc.MaxQueueSize, d, sc.TimerMode)
						}
					}
				}
			}
			s.Sleep(d - d/2)
		}
		if call == sc.FailWrite {
			s.Fault("transport_write_error")
			if closeInvoke == 0 {
				failed = true
			}
			return errors.New("sim write error")
		}
		return nil
	}
	wr = newWriter(writerConfig{
		MaxQueueSize: sc.MaxQueueSize,
		WriteFn:      func(it queue.Item) error { return doWrite(it) },
		WriteManyFn:  func(its ...queue.Item) error { return doWrite(its...) },
	}, sc.InitCap)
	runDone := make(chan struct{})
	if sc.TimerMode && sc.WriteDelayUs > 0 {
		// as Client.startWriter does: in timer mode run() only switches the mode and
		// returns, and it is called before anything can be enqueued
		wr.run(time.Duration(sc.WriteDelayUs)*time.Microsecond, sc.MaxInFrame, time.Duration(sc.ShrinkMs)*time.Millisecond, true)
		close(runDone)
	} else {
		s.Go(func() {
			wr.run(time.Duration(sc.WriteDelayUs)*time.Microsecond, sc.MaxInFrame, time.Duration(sc.ShrinkMs)*time.Millisecond, false)
			close(runDone)
		})
	}
	closed := false
	closeWasFlush := false
	doClose := func(flush bool) {
		if closed {
			return
		}
		closed = true
		closeWasFlush = flush
		closeInvoke = next()
		failedBefore := failed
		failed = false // close with flush may legitimately write after a failure
		_ = wr.close(flush)
		failed = failedBefore
		closeReturn = next()
		s.Event("closed flush=%v", flush)
	}
	prodDone := make(chan struct{}, len(sc.Producers))
	for p, ops := range sc.Producers {
		p, ops := p, ops
		s.Go(func() {
			defer func() { prodDone <- struct{}{} }()
			seq := 0
			mk := func(size int) (queue.Item, *w6aItemInfo) {
				seq++
				id := uint64(p+1)<<32 | uint64(seq)
				if size < 8 {
					size = 8
				}
				data := make([]byte, size)
				binary.BigEndian.PutUint64(data, id)
				info := &w6aItemInfo{id: id, size: size}
				items[id] = info
				return queue.Item{Data: data}, info
			}
			for _, op := range ops {
				switch op.Kind {
				case "sleep":
					s.Sleep(time.Duration(op.SleepUs) * time.Microsecond)
				case "enq", "many":
					var its []queue.Item
					var infos []*w6aItemInfo
					for _, sz := range op.Sizes {
						it, info := mk(sz)
						its = append(its, it)
						infos = append(infos, info)
					}
					s.Pause()
					inv := next()
					for _, in := range infos {
						in.invoke = inv
						in.invokeAt = s.Now()
					}
					var d *Disconnect
					if op.Kind == "enq" {
						d = wr.enqueue(its[0])
					} else {
						d = wr.enqueueMany(its...)
					}
					ret := next()
					for _, in := range infos {
						in.ret = ret
						in.accepted = d == nil || d.Code == DisconnectSlow.Code
						in.slow = d != nil && d.Code == DisconnectSlow.Code
					}
					if d != nil && d.Code == DisconnectSlow.Code {
						s.Probe("slow")
						// the connection is closed as slow consumer
						enqs = append(enqs, enqRec{infos, inv, ret, true})
						doClose(false)
						return
					}
					if d == nil {
						enqs = append(enqs, enqRec{infos, inv, ret, false})
					}
				}
			}
		})
	}
	if sc.CloseAtUs >= 0 {
		s.Go(func() {
			s.Sleep(time.Duration(sc.CloseAtUs) * time.Microsecond)
			doClose(sc.CloseFlush)
		})
	}
	for range sc.Producers {
		<-prodDone
	}
	s.Pause()
	// let the writer drain (delays, stalls, shrink timers)
	s.Sleep(3 * time.Second)
	if !closed && !failed {
		// bounded liveness: the connection is open, nothing failed, three simulated
		// seconds (far beyond any write delay or stall of the script) passed since the
		// last enqueue: everything accepted must have reached the transport by itself,
		// not only through the flush of a later close
		for _, in := range items {
			if in.accepted && !in.written {
				s.Violate("C12", "stuck", "accepted item not written although the connection stayed open", "item %x accepted (ev %d) still unwritten 3 s after the last enqueue (timer mode %v, write delay %dus)", in.id, in.ret, sc.TimerMode, sc.WriteDelayUs)
				break
			}
		}
	}
	if !closed {
		doClose(true)
	}
	s.Sleep(2 * time.Second)
	select {
	case <-runDone:
	default:
		s.Violate("C12", "writer-goroutine-leak", "run did not return after close", "writer.run still running 2s after close")
	}

	// ---- oracle over the recorded history ----
	pos := map[uint64]int{}
	for i, id := range order {
		pos[id] = i
	}
	// per-producer order and real-time order among written items
	var written []*w6aItemInfo
	for _, id := range order {
		written = append(written, items[id])
	}
	for i := 1; i < len(written); i++ {
		a, b := written[i-1], written[i]
		if a.id>>32 == b.id>>32 && a.id > b.id {
			s.Violate("C12", "order", "producer order inverted", "items %x then %x of one producer", a.id, b.id)
		}
	}
	for _, a := range written {
		for _, b := range written {
			if a.ret != 0 && b.invoke != 0 && a.ret < b.invoke && pos[a.id] > pos[b.id] {
				s.Violate("C12", "order", "real-time order inverted", "enqueue of %x returned (ev %d) before enqueue of %x began (ev %d) but it was written later", a.id, a.ret, b.id, b.invoke)
			}
		}
	}
	// within one enqueueMany the items keep their order and stay adjacent to each other
	// relative to items of other producers? (not required: only order). Loss:
	lossChecked := 0
	for _, in := range items {
		if !in.accepted || in.written {
			continue
		}
		// an accepted item that never reached the transport
		switch {
		case failed:
			// after a failed write nothing more is owed
		case closeInvoke != 0 && !closeWasFlush:
			// closed without flush: items still queued at close are dropped by design;
			// holes before written items are caught by the gap rule below
		case in.ret != 0 && in.ret < closeInvoke:
			s.Violate("C12", "loss", "accepted item never written", "item %x accepted (ev %d) before close began (ev %d, flush) but never written", in.id, in.ret, closeInvoke)
		}
		lossChecked++
	}
	// gap rule (holds also for close without flush and after failures): if an item was
	// written, every item whose enqueue returned before that item's enqueue began must
	// have been written earlier (FIFO without holes).
	for _, b := range written {
		for _, a := range items {
			if a.accepted && !a.written && a.ret != 0 && a.ret < b.invoke {
				s.Violate("C12", "loss", "hole in written sequence", "item %x (enqueue returned ev %d) missing although later item %x (enqueue began ev %d) was written", a.id, a.ret, b.id, b.invoke)
			}
		}
	}
	for _, e := range enqs {
		w6aCheckSlow(s, sc, items, e.infos, e.inv, e.ret, e.slow, callBegin, closeInvoke)
	}
	if len(order) > 0 {
		s.Probe("written")
	}
	if writeCalls > 1 {
		s.Probe("multi_write")
	}
	s.Event("final written=%d calls=%d", len(order), writeCalls)
}

// w6aCheckSlow: conservative byte accounting for the slow-consumer clause.
func w6aCheckSlow(s *simrt.Sim, sc *w6aScript, items map[uint64]*w6aItemInfo, cur []*w6aItemInfo, inv, ret int64, gotSlow bool, callBegin []int64, closeInvoke int64) {
	if sc.MaxQueueSize <= 0 {
		if gotSlow {
			s.Violate("C37", "slow-without-limit", "DisconnectSlow with MaxQueueSize 0", "enqueue returned slow although no limit configured")
			s.Violate("C12", "slow-without-limit", "DisconnectSlow with MaxQueueSize 0", "enqueue returned slow although no limit configured")
		}
		return
	}
	curSet := map[uint64]bool{}
	curBytes := 0
	for _, in := range cur {
		curSet[in.id] = true
		curBytes += in.size
	}
	// upper bound of queued bytes when Size() was read: everything whose enqueue began
	// before we returned and whose write had not begun before we were invoked
	upper := curBytes
	// lower bound: what was certainly still queued when Size() was read (at the latest when
	// we returned). An item leaves the queue when the flusher takes its batch, which is some
	// time BEFORE the write call that carries it begins, but never before the previous write
	// call began (one flusher, batches are taken one after the other). So an item is
	// certainly still queued at our return iff it was never handed to the transport, or the
	// write call before its own began after we returned. (The earlier rule "written by a
	// call later than the first call that began after we were invoked" was unsound: a
	// preempted enqueuer can be overtaken by several complete write calls between its Add
	// and its Size(); found as soon as this clause was actually claimed, seed 1 run 44227.)
	stillQueued := func(in *w6aItemInfo) bool {
		if !in.written {
			return true
		}
		return in.writeCall >= 1 && in.writeCall-1 < len(callBegin) && callBegin[in.writeCall-1] > ret
	}
	lower := 0
	for _, in := range cur {
		if stillQueued(in) {
			lower += in.size
		}
	}
	for _, in := range items {
		if curSet[in.id] || in.invoke == 0 {
			continue
		}
		if in.invoke < ret && !(in.written && in.writeSeq < inv) {
			upper += in.size
		}
		if in.accepted && in.ret != 0 && in.ret < inv && stillQueued(in) {
			lower += in.size
		}
	}
	if gotSlow && upper <= sc.MaxQueueSize {
		s.Violate("C37", "slow-too-early", "DisconnectSlow below the limit", "enqueue returned slow but at most %d bytes could be pending (limit %d)", upper, sc.MaxQueueSize)
		s.Violate("C12", "slow-too-early", "DisconnectSlow below the limit", "enqueue returned slow but at most %d bytes could be pending (limit %d)", upper, sc.MaxQueueSize)
	}
	if !gotSlow && lower > sc.MaxQueueSize && (closeInvoke == 0 || ret < closeInvoke) {
		s.Violate("C37", "slow-missed", "limit exceeded without DisconnectSlow", "enqueue accepted although at least %d bytes were pending (limit %d)", lower, sc.MaxQueueSize)
		s.Violate("C12", "slow-missed", "limit exceeded without DisconnectSlow", "enqueue accepted although at least %d bytes were pending (limit %d)", lower, sc.MaxQueueSize)
	}
	if !gotSlow && lower > sc.MaxQueueSize/2 {
		s.Probe("near_limit")
	}
	_ = fmt.Sprint
}

func init() {
	simrt.Register(&simrt.World{
		Name:      "w6a",
		Gen:       w6aGen,
		NewScript: func() any { return &w6aScript{} },
		Run:       w6aRun,
		Shrinks:   w6aShrinks,
		Stall:     func(prop string) bool { return true },
		Nontrivial: func(prop string, r *simrt.Result) bool {
			if prop == "C37" {
				return r.Probes["slow"] > 0 || r.Probes["near_limit"] > 0
			}
			return r.Probes["multi_write"] > 0
		},
	})
	simrt.Claim("C12", "w6a", 10)
	simrt.Claim("C37", "w6a", 3) // slow-consumer clause on the writer itself (W1 weighs 10)
}
