//go:build verif

package bpool

import (
	"testing"

	simrt "github.com/centrifugal/centrifuge/internal/simrt"
)

func TestVerif(t *testing.T) { simrt.Main(t) }
