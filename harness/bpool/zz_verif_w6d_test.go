//go:build verif

package bpool

// W6d (bpool part): GetByteBuffer/PutByteBuffer and GetByteSlicesBuf/PutByteSlicesBuf
// under an adversarial sync.Pool (every Get of the transformed code returns, by
// scheduler choice, ANY object previously Put into that size class, or a fresh one).
// 1..2 tasks get buffers for generated lengths, mutate them the way callers can
// (append within capacity, grow by append, reslice, replace the slice) and put them
// back in arbitrary order. Decides C42 (together with world w6d_items in package
// centrifuge for getItemBuf/putItemBuf).

import (
	"fmt"

	simrt "github.com/centrifugal/centrifuge/internal/simrt"
	simsync "github.com/centrifugal/centrifuge/internal/simrt/simsync"
)

type w6dOp struct {
	K   string `json:"k"`             // "get" | "put" | "yield"
	T   int    `json:"t,omitempty"`   // 0 ByteBuffer, 1 ByteSlicesBuf
	Len int    `json:"len,omitempty"` // requested length
	Mut int    `json:"mut,omitempty"` // mutation applied while held (see w6dMutate*)
	N   int    `json:"n,omitempty"`   // mutation parameter
	Idx int    `json:"idx,omitempty"` // put: which held buffer (modulo)
}

type w6dScript struct {
	Tasks [][]w6dOp `json:"tasks"`
}

const w6dMutations = 7

// w6dLen draws a requested length: 0, small values, powers of two and their
// neighbours up to the maximum pooled size max, and values above max.
func w6dLen(c *simrt.Choice, max int, allowNeg bool, cheap bool) int {
	switch c.Pick(2, 6, 6, 2, 1) {
	case 0:
		return 0
	case 1:
		return 1 + c.Intn(40)
	case 2:
		top := 0
		for 1<<top < max {
			top++
		}
		hi := top
		if cheap && hi > 13 && c.Intn(8) != 0 {
			hi = 13 // keep most buffers small: runs stay fast
		}
		p := 1 << c.Intn(hi+1)
		return p + c.Intn(3) - 1
	case 3:
		return max + c.Intn(3) - 1
	default:
		if allowNeg {
			return -1 - c.Intn(3)
		}
		return max + 1 + c.Intn(100)
	}
}

func w6dGen(c *simrt.Choice, prop, tier string) any {
	sc := &w6dScript{}
	nt := 1 + c.Pick(3, 2)
	maxOps := 14
	if tier == "thorough" {
		maxOps = 40
	}
	// a run concentrates on one or two size classes so that puts and gets meet
	focus := []int{}
	for i := 0; i < 1+c.Intn(2); i++ {
		focus = append(focus, c.Intn(13))
	}
	mainT := c.Intn(2)
	for t := 0; t < nt; t++ {
		n := 2 + c.Intn(maxOps)
		var ops []w6dOp
		held := 0
		for i := 0; i < n; i++ {
			k := c.Pick(5, 4, 1)
			if k == 1 && held == 0 {
				k = 0
			}
			switch k {
			case 0:
				op := w6dOp{K: "get", T: mainT, Mut: c.Intn(w6dMutations)}
				if c.Intn(5) == 0 {
					op.T = 1 - mainT
				}
				if c.Intn(6) != 0 {
					// around the focus class: 2^f-1 .. 2^f+1, or anything the class covers
					f := focus[c.Intn(len(focus))]
					if c.Intn(2) == 0 {
						op.Len = 1<<f + c.Intn(3) - 1
					} else {
						op.Len = 1<<f - c.Intn(1<<f/2+1)
					}
					if op.Len < 0 {
						op.Len = 0
					}
				} else if op.T == 0 {
					op.Len = w6dLen(c, maxBufferLength, false, true)
				} else {
					op.Len = w6dLen(c, maxByteSlicesBufLength, true, false)
				}
				op.N = []int{0, 1, 2, 3, 7, 64, 1000, 5000}[c.Intn(8)]
				ops = append(ops, op)
				held++
			case 1:
				ops = append(ops, w6dOp{K: "put", Idx: c.Intn(held)})
				held--
			case 2:
				ops = append(ops, w6dOp{K: "yield"})
			}
		}
		sc.Tasks = append(sc.Tasks, ops)
	}
	return sc
}

func w6dShrinks(script any) []any {
	sc := script.(*w6dScript)
	var out []any
	clone := func() *w6dScript {
		c := &w6dScript{}
		for _, t := range sc.Tasks {
			c.Tasks = append(c.Tasks, append([]w6dOp(nil), t...))
		}
		return c
	}
	for t := range sc.Tasks {
		if len(sc.Tasks) > 1 {
			c := clone()
			c.Tasks = append(c.Tasks[:t], c.Tasks[t+1:]...)
			out = append(out, c)
		}
	}
	for t := range sc.Tasks {
		for i := range sc.Tasks[t] {
			c := clone()
			c.Tasks[t] = append(c.Tasks[t][:i], c.Tasks[t][i+1:]...)
			out = append(out, c)
		}
	}
	for t := range sc.Tasks {
		for i, op := range sc.Tasks[t] {
			if op.K == "get" && op.Mut != 0 {
				c := clone()
				c.Tasks[t][i].Mut = 0
				out = append(out, c)
			}
			if op.K == "get" && op.N > 1 {
				c := clone()
				c.Tasks[t][i].N = 1
				out = append(out, c)
			}
		}
	}
	return out
}

type w6dHeld struct {
	t  int
	bb *ByteBuffer
	bs *ByteSlicesBuf
}

// the marker every mutation writes: a buffer handed out later must not show it
var w6dMark = []byte{0xA5}

func w6dMutateBB(bb *ByteBuffer, mut, n int) {
	fill := func(k int) {
		if k <= 0 {
			return
		}
		l := len(bb.B)
		if l+k <= cap(bb.B) {
			bb.B = bb.B[:l+k]
		} else {
			bb.B = append(bb.B, make([]byte, k)...)
		}
		for i := l; i < l+k; i++ {
			bb.B[i] = 0xA5
		}
	}
	switch mut {
	case 0: // typical use: write a little
		fill(min(n, cap(bb.B)))
	case 1: // fill to capacity
		fill(cap(bb.B) - len(bb.B))
	case 2: // grow beyond the capacity through append / Write
		p := make([]byte, cap(bb.B)-len(bb.B)+1+n)
		for i := range p {
			p[i] = 0xA5
		}
		_, _ = bb.Write(p)
	case 3: // fill, then reslice shorter
		fill(cap(bb.B) - len(bb.B))
		bb.B = bb.B[:min(n, len(bb.B))]
	case 4: // fill, then keep a tail sub-slice (capacity shrinks)
		fill(cap(bb.B) - len(bb.B))
		bb.B = bb.B[min(n, len(bb.B)):]
	case 5: // replace by a foreign slice of odd capacity
		bb.B = make([]byte, n, n+n/2+1)
		for i := range bb.B {
			bb.B[i] = 0xA5
		}
	case 6: // extend the length to the full capacity without writing
		bb.B = bb.B[:cap(bb.B)]
		for i := range bb.B {
			bb.B[i] = 0xA5
		}
	}
}

func w6dMutateBS(bs *ByteSlicesBuf, mut, n int) {
	fill := func(k int) {
		for i := 0; i < k; i++ {
			bs.B = append(bs.B, w6dMark)
		}
	}
	switch mut {
	case 0:
		fill(min(n, cap(bs.B)))
	case 1:
		fill(cap(bs.B) - len(bs.B))
	case 2:
		fill(cap(bs.B) - len(bs.B) + 1 + min(n, 70))
	case 3:
		fill(cap(bs.B) - len(bs.B))
		bs.B = bs.B[:min(n, len(bs.B))]
	case 4:
		fill(cap(bs.B) - len(bs.B))
		bs.B = bs.B[min(n, len(bs.B)):]
	case 5:
		n = min(n, 100)
		bs.B = make([][]byte, n, n+n/2+1)
		for i := range bs.B {
			bs.B[i] = w6dMark
		}
	case 6:
		bs.B = bs.B[:cap(bs.B)]
		for i := range bs.B {
			bs.B[i] = w6dMark
		}
	}
}

func w6dRun(s *simrt.Sim, script any, prop string) {
	sc := script.(*w6dScript)
	old := simsync.Adversarial
	simsync.Adversarial = true
	defer func() { simsync.Adversarial = old }()

	inUseBB := map[*ByteBuffer]bool{}
	inUseBS := map[*ByteSlicesBuf]bool{}
	putBB := map[*ByteBuffer]bool{}
	putBS := map[*ByteSlicesBuf]bool{}
	reused, pooledNow := 0, 0

	checkBB := func(bb *ByteBuffer, length int) {
		if bb == nil {
			s.Violate("C42", "nil", "GetByteBuffer returned nil", "GetByteBuffer(%d) returned nil", length)
			return
		}
		if putBB[bb] {
			reused++
			delete(putBB, bb)
			pooledNow--
		}
		if inUseBB[bb] {
			s.Violate("C42", "aliased", "byte buffer handed out while still in use", "GetByteBuffer(%d) returned a buffer another holder has not put back", length)
		}
		if len(bb.B) != 0 {
			s.Violate("C42", "dirty", "byte buffer not empty", "GetByteBuffer(%d): len %d cap %d, first byte %#x", length, len(bb.B), cap(bb.B), bb.B[0])
		}
		if cap(bb.B) < length {
			s.Violate("C42", "undersized", "byte buffer capacity below the requested length", "GetByteBuffer(%d): cap %d", length, cap(bb.B))
		}
	}
	checkBS := func(bs *ByteSlicesBuf, length int) {
		if bs == nil {
			s.Violate("C42", "nil", "GetByteSlicesBuf returned nil", "GetByteSlicesBuf(%d) returned nil", length)
			return
		}
		if putBS[bs] {
			reused++
			delete(putBS, bs)
			pooledNow--
		}
		if inUseBS[bs] {
			s.Violate("C42", "aliased", "byte-slice list handed out while still in use", "GetByteSlicesBuf(%d) returned a list another holder has not put back", length)
		}
		if len(bs.B) != 0 {
			s.Violate("C42", "dirty", "byte-slice list not empty", "GetByteSlicesBuf(%d): len %d cap %d", length, len(bs.B), cap(bs.B))
		}
		if cap(bs.B) < length {
			s.Violate("C42", "undersized", "byte-slice list capacity below the requested length", "GetByteSlicesBuf(%d): cap %d", length, cap(bs.B))
		}
	}

	done := make(chan struct{}, len(sc.Tasks))
	for _, ops := range sc.Tasks {
		ops := ops
		s.Go(func() {
			defer func() { done <- struct{}{} }()
			var held []*w6dHeld
			for _, op := range ops {
				switch op.K {
				case "yield":
					s.Pause()
				case "get":
					if op.T == 0 {
						if op.Len < 0 {
							continue // negative capacity is not a valid request for GetByteBuffer
						}
						if op.Len > maxBufferLength {
							s.Probe("above_max")
						}
						bb := GetByteBuffer(op.Len)
						checkBB(bb, op.Len)
						if bb == nil {
							continue
						}
						inUseBB[bb] = true
						w6dMutateBB(bb, op.Mut, op.N)
						held = append(held, &w6dHeld{t: 0, bb: bb})
					} else {
						if op.Len > maxByteSlicesBufLength {
							s.Probe("above_max")
						}
						bs := GetByteSlicesBuf(op.Len)
						checkBS(bs, op.Len)
						if bs == nil {
							continue
						}
						inUseBS[bs] = true
						w6dMutateBS(bs, op.Mut, op.N)
						held = append(held, &w6dHeld{t: 1, bs: bs})
					}
					if op.Mut >= 2 {
						s.Fault(fmt.Sprintf("mutation_%d", op.Mut))
					}
				case "put":
					if len(held) == 0 {
						continue
					}
					i := op.Idx % len(held)
					h := held[i]
					held = append(held[:i], held[i+1:]...)
					if h.t == 0 {
						delete(inUseBB, h.bb)
						c := cap(h.bb.B)
						PutByteBuffer(h.bb)
						if c > 0 && c <= maxBufferLength {
							putBB[h.bb] = true
							pooledNow++
						}
					} else {
						delete(inUseBS, h.bs)
						c := cap(h.bs.B)
						PutByteSlicesBuf(h.bs)
						if c > 0 && c <= maxByteSlicesBufLength {
							putBS[h.bs] = true
							pooledNow++
						}
					}
				}
			}
		})
	}
	for range sc.Tasks {
		<-done
	}
	s.Pause()
	if reused > 0 {
		s.Probe("reused")
		s.Probe("nontrivial:C42")
	}
	s.Event("final reused=%d pooled=%d", reused, pooledNow)
}

func init() {
	simrt.Register(&simrt.World{
		Name:      "w6d",
		Gen:       w6dGen,
		NewScript: func() any { return &w6dScript{} },
		Run:       w6dRun,
		Shrinks:   w6dShrinks,
		Nontrivial: func(prop string, r *simrt.Result) bool {
			return r.Probes["nontrivial:C42"] > 0
		},
	})
	simrt.Claim("C42", "w6d", 10)
}
