#!/bin/bash
# usage: mk.sh <prop-id> [n]  -> creates worktree /tmp/mut/<id> and prints the prompt file path
id=$1; n=${2:-3}; wt=/tmp/mut/$id
git -C /repo worktree add -q --detach $wt HEAD || exit 1
python3 - "$id" "$n" "$wt" <<'PY'
import json,sys
id,n,wt=sys.argv[1:4]
prop=None
for l in open('/verif/properties.jsonl'):
    p=json.loads(l)
    if p['id']==id: prop=p
t=open('/tmp/mut/PROMPT.tmpl').read()
t=t.replace('@WT@',wt).replace('@N@',n).replace('@ID@',id).replace('@PROP@',json.dumps(prop,indent=1))
open(f'/tmp/mut/prompt-{id}.txt','w').write(t)
print(f'/tmp/mut/prompt-{id}.txt')
PY
