#!/usr/bin/env python3
"""record_catch.py <label> <try-file>...: merges trial outputs of engine/tryseed_wt.sh into
/verif/seeded/catch.json: {seed-id: {property: [ {round, verdict, clause, signature, runs, wall_s} ]}}"""
import json, os, re, sys
label = sys.argv[1]
path = "/verif/seeded/catch.json"
catch = json.load(open(path)) if os.path.exists(path) else {}
for f in sys.argv[2:]:
    sid = None
    cur = None
    for line in open(f):
        line = line.rstrip("\n")
        m = re.match(r"#### (C\d+) mutation (\d+)", line)
        if m:
            sid = f"{m.group(1)}-m{m.group(2)}"
            cur = None
            continue
        m = re.match(r"== (C\d+) exit=(\d+) runs<=(\d+)", line)
        if m and sid:
            verdict = {"0": "missed", "1": "caught", "2": "trouble"}.get(m.group(2), "exit " + m.group(2))
            cur = {"round": label, "verdict": verdict, "run_cap": int(m.group(3))}
            lst = catch.setdefault(sid, {}).setdefault(m.group(1), [])
            lst[:] = [x for x in lst if x.get("round") != label]
            lst.append(cur)
            continue
        if cur is None:
            continue
        m = re.match(r'\s+clause=(\S+) signature="(.*)"', line)
        if m and "clause" not in cur:
            cur["clause"], cur["signature"] = m.group(1), m.group(2)
        m = re.match(r"check \S+ tier=\S+ seed=(\d+): (\d+) runs .* ([\d.]+)s wall", line)
        if m:
            cur["seed"], cur["runs_executed"], cur["wall_s"] = int(m.group(1)), int(m.group(2)), float(m.group(3))
json.dump(catch, open(path, "w"), indent=1, sort_keys=True)
tot = sum(1 for s in catch for p in catch[s])
print("catch.json:", len(catch), "seeded changes,", tot, "(change, property) results")
