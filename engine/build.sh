#!/bin/bash
# Builds the simulation test binaries for /repo's CURRENT WORKING TREE.
# Prints the build directory on stdout. Exit 2 on any build trouble.
set -u
export GOFLAGS=-mod=mod GOPROXY=off GOSUMDB=off GOTOOLCHAIN=local CGO_ENABLED=0
VERIF=${VERIF_ROOT:-/verif}
REPO=${VERIF_REPO:-/repo}
export PATH=/opt/veriftools/go1.26.8/bin:$PATH
GO=go
export GOCACHE=${GOCACHE:-$VERIF/.cache/go-build}
mkdir -p "$VERIF/.build" "$VERIF/.bin" "$GOCACHE"

# tools (xform, driver) are built by setup; build xform lazily if missing
if [ ! -x "$VERIF/.bin/xform" ]; then
  (cd "$VERIF/engine" && $GO build -o "$VERIF/.bin/xform" ./xform) >&2 || { echo "build.sh: cannot build xform" >&2; exit 2; }
fi

# hash of everything the binaries depend on: repo working tree (non-test sources,
# go.mod/go.sum, embedded files) + simulator runtime + harness + transformer
hash=$( {
  cd "$REPO" && find . -path ./_examples -prune -o -path ./.git -prune -o -type f \
      \( -name '*.go' ! -name '*_test.go' -o -name 'go.mod' -o -name 'go.sum' -o -name '*.lua' \) -print0 \
      | sort -z | xargs -0 sha256sum
  cd "$VERIF" && find simrt harness engine/xform -type f -print0 | sort -z | xargs -0 sha256sum
  echo "xform-select=${VERIF_XFORM_SELECT:-1}"
} | sha256sum | cut -c1-20 )
OUT="$VERIF/.build/$hash"
if [ -f "$OUT/ok" ]; then
  touch "$OUT/ok"
  echo "$OUT"
  exit 0
fi
# serialise concurrent builds of the same tree
exec 9>"$VERIF/.build/lock"
flock 9
if [ -f "$OUT/ok" ]; then echo "$OUT"; exit 0; fi

SCRATCH=${VERIF_SCRATCH:-/var/tmp}/verif-scratch-$$
rm -rf "$SCRATCH"; mkdir -p "$SCRATCH" "$OUT"
trap 'rm -rf "$SCRATCH"' EXIT
rsync -a --exclude '.git' --exclude '_examples' --exclude '*_test.go' --exclude 'docker-compose.yml' "$REPO"/ "$SCRATCH"/ >&2 || exit 2
mkdir -p "$SCRATCH/internal/simrt"
rsync -a "$VERIF/simrt"/ "$SCRATCH/internal/simrt"/ >&2 || exit 2
(cd "$SCRATCH" && $GO mod edit -require=github.com/anishathalye/porcupine@v1.3.0) >&2 || exit 2
"$VERIF/.bin/xform" -dir "$SCRATCH" >&2 || { echo "build.sh: transform failed" >&2; exit 2; }
# overlay harness files (in-package test files, build tag verif)
for d in "$VERIF"/harness/*/; do
  name=$(basename "$d")
  case "$name" in
    centrifuge) dest="$SCRATCH" ;;
    *) dest="$SCRATCH/internal/$name" ;;
  esac
  cp "$d"/*.go "$dest"/ 2>/dev/null
done
fail=0
for d in "$VERIF"/harness/*/; do
  name=$(basename "$d")
  case "$name" in
    centrifuge) pkg="." ;;
    *) pkg="./internal/$name" ;;
  esac
  (cd "$SCRATCH" && $GO test -c -tags verif -vet=off -o "$OUT/$name.test" "$pkg") >&2 || fail=1
done
if [ $fail -ne 0 ]; then echo "build.sh: compile failed" >&2; rm -rf "$OUT"; exit 2; fi
touch "$OUT/ok"
# keep only the twelve newest builds (mutation trials build several trees side by side)
ls -1dt "$VERIF"/.build/*/ 2>/dev/null | tail -n +13 | xargs -r rm -rf
echo "$OUT"
