#!/usr/bin/env python3
"""Regenerates /verif/MANIFEST.json from engine/props.json (claimed checks) and the
not-applicable table below. Run after editing props.json."""
import json, os
root = os.path.dirname(os.path.dirname(os.path.abspath(__file__)))
import glob
props = json.load(open(os.path.join(root, "engine", "props.json")))
for f in sorted(glob.glob(os.path.join(root, "engine", "props.d", "*.json"))):
    props.update(json.load(open(f)))
ids = [json.loads(l)["id"] for l in open(os.path.join(root, "properties.jsonl")) if l.strip()]
NA = {
 "C15": "pure function of (filter tree, tag map): no schedule, clock, fault or interleaving for a simulator to decide",
 "C18": "needs the Redis broker's Lua scripts executed by a Redis server; the sandbox has neither Redis nor a Lua runtime, a Go re-implementation would verify a stub",
 "C23": "needs the Redis map broker's Lua scripts executed by a Redis server; not runnable in this sandbox",
 "C33": "decoding is a pure function of the payload bytes and the encoding half is Lua executed by Redis (not runnable here)",
 "C34": "pure function of channel-name strings and options (hash slot arithmetic); nothing concurrent, timed or faulty to simulate",
 "C35": "pure function over constant precomputed tables; nothing concurrent, timed or faulty to simulate",
 "C39": "MergePublications is a pure function of two lists; it is exercised with schedule-produced inputs by the C01 runs but the for-all-pairs claim is not a simulation result",
}
checks = []
for pid in ids:
    if pid not in props:
        continue
    p = props[pid]
    checks.append({
        "property_id": pid,
        "quick_cmd": "./check %s --tier quick" % pid,
        "thorough_cmd": "./check %s --tier thorough" % pid,
        "evidence_file": "evidence/%s.json" % pid,
        "replay_cmd_template": "./check %s --replay {path}" % pid,
        "engine": "simrt",
        "level_claimed": {"category": p.get("level", "exploration"), "text": p["level_text"], "design_ref": p.get("design_ref", "DESIGN.md §3")},
        "level_note": p["level_note"],
        "technique": p.get("technique", "deterministic simulation with fault injection: seeded search over schedules and faults of the real code in a testing/synctest bubble"),
    })
na = []
for pid in ids:
    if pid in props:
        continue
    na.append({"property_id": pid, "reason": NA.get(pid, "check not built yet in this session (planned, see DESIGN.md §3); not claimed")})
m = {
 "version": 1,
 "setup_cmd": "./setup.sh",
 "hooks": {
   "guard": "verif",
   "enable": "no hooks are committed to /repo: every check copies /repo's current working tree to a scratch directory, instruments the copy mechanically (engine/xform: sync/atomic/crypto-rand imports, go statements, map ranges, timer durations), overlays the harness files of /verif/harness as in-package test files with build tag 'verif' and compiles with `go test -c -tags verif`",
   "baseline_off_cmd": "cd /repo && go test -vet=off -count=1 -timeout 25m ./...",
   "source_commits": [],
   "add_only": True,
 },
 "engines": [
   {"name": "xform", "path": "engine/xform", "serves_properties": sorted(props), "kind_free_text": "source transformer producing the instrumented scratch copy"},
   {"name": "simrt", "path": "simrt", "serves_properties": sorted(props), "kind_free_text": "deterministic simulator runtime: seeded scheduler over testing/synctest, choice stream, replay, minimiser, determinism re-checks"},
   {"name": "worlds", "path": "harness", "serves_properties": sorted(props), "kind_free_text": "simulated worlds (actors, seams with fault injection, oracles) compiled into the packages under test"},
   {"name": "driver", "path": "engine/driver", "serves_properties": sorted(props), "kind_free_text": "./check: build, 16 worker processes, replay verification in a fresh process, evidence"},
 ],
 "checks": checks,
 "not_applicable": na,
 "notes": "All checks rebuild from /repo's working tree (hash-keyed cache in /verif/.build). Exit 2 = build/harness/determinism trouble, never a VIOLATION. known_findings.jsonl lists genuine defects recorded rather than repaired.",
}
json.dump(m, open(os.path.join(root, "MANIFEST.json"), "w"), indent=1)
print("MANIFEST.json: %d checks, %d not applicable" % (len(checks), len(na)))
