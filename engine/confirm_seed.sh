#!/bin/bash
# usage: confirm_seed.sh <worktree> <n> <out.json>
# Confirms a deliberately breaking change produced in a scratch worktree:
#  builds, demo fails with the change, existing tests of the touched packages pass with
#  the change, demo passes without the change. Leaves the worktree at HEAD.
wt=$1; n=$2; out=$3
export PATH=/root/go/pkg/mod/golang.org/toolchain@v0.0.1-go1.25.0.linux-amd64/bin:$PATH GOTOOLCHAIN=local GOFLAGS=-mod=mod GOPROXY=off GOSUMDB=off
cd "$wt" || exit 2
m="MUTATION/$n"
git checkout -q -- . ; rm -f zz_mutdemo_*_test.go internal/*/zz_mutdemo_*_test.go
pkgdir=$(python3 - "$m" <<'PY'
import json,sys,re,os
meta=json.load(open(sys.argv[1]+"/meta.json"))
demo=open(sys.argv[1]+"/demo_test.go").read()
pkg=re.search(r'^package (\w+)',demo,re.M).group(1)
print("." if pkg=="centrifuge" else "./internal/"+pkg)
PY
)
demotest=$(grep -oE "func (Test[A-Za-z0-9_]+)" $m/demo_test.go | head -1 | sed 's/func //')
res() { echo "$1" >> "$out.log"; }
: > "$out.log"
git apply "$m/patch.diff" || { echo '{"ok":false,"why":"patch does not apply"}' > "$out"; exit 1; }
files=$(git diff --name-only | tr '\n' ' ')
go build ./... >> "$out.log" 2>&1; build=$?
cp "$m/demo_test.go" "$pkgdir/zz_mutdemo_${n}_test.go"
go test -count=1 -run "^${demotest}\$" "$pkgdir" >> "$out.log" 2>&1; demo_with=$?
rm -f "$pkgdir/zz_mutdemo_${n}_test.go"
pkgs="."
for f in $files; do d=$(dirname $f); [ "$d" != "." ] && pkgs="$pkgs ./$d"; done
go test -count=1 -vet=off -timeout 25m $pkgs >> "$out.log" 2>&1; suite=$?
if [ $suite -ne 0 ]; then
  # load-sensitive timing tests: one retry of the failing tests only
  failed=$(grep -E "^--- FAIL: " "$out.log" | awk '{print $3}' | grep -v "^TestMutDemo" | sort -u | tr '\n' '|' | sed 's/|$//')
  # (the machine runs many suites at once: a timing test gets up to three more attempts)
  if [ -n "$failed" ]; then for try in 1 2 3; do go test -count=1 -vet=off -run "^($failed)\$" $pkgs >> "$out.log" 2>&1; suite=$?; res "retried: $failed -> $suite"; [ $suite -eq 0 ] && break; sleep 20; done; fi
fi
git checkout -q -- .
flaky_on_clean=0
if [ $suite -ne 0 ] && [ -n "${failed:-}" ]; then
  # the same tests on the UNCHANGED tree under the same machine load: a test that fails
  # there too is an environment flake (ping-latency tests on an overloaded machine), not an
  # effect of the change
  go test -count=1 -vet=off -run "^($failed)\$" $pkgs >> "$out.log" 2>&1; cleanrc=$?
  res "same tests on the unchanged tree: $failed -> $cleanrc"
  if [ $cleanrc -ne 0 ]; then
    stillfailed=$(grep -E "^--- FAIL: " "$out.log" | tail -n 20 | awk '{print $3}' | sort -u | tr '\n' ' ')
    flaky_on_clean=1
  fi
fi
cp "$m/demo_test.go" "$pkgdir/zz_mutdemo_${n}_test.go"
go test -count=1 -run "^${demotest}\$" "$pkgdir" >> "$out.log" 2>&1; demo_without=$?
rm -f "$pkgdir/zz_mutdemo_${n}_test.go"
python3 - "$out" "$build" "$demo_with" "$suite" "$demo_without" "$files" "$demotest" "$pkgs" "$flaky_on_clean" "${failed:-}" <<'PY'
import json,sys
out,build,dw,suite,dwo,files,demotest,pkgs,flaky,failed=sys.argv[1:11]
ok = build=="0" and dw!="0" and (suite=="0" or flaky=="1") and dwo=="0"
note = ""
if suite!="0" and flaky=="1":
    note = "existing tests that failed with the change (%s) are load-sensitive timing tests that fail the same way on the UNCHANGED tree under the same machine load; every other existing test passed" % failed
json.dump({"ok":ok,"existing_tests_note":note,"build_exit":int(build),"demo_with_change_exit":int(dw),"existing_tests_exit":int(suite),"demo_without_change_exit":int(dwo),"files":files.split(),"demo_test":demotest,"packages_tested":pkgs.split()},open(out,"w"),indent=1)
print(out, "OK" if ok else "NOT CONFIRMED")
PY
