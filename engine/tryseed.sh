#!/bin/bash
# usage: tryseed.sh <patch.diff> <budget_s> <prop> [prop...]
# Applies a deliberately breaking patch to /repo, runs the checks, reverts /repo.
patch=$1; budget=$2; shift 2
cd /repo || exit 2
if [ -n "$(git status --porcelain --untracked-files=no | grep -v '_examples/')" ]; then echo "tryseed: /repo has local changes" >&2; exit 2; fi
git apply "$patch" || { echo "tryseed: patch does not apply" >&2; exit 2; }
trap 'cd /repo && git checkout -- . >/dev/null 2>&1' EXIT
for p in "$@"; do
  out=$(/verif/check "$p" --budget "$budget" 2>&1); rc=$?
  echo "== $p exit=$rc"
  echo "$out" | grep -v "^KNOWN" | grep -E "^VIOLATION|clause=|^check |TROUBLE" | cut -c1-260 | head -8
done
