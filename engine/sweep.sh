#!/bin/bash
# usage: engine/sweep.sh "<seeds>" "<props|all>" [workers] [factor]
# Runs the quick tier's exact run-index range (quick_runs, times <factor>) of every property
# for every seed in triage mode (VERIF_COLLECT=1: keep exploring after a violation) with a
# wall budget large enough to reach the cap. One summary line per (property, seed).
# SWEEP_TIER=thorough with factor 5 sweeps exactly what the thorough tier executes.
ROOT=${VERIF_ROOT:-/verif}
seeds=$1; props=$2; workers=${3:-8}; factor=${4:-1}; tier=${SWEEP_TIER:-quick}
cd "$ROOT" || exit 2
if [ "$props" = all ]; then
  props=$(python3 -c "
import json,glob
d=json.load(open('engine/props.json'))
for f in sorted(glob.glob('engine/props.d/*.json')): d.update(json.load(open(f)))
print(' '.join(sorted(d)))")
fi
for p in $props; do
  qs=$(python3 -c "
import json,glob
d=json.load(open('engine/props.json'))
for f in sorted(glob.glob('engine/props.d/*.json')): d.update(json.load(open(f)))
print(d['$p'].get('quick_s',30))")
  runsarg=""
  if [ "$factor" != "1" ] && ! { [ "$tier" = thorough ] && [ "$factor" = 5 ]; }; then
    runs=$(python3 -c "
import json,glob
d=json.load(open('engine/props.json'))
for f in sorted(glob.glob('engine/props.d/*.json')): d.update(json.load(open(f)))
print(int(d['$p'].get('quick_runs',5000)*$factor))")
    runsarg="--runs $runs"
  fi
  for s in $seeds; do
    # (no --runs for factor 1 / thorough x5: exactly the tier's own ranges, per binary)
    out=$(VERIF_COLLECT=1 VERIF_SEED=$s ./check $p --tier $tier $runsarg --budget $((qs*8*factor)) --workers $workers 2>&1); rc=$?
    echo "== $p seed=$s tier=$tier exit=$rc $(echo "$out" | grep '^check ' | cut -c1-120)"
    echo "$out" | grep -E "^VIOLATION|^  clause=|TROUBLE|NOTE:" | cut -c1-400
  done
done
