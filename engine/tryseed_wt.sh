#!/bin/bash
# usage: tryseed_wt.sh <worktree> <n> <workers> <factor> <prop> [prop...]
# Applies MUTATION/<n>/patch.diff inside the scratch worktree (never /repo), runs the
# checks against that tree (VERIF_REPO) over the quick tier's run-index range times
# <factor>, reverts the worktree. Prints one line per property.
wt=$1; n=$2; workers=$3; factor=$4; shift 4
cd "$wt" || exit 2
git checkout -q -- . || exit 2
# always judge the change against the CURRENT tree of /repo (fix commits made since the
# worktree was created would otherwise show up as "caught")
git checkout -q --detach "$(git -C /repo rev-parse HEAD)" || exit 2
git apply "MUTATION/$n/patch.diff" || { echo "tryseed: patch does not apply" >&2; exit 2; }
trap 'cd "$wt" && git checkout -q -- .' EXIT
for p in "$@"; do
  cap=$(python3 -c "
import json,glob
d=json.load(open('${VERIF_ROOT:-/verif}/engine/props.json'))
for f in sorted(glob.glob('${VERIF_ROOT:-/verif}/engine/props.d/*.json')): d.update(json.load(open(f)))
print(int(d['$p'].get('quick_runs',5000)*$factor), d['$p'].get('quick_s',30))")
  set -- $cap "$@"; runs=$1; qs=$2; shift 2
  out=$(VERIF_REPO=$wt ${VERIF_ROOT:-/verif}/check "$p" --runs $runs --budget $((qs*6)) --workers $workers 2>&1); rc=$?
  echo "== $p exit=$rc runs<=$runs"
  echo "$out" | grep -v "^KNOWN" | grep -E "^VIOLATION|clause=|^check |TROUBLE" | cut -c1-300 | head -8
done
