#!/usr/bin/env python3
"""Assembles /verif/seeded/<id>/ from a confirmed mutation in a scratch worktree.
usage: mkseeded.py <worktree> <n> <confirm.json> <seed-id> <caught_by_json>
caught_by_json e.g. '{"C12": "clause=stuck, 20s budget"}' or '{}' when no check catches it."""
import json, os, shutil, sys
wt, n, conf, sid, caught = sys.argv[1:6]
conf = json.load(open(conf))
meta = json.load(open(os.path.join(wt, "MUTATION", n, "meta.json")))
d = os.path.join("/verif/seeded", sid)
os.makedirs(d, exist_ok=True)
shutil.copy(os.path.join(wt, "MUTATION", n, "patch.diff"), os.path.join(d, "patch.diff"))
shutil.copy(os.path.join(wt, "MUTATION", n, "demo_test.go"), os.path.join(d, "demo_test.go.txt"))
out = {
    "breaks_property": meta.get("property"),
    "summary": meta.get("summary"),
    "files": meta.get("files"),
    "needs_to_manifest": meta.get("needs"),
    "why_existing_tests_pass": meta.get("why_existing_tests_pass"),
    "demonstration": {"file": "demo_test.go.txt (copy into the package directory as zz_mutdemo_test.go)", "cmd": meta.get("demo_cmd")},
    "confirmed_by_me": {
        "how": "engine/confirm_seed.sh in the scratch worktree: git apply; go build ./...; demo test with the change; go test -count=1 of the root package and every touched internal package with the change; demo test without the change",
        **conf,
    },
    "checks_that_catch_it": json.loads(caught),
    "how_checked": "engine/tryseed.sh: git -C /repo apply patch.diff; ./check <id> --budget <s>; git -C /repo checkout -- .",
}
json.dump(out, open(os.path.join(d, "meta.json"), "w"), indent=1)
print("seeded/" + sid)
