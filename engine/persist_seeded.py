#!/usr/bin/env python3
"""Copies confirmed mutations from /tmp/mut/<prop>/MUTATION/<n> into /verif/seeded/<prop>-m<n>/
(patch.diff, demo_test.go.txt, meta.json). Catch results are merged from /verif/seeded/catch.json
(maintained by engine/record_catch.py)."""
import json, os, shutil, sys, glob
root = "/tmp/mut"
catch = {}
if os.path.exists("/verif/seeded/catch.json"):
    catch = json.load(open("/verif/seeded/catch.json"))
n_ok = 0
for conf in sorted(glob.glob(root + "/confirm-C*-*.json")):
    base = os.path.basename(conf)[len("confirm-"):-len(".json")]
    prop, n = base.split("-")
    c = json.load(open(conf))
    mdir = f"{root}/{prop}/MUTATION/{n}"
    if not c.get("ok") or not os.path.isdir(mdir):
        continue
    sid = f"{prop}-m{n}"
    d = f"/verif/seeded/{sid}"
    os.makedirs(d, exist_ok=True)
    shutil.copy(mdir + "/patch.diff", d + "/patch.diff")
    shutil.copy(mdir + "/demo_test.go", d + "/demo_test.go.txt")
    try:
        meta = json.load(open(mdir + "/meta.json"))
    except Exception as e:
        meta = {"property": prop, "summary": "(meta.json of the author did not parse: %s)" % e}
    out = {
        "id": sid,
        "breaks_property": meta.get("property", prop),
        "summary": meta.get("summary"),
        "files": meta.get("files"),
        "needs_to_manifest": meta.get("needs"),
        "why_existing_tests_pass": meta.get("why_existing_tests_pass"),
        "author": "independent sub-agent given only the property text and a scratch worktree of /repo",
        "demonstration": {"file": "demo_test.go.txt (copy into the package directory named in its package clause as zz_mutdemo_test.go)", "cmd": meta.get("demo_cmd")},
        "confirmed_by_me": dict(how="engine/confirm_seed.sh in a scratch worktree: git apply patch.diff; go build ./...; demo test with the change (must fail); go test -count=1 of the root package and every touched internal package with the change (must pass); demo test without the change (must pass)", **c),
        "checks_run_against_it": catch.get(sid, {}),
        "how_checked": "engine/tryseed_wt.sh: patch applied in a scratch worktree (never /repo), VERIF_REPO=<worktree> ./check <property> over the quick tier's run-index range of seed 1",
    }
    json.dump(out, open(d + "/meta.json", "w"), indent=1)
    n_ok += 1
print("persisted", n_ok)
