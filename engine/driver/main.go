// Command driver is ./check: it rebuilds the simulation binaries from /repo's current
// working tree, runs one OS process per core (each process runs many bubbles, one at a
// time, GOMAXPROCS(1)), verifies every reported replay file in a fresh process,
// aggregates the evidence file and prints VIOLATION / KNOWN-FINDING lines.
//
// exit 0: property held on everything explored (known findings are printed)
// exit 1: VIOLATION property=<id> replay=<path>
// exit 2: build, watchdog, determinism or harness trouble (never a VIOLATION)
package main

import (
	"bytes"
	"encoding/json"
	"fmt"
	"os"
	"os/exec"
	"path/filepath"
	"runtime"
	"sort"
	"strconv"
	"strings"
	"sync"
	"time"
)

type propInfo struct {
	Bin         string   `json:"bin"`
	ExtraBins   []string `json:"extra_bins"`
	QuickS      int      `json:"quick_s"`
	QuickRuns   int      `json:"quick_runs"`
	ExtraRuns   int      `json:"extra_bin_runs"` // run-index cap for each binary in extra_bins (quick tier; x5 in the thorough tier)
	ThoroughS   int      `json:"thorough_s"`
	Level       string   `json:"level"`
	Rule        string   `json:"rule"`
	Assumptions []string `json:"assumptions"`
	Real        []string `json:"real_components"`
	Stub        []string `json:"stubbed_components"`
}

type violation struct {
	Property  string `json:"property"`
	Clause    string `json:"clause"`
	Signature string `json:"signature"`
	Detail    string `json:"detail"`
	Replay    string `json:"replay"`
}

type workerOut struct {
	Runs           int               `json:"runs"`
	RunsByWorld    map[string]int    `json:"runs_by_world"`
	Steps          int64             `json:"steps"`
	Yields         int64             `json:"yields"`
	Preempts       int64             `json:"preempts"`
	SimSeconds     float64           `json:"sim_seconds"`
	WallSeconds    float64           `json:"wall_seconds"`
	Stalled        int               `json:"stalled"`
	OverStep       int               `json:"over_step"`
	Leaked         int               `json:"leaked"`
	Nontrivial     int               `json:"nontrivial"`
	Fingerprints   []string          `json:"fingerprints"`
	Probes         map[string]int    `json:"probes"`
	Faults         map[string]int    `json:"faults"`
	Samples        []json.RawMessage `json:"samples"`
	Violations     []violation       `json:"violations"`
	Known          map[string]int    `json:"known"`
	DetChecks      int               `json:"determinism_rechecks"`
	DetFailures    []string          `json:"determinism_failures"`
	Irreproducible []string          `json:"irreproducible_candidates"`
	Error          string            `json:"error"`
}

type knownFinding struct {
	Property  string `json:"property"`
	Clause    string `json:"clause"`
	Signature string `json:"signature"`
	What      string `json:"what"`
	Status    string `json:"status"`
}

var root = "/verif"

var runCap int // run-index cap of this invocation (0 = none)

func die(code int, format string, args ...any) {
	fmt.Fprintf(os.Stderr, format+"\n", args...)
	os.Exit(code)
}

func main() {
	if r := os.Getenv("VERIF_ROOT"); r != "" {
		root = r
	}
	args := os.Args[1:]
	if len(args) == 0 {
		die(2, "usage: check <property-id> [--tier quick|thorough] [--replay file] [--budget seconds] [--runs n | --nocap] [--workers n]")
	}
	prop := args[0]
	tier := os.Getenv("VERIF_TIER")
	replay := ""
	budget := 0
	maxRuns := 0
	explicitRuns := false
	noCap := false // --nocap: wall-clock budget only (development)
	workers := runtime.NumCPU()
	for i := 1; i < len(args); i++ {
		switch args[i] {
		case "--tier":
			i++
			tier = args[i]
		case "--replay":
			i++
			replay = args[i]
		case "--budget":
			i++
			budget, _ = strconv.Atoi(args[i])
		case "--runs":
			i++
			maxRuns, _ = strconv.Atoi(args[i])
			explicitRuns = true
		case "--nocap":
			noCap = true
		case "--workers":
			i++
			workers, _ = strconv.Atoi(args[i])
		}
	}
	if tier == "" {
		tier = "quick"
	}
	if tier != "quick" && tier != "thorough" {
		die(2, "unknown tier %q", tier)
	}
	seed := int64(1)
	if v := os.Getenv("VERIF_SEED"); v != "" {
		if n, err := strconv.ParseInt(v, 10, 64); err == nil {
			seed = n
		}
	}
	props := map[string]propInfo{}
	b, err := os.ReadFile(filepath.Join(root, "engine", "props.json"))
	if err != nil {
		die(2, "props.json: %v", err)
	}
	if err := json.Unmarshal(b, &props); err != nil {
		die(2, "props.json: %v", err)
	}
	// additional per-world property tables
	if extra, _ := filepath.Glob(filepath.Join(root, "engine", "props.d", "*.json")); len(extra) > 0 {
		sort.Strings(extra)
		for _, f := range extra {
			eb, err := os.ReadFile(f)
			if err != nil {
				die(2, "%s: %v", f, err)
			}
			more := map[string]propInfo{}
			if err := json.Unmarshal(eb, &more); err != nil {
				die(2, "%s: %v", f, err)
			}
			for k, v := range more {
				props[k] = v
			}
		}
	}
	if prop == "build" {
		dir := build()
		fmt.Println(dir)
		return
	}
	if prop == "selftest-determinism" {
		if maxRuns == 0 {
			maxRuns = 160
		}
		os.Exit(selftest(props, maxRuns))
	}
	info, ok := props[prop]
	if !ok {
		die(2, "property %s is not claimed (see MANIFEST.json not_applicable)", prop)
	}
	start := time.Now()
	dir := build()
	bin := filepath.Join(dir, info.Bin+".test")
	bins := []string{bin}
	for _, b := range info.ExtraBins {
		bins = append(bins, filepath.Join(dir, b+".test"))
	}
	if len(bins) > workers {
		workers = len(bins)
	}

	if replay != "" {
		rc := 0
		for _, b := range bins {
			rc = runReplay(b, prop, replay, true)
			if rc != 2 {
				break
			}
		}
		os.Exit(rc)
	}
	if !noCap && maxRuns == 0 && tier == "quick" {
		// quick tier = run indices [0, quick_runs) of the seed (fewer only if the wall-clock
		// budget expires first): the same executions on every machine, so a seed that was
		// swept quiet here cannot raise an alarm merely because another machine is faster
		maxRuns = info.QuickRuns
	}
	if !noCap && maxRuns == 0 && tier == "thorough" {
		// thorough tier = the same search over five times the quick range (tier-specific
		// generator settings such as longer scripts apply), again a fixed set of executions
		maxRuns = 5 * info.QuickRuns
	}
	if budget == 0 {
		budget = info.QuickS
		if tier == "thorough" {
			budget = info.ThoroughS
		}
		if v := os.Getenv("VERIF_BUDGET_S"); v != "" {
			budget, _ = strconv.Atoi(v)
		}
	}
	runCap = maxRuns
	tmp, err := os.MkdirTemp("", "verif-run-")
	if err != nil {
		die(2, "tmp: %v", err)
	}
	defer os.RemoveAll(tmp)
	replayDir := filepath.Join(root, "replays")
	_ = os.MkdirAll(replayDir, 0o755)

	type wres struct {
		out    *workerOut
		exit   int
		log    string
		stderr string
	}
	results := make([]wres, workers)
	var wg sync.WaitGroup
	for w := 0; w < workers; w++ {
		wg.Add(1)
		go func(w int) {
			defer wg.Done()
			outPath := filepath.Join(tmp, fmt.Sprintf("out-%d.json", w))
			progPath := filepath.Join(tmp, fmt.Sprintf("progress-%d", w))
			// a property may be decided in worlds of several packages: spread the workers
			wbin := bins[w%len(bins)]
			binWorkers := (workers - w%len(bins) + len(bins) - 1) / len(bins)
			cmd := exec.Command(wbin, "-test.run", "^TestVerif$", "-test.timeout", fmt.Sprintf("%ds", budget*3+300))
			cmd.Env = append(os.Environ(),
				"VERIF_PROP="+prop, "VERIF_TIER="+tier, fmt.Sprintf("VERIF_SEED=%d", seed),
				fmt.Sprintf("VERIF_WORKER=%d", w/len(bins)), fmt.Sprintf("VERIF_WORKERS=%d", binWorkers),
				fmt.Sprintf("VERIF_BUDGET_S=%d", budget), "VERIF_OUT="+outPath, "VERIF_PROGRESS="+progPath,
				"VERIF_REPLAY_DIR="+replayDir, "VERIF_KNOWN="+filepath.Join(root, "known_findings.jsonl"),
				"GOMAXPROCS=1", "VERIF_REPLAY=")
			if maxRuns > 0 {
				per := (maxRuns + len(bins) - 1) / len(bins)
				if info.ExtraRuns > 0 && len(bins) > 1 && !explicitRuns {
					// the primary binary gets the property's own range, every extra binary its own
					if w%len(bins) == 0 {
						per = maxRuns
					} else {
						per = info.ExtraRuns
						if tier == "thorough" {
							per *= 5
						}
					}
				}
				cmd.Env = append(cmd.Env, fmt.Sprintf("VERIF_MAX_RUNS=%d", per))
			}
			var so, se bytes.Buffer
			cmd.Stdout, cmd.Stderr = &so, &se
			done := make(chan error, 1)
			if err := cmd.Start(); err != nil {
				results[w] = wres{exit: -1, stderr: err.Error()}
				return
			}
			go func() { done <- cmd.Wait() }()
			var werr error
			select {
			case werr = <-done:
			case <-time.After(time.Duration(budget*3+360) * time.Second):
				_ = cmd.Process.Kill()
				werr = fmt.Errorf("watchdog: worker %d killed", w)
				<-done
			}
			r := wres{log: so.String(), stderr: se.String()}
			if werr != nil {
				r.exit = 1
				if ee, ok := werr.(*exec.ExitError); ok {
					r.exit = ee.ExitCode()
				} else {
					r.exit = -1
				}
			}
			if ob, err := os.ReadFile(outPath); err == nil {
				var o workerOut
				if json.Unmarshal(ob, &o) == nil {
					r.out = &o
				}
			}
			if pb, err := os.ReadFile(progPath); err == nil && r.exit != 0 {
				r.stderr += "\nlast progress: " + string(pb)
			}
			results[w] = r
		}(w)
	}
	wg.Wait()

	agg := workerOut{RunsByWorld: map[string]int{}, Probes: map[string]int{}, Faults: map[string]int{}, Known: map[string]int{}}
	fps := map[string]struct{}{}
	trouble := []string{}
	crashes := []string{}
	for w, r := range results {
		if r.out != nil {
			o := r.out
			agg.Runs += o.Runs
			agg.Steps += o.Steps
			agg.Yields += o.Yields
			agg.Preempts += o.Preempts
			agg.SimSeconds += o.SimSeconds
			agg.Stalled += o.Stalled
			agg.OverStep += o.OverStep
			agg.Leaked += o.Leaked
			agg.Nontrivial += o.Nontrivial
			agg.DetChecks += o.DetChecks
			agg.DetFailures = append(agg.DetFailures, o.DetFailures...)
			agg.Irreproducible = append(agg.Irreproducible, o.Irreproducible...)
			for k, v := range o.RunsByWorld {
				agg.RunsByWorld[k] += v
			}
			for k, v := range o.Probes {
				agg.Probes[k] += v
			}
			for k, v := range o.Faults {
				agg.Faults[k] += v
			}
			for k, v := range o.Known {
				agg.Known[k] += v
			}
			for _, f := range o.Fingerprints {
				fps[f] = struct{}{}
			}
			if len(agg.Samples) < 3 {
				agg.Samples = append(agg.Samples, o.Samples...)
			}
			agg.Violations = append(agg.Violations, o.Violations...)
			if o.Error != "" {
				trouble = append(trouble, fmt.Sprintf("worker %d: %s", w, o.Error))
			}
		}
		if r.exit != 0 {
			if isHarnessPanic(r.log + "\n" + r.stderr) {
				trouble = append(trouble, fmt.Sprintf("worker %d: panic inside the harness (not the code under test):\n%s\n%s", w, tail(r.log, 40), tail(r.stderr, 40)))
			} else if strings.Contains(r.stderr, "panic:") || strings.Contains(r.log, "panic:") || strings.Contains(r.stderr, "fatal error:") {
				crashes = append(crashes, fmt.Sprintf("worker %d crashed:\n%s\n%s", w, tail(r.log, 60), tail(r.stderr, 60)))
			} else {
				trouble = append(trouble, fmt.Sprintf("worker %d exit %d:\n%s\n%s", w, r.exit, tail(r.log, 30), tail(r.stderr, 30)))
			}
		} else if r.out == nil {
			trouble = append(trouble, fmt.Sprintf("worker %d produced no result file\n%s", w, tail(r.log, 30)))
		}
	}
	if len(agg.Samples) > 3 {
		agg.Samples = agg.Samples[:3]
	}
	wall := time.Since(start).Seconds()

	// verify every reported replay in a fresh process
	exit := 0
	var confirmed []violation
	seen := map[string]bool{}
	for _, v := range agg.Violations {
		key := v.Clause + "|" + v.Signature
		if seen[key] {
			continue
		}
		seen[key] = true
		rc := 0
		for _, b := range bins {
			if rc = runReplay(b, prop, v.Replay, false); rc != 2 {
				break
			}
		}
		if rc == 1 {
			confirmed = append(confirmed, v)
		} else {
			// not a violation: only a history that replays exactly is ever reported
			agg.Irreproducible = append(agg.Irreproducible, fmt.Sprintf("replay %s did not reproduce %s/%s in a fresh process", v.Replay, v.Clause, v.Signature))
			_ = os.Remove(v.Replay)
		}
	}
	// a crash of the code under test is a violation of the property whose run crashed
	// (its signature names the panic and the two innermost frames of the code under test, so
	// that a recorded crash is told from any other one)
	for i, c := range crashes {
		p := filepath.Join(replayDir, fmt.Sprintf("%s-%d-crash%d.txt", prop, seed, i))
		_ = os.WriteFile(p, []byte(c), 0o644)
		sig := crashSignature(c)
		listed := false
		for _, k := range loadKnown() {
			if k.Property == prop && k.Status != "fixed" && k.Clause == "panic" && sigMatches(k.Signature, sig) {
				if agg.Known == nil {
					agg.Known = map[string]int{}
				}
				agg.Known[k.Property+"|"+k.Clause+"|"+k.Signature]++
				listed = true
				fmt.Fprintf(os.Stderr, "NOTE: a worker process crashed with the recorded finding %q (%s); the runs it had executed and the rest of its share of the run-index range are not part of this batch\n", sig, p)
				break
			}
		}
		if !listed {
			confirmed = append(confirmed, violation{Property: prop, Clause: "panic", Signature: sig, Detail: firstLine(c), Replay: p})
		}
	}

	writeEvidence(prop, tier, seed, info, &agg, len(fps), wall, len(confirmed), workers, budget)

	// known findings
	for _, k := range loadKnown() {
		if k.Property != prop || k.Status == "fixed" {
			continue
		}
		key := k.Property + "|" + k.Clause + "|" + k.Signature
		fmt.Printf("KNOWN-FINDING: property=%s clause=%s signature=%q observed_in_runs=%d %s\n", prop, k.Clause, k.Signature, agg.Known[key], k.What)
	}
	for _, v := range confirmed {
		fmt.Printf("VIOLATION property=%s replay=%s\n", prop, v.Replay)
		fmt.Printf("  clause=%s signature=%q\n  %s\n", v.Clause, v.Signature, v.Detail)
		exit = 1
	}
	for _, n := range agg.Irreproducible {
		fmt.Fprintln(os.Stderr, "NOTE: candidate violation that did not replay (not reported):", n)
	}
	if len(agg.Irreproducible) > 5 {
		trouble = append(trouble, fmt.Sprintf("%d candidate violations did not replay: the simulation is not deterministic enough to be trusted", len(agg.Irreproducible)))
	}
	if len(agg.DetFailures) > 0 {
		trouble = append(trouble, "determinism re-check failed: "+strings.Join(agg.DetFailures, "; "))
	}
	fmt.Printf("check %s tier=%s seed=%d: %d runs (%d non-trivial, %d distinct), %d scheduler steps, %.0f simulated s, %d determinism re-checks, %.1fs wall, faults=%v\n",
		prop, tier, seed, agg.Runs, agg.Nontrivial, len(fps), agg.Steps, agg.SimSeconds, agg.DetChecks, wall, agg.Faults)
	if exit == 0 && len(trouble) > 0 {
		for _, t := range trouble {
			fmt.Fprintln(os.Stderr, "TROUBLE:", t)
		}
		os.Exit(2)
	}
	for _, t := range trouble {
		fmt.Fprintln(os.Stderr, "TROUBLE:", t)
	}
	if exit == 0 && agg.Runs == 0 {
		die(2, "no runs executed")
	}
	os.Exit(exit)
}

// isHarnessPanic reports whether the innermost non-runtime frame of the panicking
// goroutine is harness or simulator code (then the check is broken, not the property).
func isHarnessPanic(out string) bool {
	i := strings.Index(out, "panic:")
	if i < 0 {
		return false
	}
	lines := strings.Split(out[i:], "\n")
	for k, l := range lines {
		if !strings.HasPrefix(l, "\t") {
			continue
		}
		// file line of a frame; the function name is on the line before
		if k == 0 || strings.HasPrefix(lines[k-1], "panic(") || strings.Contains(l, "/runtime/") || strings.HasPrefix(lines[k-1], "runtime.") {
			continue
		}
		// the drop-in sync/atomic replacements panic on behalf of their caller
		// ("unlock of unlocked mutex" is a fatal error of the real sync.Mutex): the
		// frame that decides is the one that called them
		if strings.Contains(l, "/internal/simrt/simsync/") || strings.Contains(l, "/internal/simrt/simatomic/") {
			continue
		}
		return strings.Contains(l, "zz_verif_") || strings.Contains(l, "/internal/simrt/")
	}
	return false
}

// crashSignature: "<panic line> in <innermost frame of the code under test> <- <its caller>"
// (simulator drop-in frames skipped, arguments and the module path stripped).
func crashSignature(c string) string {
	msg := firstLine(c)
	if msg == "" {
		msg = "panic in code under test"
	}
	var frames []string
	lines := strings.Split(c, "\n")
	start := 0
	for i, l := range lines {
		if strings.HasPrefix(l, "goroutine ") && strings.Contains(l, "[running") {
			start = i + 1
			break
		}
	}
	for _, l := range lines[start:] {
		if l == "" && len(frames) > 0 {
			break
		}
		if strings.HasPrefix(l, "\t") || strings.HasPrefix(l, " ") || !strings.Contains(l, "(") {
			continue
		}
		if strings.Contains(l, "/internal/simrt/") || strings.HasPrefix(l, "panic(") || strings.HasPrefix(l, "runtime.") || strings.HasPrefix(l, "created by ") {
			continue
		}
		if j := strings.LastIndex(l, "("); j > 0 {
			l = l[:j]
		}
		l = strings.TrimPrefix(l, "github.com/centrifugal/centrifuge")
		frames = append(frames, strings.TrimPrefix(l, "/"))
		if len(frames) == 2 {
			break
		}
	}
	if len(frames) == 0 {
		return msg
	}
	return msg + " in " + strings.Join(frames, " <- ")
}

// sigMatches: a recorded signature may start and/or end with '*'.
func sigMatches(pat, sig string) bool {
	pre, suf := strings.HasPrefix(pat, "*"), strings.HasSuffix(pat, "*") && len(pat) > 1
	core := strings.TrimSuffix(strings.TrimPrefix(pat, "*"), "*")
	switch {
	case pre && suf:
		return strings.Contains(sig, core)
	case pre:
		return strings.HasSuffix(sig, core)
	case suf:
		return strings.HasPrefix(sig, core)
	}
	return pat == sig
}

func firstLine(s string) string {
	for _, l := range strings.Split(s, "\n") {
		if strings.Contains(l, "panic:") || strings.Contains(l, "fatal error:") {
			return strings.TrimSpace(l)
		}
	}
	return ""
}

func tail(s string, n int) string {
	lines := strings.Split(strings.TrimRight(s, "\n"), "\n")
	if len(lines) > n {
		lines = lines[len(lines)-n:]
	}
	return strings.Join(lines, "\n")
}

func build() string {
	cmd := exec.Command(filepath.Join(root, "engine", "build.sh"))
	cmd.Stderr = os.Stderr
	out, err := cmd.Output()
	if err != nil {
		die(2, "build of the simulation binaries failed: %v", err)
	}
	return strings.TrimSpace(string(out))
}

// runReplay returns 1 when the expected violation was reproduced, 0 when not, 2 on trouble.
func runReplay(bin, prop, path string, verbose bool) int {
	if strings.HasSuffix(path, ".txt") {
		b, _ := os.ReadFile(path)
		fmt.Println(string(b))
		return 1
	}
	cmd := exec.Command(bin, "-test.run", "^TestVerif$", "-test.timeout", "600s")
	cmd.Env = append(os.Environ(), "VERIF_PROP="+prop, "VERIF_REPLAY="+path, "GOMAXPROCS=1")
	out, err := cmd.CombinedOutput()
	if verbose {
		fmt.Print(string(out))
	}
	s := string(out)
	if strings.Contains(s, "REPLAY-REPRODUCED") {
		if verbose {
			fmt.Printf("VIOLATION property=%s replay=%s\n", prop, path)
		}
		return 1
	}
	if strings.Contains(s, "panic:") {
		if verbose {
			fmt.Printf("VIOLATION property=%s replay=%s\n", prop, path)
		}
		return 1
	}
	if err != nil && !strings.Contains(s, "REPLAY-NOT-REPRODUCED") {
		if !verbose {
			fmt.Fprint(os.Stderr, tail(s, 30))
		}
		return 2
	}
	return 0
}

func loadKnown() []knownFinding {
	var out []knownFinding
	b, err := os.ReadFile(filepath.Join(root, "known_findings.jsonl"))
	if err != nil {
		return nil
	}
	for _, line := range strings.Split(string(b), "\n") {
		line = strings.TrimSpace(line)
		if line == "" || strings.HasPrefix(line, "#") {
			continue
		}
		var k knownFinding
		if json.Unmarshal([]byte(line), &k) == nil {
			out = append(out, k)
		}
	}
	return out
}

func writeEvidence(prop, tier string, seed int64, info propInfo, agg *workerOut, distinct int, wall float64, nviol, workers, budget int) {
	level := info.Level
	if level == "" {
		level = "exploration"
	}
	samples := []any{}
	for _, s := range agg.Samples {
		samples = append(samples, s)
	}
	if len(samples) == 0 {
		samples = append(samples, "no non-trivial run in this batch")
	}
	probeNames := make([]string, 0, len(agg.Probes))
	for k := range agg.Probes {
		probeNames = append(probeNames, k)
	}
	sort.Strings(probeNames)
	zero := []string{}
	_ = zero
	hours := wall / 3600
	if hours <= 0 {
		hours = 1e-9
	}
	cov := map[string]any{
		"evaluations":                 agg.Runs,
		"distinct_nontrivial":         distinct,
		"rule":                        info.Rule,
		"samples":                     samples,
		"runs_by_world":               agg.RunsByWorld,
		"nontrivial_runs":             agg.Nontrivial,
		"scheduler_decisions":         agg.Steps,
		"yield_points":                agg.Yields,
		"preemptions":                 agg.Preempts,
		"simulated_seconds":           agg.SimSeconds,
		"runs_per_hour":               float64(agg.Runs) / hours,
		"fault_kinds_fired":           agg.Faults,
		"probes_hit":                  agg.Probes,
		"runs_stalled":                agg.Stalled,
		"runs_over_step_budget":       agg.OverStep,
		"runs_with_leaked_goroutines": agg.Leaked,
		"determinism_rechecks":        agg.DetChecks,
		"determinism_failures":        len(agg.DetFailures),
		"irreproducible_candidates":   len(agg.Irreproducible),
		"known_findings_observed":     agg.Known,
		"worker_processes":            workers,
		"budget_seconds_per_worker":   budget,
		"run_index_cap":               runCap,
		"real_components":             info.Real,
		"stubbed_components":          info.Stub,
		"exhaustive":                  false,
	}
	ev := map[string]any{
		"property_id": prop,
		"tier":        tier,
		"seed":        seed,
		"level":       level,
		"coverage":    cov,
		"assumptions": info.Assumptions,
		"wall_s":      wall,
		"violations":  nviol,
	}
	b, _ := json.MarshalIndent(ev, "", " ")
	_ = os.MkdirAll(filepath.Join(root, "evidence"), 0o755)
	if err := os.WriteFile(filepath.Join(root, "evidence", prop+".json"), b, 0o644); err != nil {
		fmt.Fprintln(os.Stderr, "evidence:", err)
	}
}

// selftest executes run indices [0, n) of every claimed property three times in
// differently shaped sets of OS processes - one process running them all in sequence;
// 16 processes (each run then follows a different predecessor in its process, which
// exposes state leaking from run to run); 5 processes started with GOMAXPROCS=4 in the
// environment (the process pins 1) - all under full machine load, and compares the
// event-log hash of every run. Any difference is exit 2 with the diverging runs listed.
func selftest(props map[string]propInfo, n int) int {
	dir := build()
	ids := make([]string, 0, len(props))
	for id := range props {
		ids = append(ids, id)
	}
	sort.Strings(ids)
	tmp, err := os.MkdirTemp("", "verif-selftest-")
	if err != nil {
		die(2, "tmp: %v", err)
	}
	defer os.RemoveAll(tmp)
	type shape struct {
		name    string
		workers int
		gmp     string
	}
	shapes := []shape{{"1proc", 1, "1"}, {"16proc", 16, "16"}, {"5proc-gomaxprocs4", 5, "4"}}
	type job struct {
		id    string
		bin   string
		sh    int
		w     int
		nbins int
		path  string
	}
	var jobs []job
	for _, id := range ids {
		info := props[id]
		bins := append([]string{info.Bin}, info.ExtraBins...)
		for bi, b := range bins {
			for si, sh := range shapes {
				for w := 0; w < sh.workers; w++ {
					jobs = append(jobs, job{id: id, bin: filepath.Join(dir, b+".test"), sh: si, w: w, nbins: len(bins),
						path: filepath.Join(tmp, fmt.Sprintf("%s-%d-%d-%d", id, bi, si, w))})
				}
			}
		}
	}
	sem := make(chan struct{}, runtime.NumCPU())
	var wg sync.WaitGroup
	var mu sync.Mutex
	var trouble []string
	for _, j := range jobs {
		wg.Add(1)
		sem <- struct{}{}
		go func(j job) {
			defer wg.Done()
			defer func() { <-sem }()
			sh := shapes[j.sh]
			cmd := exec.Command(j.bin, "-test.run", "^TestVerif$", "-test.timeout", "1800s")
			cmd.Env = append(os.Environ(), "VERIF_PROP="+j.id, "VERIF_TIER=quick", "VERIF_SEED=1",
				fmt.Sprintf("VERIF_WORKER=%d", j.w), fmt.Sprintf("VERIF_WORKERS=%d", sh.workers),
				"VERIF_BUDGET_S=1500", fmt.Sprintf("VERIF_MAX_RUNS=%d", n), "VERIF_HASHLOG="+j.path,
				"VERIF_COLLECT=1", "VERIF_REPLAY_DIR="+tmp, "VERIF_KNOWN="+filepath.Join(root, "known_findings.jsonl"),
				"VERIF_MIN_BUDGET_S=1", "GOMAXPROCS="+sh.gmp, "VERIF_REPLAY=", "VERIF_OUT=")
			if out, err := cmd.CombinedOutput(); err != nil {
				mu.Lock()
				trouble = append(trouble, fmt.Sprintf("%s shape %s worker %d: %v\n%s", j.id, sh.name, j.w, err, tail(string(out), 15)))
				mu.Unlock()
			}
		}(j)
	}
	wg.Wait()
	total, bad := 0, 0
	for _, id := range ids {
		info := props[id]
		nb := 1 + len(info.ExtraBins)
		for bi := 0; bi < nb; bi++ {
			var maps []map[string]string
			for si, sh := range shapes {
				m := map[string]string{}
				for w := 0; w < sh.workers; w++ {
					b, _ := os.ReadFile(filepath.Join(tmp, fmt.Sprintf("%s-%d-%d-%d", id, bi, si, w)))
					for _, l := range strings.Split(string(b), "\n") {
						f := strings.SplitN(l, " ", 2)
						if len(f) == 2 {
							m[f[0]] = f[1]
						}
					}
				}
				maps = append(maps, m)
			}
			if len(maps[0]) < n {
				trouble = append(trouble, fmt.Sprintf("%s: only %d of %d runs recorded", id, len(maps[0]), n))
			}
			for k, v := range maps[0] {
				total++
				for si := 1; si < len(maps); si++ {
					if maps[si][k] != v {
						bad++
						if bad <= 20 {
							trouble = append(trouble, fmt.Sprintf("%s run %s: %s gives %q, %s gives %q", id, k, shapes[0].name, v, shapes[si].name, maps[si][k]))
						}
					}
				}
			}
		}
	}
	fmt.Printf("selftest-determinism: %d properties, %d runs each executed in %d process shapes, %d diverging\n", len(ids), total, len(shapes), bad)
	if len(trouble) > 0 {
		for _, t := range trouble {
			fmt.Fprintln(os.Stderr, "TROUBLE:", t)
		}
		return 2
	}
	return 0
}
