// Command xform mechanically instruments a scratch copy of centrifuge for the
// deterministic simulator:
//
//   - import "sync"        -> sync   ".../internal/simrt/simsync"
//   - import "sync/atomic" -> atomic ".../internal/simrt/simatomic"
//   - import "crypto/rand" -> rand   ".../internal/simrt/simcrand"
//   - `go f(x)`            -> `go f(x); simrt.Spawned()`
//   - `range m` (m a map)  -> `range simrt.MapOrder(m)`
//   - time.AfterFunc(d, f), time.NewTimer(d), time.After(d), (*time.Timer).Reset(d)
//     -> d wrapped in simrt.D (non-positive durations become 1ns)
//
// All edits are textual at positions taken from the type-checked AST, so comments,
// build constraints and go:embed directives are untouched. Test files are not
// transformed (the scratch copy contains none of the repository's tests).
package main

import (
	"flag"
	"fmt"
	"go/ast"
	"go/token"
	"go/types"
	"os"
	"sort"
	"strconv"
	"strings"

	"golang.org/x/tools/go/packages"
)

const modPath = "github.com/centrifugal/centrifuge"

type edit struct {
	off  int
	del  int
	text string
}

func main() {
	dir := flag.String("dir", "", "scratch copy root")
	flag.Parse()
	if *dir == "" {
		fmt.Fprintln(os.Stderr, "usage: xform -dir <copy>")
		os.Exit(2)
	}
	cfg := &packages.Config{
		Mode: packages.NeedName | packages.NeedFiles | packages.NeedSyntax | packages.NeedTypes | packages.NeedTypesInfo | packages.NeedImports | packages.NeedDeps,
		Dir:  *dir,
		Env:  append(os.Environ(), "GOFLAGS=-mod=mod", "GOPROXY=off", "GOSUMDB=off"),
	}
	pkgs, err := packages.Load(cfg, "./...")
	if err != nil {
		fmt.Fprintln(os.Stderr, "xform: load:", err)
		os.Exit(2)
	}
	bad := false
	for _, p := range pkgs {
		for _, e := range p.Errors {
			fmt.Fprintln(os.Stderr, "xform: package error:", e)
			bad = true
		}
	}
	if bad {
		os.Exit(2)
	}
	var nGo, nRange, nImp, nTimer int
	for _, p := range pkgs {
		if strings.HasPrefix(p.PkgPath, modPath+"/internal/simrt") {
			continue
		}
		for _, f := range p.Syntax {
			name := p.Fset.Position(f.Pos()).Filename
			src, err := os.ReadFile(name)
			if err != nil {
				fmt.Fprintln(os.Stderr, err)
				os.Exit(2)
			}
			var edits []edit
			needRT := false
			off := func(pos token.Pos) int { return p.Fset.Position(pos).Offset }
			for _, imp := range f.Imports {
				path, _ := strconv.Unquote(imp.Path.Value)
				var repl, defName string
				switch path {
				case "sync":
					repl, defName = modPath+"/internal/simrt/simsync", "sync"
				case "sync/atomic":
					repl, defName = modPath+"/internal/simrt/simatomic", "atomic"
				case "crypto/rand":
					repl, defName = modPath+"/internal/simrt/simcrand", "rand"
				default:
					continue
				}
				nImp++
				text := strconv.Quote(repl)
				if imp.Name == nil {
					text = defName + " " + text
				}
				edits = append(edits, edit{off(imp.Path.Pos()), len(imp.Path.Value), text})
			}
			ast.Inspect(f, func(n ast.Node) bool {
				switch st := n.(type) {
				case *ast.GoStmt:
					nGo++
					needRT = true
					edits = append(edits, edit{off(st.End()), 0, "; simrt.Spawned()"})
				case *ast.CallExpr:
					// time.AfterFunc(d, f) / (*time.Timer).Reset(d): wrap d with simrt.D
					if sel, ok := st.Fun.(*ast.SelectorExpr); ok && len(st.Args) >= 1 {
						wrap := false
						if sel.Sel.Name == "AfterFunc" || sel.Sel.Name == "NewTimer" || sel.Sel.Name == "After" {
							if id, ok := sel.X.(*ast.Ident); ok {
								if pn, ok := p.TypesInfo.Uses[id].(*types.PkgName); ok && pn.Imported().Path() == "time" {
									wrap = true
								}
							}
						} else if sel.Sel.Name == "Reset" {
							if tv, ok := p.TypesInfo.Types[sel.X]; ok && tv.Type != nil {
								ts := tv.Type.String()
								if ts == "*time.Timer" || ts == "time.Timer" {
									wrap = true
								}
							}
						}
						if wrap && sel.Sel.Name == "AfterFunc" {
							// time.AfterFunc -> simrt.AfterFunc (logical identity for the callback goroutine)
							nTimer++
							needRT = true
							edits = append(edits, edit{off(sel.X.Pos()), int(sel.X.End() - sel.X.Pos()), "simrt"})
						} else if wrap {
							nTimer++
							needRT = true
							edits = append(edits, edit{off(st.Args[0].Pos()), 0, "simrt.D("})
							edits = append(edits, edit{off(st.Args[0].End()), 0, ")"})
						}
					}
				case *ast.RangeStmt:
					tv, ok := p.TypesInfo.Types[st.X]
					if !ok || tv.Type == nil {
						return true
					}
					if _, isMap := tv.Type.Underlying().(*types.Map); !isMap {
						if tp, ok := tv.Type.(*types.TypeParam); ok {
							_ = tp
						}
						return true
					}
					nRange++
					needRT = true
					edits = append(edits, edit{off(st.X.Pos()), 0, "simrt.MapOrder("})
					edits = append(edits, edit{off(st.X.End()), 0, ")"})
				}
				return true
			})
			if needRT {
				edits = append(edits, edit{off(f.Name.End()), 0, "\n\nimport simrt \"" + modPath + "/internal/simrt\"\n"})
			}
			if len(edits) == 0 {
				continue
			}
			sort.SliceStable(edits, func(i, j int) bool { return edits[i].off > edits[j].off })
			out := src
			for _, e := range edits {
				out = append(out[:e.off:e.off], append([]byte(e.text), out[e.off+e.del:]...)...)
			}
			if err := os.WriteFile(name, out, 0o644); err != nil {
				fmt.Fprintln(os.Stderr, err)
				os.Exit(2)
			}
		}
	}
	fmt.Printf("xform: %d imports, %d go statements, %d map ranges, %d timer durations rewritten\n", nImp, nGo, nRange, nTimer)
}
