// Command xform mechanically instruments a scratch copy of centrifuge for the
// deterministic simulator:
//
//   - import "sync"        -> sync   ".../internal/simrt/simsync"
//   - import "sync/atomic" -> atomic ".../internal/simrt/simatomic"
//   - import "crypto/rand" -> rand   ".../internal/simrt/simcrand"
//   - `go f(x)`            -> `go f(x); simrt.Spawned()`
//   - `range m` (m a map)  -> `range simrt.MapOrder(m)`
//   - time.AfterFunc(d, f), time.NewTimer(d), time.After(d), (*time.Timer).Reset(d)
//     -> d wrapped in simrt.D (non-positive durations become 1ns)
//
// All edits are textual at positions taken from the type-checked AST, so comments,
// build constraints and go:embed directives are untouched. Test files are not
// transformed (the scratch copy contains none of the repository's tests).
package main

import (
	"flag"
	"fmt"
	"go/ast"
	"go/parser"
	"go/token"
	"go/types"
	"os"
	"sort"
	"strconv"
	"strings"

	"golang.org/x/tools/go/packages"
)

const modPath = "github.com/centrifugal/centrifuge"

type edit struct {
	off  int
	del  int
	text string
}

func main() {
	dir := flag.String("dir", "", "scratch copy root")
	detSelect := flag.Bool("select", os.Getenv("VERIF_XFORM_SELECT") != "0", "rewrite multi-case select statements so that the simulator decides among ready cases")
	flag.Parse()
	if *dir == "" {
		fmt.Fprintln(os.Stderr, "usage: xform -dir <copy>")
		os.Exit(2)
	}
	cfg := &packages.Config{
		Mode: packages.NeedName | packages.NeedFiles | packages.NeedSyntax | packages.NeedTypes | packages.NeedTypesInfo | packages.NeedImports | packages.NeedDeps,
		Dir:  *dir,
		Env:  append(os.Environ(), "GOFLAGS=-mod=mod", "GOPROXY=off", "GOSUMDB=off"),
	}
	pkgs, err := packages.Load(cfg, "./...")
	if err != nil {
		fmt.Fprintln(os.Stderr, "xform: load:", err)
		os.Exit(2)
	}
	bad := false
	for _, p := range pkgs {
		for _, e := range p.Errors {
			fmt.Fprintln(os.Stderr, "xform: package error:", e)
			bad = true
		}
	}
	if bad {
		os.Exit(2)
	}
	var nGo, nRange, nImp, nTimer int
	for _, p := range pkgs {
		if strings.HasPrefix(p.PkgPath, modPath+"/internal/simrt") {
			continue
		}
		for _, f := range p.Syntax {
			name := p.Fset.Position(f.Pos()).Filename
			src, err := os.ReadFile(name)
			if err != nil {
				fmt.Fprintln(os.Stderr, err)
				os.Exit(2)
			}
			var edits []edit
			needRT := false
			off := func(pos token.Pos) int { return p.Fset.Position(pos).Offset }
			for _, imp := range f.Imports {
				path, _ := strconv.Unquote(imp.Path.Value)
				var repl, defName string
				switch path {
				case "sync":
					repl, defName = modPath+"/internal/simrt/simsync", "sync"
				case "sync/atomic":
					repl, defName = modPath+"/internal/simrt/simatomic", "atomic"
				case "crypto/rand":
					repl, defName = modPath+"/internal/simrt/simcrand", "rand"
				default:
					continue
				}
				nImp++
				text := strconv.Quote(repl)
				if imp.Name == nil {
					text = defName + " " + text
				}
				edits = append(edits, edit{off(imp.Path.Pos()), len(imp.Path.Value), text})
			}
			ast.Inspect(f, func(n ast.Node) bool {
				switch st := n.(type) {
				case *ast.GoStmt:
					nGo++
					needRT = true
					edits = append(edits, edit{off(st.End()), 0, "; simrt.Spawned()"})
				case *ast.CallExpr:
					// time.AfterFunc(d, f) / (*time.Timer).Reset(d): wrap d with simrt.D
					if sel, ok := st.Fun.(*ast.SelectorExpr); ok && len(st.Args) >= 1 {
						wrap := false
						if sel.Sel.Name == "AfterFunc" || sel.Sel.Name == "NewTimer" || sel.Sel.Name == "After" {
							if id, ok := sel.X.(*ast.Ident); ok {
								if pn, ok := p.TypesInfo.Uses[id].(*types.PkgName); ok && pn.Imported().Path() == "time" {
									wrap = true
								}
							}
						} else if sel.Sel.Name == "Reset" {
							if tv, ok := p.TypesInfo.Types[sel.X]; ok && tv.Type != nil {
								ts := tv.Type.String()
								if ts == "*time.Timer" || ts == "time.Timer" {
									wrap = true
								}
							}
						}
						if wrap && sel.Sel.Name == "AfterFunc" {
							// time.AfterFunc -> simrt.AfterFunc (logical identity for the callback goroutine)
							nTimer++
							needRT = true
							edits = append(edits, edit{off(sel.X.Pos()), int(sel.X.End() - sel.X.Pos()), "simrt"})
						} else if wrap {
							nTimer++
							needRT = true
							edits = append(edits, edit{off(st.Args[0].Pos()), 0, "simrt.D("})
							edits = append(edits, edit{off(st.Args[0].End()), 0, ")"})
						}
					}
				case *ast.RangeStmt:
					tv, ok := p.TypesInfo.Types[st.X]
					if !ok || tv.Type == nil {
						return true
					}
					if _, isMap := tv.Type.Underlying().(*types.Map); !isMap {
						if tp, ok := tv.Type.(*types.TypeParam); ok {
							_ = tp
						}
						return true
					}
					nRange++
					needRT = true
					edits = append(edits, edit{off(st.X.Pos()), 0, "simrt.MapOrder("})
					edits = append(edits, edit{off(st.X.End()), 0, ")"})
				}
				return true
			})
			if needRT {
				edits = append(edits, edit{off(f.Name.End()), 0, "\n\nimport simrt \"" + modPath + "/internal/simrt\"\n"})
			}
			if len(edits) == 0 {
				continue
			}
			sort.SliceStable(edits, func(i, j int) bool { return edits[i].off > edits[j].off })
			out := src
			for _, e := range edits {
				out = append(out[:e.off:e.off], append([]byte(e.text), out[e.off+e.del:]...)...)
			}
			if err := os.WriteFile(name, out, 0o644); err != nil {
				fmt.Fprintln(os.Stderr, err)
				os.Exit(2)
			}
		}
	}
	nSel := 0
	if *detSelect {
		for _, p := range pkgs {
			if strings.HasPrefix(p.PkgPath, modPath+"/internal/simrt") {
				continue
			}
			for _, name := range p.GoFiles {
				n, err := rewriteSelects(name)
				if err != nil {
					fmt.Fprintln(os.Stderr, "xform: select pass:", name, err)
					os.Exit(2)
				}
				nSel += n
			}
		}
	}
	fmt.Printf("xform: %d imports, %d go statements, %d map ranges, %d timer durations, %d selects rewritten\n", nImp, nGo, nRange, nTimer, nSel)
}

// rewriteSelects is a purely syntactic second pass over an already transformed file.
// Go picks at random among the ready cases of a select; the simulator cannot replay
// that. Every select with two or more communication clauses
//
//	select {
//	case <-a:          A
//	case v, ok := <-b: B
//	case c <- x:       C
//	[default:          D]
//	}
//
// becomes
//
//	{
//		simrtSelN := -1
//		simrtSelNc0 := a; simrtSelNc1 := b                      // channel operands and send values are
//		simrtSelNc2 := c; simrtSelNx2 := simrt.SendVal(simrtSelNc2, x) // evaluated once, in source order
//		var simrtSelNv1 = simrt.ElemZero(simrtSelNc1); var simrtSelNk1 bool
//		for simrtSelNi, simrtSelNs := 0, simrt.SelStart(3); simrtSelNi < 3 && simrtSelN < 0; simrtSelNi++ {
//			switch (simrtSelNs + simrtSelNi) % 3 {            // non-blocking probes in rotated order
//			case 0: select { case <-simrtSelNc0: simrtSelN = 0; default: }
//			case 1: select { case simrtSelNv1, simrtSelNk1 = <-simrtSelNc1: simrtSelN = 1; default: }
//			case 2: select { case simrtSelNc2 <- simrtSelNx2: simrtSelN = 2; default: }
//			}
//		}
//		if simrtSelN < 0 { select { ...all cases, blocking... } }   // omitted when there is a default
//		switch simrtSelN {
//		case 0: A
//		case 1: v, ok := simrtSelNv1, simrtSelNk1; B
//		case 2: C
//		[default: D]
//		}
//	}
//
// The rotation start is drawn from the run's choice stream when the caller holds the run
// token (0 on replay default = source order; source order also when it does not). When nothing is ready the goroutine blocks in one select over all cases: the
// first channel that becomes ready completes it, which is deterministic.
func rewriteSelects(name string) (int, error) {
	src, err := os.ReadFile(name)
	if err != nil {
		return 0, err
	}
	fset := token.NewFileSet()
	f, err := parser.ParseFile(fset, name, src, parser.ParseComments)
	if err != nil {
		return 0, err
	}
	off := func(pos token.Pos) int { return fset.Position(pos).Offset }
	text := func(n ast.Node) string { return string(src[off(n.Pos()):off(n.End())]) }
	labeled := map[*ast.SelectStmt]bool{}
	ast.Inspect(f, func(n ast.Node) bool {
		if ls, ok := n.(*ast.LabeledStmt); ok {
			if st, ok := ls.Stmt.(*ast.SelectStmt); ok {
				labeled[st] = true
			}
		}
		return true
	})
	var edits []edit
	count := 0
	ast.Inspect(f, func(n ast.Node) bool {
		st, ok := n.(*ast.SelectStmt)
		if !ok || labeled[st] {
			return true
		}
		type clause struct {
			cc      *ast.CommClause
			kind    int // 0 recv without assignment, 1 recv with assignment, 2 send
			ch      string
			val     string
			lhs     []string
			define  bool
		}
		var cls []clause
		hasDefault := false
		okAll := true
		for _, c := range st.Body.List {
			cc := c.(*ast.CommClause)
			if cc.Comm == nil {
				hasDefault = true
				continue
			}
			cl := clause{cc: cc}
			recvChan := func(e ast.Expr) (string, bool) {
				for {
					if pe, ok := e.(*ast.ParenExpr); ok {
						e = pe.X
						continue
					}
					break
				}
				ue, ok := e.(*ast.UnaryExpr)
				if !ok || ue.Op != token.ARROW {
					return "", false
				}
				return text(ue.X), true
			}
			switch cm := cc.Comm.(type) {
			case *ast.ExprStmt:
				ch, ok := recvChan(cm.X)
				if !ok {
					okAll = false
				}
				cl.kind, cl.ch = 0, ch
			case *ast.AssignStmt:
				if len(cm.Rhs) != 1 {
					okAll = false
					break
				}
				ch, ok := recvChan(cm.Rhs[0])
				if !ok {
					okAll = false
				}
				cl.kind, cl.ch = 1, ch
				cl.define = cm.Tok == token.DEFINE
				for _, l := range cm.Lhs {
					cl.lhs = append(cl.lhs, text(l))
				}
			case *ast.SendStmt:
				cl.kind, cl.ch, cl.val = 2, text(cm.Chan), text(cm.Value)
			default:
				okAll = false
			}
			cls = append(cls, cl)
		}
		if !okAll || len(cls) < 2 {
			return true
		}
		count++
		id := fmt.Sprintf("simrtSel%d", off(st.Pos()))
		var b strings.Builder
		fmt.Fprintf(&b, "{ %s := -1; ", id)
		for i, cl := range cls {
			fmt.Fprintf(&b, "%sc%d := %s; ", id, i, cl.ch)
			if cl.kind == 2 {
				fmt.Fprintf(&b, "%sx%d := simrt.SendVal(%sc%d, %s); ", id, i, id, i, cl.val)
			}
		}
		for i, cl := range cls {
			if cl.kind == 1 {
				fmt.Fprintf(&b, "var %sv%d = simrt.ElemZero(%sc%d); var %sk%d bool; _ = %sk%d; ", id, i, id, i, id, i, id, i)
			}
		}
		header := func(i int, cl clause) string {
			switch cl.kind {
			case 0:
				return fmt.Sprintf("case <-%sc%d: %s = %d", id, i, id, i)
			case 1:
				return fmt.Sprintf("case %sv%d, %sk%d = <-%sc%d: %s = %d", id, i, id, i, id, i, id, i)
			default:
				return fmt.Sprintf("case %sc%d <- %sx%d: %s = %d", id, i, id, i, id, i)
			}
		}
		nc := len(cls)
		fmt.Fprintf(&b, "for %si, %ss := 0, simrt.SelStart(%d); %si < %d && %s < 0; %si++ { switch (%ss + %si) %% %d { ", id, id, nc, id, nc, id, id, id, id, nc)
		for i, cl := range cls {
			fmt.Fprintf(&b, "case %d: select { %s; default: }; ", i, header(i, cl))
		}
		b.WriteString("} }; ")
		if !hasDefault {
			fmt.Fprintf(&b, "if %s < 0 { select { ", id)
			for i, cl := range cls {
				b.WriteString(header(i, cl))
				b.WriteString("; ")
			}
			b.WriteString("} }; ")
		}
		fmt.Fprintf(&b, "switch %s {", id)
		edits = append(edits, edit{off(st.Pos()), off(st.Body.Lbrace) + 1 - off(st.Pos()), b.String()})
		i := 0
		for _, c := range st.Body.List {
			cc := c.(*ast.CommClause)
			if cc.Comm == nil {
				continue // "default:" stays
			}
			cl := cls[i]
			h := fmt.Sprintf("case %d:", i)
			if cl.kind == 1 {
				op := "="
				if cl.define {
					op = ":="
				}
				if len(cl.lhs) == 1 {
					h += fmt.Sprintf(" %s %s %sv%d;", cl.lhs[0], op, id, i)
				} else {
					h += fmt.Sprintf(" %s, %s %s %sv%d, %sk%d;", cl.lhs[0], cl.lhs[1], op, id, i, id, i)
				}
			}
			edits = append(edits, edit{off(cc.Pos()), off(cc.Colon) + 1 - off(cc.Pos()), h})
			i++
		}
		edits = append(edits, edit{off(st.End()), 0, " }"})
		return true
	})
	if count == 0 {
		return 0, nil
	}
	hasRT := false
	for _, imp := range f.Imports {
		if imp.Name != nil && imp.Name.Name == "simrt" {
			hasRT = true
		}
	}
	if !hasRT {
		edits = append(edits, edit{off(f.Name.End()), 0, "\n\nimport simrt \"" + modPath + "/internal/simrt\"\n"})
	}
	sort.SliceStable(edits, func(i, j int) bool { return edits[i].off > edits[j].off })
	out := src
	for _, e := range edits {
		out = append(out[:e.off:e.off], append([]byte(e.text), out[e.off+e.del:]...)...)
	}
	return count, os.WriteFile(name, out, 0o644)
}

