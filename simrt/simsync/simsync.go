// Package simsync is a drop-in for the parts of package sync that centrifuge uses.
// Mutex, RWMutex, Once and Pool are re-implemented so that (a) every operation is a
// scheduling point of the simulator and (b) blocking is channel based, i.e. durable
// for testing/synctest. WaitGroup, Cond and Map are the real ones (already durable).
package simsync

import (
	"sync"

	simrt "github.com/centrifugal/centrifuge/internal/simrt"
)

type (
	WaitGroup = sync.WaitGroup
	Cond      = sync.Cond
	Map       = sync.Map
	Locker    = sync.Locker
)

func NewCond(l Locker) *Cond { return sync.NewCond(l) }

// Mutex: Lock yields, then takes the lock or waits on a channel. Unlock wakes all
// waiters, which re-contend under scheduler control (barging is legal in Go).
type Mutex struct {
	g       sync.Mutex
	locked  bool
	waiters []chan struct{}
}

func (m *Mutex) Lock() {
	simrt.Yield()
	for {
		m.g.Lock()
		if !m.locked {
			m.locked = true
			m.g.Unlock()
			return
		}
		ch := make(chan struct{})
		m.waiters = append(m.waiters, ch)
		m.g.Unlock()
		<-ch
		simrt.Yield()
	}
}

func (m *Mutex) TryLock() bool {
	simrt.Yield()
	m.g.Lock()
	defer m.g.Unlock()
	if m.locked {
		return false
	}
	m.locked = true
	return true
}

func (m *Mutex) Unlock() {
	m.g.Lock()
	if !m.locked {
		m.g.Unlock()
		panic("simsync: unlock of unlocked mutex")
	}
	m.locked = false
	ws := m.waiters
	m.waiters = nil
	m.g.Unlock()
	for _, ch := range ws {
		close(ch)
	}
}

// RWMutex with Go's rule that a pending writer blocks new readers.
type RWMutex struct {
	g       sync.Mutex
	w       bool
	r       int
	ww      int
	waiters []chan struct{}
}

func (m *RWMutex) wakeLocked() []chan struct{} {
	ws := m.waiters
	m.waiters = nil
	return ws
}

func (m *RWMutex) Lock() {
	simrt.Yield()
	m.g.Lock()
	if !m.w && m.r == 0 {
		m.w = true
		m.g.Unlock()
		return
	}
	m.ww++
	for {
		ch := make(chan struct{})
		m.waiters = append(m.waiters, ch)
		m.g.Unlock()
		<-ch
		simrt.Yield()
		m.g.Lock()
		if !m.w && m.r == 0 {
			m.ww--
			m.w = true
			m.g.Unlock()
			return
		}
	}
}

func (m *RWMutex) Unlock() {
	m.g.Lock()
	if !m.w {
		m.g.Unlock()
		panic("simsync: Unlock of unlocked RWMutex")
	}
	m.w = false
	ws := m.wakeLocked()
	m.g.Unlock()
	for _, ch := range ws {
		close(ch)
	}
}

func (m *RWMutex) RLock() {
	simrt.Yield()
	for {
		m.g.Lock()
		if !m.w && m.ww == 0 {
			m.r++
			m.g.Unlock()
			return
		}
		ch := make(chan struct{})
		m.waiters = append(m.waiters, ch)
		m.g.Unlock()
		<-ch
		simrt.Yield()
	}
}

func (m *RWMutex) RUnlock() {
	m.g.Lock()
	if m.r <= 0 {
		m.g.Unlock()
		panic("simsync: RUnlock of unlocked RWMutex")
	}
	m.r--
	var ws []chan struct{}
	if m.r == 0 {
		ws = m.wakeLocked()
	}
	m.g.Unlock()
	for _, ch := range ws {
		close(ch)
	}
}

func (m *RWMutex) TryLock() bool {
	simrt.Yield()
	m.g.Lock()
	defer m.g.Unlock()
	if m.w || m.r > 0 {
		return false
	}
	m.w = true
	return true
}

func (m *RWMutex) TryRLock() bool {
	simrt.Yield()
	m.g.Lock()
	defer m.g.Unlock()
	if m.w || m.ww > 0 {
		return false
	}
	m.r++
	return true
}

type rlocker RWMutex

func (r *rlocker) Lock()   { (*RWMutex)(r).RLock() }
func (r *rlocker) Unlock() { (*RWMutex)(r).RUnlock() }

func (m *RWMutex) RLocker() Locker { return (*rlocker)(m) }

// Once built on the simulated Mutex (a real sync.Once would block non-durably while
// f runs under the scheduler).
type Once struct {
	m    Mutex
	g    sync.Mutex
	done bool
}

func (o *Once) Do(f func()) {
	simrt.Yield()
	o.g.Lock()
	d := o.done
	o.g.Unlock()
	if d {
		return
	}
	o.m.Lock()
	defer o.m.Unlock()
	o.g.Lock()
	d = o.done
	o.g.Unlock()
	if !d {
		defer func() {
			o.g.Lock()
			o.done = true
			o.g.Unlock()
		}()
		f()
	}
}

func OnceFunc(f func()) func() {
	var o Once
	return func() { o.Do(f) }
}

// Pool is deterministic (LIFO, no GC interaction) and drops objects that were put
// during an earlier run (a pooled *time.Timer of a finished bubble must never reach
// the next one). In adversarial mode Get returns any pooled object (or a new one)
// by scheduler choice.
type Pool struct {
	New func() any

	g     sync.Mutex
	gen   uint64
	items []any
}

// Adversarial makes every Pool.Get a scheduler choice among all pooled objects.
var Adversarial bool

func (p *Pool) Get() any {
	p.g.Lock()
	if g := simrt.PoolGeneration(); p.gen != g {
		p.gen = g
		p.items = nil
	}
	n := len(p.items)
	if n > 0 {
		idx := n - 1
		if Adversarial {
			if s := simrt.Active(); s != nil {
				p.g.Unlock()
				c := s.Intn(n + 1)
				p.g.Lock()
				n = len(p.items)
				if c >= n {
					p.g.Unlock()
					if p.New != nil {
						return p.New()
					}
					return nil
				}
				idx = c
			}
		}
		x := p.items[idx]
		p.items = append(p.items[:idx], p.items[idx+1:]...)
		p.g.Unlock()
		return x
	}
	p.g.Unlock()
	if p.New != nil {
		return p.New()
	}
	return nil
}

func (p *Pool) Put(x any) {
	if x == nil {
		return
	}
	p.g.Lock()
	if g := simrt.PoolGeneration(); p.gen != g {
		p.gen = g
		p.items = nil
	}
	if len(p.items) < 64 {
		p.items = append(p.items, x)
	}
	p.g.Unlock()
}
