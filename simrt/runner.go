package simrt

import (
	"encoding/json"
	"fmt"
	"os"
	"path/filepath"
	"runtime"
	"sort"
	"strconv"
	"strings"
	"testing"
	"time"
)

// World is one simulated system: a script generator, an executor that runs a script
// as the main task of a bubble (recording violations through the Sim), and optional
// script shrinking for minimisation.
type World struct {
	Name string
	// Gen draws a script. prop is the property the check focuses on (worlds bias
	// their generator towards it), tier is "quick" or "thorough".
	Gen func(c *Choice, prop, tier string) any
	// NewScript returns an empty script for JSON decoding of replay files.
	NewScript func() any
	// Run executes the script as the main task of the bubble.
	Run func(s *Sim, script any, prop string)
	// Shrinks returns smaller variants of a script (may be nil).
	Shrinks func(script any) []any
	// Sched picks the scheduler configuration (swarm); nil = default mix.
	Sched func(c *Choice, script any) Config
	// Stall reports whether the "stalled goroutine" fault may be injected for prop
	// (simulated time passes while runnable goroutines stay parked; at most 12 times
	// and ~1.3 s in total per run). Worlds whose oracle asserts exact timing say no.
	Stall func(prop string) bool
	// LongStallMs, if set, gives the length of the one long stall of a run for prop
	// (0 = the default of 1.2 s). Only for properties whose oracles are evaluated at
	// settled points and assert nothing about how long the server takes.
	LongStallMs func(prop string) int
	// NontrivialProbe names the probe that marks a run as non-trivial for prop.
	Nontrivial func(prop string, r *Result) bool
}

type claim struct {
	world  string
	weight int
}

var (
	worlds = map[string]*World{}
	claims = map[string][]claim{}
)

// Register adds a world.
func Register(w *World) { worlds[w.Name] = w }

// Claim states that property prop is decided (also) in world, with a sampling weight.
func Claim(prop, world string, weight int) {
	claims[prop] = append(claims[prop], claim{world, weight})
}

// ReplayFile is the on-disk form of one exactly repeatable run.
type ReplayFile struct {
	Property   string          `json:"property"`
	World      string          `json:"world"`
	Tier       string          `json:"tier"`
	Seed       uint64          `json:"seed"`
	Run        int             `json:"run"`
	ChoiceSeed uint64          `json:"choice_seed"`
	Cfg        Config          `json:"cfg"`
	Script     json.RawMessage `json:"script"`
	// Choices is the schedule/fault choice vector, run-length encoded as
	// [index,value] pairs of the non-zero entries plus the total length.
	ChoiceLen int         `json:"choice_len"`
	Choices   [][2]uint32 `json:"choices_nonzero"`
	Expect    struct {
		Clause    string `json:"clause"`
		Signature string `json:"signature"`
		Detail    string `json:"detail"`
		Hash      string `json:"event_log_hash"`
	} `json:"expect"`
	Note string `json:"note,omitempty"`
}

func encodeChoices(v []uint32) (int, [][2]uint32) {
	var out [][2]uint32
	for i, x := range v {
		if x != 0 {
			out = append(out, [2]uint32{uint32(i), x})
		}
	}
	return len(v), out
}

func decodeChoices(n int, nz [][2]uint32) []uint32 {
	v := make([]uint32, n)
	for _, p := range nz {
		if int(p[0]) < n {
			v[p[0]] = p[1]
		}
	}
	return v
}

// WorkerOut is what one worker process reports to the driver.
type WorkerOut struct {
	Property       string            `json:"property"`
	Tier           string            `json:"tier"`
	Seed           uint64            `json:"seed"`
	Worker         int               `json:"worker"`
	Runs           int               `json:"runs"`
	RunsByWorld    map[string]int    `json:"runs_by_world"`
	Steps          int64             `json:"steps"`
	Yields         int64             `json:"yields"`
	Preempts       int64             `json:"preempts"`
	SimSeconds     float64           `json:"sim_seconds"`
	WallSeconds    float64           `json:"wall_seconds"`
	Stalled        int               `json:"stalled"`
	OverStep       int               `json:"over_step"`
	Leaked         int               `json:"leaked"`
	Nontrivial     int               `json:"nontrivial"`
	Fingerprints   []string          `json:"fingerprints"` // distinct (script,schedule) hashes of non-trivial runs
	StateHashes    int               `json:"state_hashes"`
	Probes         map[string]int    `json:"probes"`
	Faults         map[string]int    `json:"faults"`
	Samples        []json.RawMessage `json:"samples"`
	Violations     []WorkerViolation `json:"violations"`
	Known          map[string]int    `json:"known"`
	DetChecks      int               `json:"determinism_rechecks"`
	DetFailures    []string          `json:"determinism_failures"`
	Irreproducible []string          `json:"irreproducible_candidates"`
	Error          string            `json:"error,omitempty"`
}

// WorkerViolation is one reported violation with its replay file.
type WorkerViolation struct {
	Violation
	Replay string `json:"replay"`
}

type knownFinding struct {
	Property  string `json:"property"`
	Clause    string `json:"clause"`
	Signature string `json:"signature"` // exact match, or prefix when it ends in '*'
	What      string `json:"what"`
	Status    string `json:"status"` // "known" (suppresses) or "fixed" (suppresses nothing)
}

func loadKnown(path string) []knownFinding {
	var out []knownFinding
	b, err := os.ReadFile(path)
	if err != nil {
		return nil
	}
	for _, line := range strings.Split(string(b), "\n") {
		line = strings.TrimSpace(line)
		if line == "" || strings.HasPrefix(line, "#") {
			continue
		}
		var k knownFinding
		if json.Unmarshal([]byte(line), &k) == nil && k.Status != "fixed" {
			out = append(out, k)
		}
	}
	return out
}

func matchKnown(ks []knownFinding, v Violation) (string, bool) {
	for _, k := range ks {
		if k.Property != v.Property || (k.Clause != "" && k.Clause != v.Clause) {
			continue
		}
		if globMatch(k.Signature, v.Signature) {
			return k.Property + "|" + k.Clause + "|" + k.Signature, true
		}
	}
	return "", false
}

func splitmix(x uint64) uint64 {
	x += 0x9e3779b97f4a7c15
	x = (x ^ (x >> 30)) * 0xbf58476d1ce4e5b9
	x = (x ^ (x >> 27)) * 0x94d049bb133111eb
	return x ^ (x >> 31)
}

// DefaultSched is the swarm mix of scheduler strategies.
func DefaultSched(c *Choice, expectSteps int) Config {
	cfg := Config{}
	switch c.Pick(4, 3, 2, 1) {
	case 0:
		cfg.Strategy = StratSticky
		cfg.PreemptNum = []int{10, 30, 100, 250}[c.Intn(4)]
	case 1:
		cfg.Strategy = StratPrio
		cfg.ChangePoints = 1 + c.Intn(4)
		cfg.ExpectSteps = expectSteps
	case 2:
		cfg.Strategy = StratSticky
		cfg.PreemptNum = 500
	case 3:
		cfg.Strategy = StratRandom
	}
	return cfg
}

func filterViolations(vs []Violation, prop string) []Violation {
	var out []Violation
	for _, v := range vs {
		if v.Property == prop {
			out = append(out, v)
		}
	}
	return out
}

func scriptHash(b []byte) uint64 {
	h := uint64(14695981039346656037)
	for _, c := range b {
		h = (h ^ uint64(c)) * 1099511628211
	}
	return h
}

func envInt(name string, def int) int {
	if v := os.Getenv(name); v != "" {
		if n, err := strconv.Atoi(v); err == nil {
			return n
		}
	}
	return def
}

// exec runs (world, script, cfg) with the given choice stream.
func execRun(t *testing.T, w *World, script any, cfg Config, ch *Choice, prop string) *Result {
	return Run(t, cfg, ch, func(s *Sim) { w.Run(s, script, prop) })
}

// Main is the entry point of every harness test binary (called from TestVerif).
func Main(t *testing.T) {
	runtime.GOMAXPROCS(1)
	prop := os.Getenv("VERIF_PROP")
	if prop == "" {
		t.Skip("VERIF_PROP not set")
	}
	if rp := os.Getenv("VERIF_REPLAY"); rp != "" {
		replayMain(t, prop, rp)
		return
	}
	tier := os.Getenv("VERIF_TIER")
	if tier == "" {
		tier = "quick"
	}
	seed := uint64(envInt("VERIF_SEED", 1))
	worker := envInt("VERIF_WORKER", 0)
	nworkers := envInt("VERIF_WORKERS", 1)
	budget := time.Duration(envInt("VERIF_BUDGET_S", 20)) * time.Second
	maxRuns := envInt("VERIF_MAX_RUNS", 1<<30)
	outPath := os.Getenv("VERIF_OUT")
	replayDir := os.Getenv("VERIF_REPLAY_DIR")
	if replayDir == "" {
		replayDir = "."
	}
	known := loadKnown(os.Getenv("VERIF_KNOWN"))
	progress := os.Getenv("VERIF_PROGRESS")
	onlyWorld := os.Getenv("VERIF_WORLD")
	detEvery := envInt("VERIF_DET_EVERY", 40)
	collect := os.Getenv("VERIF_COLLECT") != ""
	seenSig := map[string]bool{}
	// determinism self-test: one line "run-index world event-log-hash steps" per run
	var hashLog *os.File
	if hp := os.Getenv("VERIF_HASHLOG"); hp != "" {
		hashLog, _ = os.Create(hp)
		defer hashLog.Close()
	}

	cl := claims[prop]
	if len(cl) == 0 {
		t.Fatalf("no world claims property %s in this binary", prop)
	}
	out := &WorkerOut{Property: prop, Tier: tier, Seed: seed, Worker: worker, RunsByWorld: map[string]int{}, Probes: map[string]int{}, Faults: map[string]int{}, Known: map[string]int{}}
	fps := map[uint64]struct{}{}
	start := time.Now()
	writeOut := func() {
		out.WallSeconds = time.Since(start).Seconds()
		out.Fingerprints = out.Fingerprints[:0]
		for k := range fps {
			out.Fingerprints = append(out.Fingerprints, strconv.FormatUint(k, 16))
		}
		sort.Strings(out.Fingerprints)
		if outPath != "" {
			b, _ := json.Marshal(out)
			_ = os.WriteFile(outPath, b, 0o644)
		}
	}
	defer writeOut()

	weights := make([]int, len(cl))
	for i, c := range cl {
		weights[i] = c.weight
	}
	onlyRun := -1
	if v := os.Getenv("VERIF_ONLY_RUN"); v != "" {
		// triage of a crash: execute exactly one run index (the crash report names it)
		onlyRun, _ = strconv.Atoi(v)
	}
	for i := worker; i < maxRuns && time.Since(start) < budget; i += nworkers {
		if onlyRun >= 0 && i != onlyRun {
			continue
		}
		runSeed := splitmix(seed*1000003 + uint64(i))
		if progress != "" {
			_ = os.WriteFile(progress, []byte(fmt.Sprintf("%d %d %d\n", seed, i, runSeed)), 0o644)
		}
		sc := NewChoice(runSeed)
		sc.Index = i
		ci := sc.Pick(weights...)
		if onlyWorld != "" {
			for j, c := range cl {
				if c.world == onlyWorld {
					ci = j
				}
			}
		}
		w := worlds[cl[ci].world]
		if w == nil {
			t.Fatalf("world %s not registered", cl[ci].world)
		}
		script := w.Gen(sc, prop, tier)
		var cfg Config
		if w.Sched != nil {
			cfg = w.Sched(sc, script)
		} else {
			cfg = DefaultSched(sc, 4000)
		}
		if w.Stall != nil && w.Stall(prop) {
			// in a quarter of the runs
			cfg.StallPm = []int{0, 0, 0, 0, 0, 0, 15, 60}[sc.Intn(8)]
			if w.LongStallMs != nil {
				cfg.LongStallMs = w.LongStallMs(prop)
			}
		}
		sb, err := json.Marshal(script)
		if err != nil {
			t.Fatalf("script marshal: %v", err)
		}
		ch := NewChoice(splitmix(runSeed ^ 0x5ca1ab1e))
		detCheck := detEvery > 0 && (i/nworkers)%detEvery == 0
		cfg.Debug = detCheck
		dumpDir := os.Getenv("VERIF_DUMPLOG")
		if dumpDir != "" {
			cfg.Debug = true
		}
		res := execRun(t, w, script, cfg, ch, prop)
		if dumpDir != "" {
			_ = os.WriteFile(filepath.Join(dumpDir, fmt.Sprintf("%d-%d-%x.log", os.Getpid(), i, res.Hash)), []byte(strings.Join(res.DebugLog, "\n")+"\n"), 0o644)
		}
		if hashLog != nil {
			fmt.Fprintf(hashLog, "%d %s %x %d\n", i, w.Name, res.Hash, res.Steps)
		}
		out.Runs++
		out.RunsByWorld[w.Name]++
		out.Steps += int64(res.Steps)
		out.Yields += res.Yields
		out.Preempts += int64(res.Preempts)
		out.SimSeconds += res.SimTime.Seconds()
		if res.Stalled {
			out.Stalled++
		}
		if res.OverStep {
			out.OverStep++
		}
		if res.Leaked {
			out.Leaked++
		}
		for k, v := range res.Probes {
			out.Probes[k] += v
		}
		for k, v := range res.Faults {
			out.Faults[k] += v
		}
		if res.Stalls > 0 {
			out.Faults["sched_stall_time_passes_while_runnable"] += res.Stalls
		}
		nontrivial := true
		if w.Nontrivial != nil {
			nontrivial = w.Nontrivial(prop, res)
		}
		if nontrivial {
			out.Nontrivial++
			fps[scriptHash(sb)^res.SchedHash*31] = struct{}{}
		}
		if len(out.Samples) < 3 && nontrivial {
			smp, _ := json.Marshal(map[string]any{"world": w.Name, "run": i, "script": json.RawMessage(sb), "sched": cfg, "steps": res.Steps, "sim_time": res.SimTime.String(), "probes": res.Probes, "faults": res.Faults})
			out.Samples = append(out.Samples, smp)
		}
		if res.Panic != "" {
			out.Error = fmt.Sprintf("run %d (seed %d) panicked in harness goroutine: %s", i, runSeed, res.Panic)
			writeOut()
			t.Fatalf("%s", out.Error)
		}
		// periodic determinism re-check: replay the recorded choices, hashes must match
		if detCheck {
			out.DetChecks++
			r2 := execRun(t, w, script, cfg, NewReplay(ch.Seed(), ch.Rec), prop)
			cfg.Debug = false
			if r2.Hash != res.Hash || r2.Steps != res.Steps {
				out.DetFailures = append(out.DetFailures, fmt.Sprintf("world=%s run=%d seed=%d hash %x/%x steps %d/%d\n%s", w.Name, i, runSeed, res.Hash, r2.Hash, res.Steps, r2.Steps, diffLogs(res.DebugLog, r2.DebugLog)))
				if len(out.DetFailures) > 5 {
					break
				}
			}
		}
		vs := filterViolations(res.Violations, prop)
		if len(vs) == 0 {
			continue
		}
		var unknown *Violation
		for k := range vs {
			if key, ok := matchKnown(known, vs[k]); ok {
				out.Known[key]++
			} else if unknown == nil {
				unknown = &vs[k]
			}
		}
		if unknown == nil {
			continue
		}
		if collect {
			// triage mode: keep going, one replay per distinct (clause, signature)
			unknown = nil
			for k := range vs {
				if _, ok := matchKnown(known, vs[k]); ok {
					continue
				}
				key := vs[k].Clause + "|" + vs[k].Signature
				if !seenSig[key] {
					seenSig[key] = true
					unknown = &vs[k]
					break
				}
			}
			if unknown == nil {
				continue
			}
		}
		// a violation only counts if the recorded choices reproduce it (a difference here
		// would mean the run was influenced by something the simulator does not control)
		if rr := execRun(t, w, script, cfg, NewReplay(ch.Seed(), ch.Rec), prop); sameViolation(rr.Violations, *unknown, known) == nil {
			out.Irreproducible = append(out.Irreproducible, fmt.Sprintf("world=%s run=%d seed=%d %s/%s: %s", w.Name, i, runSeed, unknown.Clause, unknown.Signature, unknown.Detail))
			continue
		}
		// minimise and write the replay file
		rf := minimise(t, w, prop, tier, script, cfg, ch.Seed(), ch.Rec, *unknown, known)
		rf.Seed = seed
		rf.Run = i
		name := fmt.Sprintf("%s-%d-%d.json", prop, seed, i)
		if collect {
			name = fmt.Sprintf("%s-%d-%d-%d.json", prop, seed, i, len(out.Violations))
		}
		path := filepath.Join(replayDir, name)
		b, _ := json.MarshalIndent(rf, "", " ")
		_ = os.MkdirAll(replayDir, 0o755)
		_ = os.WriteFile(path, b, 0o644)
		out.Violations = append(out.Violations, WorkerViolation{Violation: *unknown, Replay: path})
		if !collect {
			break
		}
	}
}

func sameViolation(vs []Violation, target Violation, known []knownFinding) *Violation {
	for i := range vs {
		if vs[i].Property == target.Property && vs[i].Clause == target.Clause {
			if _, ok := matchKnown(known, vs[i]); ok {
				continue
			}
			return &vs[i]
		}
	}
	return nil
}

// minimise shrinks script and choice vector while the same (property, clause) fails.
func minimise(t *testing.T, w *World, prop, tier string, script any, cfg Config, chSeed uint64, rec []uint32, target Violation, known []knownFinding) *ReplayFile {
	deadline := time.Now().Add(time.Duration(envInt("VERIF_MIN_BUDGET_S", 45)) * time.Second)
	tries := 0
	fails := func(sc any, choices []uint32) (*Result, *Violation) {
		tries++
		r := execRun(t, w, sc, cfg, NewReplay(chSeed, choices), prop)
		if r.Panic != "" {
			return r, nil
		}
		return r, sameViolation(r.Violations, target, known)
	}
	cur := script
	choices := append([]uint32(nil), rec...)
	best, bv := fails(cur, choices)
	note := ""
	if bv == nil {
		// cannot even reproduce with recorded choices: report unminimised, flagged
		note = "WARNING: replay of recorded choices did not reproduce the violation in-process"
		rf := &ReplayFile{Property: prop, World: w.Name, Tier: tier, Cfg: cfg, Note: note, ChoiceSeed: chSeed}
		rf.Script, _ = json.Marshal(script)
		rf.ChoiceLen, rf.Choices = encodeChoices(rec)
		rf.Expect.Clause, rf.Expect.Signature, rf.Expect.Detail = target.Clause, target.Signature, target.Detail
		return rf
	}
	// 1. script shrinking (greedy, restart on success)
	if w.Shrinks != nil {
		progress := true
		for progress && time.Now().Before(deadline) && tries < 600 {
			progress = false
			for _, cand := range w.Shrinks(cur) {
				if time.Now().After(deadline) || tries >= 600 {
					break
				}
				if r, v := fails(cand, choices); v != nil {
					cur, best, bv, progress = cand, r, v, true
					break
				}
			}
		}
	}
	// 2. truncate the choice vector (shortest failing prefix by bisection)
	lo, hi := 0, len(choices)
	for lo < hi && time.Now().Before(deadline) {
		mid := (lo + hi) / 2
		if r, v := fails(cur, choices[:mid]); v != nil {
			hi, best, bv = mid, r, v
		} else {
			lo = mid + 1
		}
	}
	choices = choices[:hi]
	if r, v := fails(cur, choices); v != nil {
		best, bv = r, v
	} else {
		choices = append([]uint32(nil), rec...)
	}
	// 3. zero out chunks
	for size := len(choices) / 2; size >= 1 && time.Now().Before(deadline) && tries < 1500; size /= 2 {
		for off := 0; off < len(choices) && time.Now().Before(deadline) && tries < 1500; off += size {
			end := off + size
			if end > len(choices) {
				end = len(choices)
			}
			allZero := true
			for _, x := range choices[off:end] {
				if x != 0 {
					allZero = false
					break
				}
			}
			if allZero {
				continue
			}
			cand := append([]uint32(nil), choices...)
			for k := off; k < end; k++ {
				cand[k] = 0
			}
			if r, v := fails(cur, cand); v != nil {
				choices, best, bv = cand, r, v
			}
		}
	}
	// final confirmation of exactly what goes into the file; fall back to the
	// unminimised run if the minimised one does not fail (again)
	if r, v := fails(cur, choices); v != nil {
		best, bv = r, v
	} else {
		cur, choices = script, append([]uint32(nil), rec...)
		if r, v := fails(cur, choices); v != nil {
			best, bv = r, v
			note = "minimisation result did not reproduce; unminimised run stored"
		}
	}
	rf := &ReplayFile{Property: prop, World: w.Name, Tier: tier, Cfg: cfg, Note: note, ChoiceSeed: chSeed}
	rf.Script, _ = json.Marshal(cur)
	rf.ChoiceLen, rf.Choices = encodeChoices(choices)
	rf.Expect.Clause, rf.Expect.Signature, rf.Expect.Detail = bv.Clause, bv.Signature, bv.Detail
	rf.Expect.Hash = strconv.FormatUint(best.Hash, 16)
	return rf
}

// replayMain re-executes a replay file; the test fails (exit 1) iff the expected
// violation is reproduced, and prints whether the event-log hash matched.
func replayMain(t *testing.T, prop, path string) {
	b, err := os.ReadFile(path)
	if err != nil {
		t.Fatalf("read replay: %v", err)
	}
	var rf ReplayFile
	if err := json.Unmarshal(b, &rf); err != nil {
		t.Fatalf("parse replay: %v", err)
	}
	w := worlds[rf.World]
	if w == nil {
		t.Fatalf("world %q not in this binary", rf.World)
	}
	script := w.NewScript()
	if err := json.Unmarshal(rf.Script, script); err != nil {
		t.Fatalf("parse script: %v", err)
	}
	cfg := rf.Cfg
	cfg.Debug = os.Getenv("VERIF_DEBUG") != ""
	// diagnosing state that leaks from one run to the next inside a process: execute
	// some generated runs first, then the replay (its hash must not depend on them)
	for k := 0; k < envInt("VERIF_REPLAY_WARMUP", 0); k++ {
		sc := NewChoice(uint64(1000 + k))
		wscript := w.Gen(sc, prop, "quick")
		wcfg := DefaultSched(sc, 4000)
		if w.Sched != nil {
			wcfg = w.Sched(sc, wscript)
		}
		execRun(t, w, wscript, wcfg, NewChoice(uint64(77+k)), prop)
	}
	res := execRun(t, w, script, cfg, NewReplay(rf.ChoiceSeed, decodeChoices(rf.ChoiceLen, rf.Choices)), rf.Property)
	if cfg.Debug {
		for _, l := range res.DebugLog {
			fmt.Println(l)
		}
	}
	hash := strconv.FormatUint(res.Hash, 16)
	fmt.Printf("REPLAY property=%s world=%s steps=%d sim_time=%v event_log_hash=%s expected_hash=%s hash_match=%v\n", rf.Property, rf.World, res.Steps, res.SimTime, hash, rf.Expect.Hash, hash == rf.Expect.Hash)
	reproduced := false
	for _, v := range res.Violations {
		fmt.Printf("REPLAY-VIOLATION property=%s clause=%s signature=%s detail=%s\n", v.Property, v.Clause, v.Signature, v.Detail)
		if v.Property == rf.Property && v.Clause == rf.Expect.Clause {
			reproduced = true
		}
	}
	if res.Panic != "" {
		fmt.Printf("REPLAY-PANIC %s\n", res.Panic)
	}
	if reproduced {
		fmt.Printf("REPLAY-REPRODUCED property=%s clause=%s\n", rf.Property, rf.Expect.Clause)
	} else {
		fmt.Printf("REPLAY-NOT-REPRODUCED property=%s clause=%s\n", rf.Property, rf.Expect.Clause)
	}
}

func diffLogs(a, b []string) string {
	n := len(a)
	if len(b) < n {
		n = len(b)
	}
	for i := 0; i < n; i++ {
		if a[i] != b[i] {
			lo := i - 6
			if lo < 0 {
				lo = 0
			}
			return fmt.Sprintf("first divergence at log line %d:\n  common: %s\n  A: %s\n  B: %s", i, strings.Join(a[lo:i], "\n          "), strings.Join(a[i:min(i+4, len(a))], "\n     "), strings.Join(b[i:min(i+4, len(b))], "\n     "))
		}
	}
	return fmt.Sprintf("logs equal for %d lines; lengths %d/%d", n, len(a), len(b))
}

// globMatch: exact match, or '*' at the start and/or end of the pattern.
func globMatch(pat, s string) bool {
	pre, suf := strings.HasPrefix(pat, "*"), strings.HasSuffix(pat, "*") && len(pat) > 1
	core := strings.TrimSuffix(strings.TrimPrefix(pat, "*"), "*")
	switch {
	case pre && suf:
		return strings.Contains(s, core)
	case pre:
		return strings.HasSuffix(s, core)
	case suf:
		return strings.HasPrefix(s, core)
	}
	return pat == s
}
