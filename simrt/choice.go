package simrt

import (
	"math/rand/v2"
	"sync"
)

// Choice is the single source of every decision of a run. In generate mode values
// come from a PCG seeded with the run seed; in replay mode from a recorded vector,
// with 0 ("the boring choice") once the vector is exhausted or a value does not fit.
// Every draw is recorded, so that a generated run can be replayed and minimised.
type Choice struct {
	seed   uint64
	rng    *rand.Rand
	replay []uint32
	isRep  bool
	pos    int
	Rec    []uint32
	// Index is the run index within the batch (generators may use it to enumerate a
	// small configuration space systematically instead of sampling it).
	Index int
}

// NewChoice creates a generating choice stream.
func NewChoice(seed uint64) *Choice {
	return &Choice{seed: seed, rng: rand.New(rand.NewPCG(seed, seed^0x9e3779b97f4a7c15))}
}

// NewReplay creates a replaying choice stream.
func NewReplay(seed uint64, vals []uint32) *Choice {
	return &Choice{seed: seed, replay: vals, isRep: true}
}

// Seed returns the seed the stream was created from (also in replay mode).
func (c *Choice) Seed() uint64 { return c.seed }

// Intn returns a value in [0,n).
func (c *Choice) Intn(n int) int {
	if n <= 1 {
		return 0
	}
	var v uint32
	if c.isRep {
		if c.pos < len(c.replay) {
			v = c.replay[c.pos]
			if int(v) >= n {
				v = 0
			}
		}
		c.pos++
	} else {
		v = uint32(c.rng.IntN(n))
	}
	c.Rec = append(c.Rec, v)
	return int(v)
}

// Chance is true with probability num/den; a replay default of 0 is false.
func (c *Choice) Chance(num, den int) bool {
	if num <= 0 {
		return false
	}
	return c.Intn(den) >= den-num
}

// Pick returns one of the weights' indices with probability proportional to weight.
// Index 0 is the replay default, so put the boring alternative first.
func (c *Choice) Pick(weights ...int) int {
	tot := 0
	for _, w := range weights {
		tot += w
	}
	v := c.Intn(tot)
	for i, w := range weights {
		if v < w {
			return i
		}
		v -= w
	}
	return 0
}

// ---- deterministic replacement of crypto/rand ----

var (
	crandMu  sync.Mutex
	crandRng = rand.New(rand.NewPCG(1, 2))
)

func crandReset(seed uint64) {
	crandMu.Lock()
	crandRng = rand.New(rand.NewPCG(seed^0xa5a5a5a5, seed+77))
	crandMu.Unlock()
}

// CryptoRead fills b from the per-run deterministic generator.
func CryptoRead(b []byte) (int, error) {
	crandMu.Lock()
	for i := range b {
		b[i] = byte(crandRng.Uint32())
	}
	crandMu.Unlock()
	return len(b), nil
}
