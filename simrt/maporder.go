package simrt

import (
	"cmp"
	"fmt"
	"iter"
	"reflect"
	"sort"
)

// MapOrder replaces `range m` over a map in the transformed code: iteration order is
// sorted by key and rotated by a scheduler choice (only when the caller holds the
// run token), so that map order is a simulator decision instead of runtime noise.
// Semantics of range-over-map are kept: entries deleted during the loop are not
// produced, values are read at the time they are produced.
func MapOrder[M ~map[K]V, K comparable, V any](m M) iter.Seq2[K, V] {
	return func(yield func(K, V) bool) {
		n := len(m)
		if n == 0 {
			return
		}
		if n == 1 {
			for k, v := range m {
				yield(k, v)
				return
			}
		}
		keys := make([]K, 0, n)
		for k := range m {
			keys = append(keys, k)
		}
		sortKeys(keys)
		off := 0
		if s := active.Load(); s != nil && !s.aborted {
			g := goid()
			s.mu.Lock()
			if g == s.current {
				off = s.Choice.Intn(n)
			}
			s.mu.Unlock()
		}
		for i := 0; i < n; i++ {
			k := keys[(i+off)%n]
			v, ok := m[k]
			if !ok {
				continue
			}
			if !yield(k, v) {
				return
			}
		}
	}
}

func sortKeys[K comparable](keys []K) {
	switch ks := any(keys).(type) {
	case []string:
		sort.Strings(ks)
	case []int:
		sort.Ints(ks)
	case []int64:
		sort.Slice(ks, func(i, j int) bool { return ks[i] < ks[j] })
	case []uint64:
		sort.Slice(ks, func(i, j int) bool { return ks[i] < ks[j] })
	case []uint32:
		sort.Slice(ks, func(i, j int) bool { return ks[i] < ks[j] })
	case []int32:
		sort.Slice(ks, func(i, j int) bool { return ks[i] < ks[j] })
	default:
		var zero K
		rt := reflect.TypeOf(zero)
		if rt != nil && rt.Kind() == reflect.String {
			sort.Slice(keys, func(i, j int) bool {
				return reflect.ValueOf(keys[i]).String() < reflect.ValueOf(keys[j]).String()
			})
			return
		}
		if rt != nil && (rt.Kind() == reflect.Pointer || rt.Kind() == reflect.Interface) {
			// Pointer keys: order by a stable id when the pointee offers one, else by
			// formatted value of the pointee (addresses never enter the order).
			sort.SliceStable(keys, func(i, j int) bool { return cmp.Less(stableKey(keys[i]), stableKey(keys[j])) })
			return
		}
		sort.SliceStable(keys, func(i, j int) bool {
			return fmt.Sprintf("%v", keys[i]) < fmt.Sprintf("%v", keys[j])
		})
	}
}

// StableIDer may be implemented (in harness files) by types used as pointer map keys.
type StableIDer interface{ SimStableID() string }

func stableKey(k any) string {
	if s, ok := k.(StableIDer); ok {
		return s.SimStableID()
	}
	if s, ok := k.(fmt.Stringer); ok {
		return s.String()
	}
	rv := reflect.ValueOf(k)
	for rv.Kind() == reflect.Pointer || rv.Kind() == reflect.Interface {
		if rv.IsNil() {
			return ""
		}
		rv = rv.Elem()
	}
	return fmt.Sprintf("%T", k)
}
