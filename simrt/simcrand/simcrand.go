// Package simcrand replaces crypto/rand in the transformed copy: bytes come from a
// generator that is re-seeded from the run seed at the start of every run.
package simcrand

import (
	"io"

	simrt "github.com/centrifugal/centrifuge/internal/simrt"
)

type reader struct{}

func (reader) Read(b []byte) (int, error) { return simrt.CryptoRead(b) }

var Reader io.Reader = reader{}

func Read(b []byte) (int, error) { return simrt.CryptoRead(b) }
