// Package simrt is the deterministic-simulation runtime that the transformed copy of
// centrifuge is linked against. It is copied into the scratch copy of the repository
// as internal/simrt by /verif/engine/build.sh; it is never part of /repo.
//
// One run = one testing/synctest bubble. A seeded scheduler decides, at every
// mutex / atomic / goroutine-spawn point of the real code (the simsync and simatomic
// drop-in packages call Yield), which goroutine proceeds. Exactly one goroutine holds
// the run token at any time; all decisions are drawn from one recorded choice stream,
// so a run is a pure function of (script, choice vector).
package simrt

import (
	"bytes"
	"fmt"
	"hash/fnv"
	"os"
	"runtime"
	"sort"
	"sync"
	"sync/atomic"
	"testing"
	"testing/synctest"
	"time"
)

// Strategy constants.
const (
	StratSticky = iota // continue current goroutine, preempt with probability PreemptNum/PreemptDen
	StratPrio          // PCT-like: random priorities, a few priority change points
	StratRandom        // preempt at every yield, uniform pick
)

// Config of one run's scheduler.
type Config struct {
	Strategy     int
	PreemptNum   int // sticky: preempt probability numerator (denominator 1000)
	ChangePoints int // prio: number of priority change points
	ExpectSteps  int // prio: range in which change points are placed
	StallPm      int // per scheduling decision: chance (per mille) that simulated time passes while runnable goroutines stay parked
	LongStallMs  int `json:",omitempty"` // length of the one long stall of a run in ms (0 = 1200)
	MaxSteps     int // abort the run (not a violation) after this many scheduler decisions
	Horizon      time.Duration
	Debug        bool
}

type waiter struct {
	g    int64
	ch   chan struct{}
	prio int
	key  []int64
}

// parentGoid extracts N from the "created by f in goroutine N" line of the caller's
// own stack trace (0 when the goroutine was started by the runtime, e.g. for a timer).
func parentGoid() int64 {
	size := 8 << 10
	for {
		buf := make([]byte, size)
		n := runtime.Stack(buf, false)
		if n == size && size < 1<<20 {
			size *= 4
			continue
		}
		b := buf[:n]
		i := bytes.LastIndex(b, []byte("\ncreated by "))
		if i < 0 {
			return 0
		}
		line := b[i+1:]
		if j := bytes.IndexByte(line, '\n'); j >= 0 {
			line = line[:j]
		}
		k := bytes.LastIndex(line, []byte(" in goroutine "))
		if k < 0 {
			return 0
		}
		var id int64
		for _, c := range line[k+len(" in goroutine "):] {
			if c < '0' || c > '9' {
				break
			}
			id = id*10 + int64(c-'0')
		}
		return id
	}
}

// keyOf returns the deterministic sort key of goroutine g: the path of goroutine ids
// from the bubble root. Siblings are ordered by goroutine id, which on one P is the
// order in which their (deterministically executing) parent created them; absolute ids
// never decide between goroutines of different parents.
func (s *Sim) keyLocked(g int64) []int64 {
	if k, ok := s.keys[g]; ok {
		return k
	}
	// Resolved lazily, when the scheduler sorts the ready set (everything is parked or
	// durably blocked then): a child can reach its first yield before its parent reached
	// the Spawned() that follows the go statement (the Go runtime may preempt the parent in
	// between under load), and the parent's key is only known once the parent has yielded.
	// Resolving at the child's first yield gave the child a different key in about one
	// process out of a hundred (found by ./check selftest-determinism).
	parent := s.parents[g]
	var pk []int64
	if parent >= s.firstGoid {
		_, keyed := s.keys[parent]
		_, seen := s.parents[parent]
		if keyed || seen {
			pk = s.keyLocked(parent)
		} else {
			pk = []int64{0, parent}
		}
	}
	k := append(append([]int64(nil), pk...), g)
	s.keys[g] = k
	return k
}

func keyLess(a, b []int64) bool {
	for i := 0; i < len(a) && i < len(b); i++ {
		if a[i] != b[i] {
			return a[i] < b[i]
		}
	}
	return len(a) < len(b)
}

// Violation is one oracle failure.
type Violation struct {
	Property  string `json:"property"`
	Clause    string `json:"clause"`
	Signature string `json:"signature"`
	Detail    string `json:"detail"`
}

// Sim is the state of one simulated run.
type Sim struct {
	T      *testing.T
	Cfg    Config
	Choice *Choice

	mu        sync.Mutex // real mutex; never held across a park
	firstGoid int64
	schedGoid int64
	current   int64
	parked    []*waiter
	prio      map[int64]int
	keys      map[int64][]int64
	parents   map[int64]int64
	changeAt  map[int]bool
	wake      chan struct{}
	mainDone  bool
	aborted   bool

	Steps     int
	Stalls    int
	longStall bool
	stallsOff bool
	Yields    int64
	tokYields int64
	Preempts  int
	MaxReady  int
	Stalled   bool
	OverStep  bool

	hash       uint64 // event-log hash (every decision, every world event)
	schedHash  uint64 // schedule fingerprint: decisions only
	start      time.Time
	Violations []Violation
	Probes     map[string]int
	Faults     map[string]int
	debugLog   []string
	taskSeq    int
	timerSeq   int64
	dense      map[int64]int
	tasks      sync.WaitGroup
}

var active atomic.Pointer[Sim]

var debugKeys = os.Getenv("VERIF_DEBUG_KEYS") != ""

// Active returns the running simulation or nil.
func Active() *Sim { return active.Load() }

func goid() int64 {
	var buf [48]byte
	n := runtime.Stack(buf[:], false)
	var id int64
	for _, c := range buf[10:n] {
		if c < '0' || c > '9' {
			break
		}
		id = id*10 + int64(c-'0')
	}
	return id
}

// Yield is a scheduling point. Called by simsync / simatomic before every
// synchronisation operation.
func Yield() {
	s := active.Load()
	if s == nil {
		return
	}
	s.yield(false)
}

// Spawned is inserted after every `go` statement of the code under test: the parent
// parks so that the child's lock-free prefix runs alone, which makes the creation
// order of goroutines a function of the schedule.
func Spawned() {
	s := active.Load()
	if s == nil {
		return
	}
	s.yield(true)
}

func (s *Sim) yield(force bool) {
	g := goid()
	if g == s.schedGoid || g < s.firstGoid {
		return
	}
	s.mu.Lock()
	if s.aborted {
		s.mu.Unlock()
		return
	}
	key, known := s.keys[g]
	if !known {
		if _, seen := s.parents[g]; !seen {
			s.mu.Unlock()
			pg := parentGoid()
			s.mu.Lock()
			s.parents[g] = pg
		}
	}
	s.Yields++
	if g == s.current && !force {
		// decisions may only depend on the token holder's own yields: goroutines that
		// were just woken run their lock-free prefix concurrently and reach their first
		// yield at a moment the simulator does not control
		s.tokYields++
		if !s.preemptLocked(g) {
			s.mu.Unlock()
			return
		}
		s.Preempts++
	}
	w := &waiter{g: g, ch: make(chan struct{}, 1), key: key}
	s.parked = append(s.parked, w)
	if g == s.current {
		s.current = 0
	}
	select {
	case s.wake <- struct{}{}:
	default:
	}
	s.mu.Unlock()
	<-w.ch
}

// preemptLocked decides whether the token holder is preempted at this yield.
func (s *Sim) preemptLocked(g int64) bool {
	switch s.Cfg.Strategy {
	case StratRandom:
		return true
	case StratPrio:
		// the token holder keeps running unless this yield is a change point
		if s.changeAt[int(s.tokYields)] {
			s.prio[g] = -int(s.tokYields) // lowest so far
			return true
		}
		return false
	default:
		if s.Cfg.PreemptNum <= 0 {
			return false
		}
		return s.Choice.Intn(1000) >= 1000-s.Cfg.PreemptNum
	}
}

func (s *Sim) mix(vals ...uint64) {
	for _, v := range vals {
		s.hash = (s.hash ^ v) * 1099511628211
	}
}

// Event adds a world-level event to the event-log hash (and the debug log).
func (s *Sim) Event(format string, args ...any) {
	msg := fmt.Sprintf(format, args...)
	h := fnv.New64a()
	h.Write([]byte(msg))
	s.mu.Lock()
	s.mix(h.Sum64())
	if s.Cfg.Debug {
		s.debugLog = append(s.debugLog, fmt.Sprintf("[step %d t=%v] %s", s.Steps, time.Since(s.start), msg))
	}
	if traceEvents {
		fmt.Fprintf(os.Stderr, "[step %d t=%v] %s\n", s.Steps, time.Since(s.start), msg)
	}
	s.mu.Unlock()
}

// traceEvents prints every event as it happens (VERIF_TRACE=1): for runs that end in a
// crash of the process, where the in-memory log is lost.
var traceEvents = os.Getenv("VERIF_TRACE") != ""

// Violate records an oracle failure.
func (s *Sim) Violate(property, clause, signature, format string, args ...any) {
	s.mu.Lock()
	if len(s.Violations) < 32 {
		s.Violations = append(s.Violations, Violation{Property: property, Clause: clause, Signature: signature, Detail: fmt.Sprintf(format, args...)})
	}
	s.mu.Unlock()
}

// Probe counts that a window of interest was reached.
func (s *Sim) Probe(name string) {
	s.mu.Lock()
	s.Probes[name]++
	s.mu.Unlock()
}

// Fault counts an injected fault by kind.
// StopStalls ends the injection of the "stalled goroutine" fault for the rest of the run.
// Worlds call it when their scripted activity is over: settled-state oracles wait fixed
// simulated times for the system to become quiet ("once faults stop"), and a stall in
// that phase would let those times pass while the goroutine that delivers the awaited
// effect is still runnable. Deterministic: called at a point of the run that is itself
// decided by the schedule, and the stall decision draws no choice once it is off.
func (s *Sim) StopStalls() {
	s.mu.Lock()
	s.stallsOff = true
	s.mu.Unlock()
}

func (s *Sim) Fault(kind string) {
	s.mu.Lock()
	s.Faults[kind]++
	s.mu.Unlock()
}

// denseID numbers goroutines in the order the scheduler first picked them (debug log
// only; raw goroutine ids differ between runs whenever the runtime starts a goroutine
// of its own in between).
func (s *Sim) denseID(g int64) int {
	if s.dense == nil {
		s.dense = map[int64]int{}
	}
	id, ok := s.dense[g]
	if !ok {
		id = len(s.dense) + 1
		s.dense[g] = id
	}
	return id
}

// Step returns the global decision counter (used to stamp history events).
func (s *Sim) Step() int {
	s.mu.Lock()
	defer s.mu.Unlock()
	return s.Steps
}

// Now is the simulated time since the start of the run.
func (s *Sim) Now() time.Duration { return time.Since(s.start) }

// Go starts a harness task under the scheduler. The task parks before running, the
// caller parks too (see Spawned).
func (s *Sim) Go(fn func()) {
	s.tasks.Add(1)
	go func() {
		defer s.tasks.Done()
		s.yield(true)
		fn()
	}()
	if goid() != s.schedGoid {
		s.yield(true)
	}
}

// Sleep sleeps simulated time and then parks, so that the sleeper resumes under
// scheduler control.
func (s *Sim) Sleep(d time.Duration) {
	time.Sleep(d)
	s.yield(true)
}

// Pause is an explicit scheduling point for harness tasks.
func (s *Sim) Pause() { s.yield(true) }

// Intn draws from the run's choice stream. Must only be called by the token holder
// (harness tasks between yields, seams called from the code under test).
func (s *Sim) Intn(n int) int {
	if n <= 1 {
		return 0
	}
	g := goid()
	s.mu.Lock()
	if g != s.current && g != s.schedGoid && !s.aborted {
		s.mu.Unlock()
		s.yield(true)
		s.mu.Lock()
	}
	defer s.mu.Unlock()
	return s.Choice.Intn(n)
}

// Chance returns true with probability num/1000 (0 on replay default).
func (s *Sim) Chance(num int) bool {
	if num <= 0 {
		return false
	}
	return s.Intn(1000) >= 1000-num
}

// IsTokenHolder reports whether the caller currently holds the run token.
func (s *Sim) IsTokenHolder() bool {
	g := goid()
	s.mu.Lock()
	defer s.mu.Unlock()
	return g == s.current
}

// Result of one run.
type Result struct {
	Stalls     int
	Steps      int
	Yields     int64
	Preempts   int
	MaxReady   int
	SimTime    time.Duration
	Hash       uint64
	SchedHash  uint64
	Stalled    bool
	OverStep   bool
	Leaked     bool
	Panic      string
	Violations []Violation
	Probes     map[string]int
	Faults     map[string]int
	DebugLog   []string
}

// Run executes body as the main task of a fresh bubble and returns when the main
// task has returned and no goroutine is runnable any more.
func Run(t *testing.T, cfg Config, choice *Choice, body func(s *Sim)) (res *Result) {
	if cfg.MaxSteps == 0 {
		cfg.MaxSteps = 400000
	}
	if cfg.Horizon == 0 {
		cfg.Horizon = 2 * time.Hour
	}
	s := &Sim{T: t, Cfg: cfg, Choice: choice, Probes: map[string]int{}, Faults: map[string]int{}, prio: map[int64]int{}, keys: map[int64][]int64{}, parents: map[int64]int64{}, changeAt: map[int]bool{}}
	s.hash = 14695981039346656037
	s.schedHash = 14695981039346656037
	if cfg.Strategy == StratPrio {
		n := cfg.ExpectSteps
		if n <= 0 {
			n = 4000
		}
		for i := 0; i < cfg.ChangePoints; i++ {
			s.changeAt[1+choice.Intn(n)] = true
		}
	}
	res = &Result{}
	func() {
		defer func() {
			if r := recover(); r != nil {
				msg := fmt.Sprint(r)
				if len(msg) >= 8 && msg[:8] == "deadlock" {
					res.Leaked = true
				} else {
					res.Panic = msg
				}
			}
			active.Store(nil)
		}()
		synctest.Test(t, func(t *testing.T) {
			s.schedGoid = goid()
			s.firstGoid = s.schedGoid
			s.start = time.Now()
			s.wake = make(chan struct{}, 1)
			resetGlobals(s)
			active.Store(s)
			s.tasks.Add(1)
			go func() {
				defer s.tasks.Done()
				s.yield(true)
				body(s)
				s.mu.Lock()
				s.mainDone = true
				s.mu.Unlock()
			}()
			s.loop()
			res.SimTime = time.Since(s.start)
			// Leave the simulation: everything that is still alive runs free.
			s.mu.Lock()
			s.aborted = true
			for _, w := range s.parked {
				w.ch <- struct{}{}
			}
			s.parked = nil
			s.mu.Unlock()
			active.Store(nil)
		})
	}()
	res.Steps = s.Steps
	res.Yields = s.Yields
	res.Preempts = s.Preempts
	res.Stalls = s.Stalls
	res.MaxReady = s.MaxReady
	res.Hash = s.hash
	res.SchedHash = s.schedHash
	res.Stalled = s.Stalled
	res.OverStep = s.OverStep
	res.Violations = s.Violations
	res.Probes = s.Probes
	res.Faults = s.Faults
	res.DebugLog = s.debugLog
	return res
}

func (s *Sim) loop() {
	idle := time.Duration(0)
	for {
		synctest.Wait()
		s.mu.Lock()
		s.current = 0
		select {
		case <-s.wake:
		default:
		}
		n := len(s.parked)
		if n > 0 {
			idle = 0
			if s.Steps >= s.Cfg.MaxSteps {
				s.OverStep = true
				s.mu.Unlock()
				return
			}
			// "stalled goroutine" fault: every runnable goroutine stays parked while
			// simulated time passes, so timers fire in the middle of what is, for the
			// parked goroutines, straight-line code between two synchronisation points
			// (a descheduled thread, a GC pause, a slow core).
			// Bounded so that it cannot starve a goroutine beyond the settle bounds the
			// oracles use: at most 12 stalls per run, at most one of them long (1.2 s).
			if s.Cfg.StallPm > 0 && !s.stallsOff && s.Stalls < 12 && s.Choice.Intn(1000) >= 1000-s.Cfg.StallPm {
				d := []time.Duration{time.Microsecond, 150 * time.Microsecond, 3 * time.Millisecond, 1200 * time.Millisecond}[s.Choice.Intn(4)]
				if d > time.Second {
					if s.longStall {
						d = 3 * time.Millisecond
					} else if s.Cfg.LongStallMs > 0 {
						d = time.Duration(s.Cfg.LongStallMs) * time.Millisecond
					}
					s.longStall = true
				}
				s.Stalls++
				s.mix(0x57a11, uint64(d))
				if s.Cfg.Debug {
					s.debugLog = append(s.debugLog, fmt.Sprintf("[step %d t=%v] stall %v with %d runnable", s.Steps, time.Since(s.start), d, n))
				}
				s.mu.Unlock()
				tm := time.NewTimer(d)
				select {
				case <-s.wake:
					tm.Stop()
				case <-tm.C:
				}
				time.Sleep(time.Nanosecond)
				continue
			}
			for _, pw := range s.parked {
				if pw.key == nil {
					pw.key = s.keyLocked(pw.g)
				}
			}
			sort.Slice(s.parked, func(i, j int) bool { return keyLess(s.parked[i].key, s.parked[j].key) })
			idx := s.pickLocked(n)
			w := s.parked[idx]
			s.parked = append(s.parked[:idx], s.parked[idx+1:]...)
			s.current = w.g
			s.Steps++
			if n > s.MaxReady {
				s.MaxReady = n
			}
			s.mix(uint64(idx), uint64(n))
			s.schedHash = (s.schedHash ^ uint64(idx*131+n)) * 1099511628211
			if s.Cfg.Debug {
				s.debugLog = append(s.debugLog, fmt.Sprintf("[step %d t=%v] pick %d/%d g=%d", s.Steps, time.Since(s.start), idx, n, s.denseID(w.g)))
				if debugKeys {
					ks := ""
					for _, pw := range s.parked {
						ks += fmt.Sprintf(" %v", pw.key)
					}
					s.debugLog = append(s.debugLog, fmt.Sprintf("    picked key %v; others:%s", w.key, ks))
				}
			}
			s.mu.Unlock()
			w.ch <- struct{}{}
			continue
		}
		done := s.mainDone
		s.mu.Unlock()
		if done {
			return
		}
		if idle >= s.Cfg.Horizon {
			s.Stalled = true
			return
		}
		// Nothing runnable: let simulated time pass until some goroutine parks.
		t0 := time.Now()
		tm := time.NewTimer(s.Cfg.Horizon - idle)
		select {
		case <-s.wake:
			tm.Stop()
		case <-tm.C:
		}
		// all timers due at this instant must have fired before the ready set is read
		time.Sleep(time.Nanosecond)
		idle += time.Since(t0)
	}
}

func (s *Sim) pickLocked(n int) int {
	if n == 1 {
		return 0
	}
	if s.Cfg.Strategy == StratPrio {
		best, bp := 0, 0
		for i, w := range s.parked {
			p, ok := s.prio[w.g]
			if !ok {
				p = 1 + s.Choice.Intn(1<<20)
				s.prio[w.g] = p
			}
			if i == 0 || p > bp {
				best, bp = i, p
			}
		}
		return best
	}
	return s.Choice.Intn(n)
}

// ---- process-global state that must be reset per run ----

var resetHooks []func(seed uint64)

// OnReset registers a function called at the start of every run (inside the bubble,
// before the main task starts) with a seed derived from the run's choice stream.
func OnReset(f func(seed uint64)) { resetHooks = append(resetHooks, f) }

var poolGen atomic.Uint64

// PoolGeneration is bumped per run; simsync.Pool drops objects of older generations.
func PoolGeneration() uint64 { return poolGen.Load() }

func resetGlobals(s *Sim) {
	poolGen.Add(1)
	seed := s.Choice.Seed()
	crandReset(seed)
	for _, f := range resetHooks {
		f(seed)
	}
}

// Debugf prints to stderr when VERIF_DEBUG is set.
func Debugf(format string, args ...any) {
	if os.Getenv("VERIF_DEBUG") != "" {
		fmt.Fprintf(os.Stderr, format+"\n", args...)
	}
}

// D maps a non-positive timer duration to one nanosecond. The transformer wraps the
// duration argument of time.AfterFunc and (*time.Timer).Reset with it: a timer that is
// due immediately would be run by the Go runtime at a moment the simulator does not
// control (next time the P looks at its timers); one nanosecond later it can only fire
// when the whole bubble is idle, i.e. under scheduler control.
func D(d time.Duration) time.Duration {
	if d <= 0 {
		return time.Nanosecond
	}
	return d
}

// AfterFunc replaces time.AfterFunc in the transformed code. The goroutine the runtime
// starts for the callback gets a logical identity allocated here, at timer creation,
// because the creation order of the goroutines of several timers that are due at the
// same instant is the runtime's timer-heap order, which is not reproducible.
func AfterFunc(d time.Duration, f func()) *time.Timer {
	d = D(d)
	s := active.Load()
	if s == nil {
		return time.AfterFunc(d, f)
	}
	s.mu.Lock()
	s.timerSeq++
	id := s.timerSeq
	s.mu.Unlock()
	return time.AfterFunc(d, func() {
		if active.Load() == s {
			g := goid()
			s.mu.Lock()
			if _, ok := s.keys[g]; !ok {
				s.keys[g] = []int64{-1, id, g}
			}
			s.mu.Unlock()
		}
		f()
	})
}

// SelStart is called by the rewritten form of every select statement with two or more
// communication clauses (engine/xform rewriteSelects): it returns the index of the
// clause that is probed first. When the caller holds the run token the value is drawn
// from the choice stream (0 = source order is the replay default), so which of several
// ready cases a select takes is part of the recorded schedule instead of Go's per-M
// random state; a goroutine that runs without the token uses source order.
func SelStart(n int) int {
	s := active.Load()
	if s == nil || n <= 1 {
		return 0
	}
	g := goid()
	off := 0
	s.mu.Lock()
	if !s.aborted && g == s.current {
		off = s.Choice.Intn(n)
	}
	s.mu.Unlock()
	return off
}

// ElemZero returns the zero value of the element type of a channel; the rewritten
// select uses it to declare the variable a receive clause assigns to without naming
// the type.
func ElemZero[C interface{ ~chan T | ~<-chan T }, T any](c C) (z T) { return z }

// SendVal converts the value of a send clause to the element type of its channel, so
// that the rewritten select can evaluate it exactly once before probing.
func SendVal[C interface{ ~chan T | ~chan<- T }, T any](c C, v T) T { return v }
