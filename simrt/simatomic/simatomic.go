// Package simatomic is a drop-in for sync/atomic whose every operation is a
// scheduling point of the simulator.
package simatomic

import (
	"sync/atomic"

	simrt "github.com/centrifugal/centrifuge/internal/simrt"
)

type Bool struct{ v atomic.Bool }

func (x *Bool) Load() bool         { simrt.Yield(); return x.v.Load() }
func (x *Bool) Store(val bool)     { simrt.Yield(); x.v.Store(val) }
func (x *Bool) Swap(new bool) bool { simrt.Yield(); return x.v.Swap(new) }
func (x *Bool) CompareAndSwap(old, new bool) bool {
	simrt.Yield()
	return x.v.CompareAndSwap(old, new)
}

type Int32 struct{ v atomic.Int32 }

func (x *Int32) Load() int32           { simrt.Yield(); return x.v.Load() }
func (x *Int32) Store(val int32)       { simrt.Yield(); x.v.Store(val) }
func (x *Int32) Swap(new int32) int32  { simrt.Yield(); return x.v.Swap(new) }
func (x *Int32) Add(delta int32) int32 { simrt.Yield(); return x.v.Add(delta) }
func (x *Int32) CompareAndSwap(old, new int32) bool {
	simrt.Yield()
	return x.v.CompareAndSwap(old, new)
}

type Int64 struct{ v atomic.Int64 }

func (x *Int64) Load() int64           { simrt.Yield(); return x.v.Load() }
func (x *Int64) Store(val int64)       { simrt.Yield(); x.v.Store(val) }
func (x *Int64) Swap(new int64) int64  { simrt.Yield(); return x.v.Swap(new) }
func (x *Int64) Add(delta int64) int64 { simrt.Yield(); return x.v.Add(delta) }
func (x *Int64) CompareAndSwap(old, new int64) bool {
	simrt.Yield()
	return x.v.CompareAndSwap(old, new)
}

type Uint32 struct{ v atomic.Uint32 }

func (x *Uint32) Load() uint32            { simrt.Yield(); return x.v.Load() }
func (x *Uint32) Store(val uint32)        { simrt.Yield(); x.v.Store(val) }
func (x *Uint32) Swap(new uint32) uint32  { simrt.Yield(); return x.v.Swap(new) }
func (x *Uint32) Add(delta uint32) uint32 { simrt.Yield(); return x.v.Add(delta) }
func (x *Uint32) CompareAndSwap(old, new uint32) bool {
	simrt.Yield()
	return x.v.CompareAndSwap(old, new)
}

type Uint64 struct{ v atomic.Uint64 }

func (x *Uint64) Load() uint64            { simrt.Yield(); return x.v.Load() }
func (x *Uint64) Store(val uint64)        { simrt.Yield(); x.v.Store(val) }
func (x *Uint64) Swap(new uint64) uint64  { simrt.Yield(); return x.v.Swap(new) }
func (x *Uint64) Add(delta uint64) uint64 { simrt.Yield(); return x.v.Add(delta) }
func (x *Uint64) CompareAndSwap(old, new uint64) bool {
	simrt.Yield()
	return x.v.CompareAndSwap(old, new)
}

type Pointer[T any] struct{ v atomic.Pointer[T] }

func (x *Pointer[T]) Load() *T       { simrt.Yield(); return x.v.Load() }
func (x *Pointer[T]) Store(val *T)   { simrt.Yield(); x.v.Store(val) }
func (x *Pointer[T]) Swap(new *T) *T { simrt.Yield(); return x.v.Swap(new) }
func (x *Pointer[T]) CompareAndSwap(old, new *T) bool {
	simrt.Yield()
	return x.v.CompareAndSwap(old, new)
}

type Value struct{ v atomic.Value }

func (x *Value) Load() any        { simrt.Yield(); return x.v.Load() }
func (x *Value) Store(val any)    { simrt.Yield(); x.v.Store(val) }
func (x *Value) Swap(new any) any { simrt.Yield(); return x.v.Swap(new) }
func (x *Value) CompareAndSwap(old, new any) bool {
	simrt.Yield()
	return x.v.CompareAndSwap(old, new)
}

func LoadInt32(addr *int32) int32             { simrt.Yield(); return atomic.LoadInt32(addr) }
func StoreInt32(addr *int32, val int32)       { simrt.Yield(); atomic.StoreInt32(addr, val) }
func AddInt32(addr *int32, d int32) int32     { simrt.Yield(); return atomic.AddInt32(addr, d) }
func LoadInt64(addr *int64) int64             { simrt.Yield(); return atomic.LoadInt64(addr) }
func StoreInt64(addr *int64, val int64)       { simrt.Yield(); atomic.StoreInt64(addr, val) }
func AddInt64(addr *int64, d int64) int64     { simrt.Yield(); return atomic.AddInt64(addr, d) }
func LoadUint32(addr *uint32) uint32          { simrt.Yield(); return atomic.LoadUint32(addr) }
func StoreUint32(addr *uint32, val uint32)    { simrt.Yield(); atomic.StoreUint32(addr, val) }
func AddUint32(addr *uint32, d uint32) uint32 { simrt.Yield(); return atomic.AddUint32(addr, d) }
func LoadUint64(addr *uint64) uint64          { simrt.Yield(); return atomic.LoadUint64(addr) }
func StoreUint64(addr *uint64, val uint64)    { simrt.Yield(); atomic.StoreUint64(addr, val) }
func AddUint64(addr *uint64, d uint64) uint64 { simrt.Yield(); return atomic.AddUint64(addr, d) }
func CompareAndSwapInt32(addr *int32, old, new int32) bool {
	simrt.Yield()
	return atomic.CompareAndSwapInt32(addr, old, new)
}
func CompareAndSwapInt64(addr *int64, old, new int64) bool {
	simrt.Yield()
	return atomic.CompareAndSwapInt64(addr, old, new)
}
func CompareAndSwapUint32(addr *uint32, old, new uint32) bool {
	simrt.Yield()
	return atomic.CompareAndSwapUint32(addr, old, new)
}
func CompareAndSwapUint64(addr *uint64, old, new uint64) bool {
	simrt.Yield()
	return atomic.CompareAndSwapUint64(addr, old, new)
}
