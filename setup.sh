#!/bin/bash
# MANIFEST.setup_cmd: build the tools and the simulation binaries for the current tree, offline.
export PATH=/opt/veriftools/go1.26.8/bin:$PATH GOFLAGS=-mod=mod GOPROXY=off GOSUMDB=off GOTOOLCHAIN=local CGO_ENABLED=0
export GOCACHE=${GOCACHE:-/verif/.cache/go-build}
cd /verif || exit 2
mkdir -p .bin .build .cache evidence replays
# the Go build cache grows with every distinct tree that is built (30 GB after the campaign of
# deliberately broken trees): keep it bounded, a rebuild from nothing takes under two minutes
if [ -d .cache/go-build ] && [ "$(du -sm .cache/go-build 2>/dev/null | cut -f1)" -gt 4096 ]; then rm -rf .cache/go-build; fi
(cd engine && go build -o ../.bin/driver ./driver && go build -o ../.bin/xform ./xform) || exit 2
engine/build.sh >/dev/null || exit 2
echo "setup ok"
